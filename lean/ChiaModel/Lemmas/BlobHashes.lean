import ChiaModel.Lemmas.BlobInteg
/-
C18: `calculate_lazy_hashes` on the blocks is `HT.recompute` on the abstraction.
-/
namespace ChiaModel.Blob
open List M

/-- the stored tree with the stored hashes and dirty flags of its internal nodes -/
def IT.toHT (bl : List Block) : IT → HT
  | .leaf _ k v h => .leaf k v h
  | .node i l r => .node (blockAt bl i).node.hash (blockAt bl i).dirty (IT.toHT bl l) (IT.toHT bl r)

theorem IT.toHT_erase (bl : List Block) (t : IT) : (t.toHT bl).erase = t.erase := by
  induction t with
  | leaf i k v h => rfl
  | node i l r ihl ihr => simp [IT.toHT, HT.erase, IT.erase, ihl, ihr]

theorem IT.toHT_congr {bl bl' : List Block} (t : IT) (h : ∀ j ∈ t.indices, bl'[j]? = bl[j]?) :
    t.toHT bl' = t.toHT bl := by
  induction t with
  | leaf i k v hh => rfl
  | node i l r ihl ihr =>
    have hi : blockAt bl' i = blockAt bl i := by simp [blockAt, h i (by simp [IT.indices])]
    simp only [IT.toHT, hi]
    rw [ihl (fun j hj => h j (by simp [IT.indices, hj])), ihr (fun j hj => h j (by simp [IT.indices, hj]))]

theorem IT.lcfItems_congr {bl bl' : List Block} (t : IT) (h : ∀ j ∈ t.indices, bl'[j]? = bl[j]?) :
    t.lcfItems bl' = t.lcfItems bl := by
  induction t with
  | leaf i k v hh => rfl
  | node i l r ihl ihr =>
    have hi := h i (by simp [IT.indices])
    have hd : dirtyAt bl' i = dirtyAt bl i := by simp only [dirtyAt, hi]
    have hit : itemAt bl' i = itemAt bl i := by simp only [itemAt, hi]
    simp only [IT.lcfItems]
    rw [ihl (fun j hj => h j (by simp [IT.indices, hj])), ihr (fun j hj => h j (by simp [IT.indices, hj])), hd, hit]

theorem Rep.toHT_hash {bl : List Block} {p : Option Nat} {c : IT} (h : Rep bl p c) :
    (c.toHT bl).hash = (blockAt bl c.idx).node.hash := by
  cases c with
  | leaf i k v hh =>
    simp only [Rep] at h
    simp [IT.toHT, HT.hash, blockAt, IT.idx, h, Node.hash]
  | node i l r => rfl

/-- the abstraction with hashes of a stored tree -/
theorem Rep.absH' {bl : List Block} {p : Option Nat} {t : IT} (h : Rep bl p t) (f : Nat) (hf : t.depth < f) :
    absHAux bl f t.idx p = some (t.toHT bl) := by
  induction t generalizing p f with
  | leaf i k v hh =>
    cases f with
    | zero => omega
    | succ f =>
      simp only [Rep] at h
      show absHAux bl (f + 1) i p = _
      simp [absHAux, h, Node.parent, IT.toHT]
  | node i l r ihl ihr =>
    cases f with
    | zero => omega
    | succ f =>
      simp only [Rep] at h
      obtain ⟨⟨d, hh, hb⟩, hl, hr⟩ := h
      simp only [IT.depth] at hf
      show absHAux bl (f + 1) i p = _
      simp [absHAux, hb, Node.parent, ihl hl f (by omega), ihr hr f (by omega), IT.toHT, blockAt, Node.hash]

theorem Good.absH {s : Blob} {t : IT} (g : Good s t) : absH s = some (some (t.toHT s.blocks)) := by
  have hlen : t.indices.length ≤ s.blocks.length := nodup_bound _ _ g.nodup g.rep.lt
  have hd := t.depth_lt_indices
  have e1 := g.rep.absH' (s.blocks.length + 1) (by omega)
  rw [g.root] at e1
  have hne : s.blocks.isEmpty = false := by
    have := g.rep.lt 0 (g.root ▸ t.idx_mem)
    cases hb : s.blocks with
    | nil => rw [hb] at this; simp at this
    | cons _ _ => rfl
  unfold Blob.absH
  rw [hne]
  simp [e1]

theorem recomputeAll_append (a b : List (Nat × Block)) (s : Blob) :
    recomputeAll (a ++ b) s = match recomputeAll a s with
      | (.ok _, s') => recomputeAll b s'
      | (.error e, s') => (.error e, s') := by
  induction a generalizing s with
  | nil => rfl
  | cons x a ih =>
    simp only [List.cons_append, recomputeAll, bind_run]
    cases recomputeOne x s with
    | mk r s1 =>
      cases r with
      | error e => rfl
      | ok u => simp only; exact ih s1

/-- recomputing below one node -/
theorem recompute_sim (c : IT) :
    ∀ (p : Option Nat) (cur : Blob), Rep cur.blocks p c → c.indices.Nodup → (∀ j ∈ c.indices, j ∉ cur.free) →
    ∃ S, recomputeAll (c.lcfItems cur.blocks) cur = (.ok (), S) ∧ SameShape cur S
      ∧ (∀ j, j ∉ c.indices → S.blocks[j]? = cur.blocks[j]?)
      ∧ c.toHT S.blocks = (c.toHT cur.blocks).recompute := by
  induction c with
  | leaf i k v h =>
    intro p cur _ _ _
    exact ⟨cur, rfl, SameShape.refl _, fun _ _ => rfl, rfl⟩
  | node i l r ihl ihr =>
    intro p cur hrep hn hfree
    simp only [Rep] at hrep
    obtain ⟨⟨d, hh, hb⟩, hl, hr⟩ := hrep
    simp only [IT.indices, List.nodup_cons] at hn
    obtain ⟨hil, hnlr⟩ := hn
    obtain ⟨hnl, hnr, hdis⟩ := T.nodup_append' hnlr
    have hbA : blockAt cur.blocks i = { dirty := d, node := .internal hh p l.idx r.idx } := by simp [blockAt, hb]
    cases d with
    | false =>
      refine ⟨cur, ?_, SameShape.refl _, fun _ _ => rfl, ?_⟩
      · simp [IT.lcfItems, dirtyAt, hb, recomputeAll, pure_run]
      · simp [IT.toHT, hbA, HT.recompute]
    | true =>
      -- left subtree
      obtain ⟨S1, e1, ss1, fr1, ht1⟩ := ihl (some i) cur hl hnl (fun j hj => hfree j (by simp [IT.indices, hj]))
      -- right subtree, on S1
      have hr1 : Rep S1.blocks (some i) r := ss1.rep hr
      have agree1 : ∀ j ∈ r.indices, S1.blocks[j]? = cur.blocks[j]? := fun j hj => fr1 j (fun hm => hdis j hm hj)
      obtain ⟨S2, e2, ss2, fr2, ht2⟩ := ihr (some i) S1 hr1 hnr (fun j hj => by
        rw [ss1.free]; exact hfree j (by simp [IT.indices, hj]))
      rw [IT.lcfItems_congr r agree1] at e2
      rw [IT.toHT_congr r agree1] at ht2
      -- the node itself
      have hi2 : S2.blocks[i]? = some { dirty := true, node := .internal hh p l.idx r.idx } := by
        rw [fr2 i (fun hm => hil (List.mem_append.mpr (Or.inr hm))),
          fr1 i (fun hm => hil (List.mem_append.mpr (Or.inl hm)))]
        exact hb
      have hil2 : i < S2.blocks.length := (List.getElem?_eq_some_iff.mp hi2).1
      have hl2 : Rep S2.blocks (some i) l := ss2.rep (ss1.rep hl)
      have hr2 : Rep S2.blocks (some i) r := ss2.rep hr1
      obtain ⟨bL, hbL, _, _⟩ := hl2.root_block
      obtain ⟨bR, hbR, _, _⟩ := hr2.root_block
      have agreeL2 : ∀ j ∈ l.indices, S2.blocks[j]? = S1.blocks[j]? := fun j hj => fr2 j (fun hm => hdis j hj hm)
      have hLh : bL.node.hash = ((l.toHT cur.blocks).recompute).hash := by
        rw [← ht1, ← IT.toHT_congr l agreeL2, hl2.toHT_hash]
        simp [blockAt, hbL]
      have hRh : bR.node.hash = ((r.toHT cur.blocks).recompute).hash := by
        rw [← ht2, hr2.toHT_hash]
        simp [blockAt, hbR]
      have hfi : i ∉ S2.free := by
        rw [ss2.free, ss1.free]; exact hfree i (by simp [IT.indices])
      have hw := sameShape_write S2 i true false hh (internalHash bL.node.hash bR.node.hash) p l.idx r.idx hi2 hfi
      generalize hS3 : S2.write i { dirty := false, node := .internal (internalHash bL.node.hash bR.node.hash) p l.idx r.idx } = S3 at hw
      have hget3 : ∀ j, S3.blocks[j]? = if j = i then
          some { dirty := false, node := .internal (internalHash bL.node.hash bR.node.hash) p l.idx r.idx }
          else S2.blocks[j]? := by
        intro j; rw [← hS3, write_get _ _ _ hil2]
      refine ⟨S3, ?_, (ss1.trans ss2).trans hw, ?_, ?_⟩
      · simp only [IT.lcfItems, dirtyAt, hb, if_true, itemAt]
        rw [List.append_assoc, recomputeAll_append, e1]
        simp only
        rw [recomputeAll_append, e2]
        simp only [recomputeAll, recomputeOne, bind_run, getHash_run _ S2 bL hbL, getHash_run _ S2 bR hbR,
          writeBlock_run, if_neg (Nat.not_lt.mpr (Nat.le_of_lt hil2)), hS3, pure_run]
      · intro j hj
        simp only [IT.indices, List.mem_cons, List.mem_append, not_or] at hj
        rw [hget3 j, if_neg hj.1, fr2 j hj.2.2, fr1 j hj.2.1]
      · have hi3 : blockAt S3.blocks i
            = { dirty := false, node := .internal (internalHash bL.node.hash bR.node.hash) p l.idx r.idx } := by
          simp [blockAt, hget3 i]
        have aL : ∀ j ∈ l.indices, S3.blocks[j]? = S1.blocks[j]? := by
          intro j hj
          have hji : j ≠ i := fun e => hil (List.mem_append.mpr (Or.inl (e ▸ hj)))
          rw [hget3 j, if_neg hji, agreeL2 j hj]
        have aR : ∀ j ∈ r.indices, S3.blocks[j]? = S2.blocks[j]? := by
          intro j hj
          have hji : j ≠ i := fun e => hil (List.mem_append.mpr (Or.inr (e ▸ hj)))
          rw [hget3 j, if_neg hji]
        have nh : ∀ (x : Hash) (q : Option Nat) (a b : Nat), (Node.internal x q a b).hash = x := fun _ _ _ _ => rfl
        simp only [IT.toHT, hi3, hbA, HT.recompute, if_true, nh]
        rw [IT.toHT_congr l aL, IT.toHT_congr r aR, ht1, ht2, hLh, hRh]

/-- **`calculate_lazy_hashes` is `HT.recompute` on the abstraction** -/
theorem hashes_commute {s : Blob} {t : Option IT} (hs : SInv s t) :
    absH (calcLazyHashes s).2 = (absH s).map (Option.map HT.recompute) := by
  cases t with
  | none =>
    simp only [SInv] at hs
    subst hs
    rfl
  | some t =>
    have g : Good s t := hs
    obtain ⟨S, eS, ss, _, hT⟩ := recompute_sim t none s g.rep g.nodup (fun j hj => ((g.live_iff j).mpr hj).2)
    have hrun : calcLazyHashes s = (.ok (), S) := by
      rw [calcLazyHashes_run, lcf_good g]
      simp only [eS, if_true]
    rw [hrun]
    simp only
    rw [(g.sameShape ss).absH, g.absH, hT]
    rfl

end ChiaModel.Blob
