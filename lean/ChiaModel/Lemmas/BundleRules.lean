import ChiaModel.Spec.BundleRules
import ChiaModel.Lemmas.Rules
/-
C01: from one spend to the whole of `parse_spends`.
 * `spend_rules`      parse_single_spend + process_single_spend + parse_conditions for one spend
 * `spendLoop_rules`  the spend loop, each spend judged against the summary of the spends before it
 * `spendsAcceptFrom_iff`  … which is equivalent to the order-free bundle rules (no double spend = `Nodup`
                      of the coin ids; the fee budget is monotone, so "every prefix fits" = "the total fits")
 * `parseSpends_rules` the whole function
-/
set_option linter.unusedSimpArgs false
namespace ChiaModel.Rules
open ChiaModel ChiaModel.Cond ChiaModel.TL

/-- the state `spendHeader` returns for a spend with attributes `a` -/
def headerState (ret : Bundle) (st : PState) (a : Attrs) (cc : Nat) : CSt :=
  { ret := { ret with removalAmount := ret.removalAmount + a.amount }
    st := { st with spentCoins := st.spentCoins ++ [a.coinId], spentPuzzles := a.puzzleHash :: st.spentPuzzles }
    spend := { parentId := a.parentId, coinAmount := a.amount, puzzleHash := a.puzzleHash, coinId := a.coinId,
               executionCost := cc } }

theorem spendStart_eq (env : Env) (cc : Nat) (ret : Bundle) (st : PState) (a : Attrs) :
    spendStart env cc ret st a = newSpendVisit env (bump (headerState ret st a cc) (spendCharge env.flags)) := rfl

theorem spendStart_fresh (env : Env) (cc : Nat) (ret : Bundle) (st : PState) (a : Attrs) :
    FreshSpend (spendStart env cc ret st a).spend := by
  unfold spendStart newSpendVisit
  cases env.mempool
  · constructor <;> simp [bump, HAS_RELATIVE_CONDITION]
  · constructor <;> simp [bump]
    unfold HAS_RELATIVE_CONDITION ELIGIBLE_FOR_DEDUP ELIGIBLE_FOR_FF
    split <;> decide

theorem spendStart_attrs (env : Env) (cc : Nat) (ret : Bundle) (st : PState) (a : Attrs) :
    attrsOf (spendStart env cc ret st a).spend = a := by
  unfold spendStart newSpendVisit
  cases env.mempool <;> simp [bump, attrsOf]

theorem spendStart_fee (env : Env) (cc : Nat) (ret : Bundle) (st : PState) (a : Attrs) :
    (spendStart env cc ret st a).ret.reserveFee = ret.reserveFee := by
  unfold spendStart newSpendVisit
  cases env.mempool <;> simp [bump]

theorem spendStart_countdown (env : Env) (cc : Nat) (ret : Bundle) (st : PState) (a : Attrs) :
    (spendStart env cc ret st a).countdown = 1024 := by
  unfold spendStart newSpendVisit
  cases env.mempool <;> simp [bump]

theorem spendStart_counter (env : Env) (cc : Nat) (ret : Bundle) (st : PState) (a : Attrs) :
    (spendStart env cc ret st a).counter = 0 := by
  unfold spendStart newSpendVisit
  cases env.mempool <;> simp [bump]

theorem spendTuple_some {sp conds : Sexp} {a : Attrs} (h : spendTuple sp = some (a, conds)) :
    ∃ parent ph amt r v, sp = .pair (.atom parent) (.pair (.atom ph) (.pair (.atom amt) (.pair conds r))) ∧
      parent.length = 32 ∧ ph.length = 32 ∧ sanitizeUint amt 8 = .ok v ∧ a = ⟨parent, ph, coinId parent ph amt, v⟩ := by
  unfold spendTuple at h
  split at h
  · rename_i parent ph amt conds' r
    split at h
    · rename_i hl
      split at h
      · rename_i v hv
        injection h with h; injection h with h1 h2
        subst h2
        exact ⟨parent, ph, amt, r, v, rfl, hl.1, hl.2, hv, h1.symm⟩
      · cases h
    · cases h
  · cases h

theorem header_iff (ret : Bundle) (st : PState) (sp conds : Sexp) (cc : Nat) (s0 : CSt) :
    (∃ parent ph amount, parseSingleSpend sp = .ok (parent, ph, amount, conds) ∧
        spendHeader ret st parent ph amount cc = .ok s0) ↔
      ∃ a, spendTuple sp = some (a, conds) ∧ a.coinId ∉ st.spentCoins ∧ s0 = headerState ret st a cc := by
  constructor
  · rintro ⟨parent, ph, amount, hp, hh⟩
    obtain ⟨r, rfl⟩ := parseSingleSpend_ok hp
    obtain ⟨parentId, puzzleHash, amountBuf, myAmount, rfl, l1, rfl, l2, rfl, hs, hc, rfl⟩ := spendHeader_ok hh
    refine ⟨⟨parentId, puzzleHash, coinId parentId puzzleHash amountBuf, myAmount⟩, ?_, ?_, rfl⟩
    · simp [spendTuple, l1, l2, hs]
    · simpa using hc
  · rintro ⟨a, ht, hc, rfl⟩
    obtain ⟨parent, ph, amt, r, v, rfl, l1, l2, hs, rfl⟩ := spendTuple_some ht
    refine ⟨.atom parent, .atom ph, .atom amt, rfl, ?_⟩
    have hc' : st.spentCoins.contains (coinId parent ph amt) = false := by simpa using hc
    simp [spendHeader, sanitizeHash, atomOf, parseAmount, l1, l2, hs, hc', headerState, bind, Except.bind, pure, Except.pure]
    exact hc


theorem parseSpend_some {flags : Nat} {sp : Sexp} {p : PSpend} (h : parseSpend flags sp = some p) :
    ∃ conds cs, spendTuple sp = some (p.attrs, conds) ∧ sexpList conds = some cs ∧ parseAll flags cs = .ok p.items := by
  unfold parseSpend at h
  cases ht : spendTuple sp with
  | none => rw [ht] at h; cases h
  | some q =>
    obtain ⟨a, conds⟩ := q
    rw [ht] at h; simp only at h
    cases hl : sexpList conds with
    | none => rw [hl] at h; cases h
    | some cs =>
      rw [hl] at h; simp only at h
      cases hp : parseAll flags cs with
      | error e => rw [hp] at h; cases h
      | ok items =>
        rw [hp] at h; simp only at h
        injection h with h; subst h
        exact ⟨conds, cs, rfl, hl, hp⟩

theorem parseSpend_intro {flags : Nat} {sp conds : Sexp} {a : Attrs} {cs : List Sexp} {items : List Item}
    (h1 : spendTuple sp = some (a, conds)) (h2 : sexpList conds = some cs) (h3 : parseAll flags cs = .ok items) :
    parseSpend flags sp = some ⟨a, items⟩ := by
  simp [parseSpend, h1, h2, h3]

/-- **one spend**: `parse_single_spend` + `process_single_spend` + `parse_conditions` accept iff the spend
parses, its coin was not spent before, its cost fits, and its conditions satisfy the per-spend rules; the
result is `enterSpend` -/
theorem spend_rules (env : Env) (cc : Nat) (ret : Bundle) (st : PState) (hfee : ret.reserveFee < 2 ^ 64) (sp : Sexp)
    (m : Nat) (ret' : Bundle) (st' : PState) (m' : Nat) :
    (∃ parent ph amount conds, parseSingleSpend sp = .ok (parent, ph, amount, conds) ∧
        processSingleSpend env ret st parent ph amount conds cc m = .ok ((ret', st'), m')) ↔
      ∃ p, parseSpend env.flags sp = some p ∧ p.attrs.coinId ∉ st.spentCoins ∧
        spendCost env.flags p ≤ m ∧ m' = m - spendCost env.flags p ∧
        SpendAccepts env p.attrs ret.reserveFee 1024 (itemConds p.items) ∧
        (ret', st') = enterSpend env cc (ret, st) p := by
  constructor
  · rintro ⟨parent, ph, amount, conds, hp, h⟩
    obtain ⟨s0, m1, s, hh, hc, rfl, hl, hf⟩ := processSingleSpend_ok h
    obtain ⟨a, ht, hnot, rfl⟩ := (header_iff ret st sp conds cc s0).mp ⟨parent, ph, amount, hp, hh⟩
    rw [← spendStart_eq] at hl
    obtain ⟨cs, items, hcs, hpa, hk, hm, hacc, hs⟩ :=
      (condLoop_rules env conds _ (spendStart_fresh env cc ret st a) (by rw [spendStart_fee]; exact hfee) _ s m').mp hl
    rw [spendStart_attrs, spendStart_fee, spendStart_countdown] at hacc
    rw [spendStart_counter] at hs
    refine ⟨⟨a, items⟩, parseSpend_intro ht hcs hpa, hnot, ?_, ?_, hacc, ?_⟩
    · simp only [spendCost]; omega
    · simp only [spendCost]; omega
    · rw [hf, hs]; rfl
  · rintro ⟨p, hp, hnot, hk, hm, hacc, hr⟩
    obtain ⟨conds, cs, ht, hcs, hpa⟩ := parseSpend_some hp
    obtain ⟨parent, ph, amount, hps, hh⟩ := (header_iff ret st sp conds cc _).mpr ⟨p.attrs, ht, hnot, rfl⟩
    refine ⟨parent, ph, amount, conds, hps, ?_⟩
    simp only [spendCost] at hk hm
    have hl : condLoop env conds (spendStart env cc ret st p.attrs) (m - spendCharge env.flags) =
        .ok (wrapF (allBits env.mempool 0 p.items) (spendResult env (spendStart env cc ret st p.attrs) (itemConds p.items))
          (totalCount p.items) (totalCost env.flags p.items), m') := by
      refine (condLoop_rules env conds _ (spendStart_fresh env cc ret st p.attrs) (by rw [spendStart_fee]; exact hfee) _ _ m').mpr
        ⟨cs, p.items, hcs, hpa, by omega, by omega, ?_, ?_⟩
      · rw [spendStart_attrs, spendStart_fee, spendStart_countdown]; exact hacc
      · rw [spendStart_counter]
    rw [spendStart_eq] at hl
    rw [processSingleSpend_intro hh (by omega) hl, hr]
    rfl


/-! ## the spend loop -/

theorem enterSpend_fee (env : Env) (cc : Nat) (acc : Bundle × PState) (p : PSpend) :
    (enterSpend env cc acc p).1.reserveFee = acc.1.reserveFee + feeSum (itemConds p.items) := by
  simp [enterSpend, finishSpend, wrapF, sr_reserveFee, spendStart_fee]

theorem spendStart_spentCoins (env : Env) (cc : Nat) (ret : Bundle) (st : PState) (a : Attrs) :
    (spendStart env cc ret st a).st.spentCoins = st.spentCoins ++ [a.coinId] := by
  unfold spendStart newSpendVisit
  cases env.mempool <;> simp [bump]

theorem enterSpend_spentCoins (env : Env) (cc : Nat) (acc : Bundle × PState) (p : PSpend) :
    (enterSpend env cc acc p).2.spentCoins = acc.2.spentCoins ++ [p.attrs.coinId] := by
  simp only [enterSpend, finishSpend, wrapF]
  exact spendStart_spentCoins env cc acc.1 acc.2 p.attrs

/-- acceptance of the spends in listing order, each against the summary of the spends before it
(internal form; `spendsAcceptFrom_iff` turns it into the order-free rules) -/
def SpendsAcceptFrom (env : Env) (cc : Nat) : List PSpend → Bundle × PState → Prop
  | [], _ => True
  | p :: ps, acc =>
    p.attrs.coinId ∉ acc.2.spentCoins ∧ SpendAccepts env p.attrs acc.1.reserveFee 1024 (itemConds p.items) ∧
      SpendsAcceptFrom env cc ps (enterSpend env cc acc p)

theorem spendLoop_proper (env : Env) (cc : Nat) : ∀ (t : Sexp) ret st n m r,
    spendLoop env cc t ret st n m = .ok r → ∃ l, sexpList t = some l := by
  intro t
  induction t with
  | atom b =>
    intro ret st n m r h
    cases b with
    | nil => exact ⟨[], rfl⟩
    | cons x xs => simp [spendLoop] at h
  | pair sp nxt _ ih =>
    intro ret st n m r h
    simp only [spendLoop] at h
    split at h
    · cases h
    · cases hp : parseSingleSpend sp with
      | error e => rw [hp] at h; cases h
      | ok q =>
        obtain ⟨parent, ph, amount, conds⟩ := q
        rw [hp] at h; simp only at h
        obtain ⟨⟨⟨r1, s1⟩, m1⟩, _, h⟩ := bind_ok h
        obtain ⟨l, hl⟩ := ih r1 s1 (n - 1) m1 r h
        exact ⟨sp :: l, by simp [sexpList, hl]⟩

theorem spendLoop_cons (env : Env) (cc : Nat) (sp nxt : Sexp) (ret : Bundle) (st : PState) (n m : Nat)
    (r : (Bundle × PState) × Nat) :
    spendLoop env cc (.pair sp nxt) ret st n m = .ok r ↔
      n ≠ 0 ∧ ∃ ret1 st1 m1, (∃ parent ph amount conds, parseSingleSpend sp = .ok (parent, ph, amount, conds) ∧
        processSingleSpend env ret st parent ph amount conds cc m = .ok ((ret1, st1), m1)) ∧
        spendLoop env cc nxt ret1 st1 (n - 1) m1 = .ok r := by
  simp only [spendLoop]
  by_cases hn : n = 0
  · rw [if_pos hn]
    exact ⟨fun h => (by cases h), fun h => absurd hn h.1⟩
  · rw [if_neg hn]
    cases hp : parseSingleSpend sp with
    | error e =>
      simp only
      exact ⟨fun h => (by cases h), fun ⟨_, _, _, _, ⟨_, _, _, _, h, _⟩, _⟩ => (by cases h)⟩
    | ok q =>
      obtain ⟨parent, ph, amount, conds⟩ := q
      simp only
      constructor
      · intro h
        obtain ⟨⟨⟨r1, s1⟩, m1⟩, h1, h⟩ := bind_ok h
        exact ⟨hn, r1, s1, m1, ⟨parent, ph, amount, conds, rfl, h1⟩, h⟩
      · rintro ⟨_, r1, s1, m1, ⟨parent', ph', amount', conds', he, h1⟩, h⟩
        injection he with he
        injection he with e1 he; injection he with e2 he; injection he with e3 e4
        subst e1 e2 e3 e4
        rw [h1]; exact h

theorem spendLoop_rules (env : Env) (cc : Nat) : ∀ (spends : List Sexp) (t : Sexp), sexpList t = some spends →
    ∀ (ret : Bundle) (st : PState) (n m : Nat) (ret' : Bundle) (st' : PState) (m' : Nat), ret.reserveFee < 2 ^ 64 →
    (spendLoop env cc t ret st n m = .ok ((ret', st'), m') ↔
      ∃ ps, parseSpendList env.flags spends = some ps ∧ spends.length ≤ n ∧ bundleCost env.flags ps ≤ m ∧
        m' = m - bundleCost env.flags ps ∧ SpendsAcceptFrom env cc ps (ret, st) ∧
        (ret', st') = ps.foldl (enterSpend env cc) (ret, st)) := by
  intro spends
  induction spends with
  | nil =>
    intro t ht ret st n m ret' st' m' _
    rw [sexpList_nil ht]
    simp only [spendLoop, parseSpendList]
    constructor
    · intro h
      injection h with h; injection h with h1 h2; injection h1 with h1 h3
      exact ⟨[], rfl, Nat.zero_le _, by simp [bundleCost], by simp [bundleCost, h2], trivial, by simp [h1, h3]⟩
    · rintro ⟨ps, hps, _, _, hm, _, hr⟩
      injection hps with hps; subst hps
      simp only [bundleCost, List.map_nil, List.sum_nil, Nat.sub_zero, List.foldl_nil] at hm hr
      rw [hm, hr]
  | cons sp spends ih =>
    intro t ht ret st n m ret' st' m' hfee
    obtain ⟨nxt, rfl, hn⟩ := sexpList_cons ht
    rw [spendLoop_cons]
    constructor
    · rintro ⟨hn0, ret1, st1, m1, h1, h2⟩
      obtain ⟨p, hp, hnot, hk, hm1, hacc, hr1⟩ := (spend_rules env cc ret st hfee sp m ret1 st1 m1).mp h1
      have hfee1 : ret1.reserveFee < 2 ^ 64 := by
        have := enterSpend_fee env cc (ret, st) p
        rw [← hr1] at this
        rw [this]; exact hacc.2.2.2.2.2.2.2.2
      obtain ⟨ps, hps, hlen, hK, hm', haccs, hr⟩ := (ih nxt hn ret1 st1 (n - 1) m1 ret' st' m' hfee1).mp h2
      refine ⟨p :: ps, by simp [parseSpendList, hp, hps], by simp only [List.length_cons]; omega, ?_, ?_, ?_, ?_⟩
      · simp only [bundleCost, List.map_cons, List.sum_cons] at hK ⊢; omega
      · simp only [bundleCost, List.map_cons, List.sum_cons] at hK hm' ⊢; omega
      · exact ⟨hnot, hacc, by rw [← hr1]; exact haccs⟩
      · rw [List.foldl_cons, ← hr1]; exact hr
    · rintro ⟨ps0, hps, hlen, hK, hm', haccs, hr⟩
      simp only [parseSpendList] at hps
      cases hp : parseSpend env.flags sp with
      | none => rw [hp] at hps; cases hps
      | some p =>
        cases hps' : parseSpendList env.flags spends with
        | none => rw [hp, hps'] at hps; cases hps
        | some ps =>
          rw [hp, hps'] at hps
          injection hps with hps; subst hps
          obtain ⟨hnot, hacc, haccs⟩ := haccs
          simp only [bundleCost, List.map_cons, List.sum_cons, List.length_cons, List.foldl_cons] at hK hm' hlen hr
          have h1 := (spend_rules env cc ret st hfee sp m (enterSpend env cc (ret, st) p).1 (enterSpend env cc (ret, st) p).2
            (m - spendCost env.flags p)).mpr ⟨p, hp, hnot, by omega, rfl, hacc, rfl⟩
          have hfee1 : (enterSpend env cc (ret, st) p).1.reserveFee < 2 ^ 64 := by
            rw [enterSpend_fee]; exact hacc.2.2.2.2.2.2.2.2
          refine ⟨by omega, _, _, _, h1, ?_⟩
          exact (ih nxt hn _ _ (n - 1) _ ret' st' m' hfee1).mpr
            ⟨ps, hps', by omega, by simp only [bundleCost]; omega, by simp only [bundleCost]; omega, haccs, hr⟩


/-! ## from "each spend against the spends before it" to the order-free rules -/

/-- budget rule: the fee clause is the only one that reads the fee reserved before -/
theorem accepts_fee_split (env : Env) (a : Attrs) (f cd : Nat) (cs : List Cond) :
    SpendAccepts env a f cd cs ↔ SpendAccepts env a 0 cd cs ∧ f + feeSum cs < 2 ^ 64 := by
  unfold SpendAccepts
  constructor
  · rintro ⟨a1, a2, a3, a4, a5, a6, a7, a8, a9⟩
    exact ⟨⟨a1, a2, a3, a4, a5, a6, a7, a8, by omega⟩, a9⟩
  · rintro ⟨⟨a1, a2, a3, a4, a5, a6, a7, a8, _⟩, a9⟩
    exact ⟨a1, a2, a3, a4, a5, a6, a7, a8, a9⟩

theorem spendsAcceptFrom_iff (env : Env) (cc : Nat) : ∀ (ps : List PSpend) (acc : Bundle × PState),
    acc.2.spentCoins.Nodup → acc.1.reserveFee < 2 ^ 64 →
    (SpendsAcceptFrom env cc ps acc ↔
      (acc.2.spentCoins ++ ps.map (·.attrs.coinId)).Nodup ∧
      (∀ p ∈ ps, SpendAccepts env p.attrs 0 1024 (itemConds p.items)) ∧
      acc.1.reserveFee + bundleFee ps < 2 ^ 64) := by
  intro ps
  induction ps with
  | nil => intro acc h1 h2; simp [SpendsAcceptFrom, bundleFee, h1, h2]
  | cons p ps ih =>
    intro acc h1 h2
    have hc1 := enterSpend_spentCoins env cc acc p
    have hf1 := enterSpend_fee env cc acc p
    have hassoc : acc.2.spentCoins ++ (p :: ps).map (·.attrs.coinId) =
        (acc.2.spentCoins ++ [p.attrs.coinId]) ++ ps.map (·.attrs.coinId) := by simp
    have hbf : bundleFee (p :: ps) = feeSum (itemConds p.items) + bundleFee ps := by simp [bundleFee]
    simp only [SpendsAcceptFrom]
    rw [hassoc, hbf, accepts_fee_split]
    constructor
    · rintro ⟨hnot, ⟨hsa, hfee⟩, hrest⟩
      have hn1 : (enterSpend env cc acc p).2.spentCoins.Nodup := by
        rw [hc1, List.nodup_append]
        refine ⟨h1, by simp, ?_⟩
        intro a ha b hb
        simp at hb; subst hb
        intro e; subst e; exact hnot ha
      obtain ⟨r1, r2, r3⟩ := (ih _ hn1 (by rw [hf1]; exact hfee)).mp hrest
      rw [hc1] at r1; rw [hf1] at r3
      refine ⟨r1, ?_, by omega⟩
      intro q hq
      simp only [List.mem_cons] at hq
      rcases hq with rfl | hq
      · exact hsa
      · exact r2 q hq
    · rintro ⟨r1, r2, r3⟩
      have hsub : (acc.2.spentCoins ++ [p.attrs.coinId]).Nodup := (List.nodup_append.mp r1).1
      have hnot : p.attrs.coinId ∉ acc.2.spentCoins := by
        intro hmem; exact (List.nodup_append.mp hsub).2.2 _ hmem _ (by simp) rfl
      refine ⟨hnot, ⟨r2 p (by simp), by omega⟩, ?_⟩
      exact (ih _ (by rw [hc1]; exact hsub) (by rw [hf1]; omega)).mpr
        ⟨by rw [hc1]; exact r1, fun q hq => r2 q (by simp [hq]), by rw [hf1]; omega⟩

/-! ## the whole of `parse_spends` -/

theorem finishBundle_iff (env : Env) (sigOk : List (Bytes × Bytes) → Bool) (ret : Bundle) (st : PState) (b : Bundle) :
    finishBundle env sigOk ret st = .ok b ↔
      validateConditions (postProcess env ret st) st = .ok () ∧
      (hasFlag env.flags Gen.flagDontValidateSignature = false → sigOk st.pkmPairs = true) ∧
      b = { postProcess env ret st with validatedSignature := !hasFlag env.flags Gen.flagDontValidateSignature } := by
  unfold finishBundle
  simp only
  cases hv : validateConditions (postProcess env ret st) st with
  | error e => simp
  | ok u =>
    simp only
    cases hn : hasFlag env.flags Gen.flagDontValidateSignature <;> cases hs : sigOk st.pkmPairs <;>
      simp [eq_comm]


theorem parseSpendList_length (flags : Nat) : ∀ (l : List Sexp) (ps : List PSpend),
    parseSpendList flags l = some ps → ps.length = l.length := by
  intro l
  induction l with
  | nil => intro ps h; injection h with h; subst h; rfl
  | cons sp l ih =>
    intro ps h
    simp only [parseSpendList] at h
    cases hp : parseSpend flags sp with
    | none => rw [hp] at h; cases h
    | some p =>
      cases hl : parseSpendList flags l with
      | none => rw [hp, hl] at h; cases h
      | some ps' =>
        rw [hp, hl] at h
        injection h with h; subst h
        simp [ih ps' hl]

theorem parseBundle_some {flags : Nat} {t : Sexp} {ps : List PSpend} (h : parseBundle flags t = some ps) :
    ∃ iter ext spends, t = .pair iter ext ∧ sexpList iter = some spends ∧ parseSpendList flags spends = some ps := by
  cases t with
  | atom b => cases h
  | pair iter ext =>
    simp only [parseBundle] at h
    cases hl : sexpList iter with
    | none => rw [hl] at h; cases h
    | some spends => rw [hl] at h; exact ⟨iter, ext, spends, rfl, hl, h⟩

/-- `parse_spends`, with the deferred validation still as the model's Boolean check -/
theorem parseSpends_rules (env : Env) (sigOk : List (Bytes × Bytes) → Bool) (t : Sexp) (L cc : Nat) (b : Bundle) (st : PState) :
    parseSpends env sigOk t L cc = .ok (b, st) ↔
      ∃ ps, parseBundle env.flags t = some ps ∧
        ps.length ≤ spendLimit env.flags ∧ (ps.map (·.attrs.coinId)).Nodup ∧ bundleCost env.flags ps ≤ L ∧
        (∀ p ∈ ps, SpendAccepts env p.attrs 0 1024 (itemConds p.items)) ∧ bundleFee ps < 2 ^ 64 ∧
        validateConditions (postProcess env (bundleFold env cc ps).1 (bundleFold env cc ps).2) (bundleFold env cc ps).2 = .ok () ∧
        (hasFlag env.flags Gen.flagDontValidateSignature = false → sigOk (bundleFold env cc ps).2.pkmPairs = true) ∧
        (b, st) = bundleSummary env cc ps := by
  have h0 : ((({} : Bundle), ({} : PState)).2.spentCoins).Nodup := List.nodup_nil
  have hz : (({} : Bundle), ({} : PState)).1.reserveFee < 2 ^ 64 := by decide
  constructor
  · intro h
    unfold parseSpends at h
    cases t with
    | atom x => cases h
    | pair iter ext =>
      simp only [first] at h
      cases hl : spendLoop env cc iter {} {} (spendLimit env.flags) L with
      | error e => rw [hl] at h; cases h
      | ok q =>
        obtain ⟨⟨ret, st0⟩, left⟩ := q
        rw [hl] at h; simp only at h
        cases hb : finishBundle env sigOk ret st0 with
        | error e => rw [hb] at h; cases h
        | ok b' =>
          rw [hb] at h; simp only at h
          injection h with h; injection h with e1 e2
          obtain ⟨spends, hsp⟩ := spendLoop_proper env cc iter _ _ _ _ _ hl
          obtain ⟨ps, hps, hlen, hK, hleft, hacc, hr⟩ :=
            (spendLoop_rules env cc spends iter hsp {} {} _ L ret st0 left (by decide)).mp hl
          obtain ⟨a1, a2, a3⟩ := (spendsAcceptFrom_iff env cc ps ({}, {}) h0 hz).mp hacc
          obtain ⟨v1, v2, v3⟩ := (finishBundle_iff env sigOk ret st0 b').mp hb
          have hfold : bundleFold env cc ps = (ret, st0) := hr.symm
          refine ⟨ps, by simp [parseBundle, hsp, hps], by rw [parseSpendList_length _ _ _ hps]; exact hlen,
            by simpa using a1, hK, a2, by simpa using a3, by rw [hfold]; exact v1, by rw [hfold]; exact v2, ?_⟩
          simp only [bundleSummary, hfold]
          rw [← e1, ← e2, v3]
          have : L - left = bundleCost env.flags ps := by omega
          rw [this]
  · rintro ⟨ps, hpb, hlen, hnd, hK, hsa, hfee, hv, hsig, hr⟩
    obtain ⟨iter, ext, spends, rfl, hsp, hps⟩ := parseBundle_some hpb
    have hl : spendLoop env cc iter {} {} (spendLimit env.flags) L =
        .ok (((bundleFold env cc ps).1, (bundleFold env cc ps).2), L - bundleCost env.flags ps) := by
      refine (spendLoop_rules env cc spends iter hsp {} {} _ L _ _ _ (by decide)).mpr
        ⟨ps, hps, by rw [← parseSpendList_length _ _ _ hps]; exact hlen, hK, rfl, ?_, rfl⟩
      exact (spendsAcceptFrom_iff env cc ps ({}, {}) h0 hz).mpr ⟨by simpa using hnd, hsa, by simpa using hfee⟩
    have hb := (finishBundle_iff env sigOk (bundleFold env cc ps).1 (bundleFold env cc ps).2 _).mpr ⟨hv, hsig, rfl⟩
    unfold parseSpends
    simp only [first]
    rw [hl]; simp only
    rw [hb]; simp only
    rw [hr]
    simp only [bundleSummary]
    have : L - (L - bundleCost env.flags ps) = bundleCost env.flags ps := by omega
    rw [this]


/-! ## closed forms of the two mempool eligibility flags of a pushed spend (Appendix A.3) -/

theorem dedup_bit (f0 : Nat) (hf0 : f0 = 1 ∨ f0 = 5) (any b1 b2 : Bool) (P1 P2 : Prop) [Decidable P1] [Decidable P2] :
    let f := clr (b1, b2) (bif any then f0 + HAS_RELATIVE_CONDITION else f0)
    let f1 := if f &&& ELIGIBLE_FOR_FF ≠ 0 ∧ P1 then clearFlag f ELIGIBLE_FOR_FF else f
    let f2 := if f1 &&& ELIGIBLE_FOR_DEDUP ≠ 0 ∧ P2 then clearFlag f1 ELIGIBLE_FOR_DEDUP else f1
    (f2 &&& ELIGIBLE_FOR_DEDUP ≠ 0) ↔ b1 = false ∧ ¬ P2 := by
  intro f f1 f2
  by_cases h1 : P1 <;> by_cases h2 : P2 <;> simp only [f2, f1, f, h1, h2, and_true, and_false, if_false, not_true_eq_false, not_false_eq_true] <;>
    rcases hf0 with rfl | rfl <;> cases any <;> cases b1 <;> cases b2 <;> decide

/-- the DEDUP bit the visitor clears over a list of items: some AGG_SIG or message condition -/
theorem bitsOf_fst_iff (items : List Item) :
    (bitsOf true items).1 = false ↔
      ∀ c ∈ itemConds items, (∀ op pk msg, c ≠ .aggSig op pk msg) ∧ (∀ m d g, c ≠ .sendMessage m d g) ∧
        (∀ src m g, c ≠ .receiveMessage src m g) := by
  induction items with
  | nil => simp [bitsOf, itemConds]
  | cons it items ih =>
    have hcons : (bitsOf true (it :: items)).1 = ((itemBits true 0 it).1 || (bitsOf true items).1) := by
      simp [bitsOf]
    rw [hcons, Bool.or_eq_false_iff, ih]
    cases it with
    | unknown => simp [itemBits, itemConds]
    | known op c =>
      simp only [itemBits, itemConds, List.forall_mem_cons]
      refine and_congr ?_ Iff.rfl
      cases c <;> simp [visitBits]


theorem spendStart_flags_mempool (env : Env) (hm : env.mempool = true) (cc : Nat) (ret : Bundle) (st : PState) (a : Attrs) :
    (spendStart env cc ret st a).spend.flags = 1 ∨ (spendStart env cc ret st a).spend.flags = 5 := by
  unfold spendStart newSpendVisit
  rw [if_pos hm]
  simp only [bump, ELIGIBLE_FOR_DEDUP, ELIGIBLE_FOR_FF]
  by_cases h : a.amount % 2 = 1 <;> simp [h]

/-- **Closed form of ELIGIBLE_FOR_DEDUP** (Appendix A.3) for the spend record pushed by `enterSpend` under
the mempool visitor -/
theorem dedup_flag_closed_form (env : Env) (cc : Nat) (acc : Bundle × PState) (p : PSpend) (sp : Spend)
    (hm : env.mempool = true) (hl : (enterSpend env cc acc p).1.spends.getLast? = some sp) :
    (sp.flags &&& ELIGIBLE_FOR_DEDUP ≠ 0 ↔
      (∀ c ∈ itemConds p.items, (∀ op pk msg, c ≠ .aggSig op pk msg) ∧ (∀ m d g, c ≠ .sendMessage m d g) ∧
        (∀ src m g, c ≠ .receiveMessage src m g)) ∧
      p.attrs.amount ≤ additions (itemConds p.items)) := by
  simp only [enterSpend, finishSpend, List.getLast?_append, List.getLast?_singleton, Option.some_or, Option.some.injEq] at hl
  subst hl
  have hf0 := spendStart_flags_mempool env hm cc acc.1 acc.2 p.attrs
  have hamt : (spendStart env cc acc.1 acc.2 p.attrs).spend.coinAmount = p.attrs.amount :=
    congrArg Attrs.amount (spendStart_attrs env cc acc.1 acc.2 p.attrs)
  unfold postSpend
  simp only [hm, Bool.not_true, Bool.false_eq_true, if_false]
  rw [← bitsOf_fst_iff, ← allBits_fst true p.items 0]
  have key := dedup_bit _ hf0 (anyNotEphemeral (itemConds p.items)) (allBits true 0 p.items).1 (allBits true 0 p.items).2
    ((!((newCoins (itemConds p.items)).any (fun c => c.ph == (spendStart env cc acc.1 acc.2 p.attrs).spend.puzzleHash
        && c.amount == (spendStart env cc acc.1 acc.2 p.attrs).spend.coinAmount))) = true)
    ((spendStart env cc acc.1 acc.2 p.attrs).spend.coinAmount > additions (itemConds p.items))
  rw [← hamt]
  exact Iff.trans Iff.rfl (key.trans (and_congr Iff.rfl Nat.not_lt))


theorem ff_bit (f0 : Nat) (hf0 : f0 = 1 ∨ f0 = 5) (any b1 b2 : Bool) (P1 P2 : Prop) [Decidable P1] [Decidable P2] :
    let f := clr (b1, b2) (bif any then f0 + HAS_RELATIVE_CONDITION else f0)
    let f1 := if f &&& ELIGIBLE_FOR_FF ≠ 0 ∧ P1 then clearFlag f ELIGIBLE_FOR_FF else f
    let f2 := if f1 &&& ELIGIBLE_FOR_DEDUP ≠ 0 ∧ P2 then clearFlag f1 ELIGIBLE_FOR_DEDUP else f1
    (f2 &&& ELIGIBLE_FOR_FF ≠ 0) ↔ f0 = 5 ∧ b2 = false ∧ ¬ P1 := by
  intro f f1 f2
  by_cases h1 : P1 <;> by_cases h2 : P2 <;> simp only [f2, f1, f, h1, h2, and_true, and_false, if_false, not_true_eq_false, not_false_eq_true] <;>
    rcases hf0 with rfl | rfl <;> cases any <;> cases b1 <;> cases b2 <;> decide

theorem blocksFF_eq (i : Nat) (c : Cond) : (visitBits true i c).2 = blocksFF i c := by
  cases c <;> simp [visitBits, blocksFF]

theorem allBits_snd_iff : ∀ (items : List Item) (n : Nat),
    (allBits true n items).2 = false ↔ ∀ i c, (itemConds items)[i]? = some c → blocksFF (n + i) c = false := by
  intro items
  induction items with
  | nil => intro n; simp [allBits, itemConds]
  | cons it items ih =>
    intro n
    cases it with
    | unknown =>
      simp only [allBits, itemBits, itemCount, Bool.false_or, Nat.add_zero, itemConds]
      exact ih n
    | known op c =>
      simp only [allBits, itemBits, itemCount, itemConds, Bool.or_eq_false_iff, blocksFF_eq]
      rw [ih (n + 1)]
      constructor
      · rintro ⟨h0, h1⟩ i c' hi
        cases i with
        | zero => simp at hi; subst hi; simpa using h0
        | succ j =>
          simp at hi
          have := h1 j c' hi
          rw [show n + (j + 1) = n + 1 + j by omega]; exact this
      · intro h
        refine ⟨by simpa using h 0 c (by simp), fun j c' hj => ?_⟩
        have := h (j + 1) c' (by simpa using hj)
        rw [show n + (j + 1) = n + 1 + j by omega] at this; exact this

theorem spendStart_flags_five (env : Env) (hm : env.mempool = true) (cc : Nat) (ret : Bundle) (st : PState) (a : Attrs) :
    (spendStart env cc ret st a).spend.flags = 5 ↔ a.amount % 2 = 1 := by
  unfold spendStart newSpendVisit
  rw [if_pos hm]
  simp only [bump, ELIGIBLE_FOR_DEDUP, ELIGIBLE_FOR_FF]
  by_cases h : a.amount % 2 = 1 <;> simp [h]

theorem not_not_any_iff (l : List NewCoin) (ph : Bytes) (amount : Nat) :
    ¬ ((!(l.any (fun c => c.ph == ph && c.amount == amount))) = true) ↔
      (ph, amount) ∈ l.map (fun nc => (nc.ph, nc.amount)) := by
  simp only [Bool.not_eq_true', Bool.not_eq_false, List.any_eq_true, Bool.and_eq_true, beq_iff_eq, List.mem_map,
    Prod.mk.injEq]

/-- **Closed form of ELIGIBLE_FOR_FF after the spend's own conditions** (Appendix A.3, the per-spend part;
the bundle-level part is `postProcess`) for the spend record pushed by `enterSpend` under the mempool
visitor: the amount is odd, no recognised condition blocks fast-forward at its position, and some created
coin has the spend's own puzzle hash and amount -/
theorem ff_flag_closed_form (env : Env) (cc : Nat) (acc : Bundle × PState) (p : PSpend) (sp : Spend)
    (hm : env.mempool = true) (hl : (enterSpend env cc acc p).1.spends.getLast? = some sp) :
    (sp.flags &&& ELIGIBLE_FOR_FF ≠ 0 ↔
      p.attrs.amount % 2 = 1 ∧
      (∀ i c, (itemConds p.items)[i]? = some c → blocksFF i c = false) ∧
      (p.attrs.puzzleHash, p.attrs.amount) ∈ createKeys (itemConds p.items)) := by
  simp only [enterSpend, finishSpend, List.getLast?_append, List.getLast?_singleton, Option.some_or, Option.some.injEq] at hl
  subst hl
  have hf0 := spendStart_flags_mempool env hm cc acc.1 acc.2 p.attrs
  have hamt : (spendStart env cc acc.1 acc.2 p.attrs).spend.coinAmount = p.attrs.amount :=
    congrArg Attrs.amount (spendStart_attrs env cc acc.1 acc.2 p.attrs)
  have hph : (spendStart env cc acc.1 acc.2 p.attrs).spend.puzzleHash = p.attrs.puzzleHash :=
    congrArg Attrs.puzzleHash (spendStart_attrs env cc acc.1 acc.2 p.attrs)
  unfold postSpend
  simp only [hm, Bool.not_true, Bool.false_eq_true, if_false]
  have key := ff_bit _ hf0 (anyNotEphemeral (itemConds p.items)) (allBits true 0 p.items).1 (allBits true 0 p.items).2
    ((!((newCoins (itemConds p.items)).any (fun c => c.ph == (spendStart env cc acc.1 acc.2 p.attrs).spend.puzzleHash
        && c.amount == (spendStart env cc acc.1 acc.2 p.attrs).spend.coinAmount))) = true)
    ((spendStart env cc acc.1 acc.2 p.attrs).spend.coinAmount > additions (itemConds p.items))
  refine Iff.trans Iff.rfl (key.trans ?_)
  rw [spendStart_flags_five env hm, allBits_snd_iff, not_not_any_iff, hamt, hph]
  simp only [Nat.zero_add, createKeys]

theorem allBits_nomempool : ∀ (items : List Item) (n : Nat), allBits false n items = (false, false) := by
  intro items
  induction items with
  | nil => intro n; rfl
  | cons it items ih =>
    intro n
    simp only [allBits, ih]
    cases it <;> rfl

theorem flags_empty_visitor (env : Env) (cc : Nat) (acc : Bundle × PState) (p : PSpend) (sp : Spend)
    (hm : env.mempool = false) (hl : (enterSpend env cc acc p).1.spends.getLast? = some sp) :
    sp.flags = (bif anyNotEphemeral (itemConds p.items) then HAS_RELATIVE_CONDITION else 0) := by
  simp only [enterSpend, finishSpend, List.getLast?_append, List.getLast?_singleton, Option.some_or, Option.some.injEq] at hl
  subst hl
  have h0 : (spendStart env cc acc.1 acc.2 p.attrs).spend.flags = 0 := by
    unfold spendStart newSpendVisit
    simp [hm, bump]
  unfold postSpend
  simp only [hm, Bool.not_false, if_true]
  show clr (allBits false 0 p.items) (bif anyNotEphemeral (itemConds p.items) then
      (spendStart env cc acc.1 acc.2 p.attrs).spend.flags + HAS_RELATIVE_CONDITION
    else (spendStart env cc acc.1 acc.2 p.attrs).spend.flags) = _
  rw [allBits_nomempool, clr_ff, h0, Nat.zero_add]

/-! ## small concrete inputs for the non-vacuity examples of Props/C01.lean -/

def okB {α : Type} : R α → Bool | .ok _ => true | .error _ => false

theorem okB_true {α : Type} {r : R α} (h : okB r = true) : ∃ x, r = .ok x := by
  cases r with
  | ok x => exact ⟨x, rfl⟩
  | error e => cases h

theorem okB_false {α : Type} {r : R α} (h : okB r = false) : ∃ e, r = .error e := by
  cases r with
  | ok x => cases h
  | error e => exact ⟨e, rfl⟩

def h32 (b : Nat) : Bytes := List.replicate 32 b
/-- a NIL-terminated CLVM list -/
def slist : List Sexp → Sexp | [] => .atom [] | x :: l => .pair x (slist l)
/-- a condition `(op arg …)` with a one-byte opcode -/
def cnd (op : Nat) (args : List Bytes) : Sexp := slist (.atom [op] :: args.map .atom)
/-- a spend `(parent ph amount conds)`, parent id = 32 × `parent`, puzzle hash = 32 × 2 -/
def spnd (parent : Nat) (amount : Bytes) (conds : List Sexp) : Sexp :=
  slist [.atom (h32 parent), .atom (h32 2), .atom amount, slist conds]
def envB : Env := ⟨0, false, fun _ => true⟩
/-- two spends of 10 mojos: the first creates a coin of 4, reserves a fee of 1 and carries the compatible
relative locks ASSERT_HEIGHT_RELATIVE 5 / ASSERT_BEFORE_HEIGHT_RELATIVE 9; the second asserts its amount -/
def exBundle : Sexp :=
  .pair (slist [spnd 1 [10] [cnd 51 [h32 7, [4]], cnd 52 [[1]], cnd 82 [[5]], cnd 86 [[9]]],
                spnd 3 [10] [cnd 73 [[10]]]]) (.atom [])

def exAttrs : Attrs := ⟨[1], [2], [3], 10⟩
def exEnv : Env := ⟨0, false, fun pk => pk != [0]⟩
/-- one condition list exercising every rule of `SpendAccepts` -/
def exConds : List Cond :=
  [.assertMyCoinId [3], .assertMyParentId [1], .assertMyPuzzlehash [2], .assertMyAmount 10,
   .createCoin [7] 4 none, .createCoin [7] 5 (some [9]), .reserveFee 1, .reserveFee 2,
   .assertHeightRelative 5, .assertHeightRelative 3, .assertBeforeHeightRelative 9, .assertSecondsRelative 100,
   .assertBeforeSecondsRelative 101, .assertMyBirthHeight 3, .assertMyBirthHeight 3, .assertMyBirthSeconds 77,
   .assertHeightAbsolute 4, .assertBeforeHeightAbsolute 2,
   .aggSig Gen.opAggSigMe [1] [2], .aggSig Gen.opAggSigUnsafe [1] [2],
   .createCoinAnnouncement [1], .sendMessage 0 [] [5], .assertEphemeral, .skip, .softfork 10000]

/-! ## order-freeness, formally: the rules do not depend on the listing order -/

theorem accepts_perm (env : Env) (a : Attrs) (fb cd : Nat) {cs cs' : List Cond} (hp : List.Perm cs cs') :
    SpendAccepts env a fb cd cs ↔ SpendAccepts env a fb cd cs' := by
  have hm : ∀ c, c ∈ cs ↔ c ∈ cs' := fun c => hp.mem_iff
  have hfm : ∀ {β : Type} (f : Cond → Option β) (x : β), x ∈ cs.filterMap f ↔ x ∈ cs'.filterMap f :=
    fun f x => (hp.filterMap f).mem_iff
  unfold SpendAccepts
  have e1 : (∀ c ∈ cs, selfAssertOk a c = true) ↔ (∀ c ∈ cs', selfAssertOk a c = true) :=
    ⟨fun h c hc => h c ((hm c).mpr hc), fun h c hc => h c ((hm c).mp hc)⟩
  have e2 : (∀ c ∈ cs, aggSigOk env c = true) ↔ (∀ c ∈ cs', aggSigOk env c = true) :=
    ⟨fun h c hc => h c ((hm c).mpr hc), fun h c hc => h c ((hm c).mp hc)⟩
  have e3 : (createKeys cs).Nodup ↔ (createKeys cs').Nodup := ((hp.filterMap _).map _).nodup_iff
  have e8 : announceCount cs = announceCount cs' := hp.countP_eq _
  have e9 : feeSum cs = feeSum cs' := (hp.filterMap _).sum_nat
  rw [e1, e2, e3, e8, e9]
  simp only [birthHeights, birthSeconds, heightRels, beforeHeightRels, secondsRels, beforeSecondsRels, hfm]

end ChiaModel.Rules
