import ChiaModel.Spec.ConditionRules
import ChiaModel.Lemmas.PermLoop
import ChiaModel.Lemmas.TimeLocks
/-
C01: the per-spend refinement.  The fold of `applyCond` over the parsed conditions of a spend
(`applyAll`) accepts iff the order-free rules of `Spec/ConditionRules.lean` hold, and then the state is
the one the summary describes.

Proof shape (DESIGN Appendix C.7): induction over the list from the right, so that the start state is
fixed and the state after a prefix is, by induction, `spendResult` of that prefix.  One step needs
 (A) `spendResult (cs ++ [c]) = condUpd (spendResult cs) c`      (every summary field is a fold), and
 (B) `SpendAccepts (cs ++ [c]) ↔ SpendAccepts cs ∧ condOk (spendResult cs) c`
where (B) is, per rule: a guard that looks at one condition only (ASSERT_MY_*, keys); a pairwise
symmetric guard, where the later condition of a bad pair sees the folded value of the earlier ones
(duplicate CREATE_COIN against the list so far, relative lock against the min / max so far, birth
against the value so far); or a monotone budget (fee, announcement count).
-/
set_option linter.unusedSimpArgs false
namespace ChiaModel.Rules
open ChiaModel ChiaModel.Cond ChiaModel.TL

/-! ## generic: induction from the right, folds -/

theorem snoc_induction {α : Type} {P : List α → Prop} (hnil : P []) (hsnoc : ∀ l a, P l → P (l ++ [a])) :
    ∀ l, P l := by
  have h : ∀ l : List α, P l.reverse := by
    intro l
    induction l with
    | nil => exact hnil
    | cons a l ih => rw [List.reverse_cons]; exact hsnoc _ _ ih
  intro l
  have := h l.reverse
  rwa [List.reverse_reverse] at this

theorem maxOpt_snoc (l : List Nat) (v : Nat) : maxOpt (l ++ [v]) = optMax (maxOpt l) v := by
  cases l with
  | nil => rfl
  | cons a l => simp [maxOpt, optMax, List.foldl_append]

theorem minOpt_snoc (l : List Nat) (v : Nat) : minOpt (l ++ [v]) = optMin (minOpt l) v := by
  cases l with
  | nil => rfl
  | cons a l => simp [minOpt, optMin, List.foldl_append]

theorem maxList_snoc (l : List Nat) (v : Nat) : maxList (l ++ [v]) = max (maxList l) v := by
  simp [maxList, List.foldl_append]

theorem minOpt2_optMin (p o : Option Nat) (v : Nat) : minOpt2 p (optMin o v) = optMin (minOpt2 p o) v := by
  cases p <;> cases o <;> simp [minOpt2, optMin, Nat.min_assoc]

theorem minOpt2_none (p : Option Nat) : minOpt2 p none = p := by cases p <;> rfl

/-- `maxOpt` is the maximum in the sense of `MaxSpec` (C03) -/
theorem maxOpt_spec : ∀ l : List Nat, MaxSpec (maxOpt l) l :=
  snoc_induction (by simp [maxOpt, MaxSpec]) (fun l v ih => by rw [maxOpt_snoc]; exact MaxSpec_snoc v ih)

/-- `minOpt` is the minimum in the sense of `MinSpec` (C03) -/
theorem minOpt_spec : ∀ l : List Nat, MinSpec (minOpt l) l :=
  snoc_induction (by simp [minOpt, MinSpec]) (fun l v ih => by rw [minOpt_snoc]; exact MinSpec_snoc v ih)

/-- `maxList` is the maximum with 0 neutral in the sense of `AbsMaxSpec` (C03) -/
theorem maxList_spec : ∀ l : List Nat, AbsMaxSpec (maxList l) l :=
  snoc_induction (by simp [maxList, AbsMaxSpec]) (fun l v ih => by rw [maxList_snoc]; exact AbsMaxSpec_snoc v ih)

/-- pairwise guard, "before" side: the folded minimum is `≤ x` iff some element is -/
theorem optLe_minOpt (l : List Nat) (x : Nat) : optLe (minOpt l) x = false ↔ ∀ b ∈ l, x < b := by
  have h := minOpt_spec l
  cases hm : minOpt l with
  | none => rw [hm] at h; simp only [MinSpec] at h; subst h; simp [optLe]
  | some m =>
    rw [hm] at h; simp only [MinSpec] at h
    simp only [optLe, decide_eq_false_iff_not, Nat.not_le]
    constructor
    · intro hx b hb; have := h.2 b hb; omega
    · intro hx; exact hx m h.1

/-- pairwise guard, "after" side: the folded maximum is `≥ x` iff some element is -/
theorem optGe_maxOpt (l : List Nat) (x : Nat) : optGe (maxOpt l) x = false ↔ ∀ a ∈ l, a < x := by
  have h := maxOpt_spec l
  cases hm : maxOpt l with
  | none => rw [hm] at h; simp only [MaxSpec] at h; subst h; simp [optGe]
  | some m =>
    rw [hm] at h; simp only [MaxSpec] at h
    simp only [optGe, decide_eq_false_iff_not, Nat.not_le]
    constructor
    · intro hx b hb; have := h.2 b hb; omega
    · intro hx; exact hx m h.1

/-- pairwise guard for "all equal": the new value is compared with the common value so far -/
theorem allEq_snoc (l : List Nat) (x : Nat) :
    (∀ v ∈ l ++ [x], ∀ w ∈ l ++ [x], v = w) ↔ (∀ v ∈ l, ∀ w ∈ l, v = w) ∧ isSomeNe (commonValue l) x = false := by
  constructor
  · intro h
    refine ⟨fun v hv w hw => h v (by simp [hv]) w (by simp [hw]), ?_⟩
    cases l with
    | nil => rfl
    | cons a l => simpa [commonValue, isSomeNe] using h a (by simp) x (by simp)
  · rintro ⟨h1, h2⟩
    cases l with
    | nil => intro v hv w hw; simp at hv hw; rw [hv, hw]
    | cons a l =>
      have ha : a = x := by simpa [commonValue, isSomeNe] using h2
      have hall : ∀ v ∈ a :: l ++ [x], v = x := by
        intro v hv
        simp only [List.mem_append, List.mem_singleton] at hv
        rcases hv with hv | hv
        · rw [h1 v hv a (by simp), ha]
        · exact hv
      intro v hv w hw; rw [hall v hv, hall w hw]

theorem commonValue_snoc (l : List Nat) (x : Nat) (h : isSomeNe (commonValue l) x = false) :
    commonValue (l ++ [x]) = some x := by
  cases l with
  | nil => rfl
  | cons a l =>
    have ha : a = x := by simpa [commonValue, isSomeNe] using h
    simp [commonValue, ha]

/-- under the "all equal" rule the reported value is the common value in the sense of `SameSpec` (C03) -/
theorem commonValue_spec (l : List Nat) (h : ∀ v ∈ l, ∀ w ∈ l, v = w) : SameSpec (commonValue l) l := by
  cases l with
  | nil => simp [commonValue, SameSpec]
  | cons a l =>
    simp only [commonValue, List.head?_cons, SameSpec]
    exact ⟨by simp, fun v hv => h v hv a (by simp)⟩

/-! ## (B) acceptance of a list extended by one condition -/

theorem filterMap_snoc {α β : Type} (f : α → Option β) (l : List α) (a : α) :
    (l ++ [a]).filterMap f = l.filterMap f ++ (f a).toList := by
  cases h : f a <;> simp [List.filterMap_append, h]

theorem forall_mem_snoc {α : Type} (p : α → Prop) (l : List α) (a : α) :
    (∀ x ∈ l ++ [a], p x) ↔ (∀ x ∈ l, p x) ∧ p a := by
  constructor
  · intro h; exact ⟨fun x hx => h x (List.mem_append_left _ hx), h a (by simp)⟩
  · rintro ⟨h1, h2⟩ x hx
    rcases List.mem_append.mp hx with hx | hx
    · exact h1 x hx
    · have : x = a := by simpa using hx
      rw [this]; exact h2

theorem mem_toList_iff {α : Type} (o : Option α) (x : α) : x ∈ o.toList ↔ o = some x := by
  cases o <;> simp [eq_comm]

theorem allEq_snoc_opt (l : List Nat) (o : Option Nat) :
    (∀ v ∈ l ++ o.toList, ∀ w ∈ l ++ o.toList, v = w) ↔
      (∀ v ∈ l, ∀ w ∈ l, v = w) ∧ ∀ x, o = some x → isSomeNe (commonValue l) x = false := by
  cases o with
  | none => simp
  | some y =>
    simp only [Option.toList_some, allEq_snoc, Option.some.injEq, forall_eq']

theorem pairs_snoc_opt (A B : List Nat) (oa ob : Option Nat) :
    (∀ x ∈ A ++ oa.toList, ∀ b ∈ B ++ ob.toList, x < b) ↔
      (∀ x ∈ A, ∀ b ∈ B, x < b) ∧
      ((∀ x, oa = some x → ∀ b ∈ B, x < b) ∧ (∀ b, ob = some b → ∀ x ∈ A, x < b) ∧
        (∀ x b, oa = some x → ob = some b → x < b)) := by
  constructor
  · intro h
    exact ⟨fun x hx b hb => h x (List.mem_append_left _ hx) b (List.mem_append_left _ hb),
      fun x hx b hb => h x (List.mem_append_right _ ((mem_toList_iff _ _).mpr hx)) b (List.mem_append_left _ hb),
      fun b hb x hx => h x (List.mem_append_left _ hx) b (List.mem_append_right _ ((mem_toList_iff _ _).mpr hb)),
      fun x b hx hb => h x (List.mem_append_right _ ((mem_toList_iff _ _).mpr hx)) b
        (List.mem_append_right _ ((mem_toList_iff _ _).mpr hb))⟩
  · rintro ⟨h1, h2, h3, h4⟩ x hx b hb
    rcases List.mem_append.mp hx with hx | hx <;> rcases List.mem_append.mp hb with hb | hb
    · exact h1 x hx b hb
    · exact h3 b ((mem_toList_iff _ _).mp hb) x hx
    · exact h2 x ((mem_toList_iff _ _).mp hx) b hb
    · exact h4 x b ((mem_toList_iff _ _).mp hx) ((mem_toList_iff _ _).mp hb)

theorem nodup_snoc_opt {α : Type} (l : List α) (o : Option α) :
    (l ++ o.toList).Nodup ↔ l.Nodup ∧ ∀ k, o = some k → k ∉ l := by
  cases o with
  | none => simp
  | some k =>
    simp only [Option.toList_some, Option.some.injEq, forall_eq']
    rw [List.nodup_append]
    simp
    intro _
    constructor
    · intro h hk; exact h k hk rfl
    · intro h a ha e; subst e; exact h ha

def createKeyOf (c : Cond) : Option (Bytes × Nat) := (newCoinOf c).map (fun nc => (nc.ph, nc.amount))

theorem createKeys_snoc (cs : List Cond) (c : Cond) : createKeys (cs ++ [c]) = createKeys cs ++ (createKeyOf c).toList := by
  unfold createKeys newCoins createKeyOf
  rw [filterMap_snoc, List.map_append]
  cases newCoinOf c <;> rfl

/-- what the last condition `c` of a list has to satisfy against the conditions `cs` before it -/
def StepOk (env : Env) (a : Attrs) (fb cd : Nat) (cs : List Cond) (c : Cond) : Prop :=
  selfAssertOk a c = true ∧
  aggSigOk env c = true ∧
  (∀ k, createKeyOf c = some k → k ∉ createKeys cs) ∧
  (∀ x, birthHeightOf c = some x → isSomeNe (commonValue (birthHeights cs)) x = false) ∧
  (∀ x, birthSecondsOf c = some x → isSomeNe (commonValue (birthSeconds cs)) x = false) ∧
  ((∀ x, heightRelOf c = some x → ∀ b ∈ beforeHeightRels cs, x < b) ∧
    (∀ b, beforeHeightRelOf c = some b → ∀ x ∈ heightRels cs, x < b) ∧
    (∀ x b, heightRelOf c = some x → beforeHeightRelOf c = some b → x < b)) ∧
  ((∀ x, secondsRelOf c = some x → ∀ b ∈ beforeSecondsRels cs, x < b) ∧
    (∀ b, beforeSecondsRelOf c = some b → ∀ x ∈ secondsRels cs, x < b) ∧
    (∀ x b, secondsRelOf c = some x → beforeSecondsRelOf c = some b → x < b)) ∧
  (isAnnounceCond c = true → hasFlag env.flags Gen.flagCostConditions = false → announceCount cs + 1 ≤ cd) ∧
  (∀ v, feeOf c = some v → fb + feeSum cs + v < 2 ^ 64)

theorem announceCount_snoc (cs : List Cond) (c : Cond) :
    announceCount (cs ++ [c]) = announceCount cs + (if isAnnounceCond c then 1 else 0) := by
  unfold announceCount
  rw [List.countP_append]
  cases h : isAnnounceCond c <;> simp [List.countP_cons, h]

theorem feeSum_snoc (cs : List Cond) (c : Cond) : feeSum (cs ++ [c]) = feeSum cs + (feeOf c).getD 0 := by
  unfold feeSum fees
  rw [filterMap_snoc]
  cases feeOf c <;> simp

theorem accepts_snoc_step (env : Env) (a : Attrs) (fb cd : Nat) (cs : List Cond) (c : Cond) :
    SpendAccepts env a fb cd (cs ++ [c]) ↔ SpendAccepts env a fb cd cs ∧ StepOk env a fb cd cs c := by
  unfold SpendAccepts StepOk
  rw [forall_mem_snoc, forall_mem_snoc, createKeys_snoc, nodup_snoc_opt]
  unfold birthHeights birthSeconds heightRels beforeHeightRels secondsRels beforeSecondsRels
  rw [filterMap_snoc, filterMap_snoc, filterMap_snoc, filterMap_snoc, filterMap_snoc, filterMap_snoc,
    allEq_snoc_opt, allEq_snoc_opt, pairs_snoc_opt, pairs_snoc_opt, announceCount_snoc, feeSum_snoc]
  constructor
  · rintro ⟨⟨a1, b1⟩, ⟨a2, b2⟩, ⟨a3, b3⟩, ⟨a4, b4⟩, ⟨a5, b5⟩, ⟨a6, b6⟩, ⟨a7, b7⟩, b8, b9⟩
    refine ⟨⟨a1, a2, a3, a4, a5, a6, a7, fun h => by have := b8 h; omega, by omega⟩, b1, b2, b3, b4, b5, b6, b7, ?_, ?_⟩
    · intro hc h; have := b8 h; rw [if_pos hc] at this; exact this
    · intro v hv; rw [hv] at b9; simpa [Nat.add_assoc] using b9
  · rintro ⟨⟨a1, a2, a3, a4, a5, a6, a7, a8, a9⟩, b1, b2, b3, b4, b5, b6, b7, b8, b9⟩
    refine ⟨⟨a1, b1⟩, ⟨a2, b2⟩, ⟨a3, b3⟩, ⟨a4, b4⟩, ⟨a5, b5⟩, ⟨a6, b6⟩, ⟨a7, b7⟩, ?_, ?_⟩
    · intro h
      by_cases hc : isAnnounceCond c = true
      · rw [if_pos hc]; exact b8 hc h
      · rw [if_neg hc]; exact a8 h
    · cases hv : feeOf c with
      | none => simpa using a9
      | some v => simpa [Nat.add_assoc] using b9 v hv


/-! projections of `spendResult` read by the guards -/
section proj
variable (env : Env) (s : CSt) (cs : List Cond)
theorem sr_reserveFee : (spendResult env s cs).ret.reserveFee = s.ret.reserveFee + feeSum cs := rfl
theorem sr_createCoin : (spendResult env s cs).spend.createCoin = newCoins cs := rfl
theorem sr_heightRelative : (spendResult env s cs).spend.heightRelative = maxOpt (heightRels cs) := rfl
theorem sr_secondsRelative : (spendResult env s cs).spend.secondsRelative = maxOpt (secondsRels cs) := rfl
theorem sr_beforeHeightRelative : (spendResult env s cs).spend.beforeHeightRelative = minOpt (beforeHeightRels cs) := rfl
theorem sr_beforeSecondsRelative : (spendResult env s cs).spend.beforeSecondsRelative = minOpt (beforeSecondsRels cs) := rfl
theorem sr_birthHeight : (spendResult env s cs).spend.birthHeight = commonValue (birthHeights cs) := rfl
theorem sr_birthSeconds : (spendResult env s cs).spend.birthSeconds = commonValue (birthSeconds cs) := rfl
theorem sr_coinId : (spendResult env s cs).spend.coinId = s.spend.coinId := rfl
theorem sr_parentId : (spendResult env s cs).spend.parentId = s.spend.parentId := rfl
theorem sr_puzzleHash : (spendResult env s cs).spend.puzzleHash = s.spend.puzzleHash := rfl
theorem sr_coinAmount : (spendResult env s cs).spend.coinAmount = s.spend.coinAmount := rfl
theorem sr_countdown : (spendResult env s cs).countdown =
    if hasFlag env.flags Gen.flagCostConditions then s.countdown else s.countdown - announceCount cs := rfl
end proj

theorem stepOk_iff_condOk (env : Env) (s : CSt) (cs : List Cond) (c : Cond) :
    StepOk env (attrsOf s.spend) s.ret.reserveFee s.countdown cs c ↔ condOk env (spendResult env s cs) c = true := by
  cases c <;>
    simp [StepOk, condOk, decOk, sr_reserveFee, sr_createCoin, sr_heightRelative, sr_secondsRelative, sr_beforeHeightRelative,
      sr_beforeSecondsRelative, sr_birthHeight, sr_birthSeconds, sr_coinId, sr_parentId, sr_puzzleHash, sr_coinAmount,
      sr_countdown, selfAssertOk, aggSigOk, createKeyOf, newCoinOf, birthHeightOf, birthSecondsOf, heightRelOf,
      beforeHeightRelOf, secondsRelOf, beforeSecondsRelOf, isAnnounceCond, feeOf, attrsOf, optLe_minOpt, optGe_maxOpt]
  case aggSig op pk msg => exact and_comm
  case createCoin ph amount hint =>
    simp only [createKeys, List.mem_map, Prod.mk.injEq, not_exists, not_and]
  case reserveFee v => exact decide_eq_true_iff.symm
  case assertMyCoinId id => rfl
  case assertMyParentId id => rfl
  case assertMyPuzzlehash id => rfl
  case assertMyAmount id => rfl
  all_goals (cases hasFlag env.flags Gen.flagCostConditions <;> simp <;> omega)

/-! ## (A) every summary field is a fold -/

section snoc
variable (cs : List Cond) (c : Cond)
theorem heightRels_snoc : heightRels (cs ++ [c]) = heightRels cs ++ (heightRelOf c).toList := filterMap_snoc _ _ _
theorem secondsRels_snoc : secondsRels (cs ++ [c]) = secondsRels cs ++ (secondsRelOf c).toList := filterMap_snoc _ _ _
theorem beforeHeightRels_snoc : beforeHeightRels (cs ++ [c]) = beforeHeightRels cs ++ (beforeHeightRelOf c).toList := filterMap_snoc _ _ _
theorem beforeSecondsRels_snoc : beforeSecondsRels (cs ++ [c]) = beforeSecondsRels cs ++ (beforeSecondsRelOf c).toList := filterMap_snoc _ _ _
theorem birthHeights_snoc : birthHeights (cs ++ [c]) = birthHeights cs ++ (birthHeightOf c).toList := filterMap_snoc _ _ _
theorem birthSeconds_snoc : birthSeconds (cs ++ [c]) = birthSeconds cs ++ (birthSecondsOf c).toList := filterMap_snoc _ _ _
theorem heightAbss_snoc : heightAbss (cs ++ [c]) = heightAbss cs ++ (heightAbsOf c).toList := filterMap_snoc _ _ _
theorem secondsAbss_snoc : secondsAbss (cs ++ [c]) = secondsAbss cs ++ (secondsAbsOf c).toList := filterMap_snoc _ _ _
theorem beforeHeightAbss_snoc : beforeHeightAbss (cs ++ [c]) = beforeHeightAbss cs ++ (beforeHeightAbsOf c).toList := filterMap_snoc _ _ _
theorem beforeSecondsAbss_snoc : beforeSecondsAbss (cs ++ [c]) = beforeSecondsAbss cs ++ (beforeSecondsAbsOf c).toList := filterMap_snoc _ _ _
theorem newCoins_snoc : newCoins (cs ++ [c]) = newCoins cs ++ (newCoinOf c).toList := filterMap_snoc _ _ _
theorem sigsOf_snoc (kind : Nat) : sigsOf kind (cs ++ [c]) = sigsOf kind cs ++ (sigOf kind c).toList := filterMap_snoc _ _ _
theorem additions_snoc : additions (cs ++ [c]) = additions cs + ((newCoinOf c).map (·.amount)).getD 0 := by
  unfold additions
  rw [newCoins_snoc]
  cases newCoinOf c <;> simp
theorem ephemeralCount_snoc :
    ephemeralCount (cs ++ [c]) = ephemeralCount cs + (if isAssertEphemeral c then 1 else 0) := by
  unfold ephemeralCount
  rw [List.countP_append]
  cases h : isAssertEphemeral c <;> simp [List.countP_cons, h]
theorem anyNotEphemeral_snoc : anyNotEphemeral (cs ++ [c]) = (anyNotEphemeral cs || marksNotEphemeral c) := by
  simp [anyNotEphemeral, List.any_append]
end snoc

theorem aggSigSuffix_eq (op : Nat) (sp : Spend) : aggSigSuffix op sp = signedSuffix op (attrsOf sp) := rfl

theorem append_opt_ite {α : Type} (l : List α) (p : Prop) [Decidable p] (x : α) :
    l ++ (if p then some x else none).toList = if p then l ++ [x] else l := by
  by_cases h : p <;> simp [h]

theorem append_ite {α : Type} (a : List α) (p : Prop) [Decidable p] (u v : List α) :
    a ++ (if p then u else v) = if p then a ++ u else a ++ v := by
  by_cases h : p <;> simp [h]

theorem add_two_and' (f : Nat) (h : f &&& HAS_RELATIVE_CONDITION = 0) : (f + HAS_RELATIVE_CONDITION) &&& HAS_RELATIVE_CONDITION ≠ 0 := by
  unfold HAS_RELATIVE_CONDITION at h ⊢
  rw [and_two] at h ⊢; omega

syntax "rsimp" "[" Lean.Parser.Tactic.simpLemma,* "]" : tactic
macro_rules
  | `(tactic| rsimp [$ts,*]) => `(tactic|
    simp [spendResult, enterSummary, spendSummary, condUpd, heightRels_snoc, secondsRels_snoc, beforeHeightRels_snoc, beforeSecondsRels_snoc,
      birthHeights_snoc, birthSeconds_snoc, heightAbss_snoc, secondsAbss_snoc, beforeHeightAbss_snoc, beforeSecondsAbss_snoc,
      newCoins_snoc, sigsOf_snoc, feeSum_snoc, additions_snoc, announceCount_snoc, ephemeralCount_snoc, anyNotEphemeral_snoc, filterMap_snoc,
      heightRelOf, secondsRelOf, beforeHeightRelOf, beforeSecondsRelOf, birthHeightOf, birthSecondsOf, heightAbsOf, secondsAbsOf,
      beforeHeightAbsOf, beforeSecondsAbsOf, feeOf, newCoinOf, sigOf, coinAnnouncementOf, puzzleAnnouncementOf,
      assertCoinAnnouncementOf, assertPuzzleAnnouncementOf, concurrentSpendOf, concurrentPuzzleOf, messageOf, signedPairOf,
      isAnnounceCond, marksNotEphemeral, isAssertEphemeral, List.filterMap_cons, List.filterMap_nil,
      maxOpt_snoc, minOpt_snoc, maxList_snoc, minOpt2_optMin, ane, dec, pushSig, aggSigSuffix_eq, attrsOf, selfKey,
      append_opt_ite, $ts,*])

set_option maxHeartbeats 1000000 in
theorem result_snoc (env : Env) (s : CSt) (hf : s.spend.flags &&& HAS_RELATIVE_CONDITION = 0) (cs : List Cond) (c : Cond)
    (hok : condOk env (spendResult env s cs) c = true) :
    spendResult env s (cs ++ [c]) = condUpd env (spendResult env s cs) c := by
  have hadd := add_two_and' _ hf
  cases c
  case reserveFee => rsimp []; omega
  case createCoin => rsimp []; omega
  case aggSig op pk msg =>
    cases hn : hasFlag env.flags Gen.flagDontValidateSignature <;> rsimp [hn, append_ite]
  case assertHeightRelative v => cases hb : anyNotEphemeral cs <;> rsimp [hb, hf, hadd]
  case assertSecondsRelative v => cases hb : anyNotEphemeral cs <;> rsimp [hb, hf, hadd]
  case assertBeforeHeightRelative v => cases hb : anyNotEphemeral cs <;> rsimp [hb, hf, hadd]
  case assertBeforeSecondsRelative v => cases hb : anyNotEphemeral cs <;> rsimp [hb, hf, hadd]
  case skipRelativeCondition => cases hb : anyNotEphemeral cs <;> rsimp [hb, hf, hadd]
  case assertMyBirthHeight v =>
    have h1 : isSomeNe (commonValue (birthHeights cs)) v = false := by simpa [condOk, sr_birthHeight] using hok
    cases hb : anyNotEphemeral cs <;> rsimp [hb, hf, hadd, commonValue_snoc _ _ h1]
  case assertMyBirthSeconds v =>
    have h1 : isSomeNe (commonValue (birthSeconds cs)) v = false := by simpa [condOk, sr_birthSeconds] using hok
    cases hb : anyNotEphemeral cs <;> rsimp [hb, hf, hadd, commonValue_snoc _ _ h1]
  case createCoinAnnouncement msg => cases hc : hasFlag env.flags Gen.flagCostConditions <;> rsimp [hc] <;> omega
  case createPuzzleAnnouncement msg => cases hc : hasFlag env.flags Gen.flagCostConditions <;> rsimp [hc] <;> omega
  case assertCoinAnnouncement msg => cases hc : hasFlag env.flags Gen.flagCostConditions <;> rsimp [hc] <;> omega
  case assertPuzzleAnnouncement msg => cases hc : hasFlag env.flags Gen.flagCostConditions <;> rsimp [hc] <;> omega
  case assertConcurrentSpend msg => cases hc : hasFlag env.flags Gen.flagCostConditions <;> rsimp [hc] <;> omega
  case assertConcurrentPuzzle msg => cases hc : hasFlag env.flags Gen.flagCostConditions <;> rsimp [hc] <;> omega
  case sendMessage a b c => cases hc : hasFlag env.flags Gen.flagCostConditions <;> rsimp [hc] <;> omega
  case receiveMessage a b c => cases hc : hasFlag env.flags Gen.flagCostConditions <;> rsimp [hc] <;> omega
  case assertEphemeral => rsimp [List.replicate_succ]
  all_goals rsimp []
/-! ## the per-spend refinement -/

theorem result_nil (env : Env) (s : CSt) (h : FreshSpend s.spend) : spendResult env s [] = s := by
  obtain ⟨h1, h2, h3, h4, h5, h6, h7, h8, h9, h10, h11, h12, h13, h14, h15⟩ := h
  rcases s with ⟨ret, st, sp, cd, ctr⟩
  rcases sp with ⟨a1, a2, a3, a4, a5, a6, a7, a8, a9, a10, a11, a12, a13, a14, a15, a16, a17, a18, a19, a20, a21⟩
  rcases ret with ⟨b1, b2, b3, b4, b5, b6, b7, b8, b9, b10, b11, b12, b13⟩
  rcases st with ⟨c1, c2, c3, c4, c5, c6, c7, c8, c9, c10, c11, c12⟩
  simp only at h1 h2 h3 h4 h5 h6 h7 h8 h9 h10 h11 h12 h13 h14 h15
  subst h1 h2 h3 h4 h5 h6 h7 h8 h9 h10 h11 h12 h13 h14
  simp [spendResult, enterSummary, spendSummary, heightRels, secondsRels, beforeHeightRels, beforeSecondsRels, birthHeights,
    birthSeconds, heightAbss, secondsAbss, beforeHeightAbss, beforeSecondsAbss, newCoins, sigsOf, feeSum, fees, additions,
    announceCount, ephemeralCount, anyNotEphemeral, maxOpt, minOpt, maxList, commonValue, minOpt2_none]

theorem applyAll_snoc (env : Env) (s : CSt) (l : List Cond) (c : Cond) :
    applyAll env s (l ++ [c]) = applyAll env s l >>= fun s' => applyCond env s' c := by
  unfold applyAll
  rw [List.foldlM_append]
  congr 1
  funext s'
  simp [List.foldlM_cons, List.foldlM_nil]

theorem applyAll_iff (env : Env) (s : CSt) (hs : FreshSpend s.spend) (hfee : s.ret.reserveFee < 2 ^ 64) :
    ∀ (cs : List Cond) (s' : CSt), applyAll env s cs = .ok s' ↔
      SpendAccepts env (attrsOf s.spend) s.ret.reserveFee s.countdown cs ∧ s' = spendResult env s cs := by
  intro cs
  induction cs using snoc_induction with
  | hnil =>
    intro s'
    rw [applyAll_nil, result_nil env s hs]
    constructor
    · intro h; injection h with h
      refine ⟨?_, h.symm⟩
      simp [SpendAccepts, createKeys, newCoins, birthHeights, birthSeconds, heightRels, secondsRels, announceCount, feeSum, fees, hfee]
    · rintro ⟨_, rfl⟩; rfl
  | hsnoc cs c ih =>
    intro s''
    rw [applyAll_snoc, accepts_snoc_step, stepOk_iff_condOk]
    constructor
    · intro h
      obtain ⟨s', h1, h2⟩ := bind_ok h
      obtain ⟨ha, rfl⟩ := (ih s').mp h1
      obtain ⟨hc, rfl⟩ := applyCond_ok h2
      exact ⟨⟨ha, hc⟩, (result_snoc env s hs.noRelativeFlag cs c hc).symm⟩
    · rintro ⟨⟨ha, hc⟩, rfl⟩
      rw [(ih _).mpr ⟨ha, rfl⟩, ok_bind, applyCond_of_ok hc, result_snoc env s hs.noRelativeFlag cs c hc]

/-! ## the condition loop -/

/-- the condition loop only accepts NIL-terminated lists -/
theorem condLoop_proper (env : Env) : ∀ (t : Sexp) (s : CSt) (m : Nat) (r : CSt × Nat),
    condLoop env t s m = .ok r → ∃ cs, sexpList t = some cs := by
  intro t
  induction t with
  | atom b =>
    intro s m r h
    cases b with
    | nil => exact ⟨[], rfl⟩
    | cons x xs => simp [condLoop] at h
  | pair c nxt _ ih =>
    intro s m r h
    simp only [condLoop] at h
    obtain ⟨⟨s1, m1⟩, _, h⟩ := bind_ok h
    obtain ⟨cs, hcs⟩ := ih s1 m1 r h
    exact ⟨c :: cs, by simp [sexpList, hcs]⟩

theorem condLoop_rules (env : Env) (t : Sexp) (s : CSt) (hs : FreshSpend s.spend) (hfee : s.ret.reserveFee < 2 ^ 64)
    (m : Nat) (s' : CSt) (m' : Nat) :
    condLoop env t s m = .ok (s', m') ↔
      ∃ cs items, sexpList t = some cs ∧ parseAll env.flags cs = .ok items ∧
        totalCost env.flags items ≤ m ∧ m' = m - totalCost env.flags items ∧
        SpendAccepts env (attrsOf s.spend) s.ret.reserveFee s.countdown (itemConds items) ∧
        s' = wrapF (allBits env.mempool s.counter items) (spendResult env s (itemConds items)) (totalCount items)
              (totalCost env.flags items) := by
  constructor
  · intro h
    obtain ⟨cs, hcs⟩ := condLoop_proper env t s m _ h
    obtain ⟨items, hp, hk, hm, u, hu, hs'⟩ := (condLoop_iff env cs t hcs s m s' m').mp h
    obtain ⟨ha, rfl⟩ := (applyAll_iff env s hs hfee _ u).mp hu
    exact ⟨cs, items, hcs, hp, hk, hm, ha, hs'⟩
  · rintro ⟨cs, items, hcs, hp, hk, hm, ha, hs'⟩
    exact (condLoop_iff env cs t hcs s m s' m').mpr
      ⟨items, hp, hk, hm, _, (applyAll_iff env s hs hfee _ _).mpr ⟨ha, rfl⟩, hs'⟩

end ChiaModel.Rules
