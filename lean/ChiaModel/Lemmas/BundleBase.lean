import ChiaModel.Lemmas.BundlePerm
import ChiaModel.Lemmas.CostNative
/-
C08, all flag values: `run_spendbundle` with its base (size) cost made a parameter.

Under INTERNED_GENERATOR the base cost of `run_spendbundle` is the interned size of `build_generator spends`,
a quantity that is NOT invariant under reversing the bundle (the spine cells of the spend list can coincide
with subtrees of a reveal in one order and not in the other).  The reversal argument of C08 therefore has to
keep the base cost fixed while the spend list is reversed:

 * `runBundleWith B`            `run_spendbundle` charging `B` up front; `runSpendbundle = runBundleWith (bundleBase …)`
 * `runBundleWith_rules`        refinement to the order-free rules, any `B` (any flags)
 * `runBundleWith_reverse`      reversing the bundle at a fixed `B` changes neither verdict, cost nor aggregates
 * `runBundleWith_small/_many/_loop`, `native_built_small/_loop`   both paths evaluated down to their spend loops
                                (`Built g css`: `g` is a quoted generator listing `css` in order, no references)
 * `nativeCountdown_rebase`     the block path's countdown depends on the generator bytes only through the size cost
-/
set_option linter.unusedSimpArgs false
namespace ChiaModel.Gn
open ChiaModel ChiaModel.Cond ChiaModel.Rules

/-- `run_spendbundle` with the base cost `B` charged up front instead of `calculate_base_cost` -/
def runBundleWith (B : Nat) (p : Params) (spends : List CoinSpendM) (puz : Nat → RunRes) (maxCost : Nat) :
    R (Bundle × List (Bytes × Bytes)) :=
  match subtractCost maxCost B with
  | .error e => .error e
  | .ok costLeft =>
    if hasFlag p.flags Gen.flagLimitSpends ∧ spends.length > MAX_SPENDS_PER_BLOCK then .error .reject else
    let env : Env := { flags := p.flags, mempool := true, pkOk := p.pkOk }
    match bundleLoop env puz spends 0 {} {} costLeft with
    | .error e => .error e
    | .ok ((ret, st), costLeft) =>
      let ret := postProcess env ret st
      match validateConditions ret st with
      | .error e => .error e
      | .ok _ => .ok ({ ret with cost := maxCost - costLeft }, st.pkmPairs)

/-- `run_spendbundle` is `runBundleWith` at `calculate_base_cost` (any flags) -/
theorem runSpendbundle_with (p : Params) (spends : List CoinSpendM) (puz : Nat → RunRes) (L : Nat) :
    runSpendbundle p spends puz L = runBundleWith (bundleBase p spends) p spends puz L := rfl

/-- **`run_spendbundle` with base cost `B` refines the rules** (any flags) -/
theorem runBundleWith_rules (B : Nat) (p : Params) (css : List CoinSpendM) (puz : Nat → RunRes) (L : Nat) (bb : Bundle)
    (pairs : List (Bytes × Bytes)) :
    runBundleWith B p css puz L = .ok (bb, pairs) ↔
      B ≤ L ∧
      ¬(hasFlag p.flags Gen.flagLimitSpends ∧ css.length > MAX_SPENDS_PER_BLOCK) ∧
      ∃ xs, ParsedAt p.flags puz css 0 xs ∧
        B + costX p.flags xs ≤ L ∧
        (xs.map (·.2.attrs.coinId)).Nodup ∧
        (∀ x ∈ xs, SpendAccepts (mpEnv p) x.2.attrs 0 1024 (itemConds x.2.items)) ∧
        bundleFee (xs.map (·.2)) < 2 ^ 64 ∧
        Deferred (postProcess (mpEnv p) (foldX (mpEnv p) xs).1 (foldX (mpEnv p) xs).2) (foldX (mpEnv p) xs).2 ∧
        bb = { postProcess (mpEnv p) (foldX (mpEnv p) xs).1 (foldX (mpEnv p) xs).2 with
                cost := B + costX p.flags xs } ∧
        pairs = (foldX (mpEnv p) xs).2.pkmPairs := by
  have h0 : ((({} : Bundle), ({} : PState)).2.spentCoins).Nodup := List.nodup_nil
  have hz : (({} : Bundle), ({} : PState)).1.reserveFee < 2 ^ 64 := by decide
  constructor
  · intro h
    unfold runBundleWith at h
    cases h1 : subtractCost L B with
    | error e => rw [h1] at h; cases h
    | ok c1 =>
      rw [h1] at h; simp only at h
      obtain ⟨hb, rfl⟩ := subtractCost_ok' h1
      split at h
      · cases h
      rename_i hlim
      cases h2 : bundleLoop (mpEnv p) puz css 0 {} {} (L - B) with
      | error e => rw [h2] at h; cases h
      | ok q =>
        obtain ⟨⟨ret, st⟩, left⟩ := q
        rw [h2] at h; simp only at h
        cases hv : validateConditions (postProcess (mpEnv p) ret st) st with
        | error e => rw [hv] at h; cases h
        | ok u =>
          rw [hv] at h; simp only at h
          injection h with h; injection h with h3 h4
          obtain ⟨xs, hpa, hK, hleft, hacc, hr⟩ := (bundleLoop_rules (mpEnv p) puz css 0 {} {} _ ret st left (by decide)).mp h2
          simp only [show (mpEnv p).flags = p.flags from rfl] at hpa hK hleft
          obtain ⟨a1, a2, a3⟩ := (acceptFromX_iff (mpEnv p) xs ({}, {}) h0 hz).mp hacc
          have hfold : foldX (mpEnv p) xs = (ret, st) := hr.symm
          refine ⟨hb, hlim, xs, hpa, by omega, by simpa using a1, a2, by simpa using a3, ?_, ?_, ?_⟩
          · rw [hfold]; exact (C01.validateConditions_iff _ _).mp hv
          · rw [hfold, ← h3]
            have : L - left = B + costX p.flags xs := by omega
            rw [this]
          · rw [hfold, ← h4]
  · rintro ⟨hb, hlim, xs, hpa, hK, hnd, hsa, hfee, hdef, rfl, rfl⟩
    have hl : bundleLoop (mpEnv p) puz css 0 {} {} (L - B) =
        .ok (((foldX (mpEnv p) xs).1, (foldX (mpEnv p) xs).2), L - B - costX p.flags xs) := by
      refine (bundleLoop_rules (mpEnv p) puz css 0 {} {} _ _ _ _ (by decide)).mpr
        ⟨xs, hpa, by show costX p.flags xs ≤ _; omega, rfl, ?_, rfl⟩
      exact (acceptFromX_iff (mpEnv p) xs ({}, {}) h0 hz).mpr ⟨by simpa using hnd, hsa, by simpa using hfee⟩
    have hv : validateConditions (postProcess (mpEnv p) (foldX (mpEnv p) xs).1 (foldX (mpEnv p) xs).2) (foldX (mpEnv p) xs).2 = .ok () :=
      (C01.validateConditions_iff _ _).mpr hdef
    unfold runBundleWith
    rw [subtractCost_of_le hb]; simp only
    rw [if_neg hlim, hl]; simp only
    rw [hv]; simp only
    have : L - (L - B - costX p.flags xs) = B + costX p.flags xs := by omega
    rw [this]

/-- **Reversing a spend bundle at a fixed base cost** (puzzle runs re-indexed accordingly) changes neither the
verdict of `run_spendbundle` nor the cost nor any aggregate of the conditions, for every flag set; the spend
records come out in reverse order (every field, both mempool eligibility flags), the AGG_SIG_UNSAFE pairs and
the (public key, signed text) pairs up to listing order. -/
theorem runBundleWith_reverse (B : Nat) (p : Params) (css : List CoinSpendM) (puz puz' : Nat → RunRes) (L : Nat) (bb : Bundle)
    (pairs : List (Bytes × Bytes))
    (hpuz : ∀ k, k < css.length → puz' k = puz (css.length - 1 - k))
    (h : runBundleWith B p css puz L = .ok (bb, pairs)) :
    ∃ bb' pairs', runBundleWith B p css.reverse puz' L = .ok (bb', pairs') ∧ List.Perm pairs pairs' ∧
      bb'.spends = bb.spends.reverse ∧ bb'.cost = bb.cost ∧ bb'.reserveFee = bb.reserveFee ∧
      bb'.heightAbsolute = bb.heightAbsolute ∧ bb'.secondsAbsolute = bb.secondsAbsolute ∧
      bb'.beforeHeightAbsolute = bb.beforeHeightAbsolute ∧ bb'.beforeSecondsAbsolute = bb.beforeSecondsAbsolute ∧
      bb'.removalAmount = bb.removalAmount ∧ bb'.additionAmount = bb.additionAmount ∧
      bb'.conditionCost = bb.conditionCost ∧ bb'.executionCost = bb.executionCost ∧
      bb'.validatedSignature = bb.validatedSignature ∧ List.Perm bb'.aggSigUnsafe bb.aggSigUnsafe := by
  obtain ⟨hb, hlim, xs, hpa, hK, hnd, hsa, hfee, hdef, rfl, rfl⟩ := (runBundleWith_rules B p css puz L bb pairs).mp h
  have hperm : List.Perm xs xs.reverse := (List.reverse_perm xs).symm
  have e : AccEquiv (foldX (mpEnv p) xs) (foldX (mpEnv p) xs.reverse) := foldX_perm (mpEnv p) hperm _
  have hcc : ∀ x ∈ xs, costOf xs x.2 = x.1 := fun x hx => costOf_mem hnd hx
  have hcc' : ∀ x ∈ xs.reverse, costOf xs x.2 = x.1 := fun x hx => costOf_mem hnd (List.mem_reverse.mp hx)
  have inv : FoldInv (fun q => spendRec (mpEnv p) (costOf xs q) q) (foldX (mpEnv p) xs) (xs.map (·.2)) := by
    have := foldInvX (mpEnv p) (costOf xs) xs _ [] hcc (foldInv_init _)
    simpa [foldX] using this
  have inv' : FoldInv (fun q => spendRec (mpEnv p) (costOf xs q) q) (foldX (mpEnv p) xs.reverse) (xs.reverse.map (·.2)) := by
    have := foldInvX (mpEnv p) (costOf xs) xs.reverse _ [] hcc' (foldInv_init _)
    simpa [foldX] using this
  have hbp : BPerm (xs.map (·.2)) (xs.reverse.map (·.2)) := BPerm.of_perm (hperm.map _)
  have hndps : ((xs.map (·.2)).map (·.attrs.coinId)).Nodup := by rw [List.map_map]; exact hnd
  have hdef' := deferred_of_inv (mpEnv p) (recOk_spendRec (mpEnv p) (costOf xs)) (recOk_spendRec (mpEnv p) (costOf xs))
    hbp inv inv' e hndps hdef
  have hcost : costX p.flags xs.reverse = costX p.flags xs := ((hperm.map _).sum_nat).symm
  have hfee' : bundleFee (xs.reverse.map (·.2)) = bundleFee (xs.map (·.2)) := (bundleFee_bperm hbp).symm
  obtain ⟨s1, s2, s3, s4, s5, s6, s7, s8, s9, s10, _⟩ :=
    postProcess_scalars (mpEnv p) (foldX (mpEnv p) xs).1 (foldX (mpEnv p) xs).2
  obtain ⟨t1, t2, t3, t4, t5, t6, t7, t8, t9, t10, _⟩ :=
    postProcess_scalars (mpEnv p) (foldX (mpEnv p) xs.reverse).1 (foldX (mpEnv p) xs.reverse).2
  refine ⟨_, _, (runBundleWith_rules B p css.reverse puz' L _ _).mpr
    ⟨hb, by rw [List.length_reverse]; exact hlim, xs.reverse,
      parsedAt_reverse p.flags puz puz' css xs hpuz hpa, by rw [hcost]; exact hK,
      by rw [List.map_reverse]; exact (List.reverse_perm _).nodup_iff.mpr hnd, fun x hx => hsa x (List.mem_reverse.mp hx),
      by rw [hfee']; exact hfee, hdef', rfl, rfl⟩,
    e.pkmPairs, ?_, ?_, ?_, ?_, ?_, ?_, ?_, ?_, ?_, ?_, ?_, ?_, ?_⟩
  · show (postProcess (mpEnv p) _ _).spends = (postProcess (mpEnv p) _ _).spends.reverse
    rw [postProcess_spends (mpEnv p) inv', postProcess_spends (mpEnv p) inv, List.map_reverse, List.map_reverse]
    congr 1
    apply List.map_congr_left
    intro q _
    exact (ppSpend_congr (mpEnv p) e.assertConcurrentSpend e.spentCoins _).symm
  · show _ + costX p.flags xs.reverse = _ + costX p.flags xs
    rw [hcost]
  · exact t3.trans (e.reserveFee.symm.trans s3.symm)
  · exact t4.trans (e.heightAbsolute.symm.trans s4.symm)
  · exact t5.trans (e.secondsAbsolute.symm.trans s5.symm)
  · exact t6.trans (e.beforeHeightAbsolute.symm.trans s6.symm)
  · exact t7.trans (e.beforeSecondsAbsolute.symm.trans s7.symm)
  · exact t2.trans (e.removalAmount.symm.trans s2.symm)
  · exact t1.trans (e.additionAmount.symm.trans s1.symm)
  · exact t8.trans (e.conditionCost.symm.trans s8.symm)
  · exact t9.trans (e.executionCost.symm.trans s9.symm)
  · show (postProcess (mpEnv p) (foldX (mpEnv p) xs.reverse).1 (foldX (mpEnv p) xs.reverse).2).validatedSignature =
      (postProcess (mpEnv p) (foldX (mpEnv p) xs).1 (foldX (mpEnv p) xs).2).validatedSignature
    rw [postProcess_validatedSignature, postProcess_validatedSignature]; exact e.validatedSignature.symm
  · show List.Perm (postProcess (mpEnv p) (foldX (mpEnv p) xs.reverse).1 (foldX (mpEnv p) xs.reverse).2).aggSigUnsafe
      (postProcess (mpEnv p) (foldX (mpEnv p) xs).1 (foldX (mpEnv p) xs).2).aggSigUnsafe
    rw [t10, s10]; exact e.aggSigUnsafe.symm

/-! ## evaluating the two paths down to their spend loops -/

/-- the LIMIT_SPENDS test of `run_spendbundle` -/
abbrev TooMany (p : Params) (css : List CoinSpendM) : Prop :=
  hasFlag p.flags Gen.flagLimitSpends ∧ css.length > MAX_SPENDS_PER_BLOCK

theorem runBundleWith_small {B : Nat} {p : Params} {css : List CoinSpendM} {puz : Nat → RunRes} {L : Nat} (h : L < B) :
    runBundleWith B p css puz L = .error .costExceeded := by
  unfold runBundleWith subtractCost
  rw [if_pos (by omega)]

theorem runBundleWith_many {B : Nat} {p : Params} {css : List CoinSpendM} {puz : Nat → RunRes} {L : Nat} (h : B ≤ L)
    (hm : TooMany p css) : runBundleWith B p css puz L = .error .reject := by
  unfold runBundleWith
  rw [subtractCost_of_le h]; simp only
  have hm' : hasFlag p.flags Gen.flagLimitSpends ∧ css.length > MAX_SPENDS_PER_BLOCK := hm
  rw [if_pos hm']

theorem runBundleWith_loop {B : Nat} {p : Params} {css : List CoinSpendM} {puz : Nat → RunRes} {L : Nat} (h : B ≤ L)
    (hm : ¬ TooMany p css) :
    runBundleWith B p css puz L =
      match bundleLoop (mpEnv p) puz css 0 {} {} (L - B) with
      | .error e => .error e
      | .ok ((ret, st), left) =>
        match validateConditions (postProcess (mpEnv p) ret st) st with
        | .error e => .error e
        | .ok _ => .ok ({ postProcess (mpEnv p) ret st with cost := L - left }, st.pkmPairs) := by
  unfold runBundleWith
  rw [subtractCost_of_le h]; simp only
  have hm' : ¬(hasFlag p.flags Gen.flagLimitSpends ∧ css.length > MAX_SPENDS_PER_BLOCK) := hm
  rw [if_neg hm']

/-- the generator inputs of a quoted generator listing `css` in order, with no block references -/
structure Built (g : GenInput) (css : List CoinSpendM) : Prop where
  prog : g.prog = .pair (.atom [1]) (.pair (Sexp.ofList (css.map item)) Sexp.nil)
  quote : g.startsQuote = true
  nrefs : g.nrefs = 0

/-- the run of a quoted generator: the quoted value at the cost of `q` -/
def quoteRun (css : List CoinSpendM) : RunRes := some (20, .pair (Sexp.ofList (css.map item)) Sexp.nil)

theorem generatorNodeOk_built {g : GenInput} {css : List CoinSpendM} (hg : Built g css) (flags : Nat) :
    generatorNodeOk flags g.prog = true := by
  rw [hg.prog]; simp [generatorNodeOk]

/-- the block path on a built generator whose size cost is `N`: below `N + 20` it fails with cost-exceeded -/
theorem native_built_small {p : Params} {g : GenInput} {css : List CoinSpendM} {puz : Nat → RunRes} {N L' : Nat}
    (hg : Built g css) (hN : nativeBase p g = N) (h : L' < N + 20) :
    native p g (quoteRun css) puz L' = .error .costExceeded := by
  have hN' : (if hasFlag p.flags Gen.flagInternedGenerator then internedVbytes g.prog else g.len) * p.costPerByte = N := hN
  unfold native
  rw [if_neg (by simp [hg.quote])]
  simp only [hN']
  by_cases hb : N ≤ L'
  · rw [subtractCost_of_le hb]
    simp only
    rw [if_neg (by simp [generatorNodeOk_built hg]), if_neg (by simp [hg.nrefs])]
    simp only [quoteRun, runWithLimit]
    rw [if_pos (by omega)]
  · unfold subtractCost
    rw [if_pos (by omega)]

/-- … and from `N + 20` on it is the native spend loop on the listed spends followed by `finishBundle` -/
theorem native_built_loop {p : Params} {g : GenInput} {css : List CoinSpendM} {puz : Nat → RunRes} {N L' : Nat}
    (hg : Built g css) (hN : nativeBase p g = N) (h : N + 20 ≤ L') :
    native p g (quoteRun css) puz L' =
      match nativeLoop (nativeEnv p) puz (Sexp.ofList (css.map item)) 0 { executionCost := 20 } {} (spendLimit p.flags)
          (L' - N - 20) with
      | .error e => .error e
      | .ok ((ret, st), left) =>
        match finishBundle (nativeEnv p) p.sigOk ret st with
        | .error e => .error e
        | .ok ret => .ok { ret with cost := L' - left } := by
  have hN' : (if hasFlag p.flags Gen.flagInternedGenerator then internedVbytes g.prog else g.len) * p.costPerByte = N := hN
  unfold native
  rw [if_neg (by simp [hg.quote])]
  simp only [hN']
  rw [subtractCost_of_le (by omega)]
  simp only
  rw [if_neg (by simp [generatorNodeOk_built hg]), if_neg (by simp [hg.nrefs])]
  rw [quoteRun, runWithLimit_of_le (by omega)]
  simp only
  rw [subtractCost_of_le (by omega)]
  simp only [first]
  rw [if_neg (by simp [allExtract3_items])]
  rfl

/-- the native loop fails whenever there are more list elements than spend allowance (any error kind) -/
theorem nativeLoop_too_long_error (env : Env) (puz : Nat → RunRes) (l : List Sexp) (i : Nat) (ret : Bundle) (st : PState)
    (n m : Nat) (h : n < l.length) : ∃ e, nativeLoop env puz (Sexp.ofList l) i ret st n m = .error e := by
  cases hr : nativeLoop env puz (Sexp.ofList l) i ret st n m with
  | error e => exact ⟨e, rfl⟩
  | ok r => exact absurd hr (nativeLoop_too_long env puz l i ret st n m r h)

/-! ## the block path reads the generator bytes only through (len, startsQuote, prog, nrefs) -/

theorem charge_add_both (L c δ : Nat) : charge (L + δ) (c + δ) = charge L c := by
  unfold charge
  by_cases h : L < c
  · rw [if_pos (by omega), if_pos h]
  · rw [if_neg (by omega), if_neg h]
    congr 1; omega

/-- two generator inputs with the same decoded program and reference count, whose size costs differ by `δ`:
the cost countdown of the block path under `L + δ` on the dearer one is that under `L` on the cheaper one
(same verdict, same error, same bundle and parser state, same remaining budget) -/
theorem nativeCountdown_rebase (p : Params) (g₁ g₂ : GenInput) (genRun : RunRes) (puz : Nat → RunRes) (L δ : Nat)
    (hp : g₁.prog = g₂.prog) (hr : g₁.nrefs = g₂.nrefs) (hb : nativeBase p g₂ = nativeBase p g₁ + δ) :
    nativeCountdown p g₂ genRun puz (L + δ) = nativeCountdown p g₁ genRun puz L := by
  unfold nativeCountdown
  rw [hb, charge_add_both, ← hp, ← hr]

end ChiaModel.Gn
