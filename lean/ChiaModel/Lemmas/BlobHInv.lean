import ChiaModel.Lemmas.BlobReload
/-
C18: the hash invariant (stored hashes right up to dirtiness) in local form, on trees with stored
hashes and on the blocks of a stored tree; the dirty-marking walk re-establishes it.
-/
namespace ChiaModel.Blob
open List M

namespace HT

def rootClean : HT → Bool
  | leaf _ _ _ => true
  | node _ d _ _ => !d

/-- the hash invariant in local form: a clean node has clean children and stores the hash of their
stored hashes -/
def lgood : HT → Prop
  | leaf _ _ _ => True
  | node h d l r => lgood l ∧ lgood r ∧
      (d = false → rootClean l = true ∧ rootClean r = true ∧ h = internalHash l.hash r.hash)

theorem check_of_lgood (t : HT) (hg : lgood t) :
    ∃ m, check t = some m ∧ (rootClean t = true → allClean t = true ∧ t.hash = m) := by
  induction t with
  | leaf k v h => exact ⟨h, rfl, fun _ => ⟨rfl, rfl⟩⟩
  | node h d l r ihl ihr =>
    obtain ⟨gl, gr, hc⟩ := hg
    obtain ⟨ml, el, cl⟩ := ihl gl
    obtain ⟨mr, er, cr⟩ := ihr gr
    cases d with
    | true =>
      refine ⟨internalHash ml mr, by simp [check, el, er], ?_⟩
      intro h'; simp [rootClean] at h'
    | false =>
      obtain ⟨rl, rr, hh⟩ := hc rfl
      obtain ⟨al, hl⟩ := cl rl
      obtain ⟨ar, hr⟩ := cr rr
      refine ⟨internalHash ml mr, ?_, ?_⟩
      · simp [check, el, er, hh, hl, hr, al, ar]
      · intro _
        exact ⟨by simp [allClean, al, ar], by show h = _; rw [hh, hl, hr]⟩

theorem lgood_of_check (t : HT) (m : Hash) (h : check t = some m) :
    lgood t ∧ (rootClean t = true → allClean t = true ∧ t.hash = m) := by
  induction t generalizing m with
  | leaf k v hh =>
    simp only [check, Option.some.injEq] at h
    exact ⟨trivial, fun _ => ⟨rfl, h⟩⟩
  | node hh d l r ihl ihr =>
    simp only [check] at h
    cases el : check l with
    | none => rw [el] at h; simp at h
    | some ml =>
      cases er : check r with
      | none => rw [el, er] at h; simp at h
      | some mr =>
        rw [el, er] at h
        simp only at h
        obtain ⟨gl, cl⟩ := ihl ml el
        obtain ⟨gr, cr⟩ := ihr mr er
        cases d with
        | true =>
          refine ⟨⟨gl, gr, fun e => by cases e⟩, ?_⟩
          intro h'; simp [rootClean] at h'
        | false =>
          simp only [Bool.false_eq_true, if_false] at h
          split at h
          · rename_i hc
            injection h with h
            have rl : rootClean l = true := by
              cases l with
              | leaf _ _ _ => rfl
              | node _ d' _ _ => have := hc.2.1; simp [allClean] at this; simp [rootClean, this.1.1]
            have rr : rootClean r = true := by
              cases r with
              | leaf _ _ _ => rfl
              | node _ d' _ _ => have := hc.2.2; simp [allClean] at this; simp [rootClean, this.1.1]
            obtain ⟨_, hl⟩ := cl rl
            obtain ⟨_, hr⟩ := cr rr
            refine ⟨⟨gl, gr, fun _ => ⟨rl, rr, by rw [hc.1, hl, hr]⟩⟩, ?_⟩
            intro _
            exact ⟨by simp [allClean, hc.2.1, hc.2.2], by show hh = _; rw [hc.1, h]⟩
          · cases h

theorem lgood_iff_check (t : HT) : lgood t ↔ (check t).isSome = true := by
  constructor
  · intro h; obtain ⟨m, e, _⟩ := check_of_lgood t h; simp [e]
  · intro h
    cases e : check t with
    | none => rw [e] at h; cases h
    | some m => exact (lgood_of_check t m e).1

theorem recompute_rootClean (t : HT) (h : lgood t) : rootClean (recompute t) = true := by
  cases t with
  | leaf k v hh => rfl
  | node hh d l r =>
    cases d with
    | true => simp [recompute, rootClean]
    | false => simp [recompute, rootClean]

theorem lgood_recompute (t : HT) (h : lgood t) : lgood (recompute t) := by
  induction t with
  | leaf k v hh => trivial
  | node hh d l r ihl ihr =>
    obtain ⟨gl, gr, hc⟩ := h
    cases d with
    | true =>
      simp only [recompute, if_true]
      exact ⟨ihl gl, ihr gr, fun _ => ⟨recompute_rootClean l gl, recompute_rootClean r gr, rfl⟩⟩
    | false =>
      simp only [recompute, Bool.false_eq_true, if_false]
      exact ⟨gl, gr, hc⟩

end HT

/-! ### the block-level invariant is the local invariant of the abstraction -/

theorem Rep.rootClean {bl : List Block} {p : Option Nat} {c : IT} (h : Rep bl p c) :
    (c.toHT bl).rootClean = !dirtyB bl c.idx := by
  cases c with
  | leaf i k v hh =>
    simp only [Rep] at h
    simp [IT.toHT, HT.rootClean, dirtyB, blockAt, IT.idx, h]
  | node i l r => rfl

theorem LH_iff_lgood {bl : List Block} {p : Option Nat} {t : IT} (h : Rep bl p t) :
    LH bl none t ↔ (t.toHT bl).lgood := by
  induction t generalizing p with
  | leaf i k v hh => simp [LH, IT.toHT, HT.lgood]
  | node i l r ihl ihr =>
    simp only [Rep] at h
    obtain ⟨_, hl, hr⟩ := h
    simp only [LH, IT.toHT, HT.lgood, ihl hl, ihr hr, hl.rootClean, hr.rootClean, hl.toHT_hash, hr.toHT_hash]
    simp only [dirtyB, hashB, ne_eq, reduceCtorEq, not_false_eq_true, forall_const, Bool.not_eq_true']


/-! ### `calculate_lazy_hashes`, and every operation -/

theorem hashes_refines {s : Blob} {t : Option IT} (hs : SInv s t) : Refines .hashes s t := by
  unfold Refines
  have hstep : step .hashes s = calcLazyHashes s := rfl
  have hT : Tree.step .hashes (t.map IT.erase) = (true, t.map IT.erase) := rfl
  rw [hstep, hT]
  cases t with
  | none =>
    simp only [SInv] at hs
    subst hs
    have he : calcLazyHashes Blob.empty = (.ok (), Blob.empty) := rfl
    rw [he]
    exact ⟨none, rfl, rfl, by simp [errOf], fun _ => trivial⟩
  | some t =>
    have g : Good s t := hs
    obtain ⟨S, eS, ss, _, hTT⟩ := recompute_sim t none s g.rep g.nodup (fun j hj => ((g.live_iff j).mpr hj).2)
    have hrun : calcLazyHashes s = (.ok (), S) := by
      rw [calcLazyHashes_run, lcf_good g]
      simp only [eS, if_true]
    rw [hrun]
    refine ⟨some t, Good.sameShape hs ss, rfl, by simp [errOf], ?_⟩
    intro hl
    have hl' : LH s.blocks none t := hl
    show LH S.blocks none t
    rw [LH_iff_lgood (ss.rep g.rep), hTT]
    exact HT.lgood_recompute _ ((LH_iff_lgood g.rep).mp hl')

/-- **every operation refines its abstract counterpart** (and keeps the hash invariant) -/
theorem step_refines {s : Blob} {t : Option IT} (hs : SInv s t) (op : Op) : Refines op s t := by
  cases op with
  | ins k v h loc => exact ins_refines hs k v h loc
  | ups k v h => exact ups_refines hs k v h
  | del k => exact del_refines hs k
  | batch l => exact batch_refines hs l
  | hashes => exact hashes_refines hs

/-- the hash invariant of a state satisfying the structural invariant is `hashesOk` -/
theorem hashesOk_iff {s : Blob} {t : Option IT} (hs : SInv s t) : hashesOk s = true ↔ LHo s.blocks t := by
  cases t with
  | none => simp only [SInv] at hs; subst hs; exact ⟨fun _ => trivial, fun _ => rfl⟩
  | some t =>
    have g : Good s t := hs
    unfold hashesOk
    rw [g.absH]
    show (t.toHT s.blocks).check.isSome = true ↔ LH s.blocks none t
    rw [LH_iff_lgood g.rep, HT.lgood_iff_check]

/-- `get_root_hash` of a state satisfying the invariant whose root is clean -/
theorem Good.rootHash {s : Blob} {t : IT} (g : Good s t) (hc : (t.toHT s.blocks).rootClean = true) :
    rootHash s = .ok (some (t.toHT s.blocks).hash) := by
  have hne : s.k2i.isEmpty = false := by
    have := g.k2i_length
    have hp := t.leaves_pos
    cases hk : s.k2i with
    | nil => rw [hk] at this; simp at this; omega
    | cons _ _ => rfl
  unfold Blob.rootHash
  rw [hne]
  simp only [Bool.false_eq_true, if_false]
  have hrep := g.rep
  have hroot := g.root
  cases t with
  | leaf i k v h =>
    simp only [IT.idx] at hroot
    subst hroot
    simp only [Rep] at hrep
    simp [hrep, IT.toHT, HT.hash, Node.hash]
  | node i l r =>
    simp only [IT.idx] at hroot
    subst hroot
    simp only [Rep] at hrep
    obtain ⟨⟨d, hh, hb⟩, _, _⟩ := hrep
    have hd : d = false := by
      simpa [IT.toHT, HT.rootClean, blockAt, hb] using hc
    subst hd
    simp [hb, IT.toHT, HT.hash, blockAt, Node.hash]

end ChiaModel.Blob
