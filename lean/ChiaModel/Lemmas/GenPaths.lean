import ChiaModel.Model.Generator
import ChiaModel.Lemmas.CostUp
import ChiaModel.Lemmas.ExecCost
/-
The spend loop of the native path (`nativeLoop` on the generator's spend list) against the spend
loop of `parse_spends` on the list the generator ROM builds from it (`romRecurse`): same verdict,
same parser state, bundles equal up to execution-cost bookkeeping; the native countdown pays the
puzzle costs in addition.
-/
namespace ChiaModel.Gn
open ChiaModel ChiaModel.Cond

/-- sum of the costs of the puzzle runs of the spends in the list `t`, the first having index `i` -/
def puzCostSum (puz : Nat → RunRes) : Sexp → Nat → Nat
  | .pair _ nxt, i => (match puz i with | some (c, _) => c | none => 0) + puzCostSum puz nxt (i + 1)
  | .atom _, _ => 0

theorem subtractCost_of_le {l s : Nat} (h : s ≤ l) : subtractCost l s = .ok (l - s) := by
  unfold subtractCost; rw [if_neg (by omega)]

theorem runWithLimit_of_le {c l : Nat} {out : Sexp} (h : c ≤ l) : runWithLimit (some (c, out)) l = .ok (c, out) := by
  unfold runWithLimit; simp only; rw [if_neg (by omega)]

theorem extract5_extract3 {sp a b c d r : Sexp} (h : extract5 sp = some (a, b, c, d, r)) : extract3ok sp = true := by
  unfold extract5 at h
  split at h
  · rfl
  · cases h

/-- the ROM destructures every spend, so a list it accepts passes the native path's `extract_n::<3>` pre-scan -/
theorem romRecurse_allExtract3 (puz : Nat → RunRes) : ∀ (t : Sexp) (i : Nat) (l : Sexp),
    romRecurse puz t i = some l → allExtract3 t = true := by
  intro t
  induction t with
  | atom b => intro i l _; rfl
  | pair sp nxt _ ih =>
    intro i l h
    simp only [romRecurse] at h
    cases h5 : extract5 sp with
    | none => rw [h5] at h; cases h
    | some q =>
      obtain ⟨a, b, c, d, r⟩ := q
      rw [h5] at h; simp only at h
      cases hp : puz i with
      | none => rw [hp] at h; cases h
      | some pc =>
        obtain ⟨c0, conds⟩ := pc
        rw [hp] at h; simp only at h
        cases hr : romRecurse puz nxt (i + 1) with
        | none => rw [hr] at h; cases h
        | some tail =>
          simp only [allExtract3, extract5_extract3 h5, ih (i + 1) tail hr, Bool.and_self]

/-- decomposition of one accepted step of `romRecurse` -/
theorem romRecurse_pair {puz : Nat → RunRes} {sp nxt : Sexp} {i : Nat} {l : Sexp}
    (h : romRecurse puz (.pair sp nxt) i = some l) :
    ∃ parent puzzle amount sol args c conds tail,
      extract5 sp = some (parent, puzzle, amount, sol, args) ∧ puz i = some (c, conds) ∧
      romRecurse puz nxt (i + 1) = some tail ∧
      l = .pair (.pair parent (.pair (.atom (Sexp.treeHash puzzle)) (.pair amount (.pair conds args)))) tail := by
  simp only [romRecurse] at h
  cases h5 : extract5 sp with
  | none => rw [h5] at h; cases h
  | some q =>
    obtain ⟨a, b, c, d, r⟩ := q
    rw [h5] at h; simp only at h
    cases hp : puz i with
    | none => rw [hp] at h; cases h
    | some pc =>
      obtain ⟨c0, conds⟩ := pc
      rw [hp] at h; simp only at h
      cases hr : romRecurse puz nxt (i + 1) with
      | none => rw [hr] at h; cases h
      | some tail =>
        rw [hr] at h; simp only at h
        injection h with h
        exact ⟨a, b, c, d, r, c0, conds, tail, rfl, rfl, rfl, h.symm⟩

theorem parseSingleSpend_tuple (a b c d r : Sexp) :
    parseSingleSpend (.pair a (.pair b (.pair c (.pair d r)))) = .ok (a, b, c, d) := rfl

theorem execRel_addExec {retN retL : Bundle} (h : ExecRel retN retL) (c : Nat) :
    ExecRel { retN with executionCost := retN.executionCost + c } retL := by
  obtain ⟨h1, h2⟩ := h
  refine ⟨h1, ?_⟩
  simp only
  rw [h2]

/-- **Legacy loop ⇒ native loop.**  If `parse_spends`' loop accepts the ROM-built list from budget
`mL`, the native loop accepts the generator's list from every budget that additionally covers the
puzzle runs, with the same parser state, a bundle equal up to execution-cost bookkeeping, and the
same surplus `δ` left over. -/
theorem nativeLoop_of_spendLoop (env : Env) (puz : Nat → RunRes) : ∀ (t : Sexp) (i : Nat) (l : Sexp),
    romRecurse puz t i = some l →
    ∀ (retL retN : Bundle) (st : PState) (n mL : Nat) (retL' : Bundle) (st' : PState) (mL' δ : Nat),
      spendLoop env 0 l retL st n mL = .ok ((retL', st'), mL') → ExecRel retN retL →
      ∃ retN', nativeLoop env puz t i retN st n (mL + puzCostSum puz t i + δ) = .ok ((retN', st'), mL' + δ) ∧
        ExecRel retN' retL' ∧ retN'.executionCost = retN.executionCost + puzCostSum puz t i := by
  intro t
  induction t with
  | atom b =>
    intro i l hr retL retN st n mL retL' st' mL' δ hs hrel
    cases b with
    | cons x xs => simp [romRecurse] at hr
    | nil =>
      simp only [romRecurse] at hr
      injection hr with hr; subst hr
      simp only [Sexp.nil, spendLoop] at hs
      injection hs with hs; injection hs with hs1 hs2; injection hs1 with hs1 hs3
      subst hs1; subst hs2; subst hs3
      exact ⟨retN, by simp [nativeLoop, puzCostSum], hrel, by simp [puzCostSum]⟩
  | pair sp nxt _ ih =>
    intro i l hr retL retN st n mL retL' st' mL' δ hs hrel
    obtain ⟨parent, puzzle, amount, sol, args, c, conds, tail, h5, hp, hrt, rfl⟩ := romRecurse_pair hr
    simp only [spendLoop] at hs
    by_cases hn : n = 0
    · rw [if_pos hn] at hs; cases hs
    · rw [if_neg hn, parseSingleSpend_tuple] at hs
      simp only at hs
      obtain ⟨⟨⟨r1, s1⟩, m1⟩, hps, hs⟩ := bind_ok hs
      simp only at hs
      -- the native step
      have hsum : puzCostSum puz (.pair sp nxt) i = c + puzCostSum puz nxt (i + 1) := by
        simp only [puzCostSum, hp]
      obtain ⟨r1N, hpsN, hrel1, hex1⟩ :=
        processSingleSpend_execRel (ret' := { retN with executionCost := retN.executionCost + c }) c
          (execRel_addExec hrel c) hps
      have hup := shiftUp_processSingleSpend env { retN with executionCost := retN.executionCost + c } st parent
        (.atom (Sexp.treeHash puzzle)) amount conds c mL (r1N, s1) m1 hpsN (puzCostSum puz nxt (i + 1) + δ)
      simp only at hup
      obtain ⟨retN', hN, hrelN, hexN⟩ := ih (i + 1) tail hrt r1 r1N s1 (n - 1) m1 retL' st' mL' δ hs hrel1
      refine ⟨retN', ?_, hrelN, ?_⟩
      · simp only [nativeLoop]
        rw [if_neg hn, h5]
        simp only
        rw [hp, hsum, runWithLimit_of_le (by omega)]
        simp only
        rw [subtractCost_of_le (by omega)]
        simp only
        have e1 : mL + (c + puzCostSum puz nxt (i + 1)) + δ - c = mL + (puzCostSum puz nxt (i + 1) + δ) := by omega
        rw [e1, hup]
        simp only
        have e2 : m1 + (puzCostSum puz nxt (i + 1) + δ) = m1 + puzCostSum puz nxt (i + 1) + δ := by omega
        rw [e2]; exact hN
      · rw [hexN, hex1, hsum]; simp only; omega

theorem execRel_setExec {retL retN : Bundle} (h : ExecRel retL retN) (x : Nat) :
    ExecRel retL { retN with executionCost := x } := by
  obtain ⟨h1, h2⟩ := h
  refine ⟨h1, ?_⟩
  simp only
  exact h2

theorem runWithLimit_ok {r : RunRes} {l c : Nat} {out : Sexp} (h : runWithLimit r l = .ok (c, out)) :
    r = some (c, out) ∧ c ≤ l := by
  unfold runWithLimit at h
  split at h
  · cases h
  · split at h
    · cases h
    · injection h with h; injection h with h1 h2; subst h1; subst h2; exact ⟨rfl, by omega⟩

theorem subtractCost_ok' {l s r : Nat} (h : subtractCost l s = .ok r) : s ≤ l ∧ r = l - s := by
  unfold subtractCost at h
  split at h
  · cases h
  · injection h with h; omega

/-- **Native loop ⇒ legacy loop.**  If the native loop accepts the generator's list from budget `mN`,
then that budget covers the puzzle runs and `parse_spends`' loop accepts the ROM-built list from the
budget that is left without them, with the same parser state, the same remaining budget and a bundle
equal up to execution-cost bookkeeping. -/
theorem spendLoop_of_nativeLoop (env : Env) (puz : Nat → RunRes) : ∀ (t : Sexp) (i : Nat) (l : Sexp),
    romRecurse puz t i = some l →
    ∀ (retN retL : Bundle) (st : PState) (n mN : Nat) (retN' : Bundle) (st' : PState) (mN' : Nat),
      nativeLoop env puz t i retN st n mN = .ok ((retN', st'), mN') → ExecRel retL retN →
      puzCostSum puz t i ≤ mN ∧
      ∃ retL', spendLoop env 0 l retL st n (mN - puzCostSum puz t i) = .ok ((retL', st'), mN') ∧
        ExecRel retL' retN' ∧ retN'.executionCost = retN.executionCost + puzCostSum puz t i := by
  intro t
  induction t with
  | atom b =>
    intro i l hr retN retL st n mN retN' st' mN' hs hrel
    cases b with
    | cons x xs => simp [romRecurse] at hr
    | nil =>
      simp only [romRecurse] at hr
      injection hr with hr; subst hr
      simp only [nativeLoop] at hs
      injection hs with hs; injection hs with hs1 hs2; injection hs1 with hs1 hs3
      subst hs1; subst hs2; subst hs3
      exact ⟨by simp [puzCostSum], retL, by simp [Sexp.nil, spendLoop, puzCostSum], hrel, by simp [puzCostSum]⟩
  | pair sp nxt _ ih =>
    intro i l hr retN retL st n mN retN' st' mN' hs hrel
    obtain ⟨parent, puzzle, amount, sol, args, c, conds, tail, h5, hp, hrt, rfl⟩ := romRecurse_pair hr
    have hsum : puzCostSum puz (.pair sp nxt) i = c + puzCostSum puz nxt (i + 1) := by
      simp only [puzCostSum, hp]
    simp only [nativeLoop] at hs
    by_cases hn : n = 0
    · rw [if_pos hn] at hs; cases hs
    · rw [if_neg hn, h5] at hs
      simp only at hs
      cases hrun : runWithLimit (puz i) mN with
      | error er => rw [hrun] at hs; cases hs
      | ok q =>
        obtain ⟨c1, conds1⟩ := q
        rw [hrun] at hs; simp only at hs
        obtain ⟨hq, hc⟩ := runWithLimit_ok hrun
        rw [hp] at hq; injection hq with hq; injection hq with hq1 hq2
        subst hq1; subst hq2
        cases hsub : subtractCost mN c with
        | error er => rw [hsub] at hs; cases hs
        | ok m1 =>
          rw [hsub] at hs; simp only at hs
          obtain ⟨_, hm1⟩ := subtractCost_ok' hsub
          cases hps : processSingleSpend env { retN with executionCost := retN.executionCost + c } st parent
              (.atom (Sexp.treeHash puzzle)) amount conds c m1 with
          | error er => rw [hps] at hs; cases hs
          | ok q2 =>
            obtain ⟨⟨r1N, s1⟩, m2⟩ := q2
            rw [hps] at hs; simp only at hs
            obtain ⟨r1L, hpsL, hrel1, _⟩ := processSingleSpend_execRel (ret' := retL) 0
              (execRel_setExec hrel (retN.executionCost + c)) hps
            have hex1 : r1N.executionCost = retN.executionCost + c := by
              obtain ⟨r', hr', _, he'⟩ := processSingleSpend_execRel
                (ret' := { retN with executionCost := retN.executionCost + c }) c (ExecRel.refl _) hps
              rw [hps] at hr'
              injection hr' with hr'; injection hr' with hr' _; injection hr' with hr' _
              rw [hr']; exact he'
            obtain ⟨hle, retL', hL, hrelL, hexL⟩ := ih (i + 1) tail hrt r1N r1L s1 (n - 1) m2 retN' st' mN' hs hrel1
            obtain ⟨d1, d2, _⟩ := shift_processSingleSpend env retL st parent (.atom (Sexp.treeHash puzzle)) amount conds 0
              m1 (r1L, s1) m2 hpsL
            have hdown := d2 (puzCostSum puz nxt (i + 1)) hle
            simp only at hdown
            refine ⟨by omega, retL', ?_, hrelL, ?_⟩
            · simp only [spendLoop]
              rw [if_neg hn, parseSingleSpend_tuple]
              simp only
              have e1 : mN - puzCostSum puz (.pair sp nxt) i = m1 - puzCostSum puz nxt (i + 1) := by omega
              rw [e1, hdown]
              exact hL
            · rw [hexL, hex1, hsum]; omega

/-! ## after the loop -/

theorem isEphemeral_erase (st : PState) (sps : List Spend) (i : Nat) :
    isEphemeral st (sps.map eraseExec) i = isEphemeral st sps i := by
  unfold isEphemeral
  simp only [List.getElem?_map]
  cases sps[i]? with
  | none => rfl
  | some sp =>
    simp only [Option.map_some]
    show (match st.spentCoins.idxOf? sp.parentId with
      | none => false
      | some pidx => _) = _
    cases st.spentCoins.idxOf? sp.parentId with
    | none => rfl
    | some pidx =>
      simp only
      cases sps[pidx]? with
      | none => rfl
      | some par => rfl

theorem validOk_execRel {a b : Bundle} (h : ExecRel a b) (st : PState) : validOk a st = validOk b st := by
  obtain ⟨h1, h2⟩ := h
  have he : ∀ i, isEphemeral st a.spends i = isEphemeral st b.spends i := by
    intro i; rw [← isEphemeral_erase st a.spends, ← isEphemeral_erase st b.spends, h1]
  rw [h2]
  simp only [validOk, he]

/-- the block paths use the empty visitor: `postProcess` is the identity -/
theorem postProcess_block (env : Env) (hm : env.mempool = false) (ret : Bundle) (st : PState) :
    postProcess env ret st = ret := by
  unfold postProcess; simp [hm]

/-- `finishBundle` (empty visitor) respects `ExecRel` -/
theorem finishBundle_execRel {env : Env} (hm : env.mempool = false) (sigOk : List (Bytes × Bytes) → Bool)
    {a b : Bundle} (h : ExecRel a b) (st : PState) {b' : Bundle} (hb : finishBundle env sigOk b st = .ok b') :
    ∃ a', finishBundle env sigOk a st = .ok a' ∧ ExecRel a' b' ∧ a'.executionCost = a.executionCost := by
  unfold finishBundle at hb ⊢
  simp only [postProcess_block env hm, validateConditions] at hb ⊢
  rw [validOk_execRel h st]
  by_cases hv : validOk b st = true
  · rw [if_pos hv] at hb ⊢
    simp only at hb ⊢
    split at hb
    · cases hb
    · rename_i hsig
      rw [if_neg hsig]
      injection hb with hb; subst hb
      obtain ⟨h1, h2⟩ := h
      refine ⟨_, rfl, ⟨h1, ?_⟩, rfl⟩
      simp only
      rw [h2]
  · rw [if_neg hv] at hb; cases hb

theorem romModel_ok {genRun : RunRes} {puz : Nat → RunRes} {out : Sexp} (h : romModel genRun puz = some out) :
    ∃ gc coinSpends args l, genRun = some (gc, .pair coinSpends args) ∧ romRecurse puz coinSpends 0 = some l ∧
      out = .pair l args := by
  unfold romModel at h
  cases genRun with
  | none => cases h
  | some q =>
    obtain ⟨gc, gout⟩ := q
    simp only at h
    cases gout with
    | atom b => cases h
    | pair cs args =>
      simp only at h
      cases hr : romRecurse puz cs 0 with
      | none => rw [hr] at h; cases h
      | some l =>
        rw [hr] at h
        injection h with h
        exact ⟨gc, cs, args, l, rfl, hr, h.symm⟩

/-- decomposition of an accepting `parseSpends` run that keeps the `finishBundle` verdict -/
theorem parseSpends_ok' {env : Env} {sigOk : List (Bytes × Bytes) → Bool} {t : Sexp} {L cc : Nat} {b : Bundle} {st : PState}
    (h : parseSpends env sigOk t L cc = .ok (b, st)) :
    ∃ iter ret left ret', first t = .ok iter ∧ spendLoop env cc iter {} {} (spendLimit env.flags) L = .ok ((ret, st), left)
      ∧ finishBundle env sigOk ret st = .ok ret' ∧ b = { ret' with cost := L - left } ∧ left ≤ L := by
  unfold parseSpends at h
  cases hf : first t with
  | error e => rw [hf] at h; cases h
  | ok iter =>
    rw [hf] at h; simp only at h
    cases hl : spendLoop env cc iter {} {} (spendLimit env.flags) L with
    | error e => rw [hl] at h; cases h
    | ok q =>
      obtain ⟨⟨ret, st'⟩, left⟩ := q
      rw [hl] at h; simp only at h
      cases hb : finishBundle env sigOk ret st' with
      | error e => rw [hb] at h; cases h
      | ok ret' =>
        rw [hb] at h; simp only at h
        injection h with h; injection h with h1 h2; subst h2
        obtain ⟨s1, _, _⟩ := shift_spendLoop env cc iter {} {} (spendLimit env.flags) L (ret, st') left hl
        exact ⟨iter, ret, left, ret', rfl, hl, hb, h1.symm, s1⟩

end ChiaModel.Gn
