import ChiaModel.Lemmas.BlobIns
/-
C18: `upsert` on the index-level model refines `Tree.upsert`.
-/
namespace ChiaModel.Blob
open List M

namespace IT

/-- rewrite the content of the leaf with index `idx` -/
def setLeaf (idx : Nat) (k : KeyId) (v : ValueId) (h : Hash) : IT → IT
  | leaf i k' v' h' => if i = idx then leaf i k v h else leaf i k' v' h'
  | node i l r => node i (setLeaf idx k v h l) (setLeaf idx k v h r)

theorem setLeaf_idx (idx : Nat) (k : KeyId) (v : ValueId) (h : Hash) (t : IT) : (setLeaf idx k v h t).idx = t.idx := by
  cases t with
  | leaf i k' v' h' => simp only [setLeaf]; split <;> rfl
  | node i l r => rfl

theorem setLeaf_indices (idx : Nat) (k : KeyId) (v : ValueId) (h : Hash) (t : IT) :
    (setLeaf idx k v h t).indices = t.indices := by
  induction t with
  | leaf i k' v' h' => simp only [setLeaf]; split <;> rfl
  | node i l r ihl ihr => simp only [setLeaf, indices, ihl, ihr]

theorem setLeaf_leaves (idx : Nat) (k : KeyId) (v : ValueId) (h : Hash) (t : IT) :
    (setLeaf idx k v h t).leaves = t.leaves.map (fun e => if e.1 = idx then (e.1, k, v, h) else e) := by
  induction t with
  | leaf i k' v' h' =>
    simp only [setLeaf, leaves, List.map_cons, List.map_nil]
    split <;> rfl
  | node i l r ihl ihr => simp only [setLeaf, leaves, ihl, ihr, List.map_append]

theorem setLeaf_erase (idx : Nat) (k : KeyId) (v : ValueId) (h : Hash) (t : IT)
    (hkey : ∀ e ∈ t.leaves, (e.2.1 = k ↔ e.1 = idx)) :
    (setLeaf idx k v h t).erase = t.erase.mapLeaf k (fun _ => .leaf k v h) := by
  induction t with
  | leaf i k' v' h' =>
    have := hkey (i, k', v', h') (by simp [leaves])
    simp only at this
    simp only [setLeaf, erase, T.mapLeaf]
    by_cases hi : i = idx
    · rw [if_pos hi, if_pos (this.mpr hi)]; rfl
    · rw [if_neg hi, if_neg (fun e => hi (this.mp e))]; rfl
  | node i l r ihl ihr =>
    simp only [setLeaf, erase, T.mapLeaf]
    rw [ihl (fun e he => hkey e (by simp [leaves, he])), ihr (fun e he => hkey e (by simp [leaves, he]))]

end IT

theorem mapErase_insert_perm {κ : Type} [DecidableEq κ] (m : List (κ × Nat)) (k : κ) (i : Nat)
    (hn : (m.map (·.1)).Nodup) (h : (k, i) ∈ m) : mapInsert (mapErase m k) k i ~ m := by
  have h1 : mapInsert (mapErase m k) k i = mapInsert m k i := by
    simp only [mapInsert, mapErase, List.filter_filter, Bool.and_self]
  rw [h1]; exact mapInsert_perm_same m k i hn h

/-- the represented tree after the leaf rewrite -/
theorem Rep.setLeaf {bl bl' : List Block} {idx : Nat} {k : KeyId} {v : ValueId} {h : Hash}
    (hother : ∀ j, j ≠ idx → bl'[j]? = bl[j]?)
    (hnew : ∀ p, parentOfL bl idx = p → bl'[idx]? = some { dirty := false, node := .leaf h p k v }) :
    ∀ (c : IT) (p : Option Nat), Rep bl p c → (∀ d hh q l r, bl[idx]? ≠ some { dirty := d, node := .internal hh q l r }) →
      Rep bl' p (IT.setLeaf idx k v h c) := by
  intro c
  induction c with
  | leaf i k' v' h' =>
    intro p hr _
    simp only [Rep] at hr
    simp only [IT.setLeaf]
    by_cases hi : i = idx
    · rw [if_pos hi]
      simp only [Rep]
      rw [hi]
      apply hnew
      simp [parentOfL, ← hi, hr, Node.parent]
    · rw [if_neg hi]
      simp only [Rep]
      rw [hother i hi]; exact hr
  | node i l r ihl ihr =>
    intro p hr hni
    simp only [Rep] at hr
    obtain ⟨⟨d, hh, hb⟩, hl, hr'⟩ := hr
    have hi : i ≠ idx := fun e => hni d hh p l.idx r.idx (e ▸ hb)
    simp only [IT.setLeaf, Rep, IT.setLeaf_idx]
    exact ⟨⟨d, hh, by rw [hother i hi]; exact hb⟩, ihl _ hl hni, ihr _ hr' hni⟩

theorem mapGet_erase_self {κ : Type} [DecidableEq κ] (m : List (κ × Nat)) (k : κ) : mapGet (mapErase m k) k = none := by
  rw [mapGet_none_iff]
  intro e he
  have := (List.mem_filter.mp he).2
  simpa using this

/-- **the blob after the leaf rewrite of `upsert` stores the tree with that leaf rewritten** -/
theorem upsState_good {s : Blob} {t : IT} (g : Good s t) {idx : Nat} {key : KeyId} {v0 : ValueId} {oh : Hash}
    (hleaf : (idx, key, v0, oh) ∈ t.leaves) (p : Option Nat)
    (hb : s.blocks[idx]? = some { dirty := false, node := .leaf oh p key v0 })
    (value : ValueId) (nh : Hash) (hc : mapGet s.h2i nh = none ∨ mapGet s.h2i nh = some idx) :
    Good (upsState s idx false oh nh p key value) (IT.setLeaf idx key value nh t) := by
  have hg : mapGet s.k2i key = some idx := g.mapGet_k2i hleaf
  have hgh : mapGet s.h2i oh = some idx := g.mapGet_h2i hleaf
  have hinvT := upsState_linv g.linv idx false oh nh p key v0 value hg hb hc
  have hidx : idx ∈ t.indices := t.leaf_idx_mem _ hleaf
  have hlive := (g.live_iff idx).mpr hidx
  have hil := hlive.1
  have eB : ∀ j, (upsState s idx false oh nh p key value).blocks[j]?
      = if j = idx then some { dirty := false, node := .leaf nh p key value } else s.blocks[j]? := by
    intro j; simp only [upsState]; rw [write_get _ _ _ (by exact hil)]
  have eL : (upsState s idx false oh nh p key value).blocks.length = s.blocks.length := by
    simp only [upsState]; rw [write_len _ _ _ (by exact hil)]
  have eF : (upsState s idx false oh nh p key value).free = s.free := by
    simp only [upsState, write_free]; exact freeInsert_erase _ _ hlive.2
  have eK : (upsState s idx false oh nh p key value).k2i = mapInsert (mapErase s.k2i key) key idx := rfl
  have eH : (upsState s idx false oh nh p key value).h2i = mapInsert (mapErase s.h2i oh) nh idx := rfl
  have hkeyidx := g.key_iff_idx hleaf
  -- the leaf list, up to permutation
  have hidxN : (t.leaves.map (·.1)).Nodup := g.nodup.sublist t.leaves_idx_sublist
  have pL : t.leaves ~ (idx, key, v0, oh) :: t.leaves.erase (idx, key, v0, oh) := List.perm_cons_erase hleaf
  have restIdx : ∀ e ∈ t.leaves.erase (idx, key, v0, oh), e.1 ≠ idx := by
    intro e he hei
    have := (pL.map (·.1)).nodup_iff.mp hidxN
    simp only [List.map_cons, List.nodup_cons] at this
    have hm := List.mem_map_of_mem (f := (·.1)) he
    rw [hei] at hm
    exact this.1 hm
  have pL' : (IT.setLeaf idx key value nh t).leaves ~ (idx, key, value, nh) :: t.leaves.erase (idx, key, v0, oh) := by
    rw [IT.setLeaf_leaves]
    refine (pL.map _).trans ?_
    simp only [List.map_cons, if_true]
    refine List.Perm.cons _ ?_
    rw [List.map_congr_left (g := id) (fun e he => by simp only [id]; rw [if_neg (restIdx e he)]), List.map_id]
  -- the new hash is not the hash of another leaf
  have nhFresh : nh ∉ (t.leaves.erase (idx, key, v0, oh)).map (·.2.2.2) := by
    intro hm
    obtain ⟨e, he, heh⟩ := List.mem_map.mp hm
    have hel : e ∈ t.leaves := List.mem_of_mem_erase he
    have := g.mapGet_h2i hel
    rw [heh] at this
    rcases hc with hc | hc
    · rw [hc] at this; cases this
    · rw [hc] at this; injection this with this; exact restIdx e he this.symm
  refine ⟨?_, ?_, ?_, ?_, ?_, ?_, ?_, ?_, ?_, hinvT.rangeP⟩
  · refine Rep.setLeaf (bl := s.blocks) (fun j hj => by rw [eB j, if_neg hj]) ?_ t none g.rep ?_
    · intro p' hp'
      rw [eB idx, if_pos rfl]
      simp only [parentOfL, hb, Node.parent] at hp'
      rw [hp']
    · intro d hh q l r e; rw [hb] at e; injection e with e; injection e with _ hn; cases hn
  · rw [IT.setLeaf_idx]; exact g.root
  · rw [IT.setLeaf_indices]; exact g.nodup
  · rw [eF]; exact g.freeNodup
  · intro i; rw [eF, eL, IT.setLeaf_indices]; exact g.free i
  · rw [eK]
    refine (mapErase_insert_perm s.k2i key idx g.k2i_keys_nodup (mapGet_mem _ _ _ hg)).trans ?_
    refine g.k2i.trans ?_
    rw [IT.setLeaf_leaves, List.map_map]
    apply List.Perm.of_eq
    apply List.map_congr_left
    intro e he
    simp only [Function.comp]
    by_cases hei : e.1 = idx
    · rw [if_pos hei]; simp only; rw [(hkeyidx e he).mpr hei]
    · rw [if_neg hei]
  · rw [eH]
    have hnone : mapGet (mapErase s.h2i oh) nh = none := by
      by_cases hno : nh = oh
      · rw [hno]; exact mapGet_erase_self _ _
      · rw [mapGet_erase_ne _ _ _ hno]
        rcases hc with hc | hc
        · exact hc
        · exfalso
          have h1 := g.h2i.mem_iff.mp (mapGet_mem _ _ _ hc)
          obtain ⟨e, he, hek⟩ := List.mem_map.mp h1
          injection hek with e1 e2
          have := inj_of_nodup_map (·.1) t.leaves hidxN e he _ hleaf e2
          rw [this] at e1
          exact hno e1.symm
    refine (mapInsert_perm_new _ _ _ hnone).trans ?_
    refine List.Perm.trans ?_ (pL'.map (fun e => (e.2.2.2, e.1))).symm
    simp only [List.map_cons]
    refine List.Perm.cons _ ?_
    -- erasing `oh` from the cache leaves exactly the other leaves
    have h1 : mapErase s.h2i oh ~ ((t.leaves.map (fun e => (e.2.2.2, e.1))).filter (fun e => e.1 ≠ oh)) :=
      g.h2i.filter _
    refine h1.trans ?_
    refine ((pL.map (fun e => (e.2.2.2, e.1))).filter _).trans ?_
    simp only [List.map_cons]
    rw [List.filter_cons_of_neg (by simp)]
    apply List.Perm.of_eq
    rw [List.filter_eq_self]
    intro e he
    simp only [ne_eq, decide_eq_true_eq]
    obtain ⟨e', he', hee⟩ := List.mem_map.mp he
    have hn := (pL.map (·.2.2.2)).nodup_iff.mp g.hashes
    simp only [List.map_cons, List.nodup_cons] at hn
    intro hoh
    have hm := List.mem_map_of_mem (f := (·.2.2.2)) he'
    have e3 : e'.2.2.2 = oh := by rw [← hoh, ← hee]
    rw [e3] at hm
    exact hn.1 hm
  · have h1 := (pL'.map (·.2.1)).nodup_iff
    have h2 := (pL.map (·.2.1)).nodup_iff.mp g.keys
    simp only [List.map_cons] at h1 h2
    exact h1.mpr h2
  · have h1 := (pL'.map (·.2.2.2)).nodup_iff
    have h2 := (pL.map (·.2.2.2)).nodup_iff.mp g.hashes
    simp only [List.map_cons, List.nodup_cons] at h1 h2
    exact h1.mpr ⟨nhFresh, h2.2⟩

/-! ### `upsert` refines `Tree.upsert` -/

/-- rewriting a leaf breaks the hash invariant at most at its parent -/
theorem setLeaf_LH {bl bl' : List Block} {idx : Nat} {q : Option Nat} (k : KeyId) (v : ValueId) (h : Hash)
    (hleaf : ∃ d h' q' k' v', bl[idx]? = some { dirty := d, node := .leaf h' q' k' v' })
    (hpar : parentOfL bl idx = q)
    (same : ∀ j, j ≠ idx → dirtyB bl' j = dirtyB bl j ∧ hashB bl' j = hashB bl j)
    (t : IT) : ∀ (pp : Option Nat), Rep bl pp t → LH bl none t → LH bl' q (IT.setLeaf idx k v h t) := by
  induction t with
  | leaf i k' v' h' =>
    intro _ _ _
    simp only [IT.setLeaf]
    split <;> trivial
  | node i l r ihl ihr =>
    intro pp hrep hl
    simp only [Rep] at hrep
    obtain ⟨⟨d, hh, hb⟩, rl, rr⟩ := hrep
    obtain ⟨ll, lr, c⟩ := hl
    simp only [IT.setLeaf]
    refine ⟨ihl _ rl ll, ihr _ rr lr, ?_⟩
    intro hne hd
    have hli : l.idx ≠ idx := by
      intro e
      have := rl.root_parent
      rw [e, hpar] at this
      exact hne this.symm
    have hri : r.idx ≠ idx := by
      intro e
      have := rr.root_parent
      rw [e, hpar] at this
      exact hne this.symm
    have hii : i ≠ idx := by
      intro e
      obtain ⟨d', h', q', k', v', hlb⟩ := hleaf
      rw [e, hlb] at hb
      injection hb with hb; injection hb with _ hn; cases hn
    rw [IT.setLeaf_idx, IT.setLeaf_idx]
    rw [(same i hii).1] at hd
    rw [(same _ hli).1, (same _ hri).1, (same i hii).2, (same _ hli).2, (same _ hri).2]
    exact c (by simp) hd

theorem Tree.upsert_absent (k : KeyId) (v : ValueId) (h : Hash) (t : T) (hk : k ∉ t.keys) :
    Tree.upsert k v h (some t) = Tree.insert k v h .auto (some t) := by
  unfold Tree.upsert; simp only; rw [if_neg hk]

theorem Tree.upsert_reject (k : KeyId) (v : ValueId) (h : Hash) (t : T) (hk : k ∈ t.keys)
    (hh : h ∈ Tree.otherHashes k t) : Tree.upsert k v h (some t) = none := by
  unfold Tree.upsert; simp only; rw [if_pos hk, if_pos hh]

theorem Tree.upsert_accept (k : KeyId) (v : ValueId) (h : Hash) (t : T) (hk : k ∈ t.keys)
    (hh : h ∉ Tree.otherHashes k t) :
    Tree.upsert k v h (some t) = some (some (t.mapLeaf k (fun _ => .leaf k v h))) := by
  unfold Tree.upsert; simp only; rw [if_pos hk, if_neg hh]

/-- the hash check of `upsert`, on the tree -/
theorem Good.otherHashes_iff {s : Blob} {t : IT} (g : Good s t) {idx : Nat} {key : KeyId} {v0 : ValueId} {oh : Hash}
    (hleaf : (idx, key, v0, oh) ∈ t.leaves) (nh : Hash) :
    nh ∈ Tree.otherHashes key t.erase ↔ ∃ other, mapGet s.h2i nh = some other ∧ other ≠ idx := by
  rw [Tree.otherHashes_eq, IT.erase_entries]
  have hki := g.key_iff_idx hleaf
  constructor
  · intro hm
    obtain ⟨e, he, heh⟩ := List.mem_map.mp hm
    obtain ⟨he1, he2⟩ := List.mem_filter.mp he
    obtain ⟨e', he', hee⟩ := List.mem_map.mp he1
    simp only [ne_eq, decide_eq_true_eq] at he2
    refine ⟨e'.1, ?_, ?_⟩
    · have := g.mapGet_h2i he'
      rw [← heh, ← hee]; exact this
    · intro hi
      apply he2
      rw [← hee]
      exact (hki e' he').mpr hi
  · rintro ⟨other, hm, hne⟩
    have h1 := g.h2i.mem_iff.mp (mapGet_mem _ _ _ hm)
    obtain ⟨e, he, hek⟩ := List.mem_map.mp h1
    injection hek with e1 e2
    refine List.mem_map.mpr ⟨e.2, List.mem_filter.mpr ⟨List.mem_map_of_mem (f := (·.2)) he, ?_⟩, e1⟩
    simp only [ne_eq, decide_eq_true_eq]
    intro hk
    exact hne (e2 ▸ (hki e he).mp hk)

theorem upsert_absent_run (key : KeyId) (value : ValueId) (nh : Hash) (s : Blob) (hg : mapGet s.k2i key = none) :
    upsert key value nh s = (do let _ ← insert key value nh .auto; pure () : M Unit) s := by
  unfold upsert
  simp only [bind_run, M.get, hg]

theorem upsert_reject_run (key : KeyId) (value : ValueId) (nh : Hash) (s : Blob) (idx : Nat) (d : Bool)
    (oh : Hash) (p : Option Nat) (v0 : ValueId) (hg : mapGet s.k2i key = some idx)
    (hb : s.blocks[idx]? = some { dirty := d, node := .leaf oh p key v0 })
    (hrej : ∃ other, mapGet s.h2i nh = some other ∧ other ≠ idx) :
    upsert key value nh s = (.error .err, s) := by
  obtain ⟨other, hm, hne⟩ := hrej
  unfold upsert
  simp only [bind_run, M.get, hg, hb, hm, ne_eq, hne, not_false_eq_true, decide_true, if_true]
  rfl

theorem upsert_accept_run (key : KeyId) (value : ValueId) (nh : Hash) (s : Blob) (idx : Nat) (d : Bool)
    (oh : Hash) (p : Option Nat) (v0 : ValueId) (hg : mapGet s.k2i key = some idx)
    (hb : s.blocks[idx]? = some { dirty := d, node := .leaf oh p key v0 })
    (hc : mapGet s.h2i nh = none ∨ mapGet s.h2i nh = some idx) :
    upsert key value nh s =
      (match p with
        | some pi => markLineageDirty pi (upsState s idx d oh nh p key value)
        | none => (.ok (), upsState s idx d oh nh p key value)) := by
  have hil : idx < s.blocks.length := (List.getElem?_eq_some_iff.mp hb).1
  have hw : writeBlock idx { dirty := d, node := .leaf nh p key value }
      ({ s with k2i := mapErase s.k2i key, h2i := mapErase s.h2i oh, free := freeInsert s.free idx } : Blob)
      = (.ok (), upsState s idx d oh nh p key value) := by
    rw [writeBlock_run, if_neg (by simp only [gt_iff_lt, Nat.not_lt]; exact Nat.le_of_lt hil)]
    rfl
  unfold upsert
  rcases hc with hc | hc
  · simp only [bind_run, M.get, hg, hb, hc, Bool.false_eq_true, if_false, removeLeaf_run, hw]
    cases p <;> rfl
  · simp only [bind_run, M.get, hg, hb, hc, ne_eq, not_true_eq_false, decide_false, Bool.false_eq_true, if_false,
      removeLeaf_run, hw]
    cases p <;> rfl

theorem ups_refines {s : Blob} {t : Option IT} (hs : SInv s t) (k : KeyId) (v : ValueId) (h : Hash) :
    Refines (.ups k v h) s t := by
  -- an absent key: `upsert` is `insert` at the automatic location, on both levels
  have viaInsert : mapGet s.k2i k = none → (∀ t0, t = some t0 → k ∉ t0.erase.keys) → Refines (.ups k v h) s t := by
    intro hg hk
    have hi := ins_refines hs k v h .auto
    unfold Refines at hi ⊢
    have e1 : step (.ups k v h) s = step (.ins k v h .auto) s := by
      simp only [step]; exact upsert_absent_run k v h s hg
    have e2 : Tree.step (.ups k v h) (t.map IT.erase) = Tree.step (.ins k v h .auto) (t.map IT.erase) := by
      simp only [Tree.step]
      cases t with
      | none => rfl
      | some t0 => simp only [Option.map_some]; rw [Tree.upsert_absent k v h _ (hk t0 rfl)]
    rw [e1, e2]; exact hi
  cases t with
  | none =>
    simp only [SInv] at hs
    subst hs
    exact viaInsert rfl (fun _ e => by cases e)
  | some t0 =>
    have g : Good s t0 := hs
    cases hg : mapGet s.k2i k with
    | none =>
      exact viaInsert hg (fun t1 e => by
        injection e with e; subst e
        intro hm; have := (g.mem_keys_iff k).mpr hm; rw [hg] at this; cases this)
    | some idx =>
      obtain ⟨v0, oh, hleaf⟩ := g.leaf_of_key hg
      obtain ⟨p, hb⟩ := g.rep.leaf_block hleaf
      simp only at hb
      have hkm : k ∈ t0.erase.keys := (g.mem_keys_iff k).mp (by rw [hg]; rfl)
      unfold Refines
      simp only [Option.map_some, step, Tree.step]
      by_cases hrej : ∃ other, mapGet s.h2i h = some other ∧ other ≠ idx
      · -- rejected on both levels
        have hL1 := Tree.upsert_reject k v h t0.erase hkm ((g.otherHashes_iff hleaf h).mpr hrej)
        rw [upsert_reject_run k v h s idx false oh p v0 hg hb hrej, hL1]
        exact ⟨some t0, g, rfl, by simp [Tree.orKeep, errOf], id⟩
      · have hL1 := Tree.upsert_accept k v h t0.erase hkm (fun hm => hrej ((g.otherHashes_iff hleaf h).mp hm))
        have hc : mapGet s.h2i h = none ∨ mapGet s.h2i h = some idx := by
          cases hm : mapGet s.h2i h with
          | none => exact Or.inl rfl
          | some other =>
            refine Or.inr ?_
            cases Classical.em (other = idx) with
            | inl e => rw [e]
            | inr e => exact absurd ⟨other, hm, e⟩ hrej
        have gT := upsState_good g hleaf p hb v h hc
        rw [upsert_accept_run k v h s idx false oh p v0 hg hb hc, hL1]
        have herase := IT.setLeaf_erase idx k v h t0 (g.key_iff_idx hleaf)
        have hil0 := ((g.live_iff idx).mpr (t0.leaf_idx_mem _ hleaf)).1
        have hholeLH : LH s.blocks none t0 →
            LH (upsState s idx false oh h p k v).blocks p (IT.setLeaf idx k v h t0) := by
          intro hlh
          refine setLeaf_LH k v h ⟨_, _, _, _, _, hb⟩ (by simp [parentOfL, hb, Node.parent]) ?_ t0 none g.rep hlh
          intro j hj
          have : (upsState s idx false oh h p k v).blocks[j]? = s.blocks[j]? := by
            simp only [upsState]
            rw [write_get _ _ _ (by exact hil0), if_neg hj]
          simp [dirtyB, hashB, blockAt, this]
        cases p with
        | none =>
          refine ⟨some (IT.setLeaf idx k v h t0), gT, ?_, by simp [Tree.orKeep, errOf], hholeLH⟩
          simp only [Tree.orKeep, Option.map_some, herase]
        | some pi =>
          simp only
          have hinvT := gT.linv
          have hinv := g.linv
          have hlive := (g.live_iff idx).mpr (t0.leaf_idx_mem _ hleaf)
          obtain ⟨hpf, dp, ph, pp, pl, pr, hpb, _⟩ := hinv.parent_of hlive.2 hb rfl
          have hne : pi ≠ idx := by
            intro e; rw [e, hb] at hpb; injection hpb with hpb; injection hpb with _ hn; cases hn
          have hil := hlive.1
          have hpT : (upsState s idx false oh h (some pi) k v).blocks[pi]?
              = some { dirty := dp, node := .internal ph pp pl pr } := by
            simp only [upsState]
            rw [write_get _ _ _ (by exact hil), if_neg hne]; exact hpb
          have hpfT : pi ∉ (upsState s idx false oh h (some pi) k v).free := by
            simp only [upsState, write_free]; rw [freeInsert_erase _ _ hlive.2]; exact hpf
          have hss := markLineageDirty_sameShape pi _ hinvT hpfT ⟨_, _, _, _, _, hpT⟩
          obtain ⟨_, sT, eT, _⟩ := markLineageDirty_ok pi _ hinvT.rangeP (List.getElem?_eq_some_iff.mp hpT).1
          rw [eT] at hss
          rw [eT]
          refine ⟨some (IT.setLeaf idx k v h t0), gT.sameShape hss, ?_, by simp [Tree.orKeep, errOf], ?_⟩
          · simp only [Tree.orKeep, Option.map_some, herase]
          · intro hlh
            exact markLineageDirty_LH pi _ _ hinvT.pi hpfT ⟨_, _, _, _, _, hpT⟩ gT.rep.kp (hholeLH hlh) sT eT

end ChiaModel.Blob
