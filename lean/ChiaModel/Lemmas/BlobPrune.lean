import ChiaModel.Lemmas.BlobUpsRef
/-
C18: removing a leaf from an index-annotated tree (the sibling takes the parent's place).
-/
namespace ChiaModel.Blob
open List

namespace IT

def isLeafAt (idx : Nat) : IT → Bool
  | leaf i _ _ _ => i == idx
  | node _ _ _ => false

/-- remove the leaf with index `idx` (not the root): its sibling takes the place of their parent -/
def prune (idx : Nat) : IT → IT
  | leaf i k v h => leaf i k v h
  | node i l r =>
    if isLeafAt idx l then r
    else if isLeafAt idx r then l
    else node i (prune idx l) (prune idx r)

/-- the index of the node that has the leaf `idx` as a direct child -/
def parentOfLeaf (idx : Nat) : IT → Option Nat
  | leaf _ _ _ _ => none
  | node i l r =>
    if isLeafAt idx l || isLeafAt idx r then some i
    else (parentOfLeaf idx l).or (parentOfLeaf idx r)

theorem isLeafAt_node (idx i : Nat) (l r : IT) : isLeafAt idx (node i l r) = false := rfl

theorem prune_node (idx i : Nat) (l r : IT) :
    prune idx (node i l r) = if isLeafAt idx l then r else if isLeafAt idx r then l
      else node i (prune idx l) (prune idx r) := rfl

theorem parentOfLeaf_node (idx i : Nat) (l r : IT) :
    parentOfLeaf idx (node i l r) = if isLeafAt idx l || isLeafAt idx r then some i
      else (parentOfLeaf idx l).or (parentOfLeaf idx r) := rfl

theorem isLeafAt_mem (idx : Nat) (t : IT) (h : isLeafAt idx t = true) : idx ∈ t.indices ∧ t.idx = idx := by
  cases t with
  | leaf i k v hh => simp only [isLeafAt, beq_iff_eq] at h; subst h; simp [indices, IT.idx]
  | node i l r => simp [isLeafAt] at h

theorem isLeafAt_eq (idx : Nat) (t : IT) (h : isLeafAt idx t = true) : ∃ k v hh, t = leaf idx k v hh := by
  cases t with
  | leaf i k v hh => simp only [isLeafAt, beq_iff_eq] at h; subst h; exact ⟨k, v, hh, rfl⟩
  | node i l r => simp [isLeafAt] at h

theorem prune_not_mem (idx : Nat) (t : IT) (h : idx ∉ t.indices) : prune idx t = t := by
  induction t with
  | leaf i k v hh => rfl
  | node i l r ihl ihr =>
    simp only [indices, List.mem_cons, List.mem_append, not_or] at h
    have h1 : isLeafAt idx l = false := by
      cases hb : isLeafAt idx l with
      | false => rfl
      | true => exact absurd (isLeafAt_mem idx l hb).1 h.2.1
    have h2 : isLeafAt idx r = false := by
      cases hb : isLeafAt idx r with
      | false => rfl
      | true => exact absurd (isLeafAt_mem idx r hb).1 h.2.2
    rw [prune_node, h1, h2]
    simp only [Bool.false_eq_true, if_false, ihl h.2.1, ihr h.2.2]

theorem parentOfLeaf_not_mem (idx : Nat) (t : IT) (h : idx ∉ t.indices) : parentOfLeaf idx t = none := by
  induction t with
  | leaf i k v hh => rfl
  | node i l r ihl ihr =>
    simp only [indices, List.mem_cons, List.mem_append, not_or] at h
    have h1 : isLeafAt idx l = false := by
      cases hb : isLeafAt idx l with
      | false => rfl
      | true => exact absurd (isLeafAt_mem idx l hb).1 h.2.1
    have h2 : isLeafAt idx r = false := by
      cases hb : isLeafAt idx r with
      | false => rfl
      | true => exact absurd (isLeafAt_mem idx r hb).1 h.2.2
    rw [parentOfLeaf_node, h1, h2]
    simp only [Bool.or_self, Bool.false_eq_true, if_false, ihl h.2.1, ihr h.2.2]
    rfl

/-- the leaves after pruning: all but the removed one, in order -/
theorem prune_leaves (idx : Nat) (t : IT) (hn : t.indices.Nodup) :
    (prune idx t).leaves = if isLeafAt idx t then t.leaves else t.leaves.filter (fun e => e.1 ≠ idx) := by
  induction t with
  | leaf i k v hh =>
    simp only [prune, isLeafAt, leaves]
    by_cases hi : i = idx
    · simp [hi]
    · simp [hi]
  | node i l r ihl ihr =>
    simp only [indices, List.nodup_cons] at hn
    obtain ⟨hl, hr, hd⟩ := T.nodup_append' hn.2
    have keep : ∀ c : IT, idx ∉ c.indices → c.leaves.filter (fun e => e.1 ≠ idx) = c.leaves := by
      intro c hc
      rw [List.filter_eq_self]
      intro e he
      simp only [ne_eq, decide_eq_true_eq]
      intro hei
      exact hc (hei ▸ c.leaf_idx_mem e he)
    rw [isLeafAt_node, prune_node]
    simp only [Bool.false_eq_true, if_false, leaves, List.filter_append]
    by_cases h1 : isLeafAt idx l = true
    · rw [if_pos h1]
      obtain ⟨k, v, hh, e⟩ := isLeafAt_eq idx l h1
      have hnr : idx ∉ r.indices := fun h' => hd idx (isLeafAt_mem idx l h1).1 h'
      rw [keep r hnr, e]
      simp [leaves]
    · rw [if_neg h1]
      by_cases h2 : isLeafAt idx r = true
      · rw [if_pos h2]
        obtain ⟨k, v, hh, e⟩ := isLeafAt_eq idx r h2
        have hnl : idx ∉ l.indices := fun h' => hd idx h' (isLeafAt_mem idx r h2).1
        rw [keep l hnl, e]
        simp [leaves]
      · rw [if_neg h2]
        simp only [leaves, ihl hl, ihr hr, if_neg h1, if_neg h2]

theorem parentOfLeaf_mem (idx : Nat) (t : IT) (pi : Nat) (h : parentOfLeaf idx t = some pi) : idx ∈ t.indices := by
  cases Classical.em (idx ∈ t.indices) with
  | inl hm => exact hm
  | inr hm => rw [parentOfLeaf_not_mem idx t hm] at h; cases h

theorem isLeafAt_false_of_not_mem (idx : Nat) (t : IT) (h : idx ∉ t.indices) : isLeafAt idx t = false := by
  cases hb : isLeafAt idx t with
  | false => rfl
  | true => exact absurd (isLeafAt_mem idx t hb).1 h

/-- the indexes after pruning: the leaf and its parent are gone -/
theorem prune_indices (idx : Nat) (t : IT) (hn : t.indices.Nodup) (pi : Nat) (hp : parentOfLeaf idx t = some pi) :
    t.indices ~ idx :: pi :: (prune idx t).indices := by
  induction t generalizing pi with
  | leaf i k v hh => cases hp
  | node i l r ihl ihr =>
    simp only [indices, List.nodup_cons] at hn
    obtain ⟨hl, hr, hd⟩ := T.nodup_append' hn.2
    rw [parentOfLeaf_node] at hp
    rw [prune_node]
    simp only [indices]
    by_cases h1 : isLeafAt idx l = true
    · rw [h1] at hp; simp only [Bool.true_or, if_true] at hp
      injection hp with hp; subst hp
      rw [if_pos h1]
      obtain ⟨k, v, hh, e⟩ := isLeafAt_eq idx l h1
      rw [e]; simp only [indices, List.singleton_append]
      exact List.Perm.swap _ _ _
    · have h1' : isLeafAt idx l = false := by simpa using h1
      rw [if_neg h1]
      by_cases h2 : isLeafAt idx r = true
      · rw [h1', h2] at hp; simp only [Bool.or_true, if_true] at hp
        injection hp with hp; subst hp
        rw [if_pos h2]
        obtain ⟨k, v, hh, e⟩ := isLeafAt_eq idx r h2
        rw [e]; simp only [indices]
        exact (List.Perm.cons i List.perm_append_comm).trans (List.Perm.swap _ _ _)
      · have h2' : isLeafAt idx r = false := by simpa using h2
        rw [if_neg h2]
        rw [h1', h2'] at hp
        simp only [Bool.or_self, Bool.false_eq_true, if_false] at hp
        simp only [indices]
        cases hpl : parentOfLeaf idx l with
        | some q =>
          rw [hpl] at hp
          have hp : q = pi := by simpa [Option.or] using hp
          subst hp
          have hnr : idx ∉ r.indices := fun h' => hd idx (parentOfLeaf_mem idx l q hpl) h'
          rw [prune_not_mem idx r hnr]
          have p1 := ihl hl q hpl
          refine (List.Perm.cons i (List.Perm.append_right _ p1)).trans ?_
          simp only [List.cons_append]
          refine (List.Perm.swap idx i _).trans (List.Perm.cons idx ?_)
          exact List.Perm.swap q i _
        | none =>
          rw [hpl] at hp
          have hp : parentOfLeaf idx r = some pi := by simpa [Option.or] using hp
          have hnl : idx ∉ l.indices := fun h' => hd idx h' (parentOfLeaf_mem idx r pi hp)
          rw [prune_not_mem idx l hnl]
          have p1 := ihr hr pi hp
          refine (List.Perm.cons i (List.Perm.append_left _ p1)).trans ?_
          refine (List.Perm.cons i List.perm_middle).trans ?_
          refine (List.Perm.swap idx i _).trans (List.Perm.cons idx ?_)
          refine (List.Perm.cons i List.perm_middle).trans ?_
          exact List.Perm.swap pi i _

/-- erasing the indexes: pruning the leaf of key `k` is `T.del k` -/
theorem prune_erase (idx : Nat) (k : KeyId) (t : IT) (hn : t.indices.Nodup)
    (hkey : ∀ e ∈ t.leaves, (e.2.1 = k ↔ e.1 = idx)) :
    t.erase.del k = if isLeafAt idx t then none else some (prune idx t).erase := by
  induction t with
  | leaf i k' v hh =>
    have := hkey (i, k', v, hh) (by simp [leaves])
    simp only at this
    simp only [erase, T.del, isLeafAt, prune, beq_iff_eq]
    by_cases hi : i = idx
    · rw [if_pos hi, if_pos (this.mpr hi)]
    · rw [if_neg hi, if_neg (fun e => hi (this.mp e))]
  | node i l r ihl ihr =>
    simp only [indices, List.nodup_cons] at hn
    obtain ⟨hl, hr, hd⟩ := T.nodup_append' hn.2
    have il := ihl hl (fun e he => hkey e (by simp [leaves, he]))
    have ir := ihr hr (fun e he => hkey e (by simp [leaves, he]))
    rw [isLeafAt_node, prune_node]
    simp only [erase, T.del, Bool.false_eq_true, if_false]
    rw [il]
    by_cases h1 : isLeafAt idx l = true
    · rw [if_pos h1, if_pos h1]
    · rw [if_neg h1, if_neg h1]
      simp only
      rw [ir]
      by_cases h2 : isLeafAt idx r = true
      · rw [if_pos h2, if_pos h2]
        have hnl : idx ∉ l.indices := fun h' => hd idx h' (isLeafAt_mem idx r h2).1
        rw [prune_not_mem idx l hnl]
      · rw [if_neg h2, if_neg h2]
        simp only [erase]

theorem prune_idx (idx : Nat) (t : IT) (h : isLeafAt idx t = false) :
    (prune idx t).idx = (match t with
      | leaf i _ _ _ => i
      | node i l r => if isLeafAt idx l then r.idx else if isLeafAt idx r then l.idx else i) := by
  cases t with
  | leaf i k v hh => rfl
  | node i l r =>
    rw [prune_node]
    by_cases h1 : isLeafAt idx l = true
    · simp only [h1, if_true]
    · simp only [h1, Bool.false_eq_true, if_false]
      by_cases h2 : isLeafAt idx r = true
      · simp only [h2, if_true]
      · simp only [h2, Bool.false_eq_true, if_false, IT.idx]

end IT

/-! ### closure facts about represented trees -/

/-- the children named by an internal block of a represented tree are roots of proper subtrees -/
theorem Rep.child_inner {bl : List Block} {p : Option Nat} {c : IT} (h : Rep bl p c) {q : Nat} (hq : q ∈ c.indices)
    {d : Bool} {hh : Hash} {pp : Option Nat} {a b : Nat}
    (hb : bl[q]? = some { dirty := d, node := .internal hh pp a b }) : a ∈ c.indices.tail ∧ b ∈ c.indices.tail := by
  induction c generalizing p with
  | leaf i k v h' =>
    simp only [IT.indices, List.mem_singleton] at hq
    simp only [Rep] at h
    rw [hq, h] at hb; injection hb with hb; injection hb with _ hn; cases hn
  | node i l r ihl ihr =>
    simp only [Rep] at h
    obtain ⟨⟨d', h', hbi⟩, hl, hr⟩ := h
    simp only [IT.indices, List.tail_cons, List.mem_append]
    simp only [IT.indices, List.mem_cons, List.mem_append] at hq
    rcases hq with e | e | e
    · rw [e, hbi] at hb
      injection hb with hb; injection hb with _ hn; injection hn with _ _ e3 e4
      rw [← e3, ← e4]
      exact ⟨Or.inl l.idx_mem, Or.inr r.idx_mem⟩
    · obtain ⟨h1, h2⟩ := ihl hl e
      exact ⟨Or.inl (List.mem_of_mem_tail h1), Or.inl (List.mem_of_mem_tail h2)⟩
    · obtain ⟨h1, h2⟩ := ihr hr e
      exact ⟨Or.inr (List.mem_of_mem_tail h1), Or.inr (List.mem_of_mem_tail h2)⟩

/-- re-parenting a represented subtree: only the root block changes -/
theorem Rep.reparent {bl bl' : List Block} {p p' : Option Nat} {c : IT} (h : Rep bl p c)
    (hroot : ∀ b, bl[c.idx]? = some b → bl'[c.idx]? = some { b with node := b.node.setParent p' })
    (hrest : ∀ j ∈ c.indices.tail, bl'[j]? = bl[j]?) : Rep bl' p' c := by
  cases c with
  | leaf i k v hh =>
    simp only [Rep] at h ⊢
    have := hroot _ h
    simpa [IT.idx, Node.setParent] using this
  | node i l r =>
    simp only [Rep] at h ⊢
    obtain ⟨⟨d, hh, hb⟩, hl, hr⟩ := h
    have := hroot _ hb
    simp only [IT.idx, Node.setParent] at this
    refine ⟨⟨d, hh, this⟩, ?_, ?_⟩
    · exact hl.congr (fun j hj => hrest j (by simp [IT.indices, hj]))
    · exact hr.congr (fun j hj => hrest j (by simp [IT.indices, hj]))

end ChiaModel.Blob
