import ChiaModel.Lemmas.BlobRep
/-
C18: state changes that the structural invariant does not see (dirty flags and stored hashes of
internal nodes), and grafting a new subtree next to a leaf.
-/
namespace ChiaModel.Blob
open List M

/-- `T` differs from `s` at most in dirty flags and stored hashes of internal blocks -/
structure SameShape (s T : Blob) : Prop where
  free : T.free = s.free
  k2i : T.k2i = s.k2i
  h2i : T.h2i = s.h2i
  len : T.blocks.length = s.blocks.length
  blk : ∀ j : Nat, T.blocks[j]? = s.blocks[j]? ∨
    ∃ d d' hh hh' p l r, s.blocks[j]? = some { dirty := d, node := .internal hh p l r }
      ∧ T.blocks[j]? = some { dirty := d', node := .internal hh' p l r }

theorem SameShape.refl (s : Blob) : SameShape s s := ⟨rfl, rfl, rfl, rfl, fun _ => Or.inl rfl⟩

theorem SameShape.trans {a b c : Blob} (h1 : SameShape a b) (h2 : SameShape b c) : SameShape a c := by
  refine ⟨h2.free.trans h1.free, h2.k2i.trans h1.k2i, h2.h2i.trans h1.h2i, h2.len.trans h1.len, ?_⟩
  intro j
  rcases h2.blk j with e2 | ⟨d, d', hh, hh', p, l, r, e2, e2'⟩
  · rcases h1.blk j with e1 | ⟨d, d', hh, hh', p, l, r, e1, e1'⟩
    · exact Or.inl (e2.trans e1)
    · exact Or.inr ⟨d, d', hh, hh', p, l, r, e1, e2.trans e1'⟩
  · rcases h1.blk j with e1 | ⟨d1, d1', hh1, hh1', p1, l1, r1, e1, e1'⟩
    · exact Or.inr ⟨d, d', hh, hh', p, l, r, e1 ▸ e2, e2'⟩
    · rw [e1'] at e2
      injection e2 with e2; injection e2 with _ hn; injection hn with _ e3 e4 e5
      subst e3; subst e4; subst e5
      exact Or.inr ⟨d1, d', hh1, hh', p1, l1, r1, e1, e2'⟩

theorem SameShape.rep {s T : Blob} (h : SameShape s T) {p : Option Nat} {t : IT} (hr : Rep s.blocks p t) :
    Rep T.blocks p t := by
  induction t generalizing p with
  | leaf i k v hh =>
    simp only [Rep] at hr ⊢
    rcases h.blk i with e | ⟨d, d', h1, h2, q, l, r, e1, _⟩
    · rw [e]; exact hr
    · rw [hr] at e1; injection e1 with e1; injection e1 with _ hn; cases hn
  | node i l r ihl ihr =>
    simp only [Rep] at hr ⊢
    obtain ⟨⟨d, hh, hb⟩, hl, hr'⟩ := hr
    refine ⟨?_, ihl hl, ihr hr'⟩
    rcases h.blk i with e | ⟨d1, d1', h1, h2, q, l', r', e1, e2⟩
    · exact ⟨d, hh, by rw [e]; exact hb⟩
    · rw [hb] at e1; injection e1 with e1; injection e1 with _ hn; injection hn with _ e3 e4 e5
      subst e3; subst e4; subst e5
      exact ⟨d1', h2, e2⟩

theorem SameShape.range {s T : Blob} (h : SameShape s T) (hr : RangeP s) : RangeP T := by
  intro j b hb p hp
  rw [h.len]
  rcases h.blk j with e | ⟨d, d', hh, hh', q, l, r, e1, e2⟩
  · rw [e] at hb; exact hr j b hb p hp
  · rw [e2] at hb; injection hb with hb
    rw [← hb] at hp
    exact hr j _ e1 p hp

/-- the structural invariant does not see dirty flags and stored hashes of internal nodes -/
theorem Good.sameShape {s T : Blob} {t : IT} (g : Good s t) (h : SameShape s T) : Good T t where
  rep := h.rep g.rep
  root := g.root
  nodup := g.nodup
  freeNodup := by rw [h.free]; exact g.freeNodup
  free := by intro i; rw [h.free, h.len]; exact g.free i
  k2i := by rw [h.k2i]; exact g.k2i
  h2i := by rw [h.h2i]; exact g.h2i
  keys := g.keys
  hashes := g.hashes
  range := h.range g.range

/-- rewriting an internal block with the same parent and children -/
theorem sameShape_write (s : Blob) (i : Nat) (d d' : Bool) (hh hh' : Hash) (p : Option Nat) (l r : Nat)
    (hb : s.blocks[i]? = some { dirty := d, node := .internal hh p l r }) (hif : i ∉ s.free) :
    SameShape s (s.write i { dirty := d', node := .internal hh' p l r }) := by
  have hil : i < s.blocks.length := (List.getElem?_eq_some_iff.mp hb).1
  refine ⟨by rw [write_free, List.erase_of_not_mem hif], rfl, rfl, write_len s i _ hil, ?_⟩
  intro j
  rw [write_get s i _ hil]
  by_cases hj : j = i
  · rw [if_pos hj, hj]; exact Or.inr ⟨d, d', hh, hh', p, l, r, hb, rfl⟩
  · rw [if_neg hj]; exact Or.inl rfl

/-- the dirty-marking walk only changes dirty flags of internal blocks -/
theorem markDirtyAux_sameShape (f : Nat) (i : Nat) (s : Blob) (hinv : LInv s) (hi : i ∉ s.free)
    (hb : ∃ d h p l r, s.blocks[i]? = some { dirty := d, node := .internal h p l r }) :
    SameShape s (markDirtyAux f i s).2 := by
  induction f generalizing i s with
  | zero => exact SameShape.refl s
  | succ f ih =>
    obtain ⟨d, h, p, l, r, hb⟩ := hb
    have hil : i < s.blocks.length := (List.getElem?_eq_some_iff.mp hb).1
    unfold markDirtyAux
    simp only [bind_run, getBlock_run, hb]
    cases d with
    | true => simp only [if_true]; exact SameShape.refl s
    | false =>
      simp only [Bool.false_eq_true, if_false, Node.parent]
      have hsn := sameNodes_setDirty s i false h p l r hi hb true
      have hT := hsn.linv hinv
      have hss := sameShape_write s i false true h h p l r hb hi
      cases p with
      | none =>
        have hw : writeBlock i { dirty := true, node := .internal h none l r } s
            = (.ok (), s.write i { dirty := true, node := .internal h none l r }) := by
          rw [writeBlock_run, if_neg (Nat.not_lt.mpr (Nat.le_of_lt hil))]
        simp only [bind_run, hw, pure_run]
        exact hss
      | some q =>
        have hw : writeBlock i { dirty := true, node := .internal h (some q) l r } s
            = (.ok (), s.write i { dirty := true, node := .internal h (some q) l r }) := by
          rw [writeBlock_run, if_neg (Nat.not_lt.mpr (Nat.le_of_lt hil))]
        simp only [bind_run, hw]
        obtain ⟨hqf, dq, qh, qp, ql, qr, hqb, _⟩ := hinv.parent_of hi hb rfl
        refine hss.trans (ih q _ hT (by rw [hsn.free]; exact hqf) ?_)
        rcases hsn.get q with ⟨a, _⟩ | ⟨d1, d2, n, a, b⟩
        · rw [a] at hqb; cases hqb
        · rw [a] at hqb; injection hqb with hqb; injection hqb with _ hn; subst hn
          exact ⟨_, _, _, _, _, b⟩

theorem markLineageDirty_sameShape (i : Nat) (s : Blob) (hinv : LInv s) (hi : i ∉ s.free)
    (hb : ∃ d h p l r, s.blocks[i]? = some { dirty := d, node := .internal h p l r }) :
    SameShape s (markLineageDirty i s).2 := by
  unfold markLineageDirty
  simp only [bind_run, M.get]
  exact markDirtyAux_sameShape _ i s hinv hi hb

end ChiaModel.Blob
