import ChiaModel.Lemmas.StreamablePair
/-!
`decPresent`, and the generator tail of `FullBlock` / `UnfinishedBlock`.
-/
namespace ChiaModel.Streamable
open ChiaModel

theorem decPresent_ok {p : Bool} {f : Dec} {b r : Bytes} {v : V} :
    (decPresent p f b).out = .ok (v, r) ↔
      (p = false ∧ v = .none ∧ r = b) ∨ (p = true ∧ ∃ x, (f b).out = .ok (x, r) ∧ v = .some x) := by
  unfold decPresent
  cases p
  · simp only [Bool.false_eq_true, if_false, Res.pure_out]
    constructor
    · intro e; injection e with e; injection e with e1 e2
      exact Or.inl ⟨by simp, e1.symm, e2.symm⟩
    · rintro (⟨_, rfl, rfl⟩ | ⟨h, _⟩)
      · rfl
      · simp at h
  · simp only [if_true]
    rw [Res.bind_ok]
    constructor
    · rintro ⟨⟨x, r'⟩, hf, h2⟩
      simp only [Res.pure_out] at h2
      injection h2 with h2; injection h2 with e1 e2; subst e1; subst e2
      exact Or.inr ⟨by simp, x, hf, rfl⟩
    · rintro (⟨h, _⟩ | ⟨_, x, hf, rfl⟩)
      · simp at h
      · exact ⟨(x, r), hf, rfl⟩

theorem decPresent_np {p : Bool} {f : Dec} (hf : ∀ b s, (f b).out ≠ .panic s) (b : Bytes) (s : String) :
    (decPresent p f b).out ≠ .panic s := by
  unfold decPresent
  cases p
  · simp
  · simp only [if_true]
    rw [Ne, Res.bind_panic]
    rintro (h | ⟨a, _, h⟩)
    · exact hf _ _ h
    · simp at h

/-- an Option whose prefix byte `k ∈ {0, 1}` was already consumed -/
theorem option_present {f : Dec} {k : Nat} (hk : k < 2) {b' r : Bytes} {v : V} :
    (decOption f (k :: b')).out = .ok (v, r) ↔ (decPresent (k % 2 != 0) f b').out = .ok (v, r) := by
  rw [decOption_ok, decPresent_ok]
  have : k = 0 ∨ k = 1 := by omega
  rcases this with rfl | rfl
  · constructor
    · rintro (⟨e, rfl⟩ | ⟨b'', x, e, _⟩)
      · injection e with _ e2; exact Or.inl ⟨by decide, rfl, e2.symm⟩
      · injection e with e1 _; cases e1
    · rintro (⟨_, rfl, rfl⟩ | ⟨h, _⟩)
      · exact Or.inl ⟨rfl, rfl⟩
      · exact absurd h (by decide)
  · constructor
    · rintro (⟨e, _⟩ | ⟨b'', x, e, hf, rfl⟩)
      · injection e with e1 _; cases e1
      · injection e with _ e2; subst e2; exact Or.inr ⟨by decide, x, hf, rfl⟩
    · rintro (⟨h, _⟩ | ⟨_, x, hf, rfl⟩)
      · exact absurd h (by decide)
      · exact Or.inr ⟨b', x, rfl, hf, rfl⟩

theorem encOption_shape {e : Enc} {a : V} {bs : Bytes} (h : encOption e a = some bs) :
    ∃ k rest, bs = k :: rest ∧ k < 2 ∧
      ((k = 0 ∧ a = .none ∧ rest = []) ∨ (k = 1 ∧ ∃ x, a = .some x ∧ e x = some rest)) := by
  cases a <;> simp [encOption] at h
  · exact ⟨0, [], h.symm, by decide, Or.inl ⟨rfl, rfl, rfl⟩⟩
  · rename_i x
    obtain ⟨rest, he, rfl⟩ := h
    exact ⟨1, rest, rfl, by decide, Or.inr ⟨rfl, x, rfl, he⟩⟩

theorem decGenTail_ok {O : Oracles} {tr : Bool} {b r : Bytes} {v : V} :
    (decGenTail O tr b).out = .ok (v, r) ↔ ∃ k b', b = k :: b' ∧
      ((k / 2 = 0 ∧ ∃ g r1 l, (decPresent (k % 2 != 0) (decProgram O tr) b').out = .ok (g, r1) ∧
          (decVec 4 (decUint 4) r1).out = .ok (l, r) ∧ v = .tup [g, l, .none, .n 0]) ∨
       (k / 2 = 1 ∧ ∃ bf, (decPresent (k % 2 != 0) decBytes b').out = .ok (bf, r) ∧
          v = .tup [.none, .list [], bf, .n 1])) := by
  unfold decGenTail
  rw [Res.bind_ok]
  constructor
  · rintro ⟨⟨k, b'⟩, h1, h2⟩
    have hb := readUint1_ok.mp h1
    subst hb
    refine ⟨k, b', rfl, ?_⟩
    simp only at h2
    by_cases h0 : k / 2 = 0
    · simp only [h0, if_true] at h2
      obtain ⟨⟨g, r1⟩, hg, h3⟩ := Res.bind_ok.mp h2
      obtain ⟨⟨l, r2⟩, hl, h4⟩ := Res.bind_ok.mp h3
      simp only [Res.pure_out] at h4
      injection h4 with h4; injection h4 with e1 e2; subst e1; subst e2
      exact Or.inl ⟨h0, g, r1, l, hg, hl, rfl⟩
    · by_cases h1' : k / 2 = 1
      · simp only [h1', if_neg (by decide : ¬ (1 : Nat) = 0), if_true] at h2
        obtain ⟨⟨bf, r1⟩, hbf, h3⟩ := Res.bind_ok.mp h2
        simp only [Res.pure_out] at h3
        injection h3 with h3; injection h3 with e1 e2; subst e1; subst e2
        exact Or.inr ⟨h1', bf, hbf, rfl⟩
      · rw [if_neg h0, if_neg h1'] at h2; simp at h2
  · rintro ⟨k, b', rfl, hk⟩
    refine ⟨(k, b'), readUint1_ok.mpr rfl, ?_⟩
    simp only
    rcases hk with ⟨h0, g, r1, l, hg, hl, rfl⟩ | ⟨h1', bf, hbf, rfl⟩
    · simp only [h0, if_true]
      exact Res.bind_ok.mpr ⟨(g, r1), hg, Res.bind_ok.mpr ⟨(l, r), hl, rfl⟩⟩
    · simp only [h1', if_neg (by decide : ¬ (1 : Nat) = 0), if_true]
      exact Res.bind_ok.mpr ⟨(bf, r), hbf, rfl⟩

theorem decGenTail_np (O : Oracles) (tr : Bool) (b : Bytes) (s : String) : (decGenTail O tr b).out ≠ .panic s := by
  unfold decGenTail
  rw [Ne, Res.bind_panic]
  rintro (h | ⟨⟨k, b'⟩, _, h⟩)
  · exact readUint_no_panic _ _ _ h
  · simp only at h
    split at h
    · rcases Res.bind_panic.mp h with h2 | ⟨a2, _, h2⟩
      · exact decPresent_np (decProgram_np O tr) _ _ h2
      · rcases Res.bind_panic.mp h2 with h3 | ⟨a3, _, h3⟩
        · exact decVec_np (decUint_np 4) _ _ h3
        · simp at h3
    · split at h
      · rcases Res.bind_panic.mp h with h2 | ⟨a2, _, h2⟩
        · exact decPresent_np (total_bytes.np) _ _ h2
        · simp at h2
      · simp at h

theorem wfGenTail_iff {O : Oracles} {tr : Bool} {v : V} :
    wfGenTail O tr v = true ↔ ∃ gen refs buf version, v = .tup [gen, refs, buf, .n version] ∧
      ((version = 0 ∧ wfOption (wfProgram O tr) gen = true ∧ wfVec (wfUint 4) refs = true ∧ buf = .none) ∨
       (version = 1 ∧ gen = .none ∧ refs = .list [] ∧ wfOption wfBytes buf = true)) := by
  constructor
  · intro h
    match v, h with
    | .tup [gen, refs, buf, .n version], h =>
      refine ⟨gen, refs, buf, version, rfl, ?_⟩
      simp only [wfGenTail] at h
      by_cases h0 : version = 0
      · simp only [h0, if_true, Bool.and_eq_true] at h
        refine Or.inl ⟨h0, h.1.1, h.1.2, ?_⟩
        cases buf <;> first | rfl | exact absurd h.2 Bool.false_ne_true
      · by_cases h1 : version = 1
        · simp only [h1, if_neg (by decide : ¬ (1 : Nat) = 0), if_true, Bool.and_eq_true] at h
          refine Or.inr ⟨h1, ?_, ?_, h.2⟩
          · cases gen <;> first | rfl | exact absurd h.1.1 Bool.false_ne_true
          · obtain ⟨⟨_, h2⟩, _⟩ := h
            cases refs <;> first | exact absurd h2 Bool.false_ne_true | skip
            rename_i l
            cases l <;> first | rfl | exact absurd h2 Bool.false_ne_true
        · simp [if_neg h0, if_neg h1] at h
  · rintro ⟨gen, refs, buf, version, rfl, h⟩
    rcases h with ⟨rfl, h1, h2, rfl⟩ | ⟨rfl, rfl, rfl, h3⟩
    · simp [wfGenTail, h1, h2]
    · simp [wfGenTail, h3]

theorem codec_gentail (O : Oracles) (hO : OracleContract O) (tr : Bool) :
    Codec (decGenTail O tr) encGenTail (wfGenTail O tr) where
  rt := by
    intro v hv
    obtain ⟨gen, refs, buf, version, rfl, h⟩ := wfGenTail_iff.mp hv
    rcases h with ⟨rfl, hg, hr, rfl⟩ | ⟨rfl, rfl, rfl, hb⟩
    · obtain ⟨bs1, he1, hd1⟩ := (codec_option (codec_program O hO tr)).rt gen hg
      obtain ⟨bs2, he2, hd2⟩ := (codec_vec 4 (codec_uint 4)).rt refs hr
      obtain ⟨k, rest, rfl, hk, _⟩ := encOption_shape he1
      refine ⟨k :: rest ++ bs2, by simp [encGenTail, he1, he2], fun r => ?_⟩
      refine decGenTail_ok.mpr ⟨k, rest ++ bs2 ++ r, by simp, Or.inl ⟨by omega, gen, bs2 ++ r, refs, ?_, hd2 r, rfl⟩⟩
      have := hd1 (bs2 ++ r)
      rw [List.cons_append, option_present hk] at this
      rw [List.append_assoc]; exact this
    · obtain ⟨bs1, he1, hd1⟩ := (codec_option codec_bytes).rt buf hb
      obtain ⟨k, rest, rfl, hk, hshape⟩ := encOption_shape he1
      have henc : encGenTail (.tup [.none, .list [], buf, .n 1]) = some ((k + 2) :: rest) := by
        rcases hshape with ⟨rfl, rfl, rfl⟩ | ⟨rfl, x, rfl, hx⟩
        · simp [encGenTail]
        · cases x <;> simp [encBytes] at hx
          rename_i c
          obtain ⟨_, rfl⟩ := hx
          simp [encGenTail]
      refine ⟨(k + 2) :: rest, henc, fun r => ?_⟩
      refine decGenTail_ok.mpr ⟨k + 2, rest ++ r, by simp, Or.inr ⟨by omega, buf, ?_, rfl⟩⟩
      have := hd1 r
      rw [List.cons_append, option_present hk] at this
      have hk2 : ((k + 2) % 2 != 0) = (k % 2 != 0) := by simp
      rw [hk2]; exact this
  cn := by
    intro b v r hb hd
    obtain ⟨k, b', rfl, hk⟩ := decGenTail_ok.mp hd
    have hb' : isBytes b' := (isBytes_cons.mp hb).2
    have hkb : k < 256 := (isBytes_cons.mp hb).1
    rcases hk with ⟨h0, g, r1, l, hg, hl, rfl⟩ | ⟨h1', bf, hbf, rfl⟩
    · have hk2 : k < 2 := by omega
      have hg' := (option_present hk2).mpr hg
      obtain ⟨p1, he1, hp1, hw1⟩ := (codec_option (codec_program O hO tr)).cn (k :: b') g r1 hb hg'
      obtain ⟨p2, he2, hp2, hw2⟩ := (codec_vec 4 (codec_uint 4)).cn r1 l r (isBytes_of_append_right hp1 hb) hl
      refine ⟨p1 ++ p2, by simp [encGenTail, he1, he2], by rw [List.append_assoc, hp2, hp1], ?_⟩
      exact wfGenTail_iff.mpr ⟨g, l, .none, 0, rfl, Or.inl ⟨rfl, hw1, hw2, rfl⟩⟩
    · have hk2 : k - 2 < 2 := by omega
      have hkk : k = (k - 2) + 2 := by omega
      have hpar : ((k - 2) % 2 != 0) = (k % 2 != 0) := by
        have : k % 2 = (k - 2) % 2 := by omega
        rw [this]
      have hbf' : (decOption decBytes ((k - 2) :: b')).out = .ok (bf, r) := by
        rw [option_present hk2, hpar]; exact hbf
      have hb2 : isBytes ((k - 2) :: b') := isBytes_cons.mpr ⟨by omega, hb'⟩
      obtain ⟨p1, he1, hp1, hw1⟩ := (codec_option codec_bytes).cn _ bf r hb2 hbf'
      obtain ⟨k', rest, rfl, _, hshape⟩ := encOption_shape he1
      have hk' : k' = k - 2 := by
        have := congrArg List.head? hp1; simpa using this
      have hrest : rest ++ r = b' := by
        have := congrArg List.tail hp1; simpa using this
      refine ⟨k :: rest, ?_, by simp [hrest], wfGenTail_iff.mpr ⟨.none, .list [], bf, 1, rfl, Or.inr ⟨rfl, rfl, rfl, hw1⟩⟩⟩
      rcases hshape with ⟨h0, rfl, rfl⟩ | ⟨h1, x, rfl, hx⟩
      · have : k = 2 := by omega
        subst this; simp [encGenTail]
      · have : k = 3 := by omega
        subst this
        cases x <;> simp [encBytes] at hx
        rename_i c
        obtain ⟨_, rfl⟩ := hx
        simp [encGenTail]

theorem total_gentail (O : Oracles) (tr : Bool) : Total (decGenTail O tr) where
  np := decGenTail_np O tr
  pre := by
    intro b v r hd
    obtain ⟨k, b', rfl, hk⟩ := decGenTail_ok.mp hd
    rcases hk with ⟨_, g, r1, l, hg, hl, _⟩ | ⟨_, bf, hbf, _⟩
    · obtain ⟨p2, rfl⟩ := (total_vec 4 (total_uint 4)).pre r1 l r hl
      rcases decPresent_ok.mp hg with ⟨_, _, rfl⟩ | ⟨_, x, hx, _⟩
      · exact ⟨k :: p2, rfl⟩
      · obtain ⟨p1, rfl⟩ := (total_program O tr).pre b' x _ hx
        exact ⟨k :: (p1 ++ p2), by simp⟩
    · rcases decPresent_ok.mp hbf with ⟨_, _, rfl⟩ | ⟨_, x, hx, _⟩
      · exact ⟨[k], rfl⟩
      · obtain ⟨p1, rfl⟩ := total_bytes.pre b' x _ hx
        exact ⟨k :: p1, rfl⟩

theorem agree_present {p : Bool} {f g : Dec} (h : Agree f g) : Agree (decPresent p f) (decPresent p g) := by
  intro b x hx
  obtain ⟨v, r⟩ := x
  rcases decPresent_ok.mp hx with h1 | ⟨hp, y, hy, hv⟩
  · exact decPresent_ok.mpr (Or.inl h1)
  · exact decPresent_ok.mpr (Or.inr ⟨hp, y, h b (y, r) hy, hv⟩)

theorem agree_gentail (O : Oracles) (hO : OracleContract O) : Agree (decGenTail O false) (decGenTail O true) := by
  intro b x hx
  obtain ⟨v, r⟩ := x
  obtain ⟨k, b', rfl, hk⟩ := decGenTail_ok.mp hx
  refine decGenTail_ok.mpr ⟨k, b', rfl, ?_⟩
  rcases hk with ⟨h0, g, r1, l, hg, hl, hv⟩ | h
  · exact Or.inl ⟨h0, g, r1, l, agree_present (agree_program O hO) _ (g, r1) hg, hl, hv⟩
  · exact Or.inr h

end ChiaModel.Streamable
