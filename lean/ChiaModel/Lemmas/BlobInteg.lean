import ChiaModel.Lemmas.BlobDec
/-
C18: a state satisfying the structural invariant passes `check_integrity`.
-/
namespace ChiaModel.Blob
open List M

/-- the nodes in breadth-first order -/
def IT.bfsNodes : Nat → List IT → List IT
  | 0, _ => []
  | _+1, [] => []
  | f+1, .leaf i k v h :: rest => .leaf i k v h :: IT.bfsNodes f rest
  | f+1, .node i l r :: rest => .node i l r :: IT.bfsNodes f (rest ++ [l, r])

theorem IT.idx_node (i : Nat) (l r : IT) : (IT.node i l r).idx = i := rfl
theorem IT.idx_leaf (i : Nat) (k : KeyId) (v : ValueId) (h : Hash) : (IT.leaf i k v h).idx = i := rfl

def nodesOf (Q : List IT) : Nat := (Q.map (·.indices.length)).sum

theorem nodesOf_cons (c : IT) (Q : List IT) : nodesOf (c :: Q) = c.indices.length + nodesOf Q := by
  simp [nodesOf]

theorem nodesOf_append (A B : List IT) : nodesOf (A ++ B) = nodesOf A + nodesOf B := by
  simp [nodesOf]

/-- `ParentFirstIterator` over a forest of stored subtrees -/
theorem pfAux_sim (bl : List Block) (f : Nat) :
    ∀ (Q : List IT) (q : List Nat) (acc : List (Nat × Block)),
    (∀ c ∈ Q, ∃ p, Rep bl p c) → (Q.flatMap IT.indices).Nodup → (∀ j ∈ Q.flatMap IT.indices, j ∉ q) →
    nodesOf Q < f →
    pfAux bl f (Q.map IT.idx) q acc
      = (acc.reverse ++ (IT.bfsNodes f Q).map (fun c => (c.idx, blockAt bl c.idx)), true) := by
  induction f with
  | zero => intro Q q acc _ _ _ h; omega
  | succ f ih =>
    intro Q q acc hrep hn hq hf
    cases Q with
    | nil => simp [pfAux, IT.bfsNodes]
    | cons c rest =>
      have hrr : ∀ c' ∈ rest, ∃ p, Rep bl p c' := fun c' h => hrep c' (List.mem_cons_of_mem _ h)
      rw [nodesOf_cons] at hf
      cases c with
      | leaf i k v h =>
        obtain ⟨p, hr⟩ := hrep (.leaf i k v h) List.mem_cons_self
        simp only [Rep] at hr
        simp only [List.flatMap_cons, IT.indices, List.singleton_append, List.nodup_cons] at hn
        have hb : blockAt bl i = { dirty := false, node := .leaf h p k v } := by simp [blockAt, hr]
        have := ih rest q ((i, { dirty := false, node := .leaf h p k v }) :: acc) hrr hn.2
          (fun j hj => hq j (by simp only [List.flatMap_cons, List.mem_append]; exact Or.inr hj))
          (by simp only [IT.indices, List.length_cons, List.length_nil] at hf; omega)
        show pfAux bl (f + 1) (i :: rest.map IT.idx) q acc = _
        simp only [pfAux, hr, this, IT.bfsNodes, List.map_cons, IT.idx_leaf, hb]
        simp
      | node i l r =>
        obtain ⟨p, hr⟩ := hrep (.node i l r) List.mem_cons_self
        simp only [Rep] at hr
        obtain ⟨⟨d, hh, hblk⟩, hl, hr'⟩ := hr
        have hiq : i ∉ q := hq i (by simp [IT.indices])
        have hc : q.contains i = false := by simp [hiq]
        simp only [List.flatMap_cons, IT.indices, List.cons_append, List.nodup_cons] at hn
        have hperm : (rest ++ [l, r]).flatMap IT.indices ~ (l.indices ++ r.indices) ++ rest.flatMap IT.indices := by
          simp only [List.flatMap_append, List.flatMap_cons, List.flatMap_nil, List.append_nil]
          exact List.perm_append_comm
        have hb : blockAt bl i = { dirty := d, node := .internal hh p l.idx r.idx } := by simp [blockAt, hblk]
        have hA : ∀ c ∈ rest ++ [l, r], ∃ p, Rep bl p c := by
          intro c hc'
          rcases List.mem_append.mp hc' with a | a
          · exact hrr c a
          · simp only [List.mem_cons, List.not_mem_nil, or_false] at a
            rcases a with a | a
            · exact ⟨some i, a ▸ hl⟩
            · exact ⟨some i, a ▸ hr'⟩
        have hB : ∀ j ∈ (rest ++ [l, r]).flatMap IT.indices, j ∉ i :: q := by
          intro j hj hm
          have hj' := hperm.mem_iff.mp hj
          rcases List.mem_cons.mp hm with a | a
          · subst a; exact hn.1 hj'
          · refine hq j ?_ a
            simp only [List.flatMap_cons, IT.indices, List.cons_append]
            exact List.mem_cons_of_mem _ hj'
        have := ih (rest ++ [l, r]) (i :: q) ((i, { dirty := d, node := .internal hh p l.idx r.idx }) :: acc) hA
          (hperm.nodup_iff.mpr hn.2) hB (by
            rw [nodesOf_append]
            simp only [nodesOf, List.map_cons, List.map_nil, List.sum_cons, List.sum_nil, IT.indices, List.length_cons,
              List.length_append] at hf ⊢
            omega)
        show pfAux bl (f + 1) (i :: rest.map IT.idx) q acc = _
        rw [List.map_append] at this
        simp only [pfAux, hblk, hc, Bool.false_eq_true, if_false, IT.bfsNodes, List.map_cons, IT.idx_node, hb]
        simp only [List.map_cons, List.map_nil] at this
        rw [this]
        simp

/-! ### the integrity loop -/

def IT.nInner : IT → Nat
  | .leaf _ _ _ _ => 0
  | .node _ l r => l.nInner + r.nInner + 1

theorem IT.indices_length (t : IT) : t.indices.length = t.leaves.length + t.nInner := by
  induction t with
  | leaf i k v h => rfl
  | node i l r ihl ihr =>
    simp only [IT.indices, IT.leaves, IT.nInner, List.length_cons, List.length_append, ihl, ihr]; omega

theorem IT.indices_pos (t : IT) : 0 < t.indices.length := by cases t <;> simp [IT.indices]

def lvOf (QP : List (Nat × IT)) : Nat := (QP.map (·.2.leaves.length)).sum
def inOf (QP : List (Nat × IT)) : Nat := (QP.map (·.2.nInner)).sum

theorem mapErase_perm_cons {κ : Type} [DecidableEq κ] (m m' : List (κ × Nat)) (k : κ) (v : Nat)
    (hn : (m.map (·.1)).Nodup) (hp : m ~ (k, v) :: m') : mapErase m k ~ m' := by
  have h1 : mapErase m k ~ mapErase ((k, v) :: m') k := hp.filter _
  have hn' : (((k, v) :: m').map (·.1)).Nodup := (hp.map (·.1)).nodup_iff.mp hn
  simp only [List.map_cons, List.nodup_cons] at hn'
  have h2 : mapErase ((k, v) :: m') k = m' := by
    simp only [mapErase, ne_eq, not_true_eq_false, decide_false, Bool.false_eq_true, not_false_eq_true,
      List.filter_cons_of_neg]
    rw [List.filter_eq_self]
    intro e he
    simp only [decide_eq_true_eq]
    intro e1
    exact hn'.1 (e1 ▸ List.mem_map_of_mem (f := (·.1)) he)
  rw [h2] at h1; exact h1

theorem integrity_sim {s : Blob} {t : IT} (g : Good s t) (f : Nat) :
    ∀ (QP : List (Nat × IT)) (lc ic : Nat) (c2p : List (Nat × Nat)),
    (∀ pc ∈ QP, Rep s.blocks (some pc.1) pc.2) →
    (∀ pc ∈ QP, ∀ e ∈ pc.2.leaves, e ∈ t.leaves) →
    ((QP.map (·.2)).flatMap IT.indices).Nodup →
    c2p ~ QP.map (fun pc => (pc.2.idx, pc.1)) →
    nodesOf (QP.map (·.2)) ≤ f →
    integrityLoop s ((IT.bfsNodes f (QP.map (·.2))).map (fun c => (c.idx, blockAt s.blocks c.idx))) lc ic c2p
      = .ok (lc + lvOf QP, ic + inOf QP, []) := by
  induction f with
  | zero =>
    intro QP lc ic c2p _ _ _ hc hf
    cases QP with
    | nil =>
      have : c2p = [] := List.perm_nil.mp (by simpa using hc)
      subst this
      simp [IT.bfsNodes, integrityLoop, lvOf, inOf]
    | cons pc rest =>
      simp only [List.map_cons, nodesOf_cons] at hf
      have := pc.2.indices_pos; omega
  | succ f ih =>
    intro QP lc ic c2p hrep hlv hn hc hf
    cases QP with
    | nil =>
      have : c2p = [] := List.perm_nil.mp (by simpa using hc)
      subst this
      simp [IT.bfsNodes, integrityLoop, lvOf, inOf]
    | cons pc rest =>
      obtain ⟨p, c⟩ := pc
      have hrr : ∀ pc ∈ rest, Rep s.blocks (some pc.1) pc.2 := fun pc h => hrep pc (List.mem_cons_of_mem _ h)
      have hlr : ∀ pc ∈ rest, ∀ e ∈ pc.2.leaves, e ∈ t.leaves := fun pc h => hlv pc (List.mem_cons_of_mem _ h)
      have hrc : Rep s.blocks (some p) c := hrep (p, c) List.mem_cons_self
      simp only [List.map_cons, nodesOf_cons] at hf
      simp only [List.map_cons, List.flatMap_cons] at hn
      -- the keys of the child → parent map are the roots of the queue
      have hsub : (((p, c) :: rest).map (fun pc => (pc.2.idx, pc.1))).map (·.1)
          = c.idx :: rest.map (fun pc => pc.2.idx) := by simp [List.map_map, Function.comp_def]
      have hrootsN : (c.idx :: rest.map (fun pc => pc.2.idx)).Nodup := by
        have hs : (c.idx :: rest.map (fun pc => pc.2.idx)).Sublist (c.indices ++ (rest.map (·.2)).flatMap IT.indices) := by
          have h1 : [c.idx].Sublist c.indices := List.singleton_sublist.mpr c.idx_mem
          have h2 : (rest.map (fun pc => pc.2.idx)).Sublist ((rest.map (·.2)).flatMap IT.indices) := by
            clear hrr hlr hc hf hn hsub hrep hlv
            induction rest with
            | nil => simp
            | cons x xs ihx =>
              simp only [List.map_cons, List.flatMap_cons]
              exact (List.singleton_sublist.mpr x.2.idx_mem).append ihx
          exact h1.append h2
        exact hn.sublist hs
      have hkn : (c2p.map (·.1)).Nodup := by
        have := (hc.map (·.1)).nodup_iff.mpr
        apply this; rw [hsub]; exact hrootsN
      have hget : mapGet c2p c.idx = some p :=
        mapGet_of_mem c2p _ _ hkn (hc.mem_iff.mpr List.mem_cons_self)
      have herase : mapErase c2p c.idx ~ rest.map (fun pc => (pc.2.idx, pc.1)) :=
        mapErase_perm_cons c2p _ c.idx p hkn hc
      cases c with
      | leaf i k v h =>
        simp only [Rep] at hrc
        have hb : blockAt s.blocks i = { dirty := false, node := .leaf h (some p) k v } := by simp [blockAt, hrc]
        have hmem : (i, k, v, h) ∈ t.leaves := hlv (p, .leaf i k v h) List.mem_cons_self _ (by simp [IT.leaves])
        have hk := g.mapGet_k2i hmem
        simp only at hk
        have hlive := (g.live_iff i).mpr (t.leaf_idx_mem _ hmem)
        simp only [IT.indices, List.singleton_append, List.nodup_cons] at hn
        have := ih rest (lc + 1) ic (mapErase c2p i) hrr hlr hn.2 herase
          (by simp only [IT.indices, List.length_cons, List.length_nil] at hf; omega)
        simp only [IT.bfsNodes, List.map_cons, IT.idx_leaf, hb, integrityLoop, Node.parent]
        simp only [IT.idx_leaf] at hget
        simp only [hget, if_true, hk, ne_eq, not_true_eq_false, if_false, hlive.2, this]
        simp only [lvOf, inOf, List.map_cons, List.sum_cons, IT.leaves, List.length_cons, List.length_nil, IT.nInner]
        simp [Nat.add_assoc, Nat.add_comm, Nat.add_left_comm]
      | node i l r =>
        simp only [Rep] at hrc
        obtain ⟨⟨d, hh, hblk⟩, hl, hr⟩ := hrc
        have hb : blockAt s.blocks i = { dirty := d, node := .internal hh (some p) l.idx r.idx } := by
          simp [blockAt, hblk]
        simp only [IT.indices, List.cons_append, List.nodup_cons] at hn
        have hperm : ((rest ++ [(i, l), (i, r)]).map (·.2)).flatMap IT.indices
            ~ (l.indices ++ r.indices) ++ (rest.map (·.2)).flatMap IT.indices := by
          simp only [List.map_append, List.flatMap_append, List.map_cons, List.map_nil, List.flatMap_cons,
            List.flatMap_nil, List.append_nil]
          exact List.perm_append_comm
        have hnd2 := hperm.nodup_iff.mpr hn.2
        -- the two new entries
        simp only [IT.idx_node] at herase hget
        have hlk : mapGet (mapErase c2p i) l.idx = none := by
          rw [mapGet_none_iff]
          intro e he hek
          have := herase.mem_iff.mp he
          obtain ⟨pc, hpc, e2⟩ := List.mem_map.mp this
          have hm : l.idx ∈ (rest.map (·.2)).flatMap IT.indices := by
            rw [← hek, ← e2]
            exact List.mem_flatMap.mpr ⟨pc.2, List.mem_map_of_mem hpc, pc.2.idx_mem⟩
          exact (List.nodup_append.mp hn.2).2.2 _ (List.mem_append.mpr (Or.inl l.idx_mem)) _ hm rfl
        have hrk : mapGet (mapInsert (mapErase c2p i) l.idx i) r.idx = none := by
          rw [mapGet_none_iff]
          intro e he hek
          have := (mapInsert_perm_new _ _ _ hlk).mem_iff.mp he
          rcases List.mem_cons.mp this with a | a
          · rw [a] at hek
            simp only at hek
            exact (List.nodup_append.mp (List.nodup_append.mp hn.2).1).2.2 _ l.idx_mem _ r.idx_mem hek
          · have := herase.mem_iff.mp a
            obtain ⟨pc, hpc, e2⟩ := List.mem_map.mp this
            have hm : r.idx ∈ (rest.map (·.2)).flatMap IT.indices := by
              rw [← hek, ← e2]
              exact List.mem_flatMap.mpr ⟨pc.2, List.mem_map_of_mem hpc, pc.2.idx_mem⟩
            exact (List.nodup_append.mp hn.2).2.2 _ (List.mem_append.mpr (Or.inr r.idx_mem)) _ hm rfl
        have hc2 : c2pInsert (c2pInsert (mapErase c2p i) l.idx i) r.idx i
            ~ (rest ++ [(i, l), (i, r)]).map (fun pc => (pc.2.idx, pc.1)) := by
          unfold c2pInsert
          refine (mapInsert_perm_new _ _ _ hrk).trans ?_
          refine ((mapInsert_perm_new _ _ _ hlk).cons _).trans ?_
          simp only [List.map_append, List.map_cons, List.map_nil]
          refine (List.Perm.trans ?_ List.perm_append_comm)
          simp only [List.cons_append, List.nil_append]
          exact (List.Perm.swap _ _ _).trans ((herase.cons _).cons _)
        have := ih (rest ++ [(i, l), (i, r)]) lc (ic + 1) _ ?_ ?_ hnd2 hc2 ?_
        · simp only [IT.bfsNodes, List.map_cons, IT.idx_node, hb, integrityLoop, Node.parent]
          simp only [hget, if_true]
          simp only [List.map_append, List.map_cons, List.map_nil] at this
          rw [this]
          simp only [lvOf, inOf, List.map_append, List.map_cons, List.map_nil, List.sum_append, List.sum_cons,
            List.sum_nil, IT.leaves, List.length_append, IT.nInner]
          simp [Nat.add_assoc, Nat.add_comm, Nat.add_left_comm]
        · intro pc hpc
          rcases List.mem_append.mp hpc with a | a
          · exact hrr pc a
          · simp only [List.mem_cons, List.not_mem_nil, or_false] at a
            rcases a with a | a
            · rw [a]; exact hl
            · rw [a]; exact hr
        · intro pc hpc e he
          rcases List.mem_append.mp hpc with a | a
          · exact hlr pc a e he
          · simp only [List.mem_cons, List.not_mem_nil, or_false] at a
            refine hlv (p, .node i l r) List.mem_cons_self e ?_
            simp only [IT.leaves, List.mem_append]
            rcases a with a | a
            · rw [a] at he; exact Or.inl he
            · rw [a] at he; exact Or.inr he
        · simp only [List.map_append, List.map_cons, List.map_nil, nodesOf_append, nodesOf_cons]
          simp only [nodesOf, List.map_nil, List.sum_nil, IT.indices, List.length_cons, List.length_append] at hf ⊢
          omega

/-- live and free indexes partition the blob -/
theorem Good.count {s : Blob} {t : IT} (g : Good s t) : t.indices.length + s.free.length = s.blocks.length := by
  have hnd : (t.indices ++ s.free).Nodup := by
    rw [List.nodup_append]
    refine ⟨g.nodup, g.freeNodup, ?_⟩
    intro a ha b hb e
    subst e
    exact ((g.free a).mp hb).2 ha
  have hp : (t.indices ++ s.free) ~ List.range s.blocks.length := by
    rw [List.perm_ext_iff_of_nodup hnd List.nodup_range]
    intro a
    simp only [List.mem_append, List.mem_range]
    constructor
    · rintro (h | h)
      · exact g.rep.lt a h
      · exact ((g.free a).mp h).1
    · intro h
      by_cases hm : a ∈ t.indices
      · exact Or.inl hm
      · exact Or.inr ((g.free a).mpr ⟨h, hm⟩)
  have := hp.length_eq
  simpa using this

theorem checkJust_good {s : Blob} {t : IT} (g : Good s t) : checkJust s = .ok := by
  have hroot := g.root
  have h0 := (g.live_iff 0).mpr (by rw [← hroot]; exact t.idx_mem)
  have hne : s.blocks.isEmpty = false := by
    cases hb : s.blocks with
    | nil => rw [hb] at h0; simp at h0
    | cons _ _ => rfl
  have hlen : t.indices.length ≤ s.blocks.length := nodup_bound _ _ g.nodup g.rep.lt
  have hpf := pfAux_sim s.blocks (2 * s.blocks.length + 2) [t] [] [] (by intro c hc; simp at hc; subst hc; exact ⟨none, g.rep⟩)
    (by simpa using g.nodup) (by simp) (by simp [nodesOf]; omega)
  simp only [List.map_cons, List.map_nil, hroot, List.reverse_nil, List.nil_append] at hpf
  have hcount := g.count
  have hk := g.k2i.length_eq
  have hh := g.h2i.length_eq
  simp only [List.length_map] at hk hh
  have hil := t.indices_length
  -- the loop
  have hloop : integrityLoop s ((IT.bfsNodes (2 * s.blocks.length + 2) [t]).map (fun c => (c.idx, blockAt s.blocks c.idx))) 0 0 []
      = .ok (t.leaves.length, t.nInner, []) := by
    have hF : 2 * s.blocks.length + 2 = (2 * s.blocks.length + 1) + 1 := by omega
    rw [hF]
    generalize hFF : 2 * s.blocks.length + 1 = F
    have hrep := g.rep
    cases t with
    | leaf i k v h =>
      simp only [IT.idx] at hroot
      subst hroot
      simp only [Rep] at hrep
      have hb : blockAt s.blocks 0 = { dirty := false, node := .leaf h none k v } := by simp [blockAt, hrep]
      have hkk := g.mapGet_k2i (e := (0, k, v, h)) (by simp [IT.leaves])
      simp only at hkk
      cases F with
      | zero => omega
      | succ F' =>
        simp only [IT.bfsNodes, List.map_cons, List.map_nil, IT.idx_leaf, hb, integrityLoop, Node.parent, hkk,
          ne_eq, not_true_eq_false, if_false, h0.2]
        simp [IT.leaves, IT.nInner]
    | node i l r =>
      simp only [IT.idx] at hroot
      subst hroot
      simp only [Rep] at hrep
      obtain ⟨⟨d, hh', hblk⟩, hl, hr⟩ := hrep
      have hb : blockAt s.blocks 0 = { dirty := d, node := .internal hh' none l.idx r.idx } := by simp [blockAt, hblk]
      have hnd := g.nodup
      simp only [IT.indices, List.nodup_cons] at hnd
      have hlr : l.idx ≠ r.idx := by
        intro e
        exact (T.nodup_append' hnd.2).2.2 _ l.idx_mem (e ▸ r.idx_mem)
      have hsim := integrity_sim g F [(0, l), (0, r)] 0 1 [(r.idx, 0), (l.idx, 0)] ?_ ?_ ?_ ?_ ?_
      · simp only [IT.bfsNodes, List.map_cons, List.nil_append, IT.idx_node, hb, integrityLoop, Node.parent, c2pInsert]
        simp only [List.map_cons, List.map_nil] at hsim
        have hm : mapInsert (mapInsert [] l.idx 0) r.idx 0 = [(r.idx, 0), (l.idx, 0)] := by
          simp [mapInsert, hlr]
        rw [hm, hsim]
        simp [lvOf, inOf, IT.leaves, IT.nInner, Nat.add_assoc, Nat.add_comm, Nat.add_left_comm]
      · intro pc hpc
        simp only [List.mem_cons, List.not_mem_nil, or_false] at hpc
        rcases hpc with a | a
        · rw [a]; exact hl
        · rw [a]; exact hr
      · intro pc hpc e he
        simp only [List.mem_cons, List.not_mem_nil, or_false] at hpc
        simp only [IT.leaves, List.mem_append]
        rcases hpc with a | a
        · rw [a] at he; exact Or.inl he
        · rw [a] at he; exact Or.inr he
      · simpa using hnd.2
      · simp only [List.map_cons, List.map_nil]
        exact List.Perm.swap _ _ _
      · simp only [List.map_cons, List.map_nil, nodesOf, List.sum_cons, List.sum_nil]
        simp only [IT.indices, List.length_cons, List.length_append] at hlen
        omega
  unfold checkJust parentFirst
  rw [hne]
  simp only [Bool.false_eq_true, if_false, hpf, hloop]
  have c1 : ¬ (t.leaves.length ≠ s.k2i.length) := by omega
  have c2 : ¬ (t.leaves.length ≠ s.h2i.length) := by omega
  have c3 : ¬ (t.leaves.length + t.nInner + s.free.length ≠ s.blocks.length) := by omega
  simp [c1, c2, c3]

/-- **a state satisfying the structural invariant passes `check_integrity`** -/
theorem checkIntegrity_good {s : Blob} {t : Option IT} (hs : SInv s t) : checkIntegrity s = .ok := by
  cases t with
  | none =>
    simp only [SInv] at hs
    subst hs
    rfl
  | some t =>
    have g : Good s t := hs
    obtain ⟨S, hS, hSS⟩ := calcLazyHashes_good g
    unfold checkIntegrity
    rw [checkJust_good g, hS]
    exact checkJust_good (g.sameShape hSS)

end ChiaModel.Blob
