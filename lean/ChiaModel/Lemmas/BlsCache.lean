import ChiaModel.Model.BlsCache
/-
Invariants of the pairing cache and of the lock-granularity thread model (C15).
Core + omega/simp only.
-/
namespace ChiaModel.Bls

/-! ## ideal BLS -/

theorem FSum.nil_add (a : FSum) : FSum.add [] a = a := rfl

theorem FSum.one_smul (a : FSum) : FSum.smul 1 a = a := by
  unfold FSum.smul
  rw [if_neg (by decide)]
  induction a with
  | nil => rfl
  | cons t rest ih =>
    show (t.1, 1 * t.2) :: List.map (fun t : Bytes × Int => (t.1, 1 * t.2)) rest = t :: rest
    rw [ih, Int.one_mul]

theorem pairGen_eq (s : Sig) : pairGen s = s.terms := FSum.one_smul s.terms

theorem sign_terms (p : Pair) : p.sign.terms = p.pairing := rfl
theorem sign_off (p : Pair) : p.sign.off = false := rfl

/-- aggregating honest signatures: the formal sum of the pairings, never off the subgroup -/
theorem foldl_sign (l : List Pair) (s : Sig) :
    (l.map Pair.sign).foldl Sig.add s
      = { off := s.off, terms := (l.map Pair.pairing).foldl FSum.add s.terms } := by
  induction l generalizing s with
  | nil => rfl
  | cons p rest ih =>
    simp only [List.map_cons, List.foldl_cons]
    rw [ih]
    simp [Sig.add, sign_terms, sign_off]

theorem aggregate_sign (ps : List Pair) :
    aggregate (ps.map Pair.sign) = { off := false, terms := (ps.map Pair.pairing).foldl FSum.add [] } := by
  unfold aggregate
  rw [foldl_sign]
  rfl

theorem avLoop_noinf (ps : List Pair) (h : ∀ p ∈ ps, p.pk ≠ 0) (acc : GT) :
    avLoop acc ps = some ((ps.map Pair.pairing).foldl FSum.add acc) := by
  induction ps generalizing acc with
  | nil => rfl
  | cons p rest ih =>
    simp only [avLoop, List.map_cons, List.foldl_cons]
    rw [if_neg (h p (List.mem_cons_self ..))]
    exact ih (fun q hq => h q (List.mem_cons_of_mem _ hq)) _

theorem avLoop_inf (ps : List Pair) (h : ∃ p ∈ ps, p.pk = 0) (acc : GT) : avLoop acc ps = none := by
  induction ps generalizing acc with
  | nil => obtain ⟨p, hp, _⟩ := h; cases hp
  | cons q rest ih =>
    simp only [avLoop]
    by_cases hq : q.pk = 0
    · rw [if_pos hq]
    · rw [if_neg hq]
      obtain ⟨p, hp, h0⟩ := h
      rcases List.mem_cons.mp hp with rfl | hp
      · exact absurd h0 hq
      · exact ih ⟨p, hp, h0⟩ _

theorem any_isInf {ps : List Pair} : ps.any Pair.isInf = true ↔ ∃ p ∈ ps, p.pk = 0 := by
  simp [Pair.isInf]

theorem any_isInf_false {ps : List Pair} : ps.any Pair.isInf = false ↔ ∀ p ∈ ps, p.pk ≠ 0 := by
  simp [Pair.isInf]

/-! ## the cache -/

/-- the capacity bound, with the non-zero capacity `NonZeroUsize` guarantees -/
def CapOk (c : Cache) : Prop := 0 < c.cap ∧ c.items.length ≤ c.cap

theorem new_ok {n : Nat} {c : Cache} (h : Cache.new n = some c) : c.cap = n ∧ c.items = [] ∧ CapOk c := by
  unfold Cache.new at h
  split at h
  · cases h
  · injection h with h; subst h
    exact ⟨rfl, rfl, by simp [CapOk]; omega⟩

theorem lhmInsert_length_le (items : List (Bytes × GT)) (k : Bytes) (v : GT) :
    (lhmInsert items k v).length ≤ items.length + 1 := by
  simp only [lhmInsert, List.length_append, List.length_cons, List.length_nil]
  have := List.length_filter_le (fun e : Bytes × GT => !decide (e.1 = k)) items
  omega

@[simp] theorem put_cap (c : Cache) (k : Bytes) (v : GT) : (c.put k v).cap = c.cap := rfl
@[simp] theorem remove_cap (c : Cache) (k : Bytes) : (c.remove k).cap = c.cap := rfl

theorem put_capOk {c : Cache} (k : Bytes) (v : GT) (h : CapOk c) : CapOk (c.put k v) := by
  obtain ⟨h0, h1⟩ := h
  refine ⟨h0, ?_⟩
  show (lhmInsert (if c.items.length = c.cap then c.items.drop 1 else c.items) k v).length ≤ c.cap
  split
  · rename_i hf
    have := lhmInsert_length_le (c.items.drop 1) k v
    rw [List.length_drop] at this
    omega
  · have := lhmInsert_length_le c.items k v
    omega

theorem remove_capOk {c : Cache} (k : Bytes) (h : CapOk c) : CapOk (c.remove k) := by
  obtain ⟨h0, h1⟩ := h
  refine ⟨h0, ?_⟩
  show (c.items.filter _).length ≤ c.cap
  have := List.length_filter_le (fun e : Bytes × GT => !decide (e.1 = k)) c.items
  omega

theorem evict_capOk {c : Cache} (ps : List Pair) (h : CapOk c) : CapOk (c.evict ps) := by
  unfold Cache.evict
  induction ps generalizing c with
  | nil => exact h
  | cons p rest ih => exact ih (remove_capOk _ h)

/-- keys of the association list are pairwise distinct, as in a hash map -/
def KeysNodup (c : Cache) : Prop := (c.items.map (·.1)).Nodup

theorem put_keysNodup {c : Cache} (k : Bytes) (v : GT) (h : KeysNodup c) : KeysNodup (c.put k v) := by
  unfold KeysNodup at *
  show ((lhmInsert (if c.items.length = c.cap then c.items.drop 1 else c.items) k v).map (·.1)).Nodup
  have hd : ∀ l : List (Bytes × GT), (l.map (·.1)).Nodup → ((lhmInsert l k v).map (·.1)).Nodup := by
    intro l hl
    simp only [lhmInsert, List.map_append, List.map_cons, List.map_nil]
    rw [List.nodup_append]
    refine ⟨?_, by simp, ?_⟩
    · exact (List.filter_sublist.map _).nodup hl
    · intro a ha b hb
      simp only [List.mem_singleton] at hb
      subst hb
      simp only [List.mem_map, List.mem_filter] at ha
      obtain ⟨e, ⟨_, he⟩, rfl⟩ := ha
      simpa using he
  apply hd
  split
  · exact ((List.drop_sublist 1 c.items).map _).nodup h
  · exact h

theorem remove_keysNodup {c : Cache} (k : Bytes) (h : KeysNodup c) : KeysNodup (c.remove k) := by
  unfold KeysNodup at *
  exact (List.filter_sublist.map _).nodup h

theorem evict_keysNodup {c : Cache} (ps : List Pair) (h : KeysNodup c) : KeysNodup (c.evict ps) := by
  unfold Cache.evict
  induction ps generalizing c with
  | nil => exact h
  | cons p rest ih => exact ih (remove_keysNodup _ h)

/-! ## soundness of the contents -/

/-- no two of the finitely many pairs in use collide on the cache key with different pairings
(covers SHA-256 collisions on `pk ‖ msg`; this is a hypothesis, never assumed silently) -/
def CollisionFree (U : List Pair) : Prop :=
  ∀ p ∈ U, ∀ q ∈ U, p.key = q.key → p.pairing = q.pairing

instance (U : List Pair) : Decidable (CollisionFree U) := by unfold CollisionFree; infer_instance

/-- every entry maps `sha256(pk ‖ m)` to `e(pk, H(pk ‖ m))` for one of the pairs in use -/
def CacheSound (U : List Pair) (c : Cache) : Prop :=
  ∀ e ∈ c.items, ∃ p ∈ U, p.key = e.1 ∧ e.2 = p.pairing

theorem sound_empty (U : List Pair) (cap : Nat) : CacheSound U { cap := cap } := by
  intro e he; cases he

theorem put_sound {U : List Pair} {c : Cache} {k : Bytes} {v : GT}
    (hs : CacheSound U c) (hkv : ∃ p ∈ U, p.key = k ∧ v = p.pairing) : CacheSound U (c.put k v) := by
  intro e he
  have he : e ∈ lhmInsert (if c.items.length = c.cap then c.items.drop 1 else c.items) k v := he
  simp only [lhmInsert, List.mem_append, List.mem_filter, List.mem_singleton] at he
  rcases he with ⟨he, _⟩ | rfl
  · apply hs
    split at he
    · exact List.mem_of_mem_drop he
    · exact he
  · exact hkv

theorem remove_sound {U : List Pair} {c : Cache} (k : Bytes) (hs : CacheSound U c) :
    CacheSound U (c.remove k) := by
  intro e he
  exact hs e (List.mem_filter.mp he).1

theorem evict_sound {U : List Pair} {c : Cache} (ps : List Pair) (hs : CacheSound U c) :
    CacheSound U (c.evict ps) := by
  unfold Cache.evict
  induction ps generalizing c with
  | nil => exact hs
  | cons p rest ih => exact ih (remove_sound _ hs)

theorem get_sound {U : List Pair} {c : Cache} {k : Bytes} {v : GT}
    (hs : CacheSound U c) (h : c.get k = some v) : ∃ p ∈ U, p.key = k ∧ v = p.pairing := by
  unfold Cache.get at h
  cases hf : c.items.find? (fun e => decide (e.1 = k)) with
  | none => rw [hf] at h; cases h
  | some e =>
    rw [hf] at h
    injection h with h
    obtain ⟨p, hp, hk, hv⟩ := hs e (List.mem_of_find?_eq_some hf)
    have hk' : e.1 = k := by simpa using List.find?_some hf
    exact ⟨p, hp, hk.trans hk', by rw [← h]; exact hv⟩

/-! ## threads -/

/-- `update` is handed the true pairing of the bytes it is told to hash -/
def Truthful (U : List Pair) (es : List (Bytes × GT)) : Prop :=
  ∀ e ∈ es, ∃ p ∈ U, p.aug = e.1 ∧ e.2 = p.pairing

/-- the calls use pairs of the universe only, and updates are truthful -/
def OpOk (U : List Pair) : Op → Prop
  | .av ps _ => ∀ p ∈ ps, p ∈ U
  | .upd es => Truthful U es
  | .evict _ => True
  | .len => True

def Op.isAv : Op → Bool
  | .av _ _ => true
  | _ => false

/-- what a thread's local state promises about the call it is executing (`inv` is the local flag
`invalid_key`: together with the pairs still to be looked at it accounts for every infinity key of
the list) -/
def ThreadOk (U : List Pair) (t : Thread) : Prop :=
  match t.st with
  | .av sig todo pending got inv =>
    (∀ p ∈ todo, p ∈ U) ∧ (∀ e, pending = some e → ∃ p ∈ U, p.key = e.1 ∧ e.2 = p.pairing) ∧
    ∃ ps, t.op = .av ps sig ∧ sig.isValid = true ∧ got ++ todo.map Pair.pairing = ps.map Pair.pairing
      ∧ (inv || todo.any Pair.isInf) = ps.any Pair.isInf
  | .upd todo => Truthful U todo ∧ t.op.isAv = false
  | .evict _ => t.op.isAv = false
  | .len => t.op.isAv = false
  | .done o => ∀ ps sig, t.op = .av ps sig →
      o = .verdict (aggregateVerifyGt sig (ps.map Pair.pairing) && !(ps.any Pair.isInf))

theorem aggregateVerifyGt_invalid {sig : Sig} (h : sig.isValid = false) (gts : List GT) :
    aggregateVerifyGt sig gts = false := by
  simp [aggregateVerifyGt, h]

theorem avNext_ok {U : List Pair} {t : Thread} {sig : Sig} {todo : List Pair}
    {pending : Option (Bytes × GT)} {got : List GT} {inv : Bool}
    (h1 : ∀ p ∈ todo, p ∈ U)
    (h2 : ∀ e, pending = some e → ∃ p ∈ U, p.key = e.1 ∧ e.2 = p.pairing)
    (h3 : ∃ ps, t.op = .av ps sig ∧ sig.isValid = true ∧ got ++ todo.map Pair.pairing = ps.map Pair.pairing
      ∧ (inv || todo.any Pair.isInf) = ps.any Pair.isInf) :
    ThreadOk U { t with st := avNext sig todo pending got inv } := by
  unfold avNext
  split
  · -- finished
    obtain ⟨ps, hop, _, hg, hi⟩ := h3
    simp only [ThreadOk]
    intro ps' sig' hop'
    rw [hop] at hop'
    injection hop' with e1 e2
    subst e1; subst e2
    simp only [List.map_nil, List.append_nil] at hg
    simp only [List.any_nil, Bool.or_false] at hi
    rw [hg, hi]
  · simp only [ThreadOk]
    exact ⟨h1, h2, h3⟩

theorem start_ok {U : List Pair} {op : Op} (h : OpOk U op) : ThreadOk U (Thread.start op) := by
  cases op with
  | av ps sig =>
    simp only [Thread.start]
    cases hv : sig.isValid with
    | false =>
      simp only [Bool.not_false, if_true, ThreadOk]
      intro ps' sig' hop
      injection hop with e1 e2
      subst e1; subst e2
      rw [aggregateVerifyGt_invalid hv, Bool.false_and]
    | true =>
      simp only [Bool.not_true, Bool.false_eq_true, if_false]
      exact avNext_ok (t := { op := .av ps sig, st := .len }) h (by intro e he; cases he)
        ⟨ps, rfl, hv, by simp, by simp⟩
  | upd es =>
    cases es with
    | nil => simp [Thread.start, ThreadOk]
    | cons e rest => exact ⟨h, rfl⟩
  | evict ps => simp [Thread.start, ThreadOk, Op.isAv]
  | len => simp [Thread.start, ThreadOk, Op.isAv]

@[simp] theorem step_op (c : Cache) (t : Thread) : (step c t).2.op = t.op := by
  unfold step
  split <;> try rfl
  split <;> rfl

theorem notAv_done {U : List Pair} {t : Thread} (h : t.op.isAv = false) (o : Out) :
    ThreadOk U { t with st := .done o } := by
  simp only [ThreadOk]
  intro ps sig hop
  rw [hop] at h
  cases h

/-- one atomic step preserves the soundness of the cache and the promise of the thread -/
theorem step_ok {U : List Pair} (hcf : CollisionFree U) {c : Cache} {t : Thread}
    (hs : CacheSound U c) (ht : ThreadOk U t) :
    CacheSound U (step c t).1 ∧ ThreadOk U (step c t).2 := by
  unfold step
  split
  · -- put
    rename_i sig todo k v got inv hst
    simp only [ThreadOk, hst] at ht
    obtain ⟨h1, h2, h3⟩ := ht
    exact ⟨put_sound hs (h2 _ rfl), avNext_ok h1 (by intro e he; cases he) h3⟩
  · -- lookup
    rename_i sig p rest got inv hst
    simp only [ThreadOk, hst] at ht
    obtain ⟨h1, _, ps, hop, hv, hg, hi⟩ := ht
    have hp : p ∈ U := h1 p (List.mem_cons_self ..)
    have hrest : ∀ q ∈ rest, q ∈ U := fun q hq => h1 q (List.mem_cons_of_mem _ hq)
    have hi' : ((inv || p.isInf) || rest.any Pair.isInf) = ps.any Pair.isInf := by
      rw [← hi, List.any_cons, Bool.or_assoc]
    split
    · rename_i v hget
      obtain ⟨q, hq, hk, hvq⟩ := get_sound hs hget
      have : v = p.pairing := by rw [hvq]; exact hcf q hq p hp hk
      subst this
      refine ⟨hs, avNext_ok hrest (by intro e he; cases he) ⟨ps, hop, hv, ?_, hi'⟩⟩
      rw [← hg]; simp
    · refine ⟨hs, avNext_ok hrest ?_ ⟨ps, hop, hv, ?_, hi'⟩⟩
      · intro e he
        injection he with he
        subst he
        exact ⟨p, hp, rfl, rfl⟩
      · rw [← hg]; simp
  · rename_i sig got inv hst
    simp only [ThreadOk, hst] at ht
    obtain ⟨h1, h2, h3⟩ := ht
    exact ⟨hs, avNext_ok h1 h2 h3⟩
  · rename_i hst
    simp only [ThreadOk, hst] at ht
    exact ⟨hs, notAv_done ht.2 _⟩
  · rename_i aug gt rest hst
    simp only [ThreadOk, hst] at ht
    obtain ⟨htr, hna⟩ := ht
    obtain ⟨p, hp, ha, hg⟩ := htr (aug, gt) (List.mem_cons_self ..)
    refine ⟨put_sound hs ⟨p, hp, by simp only [Pair.key, ha], hg⟩, ?_⟩
    split
    · exact notAv_done hna _
    · simp only [ThreadOk]
      exact ⟨fun e he => htr e (List.mem_cons_of_mem _ he), hna⟩
  · rename_i ps hst
    simp only [ThreadOk, hst] at ht
    exact ⟨evict_sound ps hs, notAv_done ht _⟩
  · rename_i hst
    simp only [ThreadOk, hst] at ht
    exact ⟨hs, notAv_done ht _⟩
  · exact ⟨hs, ht⟩

theorem step_capOk {c : Cache} (t : Thread) (h : CapOk c) : CapOk (step c t).1 := by
  unfold step
  split <;> try exact h
  · exact put_capOk _ _ h
  · split <;> exact h
  · exact put_capOk _ _ h
  · exact evict_capOk _ h

theorem step_keysNodup {c : Cache} (t : Thread) (h : KeysNodup c) : KeysNodup (step c t).1 := by
  unfold step
  split <;> try exact h
  · exact put_keysNodup _ _ h
  · split <;> exact h
  · exact put_keysNodup _ _ h
  · exact evict_keysNodup _ h

@[simp] theorem evict_cap (c : Cache) (ps : List Pair) : (c.evict ps).cap = c.cap := by
  unfold Cache.evict
  induction ps generalizing c with
  | nil => rfl
  | cons p rest ih => exact (ih (c.remove p.key)).trans rfl

@[simp] theorem step_cap (c : Cache) (t : Thread) : (step c t).1.cap = c.cap := by
  unfold step
  split <;> try rfl
  · split <;> rfl
  · exact evict_cap _ _

/-! ## the `invalid_key` flag alone: no hypothesis on the cache -/

/-- what a thread's local state promises about the infinity keys of its call, whatever the cache
holds (no soundness, no collision-freeness, no capacity bound): the flag together with the pairs
still to be looked at accounts for every infinity key of the list, and a verification that has
returned on a list with an infinity key has returned `false` -/
def FlagOk (t : Thread) : Prop :=
  match t.st with
  | .av sig todo _ _ inv => ∃ ps, t.op = .av ps sig ∧ (inv || todo.any Pair.isInf) = ps.any Pair.isInf
  | .upd _ => t.op.isAv = false
  | .evict _ => t.op.isAv = false
  | .len => t.op.isAv = false
  | .done o => ∀ ps sig, t.op = .av ps sig → ps.any Pair.isInf = true → o = .verdict false

theorem avNext_flagOk {t : Thread} {sig : Sig} {todo : List Pair}
    {pending : Option (Bytes × GT)} {got : List GT} {inv : Bool}
    (h : ∃ ps, t.op = .av ps sig ∧ (inv || todo.any Pair.isInf) = ps.any Pair.isInf) :
    FlagOk { t with st := avNext sig todo pending got inv } := by
  unfold avNext
  split
  · obtain ⟨ps, hop, hi⟩ := h
    simp only [FlagOk]
    intro ps' sig' hop' hinf
    rw [hop] at hop'
    injection hop' with e1 e2
    subst e1; subst e2
    simp only [List.any_nil, Bool.or_false] at hi
    rw [hi, hinf, Bool.not_true, Bool.and_false]
  · simp only [FlagOk]
    exact h

theorem start_flagOk (op : Op) : FlagOk (Thread.start op) := by
  cases op with
  | av ps sig =>
    simp only [Thread.start]
    cases hv : sig.isValid with
    | false =>
      simp only [Bool.not_false, if_true, FlagOk]
      intro ps' sig' _ _
      trivial
    | true =>
      simp only [Bool.not_true, Bool.false_eq_true, if_false]
      exact avNext_flagOk (t := { op := .av ps sig, st := .len }) ⟨ps, rfl, by simp⟩
  | upd es =>
    cases es with
    | nil => simp [Thread.start, FlagOk]
    | cons e rest => exact (rfl : (Op.upd (e :: rest)).isAv = false)
  | evict ps => simp [Thread.start, FlagOk, Op.isAv]
  | len => simp [Thread.start, FlagOk, Op.isAv]

theorem notAv_flagDone {t : Thread} (h : t.op.isAv = false) (o : Out) :
    FlagOk { t with st := .done o } := by
  simp only [FlagOk]
  intro ps sig hop
  rw [hop] at h
  cases h

/-- one atomic step preserves the promise about the flag, on ANY cache -/
theorem step_flagOk (c : Cache) {t : Thread} (ht : FlagOk t) : FlagOk (step c t).2 := by
  unfold step
  split
  · rename_i sig todo k v got inv hst
    simp only [FlagOk, hst] at ht
    exact avNext_flagOk ht
  · rename_i sig p rest got inv hst
    simp only [FlagOk, hst] at ht
    obtain ⟨ps, hop, hi⟩ := ht
    have hi' : ((inv || p.isInf) || rest.any Pair.isInf) = ps.any Pair.isInf := by
      rw [← hi, List.any_cons, Bool.or_assoc]
    split
    · exact avNext_flagOk ⟨ps, hop, hi'⟩
    · exact avNext_flagOk ⟨ps, hop, hi'⟩
  · rename_i sig got inv hst
    simp only [FlagOk, hst] at ht
    exact avNext_flagOk ht
  · rename_i hst
    simp only [FlagOk, hst] at ht
    exact notAv_flagDone ht _
  · rename_i aug gt rest hst
    simp only [FlagOk, hst] at ht
    split
    · exact notAv_flagDone ht _
    · simp only [FlagOk]
      exact ht
  · rename_i ps hst
    simp only [FlagOk, hst] at ht
    exact notAv_flagDone ht _
  · rename_i hst
    simp only [FlagOk, hst] at ht
    exact notAv_flagDone ht _
  · exact ht

/-! ## worlds and schedules -/

/-- an invariant of the cache that every atomic step of any thread preserves holds after every schedule -/
theorem runSchedule_cache_inv (P : Cache → Prop) (hP : ∀ c t, P c → P (step c t).1)
    (w : World) (sched : List Nat) (h : P w.cache) : P (runSchedule w sched).cache := by
  unfold runSchedule
  induction sched generalizing w with
  | nil => exact h
  | cons i rest ih =>
    apply ih
    unfold World.stepThread
    split
    · exact h
    · exact hP _ _ h

def WorldOk (U : List Pair) (w : World) : Prop :=
  CacheSound U w.cache ∧ ∀ t ∈ w.threads, ThreadOk U t

theorem stepThread_ok {U : List Pair} (hcf : CollisionFree U) {w : World} (i : Nat)
    (h : WorldOk U w) : WorldOk U (w.stepThread i) := by
  unfold World.stepThread
  split
  · exact h
  · rename_i t hget
    have ht : ThreadOk U t := h.2 t (List.mem_of_getElem? hget)
    obtain ⟨h1, h2⟩ := step_ok hcf h.1 ht
    refine ⟨h1, ?_⟩
    intro t' ht'
    rcases List.mem_or_eq_of_mem_set ht' with h' | rfl
    · exact h.2 t' h'
    · exact h2

theorem runSchedule_ok {U : List Pair} (hcf : CollisionFree U) (w : World) (sched : List Nat)
    (h : WorldOk U w) : WorldOk U (runSchedule w sched) := by
  unfold runSchedule
  induction sched generalizing w with
  | nil => exact h
  | cons i rest ih => exact ih _ (stepThread_ok hcf i h)

theorem stepThread_flagOk {w : World} (i : Nat) (h : ∀ t ∈ w.threads, FlagOk t) :
    ∀ t ∈ (w.stepThread i).threads, FlagOk t := by
  unfold World.stepThread
  split
  · exact h
  · rename_i t hget
    have ht : FlagOk t := h t (List.mem_of_getElem? hget)
    intro t' ht'
    rcases List.mem_or_eq_of_mem_set ht' with h' | rfl
    · exact h t' h'
    · exact step_flagOk _ ht

/-- the promise about the flag survives every schedule, on any cache -/
theorem runSchedule_flagOk (w : World) (sched : List Nat) (h : ∀ t ∈ w.threads, FlagOk t) :
    ∀ t ∈ (runSchedule w sched).threads, FlagOk t := by
  unfold runSchedule
  induction sched generalizing w with
  | nil => exact h
  | cons i rest ih => exact ih _ (stepThread_flagOk i h)

theorem runSchedule_append (w : World) (s1 s2 : List Nat) :
    runSchedule w (s1 ++ s2) = runSchedule (runSchedule w s1) s2 := by
  simp [runSchedule, List.foldl_append]

theorem runAll_eq (w : World) (sched : List Nat) :
    runAll w sched = runSchedule w (sched ++ finishSchedule (runSchedule w sched)) := by
  rw [runSchedule_append]; rfl

/-- the calls keep their identity and position -/
theorem stepThread_ops (w : World) (i : Nat) :
    (w.stepThread i).threads.map (·.op) = w.threads.map (·.op) := by
  unfold World.stepThread
  split
  · rfl
  · rename_i t hget
    simp only
    rw [List.map_set, step_op]
    have hi := (List.getElem?_eq_some_iff.mp hget)
    obtain ⟨hlt, hget'⟩ := hi
    apply List.ext_getElem?
    intro j
    by_cases hj : i = j
    · subst hj
      simp [hlt, hget']
    · simp [hj]

theorem runSchedule_ops (w : World) (sched : List Nat) :
    (runSchedule w sched).threads.map (·.op) = w.threads.map (·.op) := by
  unfold runSchedule
  induction sched generalizing w with
  | nil => rfl
  | cons i rest ih => exact (ih _).trans (stepThread_ops w i)

/-! ## progress: after `runAll` every call has returned -/

def stepsAt (w : World) (i : Nat) : Nat :=
  match w.threads[i]? with
  | some t => stepsLeft t
  | none => 0

theorem stepsLeft_avNext (sig : Sig) (todo : List Pair) (pending : Option (Bytes × GT)) (got : List GT)
    (inv : Bool) (t : Thread) :
    stepsLeft { t with st := avNext sig todo pending got inv }
      ≤ 2 * todo.length + (if pending.isSome then 1 else 0) + 1 := by
  unfold avNext
  split <;> simp [stepsLeft]

theorem stepsLeft_step (c : Cache) (t : Thread) : stepsLeft (step c t).2 ≤ stepsLeft t - 1 := by
  unfold step
  split
  · rename_i sig todo k v got inv hst
    have := stepsLeft_avNext sig todo none got inv t
    simp [stepsLeft, hst] at this ⊢
    unfold avNext at this ⊢
    split <;> simp_all [stepsLeft] <;> omega
  · rename_i sig p rest got inv hst
    split
    · rename_i v _
      have := stepsLeft_avNext sig rest none (got ++ [v]) (inv || p.isInf) t
      simp [stepsLeft, hst] at this ⊢
      omega
    · have := stepsLeft_avNext sig rest (some (p.key, p.pairing)) (got ++ [p.pairing]) (inv || p.isInf) t
      simp [stepsLeft, hst] at this ⊢
      omega
  · rename_i sig got inv hst
    simp [stepsLeft, hst, avNext]
  · simp [stepsLeft]
  · rename_i aug gt rest hst
    split <;> simp_all [stepsLeft]
  · simp [stepsLeft]
  · simp [stepsLeft]
  · rename_i o hst
    simp [stepsLeft, hst]

theorem stepsAt_stepThread_self (w : World) (i : Nat) : stepsAt (w.stepThread i) i ≤ stepsAt w i - 1 := by
  unfold World.stepThread stepsAt
  cases hget : w.threads[i]? with
  | none => simp [hget]
  | some t =>
    have hlt := (List.getElem?_eq_some_iff.mp hget).1
    simp [hlt]
    exact stepsLeft_step _ _

theorem stepsAt_stepThread_other (w : World) (i j : Nat) (h : i ≠ j) :
    stepsAt (w.stepThread i) j = stepsAt w j := by
  unfold World.stepThread stepsAt
  cases hget : w.threads[i]? with
  | none => simp
  | some t => simp [h]

theorem stepsAt_runSchedule (w : World) (sched : List Nat) (j : Nat) :
    stepsAt (runSchedule w sched) j ≤ stepsAt w j - sched.count j := by
  unfold runSchedule
  induction sched generalizing w with
  | nil => simp
  | cons i rest ih =>
    simp only [List.foldl_cons]
    have := ih (w.stepThread i)
    by_cases h : i = j
    · subst h
      have h2 := stepsAt_stepThread_self w i
      simp only [List.count_cons_self]
      omega
    · rw [stepsAt_stepThread_other w i j h] at this
      rw [List.count_cons_of_ne h]
      exact this

theorem count_finishFrom (ts : List Thread) (i0 j : Nat) (t : Thread) (h : ts[j]? = some t) :
    stepsLeft t ≤ (finishFrom ts i0).count (i0 + j) := by
  induction ts generalizing i0 j with
  | nil => cases h
  | cons t0 rest ih =>
    simp only [finishFrom, List.count_append]
    cases j with
    | zero =>
      simp only [List.getElem?_cons_zero, Option.some.injEq] at h
      subst h
      simp [List.count_replicate_self]
    | succ j =>
      simp only [List.getElem?_cons_succ] at h
      have := ih (i0 + 1) j h
      have e : i0 + 1 + j = i0 + (j + 1) := by omega
      rw [e] at this
      omega

theorem stepsLeft_zero_iff (t : Thread) : stepsLeft t = 0 ↔ ∃ o, t.st = .done o := by
  unfold stepsLeft
  split <;> simp_all

/-- after `runAll` every thread has finished -/
theorem runAll_done (w : World) (sched : List Nat) :
    ∀ t ∈ (runAll w sched).threads, ∃ o, t.st = .done o := by
  intro t ht
  obtain ⟨j, hj, rfl⟩ := List.getElem_of_mem ht
  have hget : (runAll w sched).threads[j]? = some (runAll w sched).threads[j] := List.getElem?_eq_getElem hj
  rw [← stepsLeft_zero_iff]
  have h1 : stepsAt (runAll w sched) j = stepsLeft (runAll w sched).threads[j] := by
    simp [stepsAt, hget]
  rw [← h1]
  unfold runAll
  simp only
  have h2 := stepsAt_runSchedule (runSchedule w sched) (finishSchedule (runSchedule w sched)) j
  -- thread j exists in the intermediate world as well (the list of calls never changes)
  have hlen : (runAll w sched).threads.length = (runSchedule w sched).threads.length := by
    have := congrArg List.length (runSchedule_ops (runSchedule w sched) (finishSchedule (runSchedule w sched)))
    simpa [runAll] using this
  have hj' : j < (runSchedule w sched).threads.length := by omega
  have h3 : stepsLeft (runSchedule w sched).threads[j] ≤ (finishSchedule (runSchedule w sched)).count j := by
    have := count_finishFrom (runSchedule w sched).threads 0 j _ (List.getElem?_eq_getElem hj')
    simpa [finishSchedule] using this
  have h4 : stepsAt (runSchedule w sched) j = stepsLeft (runSchedule w sched).threads[j] := by
    simp [stepsAt, List.getElem?_eq_getElem hj']
  omega

end ChiaModel.Bls
