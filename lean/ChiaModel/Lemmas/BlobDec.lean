import ChiaModel.Lemmas.BlobLcf
/-
C18: the executable structural invariant `structOk` decides `∃ t, SInv s t`.
-/
namespace ChiaModel.Blob
open List

theorem repB_iff (bl : List Block) (t : IT) : ∀ (p : Option Nat), repB bl p t = true ↔ Rep bl p t := by
  induction t with
  | leaf i k v h => intro p; simp [repB, Rep]
  | node i l r ihl ihr =>
    intro p
    simp only [repB, Rep, Bool.and_eq_true, ihl, ihr]
    rw [and_assoc]
    refine and_congr ?_ Iff.rfl
    cases hb : bl[i]? with
    | none => simp
    | some b =>
      obtain ⟨d, n⟩ := b
      cases n with
      | leaf _ _ _ _ => simp
      | internal hh p' l' r' =>
        simp only [Bool.and_eq_true, decide_eq_true_eq, Option.some.injEq, Block.mk.injEq, Node.internal.injEq]
        constructor
        · rintro ⟨⟨a, b⟩, c⟩; exact ⟨d, hh, rfl, rfl, a, b, c⟩
        · rintro ⟨d', hh', _, _, a, b, c⟩; exact ⟨⟨a, b⟩, c⟩

theorem rangeB_iff (s : Blob) : rangeB s = true ↔ RangeP s := by
  unfold rangeB RangeP
  rw [List.all_eq_true]
  constructor
  · intro h j b hb p hp
    have := h b (List.mem_of_getElem? hb)
    rw [hp] at this
    simpa using this
  · intro h b hb
    obtain ⟨j, hj⟩ := List.mem_iff_getElem?.mp hb
    cases hp : b.node.parent with
    | none => rfl
    | some p => simpa using h j b hj p hp

theorem goodB_iff (s : Blob) (t : IT) : goodB s t = true ↔ Good s t := by
  unfold goodB
  simp only [Bool.and_eq_true, decide_eq_true_eq, repB_iff, rangeB_iff, List.all_eq_true, Bool.not_eq_true',
    List.contains_eq_mem, decide_eq_false_iff_not, Bool.or_eq_true, List.mem_range]
  constructor
  · rintro ⟨⟨⟨⟨⟨⟨⟨⟨⟨⟨h1, h2⟩, h3⟩, h4⟩, h5⟩, h6⟩, h7⟩, h8⟩, h9⟩, h10⟩, h11⟩
    refine ⟨h1, h2, h3, h4, ?_, h7, h8, h9, h10, h11⟩
    intro i
    constructor
    · intro hi; exact h5 i hi
    · rintro ⟨hl, hn⟩
      rcases h6 i hl with a | a
      · exact absurd a hn
      · exact a
  · intro g
    refine ⟨⟨⟨⟨⟨⟨⟨⟨⟨⟨g.rep, g.root⟩, g.nodup⟩, g.freeNodup⟩, ?_⟩, ?_⟩, g.k2i⟩, g.h2i⟩, g.keys⟩, g.hashes⟩, g.range⟩
    · intro i hi; exact (g.free i).mp hi
    · intro i hi
      by_cases hm : i ∈ t.indices
      · exact Or.inl hm
      · exact Or.inr ((g.free i).mpr ⟨hi, hm⟩)

theorem Rep.itOf {bl : List Block} {p : Option Nat} {t : IT} (h : Rep bl p t) (f : Nat) (hf : t.depth < f) :
    itOfAux bl f t.idx = some t := by
  induction t generalizing p f with
  | leaf i k v hh =>
    cases f with
    | zero => omega
    | succ f =>
      simp only [Rep] at h
      show itOfAux bl (f + 1) i = _
      simp only [itOfAux, h]
  | node i l r ihl ihr =>
    cases f with
    | zero => omega
    | succ f =>
      simp only [Rep] at h
      obtain ⟨⟨d, hh, hb⟩, hl, hr⟩ := h
      simp only [IT.depth] at hf
      show itOfAux bl (f + 1) i = _
      simp only [itOfAux, hb, ihl hl f (by omega), ihr hr f (by omega)]

/-- **`structOk` decides the structural invariant** -/
theorem structOk_iff (s : Blob) : structOk s = true ↔ ∃ t, SInv s t := by
  unfold structOk
  constructor
  · intro h
    by_cases he : s.blocks.isEmpty = true
    · rw [if_pos he] at h
      exact ⟨none, by simpa [SInv] using h⟩
    · rw [if_neg he] at h
      cases hi : itOf s with
      | none => rw [hi] at h; cases h
      | some t =>
        rw [hi] at h
        exact ⟨some t, (goodB_iff s t).mp h⟩
  · rintro ⟨t, ht⟩
    cases t with
    | none =>
      simp only [SInv] at ht
      subst ht
      rfl
    | some t =>
      have g : Good s t := ht
      have h0 := g.rep.lt 0 (g.root ▸ t.idx_mem)
      have hne : s.blocks.isEmpty = false := by
        cases hb : s.blocks with
        | nil => rw [hb] at h0; simp at h0
        | cons _ _ => rfl
      rw [hne]
      simp only [Bool.false_eq_true, if_false]
      have hlen : t.indices.length ≤ s.blocks.length := nodup_bound _ _ g.nodup g.rep.lt
      have hd := t.depth_lt_indices
      have := g.rep.itOf (s.blocks.length + 1) (by omega)
      rw [g.root] at this
      unfold itOf
      rw [this]
      exact (goodB_iff s t).mpr g

end ChiaModel.Blob
