import ChiaModel.Model.TreeHash
import ChiaModel.Model.Ints
/-
C17: the regenerated small-atom table against the definition (kernel evaluation of 24 SHA-256 digests).
Kept in its own file so that it is re-checked exactly when `Gen/Precomputed.lean` changes.
-/
namespace ChiaModel.TreeHash
open ChiaModel

theorem precomputed_eq : Gen.precomputed = (List.range 24).map (fun i => sha256 (1 :: canonNat i)) := by
  decide +kernel

theorem prefixes_eq : Gen.thAtomPrefix = 1 ∧ Gen.thPairPrefix = 2 := by decide

theorem small_canon : ∀ v, v < 24 → smallBytes v = canonNat v := by decide

end ChiaModel.TreeHash
