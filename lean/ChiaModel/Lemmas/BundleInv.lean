import ChiaModel.Lemmas.CondInv
import ChiaModel.Props.C11
/-
The bundle invariant of the `parse_spends` model: totals are sums, coin ids are the prescribed
hash and pairwise distinct, outputs of one spend are pairwise distinct, condition cost adds up.
-/
namespace ChiaModel.Cond
open ChiaModel

def ccSum (sp : Spend) : Nat := (sp.createCoin.map (·.amount)).sum
def ccKeys (sp : Spend) : List (Bytes × Nat) := sp.createCoin.map (fun c => (c.ph, c.amount))

/-- the coin id is SHA-256 of parent id, puzzle hash and the minimal big-endian amount -/
def CoinIdOk (sp : Spend) : Prop :=
  sp.coinId = sha256 (sp.parentId ++ sp.puzzleHash ++ canonNat sp.coinAmount) ∧ sp.coinAmount < 2^64
    ∧ sp.parentId.length = 32 ∧ sp.puzzleHash.length = 32

structure BInv (ret : Bundle) (st : PState) : Prop where
  removal : ret.removalAmount = (ret.spends.map (·.coinAmount)).sum
  addition : ret.additionAmount = (ret.spends.map ccSum).sum
  spent : st.spentCoins = ret.spends.map (·.coinId)
  nodup : st.spentCoins.Nodup
  outputs : ∀ sp ∈ ret.spends, (ccKeys sp).Nodup
  ccost : ret.conditionCost = (ret.spends.map (·.conditionCost)).sum
  ids : ∀ sp ∈ ret.spends, CoinIdOk sp

structure SInv (s : CSt) : Prop where
  removal : s.ret.removalAmount = (s.ret.spends.map (·.coinAmount)).sum + s.spend.coinAmount
  addition : s.ret.additionAmount = (s.ret.spends.map ccSum).sum + ccSum s.spend
  spent : s.st.spentCoins = s.ret.spends.map (·.coinId) ++ [s.spend.coinId]
  nodup : s.st.spentCoins.Nodup
  outputs : (∀ sp ∈ s.ret.spends, (ccKeys sp).Nodup) ∧ (ccKeys s.spend).Nodup
  ccost : s.ret.conditionCost = (s.ret.spends.map (·.conditionCost)).sum + s.spend.conditionCost
  ids : (∀ sp ∈ s.ret.spends, CoinIdOk sp) ∧ CoinIdOk s.spend

theorem BInv_init : BInv {} {} := by
  constructor <;> simp

theorem SInv_bump (s : CSt) (c : Nat) (h : SInv s) : SInv (bump s c) := by
  obtain ⟨h1, h2, h3, h4, h5, h6, h7⟩ := h
  constructor <;> simp only [bump] <;> first | assumption | omega

theorem SInv_visit (env : Env) (s : CSt) (cva : Cond) (h : SInv s) : SInv (visit env s cva) := by
  obtain ⟨h1, h2, h3, h4, h5, h6, h7⟩ := h
  constructor <;> simp only [visit] <;> assumption

theorem SInv_step (env : Env) (s s' : CSt) (cva : Cond) (h : SInv s) (ha : applyCond env s cva = .ok s') : SInv s' := by
  obtain ⟨h1, h2, h3, h4, h5, h6, h7⟩ := h
  obtain ⟨f1, f2, f3, f4, f5, f6, f7, f8, f9, f10⟩ := applyCond_frame env s s' cva ha
  have hid : CoinIdOk s'.spend := by
    unfold CoinIdOk at *; rw [f6, f7, f8, f9]; exact h7.2
  rcases f10 with ⟨g1, g2⟩ | ⟨nc, g1, g2, g3⟩
  · constructor
    · rw [f4, f3, f6]; exact h1
    · rw [g2, f3]; simp only [ccSum, g1]; exact h2
    · rw [f5, f3, f7]; exact h3
    · rw [f5]; exact h4
    · rw [f3]; exact ⟨h5.1, by simp only [ccKeys, g1]; exact h5.2⟩
    · rw [f1, f2, f3]; exact h6
    · rw [f3]; exact ⟨h7.1, hid⟩
  · constructor
    · rw [f4, f3, f6]; exact h1
    · rw [g2, f3, h2]; simp only [ccSum, g1]; simp; omega
    · rw [f5, f3, f7]; exact h3
    · rw [f5]; exact h4
    · rw [f3]; refine ⟨h5.1, ?_⟩
      simp only [ccKeys, g1, List.map_append, List.map_cons, List.map_nil]
      rw [List.nodup_append]
      refine ⟨h5.2, by simp, ?_⟩
      intro a ha b hb
      simp at hb; subst hb
      simp only [List.mem_map] at ha
      obtain ⟨x, hx, rfl⟩ := ha
      intro heq
      have := List.any_eq_false.mp g3 x hx
      injection heq with e1 e2
      simp [e1, e2] at this
    · rw [f1, f2, f3]; exact h6
    · rw [f3]; exact ⟨h7.1, hid⟩

end ChiaModel.Cond

namespace ChiaModel.Cond
open ChiaModel

theorem SInv_header {ret : Bundle} {st : PState} {parent ph amount : Sexp} {cc : Nat} {s0 : CSt}
    (hb : BInv ret st) (hbytes : amount.AllBytes) (h : spendHeader ret st parent ph amount cc = .ok s0) : SInv s0 := by
  obtain ⟨parentId, puzzleHash, amountBuf, myAmount, e1, l1, e2, l2, e3, hs, hc, rfl⟩ := spendHeader_ok h
  obtain ⟨b1, b2, b3, b4, b5, b6, b7⟩ := hb
  subst e3
  have hab : isBytes amountBuf := hbytes
  have hcanon := C11.sanitizeUint_canon amountBuf myAmount hab hs
  have hlt := (C11.sanitizeUint_ok amountBuf 8 myAmount hab hs).2.2.2
  constructor
  · simp only; omega
  · simp only [ccSum, List.map_nil, List.sum_nil]; omega
  · simp only; rw [b3]
  · simp only
    rw [List.nodup_append]
    refine ⟨b4, by simp, ?_⟩
    intro a ha b hb
    simp at hb; subst hb
    intro heq; subst heq
    have : st.spentCoins.contains (coinId parentId puzzleHash amountBuf) = true := by simpa using ha
    rw [hc] at this; cases this
  · exact ⟨b5, by simp [ccKeys]⟩
  · simp only; omega
  · refine ⟨b7, ?_⟩
    simp only [CoinIdOk, coinId]
    exact ⟨by rw [← hcanon], by simpa using hlt, l1, l2⟩

theorem SInv_newSpendVisit (env : Env) (s : CSt) (h : SInv s) : SInv (newSpendVisit env s) := by
  unfold newSpendVisit
  split
  · obtain ⟨h1, h2, h3, h4, h5, h6, h7⟩ := h
    constructor <;> simp only <;> assumption
  · exact h

@[simp] theorem postSpend_coinAmount (env : Env) (sp : Spend) : (postSpend env sp).coinAmount = sp.coinAmount := by
  unfold postSpend; split <;> rfl
@[simp] theorem postSpend_createCoin (env : Env) (sp : Spend) : (postSpend env sp).createCoin = sp.createCoin := by
  unfold postSpend; split <;> rfl
@[simp] theorem postSpend_coinId (env : Env) (sp : Spend) : (postSpend env sp).coinId = sp.coinId := by
  unfold postSpend; split <;> rfl
@[simp] theorem postSpend_parentId (env : Env) (sp : Spend) : (postSpend env sp).parentId = sp.parentId := by
  unfold postSpend; split <;> rfl
@[simp] theorem postSpend_puzzleHash (env : Env) (sp : Spend) : (postSpend env sp).puzzleHash = sp.puzzleHash := by
  unfold postSpend; split <;> rfl
@[simp] theorem postSpend_conditionCost (env : Env) (sp : Spend) : (postSpend env sp).conditionCost = sp.conditionCost := by
  unfold postSpend; split <;> rfl

theorem BInv_finish (env : Env) (s : CSt) (h : SInv s) : BInv (finishSpend env s).1 (finishSpend env s).2 := by
  obtain ⟨h1, h2, h3, h4, h5, h6, h7⟩ := h
  simp only [finishSpend]
  constructor
  · simp [h1]
  · simp [h2, ccSum]
  · simp [h3]
  · exact h4
  · intro sp hsp
    simp at hsp
    rcases hsp with hsp | rfl
    · exact h5.1 sp hsp
    · simpa [ccKeys] using h5.2
  · simp [h6]
  · intro sp hsp
    simp at hsp
    rcases hsp with hsp | rfl
    · exact h7.1 sp hsp
    · simpa [CoinIdOk] using h7.2

theorem BInv_processSingleSpend (env : Env) (cc : Nat) (ret : Bundle) (st : PState) (parent ph amount conds : Sexp) (m : Nat)
    (ret' : Bundle) (st' : PState) (m' : Nat) (hb : BInv ret st) (hbytes : amount.AllBytes)
    (h : processSingleSpend env ret st parent ph amount conds cc m = .ok ((ret', st'), m')) : BInv ret' st' := by
  obtain ⟨s0, m1, s, hh, _, _, hl, hf⟩ := processSingleSpend_ok h
  have h0 := SInv_header hb hbytes hh
  have h1 := SInv_newSpendVisit env _ (SInv_bump s0 (spendCharge env.flags) h0)
  have h2 := condLoop_inv env SInv SInv_bump (SInv_visit env) (SInv_step env) conds _ m1 s m' hl h1
  have := BInv_finish env s h2
  rw [← hf] at this; exact this

theorem BInv_spendLoop (env : Env) (cc : Nat) (t : Sexp) (n m : Nat) (ret : Bundle) (st : PState) (m' : Nat)
    (hab : t.AllBytes) (h : spendLoop env cc t {} {} n m = .ok ((ret, st), m')) : BInv ret st :=
  spendLoop_inv env cc BInv
    (fun ret st parent ph amount conds m ret' st' m' hq _ _ b3 _ hp =>
      BInv_processSingleSpend env cc ret st parent ph amount conds m ret' st' m' hq b3 hp)
    t {} {} n m ret st m' hab h BInv_init

end ChiaModel.Cond
