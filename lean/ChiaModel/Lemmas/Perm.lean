import ChiaModel.Lemmas.CondInv
/-
C06, second half: the order of the conditions within a spend.  `applyCond` is put into a
guard/update normal form (`condOk`, `condUpd`), two states are related by `CEquiv` when they agree on
every field up to the order of list-valued items, and adjacent conditions are shown to commute up to
`CEquiv`.
-/
set_option linter.unusedSimpArgs false
namespace ChiaModel.Cond

/-! ## guard / update normal form of `applyCond` -/

def decOk (env : Env) (s : CSt) : Bool := hasFlag env.flags Gen.flagCostConditions || s.countdown != 0

def dec (env : Env) (s : CSt) : CSt :=
  { s with countdown := if hasFlag env.flags Gen.flagCostConditions then s.countdown else s.countdown - 1 }

/-- `assertNotEphemeral` with the case distinction pushed into the two fields it touches -/
def ane (s : CSt) : CSt :=
  { s with
    st := { s.st with assertNotEphemeral :=
      if s.spend.flags &&& HAS_RELATIVE_CONDITION ≠ 0 then s.st.assertNotEphemeral
      else s.ret.spends.length :: s.st.assertNotEphemeral },
    spend := { s.spend with flags :=
      if s.spend.flags &&& HAS_RELATIVE_CONDITION ≠ 0 then s.spend.flags else s.spend.flags + HAS_RELATIVE_CONDITION } }

theorem assertNotEphemeral_eq (s : CSt) : assertNotEphemeral s = ane s := by
  unfold assertNotEphemeral ane
  by_cases h : s.spend.flags &&& HAS_RELATIVE_CONDITION ≠ 0
  · rw [if_pos h, if_pos h, if_pos h]
  · rw [if_neg h, if_neg h, if_neg h]

/-- `pushAggSig` with the case distinction pushed into the seven lists -/
def pushSig (op : Nat) (sp : Spend) (e : Bytes × Bytes) : Spend :=
  { sp with
    aggSigMe := if op = Gen.opAggSigMe then sp.aggSigMe ++ [e] else sp.aggSigMe,
    aggSigParent := if op = Gen.opAggSigParent then sp.aggSigParent ++ [e] else sp.aggSigParent,
    aggSigPuzzle := if op = Gen.opAggSigPuzzle then sp.aggSigPuzzle ++ [e] else sp.aggSigPuzzle,
    aggSigAmount := if op = Gen.opAggSigAmount then sp.aggSigAmount ++ [e] else sp.aggSigAmount,
    aggSigPuzzleAmount := if op = Gen.opAggSigPuzzleAmount then sp.aggSigPuzzleAmount ++ [e] else sp.aggSigPuzzleAmount,
    aggSigParentAmount := if op = Gen.opAggSigParentAmount then sp.aggSigParentAmount ++ [e] else sp.aggSigParentAmount,
    aggSigParentPuzzle := if op = Gen.opAggSigParentPuzzle then sp.aggSigParentPuzzle ++ [e] else sp.aggSigParentPuzzle }

theorem pushAggSig_eq (op : Nat) (sp : Spend) (e : Bytes × Bytes) : pushAggSig op sp e = pushSig op sp e := by
  unfold pushAggSig pushSig
  by_cases h1 : op = Gen.opAggSigMe
  · subst h1; simp [Gen.opAggSigMe, Gen.opAggSigParent, Gen.opAggSigPuzzle, Gen.opAggSigAmount, Gen.opAggSigPuzzleAmount, Gen.opAggSigParentAmount, Gen.opAggSigParentPuzzle]
  by_cases h2 : op = Gen.opAggSigParent
  · subst h2; simp [Gen.opAggSigMe, Gen.opAggSigParent, Gen.opAggSigPuzzle, Gen.opAggSigAmount, Gen.opAggSigPuzzleAmount, Gen.opAggSigParentAmount, Gen.opAggSigParentPuzzle]
  by_cases h3 : op = Gen.opAggSigPuzzle
  · subst h3; simp [Gen.opAggSigMe, Gen.opAggSigParent, Gen.opAggSigPuzzle, Gen.opAggSigAmount, Gen.opAggSigPuzzleAmount, Gen.opAggSigParentAmount, Gen.opAggSigParentPuzzle]
  by_cases h4 : op = Gen.opAggSigAmount
  · subst h4; simp [Gen.opAggSigMe, Gen.opAggSigParent, Gen.opAggSigPuzzle, Gen.opAggSigAmount, Gen.opAggSigPuzzleAmount, Gen.opAggSigParentAmount, Gen.opAggSigParentPuzzle]
  by_cases h5 : op = Gen.opAggSigPuzzleAmount
  · subst h5; simp [Gen.opAggSigMe, Gen.opAggSigParent, Gen.opAggSigPuzzle, Gen.opAggSigAmount, Gen.opAggSigPuzzleAmount, Gen.opAggSigParentAmount, Gen.opAggSigParentPuzzle]
  by_cases h6 : op = Gen.opAggSigParentAmount
  · subst h6; simp [Gen.opAggSigMe, Gen.opAggSigParent, Gen.opAggSigPuzzle, Gen.opAggSigAmount, Gen.opAggSigPuzzleAmount, Gen.opAggSigParentAmount, Gen.opAggSigParentPuzzle]
  by_cases h7 : op = Gen.opAggSigParentPuzzle
  · subst h7; simp [Gen.opAggSigMe, Gen.opAggSigParent, Gen.opAggSigPuzzle, Gen.opAggSigAmount, Gen.opAggSigPuzzleAmount, Gen.opAggSigParentAmount, Gen.opAggSigParentPuzzle]
  simp [h1, h2, h3, h4, h5, h6, h7]

theorem pushSig_unsafe (sp : Spend) (e : Bytes × Bytes) : pushSig Gen.opAggSigUnsafe sp e = sp := by
  simp [pushSig, Gen.opAggSigUnsafe, Gen.opAggSigMe, Gen.opAggSigParent, Gen.opAggSigPuzzle, Gen.opAggSigAmount, Gen.opAggSigPuzzleAmount, Gen.opAggSigParentAmount, Gen.opAggSigParentPuzzle]

theorem aggSigSuffix_unsafe (sp : Spend) : aggSigSuffix Gen.opAggSigUnsafe sp = [] := by
  simp [aggSigSuffix, Gen.opAggSigUnsafe, Gen.opAggSigMe, Gen.opAggSigParent, Gen.opAggSigPuzzle, Gen.opAggSigAmount, Gen.opAggSigPuzzleAmount, Gen.opAggSigParentAmount, Gen.opAggSigParentPuzzle]

theorem decrement_eq (env : Env) (s : CSt) :
    decrement env s = if decOk env s then .ok (dec env s) else .error .reject := by
  unfold decrement decOk dec
  cases hasFlag env.flags Gen.flagCostConditions with
  | true => simp
  | false =>
    by_cases h : s.countdown = 0
    · simp [h]
    · simp [h]

/-- does `applyCond` accept condition `c` in state `s` -/
def condOk (env : Env) (s : CSt) : Cond → Bool
  | .reserveFee limit => s.ret.reserveFee + limit < 2^64
  | .createCoin ph amount _ => !(s.spend.createCoin.any (fun nc => nc.ph == ph && nc.amount == amount))
  | .assertSecondsRelative v => !optLe s.spend.beforeSecondsRelative v
  | .assertHeightRelative v => !optLe s.spend.beforeHeightRelative v
  | .assertBeforeSecondsRelative v => !optGe s.spend.secondsRelative v
  | .assertBeforeHeightRelative v => !optGe s.spend.heightRelative v
  | .assertMyCoinId id => id = s.spend.coinId
  | .assertMyAmount v => v = s.spend.coinAmount
  | .assertMyParentId id => id = s.spend.parentId
  | .assertMyPuzzlehash id => id = s.spend.puzzleHash
  | .assertMyBirthSeconds v => !isSomeNe s.spend.birthSeconds v
  | .assertMyBirthHeight v => !isSomeNe s.spend.birthHeight v
  | .createCoinAnnouncement _ | .createPuzzleAnnouncement _ | .assertCoinAnnouncement _
  | .assertPuzzleAnnouncement _ | .assertConcurrentSpend _ | .assertConcurrentPuzzle _
  | .sendMessage _ _ _ | .receiveMessage _ _ _ => decOk env s
  | .aggSig op pk msg => (op ≠ Gen.opAggSigUnsafe || unsafeMsgOk msg) && env.pkOk pk
  | _ => true

/-- the state after an accepted condition `c` -/
def condUpd (env : Env) (s : CSt) : Cond → CSt
  | .reserveFee limit => { s with ret := { s.ret with reserveFee := s.ret.reserveFee + limit } }
  | .createCoin ph amount hint =>
    { s with spend := { s.spend with createCoin := s.spend.createCoin ++ [⟨ph, amount, hint⟩] },
             ret := { s.ret with additionAmount := s.ret.additionAmount + amount } }
  | .assertSecondsRelative v =>
    ane { s with spend := { s.spend with secondsRelative := optMax s.spend.secondsRelative v } }
  | .assertSecondsAbsolute v => { s with ret := { s.ret with secondsAbsolute := max s.ret.secondsAbsolute v } }
  | .assertHeightRelative v =>
    ane { s with spend := { s.spend with heightRelative := optMax s.spend.heightRelative v } }
  | .assertHeightAbsolute v => { s with ret := { s.ret with heightAbsolute := max s.ret.heightAbsolute v } }
  | .assertBeforeSecondsRelative v =>
    ane { s with spend := { s.spend with beforeSecondsRelative := optMin s.spend.beforeSecondsRelative v } }
  | .assertBeforeSecondsAbsolute v =>
    { s with ret := { s.ret with beforeSecondsAbsolute := optMin s.ret.beforeSecondsAbsolute v } }
  | .assertBeforeHeightRelative v =>
    ane { s with spend := { s.spend with beforeHeightRelative := optMin s.spend.beforeHeightRelative v } }
  | .assertBeforeHeightAbsolute v =>
    { s with ret := { s.ret with beforeHeightAbsolute := optMin s.ret.beforeHeightAbsolute v } }
  | .assertMyBirthSeconds v => ane { s with spend := { s.spend with birthSeconds := some v } }
  | .assertMyBirthHeight v => ane { s with spend := { s.spend with birthHeight := some v } }
  | .assertEphemeral => { s with st := { s.st with assertEphemeral := s.ret.spends.length :: s.st.assertEphemeral } }
  | .createCoinAnnouncement msg =>
    let s' := dec env s
    { s' with st := { s'.st with announceCoin := (s.spend.coinId, msg) :: s'.st.announceCoin } }
  | .createPuzzleAnnouncement msg =>
    let s' := dec env s
    { s' with st := { s'.st with announcePuzzle := (s.spend.puzzleHash, msg) :: s'.st.announcePuzzle } }
  | .assertCoinAnnouncement id =>
    let s' := dec env s
    { s' with st := { s'.st with assertCoin := id :: s'.st.assertCoin } }
  | .assertPuzzleAnnouncement id =>
    let s' := dec env s
    { s' with st := { s'.st with assertPuzzle := id :: s'.st.assertPuzzle } }
  | .assertConcurrentSpend id =>
    let s' := dec env s
    { s' with st := { s'.st with assertConcurrentSpend := id :: s'.st.assertConcurrentSpend } }
  | .assertConcurrentPuzzle id =>
    let s' := dec env s
    { s' with st := { s'.st with assertConcurrentPuzzle := id :: s'.st.assertConcurrentPuzzle } }
  | .aggSig op pk msg =>
    { s with
      ret := { s.ret with aggSigUnsafe :=
        if op = Gen.opAggSigUnsafe then s.ret.aggSigUnsafe ++ [(pk, msg)] else s.ret.aggSigUnsafe },
      spend := pushSig op s.spend (pk, msg),
      st := { s.st with pkmPairs :=
        (if hasFlag env.flags Gen.flagDontValidateSignature = true then s.st.pkmPairs
         else s.st.pkmPairs ++ [(pk, msg ++ aggSigSuffix op s.spend)]) } }
  | .sendMessage srcMode dst msg =>
    let s' := dec env s
    { s' with st := { s'.st with messages :=
        (spendIdFromSelf srcMode s.spend.parentId s.spend.puzzleHash s.spend.coinAmount s.spend.coinId ++ dst ++ msg, 1)
          :: s'.st.messages } }
  | .receiveMessage src dstMode msg =>
    let s' := dec env s
    { s' with st := { s'.st with messages :=
        (src ++ spendIdFromSelf dstMode s.spend.parentId s.spend.puzzleHash s.spend.coinAmount s.spend.coinId ++ msg, -1)
          :: s'.st.messages } }
  | .skipRelativeCondition => ane s
  | _ => s

theorem applyCond_eq (env : Env) (s : CSt) (c : Cond) :
    applyCond env s c = if condOk env s c then .ok (condUpd env s c) else .error .reject := by
  cases c
  case aggSig op pk msg =>
    by_cases h1 : op = Gen.opAggSigUnsafe
    · subst h1
      cases h2 : unsafeMsgOk msg <;> cases h3 : env.pkOk pk <;>
        cases h4 : hasFlag env.flags Gen.flagDontValidateSignature <;>
        simp [applyCond, condOk, condUpd, toKey, h2, h3, h4, pushSig_unsafe, aggSigSuffix_unsafe,
          bind, Except.bind, pure, Except.pure]
    · cases h3 : env.pkOk pk <;> cases h4 : hasFlag env.flags Gen.flagDontValidateSignature <;>
        simp [applyCond, condOk, condUpd, toKey, h1, h3, h4, pushAggSig_eq, bind, Except.bind, pure, Except.pure]
  all_goals first
    | (simp only [applyCond, condOk, condUpd, assertNotEphemeral_eq]; split <;> simp_all; done)
    | (cases hk : decOk env s <;>
        simp only [applyCond, condOk, condUpd, decrement_eq, hk, ↓reduceIte, Bool.false_eq_true] <;> rfl)

/-! ## equality of states up to listing order -/

/-- two per-spend states that differ at most in the order in which list-valued items are listed -/
structure CEquiv (s t : CSt) : Prop where
  ret_spends : s.ret.spends = t.ret.spends
  ret_reserveFee : s.ret.reserveFee = t.ret.reserveFee
  ret_heightAbsolute : s.ret.heightAbsolute = t.ret.heightAbsolute
  ret_secondsAbsolute : s.ret.secondsAbsolute = t.ret.secondsAbsolute
  ret_aggSigUnsafe : List.Perm s.ret.aggSigUnsafe t.ret.aggSigUnsafe
  ret_beforeHeightAbsolute : s.ret.beforeHeightAbsolute = t.ret.beforeHeightAbsolute
  ret_beforeSecondsAbsolute : s.ret.beforeSecondsAbsolute = t.ret.beforeSecondsAbsolute
  ret_cost : s.ret.cost = t.ret.cost
  ret_executionCost : s.ret.executionCost = t.ret.executionCost
  ret_conditionCost : s.ret.conditionCost = t.ret.conditionCost
  ret_removalAmount : s.ret.removalAmount = t.ret.removalAmount
  ret_additionAmount : s.ret.additionAmount = t.ret.additionAmount
  ret_validatedSignature : s.ret.validatedSignature = t.ret.validatedSignature
  st_announceCoin : List.Perm s.st.announceCoin t.st.announceCoin
  st_announcePuzzle : List.Perm s.st.announcePuzzle t.st.announcePuzzle
  st_assertCoin : List.Perm s.st.assertCoin t.st.assertCoin
  st_assertPuzzle : List.Perm s.st.assertPuzzle t.st.assertPuzzle
  st_messages : List.Perm s.st.messages t.st.messages
  st_assertConcurrentSpend : List.Perm s.st.assertConcurrentSpend t.st.assertConcurrentSpend
  st_assertConcurrentPuzzle : List.Perm s.st.assertConcurrentPuzzle t.st.assertConcurrentPuzzle
  st_spentCoins : s.st.spentCoins = t.st.spentCoins
  st_spentPuzzles : s.st.spentPuzzles = t.st.spentPuzzles
  st_assertEphemeral : List.Perm s.st.assertEphemeral t.st.assertEphemeral
  st_assertNotEphemeral : List.Perm s.st.assertNotEphemeral t.st.assertNotEphemeral
  st_pkmPairs : List.Perm s.st.pkmPairs t.st.pkmPairs
  spend_parentId : s.spend.parentId = t.spend.parentId
  spend_coinAmount : s.spend.coinAmount = t.spend.coinAmount
  spend_puzzleHash : s.spend.puzzleHash = t.spend.puzzleHash
  spend_coinId : s.spend.coinId = t.spend.coinId
  spend_heightRelative : s.spend.heightRelative = t.spend.heightRelative
  spend_secondsRelative : s.spend.secondsRelative = t.spend.secondsRelative
  spend_beforeHeightRelative : s.spend.beforeHeightRelative = t.spend.beforeHeightRelative
  spend_beforeSecondsRelative : s.spend.beforeSecondsRelative = t.spend.beforeSecondsRelative
  spend_birthHeight : s.spend.birthHeight = t.spend.birthHeight
  spend_birthSeconds : s.spend.birthSeconds = t.spend.birthSeconds
  spend_createCoin : List.Perm s.spend.createCoin t.spend.createCoin
  spend_aggSigMe : List.Perm s.spend.aggSigMe t.spend.aggSigMe
  spend_aggSigParent : List.Perm s.spend.aggSigParent t.spend.aggSigParent
  spend_aggSigPuzzle : List.Perm s.spend.aggSigPuzzle t.spend.aggSigPuzzle
  spend_aggSigAmount : List.Perm s.spend.aggSigAmount t.spend.aggSigAmount
  spend_aggSigPuzzleAmount : List.Perm s.spend.aggSigPuzzleAmount t.spend.aggSigPuzzleAmount
  spend_aggSigParentAmount : List.Perm s.spend.aggSigParentAmount t.spend.aggSigParentAmount
  spend_aggSigParentPuzzle : List.Perm s.spend.aggSigParentPuzzle t.spend.aggSigParentPuzzle
  spend_flags : s.spend.flags = t.spend.flags
  spend_executionCost : s.spend.executionCost = t.spend.executionCost
  spend_conditionCost : s.spend.conditionCost = t.spend.conditionCost
  countdown : s.countdown = t.countdown
  counter : s.counter = t.counter

theorem CEquiv.refl (s : CSt) : CEquiv s s :=
  ⟨rfl, rfl, rfl, rfl, List.Perm.refl _, rfl, rfl, rfl, rfl, rfl, rfl, rfl, rfl, List.Perm.refl _, List.Perm.refl _, List.Perm.refl _, List.Perm.refl _, List.Perm.refl _, List.Perm.refl _, List.Perm.refl _, rfl, rfl, List.Perm.refl _, List.Perm.refl _, List.Perm.refl _, rfl, rfl, rfl, rfl, rfl, rfl, rfl, rfl, rfl, rfl, List.Perm.refl _, List.Perm.refl _, List.Perm.refl _, List.Perm.refl _, List.Perm.refl _, List.Perm.refl _, List.Perm.refl _, List.Perm.refl _, rfl, rfl, rfl, rfl, rfl⟩

theorem CEquiv.of_eq {s t : CSt} (h : s = t) : CEquiv s t := h ▸ CEquiv.refl s

theorem CEquiv.symm {s t : CSt} (h : CEquiv s t) : CEquiv t s :=
  ⟨h.ret_spends.symm, h.ret_reserveFee.symm, h.ret_heightAbsolute.symm, h.ret_secondsAbsolute.symm, h.ret_aggSigUnsafe.symm, h.ret_beforeHeightAbsolute.symm, h.ret_beforeSecondsAbsolute.symm, h.ret_cost.symm, h.ret_executionCost.symm, h.ret_conditionCost.symm, h.ret_removalAmount.symm, h.ret_additionAmount.symm, h.ret_validatedSignature.symm, h.st_announceCoin.symm, h.st_announcePuzzle.symm, h.st_assertCoin.symm, h.st_assertPuzzle.symm, h.st_messages.symm, h.st_assertConcurrentSpend.symm, h.st_assertConcurrentPuzzle.symm, h.st_spentCoins.symm, h.st_spentPuzzles.symm, h.st_assertEphemeral.symm, h.st_assertNotEphemeral.symm, h.st_pkmPairs.symm, h.spend_parentId.symm, h.spend_coinAmount.symm, h.spend_puzzleHash.symm, h.spend_coinId.symm, h.spend_heightRelative.symm, h.spend_secondsRelative.symm, h.spend_beforeHeightRelative.symm, h.spend_beforeSecondsRelative.symm, h.spend_birthHeight.symm, h.spend_birthSeconds.symm, h.spend_createCoin.symm, h.spend_aggSigMe.symm, h.spend_aggSigParent.symm, h.spend_aggSigPuzzle.symm, h.spend_aggSigAmount.symm, h.spend_aggSigPuzzleAmount.symm, h.spend_aggSigParentAmount.symm, h.spend_aggSigParentPuzzle.symm, h.spend_flags.symm, h.spend_executionCost.symm, h.spend_conditionCost.symm, h.countdown.symm, h.counter.symm⟩

theorem CEquiv.trans {s t u : CSt} (h1 : CEquiv s t) (h2 : CEquiv t u) : CEquiv s u :=
  ⟨h1.ret_spends.trans h2.ret_spends, h1.ret_reserveFee.trans h2.ret_reserveFee, h1.ret_heightAbsolute.trans h2.ret_heightAbsolute, h1.ret_secondsAbsolute.trans h2.ret_secondsAbsolute, h1.ret_aggSigUnsafe.trans h2.ret_aggSigUnsafe, h1.ret_beforeHeightAbsolute.trans h2.ret_beforeHeightAbsolute, h1.ret_beforeSecondsAbsolute.trans h2.ret_beforeSecondsAbsolute, h1.ret_cost.trans h2.ret_cost, h1.ret_executionCost.trans h2.ret_executionCost, h1.ret_conditionCost.trans h2.ret_conditionCost, h1.ret_removalAmount.trans h2.ret_removalAmount, h1.ret_additionAmount.trans h2.ret_additionAmount, h1.ret_validatedSignature.trans h2.ret_validatedSignature, h1.st_announceCoin.trans h2.st_announceCoin, h1.st_announcePuzzle.trans h2.st_announcePuzzle, h1.st_assertCoin.trans h2.st_assertCoin, h1.st_assertPuzzle.trans h2.st_assertPuzzle, h1.st_messages.trans h2.st_messages, h1.st_assertConcurrentSpend.trans h2.st_assertConcurrentSpend, h1.st_assertConcurrentPuzzle.trans h2.st_assertConcurrentPuzzle, h1.st_spentCoins.trans h2.st_spentCoins, h1.st_spentPuzzles.trans h2.st_spentPuzzles, h1.st_assertEphemeral.trans h2.st_assertEphemeral, h1.st_assertNotEphemeral.trans h2.st_assertNotEphemeral, h1.st_pkmPairs.trans h2.st_pkmPairs, h1.spend_parentId.trans h2.spend_parentId, h1.spend_coinAmount.trans h2.spend_coinAmount, h1.spend_puzzleHash.trans h2.spend_puzzleHash, h1.spend_coinId.trans h2.spend_coinId, h1.spend_heightRelative.trans h2.spend_heightRelative, h1.spend_secondsRelative.trans h2.spend_secondsRelative, h1.spend_beforeHeightRelative.trans h2.spend_beforeHeightRelative, h1.spend_beforeSecondsRelative.trans h2.spend_beforeSecondsRelative, h1.spend_birthHeight.trans h2.spend_birthHeight, h1.spend_birthSeconds.trans h2.spend_birthSeconds, h1.spend_createCoin.trans h2.spend_createCoin, h1.spend_aggSigMe.trans h2.spend_aggSigMe, h1.spend_aggSigParent.trans h2.spend_aggSigParent, h1.spend_aggSigPuzzle.trans h2.spend_aggSigPuzzle, h1.spend_aggSigAmount.trans h2.spend_aggSigAmount, h1.spend_aggSigPuzzleAmount.trans h2.spend_aggSigPuzzleAmount, h1.spend_aggSigParentAmount.trans h2.spend_aggSigParentAmount, h1.spend_aggSigParentPuzzle.trans h2.spend_aggSigParentPuzzle, h1.spend_flags.trans h2.spend_flags, h1.spend_executionCost.trans h2.spend_executionCost, h1.spend_conditionCost.trans h2.spend_conditionCost, h1.countdown.trans h2.countdown, h1.counter.trans h2.counter⟩

/-! ## adjacent conditions commute -/

theorem perm_append_swap {α : Type} (l : List α) (x y : α) : List.Perm (l ++ [x] ++ [y]) (l ++ [y] ++ [x]) := by
  simp only [List.append_assoc]
  exact List.Perm.append_left l (List.Perm.swap _ _ _)

theorem perm_ite_swap {α : Type} (c1 c2 : Prop) [Decidable c1] [Decidable c2] (l : List α) (x y : α) :
    List.Perm (if c2 then (if c1 then l ++ [x] else l) ++ [y] else (if c1 then l ++ [x] else l))
              (if c1 then (if c2 then l ++ [y] else l) ++ [x] else (if c2 then l ++ [y] else l)) := by
  by_cases h1 : c1 <;> by_cases h2 : c2 <;> simp only [h1, h2, if_true, if_false]
  · exact perm_append_swap _ _ _
  all_goals exact List.Perm.refl _

theorem optMax_comm (o : Option Nat) (v w : Nat) : optMax (optMax o v) w = optMax (optMax o w) v := by
  cases o <;> simp only [optMax] <;> congr 1 <;> omega

theorem optMin_comm (o : Option Nat) (v w : Nat) : optMin (optMin o v) w = optMin (optMin o w) v := by
  cases o <;> simp only [optMin] <;> congr 1 <;> omega

theorem rel_guard_swap (lo hi : Option Nat) (v w : Nat) :
    (!optLe hi v && !optGe (optMax lo v) w) = (!optGe lo w && !optLe (optMin hi w) v) := by
  rw [Bool.eq_iff_iff]
  cases lo <;> cases hi <;> simp [optLe, optGe, optMax, optMin] <;> omega

theorem birth_guard_swap (o : Option Nat) (v w : Nat) :
    (!isSomeNe o v && !isSomeNe (some v) w) = (!isSomeNe o w && !isSomeNe (some w) v) := by
  rw [Bool.eq_iff_iff]
  cases o <;> simp [isSomeNe] <;> omega

theorem fee_guard_swap (a v w : Nat) :
    (decide (a + v < 2 ^ 64) && decide (a + v + w < 2 ^ 64)) = (decide (a + w < 2 ^ 64) && decide (a + w + v < 2 ^ 64)) := by
  rw [Bool.eq_iff_iff]
  simp only [Bool.and_eq_true, decide_eq_true_eq]
  omega

theorem isSomeNe_some_false {v w : Nat} (h : (!isSomeNe (some v) w) = true) : v = w := by
  simpa [isSomeNe] using h

/-- the acceptance of two adjacent conditions does not depend on their order -/
theorem condOk_swap (env : Env) (s : CSt) (a b : Cond) :
    (condOk env s a && condOk env (condUpd env s a) b) = (condOk env s b && condOk env (condUpd env s b) a) := by
  cases a <;> cases b <;> first | exact Bool.and_comm _ _ | rfl | skip
  case createCoin.createCoin ph1 a1 h1 ph2 a2 h2 =>
    simp only [condOk, condUpd, List.any_append, List.any_cons, List.any_nil, Bool.or_false]
    rw [BEq.comm (a := ph2), BEq.comm (a := a2)]
    generalize (s.spend.createCoin.any fun nc => nc.ph == ph1 && nc.amount == a1) = x
    generalize (s.spend.createCoin.any fun nc => nc.ph == ph2 && nc.amount == a2) = y
    generalize (ph1 == ph2 && a1 == a2) = z
    cases x <;> cases y <;> cases z <;> rfl
  case reserveFee.reserveFee v w => exact fee_guard_swap _ _ _
  case assertMyBirthSeconds.assertMyBirthSeconds v w => exact birth_guard_swap _ _ _
  case assertMyBirthHeight.assertMyBirthHeight v w => exact birth_guard_swap _ _ _
  case assertSecondsRelative.assertBeforeSecondsRelative v w => exact rel_guard_swap _ _ _ _
  case assertHeightRelative.assertBeforeHeightRelative v w => exact rel_guard_swap _ _ _ _
  case assertBeforeSecondsRelative.assertSecondsRelative v w => exact (rel_guard_swap _ _ _ _).symm
  case assertBeforeHeightRelative.assertHeightRelative v w => exact (rel_guard_swap _ _ _ _).symm

set_option maxHeartbeats 1000000 in
/-- the states reached by two accepted adjacent conditions in either order agree up to listing order -/
theorem condUpd_swap (env : Env) (s : CSt) (a b : Cond) (ha : condOk env s a = true)
    (hb : condOk env (condUpd env s a) b = true) :
    CEquiv (condUpd env (condUpd env s a) b) (condUpd env (condUpd env s b) a) := by
  cases a <;> cases b <;> first | exact CEquiv.of_eq rfl | skip
  all_goals (constructor <;> first | rfl | exact List.Perm.refl _ | exact List.Perm.swap _ _ _ | exact perm_append_swap _ _ _ | skip)
  all_goals first
    | exact perm_ite_swap _ _ _ _ _
    | exact optMax_comm _ _ _
    | exact optMin_comm _ _ _
    | exact congrArg some (isSomeNe_some_false hb).symm
    | (simp only [condUpd]; omega)
    | skip
  case aggSig.aggSig.st_pkmPairs op1 pk1 msg1 op2 pk2 msg2 =>
    simp only [condUpd]
    cases hasFlag env.flags Gen.flagDontValidateSignature with
    | true => exact List.Perm.refl _
    | false => exact perm_append_swap _ _ _

/-! ## congruence -/

theorem perm_ite_append {α : Type} (c : Prop) [Decidable c] {l l' : List α} (h : List.Perm l l') (x : α) :
    List.Perm (if c then l ++ [x] else l) (if c then l' ++ [x] else l') := by
  by_cases hc : c
  · rw [if_pos hc, if_pos hc]; exact List.Perm.append_right _ h
  · rw [if_neg hc, if_neg hc]; exact h

theorem perm_ite_cons {α : Type} (c : Prop) [Decidable c] {l l' : List α} (h : List.Perm l l') (x : α) :
    List.Perm (if c then l else x :: l) (if c then l' else x :: l') := by
  by_cases hc : c
  · rw [if_pos hc, if_pos hc]; exact h
  · rw [if_neg hc, if_neg hc]; exact List.Perm.cons _ h

theorem perm_ite_append' {α : Type} (c : Prop) [Decidable c] {l l' : List α} (h : List.Perm l l') (x : α) :
    List.Perm (if c then l else l ++ [x]) (if c then l' else l' ++ [x]) := by
  by_cases hc : c
  · rw [if_pos hc, if_pos hc]; exact h
  · rw [if_neg hc, if_neg hc]; exact List.Perm.append_right _ h

/-- acceptance of a condition only depends on the state up to listing order -/
theorem condOk_congr (env : Env) {s t : CSt} (h : CEquiv s t) (c : Cond) : condOk env s c = condOk env t c := by
  obtain ⟨h_ret_spends, h_ret_reserveFee, h_ret_heightAbsolute, h_ret_secondsAbsolute, h_ret_aggSigUnsafe, h_ret_beforeHeightAbsolute, h_ret_beforeSecondsAbsolute, h_ret_cost, h_ret_executionCost, h_ret_conditionCost, h_ret_removalAmount, h_ret_additionAmount, h_ret_validatedSignature, h_st_announceCoin, h_st_announcePuzzle, h_st_assertCoin, h_st_assertPuzzle, h_st_messages, h_st_assertConcurrentSpend, h_st_assertConcurrentPuzzle, h_st_spentCoins, h_st_spentPuzzles, h_st_assertEphemeral, h_st_assertNotEphemeral, h_st_pkmPairs, h_spend_parentId, h_spend_coinAmount, h_spend_puzzleHash, h_spend_coinId, h_spend_heightRelative, h_spend_secondsRelative, h_spend_beforeHeightRelative, h_spend_beforeSecondsRelative, h_spend_birthHeight, h_spend_birthSeconds, h_spend_createCoin, h_spend_aggSigMe, h_spend_aggSigParent, h_spend_aggSigPuzzle, h_spend_aggSigAmount, h_spend_aggSigPuzzleAmount, h_spend_aggSigParentAmount, h_spend_aggSigParentPuzzle, h_spend_flags, h_spend_executionCost, h_spend_conditionCost, h_countdown, h_counter⟩ := h
  cases c <;> simp only [condOk, decOk, h_ret_spends, h_ret_reserveFee, h_ret_heightAbsolute, h_ret_secondsAbsolute, h_ret_beforeHeightAbsolute, h_ret_beforeSecondsAbsolute, h_ret_cost, h_ret_executionCost, h_ret_conditionCost, h_ret_removalAmount, h_ret_additionAmount, h_ret_validatedSignature, h_st_spentCoins, h_st_spentPuzzles, h_spend_parentId, h_spend_coinAmount, h_spend_puzzleHash, h_spend_coinId, h_spend_heightRelative, h_spend_secondsRelative, h_spend_beforeHeightRelative, h_spend_beforeSecondsRelative, h_spend_birthHeight, h_spend_birthSeconds, h_spend_flags, h_spend_executionCost, h_spend_conditionCost, h_countdown, h_counter]
  case createCoin ph amount hint => rw [List.Perm.any_eq h_spend_createCoin]

set_option maxHeartbeats 1000000 in
/-- the effect of a condition respects equality of states up to listing order -/
theorem condUpd_congr (env : Env) {s t : CSt} (h : CEquiv s t) (c : Cond) :
    CEquiv (condUpd env s c) (condUpd env t c) := by
  obtain ⟨h_ret_spends, h_ret_reserveFee, h_ret_heightAbsolute, h_ret_secondsAbsolute, h_ret_aggSigUnsafe, h_ret_beforeHeightAbsolute, h_ret_beforeSecondsAbsolute, h_ret_cost, h_ret_executionCost, h_ret_conditionCost, h_ret_removalAmount, h_ret_additionAmount, h_ret_validatedSignature, h_st_announceCoin, h_st_announcePuzzle, h_st_assertCoin, h_st_assertPuzzle, h_st_messages, h_st_assertConcurrentSpend, h_st_assertConcurrentPuzzle, h_st_spentCoins, h_st_spentPuzzles, h_st_assertEphemeral, h_st_assertNotEphemeral, h_st_pkmPairs, h_spend_parentId, h_spend_coinAmount, h_spend_puzzleHash, h_spend_coinId, h_spend_heightRelative, h_spend_secondsRelative, h_spend_beforeHeightRelative, h_spend_beforeSecondsRelative, h_spend_birthHeight, h_spend_birthSeconds, h_spend_createCoin, h_spend_aggSigMe, h_spend_aggSigParent, h_spend_aggSigPuzzle, h_spend_aggSigAmount, h_spend_aggSigPuzzleAmount, h_spend_aggSigParentAmount, h_spend_aggSigParentPuzzle, h_spend_flags, h_spend_executionCost, h_spend_conditionCost, h_countdown, h_counter⟩ := h
  cases c <;> constructor <;> first
    | assumption
    | (simp only [condUpd, ane, dec, pushSig, aggSigSuffix, h_ret_spends, h_ret_reserveFee, h_ret_heightAbsolute, h_ret_secondsAbsolute, h_ret_beforeHeightAbsolute, h_ret_beforeSecondsAbsolute, h_ret_cost, h_ret_executionCost, h_ret_conditionCost, h_ret_removalAmount, h_ret_additionAmount, h_ret_validatedSignature, h_st_spentCoins, h_st_spentPuzzles, h_spend_parentId, h_spend_coinAmount, h_spend_puzzleHash, h_spend_coinId, h_spend_heightRelative, h_spend_secondsRelative, h_spend_beforeHeightRelative, h_spend_beforeSecondsRelative, h_spend_birthHeight, h_spend_birthSeconds, h_spend_flags, h_spend_executionCost, h_spend_conditionCost, h_countdown, h_counter]; done)
    | (simp only [condUpd, ane, dec, pushSig, aggSigSuffix, h_ret_spends, h_ret_reserveFee, h_ret_heightAbsolute, h_ret_secondsAbsolute, h_ret_beforeHeightAbsolute, h_ret_beforeSecondsAbsolute, h_ret_cost, h_ret_executionCost, h_ret_conditionCost, h_ret_removalAmount, h_ret_additionAmount, h_ret_validatedSignature, h_st_spentCoins, h_st_spentPuzzles, h_spend_parentId, h_spend_coinAmount, h_spend_puzzleHash, h_spend_coinId, h_spend_heightRelative, h_spend_secondsRelative, h_spend_beforeHeightRelative, h_spend_beforeSecondsRelative, h_spend_birthHeight, h_spend_birthSeconds, h_spend_flags, h_spend_executionCost, h_spend_conditionCost, h_countdown, h_counter]
       first
         | exact List.Perm.cons _ (by assumption)
         | exact List.Perm.append_right _ (by assumption)
         | (apply perm_ite_append; assumption)
         | (apply perm_ite_append'; assumption)
         | (apply perm_ite_cons; assumption))

/-! ## sequences of parsed conditions -/

/-- the elements of a NIL-terminated CLVM list (`none` for an improper list) -/
def sexpList : Sexp → Option (List Sexp)
  | .atom [] => some []
  | .atom _ => none
  | .pair a r => (sexpList r).map (a :: ·)

/-- apply a list of already parsed conditions in order (the fold of `applyCond`) -/
def applyAll (env : Env) (s : CSt) (l : List Cond) : R CSt := l.foldlM (applyCond env) s

theorem applyAll_nil (env : Env) (s : CSt) : applyAll env s [] = .ok s := rfl

theorem applyAll_cons (env : Env) (s : CSt) (c : Cond) (l : List Cond) :
    applyAll env s (c :: l) = applyCond env s c >>= fun s' => applyAll env s' l := by
  unfold applyAll; rw [List.foldlM_cons]

theorem applyCond_ok {env : Env} {s s' : CSt} {c : Cond} (h : applyCond env s c = .ok s') :
    condOk env s c = true ∧ s' = condUpd env s c := by
  rw [applyCond_eq] at h
  by_cases hc : condOk env s c = true
  · rw [if_pos hc] at h; injection h with h; exact ⟨hc, h.symm⟩
  · rw [if_neg hc] at h; cases h

theorem applyCond_of_ok {env : Env} {s : CSt} {c : Cond} (h : condOk env s c = true) :
    applyCond env s c = .ok (condUpd env s c) := by
  rw [applyCond_eq, if_pos h]

/-- one accepted condition, from two states equal up to listing order -/
theorem applyCond_congr (env : Env) {s t : CSt} (h : CEquiv s t) (c : Cond) {s' : CSt}
    (hs : applyCond env s c = .ok s') : ∃ t', applyCond env t c = .ok t' ∧ CEquiv s' t' := by
  obtain ⟨hc, rfl⟩ := applyCond_ok hs
  rw [condOk_congr env h c] at hc
  exact ⟨_, applyCond_of_ok hc, condUpd_congr env h c⟩

/-- two adjacent conditions: accepted in one order means accepted in the other, with the same state up
to listing order -/
theorem applyCond_swap (env : Env) (s : CSt) (a b : Cond) {u : CSt}
    (h : (applyCond env s a >>= fun s1 => applyCond env s1 b) = .ok u) :
    ∃ u', (applyCond env s b >>= fun s1 => applyCond env s1 a) = .ok u' ∧ CEquiv u u' := by
  obtain ⟨s1, h1, h2⟩ := bind_ok h
  obtain ⟨ha, rfl⟩ := applyCond_ok h1
  obtain ⟨hb, rfl⟩ := applyCond_ok h2
  have hsw := condOk_swap env s a b
  rw [ha, hb] at hsw
  have hsw' : condOk env s b = true ∧ condOk env (condUpd env s b) a = true := by
    simpa using hsw.symm
  refine ⟨condUpd env (condUpd env s b) a, ?_, condUpd_swap env s a b ha hb⟩
  rw [applyCond_of_ok hsw'.1]
  exact applyCond_of_ok hsw'.2

theorem applyAll_congr (env : Env) : ∀ (l : List Cond) {s t : CSt}, CEquiv s t → ∀ {s' : CSt},
    applyAll env s l = .ok s' → ∃ t', applyAll env t l = .ok t' ∧ CEquiv s' t' := by
  intro l
  induction l with
  | nil =>
    intro s t h s' hs
    rw [applyAll_nil] at hs; injection hs with hs; subst hs
    exact ⟨t, applyAll_nil env t, h⟩
  | cons c l ih =>
    intro s t h s' hs
    rw [applyAll_cons] at hs
    obtain ⟨s1, h1, h2⟩ := bind_ok hs
    obtain ⟨t1, ht1, he⟩ := applyCond_congr env h c h1
    obtain ⟨t', ht', he'⟩ := ih he h2
    refine ⟨t', ?_, he'⟩
    rw [applyAll_cons, ht1]; exact ht'

/-- **Order independence of a condition list.**  If a list of parsed conditions is accepted from state
`s`, every permutation of it is accepted from `s`, and the final states agree up to listing order. -/
theorem applyAll_perm (env : Env) {l1 l2 : List Cond} (hp : List.Perm l1 l2) : ∀ {s s' : CSt},
    applyAll env s l1 = .ok s' → ∃ t', applyAll env s l2 = .ok t' ∧ CEquiv s' t' := by
  induction hp with
  | nil => intro s s' h; exact ⟨s', h, CEquiv.refl _⟩
  | cons c _ ih =>
    intro s s' h
    rw [applyAll_cons] at h
    obtain ⟨s1, h1, h2⟩ := bind_ok h
    obtain ⟨t', ht', he⟩ := ih h2
    refine ⟨t', ?_, he⟩
    rw [applyAll_cons, h1]; exact ht'
  | swap a b l =>
    intro s s' h
    -- l1 = b :: a :: l, l2 = a :: b :: l
    rw [applyAll_cons] at h
    obtain ⟨s1, h1, h⟩ := bind_ok h
    rw [applyAll_cons] at h
    obtain ⟨s2, h2, h3⟩ := bind_ok h
    have hab : (applyCond env s b >>= fun x => applyCond env x a) = .ok s2 := by rw [h1]; exact h2
    obtain ⟨u', hu', he⟩ := applyCond_swap env s b a hab
    obtain ⟨x, hx1, hx2⟩ := bind_ok hu'
    obtain ⟨t', ht', he'⟩ := applyAll_congr env l he h3
    refine ⟨t', ?_, he'⟩
    rw [applyAll_cons, hx1]
    show applyAll env x (b :: l) = .ok t'
    rw [applyAll_cons, hx2]; exact ht'
  | trans _ _ ih1 ih2 =>
    intro s s' h
    obtain ⟨t1, ht1, he1⟩ := ih1 h
    obtain ⟨t2, ht2, he2⟩ := ih2 ht1
    exact ⟨t2, ht2, he1.trans he2⟩

end ChiaModel.Cond
