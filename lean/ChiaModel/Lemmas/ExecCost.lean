import ChiaModel.Lemmas.CondInv
/-
The `execution_cost` bookkeeping fields (of the bundle and of each spend) and the list of already
finished spends are *write-only* for the condition loop (only the length of the list is read):
replacing them commutes with every step.  Consequence: `processSingleSpend` called with a different
`clvmCost` argument, on a bundle that differs only in those fields, gives the same verdict, the same
parser state, the same remaining budget and a bundle that again differs only in those fields.
-/
namespace ChiaModel.Cond

/-- overwrite the execution-cost fields and the finished-spends list of a loop state -/
abbrev reExec (e : Nat) (sps : List Spend) (se : Nat) (s : CSt) : CSt :=
  { s with ret := { s.ret with executionCost := e, spends := sps }, spend := { s.spend with executionCost := se } }

@[simp] theorem reExec_spend_parentId (e : Nat) (sps : List Spend) (se : Nat) (s : CSt) : (reExec e sps se s).spend.parentId = s.spend.parentId := rfl
@[simp] theorem reExec_spend_coinAmount (e : Nat) (sps : List Spend) (se : Nat) (s : CSt) : (reExec e sps se s).spend.coinAmount = s.spend.coinAmount := rfl
@[simp] theorem reExec_spend_puzzleHash (e : Nat) (sps : List Spend) (se : Nat) (s : CSt) : (reExec e sps se s).spend.puzzleHash = s.spend.puzzleHash := rfl
@[simp] theorem reExec_spend_coinId (e : Nat) (sps : List Spend) (se : Nat) (s : CSt) : (reExec e sps se s).spend.coinId = s.spend.coinId := rfl
@[simp] theorem reExec_spend_heightRelative (e : Nat) (sps : List Spend) (se : Nat) (s : CSt) : (reExec e sps se s).spend.heightRelative = s.spend.heightRelative := rfl
@[simp] theorem reExec_spend_secondsRelative (e : Nat) (sps : List Spend) (se : Nat) (s : CSt) : (reExec e sps se s).spend.secondsRelative = s.spend.secondsRelative := rfl
@[simp] theorem reExec_spend_beforeHeightRelative (e : Nat) (sps : List Spend) (se : Nat) (s : CSt) : (reExec e sps se s).spend.beforeHeightRelative = s.spend.beforeHeightRelative := rfl
@[simp] theorem reExec_spend_beforeSecondsRelative (e : Nat) (sps : List Spend) (se : Nat) (s : CSt) : (reExec e sps se s).spend.beforeSecondsRelative = s.spend.beforeSecondsRelative := rfl
@[simp] theorem reExec_spend_birthHeight (e : Nat) (sps : List Spend) (se : Nat) (s : CSt) : (reExec e sps se s).spend.birthHeight = s.spend.birthHeight := rfl
@[simp] theorem reExec_spend_birthSeconds (e : Nat) (sps : List Spend) (se : Nat) (s : CSt) : (reExec e sps se s).spend.birthSeconds = s.spend.birthSeconds := rfl
@[simp] theorem reExec_spend_createCoin (e : Nat) (sps : List Spend) (se : Nat) (s : CSt) : (reExec e sps se s).spend.createCoin = s.spend.createCoin := rfl
@[simp] theorem reExec_spend_flags (e : Nat) (sps : List Spend) (se : Nat) (s : CSt) : (reExec e sps se s).spend.flags = s.spend.flags := rfl
@[simp] theorem reExec_spend_conditionCost (e : Nat) (sps : List Spend) (se : Nat) (s : CSt) : (reExec e sps se s).spend.conditionCost = s.spend.conditionCost := rfl
@[simp] theorem reExec_ret_reserveFee (e : Nat) (sps : List Spend) (se : Nat) (s : CSt) : (reExec e sps se s).ret.reserveFee = s.ret.reserveFee := rfl
@[simp] theorem reExec_ret_heightAbsolute (e : Nat) (sps : List Spend) (se : Nat) (s : CSt) : (reExec e sps se s).ret.heightAbsolute = s.ret.heightAbsolute := rfl
@[simp] theorem reExec_ret_secondsAbsolute (e : Nat) (sps : List Spend) (se : Nat) (s : CSt) : (reExec e sps se s).ret.secondsAbsolute = s.ret.secondsAbsolute := rfl
@[simp] theorem reExec_ret_beforeHeightAbsolute (e : Nat) (sps : List Spend) (se : Nat) (s : CSt) : (reExec e sps se s).ret.beforeHeightAbsolute = s.ret.beforeHeightAbsolute := rfl
@[simp] theorem reExec_ret_beforeSecondsAbsolute (e : Nat) (sps : List Spend) (se : Nat) (s : CSt) : (reExec e sps se s).ret.beforeSecondsAbsolute = s.ret.beforeSecondsAbsolute := rfl
@[simp] theorem reExec_ret_aggSigUnsafe (e : Nat) (sps : List Spend) (se : Nat) (s : CSt) : (reExec e sps se s).ret.aggSigUnsafe = s.ret.aggSigUnsafe := rfl
@[simp] theorem reExec_ret_additionAmount (e : Nat) (sps : List Spend) (se : Nat) (s : CSt) : (reExec e sps se s).ret.additionAmount = s.ret.additionAmount := rfl
@[simp] theorem reExec_ret_removalAmount (e : Nat) (sps : List Spend) (se : Nat) (s : CSt) : (reExec e sps se s).ret.removalAmount = s.ret.removalAmount := rfl
@[simp] theorem reExec_ret_conditionCost (e : Nat) (sps : List Spend) (se : Nat) (s : CSt) : (reExec e sps se s).ret.conditionCost = s.ret.conditionCost := rfl
@[simp] theorem reExec_st (e : Nat) (sps : List Spend) (se : Nat) (s : CSt) : (reExec e sps se s).st = s.st := rfl
@[simp] theorem reExec_countdown (e : Nat) (sps : List Spend) (se : Nat) (s : CSt) : (reExec e sps se s).countdown = s.countdown := rfl
@[simp] theorem reExec_counter (e : Nat) (sps : List Spend) (se : Nat) (s : CSt) : (reExec e sps se s).counter = s.counter := rfl
@[simp] theorem reExec_ret_spends (e : Nat) (sps : List Spend) (se : Nat) (s : CSt) : (reExec e sps se s).ret.spends = sps := rfl

theorem assertNotEphemeral_reExec (e : Nat) (sps : List Spend) (se : Nat) (s : CSt)
    (hlen : sps.length = s.ret.spends.length) :
    assertNotEphemeral (reExec e sps se s) = reExec e sps se (assertNotEphemeral s) := by
  unfold assertNotEphemeral
  simp only [reExec, hlen]
  split <;> rfl

theorem decrement_reExec (env : Env) (e : Nat) (sps : List Spend) (se : Nat) (s : CSt) :
    decrement env (reExec e sps se s) = (decrement env s).map (reExec e sps se) := by
  unfold decrement
  by_cases h1 : hasFlag env.flags Gen.flagCostConditions = true
  · simp only [h1, if_true]; rfl
  · have hc : (reExec e sps se s).countdown = s.countdown := rfl
    by_cases h2 : s.countdown = 0
    · simp only [h1, h2, if_true, if_false, Bool.false_eq_true]; rfl
    · simp only [h1, h2, if_false, Bool.false_eq_true]; rfl

theorem ane_ok_reExec (e : Nat) (sps : List Spend) (se : Nat) (x : CSt) (hlen : sps.length = x.ret.spends.length) :
    (Except.ok (assertNotEphemeral (reExec e sps se x)) : R CSt) = Except.map (reExec e sps se) (Except.ok (assertNotEphemeral x)) :=
  congrArg Except.ok (assertNotEphemeral_reExec e sps se x hlen)

theorem pushAggSig_exec (op : Nat) (sp : Spend) (se : Nat) (x : Bytes × Bytes) :
    pushAggSig op { sp with executionCost := se } x = { pushAggSig op sp x with executionCost := se } := by
  unfold pushAggSig
  repeat' split
  all_goals rfl

theorem applyCond_reExec (env : Env) (e : Nat) (sps : List Spend) (se : Nat) (s : CSt) (c : Cond)
    (hlen : sps.length = s.ret.spends.length) :
    applyCond env (reExec e sps se s) c = (applyCond env s c).map (reExec e sps se) := by
  cases c <;> simp only [applyCond]
  case aggSig op pk msg =>
    cases toKey env pk with
    | error er => (repeat' split) <;> rfl
    | ok k =>
      split
      · (repeat' split) <;> rfl
      · show Except.ok _ = Except.ok _
        simp only [pushAggSig_exec]
        split <;> rfl
  case assertSecondsRelative v =>
    split
    · rfl
    · exact ane_ok_reExec e sps se { s with spend := { s.spend with secondsRelative := optMax s.spend.secondsRelative v } } hlen
  case assertHeightRelative v =>
    split
    · rfl
    · exact ane_ok_reExec e sps se { s with spend := { s.spend with heightRelative := optMax s.spend.heightRelative v } } hlen
  case assertBeforeSecondsRelative v =>
    split
    · rfl
    · exact ane_ok_reExec e sps se { s with spend := { s.spend with beforeSecondsRelative := optMin s.spend.beforeSecondsRelative v } } hlen
  case assertBeforeHeightRelative v =>
    split
    · rfl
    · exact ane_ok_reExec e sps se { s with spend := { s.spend with beforeHeightRelative := optMin s.spend.beforeHeightRelative v } } hlen
  case assertMyBirthSeconds v =>
    split
    · rfl
    · exact ane_ok_reExec e sps se { s with spend := { s.spend with birthSeconds := some v } } hlen
  case assertMyBirthHeight v =>
    split
    · rfl
    · exact ane_ok_reExec e sps se { s with spend := { s.spend with birthHeight := some v } } hlen
  case skipRelativeCondition => exact ane_ok_reExec e sps se s hlen
  all_goals first
    | rfl
    | (rw [decrement_reExec]; cases decrement env s <;> rfl)
    | (split <;> rfl)
    | (simp only [hlen]; rfl)

/-- lift a state transformation over the `(state, budget)` result of a countdown step -/
abbrev liftSt (f : CSt → CSt) (x : R (CSt × Nat)) : R (CSt × Nat) := x.map (fun p => (f p.1, p.2))

theorem addCost_reExec (e : Nat) (sps : List Spend) (se : Nat) (s : CSt) (m c : Nat) :
    addCost (reExec e sps se s) m c = liftSt (reExec e sps se) (addCost s m c) := by
  unfold addCost
  cases charge m c <;> rfl

theorem pureCond_reExec (env : Env) (e : Nat) (sps : List Spend) (se : Nat) (s : CSt) (c : Sexp) (op : Nat)
    (hlen : sps.length = s.ret.spends.length) :
    pureCond env (reExec e sps se s) c op = liftSt (reExec e sps se) (pureCond env s c op) := by
  unfold pureCond
  simp only [bind, Except.bind]
  cases rest c with
  | error er => rfl
  | ok args =>
    simp only
    cases parseArgs args op env.flags with
    | error er => rfl
    | ok cva =>
      simp only
      have := applyCond_reExec env e sps se (visit env s cva) cva hlen
      generalize hx : applyCond env _ cva = x
      generalize hy : applyCond env _ cva = y
      first
        | (have hxy : x = Except.map (reExec e sps se) y := by rw [← hx, ← hy]; exact this
           subst hxy; cases y <;> rfl)
        | (have hxy : y = Except.map (reExec e sps se) x := by rw [← hx, ← hy]; exact this
           subst hxy; cases x <;> rfl)

/-- one condition never touches the list of finished spends -/
theorem stepCond_spends {env : Env} {s : CSt} {m : Nat} {c : Sexp} {s' : CSt} {m' : Nat}
    (h : stepCond env s m c = .ok (s', m')) : s'.ret.spends = s.ret.spends := by
  have hl : condLoop env (.pair c (.atom [])) s m = .ok (s', m') := by
    simp only [condLoop, bind, Except.bind, h]
  exact condLoop_inv env (fun x => x.ret.spends = s.ret.spends) (fun _ _ hx => hx) (fun _ _ hx => hx)
    (fun x x' cva hx ha => by
      obtain ⟨_, _, f3, _⟩ := applyCond_frame env x x' cva ha
      rw [f3]; exact hx) _ s m s' m' hl rfl

theorem stepCond_reExec (env : Env) (e : Nat) (sps : List Spend) (se : Nat) (s : CSt) (m : Nat) (c : Sexp)
    (hlen : sps.length = s.ret.spends.length) :
    stepCond env (reExec e sps se s) m c = liftSt (reExec e sps se) (stepCond env s m c) := by
  unfold stepCond
  cases first c with
  | error er => rfl
  | ok opn =>
    simp only [bind, Except.bind]
    cases parseOpcode opn with
    | none =>
      simp only
      split
      · rfl
      · split
        · exact addCost_reExec _ _ _ _ _ _
        · rfl
    | some op =>
      simp only
      rw [addCost_reExec]
      cases h1 : addCost s m (preCharge env.flags op) with
      | error er => rfl
      | ok p1 =>
        obtain ⟨s1, m1⟩ := p1
        simp only [liftSt, Except.map]
        have hs1 : s1 = bump s (preCharge env.flags op) := (addCost_ok h1).1
        rw [pureCond_reExec env e sps se s1 c op (by rw [hs1]; exact hlen)]
        cases pureCond env s1 c op with
        | error er => rfl
        | ok p2 =>
          obtain ⟨s2, extra⟩ := p2
          simp only [liftSt, Except.map]
          exact addCost_reExec _ _ _ _ _ _

theorem condLoop_reExec (env : Env) (e : Nat) (sps : List Spend) (se : Nat) (t : Sexp) :
    ∀ (s : CSt) (m : Nat), sps.length = s.ret.spends.length →
      condLoop env t (reExec e sps se s) m = liftSt (reExec e sps se) (condLoop env t s m) := by
  induction t with
  | atom b =>
    intro s m _
    cases b with
    | nil => rfl
    | cons x xs => rfl
  | pair c nxt _ ih =>
    intro s m hlen
    simp only [condLoop, bind, Except.bind]
    rw [stepCond_reExec env e sps se s m c hlen]
    cases h1 : stepCond env s m c with
    | error er => rfl
    | ok p1 =>
      obtain ⟨s1, m1⟩ := p1
      simp only [liftSt, Except.map]
      exact ih s1 m1 (by rw [stepCond_spends h1]; exact hlen)

theorem condLoop_spends {env : Env} {t : Sexp} {s : CSt} {m : Nat} {s' : CSt} {m' : Nat}
    (h : condLoop env t s m = .ok (s', m')) : s'.ret.spends = s.ret.spends :=
  condLoop_inv env (fun x => x.ret.spends = s.ret.spends) (fun _ _ hx => hx) (fun _ _ hx => hx)
    (fun x x' cva hx ha => by
      obtain ⟨_, _, f3, _⟩ := applyCond_frame env x x' cva ha
      rw [f3]; exact hx) _ s m s' m' h rfl

/-- the condition loop never touches the bundle-level execution cost -/
theorem condLoop_exec {env : Env} {t : Sexp} {s : CSt} {m : Nat} {s' : CSt} {m' : Nat}
    (h : condLoop env t s m = .ok (s', m')) : s'.ret.executionCost = s.ret.executionCost := by
  have := condLoop_reExec env s.ret.executionCost s.ret.spends s.spend.executionCost t s m rfl
  rw [show reExec s.ret.executionCost s.ret.spends s.spend.executionCost s = s from rfl, h] at this
  simp only [liftSt, Except.map] at this
  injection this with this; injection this with this
  rw [this]

/-! ## bundles up to execution-cost bookkeeping -/

/-- a spend with its `execution_cost` field blanked -/
def eraseExec (sp : Spend) : Spend := { sp with executionCost := 0 }

/-- `ExecRel a b`: the bundles `a` and `b` agree in everything except (possibly) the bundle-level
`executionCost` and the per-spend `executionCost` fields. -/
def ExecRel (a b : Bundle) : Prop :=
  a.spends.map eraseExec = b.spends.map eraseExec ∧
  a = { b with executionCost := a.executionCost, spends := a.spends }

theorem ExecRel.refl (a : Bundle) : ExecRel a a := ⟨rfl, rfl⟩

theorem ExecRel.symm {a b : Bundle} (h : ExecRel a b) : ExecRel b a := by
  obtain ⟨h1, h2⟩ := h
  refine ⟨h1.symm, ?_⟩
  rw [h2]

theorem ExecRel.length {a b : Bundle} (h : ExecRel a b) : a.spends.length = b.spends.length := by
  have := congrArg List.length h.1
  simpa using this

theorem postSpend_exec (env : Env) (sp : Spend) (x : Nat) :
    postSpend env { sp with executionCost := x } = { postSpend env sp with executionCost := x } := by
  unfold postSpend
  split <;> rfl

theorem newSpendVisit_reExec (env : Env) (e : Nat) (sps : List Spend) (se : Nat) (s : CSt) :
    newSpendVisit env (reExec e sps se s) = reExec e sps se (newSpendVisit env s) := by
  unfold newSpendVisit
  split <;> rfl

theorem spendHeader_reExec (ret : Bundle) (st : PState) (parent ph amount : Sexp) (c c' e : Nat) (sps : List Spend) :
    spendHeader { ret with executionCost := e, spends := sps } st parent ph amount c'
      = (spendHeader ret st parent ph amount c).map (reExec e sps c') := by
  unfold spendHeader
  simp only [bind, Except.bind]
  cases sanitizeHash parent 32 with
  | error er => rfl
  | ok a1 =>
    simp only
    cases sanitizeHash ph 32 with
    | error er => rfl
    | ok a2 =>
      simp only
      cases parseAmount amount with
      | error er => rfl
      | ok a3 =>
        simp only
        cases atomOf amount with
        | error er => rfl
        | ok a4 =>
          simp only
          split <;> rfl

theorem addCost_of_le (s : CSt) {m c : Nat} (h : c ≤ m) : addCost s m c = .ok (bump s c, m - c) := by
  unfold addCost charge
  rw [if_neg (by omega)]; rfl

/-- **`processSingleSpend` does not depend on the execution-cost bookkeeping.**  Called with another
`clvmCost` argument on a bundle that differs only in execution-cost fields, it gives the same
verdict, the same parser state and the same remaining budget; the resulting bundles again differ
only in execution-cost fields, and the bundle-level `executionCost` is passed through unchanged. -/
theorem processSingleSpend_execRel {env : Env} {ret ret' : Bundle} {st : PState} {parent ph amount conds : Sexp}
    {c m : Nat} {r1 : Bundle} {st1 : PState} {m1 : Nat} (c' : Nat) (hrel : ExecRel ret' ret)
    (h : processSingleSpend env ret st parent ph amount conds c m = .ok ((r1, st1), m1)) :
    ∃ r1', processSingleSpend env ret' st parent ph amount conds c' m = .ok ((r1', st1), m1) ∧ ExecRel r1' r1 ∧
      r1'.executionCost = ret'.executionCost := by
  obtain ⟨s0, mm, s, hh, hle, hmm, hl, hfin⟩ := processSingleSpend_ok h
  have hlen := hrel.length
  obtain ⟨hsp, hret'⟩ := hrel
  have hs0 : s0.ret.spends = ret.spends := by
    obtain ⟨_, _, _, _, _, _, _, _, _, _, _, rfl⟩ := spendHeader_ok hh
    rfl
  have hbs : (newSpendVisit env (bump s0 (spendCharge env.flags))).ret.spends = ret.spends := by
    rw [← hs0]; unfold newSpendVisit; split <;> rfl
  have hss : s.ret.spends = ret.spends := by rw [condLoop_spends hl, hbs]
  injection hfin with hf1 hf2
  refine ⟨{ s.ret with executionCost := ret'.executionCost,
                       spends := ret'.spends ++ [postSpend env { s.spend with executionCost := c' }] }, ?_, ⟨?_, ?_⟩, rfl⟩
  · rw [hret']
    unfold processSingleSpend
    rw [spendHeader_reExec ret st parent ph amount c c', hh]
    simp only [Except.map, bind, Except.bind]
    rw [addCost_reExec, addCost_of_le _ hle]
    simp only [liftSt, Except.map]
    rw [newSpendVisit_reExec, condLoop_reExec env _ _ _ conds _ _ (by rw [hbs]; exact hlen), ← hmm, hl]
    simp only [liftSt, Except.map, pure, Except.pure, finishSpend, hf2]
  · rw [hf1]
    simp only [List.map_append, List.map_cons, List.map_nil, hss, hsp]
    congr 2
    rw [postSpend_exec]; rfl
  · rw [hf1]

end ChiaModel.Cond
