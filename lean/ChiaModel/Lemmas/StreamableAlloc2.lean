import ChiaModel.Lemmas.StreamableAlloc
/-!
The pre-allocation bound: bytes reserved ahead of parsing (`Vec::with_capacity`) during one decoding run.
-/
namespace ChiaModel.Streamable
open ChiaModel

theorem Res.bind_alloc {α β : Type} (x : Res α) (f : α → Res β) :
    (x.bind f).alloc = x.alloc + match x.out with
      | .ok a => (f a).alloc
      | _ => 0 := by
  unfold Res.bind; cases h : x.out <;> simp

theorem Res.bind_alloc_zero {α β : Type} {x : Res α} {f : α → Res β} (hx : x.alloc = 0) (hf : ∀ a, (f a).alloc = 0) :
    (x.bind f).alloc = 0 := by
  rw [Res.bind_alloc, hx]; cases x.out <;> simp [hf]

theorem readFixed_alloc (s : String) (n : Nat) (b : Bytes) : (readFixed s n b).alloc = 0 := by
  unfold readFixed; split <;> (try split) <;> simp

theorem readByte_alloc (s : String) (b : Bytes) : (readByte s b).alloc = 0 := by
  unfold readByte; split <;> (try split) <;> simp

theorem readUint_alloc (n : Nat) (b : Bytes) : (readUint n b).alloc = 0 :=
  Res.bind_alloc_zero (readFixed_alloc _ _ _) (fun _ => rfl)

/-- a decoder that reserves nothing -/
def NoAlloc (d : Dec) : Prop := ∀ b, (d b).alloc = 0

theorem noAlloc_uint (n : Nat) : NoAlloc (decUint n) := fun b =>
  Res.bind_alloc_zero (readUint_alloc _ _) (fun _ => rfl)
theorem noAlloc_sint (n : Nat) : NoAlloc (decSint n) := fun b =>
  Res.bind_alloc_zero (readUint_alloc _ _) (fun _ => rfl)
theorem noAlloc_bool : NoAlloc decBool := fun b =>
  Res.bind_alloc_zero (readByte_alloc _ _) (fun a => by split <;> (try split) <;> simp)
theorem noAlloc_unit : NoAlloc decUnit := fun _ => rfl
theorem noAlloc_lenPrefixed (ok : Bytes → Bool) : NoAlloc (decLenPrefixed ok) := fun b =>
  Res.bind_alloc_zero (readUint_alloc _ _) (fun a => by split <;> (try split) <;> simp)
theorem noAlloc_bytes : NoAlloc decBytes := noAlloc_lenPrefixed _
theorem noAlloc_opaque (s : String) (n : Nat) (valid : Bytes → Bool) : NoAlloc (decOpaque s n valid) := fun b =>
  Res.bind_alloc_zero (readFixed_alloc _ _ _) (fun a => by split <;> simp)
theorem noAlloc_bytesN (n : Nat) : NoAlloc (decBytesN n) := fun b =>
  Res.bind_alloc_zero (readFixed_alloc _ _ _) (fun _ => rfl)
theorem noAlloc_enum (vals : List Nat) : NoAlloc (decEnum vals) := fun b =>
  Res.bind_alloc_zero (readUint_alloc _ _) (fun a => by split <;> simp)
theorem noAlloc_program (O : Oracles) (tr : Bool) : NoAlloc (decProgram O tr) := fun b => by
  unfold decProgram; split <;> (try split) <;> (try split) <;> simp
theorem noAlloc_option {f : Dec} (h : NoAlloc f) : NoAlloc (decOption f) := fun b =>
  Res.bind_alloc_zero (readByte_alloc _ _) (fun a => by
    split
    · simp
    · split
      · exact Res.bind_alloc_zero (h _) (fun _ => rfl)
      · simp)
theorem noAlloc_present {p : Bool} {f : Dec} (h : NoAlloc f) : NoAlloc (decPresent p f) := fun b => by
  unfold decPresent; split
  · exact Res.bind_alloc_zero (h _) (fun _ => rfl)
  · simp

theorem noAlloc_pos (O : Oracles) (tr : Bool) : NoAlloc (decPos O tr) := fun b => by
  unfold decPos
  refine Res.bind_alloc_zero (noAlloc_bytesN 32 _) fun ch => ?_
  refine Res.bind_alloc_zero (noAlloc_option (noAlloc_opaque _ _ _) _) fun pp => ?_
  refine Res.bind_alloc_zero (readUint_alloc _ _) fun px => ?_
  refine Res.bind_alloc_zero (noAlloc_present (noAlloc_bytesN 32) _) fun ct => ?_
  refine Res.bind_alloc_zero (noAlloc_opaque _ _ _ _) fun pk => ?_
  split
  · refine Res.bind_alloc_zero (noAlloc_uint 1 _) fun sz => ?_
    exact Res.bind_alloc_zero (noAlloc_lenPrefixed _ _) fun _ => rfl
  · split
    · refine Res.bind_alloc_zero (noAlloc_uint 2 _) fun pi => ?_
      refine Res.bind_alloc_zero (noAlloc_uint 1 _) fun mg => ?_
      refine Res.bind_alloc_zero (noAlloc_uint 1 _) fun st => ?_
      refine Res.bind_alloc_zero (noAlloc_lenPrefixed _ _) fun pf => ?_
      split <;> simp
    · simp

/-- `F`: bytes reserved per consumed byte on an accepting run; `D`: additional 2 MiB caps on any run -/
structure AllocOK (d : Dec) (F D : Nat) : Prop where
  ok : ∀ b v r, (d b).out = .ok (v, r) → r.length ≤ b.length ∧ (d b).alloc + F * r.length ≤ F * b.length
  any : ∀ b, (d b).alloc ≤ F * b.length + D * allocCap

structure AllocOKL (d : Bytes → Res (List V × Bytes)) (F D : Nat) : Prop where
  ok : ∀ b vs r, (d b).out = .ok (vs, r) → r.length ≤ b.length ∧ (d b).alloc + F * r.length ≤ F * b.length
  any : ∀ b, (d b).alloc ≤ F * b.length + D * allocCap

theorem suffix_len {b p r : Bytes} (h : b = p ++ r) : r.length ≤ b.length := by subst h; simp

theorem allocOK_of_noAlloc {d : Dec} (hz : NoAlloc d) (ht : Total d) (F D : Nat) : AllocOK d F D where
  ok := by
    intro b v r h
    obtain ⟨p, hp⟩ := ht.pre b v r h
    have := suffix_len hp
    exact ⟨this, by rw [hz b, Nat.zero_add]; exact Nat.mul_le_mul_left F this⟩
  any := by intro b; rw [hz b]; exact Nat.zero_le _

theorem AllocOK.mono {d : Dec} {F D F' D' : Nat} (h : AllocOK d F D) (hF : F ≤ F') (hD : D ≤ D') : AllocOK d F' D' where
  ok := by
    intro b v r hd
    obtain ⟨h1, h2⟩ := h.ok b v r hd
    refine ⟨h1, ?_⟩
    obtain ⟨k, rfl⟩ := Nat.exists_eq_add_of_le hF
    obtain ⟨c, hc⟩ := Nat.exists_eq_add_of_le h1
    rw [hc] at h2 ⊢
    simp only [Nat.add_mul, Nat.mul_add] at h2 ⊢
    omega
  any := by
    intro b
    have := h.any b
    have h1 : F * b.length ≤ F' * b.length := Nat.mul_le_mul_right _ hF
    have h2 : D * allocCap ≤ D' * allocCap := Nat.mul_le_mul_right _ hD
    omega

/-- sequencing: first `d1`, then `d2` on the rest -/
theorem alloc_seq {F1 F2 : Nat} {a1 a2 lb lr1 lr : Nat}
    (h1 : lr1 ≤ lb ∧ a1 + F1 * lr1 ≤ F1 * lb) (h2 : lr ≤ lr1 ∧ a2 + F2 * lr ≤ F2 * lr1) :
    lr ≤ lb ∧ a1 + a2 + (F1 + F2) * lr ≤ (F1 + F2) * lb := by
  obtain ⟨c1, hc1⟩ := Nat.exists_eq_add_of_le h1.1
  obtain ⟨c2, hc2⟩ := Nat.exists_eq_add_of_le h2.1
  refine ⟨by omega, ?_⟩
  have e1 := h1.2
  have e2 := h2.2
  rw [hc1] at e1 ⊢
  rw [hc2] at e1 e2 ⊢
  simp only [Nat.add_mul, Nat.mul_add] at e1 e2 ⊢
  omega

theorem alloc_seq_any {F1 F2 D : Nat} {a1 a2 lb lr1 : Nat}
    (h1 : lr1 ≤ lb ∧ a1 + F1 * lr1 ≤ F1 * lb) (h2 : a2 ≤ F2 * lr1 + D * allocCap) :
    a1 + a2 ≤ (F1 + F2) * lb + D * allocCap := by
  obtain ⟨c1, hc1⟩ := Nat.exists_eq_add_of_le h1.1
  have e1 := h1.2
  rw [hc1] at e1 ⊢
  simp only [Nat.add_mul, Nat.mul_add] at e1 ⊢
  omega

/-! ### Option -/

theorem allocOK_option {f : Dec} {F D : Nat} (h : AllocOK f F D) : AllocOK (decOption f) F D where
  ok := by
    intro b v r hd
    have hal : (decOption f b).alloc = match b with
        | k :: b' => if k = 1 then (f b').alloc else 0
        | [] => 0 := by
      unfold decOption
      rw [Res.bind_alloc, readByte_alloc, Nat.zero_add]
      cases b with
      | nil => simp [readByte, readBytes, ClvmScan.lenGe]
      | cons k b' =>
        have : (readByte siteOption (k :: b')).out = .ok (k, b') := readByte_ok.mpr rfl
        rw [this]
        simp only
        by_cases h0 : k = 0
        · subst h0; simp
        · by_cases h1 : k = 1
          · subst h1
            simp only [if_neg h0, if_true]
            rw [Res.bind_alloc]; cases (f b').out <;> simp
          · simp [if_neg h0, if_neg h1]
    rcases decOption_ok.mp hd with ⟨rfl, _⟩ | ⟨b', x, rfl, hf, _⟩
    · rw [hal]; simp
      exact Nat.mul_le_mul_left F (Nat.le_succ _)
    · obtain ⟨h1, h2⟩ := h.ok b' x r hf
      rw [hal]; simp only [if_true, List.length_cons]
      refine ⟨by omega, ?_⟩
      rw [Nat.mul_succ]; omega
  any := by
    intro b
    unfold decOption
    rw [Res.bind_alloc, readByte_alloc, Nat.zero_add]
    cases b with
    | nil => simp [readByte, readBytes, ClvmScan.lenGe]
    | cons k b' =>
      have : (readByte siteOption (k :: b')).out = .ok (k, b') := readByte_ok.mpr rfl
      rw [this]
      simp only
      split
      · simp
      · split
        · rw [Res.bind_alloc]
          have := h.any b'
          simp only [List.length_cons, Nat.mul_succ]
          cases (f b').out <;> simp <;> omega
        · simp

/-! ### repetition, Vec, arrays -/

theorem repeatN_alloc_ok {f : Dec} {F D : Nat} (h : AllocOK f F D) :
    ∀ n b vs r, (repeatN f n b).out = .ok (vs, r) →
      r.length ≤ b.length ∧ (repeatN f n b).alloc + F * r.length ≤ F * b.length := by
  intro n
  induction n with
  | zero =>
    intro b vs r hd
    rw [repeatN_zero] at hd
    injection hd with hd; injection hd with _ e2; subst e2
    simp [repeatN]
  | succ n ih =>
    intro b vs r hd
    obtain ⟨v, r1, l', h1, h2, rfl⟩ := repeatN_succ_ok.mp hd
    have a1 := h.ok b v r1 h1
    have a2 := ih r1 l' r h2
    have hal : (repeatN f (n + 1) b).alloc = (f b).alloc + (repeatN f n r1).alloc := by
      rw [repeatN, Res.bind_alloc, h1]
      simp only
      rw [Res.bind_alloc, h2]
      simp
    rw [hal]
    refine ⟨Nat.le_trans a2.1 a1.1, ?_⟩
    obtain ⟨c1, hc1⟩ := Nat.exists_eq_add_of_le a1.1
    obtain ⟨c2, hc2⟩ := Nat.exists_eq_add_of_le a2.1
    have e1 := a1.2
    have e2 := a2.2
    rw [hc1] at e1 ⊢
    rw [hc2] at e1 e2 ⊢
    simp only [Nat.mul_add] at e1 e2 ⊢
    omega

theorem repeatN_alloc_any {f : Dec} {F D : Nat} (h : AllocOK f F D) :
    ∀ n b, (repeatN f n b).alloc ≤ F * b.length + D * allocCap := by
  intro n
  induction n with
  | zero => intro b; simp [repeatN]
  | succ n ih =>
    intro b
    rw [repeatN, Res.bind_alloc]
    cases h1 : (f b).out with
    | err => simp only; have := h.any b; omega
    | panic s => simp only; have := h.any b; omega
    | ok vr =>
      obtain ⟨v, r1⟩ := vr
      simp only
      have a1 := h.ok b v r1 h1
      have a2 := ih r1
      have hle : ((repeatN f n r1).bind fun lr => Res.pure (v :: lr.1, lr.2)).alloc = (repeatN f n r1).alloc := by
        rw [Res.bind_alloc]; cases (repeatN f n r1).out <;> simp
      rw [hle]
      obtain ⟨c1, hc1⟩ := Nat.exists_eq_add_of_le a1.1
      have e1 := a1.2
      rw [hc1] at e1 ⊢
      simp only [Nat.mul_add] at e1 ⊢
      omega

theorem reservation_le_cap (sz len : Nat) : reservation sz len ≤ allocCap := by
  unfold reservation
  split
  · exact Nat.zero_le _
  · calc min (allocCap / sz) len * sz ≤ allocCap / sz * sz := Nat.mul_le_mul_right _ (Nat.min_le_left _ _)
      _ ≤ allocCap := Nat.div_mul_le_self _ _

theorem reservation_le_len (sz len : Nat) : reservation sz len ≤ len * sz := by
  unfold reservation
  split
  · exact Nat.zero_le _
  · exact Nat.mul_le_mul_right _ (Nat.min_le_right _ _)

theorem decVec_alloc_eq (sz : Nat) (f : Dec) (l rest : Bytes) (hl : l.length = 4) :
    (decVec sz f (l ++ rest)).alloc = reservation sz (beVal l) + (repeatN f (beVal l) rest).alloc := by
  unfold decVec
  have h1 : (readUint 4 (l ++ rest)).out = .ok (beVal l, rest) := readUint_ok.mpr ⟨l, rfl, hl, rfl⟩
  rw [Res.bind_alloc, readUint_alloc, h1, Nat.zero_add]
  simp only
  rw [Res.bind_alloc]
  simp only [Res.reserve_alloc, Res.reserve_out]
  rw [Res.bind_alloc]
  cases (repeatN f (beVal l) rest).out <;> simp

theorem allocOK_vec {sz : Nat} {f : Dec} {F D : Nat} (h : AllocOK f F D) (hc : Consumes f 1) :
    AllocOK (decVec sz f) (sz + F) (D + 1) where
  ok := by
    intro b v r hd
    obtain ⟨l, rest, vs, rfl, hl, hrep, _⟩ := decVec_ok.mp hd
    obtain ⟨a1, a2⟩ := repeatN_alloc_ok h _ rest vs r hrep
    obtain ⟨c1, _⟩ := consumes_repeat hc _ rest vs r hrep
    rw [decVec_alloc_eq sz f l rest hl]
    have hres := reservation_le_len sz (beVal l)
    simp only [List.length_append, hl, Nat.mul_one] at c1 ⊢
    refine ⟨by omega, ?_⟩
    obtain ⟨k, hk⟩ := Nat.exists_eq_add_of_le a1
    have hn : beVal l ≤ k := by omega
    have : beVal l * sz ≤ k * sz := Nat.mul_le_mul_right _ hn
    rw [hk] at a2 ⊢
    simp only [Nat.add_mul, Nat.mul_add] at a2 ⊢
    rw [Nat.mul_comm k sz] at this
    omega
  any := by
    intro b
    by_cases h4 : 4 ≤ b.length
    · obtain ⟨l, rest, rfl, hl⟩ : ∃ l rest, b = l ++ rest ∧ l.length = 4 :=
        ⟨b.take 4, b.drop 4, (List.take_append_drop 4 b).symm, by simp [List.length_take]; omega⟩
      rw [decVec_alloc_eq sz f _ _ hl]
      have r1 := reservation_le_cap sz (beVal l)
      have r2 := repeatN_alloc_any h (beVal l) rest
      have hlen : rest.length ≤ (l ++ rest).length := by simp
      have h3 : F * rest.length ≤ F * (l ++ rest).length := Nat.mul_le_mul_left _ hlen
      have e : (sz + F) * (l ++ rest).length + (D + 1) * allocCap =
          sz * (l ++ rest).length + F * (l ++ rest).length + D * allocCap + allocCap := by
        simp only [Nat.add_mul, Nat.one_mul]; omega
      rw [e]
      omega
    · have : (readUint 4 b).out = .err := by
        cases hr : (readUint 4 b).out with
        | err => rfl
        | panic s => exact absurd hr (readUint_no_panic _ _ _)
        | ok xr =>
          obtain ⟨x, r⟩ := xr
          obtain ⟨c, rfl, hl, _⟩ := readUint_ok.mp hr
          simp [hl] at h4
      unfold decVec
      rw [Res.bind_alloc, readUint_alloc, this]
      simp

theorem allocOK_array {n : Nat} {f : Dec} {F D : Nat} (h : AllocOK f F D) : AllocOK (decArray n f) F D where
  ok := by
    intro b v r hd
    obtain ⟨vs, hrep, _⟩ := decArray_ok.mp hd
    have := repeatN_alloc_ok h n b vs r hrep
    have hal : (decArray n f b).alloc = (repeatN f n b).alloc := by
      unfold decArray; rw [Res.bind_alloc]; cases (repeatN f n b).out <;> simp
    rw [hal]; exact this
  any := by
    intro b
    have hal : (decArray n f b).alloc = (repeatN f n b).alloc := by
      unfold decArray; rw [Res.bind_alloc]; cases (repeatN f n b).out <;> simp
    rw [hal]; exact repeatN_alloc_any h n b

end ChiaModel.Streamable
