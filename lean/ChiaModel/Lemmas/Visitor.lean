import ChiaModel.Lemmas.PermLoop
import ChiaModel.Lemmas.ExecCost
/-
The mempool visitor only ever touches the two eligibility bits of a spend's `flags`
(ELIGIBLE_FOR_DEDUP = 1, ELIGIBLE_FOR_FF = 4); the condition loop itself reads and writes only the
HAS_RELATIVE_CONDITION bit (2).  Consequence: running the condition loop with the empty visitor on a
state whose spend flags are masked to bit 2 (and whose finished-spends list / bundle execution cost
are replaced) commutes with running it with the mempool visitor.
-/
namespace ChiaModel.Cond

/-- the environment of the block paths: same flags and key validity, empty visitor -/
abbrev blockEnv (env : Env) : Env := { env with mempool := false }

/-- what the empty visitor leaves of a spend's flags: the HAS_RELATIVE_CONDITION bit -/
def blockSpend (sp : Spend) : Spend := { sp with flags := sp.flags &&& HAS_RELATIVE_CONDITION }

/-- mask the spend flags to HAS_RELATIVE_CONDITION; overwrite the bundle execution cost and the
finished-spends list -/
abbrev blk (e : Nat) (sps : List Spend) (s : CSt) : CSt :=
  { s with ret := { s.ret with executionCost := e, spends := sps },
           spend := { s.spend with flags := s.spend.flags &&& HAS_RELATIVE_CONDITION } }

theorem clearFlag_ff_and2 (f : Nat) : clearFlag f ELIGIBLE_FOR_FF &&& HAS_RELATIVE_CONDITION = f &&& HAS_RELATIVE_CONDITION := by
  rw [← clr_ft]; exact clr_and_two _ _

theorem clearFlag_dedup_and2 (f : Nat) : clearFlag f ELIGIBLE_FOR_DEDUP &&& HAS_RELATIVE_CONDITION = f &&& HAS_RELATIVE_CONDITION := by
  rw [← clr_tf]; exact clr_and_two _ _

theorem visitCondition_and2 (env : Env) (n f : Nat) (c : Cond) :
    visitCondition env n f c &&& HAS_RELATIVE_CONDITION = f &&& HAS_RELATIVE_CONDITION := by
  rw [visitCondition_eq]; exact clr_and_two _ _

theorem and2_and2 (f : Nat) : (f &&& HAS_RELATIVE_CONDITION) &&& HAS_RELATIVE_CONDITION = f &&& HAS_RELATIVE_CONDITION := by
  rw [Nat.and_assoc, Nat.and_self]

theorem add2_and2 (f : Nat) (h : f &&& HAS_RELATIVE_CONDITION = 0) :
    (f + HAS_RELATIVE_CONDITION) &&& HAS_RELATIVE_CONDITION = (f &&& HAS_RELATIVE_CONDITION) + HAS_RELATIVE_CONDITION := by
  unfold HAS_RELATIVE_CONDITION at h ⊢
  rw [and_two] at h ⊢
  rw [and_two]
  omega

theorem assertNotEphemeral_blk (e : Nat) (sps : List Spend) (s : CSt) (hlen : sps.length = s.ret.spends.length) :
    assertNotEphemeral (blk e sps s) = blk e sps (assertNotEphemeral s) := by
  unfold assertNotEphemeral
  simp only [and2_and2, hlen]
  by_cases h : s.spend.flags &&& HAS_RELATIVE_CONDITION ≠ 0
  · rw [if_pos h, if_pos h]
  · rw [if_neg h, if_neg h]
    have h0 : s.spend.flags &&& HAS_RELATIVE_CONDITION = 0 := by
      cases hh : s.spend.flags &&& HAS_RELATIVE_CONDITION with
      | zero => rfl
      | succ n => exact absurd (by rw [hh]; exact Nat.succ_ne_zero n) h
    rw [← add2_and2 _ h0]

theorem decrement_blk (env : Env) (e : Nat) (sps : List Spend) (s : CSt) :
    decrement env (blk e sps s) = (decrement env s).map (blk e sps) := by
  unfold decrement
  by_cases h1 : hasFlag env.flags Gen.flagCostConditions = true
  · simp only [h1, if_true]; rfl
  · by_cases h2 : s.countdown = 0
    · simp only [h1, h2, if_true, if_false, Bool.false_eq_true]; rfl
    · simp only [h1, h2, if_false, Bool.false_eq_true]; rfl

theorem ane_ok_blk (e : Nat) (sps : List Spend) (x : CSt) (hlen : sps.length = x.ret.spends.length) :
    (Except.ok (assertNotEphemeral (blk e sps x)) : R CSt) = Except.map (blk e sps) (Except.ok (assertNotEphemeral x)) :=
  congrArg Except.ok (assertNotEphemeral_blk e sps x hlen)

theorem pushAggSig_flags (op : Nat) (sp : Spend) (fl : Nat) (x : Bytes × Bytes) :
    pushAggSig op { sp with flags := fl } x = { pushAggSig op sp x with flags := fl } := by
  unfold pushAggSig
  repeat' split
  all_goals rfl

theorem pushAggSig_flags_eq (op : Nat) (sp : Spend) (x : Bytes × Bytes) : (pushAggSig op sp x).flags = sp.flags := by
  unfold pushAggSig
  repeat' split
  all_goals rfl

/-- the effect of a parsed condition commutes with masking the spend flags -/
theorem applyCond_blk (env : Env) (e : Nat) (sps : List Spend) (s : CSt) (c : Cond)
    (hlen : sps.length = s.ret.spends.length) :
    applyCond env (blk e sps s) c = (applyCond env s c).map (blk e sps) := by
  cases c <;> simp only [applyCond]
  case aggSig op pk msg =>
    cases toKey env pk with
    | error er => (repeat' split) <;> rfl
    | ok k =>
      split
      · (repeat' split) <;> rfl
      · show Except.ok _ = Except.ok _
        simp only [pushAggSig_flags]
        split <;> simp only [blk, pushAggSig_flags_eq] <;> rfl
  case assertSecondsRelative v =>
    split
    · rfl
    · exact ane_ok_blk e sps { s with spend := { s.spend with secondsRelative := optMax s.spend.secondsRelative v } } hlen
  case assertHeightRelative v =>
    split
    · rfl
    · exact ane_ok_blk e sps { s with spend := { s.spend with heightRelative := optMax s.spend.heightRelative v } } hlen
  case assertBeforeSecondsRelative v =>
    split
    · rfl
    · exact ane_ok_blk e sps { s with spend := { s.spend with beforeSecondsRelative := optMin s.spend.beforeSecondsRelative v } } hlen
  case assertBeforeHeightRelative v =>
    split
    · rfl
    · exact ane_ok_blk e sps { s with spend := { s.spend with beforeHeightRelative := optMin s.spend.beforeHeightRelative v } } hlen
  case assertMyBirthSeconds v =>
    split
    · rfl
    · exact ane_ok_blk e sps { s with spend := { s.spend with birthSeconds := some v } } hlen
  case assertMyBirthHeight v =>
    split
    · rfl
    · exact ane_ok_blk e sps { s with spend := { s.spend with birthHeight := some v } } hlen
  case skipRelativeCondition => exact ane_ok_blk e sps s hlen
  all_goals first
    | rfl
    | (rw [decrement_blk]; cases decrement env s <;> rfl)
    | (split <;> rfl)
    | (simp only [hlen]; rfl)

/-- `applyCond` never looks at the visitor -/
theorem applyCond_blockEnv (env : Env) (s : CSt) (c : Cond) : applyCond (blockEnv env) s c = applyCond env s c := by
  cases c <;> rfl

theorem addCost_blk (e : Nat) (sps : List Spend) (s : CSt) (m c : Nat) :
    addCost (blk e sps s) m c = liftSt (blk e sps) (addCost s m c) := by
  unfold addCost
  cases charge m c <;> rfl

theorem visitCondition_block (env : Env) (n f : Nat) (c : Cond) : visitCondition (blockEnv env) n f c = f := by
  unfold visitCondition; simp

theorem visit_blk (env : Env) (e : Nat) (sps : List Spend) (s : CSt) (cva : Cond) :
    visit (blockEnv env) (blk e sps s) cva = blk e sps (visit env s cva) := by
  simp only [visit, visitCondition_block, blk, visitCondition_and2]

theorem pureCond_blk (env : Env) (e : Nat) (sps : List Spend) (s : CSt) (c : Sexp) (op : Nat)
    (hlen : sps.length = s.ret.spends.length) :
    pureCond (blockEnv env) (blk e sps s) c op = liftSt (blk e sps) (pureCond env s c op) := by
  unfold pureCond
  simp only [bind, Except.bind]
  cases rest c with
  | error er => rfl
  | ok args =>
    simp only
    cases parseArgs args op env.flags with
    | error er => rfl
    | ok cva =>
      simp only
      have := applyCond_blk env e sps (visit env s cva) cva hlen
      rw [← applyCond_blockEnv, ← visit_blk] at this
      generalize hx : applyCond _ _ cva = x
      generalize hy : applyCond _ _ cva = y
      first
        | (have hxy : x = Except.map (blk e sps) y := by rw [← hx, ← hy]; exact this
           subst hxy; cases y <;> rfl)
        | (have hxy : y = Except.map (blk e sps) x := by rw [← hx, ← hy]; exact this
           subst hxy; cases x <;> rfl)

theorem stepCond_blk (env : Env) (e : Nat) (sps : List Spend) (s : CSt) (m : Nat) (c : Sexp)
    (hlen : sps.length = s.ret.spends.length) :
    stepCond (blockEnv env) (blk e sps s) m c = liftSt (blk e sps) (stepCond env s m c) := by
  unfold stepCond
  cases first c with
  | error er => rfl
  | ok opn =>
    simp only [bind, Except.bind]
    cases parseOpcode opn with
    | none =>
      simp only
      split
      · rfl
      · split
        · exact addCost_blk _ _ _ _ _
        · rfl
    | some op =>
      simp only
      rw [addCost_blk]
      cases h1 : addCost s m (preCharge env.flags op) with
      | error er => rfl
      | ok p1 =>
        obtain ⟨s1, m1⟩ := p1
        simp only [liftSt, Except.map]
        have hs1 : s1 = bump s (preCharge env.flags op) := (addCost_ok h1).1
        rw [pureCond_blk env e sps s1 c op (by rw [hs1]; exact hlen)]
        cases pureCond env s1 c op with
        | error er => rfl
        | ok p2 =>
          obtain ⟨s2, extra⟩ := p2
          simp only [liftSt, Except.map]
          exact addCost_blk _ _ _ _ _

theorem condLoop_blk (env : Env) (e : Nat) (sps : List Spend) (t : Sexp) :
    ∀ (s : CSt) (m : Nat), sps.length = s.ret.spends.length →
      condLoop (blockEnv env) t (blk e sps s) m = liftSt (blk e sps) (condLoop env t s m) := by
  induction t with
  | atom b =>
    intro s m _
    cases b with
    | nil => rfl
    | cons x xs => rfl
  | pair c nxt _ ih =>
    intro s m hlen
    simp only [condLoop, bind, Except.bind]
    rw [stepCond_blk env e sps s m c hlen]
    cases h1 : stepCond env s m c with
    | error er => rfl
    | ok p1 =>
      obtain ⟨s1, m1⟩ := p1
      simp only [liftSt, Except.map]
      exact ih s1 m1 (by rw [stepCond_spends h1]; exact hlen)

/-! ## one spend -/

/-- `processSingleSpend` without its last step (`finishSpend`) -/
def processCore (env : Env) (ret : Bundle) (st : PState) (parent ph amount conds : Sexp)
    (clvmCost maxCost : Nat) : R (CSt × Nat) :=
  match spendHeader ret st parent ph amount clvmCost with
  | .error e => .error e
  | .ok s0 => do
    let (s0, m) ← addCost s0 maxCost (spendCharge env.flags)
    condLoop env conds (newSpendVisit env s0) m

theorem processSingleSpend_core (env : Env) (ret : Bundle) (st : PState) (parent ph amount conds : Sexp) (c m : Nat) :
    processSingleSpend env ret st parent ph amount conds c m =
      (processCore env ret st parent ph amount conds c m).map (fun p => (finishSpend env p.1, p.2)) := by
  unfold processSingleSpend processCore
  cases spendHeader ret st parent ph amount c with
  | error e => rfl
  | ok s0 =>
    simp only [bind, Except.bind]
    cases addCost s0 m (spendCharge env.flags) with
    | error e => rfl
    | ok q =>
      simp only
      cases condLoop env conds (newSpendVisit env q.1) q.2 with
      | error e => rfl
      | ok r => rfl

theorem processCore_spends {env : Env} {ret : Bundle} {st : PState} {parent ph amount conds : Sexp} {c m : Nat}
    {s : CSt} {m' : Nat} (h : processCore env ret st parent ph amount conds c m = .ok (s, m')) :
    s.ret.spends = ret.spends := by
  unfold processCore at h
  cases hh : spendHeader ret st parent ph amount c with
  | error e => rw [hh] at h; cases h
  | ok s0 =>
    rw [hh] at h; simp only at h
    obtain ⟨⟨s1, m1⟩, ha, h⟩ := bind_ok h
    obtain ⟨a1, _, _⟩ := addCost_ok ha
    rw [condLoop_spends h]
    obtain ⟨_, _, _, _, _, _, _, _, _, _, _, rfl⟩ := spendHeader_ok hh
    subst a1
    unfold newSpendVisit; split <;> rfl

theorem processCore_exec {env : Env} {ret : Bundle} {st : PState} {parent ph amount conds : Sexp} {c m : Nat}
    {s : CSt} {m' : Nat} (h : processCore env ret st parent ph amount conds c m = .ok (s, m')) :
    s.ret.executionCost = ret.executionCost := by
  unfold processCore at h
  cases hh : spendHeader ret st parent ph amount c with
  | error e => rw [hh] at h; cases h
  | ok s0 =>
    rw [hh] at h; simp only at h
    obtain ⟨⟨s1, m1⟩, ha, h⟩ := bind_ok h
    obtain ⟨a1, _, _⟩ := addCost_ok ha
    rw [condLoop_exec h]
    obtain ⟨_, _, _, _, _, _, _, _, _, _, _, rfl⟩ := spendHeader_ok hh
    subst a1
    unfold newSpendVisit; split <;> rfl

theorem spendHeader_blk (ret : Bundle) (st : PState) (parent ph amount : Sexp) (c e : Nat) (sps : List Spend) :
    spendHeader { ret with executionCost := e, spends := sps } st parent ph amount c
      = (spendHeader ret st parent ph amount c).map (blk e sps) := by
  rw [spendHeader_reExec ret st parent ph amount c c e sps]
  cases hh : spendHeader ret st parent ph amount c with
  | error er => rfl
  | ok s0 =>
    obtain ⟨_, _, _, _, _, _, _, _, _, _, _, rfl⟩ := spendHeader_ok hh
    have h0 : (0 : Nat) &&& HAS_RELATIVE_CONDITION = 0 := by decide
    simp only [Except.map, blk, reExec, h0]

theorem spendHeader_flags {ret : Bundle} {st : PState} {parent ph amount : Sexp} {c : Nat} {s0 : CSt}
    (h : spendHeader ret st parent ph amount c = .ok s0) : s0.spend.flags = 0 := by
  obtain ⟨_, _, _, _, _, _, _, _, _, _, _, rfl⟩ := spendHeader_ok h
  rfl

theorem newSpendVisit_blk (env : Env) (e : Nat) (sps : List Spend) (s : CSt) (hf : s.spend.flags = 0) :
    newSpendVisit (blockEnv env) (blk e sps s) = blk e sps (newSpendVisit env s) := by
  unfold newSpendVisit
  simp only [Bool.false_eq_true, if_false]
  have h5 : (0 + ELIGIBLE_FOR_DEDUP + ELIGIBLE_FOR_FF) &&& HAS_RELATIVE_CONDITION = 0 := by decide
  have h1 : (0 + ELIGIBLE_FOR_DEDUP + 0) &&& HAS_RELATIVE_CONDITION = 0 := by decide
  have h0 : (0 : Nat) &&& HAS_RELATIVE_CONDITION = 0 := by decide
  split
  · simp only [hf]
    split <;> simp only [blk, hf, h5, h1, h0]
  · rfl

/-- the per-spend computation under the empty visitor, on the masked/overwritten state, is the
mempool-visitor computation followed by masking -/
theorem processCore_blk (env : Env) (ret : Bundle) (st : PState) (parent ph amount conds : Sexp) (c m e : Nat)
    (sps : List Spend) (hlen : sps.length = ret.spends.length) :
    processCore (blockEnv env) { ret with executionCost := e, spends := sps } st parent ph amount conds c m
      = liftSt (blk e sps) (processCore env ret st parent ph amount conds c m) := by
  unfold processCore
  rw [spendHeader_blk]
  cases hh : spendHeader ret st parent ph amount c with
  | error er => rfl
  | ok s0 =>
    simp only [Except.map, bind, Except.bind]
    rw [addCost_blk]
    cases ha : addCost s0 m (spendCharge env.flags) with
    | error er => rfl
    | ok q =>
      obtain ⟨s1, m1⟩ := q
      simp only [liftSt, Except.map]
      obtain ⟨a1, _, _⟩ := addCost_ok ha
      have hf : s1.spend.flags = 0 := by rw [a1]; exact (spendHeader_flags hh : s0.spend.flags = 0)
      have hs : (newSpendVisit env s1).ret.spends = ret.spends := by
        obtain ⟨_, _, _, _, _, _, _, _, _, _, _, rfl⟩ := spendHeader_ok hh
        subst a1
        unfold newSpendVisit; split <;> rfl
      rw [newSpendVisit_blk env e sps s1 hf]
      exact condLoop_blk env e sps conds _ m1 (by rw [hs]; exact hlen)

theorem postSpend_blockSpend (env : Env) (sp : Spend) :
    postSpend (blockEnv env) { sp with flags := sp.flags &&& HAS_RELATIVE_CONDITION } = blockSpend (postSpend env sp) := by
  unfold postSpend blockSpend
  simp only [Bool.not_false, if_true]
  split
  · rfl
  · simp only
    congr 1
    split <;> split <;> simp only [clearFlag_ff_and2, clearFlag_dedup_and2]

end ChiaModel.Cond
