import ChiaModel.Lemmas.BlobGraft
/-
C18: `insert` on the index-level model refines `Tree.insert` (structural invariant + abstraction).
-/
namespace ChiaModel.Blob
open List M

/-! ### list helpers -/

theorem inj_of_nodup_map {α β : Type} (f : α → β) (l : List α) (hn : (l.map f).Nodup) :
    ∀ x ∈ l, ∀ y ∈ l, f x = f y → x = y := by
  induction l with
  | nil => intro x hx; cases hx
  | cons a l ih =>
    simp only [List.map_cons, List.nodup_cons] at hn
    intro x hx y hy hxy
    rcases List.mem_cons.mp hx with e1 | e1 <;> rcases List.mem_cons.mp hy with e2 | e2
    · rw [e1, e2]
    · subst e1; exact absurd (hxy ▸ List.mem_map_of_mem (f := f) e2) hn.1
    · subst e2; exact absurd (hxy ▸ List.mem_map_of_mem (f := f) e1) hn.1
    · exact ih hn.2 x e1 y e2 hxy

theorem IT.leaves_idx_sublist (t : IT) : (t.leaves.map (·.1)).Sublist t.indices := by
  induction t with
  | leaf i k v h => simp [IT.leaves, IT.indices]
  | node i l r ihl ihr =>
    simp only [IT.leaves, IT.indices, List.map_append]
    exact List.Sublist.cons _ (List.Sublist.append ihl ihr)

theorem mapInsert_perm_new {κ : Type} [DecidableEq κ] (m : List (κ × Nat)) (k : κ) (i : Nat)
    (h : mapGet m k = none) : mapInsert m k i ~ (k, i) :: m := by
  have : m.filter (fun e => e.1 ≠ k) = m := by
    rw [List.filter_eq_self]
    intro e he
    simp only [ne_eq, decide_eq_true_eq]
    exact (mapGet_none_iff m k).mp h e he
  simp only [mapInsert, this]
  exact List.Perm.refl _

theorem mapInsert_perm_same {κ : Type} [DecidableEq κ] (m : List (κ × Nat)) (k : κ) (i : Nat)
    (hn : (m.map (·.1)).Nodup) (h : (k, i) ∈ m) : mapInsert m k i ~ m := by
  induction m with
  | nil => cases h
  | cons x m ih =>
    obtain ⟨k', i'⟩ := x
    simp only [List.map_cons, List.nodup_cons] at hn
    rcases List.mem_cons.mp h with e | e
    · injection e with e1 e2
      subst e1; subst e2
      have : m.filter (fun e => e.1 ≠ k) = m := by
        rw [List.filter_eq_self]
        intro e he
        simp only [ne_eq, decide_eq_true_eq]
        intro e'
        exact hn.1 (e' ▸ List.mem_map_of_mem (f := (·.1)) he)
      simp only [mapInsert]
      rw [List.filter_cons_of_neg (by simp), this]
    · have hk : k' ≠ k := fun e' => hn.1 (e' ▸ List.mem_map_of_mem (f := (·.1)) e)
      have := ih hn.2 e
      simp only [mapInsert] at this ⊢
      rw [List.filter_cons_of_pos (by simpa using hk)]
      exact (List.Perm.swap _ _ _).trans (List.Perm.cons _ this)

/-! ### reading the tree off the invariant -/

/-- a live leaf block is a leaf of the stored tree -/
theorem Good.leaf_mem {s : Blob} {t : IT} (g : Good s t) {i : Nat} {d : Bool} {h : Hash} {p : Option Nat}
    {k : KeyId} {v : ValueId} (hi : i ∈ t.indices)
    (hb : s.blocks[i]? = some { dirty := d, node := .leaf h p k v }) : (i, k, v, h) ∈ t.leaves ∧ d = false := by
  rcases (g.rep.info g.nodup i hi).shape with ⟨k', v', h', q, e1, e2⟩ | ⟨d', hh, q, l, r, e1, _⟩
  · rw [hb] at e1
    injection e1 with e1; injection e1 with ed hn; injection hn with a1 a2 a3 a4
    subst a1; subst a3; subst a4
    exact ⟨e2, ed⟩
  · rw [hb] at e1; injection e1 with e1; injection e1 with _ hn; cases hn

theorem Good.mem_keys_iff {s : Blob} {t : IT} (g : Good s t) (k : KeyId) :
    (mapGet s.k2i k).isSome = true ↔ k ∈ t.erase.keys := by
  rw [T.keys_eq, IT.erase_entries, List.map_map]
  constructor
  · intro h
    cases hm : mapGet s.k2i k with
    | none => rw [hm] at h; cases h
    | some i =>
      have := g.k2i.mem_iff.mp (mapGet_mem _ _ _ hm)
      obtain ⟨e, he, hek⟩ := List.mem_map.mp this
      injection hek with e1 _
      exact List.mem_map.mpr ⟨e, he, e1⟩
  · intro h
    obtain ⟨e, he, hek⟩ := List.mem_map.mp h
    have := g.mapGet_k2i he
    simp only [Function.comp] at hek
    rw [hek] at this; rw [this]; rfl

theorem Good.mem_hashes_iff {s : Blob} {t : IT} (g : Good s t) (h : Hash) :
    (mapGet s.h2i h).isSome = true ↔ h ∈ t.erase.hashes := by
  rw [T.hashes_eq, IT.erase_entries, List.map_map]
  constructor
  · intro hh
    cases hm : mapGet s.h2i h with
    | none => rw [hm] at hh; cases hh
    | some i =>
      have := g.h2i.mem_iff.mp (mapGet_mem _ _ _ hm)
      obtain ⟨e, he, hek⟩ := List.mem_map.mp this
      injection hek with e1 _
      exact List.mem_map.mpr ⟨e, he, e1⟩
  · intro hh
    obtain ⟨e, he, hek⟩ := List.mem_map.mp hh
    have := g.mapGet_h2i he
    simp only [Function.comp] at hek
    rw [hek] at this; rw [this]; rfl

/-- the leaf a key cache entry points to -/
theorem Good.leaf_of_key {s : Blob} {t : IT} (g : Good s t) {k : KeyId} {i : Nat} (h : mapGet s.k2i k = some i) :
    ∃ v hh, (i, k, v, hh) ∈ t.leaves := by
  have := g.k2i.mem_iff.mp (mapGet_mem _ _ _ h)
  obtain ⟨e, he, hek⟩ := List.mem_map.mp this
  injection hek with e1 e2
  obtain ⟨i', k', v', h'⟩ := e
  simp only at e1 e2
  subst e1; subst e2
  exact ⟨v', h', he⟩

/-! ### the pseudo-random walk on trees -/

/-- the leaf reached by the walk of `get_random_insert_location_by_seed` -/
def IT.walkLeaf : IT → BitSrc → Nat × KVH
  | .leaf i k v h, _ => (i, k, v, h)
  | .node _ l r, bs => if (bs.next).1 then IT.walkLeaf r (bs.next).2 else IT.walkLeaf l (bs.next).2

theorem IT.walkLeaf_mem (t : IT) (bs : BitSrc) : t.walkLeaf bs ∈ t.leaves := by
  induction t generalizing bs with
  | leaf i k v h => simp [IT.walkLeaf, IT.leaves]
  | node i l r ihl ihr =>
    simp only [IT.walkLeaf, IT.leaves, List.mem_append]
    split
    · exact Or.inr (ihr _)
    · exact Or.inl (ihl _)

theorem Rep.walk {bl : List Block} {p : Option Nat} {t : IT} (h : Rep bl p t) (f : Nat) (hf : t.depth < f)
    (bs : BitSrc) : walkAux bl f t.idx bs = some (t.walkLeaf bs).1 := by
  induction t generalizing p f bs with
  | leaf i k v hh =>
    cases f with
    | zero => omega
    | succ f =>
      simp only [Rep] at h
      show walkAux bl (f + 1) i bs = _
      simp only [walkAux, h, IT.walkLeaf]
  | node i l r ihl ihr =>
    cases f with
    | zero => omega
    | succ f =>
      simp only [Rep] at h
      obtain ⟨⟨d, hh, hb⟩, hl, hr⟩ := h
      simp only [IT.depth] at hf
      show walkAux bl (f + 1) i bs = _
      simp only [walkAux, hb, IT.walkLeaf]
      by_cases hbit : (bs.next).1 = true
      · rw [if_pos hbit, if_pos hbit]; exact ihr hr f (by omega) _
      · rw [if_neg hbit, if_neg hbit]; exact ihl hl f (by omega) _

/-- grafting at the walked leaf is `insertWalk` on the erased tree -/
theorem IT.graft_walk_erase (ni : Nat) (side : Side) (N : IT) (t : IT) (hn : t.indices.Nodup) (bs : BitSrc) :
    (IT.graft (t.walkLeaf bs).1 ni side N t).erase = T.insertWalk N.erase side t.erase bs := by
  induction t generalizing bs with
  | leaf i k v h =>
    simp only [IT.walkLeaf, IT.graft, if_pos, IT.erase, T.insertWalk, IT.joinI_erase]
  | node i l r ihl ihr =>
    simp only [IT.indices, List.nodup_cons] at hn
    obtain ⟨hl, hr, hd⟩ := T.nodup_append' hn.2
    simp only [IT.walkLeaf, IT.erase, T.insertWalk, IT.graft]
    by_cases hbit : (bs.next).1 = true
    · rw [if_pos hbit, if_pos hbit]
      have hm := r.leaf_idx_mem _ (r.walkLeaf_mem (bs.next).2)
      have : (r.walkLeaf (bs.next).2).1 ∉ l.indices := fun h' => hd _ h' hm
      rw [IT.graft_not_mem _ _ _ _ l this, ihr hr]
    · rw [if_neg hbit, if_neg hbit]
      have hm := l.leaf_idx_mem _ (l.walkLeaf_mem (bs.next).2)
      have : (l.walkLeaf (bs.next).2).1 ∉ r.indices := fun h' => hd _ hm h'
      rw [IT.graft_not_mem _ _ _ _ r this, ihl hl]

/-! ### `insert_third_or_later` under the structural invariant -/

theorem Good.not_key {s : Blob} {t : IT} (g : Good s t) {k : KeyId} (hk : mapGet s.k2i k = none) :
    k ∉ t.leaves.map (·.2.1) := by
  intro hm
  obtain ⟨e, he, hek⟩ := List.mem_map.mp hm
  have := g.mapGet_k2i he
  rw [hek, hk] at this; cases this

theorem Good.not_hash {s : Blob} {t : IT} (g : Good s t) {h : Hash} (hh : mapGet s.h2i h = none) :
    h ∉ t.leaves.map (·.2.2.2) := by
  intro hm
  obtain ⟨e, he, hek⟩ := List.mem_map.mp hm
  have := g.mapGet_h2i he
  rw [hek, hh] at this; cases this

/-- **`insert_third_or_later` stores the grafted tree** -/
theorem insertThird_good {s : Blob} {t : IT} (g : Good s t) (k : KeyId) (v : ValueId) (h : Hash)
    (ih : Hash) (side : Side) (hk : mapGet s.k2i k = none) (hh : mapGet s.h2i h = none)
    (hlen1 : s.k2i.length ≠ 1) {idx : Nat} {ok : KeyId} {ov : ValueId} {oh : Hash} {opi : Nat}
    (hleaf : (idx, ok, ov, oh) ∈ t.leaves)
    (hb : s.blocks[idx]? = some { dirty := false, node := .leaf oh (some opi) ok ov }) :
    ∃ a S nl ni, insertThird k v h (some opi) idx ih side s = (.ok a, S)
      ∧ Good S (IT.graft idx ni side (.leaf nl k v h) t)
      ∧ (ih = (match side with | .left => internalHash h oh | .right => internalHash oh h) →
          LH s.blocks none t → LH S.blocks none (IT.graft idx ni side (.leaf nl k v h) t)) := by
  have hinv := g.linv
  have hidxm : idx ∈ t.indices := t.leaf_idx_mem _ hleaf
  have hlive := (g.live_iff idx).mpr hidxm
  obtain ⟨T, nl, ni, l, r, d', ph, pp, pl, pr, pl', pr', hrun, P, hlr⟩ :=
    insertThird_post s hinv k v h opi idx ih side hk hh hlen1 hlive.2 hb
  have hTinv := P.linv
  have hopiT := P.liveOld P.opiLt P.opiFacts.1
  -- the graft post-condition
  have notLive : ∀ x, (x ∈ s.free ∨ s.blocks.length ≤ x) → x ∉ t.indices := by
    intro x hx hm
    have := (g.live_iff x).mpr hm
    rcases hx with hx | hx
    · exact this.2 hx
    · omega
  have hl' : l = sideL side nl idx ∧ r = sideR side nl idx := by
    cases side <;> simp only [childPair, Prod.mk.injEq] at hlr <;> exact hlr
  have GP : GraftPost s T t (.leaf nl k v h) idx ni opi side oh ok ov pp pl pr pl' pr' := by
    refine {
      good := g, leafMem := hleaf, leafB := hb, par := ⟨d', ph, P.par⟩, pkids := P.pkids,
      niNew := notLive ni P.niNew,
      nNew := by intro j hj; simp only [IT.indices, List.mem_singleton] at hj; rw [hj]; exact notLive nl P.nlNew,
      niN := by simp only [IT.indices, List.mem_singleton]; exact fun e => P.ne e.symm,
      nNodup := by simp [IT.indices],
      repN := P.bNl, bNi := ⟨false, ih, by rw [P.bNi, hl'.1, hl'.2]; rfl⟩, bIdx := P.bIdx, bOpi := ⟨d', ph, P.bOpi⟩,
      bOther := ?_, lenLe := P.lenLe, newIdx := ?_, free := ?_, freeNodup := P.freeNodup,
      k2i := ?_, h2i := ?_, keys := ?_, hashes := ?_, range := hTinv.rangeP }
    · intro j hj h1 h2
      have hjl := (g.live_iff j).mpr hj
      obtain ⟨f1, f2⟩ := P.fresh hjl.1 hjl.2
      exact P.bOther j h2 h1 f2 f1 hjl.1
    · intro j h1 h2
      rcases P.newIdx j h1 h2 with e | e
      · exact Or.inr (by simp [IT.indices, e])
      · exact Or.inl e
    · intro j
      rw [P.free j]
      simp only [IT.indices, List.mem_singleton]
      constructor
      · rintro ⟨a, b, c⟩; exact ⟨a, c, b⟩
      · rintro ⟨a, b, c⟩; exact ⟨a, c, b⟩
    · rw [P.k2i]
      have h1 : mapInsert s.k2i k nl ~ (k, nl) :: s.k2i := mapInsert_perm_new _ _ _ hk
      have hmem : (ok, idx) ∈ mapInsert s.k2i k nl :=
        h1.mem_iff.mpr (List.mem_cons_of_mem _ (mapGet_mem _ _ _ (g.mapGet_k2i hleaf)))
      refine (mapInsert_perm_same _ ok idx (mapInsert_keys_nodup _ _ _ g.k2i_keys_nodup) hmem).trans ?_
      simpa [IT.leaves] using h1
    · rw [P.h2i]
      have h1 : mapInsert s.h2i h nl ~ (h, nl) :: s.h2i := mapInsert_perm_new _ _ _ hh
      have hmem : (oh, idx) ∈ mapInsert s.h2i h nl :=
        h1.mem_iff.mpr (List.mem_cons_of_mem _ (mapGet_mem _ _ _ (g.mapGet_h2i hleaf)))
      refine (mapInsert_perm_same _ oh idx (mapInsert_keys_nodup _ _ _ g.h2i_keys_nodup) hmem).trans ?_
      simpa [IT.leaves] using h1
    · simp only [IT.leaves, List.map_cons, List.map_nil, List.singleton_append, List.nodup_cons]
      exact ⟨g.not_key hk, g.keys⟩
    · simp only [IT.leaves, List.map_cons, List.map_nil, List.singleton_append, List.nodup_cons]
      exact ⟨g.not_hash hh, g.hashes⟩
  have gT := GP.good_after
  -- the dirty-marking walk
  have hss := markLineageDirty_sameShape opi T hTinv hopiT.2 ⟨_, _, _, _, _, P.bOpi⟩
  obtain ⟨_, sT, eT, _⟩ := markLineageDirty_ok opi T hTinv.rangeP hopiT.1
  rw [eT] at hss
  refine ⟨nl, sT, nl, ni, ?_, gT.sameShape hss, ?_⟩
  · rw [hrun]
    show (markLineageDirty opi >>= fun _ => pure nl) T = _
    rw [bind_run, eT]; rfl
  · intro hih hlh
    have hbNl : T.blocks[nl]? = some { dirty := false, node := .leaf h (some ni) k v } := P.bNl
    have hole : LH T.blocks (some opi) (IT.graft idx ni side (.leaf nl k v h) t) := by
      have hNl : LH T.blocks none (IT.leaf nl k v h) := trivial
      refine graft_LH (bl := s.blocks) (bl' := T.blocks) (N := IT.leaf nl k v h) ⟨false, oh, some opi, ok, ov, hb⟩ (by simp [parentOfL, hb, Node.parent])
        (fun e : ni = opi => notLive ni P.niNew (by rw [e]; exact GP.opiFacts.1)) (by simp [dirtyB, blockAt, P.bIdx]) hNl
        (by simp [dirtyB, blockAt, IT.idx, hbNl]) ?_ t none g.rep hlh ?_
      · have h1 : hashB T.blocks ni = ih := by simp [hashB, blockAt, P.bNi, Node.hash]
        have h2 : hashB T.blocks nl = h := by simp [hashB, blockAt, hbNl, Node.hash]
        have h3 : hashB T.blocks idx = oh := by simp [hashB, blockAt, P.bIdx, Node.hash]
        rw [h1, hih]
        cases side <;> simp [sideL, sideR, IT.idx, h2, h3]
      · intro j hj hji
        by_cases hjo : j = opi
        · rw [hjo]
          simp [dirtyB, hashB, blockAt, P.bOpi, P.par, Node.hash]
        · have := GP.bOther j hj hji hjo
          simp [dirtyB, hashB, blockAt, this]
    exact markLineageDirty_LH opi T _ hTinv.pi hopiT.2 ⟨_, _, _, _, _, P.bOpi⟩ gT.rep.kp hole sT eT

/-! ### `insert_second`, `insert_first` -/

/-- the tree stored by `secondState` -/
def secondTree (k : KeyId) (v : ValueId) (h oh : Hash) (ok : KeyId) (ov : ValueId) (side : Side) : IT :=
  match side with
  | .left => .node 0 (.leaf 1 k v h) (.leaf 2 ok ov oh)
  | .right => .node 0 (.leaf 1 ok ov oh) (.leaf 2 k v h)

theorem secondState_good (k : KeyId) (v : ValueId) (h oh : Hash) (ok : KeyId) (ov : ValueId) (ih : Hash)
    (side : Side) (hk : k ≠ ok) (hh : h ≠ oh) :
    Good (secondState k v h oh ok ov ih side) (secondTree k v h oh ok ov side) := by
  have hinv := secondState_linv k v h oh ok ov ih side hk hh
  have hk' : ok ≠ k := fun e => hk e.symm
  have hh' : oh ≠ h := fun e => hh e.symm
  cases side
  all_goals
    refine ⟨?_, rfl, by simp [secondTree, IT.indices], List.nodup_nil, ?_, ?_, ?_, ?_, ?_, hinv.rangeP⟩
    · simp only [secondTree, Rep, secondState, IT.idx]
      exact ⟨⟨false, ih, rfl⟩, rfl, rfl⟩
    · intro i
      simp only [secondState, secondTree, IT.indices, List.not_mem_nil, false_iff, List.length_cons,
        List.length_nil, List.mem_cons, List.cons_append, List.nil_append, not_and, Classical.not_not]
      intro hi
      omega
    · simp only [secondState, secondTree, IT.leaves, List.map_cons, List.map_nil, List.cons_append, List.nil_append]
      first
        | exact mapInsert_perm_new _ _ _ (by simp [mapInsert, mapGet, hk'])
        | exact (mapInsert_perm_new _ _ _ (by simp [mapInsert, mapGet, hk'])).trans (List.Perm.swap _ _ _)
    · simp only [secondState, secondTree, IT.leaves, List.map_cons, List.map_nil, List.cons_append, List.nil_append]
      first
        | exact mapInsert_perm_new _ _ _ (by simp [mapInsert, mapGet, hh'])
        | exact (mapInsert_perm_new _ _ _ (by simp [mapInsert, mapGet, hh'])).trans (List.Perm.swap _ _ _)
    · simp [secondTree, IT.leaves, hk, hk']
    · simp [secondTree, IT.leaves, hh, hh']

theorem secondTree_erase (k : KeyId) (v : ValueId) (h oh : Hash) (ok : KeyId) (ov : ValueId) (side : Side) :
    (secondTree k v h oh ok ov side).erase = T.join side (.leaf k v h) (.leaf ok ov oh) := by
  cases side <;> rfl

theorem firstState_good (k : KeyId) (v : ValueId) (h : Hash) : Good (firstState k v h) (.leaf 0 k v h) := by
  have hinv := firstState_linv k v h
  refine ⟨rfl, rfl, by simp [IT.indices], List.nodup_nil, ?_, ?_, ?_, by simp [IT.leaves], by simp [IT.leaves],
    hinv.rangeP⟩
  · intro i
    simp only [firstState, IT.indices, List.not_mem_nil, false_iff, List.length_cons, List.length_nil,
      List.mem_singleton, not_and, Classical.not_not]
    intro hi; omega
  · simp only [firstState, IT.leaves, List.map_cons, List.map_nil]
    exact mapInsert_perm_new _ _ _ rfl
  · simp only [firstState, IT.leaves, List.map_cons, List.map_nil]
    exact mapInsert_perm_new _ _ _ rfl

/-! ### `insert` at a leaf -/

theorem Good.key_iff_idx {s : Blob} {t : IT} (g : Good s t) {idx : Nat} {ok : KeyId} {ov : ValueId} {oh : Hash}
    (hleaf : (idx, ok, ov, oh) ∈ t.leaves) : ∀ e ∈ t.leaves, (e.2.1 = ok ↔ e.1 = idx) := by
  intro e he
  constructor
  · intro h
    have := inj_of_nodup_map (·.2.1) t.leaves g.keys e he _ hleaf h
    rw [this]
  · intro h
    have hn : (t.leaves.map (·.1)).Nodup := g.nodup.sublist t.leaves_idx_sublist
    have := inj_of_nodup_map (·.1) t.leaves hn e he _ hleaf h
    rw [this]

theorem insertAtLeaf_good {s : Blob} {t : IT} (g : Good s t) (k : KeyId) (v : ValueId) (h : Hash)
    (hk : mapGet s.k2i k = none) (hh : mapGet s.h2i h = none)
    {idx : Nat} {ok : KeyId} {ov : ValueId} {oh : Hash} (hleaf : (idx, ok, ov, oh) ∈ t.leaves) (side : Side) :
    ∃ a S t', insertAtLeaf k v h idx side s = (.ok a, S) ∧ Good S t'
      ∧ t'.erase = t.erase.mapLeaf ok (T.join side (.leaf k v h))
      ∧ (LH s.blocks none t → LH S.blocks none t') := by
  obtain ⟨q, hb⟩ := g.rep.leaf_block hleaf
  simp only at hb
  have hkne : k ≠ ok := by
    intro e; have := g.mapGet_k2i hleaf; simp only at this; rw [← e, hk] at this; cases this
  have hhne : h ≠ oh := by
    intro e; have := g.mapGet_h2i hleaf; simp only at this; rw [← e, hh] at this; cases this
  unfold insertAtLeaf
  simp only [bind_run, M.get, getNode, getBlock_run, hb, pure_run]
  by_cases hlen1 : s.k2i.length = 1
  · rw [if_pos hlen1]
    obtain ⟨i0, k0, v0, h0, ht⟩ := t.leaves_length_one (by rw [← g.k2i_length]; exact hlen1)
    subst ht
    simp only [IT.leaves, List.mem_singleton, Prod.mk.injEq] at hleaf
    obtain ⟨e1, e2, e3, e4⟩ := hleaf
    subst e1; subst e2; subst e3; subst e4
    obtain ⟨a, e⟩ := insertSecond_ok' k v h oh ok ov
      (match side with | .left => internalHash h oh | .right => internalHash oh h) side s
    refine ⟨a, _, secondTree k v h oh ok ov side, e, secondState_good k v h oh ok ov _ side hkne hhne, ?_, ?_⟩
    · rw [secondTree_erase]
      simp only [IT.erase, T.mapLeaf, if_true]
    · intro _
      cases side <;>
        simp [secondTree, secondState, LH, dirtyB, hashB, blockAt, IT.idx, Node.hash]
  · rw [if_neg hlen1]
    have hinv := g.linv
    have hlive := (g.live_iff idx).mpr (t.leaf_idx_mem _ hleaf)
    obtain ⟨hnone, _⟩ := hinv.leaf_parent hlive.2 hb
    cases q with
    | none => exact absurd (hnone rfl) hlen1
    | some opi =>
      obtain ⟨a, S, nl, ni, e, gS, hlh⟩ := insertThird_good g k v h
        (match side with | .left => internalHash h oh | .right => internalHash oh h) side hk hh hlen1 hleaf hb
      refine ⟨a, S, _, e, gS, ?_, hlh rfl⟩
      rw [IT.graft_erase idx ni side (.leaf nl k v h) ok t (g.key_iff_idx hleaf)]
      rfl

/-- on trees with distinct indexes and keys: attaching next to the walked leaf is `insertWalk` -/
theorem Good.walk_mapLeaf {s : Blob} {t : IT} (g : Good s t) (N : T) (side : Side) (bs : BitSrc) :
    t.erase.mapLeaf (t.walkLeaf bs).2.1 (T.join side N) = T.insertWalk N side t.erase bs := by
  -- realise `N` as the erasure of an indexed tree
  have real : ∀ N : T, ∃ M : IT, M.erase = N := by
    intro N
    induction N with
    | leaf k v h => exact ⟨.leaf 0 k v h, rfl⟩
    | node l r ihl ihr =>
      obtain ⟨a, ha⟩ := ihl; obtain ⟨b, hb⟩ := ihr
      exact ⟨.node 0 a b, by simp [IT.erase, ha, hb]⟩
  obtain ⟨M, hM⟩ := real N
  have hm := t.walkLeaf_mem bs
  have h1 := IT.graft_erase (t.walkLeaf bs).1 0 side M (t.walkLeaf bs).2.1 t (g.key_iff_idx (by simpa using hm))
  have h2 := IT.graft_walk_erase 0 side M t g.nodup bs
  rw [hM] at h1 h2
  rw [← h1, h2]

/-! ### the refinement statement, and `insert` -/

/-- one operation on a blob with structural invariant `t`: the invariant holds afterwards for some
tree whose erasure is what the L1 operation yields, and both succeed or both fail -/
def Refines (op : Op) (s : Blob) (t : Option IT) : Prop :=
  ∃ t', SInv (step op s).2 t' ∧ t'.map IT.erase = (Tree.step op (t.map IT.erase)).2
    ∧ (errOf (step op s).1 = none ↔ (Tree.step op (t.map IT.erase)).1 = true)
    ∧ (LHo s.blocks t → LHo (step op s).2.blocks t')

theorem insert_guard_key (k : KeyId) (v : ValueId) (h : Hash) (loc : Loc) (s : Blob)
    (hk : (mapGet s.k2i k).isSome = true) : insert k v h loc s = (.error .err, s) := by
  unfold insert
  simp only [bind_run, M.get, hk, if_true]
  rfl

theorem insert_guard_hash (k : KeyId) (v : ValueId) (h : Hash) (loc : Loc) (s : Blob)
    (hk : ¬ (mapGet s.k2i k).isSome = true) (hh : (mapGet s.h2i h).isSome = true) :
    insert k v h loc s = (.error .err, s) := by
  unfold insert
  simp only [bind_run, M.get]
  rw [if_neg hk, if_pos hh]
  rfl

theorem insert_leaf_run (k : KeyId) (v : ValueId) (h : Hash) (idx : Nat) (side : Side) (s : Blob)
    (hk : ¬ (mapGet s.k2i k).isSome = true) (hh : ¬ (mapGet s.h2i h).isSome = true) :
    insert k v h (.leaf idx side) s = insertAtLeaf k v h idx side s := by
  unfold insert
  simp only [bind_run, M.get]
  rw [if_neg hk, if_neg hh]
  simp only [bind_run, pure_run]

theorem insert_auto_run (k : KeyId) (v : ValueId) (h : Hash) (idx : Nat) (s : Blob)
    (hk : ¬ (mapGet s.k2i k).isSome = true) (hh : ¬ (mapGet s.h2i h).isSome = true)
    (hne : s.blocks.isEmpty = false)
    (hw : walkAux s.blocks (s.blocks.length + 1) 0 (BitSrc.ofKey k) = some idx) :
    insert k v h .auto s = insertAtLeaf k v h idx (keySide k) s := by
  unfold insert
  simp only [bind_run, M.get]
  rw [if_neg hk, if_neg hh]
  simp only [bind_run, randomLoc_run, hne, Bool.false_eq_true, if_false, hw]

theorem discard_run {α : Type} (x : M α) (s : Blob) :
    (do let _ ← x; pure () : M Unit) s = match x s with
      | (.ok _, s') => (.ok (), s')
      | (.error e, s') => (.error e, s') := by
  show (x >>= fun _ => pure ()) s = _
  rw [bind_run]
  cases x s with
  | mk r s' => cases r <;> rfl

theorem Tree.insert_of_key (k : KeyId) (v : ValueId) (h : Hash) (loc : RefLoc) (t : Tree)
    (hk : k ∈ Tree.keys t) : Tree.insert k v h loc t = none := by
  unfold Tree.insert; rw [if_pos hk]

theorem Tree.insert_of_hash (k : KeyId) (v : ValueId) (h : Hash) (loc : RefLoc) (t : Tree)
    (hk : k ∉ Tree.keys t) (hh : h ∈ Tree.hashes t) : Tree.insert k v h loc t = none := by
  unfold Tree.insert; rw [if_neg hk, if_pos hh]

theorem Tree.insert_auto_some' (k : KeyId) (v : ValueId) (h : Hash) (t : T)
    (hk : k ∉ Tree.keys (some t)) (hh : h ∉ Tree.hashes (some t)) :
    Tree.insert k v h .auto (some t) = some (some (T.insertWalk (.leaf k v h) (keySide k) t (BitSrc.ofKey k))) := by
  unfold Tree.insert; rw [if_neg hk, if_neg hh]

theorem Tree.insert_at (k : KeyId) (v : ValueId) (h : Hash) (ref : KeyId) (side : Side) (t : T)
    (hk : k ∉ Tree.keys (some t)) (hh : h ∉ Tree.hashes (some t)) :
    Tree.insert k v h (.at ref side) (some t)
      = if ref ∈ t.keys then some (some (t.mapLeaf ref (T.join side (.leaf k v h)))) else none := by
  unfold Tree.insert; rw [if_neg hk, if_neg hh]

theorem ins_refines {s : Blob} {t : Option IT} (hs : SInv s t) (k : KeyId) (v : ValueId) (h : Hash)
    (loc : RefLoc) : Refines (.ins k v h loc) s t := by
  unfold Refines
  cases t with
  | none =>
    simp only [SInv] at hs
    subst hs
    cases loc with
    | auto =>
      refine ⟨some (.leaf 0 k v h), ?_, ?_, ?_, fun _ => trivial⟩
      · exact firstState_good k v h
      · simp [Tree.step, Tree.insert, Tree.keys, Tree.hashes, Tree.orKeep, IT.erase]
      · simp [Tree.step, Tree.insert, Tree.keys, Tree.hashes, Tree.orKeep]
        rfl
    | «at» ref side =>
      refine ⟨none, rfl, ?_, ?_, fun _ => trivial⟩
      · simp [Tree.step, Tree.insert, Tree.keys, Tree.hashes, Tree.orKeep]
      · simp [Tree.step, Tree.insert, Tree.keys, Tree.hashes, Tree.orKeep]
        intro hc; cases hc
  | some t0 =>
    have g : Good s t0 := hs
    simp only [Option.map_some]
    -- a failing step leaves everything as it was
    have failCase : ∀ (e : Err), step (.ins k v h loc) s = (.error e, s) →
        Tree.insert k v h loc (some t0.erase) = none →
        ∃ t', SInv (step (.ins k v h loc) s).2 t' ∧ t'.map IT.erase = (Tree.step (.ins k v h loc) (some t0.erase)).2
          ∧ (errOf (step (.ins k v h loc) s).1 = none ↔ (Tree.step (.ins k v h loc) (some t0.erase)).1 = true)
          ∧ (LHo s.blocks (some t0) → LHo (step (.ins k v h loc) s).2.blocks t') := by
      intro e he hi
      refine ⟨some t0, by rw [he]; exact g, ?_, ?_, by rw [he]; exact id⟩
      · simp only [Tree.step, hi, Tree.orKeep, Option.map_some]
      · rw [he]; simp [Tree.step, hi, Tree.orKeep, errOf]
    -- a successful insert next to the leaf `(idx, ok)`
    have okCase : ∀ (idx : Nat) (ok : KeyId) (ov : ValueId) (oh : Hash) (side : Side),
        (idx, ok, ov, oh) ∈ t0.leaves → mapGet s.k2i k = none → mapGet s.h2i h = none →
        step (.ins k v h loc) s = (do let _ ← insertAtLeaf k v h idx side; pure () : M Unit) s →
        Tree.insert k v h loc (some t0.erase) = some (some (t0.erase.mapLeaf ok (T.join side (.leaf k v h)))) →
        ∃ t', SInv (step (.ins k v h loc) s).2 t' ∧ t'.map IT.erase = (Tree.step (.ins k v h loc) (some t0.erase)).2
          ∧ (errOf (step (.ins k v h loc) s).1 = none ↔ (Tree.step (.ins k v h loc) (some t0.erase)).1 = true)
          ∧ (LHo s.blocks (some t0) → LHo (step (.ins k v h loc) s).2.blocks t') := by
      intro idx ok ov oh side hleaf hk0 hh0 hstep hins
      obtain ⟨a, S, t', e, gS, her, hlh⟩ := insertAtLeaf_good g k v h hk0 hh0 hleaf side
      rw [hstep, discard_run, e]
      refine ⟨some t', gS, ?_, ?_, hlh⟩
      · simp only [Tree.step, hins, Tree.orKeep, Option.map_some, her]
      · simp [Tree.step, hins, Tree.orKeep, errOf]
    by_cases hk : (mapGet s.k2i k).isSome = true
    · have hkm := (g.mem_keys_iff k).mp hk
      have hi : Tree.insert k v h loc (some t0.erase) = none := Tree.insert_of_key k v h loc _ hkm
      cases loc with
      | auto => exact failCase .err (by simp only [step, discard_run, insert_guard_key k v h .auto s hk]) hi
      | «at» ref side =>
        cases hr : refIndex s ref with
        | none => exact failCase .err (by simp only [step, hr]) hi
        | some idx =>
          exact failCase .err (by simp only [step, hr, discard_run, insert_guard_key k v h _ s hk]) hi
    · have hkm : k ∉ t0.erase.keys := fun hm => hk ((g.mem_keys_iff k).mpr hm)
      by_cases hh : (mapGet s.h2i h).isSome = true
      · have hhm := (g.mem_hashes_iff h).mp hh
        have hi : Tree.insert k v h loc (some t0.erase) = none := Tree.insert_of_hash k v h loc _ hkm hhm
        cases loc with
        | auto => exact failCase .err (by simp only [step, discard_run, insert_guard_hash k v h .auto s hk hh]) hi
        | «at» ref side =>
          cases hr : refIndex s ref with
          | none => exact failCase .err (by simp only [step, hr]) hi
          | some idx =>
            exact failCase .err (by simp only [step, hr, discard_run, insert_guard_hash k v h _ s hk hh]) hi
      · have hhm : h ∉ t0.erase.hashes := fun hm => hh ((g.mem_hashes_iff h).mpr hm)
        have hk0 := isSome_false_iff _ hk
        have hh0 := isSome_false_iff _ hh
        cases loc with
        | auto =>
          -- the walk reaches the leaf `walkLeaf`
          have hlen : t0.indices.length ≤ s.blocks.length := nodup_bound _ _ g.nodup g.rep.lt
          have hd := t0.depth_lt_indices
          have hw := g.rep.walk (s.blocks.length + 1) (by omega) (BitSrc.ofKey k)
          rw [g.root] at hw
          have hne : s.blocks.isEmpty = false := by
            have := g.rep.lt 0 (g.root ▸ t0.idx_mem)
            cases hb : s.blocks with
            | nil => rw [hb] at this; simp at this
            | cons _ _ => rfl
          have hwl : t0.walkLeaf (BitSrc.ofKey k) = ((t0.walkLeaf (BitSrc.ofKey k)).1, (t0.walkLeaf (BitSrc.ofKey k)).2.1,
              (t0.walkLeaf (BitSrc.ofKey k)).2.2.1, (t0.walkLeaf (BitSrc.ofKey k)).2.2.2) := rfl
          generalize (t0.walkLeaf (BitSrc.ofKey k)).1 = idx at hwl
          generalize (t0.walkLeaf (BitSrc.ofKey k)).2.1 = ok at hwl
          generalize (t0.walkLeaf (BitSrc.ofKey k)).2.2.1 = ov at hwl
          generalize (t0.walkLeaf (BitSrc.ofKey k)).2.2.2 = oh at hwl
          have hmem : (idx, ok, ov, oh) ∈ t0.leaves := hwl ▸ t0.walkLeaf_mem _
          rw [hwl] at hw
          refine okCase idx ok ov oh (keySide k) hmem hk0 hh0 ?_ ?_
          · simp only [step]
            rw [discard_run, discard_run, insert_auto_run k v h idx s hk hh hne hw]
          · rw [Tree.insert_auto_some' k v h _ hkm hhm]
            have := g.walk_mapLeaf (.leaf k v h) (keySide k) (BitSrc.ofKey k)
            rw [hwl] at this
            rw [this]
        | «at» ref side =>
          cases hr : refIndex s ref with
          | none =>
            have hrm : ref ∉ t0.erase.keys := by
              intro hm
              have := (g.mem_keys_iff ref).mpr hm
              simp only [refIndex] at hr
              rw [hr] at this; cases this
            exact failCase .err (by simp only [step, hr])
              (by rw [Tree.insert_at k v h ref side _ hkm hhm, if_neg hrm])
          | some idx =>
            simp only [refIndex] at hr
            obtain ⟨ov, oh, hmem⟩ := g.leaf_of_key hr
            have hrm : ref ∈ t0.erase.keys := (g.mem_keys_iff ref).mp (by rw [hr]; rfl)
            refine okCase idx ref ov oh side hmem hk0 hh0 ?_ ?_
            · simp only [step, refIndex, hr]
              rw [discard_run, discard_run, insert_leaf_run k v h idx side s hk hh]
            · rw [Tree.insert_at k v h ref side _ hkm hhm, if_pos hrm]

end ChiaModel.Blob
