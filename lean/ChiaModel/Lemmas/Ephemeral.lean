import ChiaModel.Lemmas.Acc
import ChiaModel.Lemmas.PermLoop
/-
C03, ephemeral rule: a spend that carries a relative lock or a birth assertion (including the
negative relative ones that are otherwise tautologies) is recorded in `assert_not_ephemeral`.
-/
namespace ChiaModel.TL
open ChiaModel ChiaModel.Cond

/-- conditions after which `parse_conditions` calls `assert_not_ephemeral` -/
def relOrBirth : Cond → Bool
  | .assertHeightRelative _ | .assertSecondsRelative _ | .assertBeforeHeightRelative _ | .assertBeforeSecondsRelative _
  | .assertMyBirthHeight _ | .assertMyBirthSeconds _ | .skipRelativeCondition => true
  | _ => false

def hasRel (s : CSt) : Prop := s.spend.flags &&& HAS_RELATIVE_CONDITION ≠ 0

/-- the spend being parsed is registered whenever its HAS_RELATIVE_CONDITION bit is set -/
def NE (s : CSt) : Prop := hasRel s → s.ret.spends.length ∈ s.st.assertNotEphemeral

theorem add_two_and (f : Nat) (h : f &&& 2 = 0) : (f + 2) &&& 2 ≠ 0 := by
  rw [and_two] at h ⊢; omega

theorem ane_facts (s : CSt) :
    (assertNotEphemeral s).ret = s.ret ∧ hasRel (assertNotEphemeral s) ∧
    (∃ l, (assertNotEphemeral s).st.assertNotEphemeral = l ++ s.st.assertNotEphemeral) ∧
    (NE s → NE (assertNotEphemeral s)) := by
  unfold assertNotEphemeral
  by_cases h : s.spend.flags &&& HAS_RELATIVE_CONDITION ≠ 0
  · rw [if_pos h]; exact ⟨rfl, h, ⟨[], rfl⟩, id⟩
  · rw [if_neg h]
    have h0 : s.spend.flags &&& 2 = 0 := by simpa [HAS_RELATIVE_CONDITION] using h
    refine ⟨rfl, ?_, ⟨[s.ret.spends.length], rfl⟩, ?_⟩
    · simp only [hasRel, HAS_RELATIVE_CONDITION]; exact add_two_and _ h0
    · intro _ _; simp

/-- facts about one accepted condition -/
structure StepNE (s s' : CSt) (c : Cond) : Prop where
  spends : s'.ret.spends = s.ret.spends
  grow : ∃ l, s'.st.assertNotEphemeral = l ++ s.st.assertNotEphemeral
  keep : hasRel s → hasRel s'
  trig : relOrBirth c = true → hasRel s'
  ne : NE s → NE s'

theorem StepNE_same {s s' : CSt} {c : Cond} (h1 : s'.ret.spends = s.ret.spends) (h2 : s'.st.assertNotEphemeral = s.st.assertNotEphemeral)
    (h3 : s'.spend.flags = s.spend.flags) (h4 : relOrBirth c = false) : StepNE s s' c := by
  refine ⟨h1, ⟨[], by simp [h2]⟩, ?_, by simp [h4], ?_⟩
  · intro h; simpa [hasRel, h3] using h
  · intro hne h; rw [h1, h2]; exact hne (by simpa [hasRel, h3] using h)

theorem StepNE_ane {s t : CSt} {c : Cond} (hr : t.ret.spends = s.ret.spends) (hl : t.st.assertNotEphemeral = s.st.assertNotEphemeral)
    (hf : t.spend.flags = s.spend.flags) : StepNE s (assertNotEphemeral t) c := by
  obtain ⟨a1, a2, ⟨l, a3⟩, a4⟩ := ane_facts t
  refine ⟨by rw [a1, hr], ⟨l, by rw [a3, hl]⟩, fun _ => a2, fun _ => a2, ?_⟩
  intro hne
  apply a4
  intro h; rw [hr, hl]; exact hne (by simpa [hasRel, hf] using h)

@[simp] theorem pushAggSig_flags (op : Nat) (sp : Spend) (e : Bytes × Bytes) : (pushAggSig op sp e).flags = sp.flags := by
  simp only [pushAggSig]; repeat' split
  all_goals rfl

theorem applyCond_stepNE (env : Env) (s s' : CSt) (c : Cond) (h : applyCond env s c = .ok s') : StepNE s s' c := by
  cases c <;> simp only [applyCond] at h
  case aggSig op pk msg =>
    apply StepNE_same _ _ _ rfl
    all_goals
      split at h
      · split at h
        · cases h
        · obtain ⟨k, _, h⟩ := bind_ok h
          injection h with h; subst h
          first | rfl | (split <;> rfl)
      · obtain ⟨k, _, h⟩ := bind_ok h
        injection h with h; subst h
        first | rfl | (split <;> rfl) | simp
  case assertSecondsRelative v => split at h; · cases h
                                  · injection h with h; subst h; exact StepNE_ane rfl rfl rfl
  case assertHeightRelative v => split at h; · cases h
                                 · injection h with h; subst h; exact StepNE_ane rfl rfl rfl
  case assertBeforeSecondsRelative v => split at h; · cases h
                                        · injection h with h; subst h; exact StepNE_ane rfl rfl rfl
  case assertBeforeHeightRelative v => split at h; · cases h
                                       · injection h with h; subst h; exact StepNE_ane rfl rfl rfl
  case assertMyBirthSeconds v => split at h; · cases h
                                 · injection h with h; subst h; exact StepNE_ane rfl rfl rfl
  case assertMyBirthHeight v => split at h; · cases h
                                · injection h with h; subst h; exact StepNE_ane rfl rfl rfl
  case skipRelativeCondition => injection h with h; subst h; exact StepNE_ane rfl rfl rfl
  all_goals
    first
      | (injection h with h; subst h; exact StepNE_same rfl rfl rfl rfl)
      | (split at h <;> first | (injection h with h; subst h; exact StepNE_same rfl rfl rfl rfl) | (cases h; done))
      | (obtain ⟨s1', hd, h⟩ := bind_ok h; obtain ⟨d1, d2, d3⟩ := decrement_frame _ _ _ hd; injection h with h; subst h
         exact StepNE_same (by simp [d1]) (by simp [d3]) (by simp [d2]) rfl)

end ChiaModel.TL

namespace ChiaModel.TL
open ChiaModel ChiaModel.Cond

theorem visit_hasRel (env : Env) (s : CSt) (cva : Cond) : hasRel (visit env s cva) ↔ hasRel s := by
  simp only [hasRel, visit, visitCondition_eq, clr_and_two]

theorem bump_hasRel (s : CSt) (c : Nat) : hasRel (bump s c) ↔ hasRel s := by simp [hasRel, bump]

/-- what a prefix of the condition loop guarantees about the ephemeral bookkeeping -/
structure LoopNE (s s' : CSt) (trigger : Prop) : Prop where
  spends : s'.ret.spends = s.ret.spends
  grow : ∃ l, s'.st.assertNotEphemeral = l ++ s.st.assertNotEphemeral
  ne : NE s → NE s'
  rel : (hasRel s ∨ trigger) → hasRel s'

theorem stepCond_ne {env : Env} {s : CSt} {m : Nat} {c nxt : Sexp} {s' : CSt} {m' : Nat}
    (h : stepCond env s m c = .ok (s', m')) :
    ∃ cs : List Cond, parsedConds env.flags (.pair c nxt) = cs ++ parsedConds env.flags nxt ∧
      LoopNE s s' (∃ x ∈ cs, relOrBirth x = true) := by
  unfold stepCond at h
  obtain ⟨opn, hf, h⟩ := bind_ok h
  cases ho : parseOpcode opn with
  | none =>
    rw [ho] at h; simp only at h
    refine ⟨[], by rw [parsedConds_cons_none hf ho]; simp, ?_⟩
    by_cases hnu : hasFlag env.flags Gen.flagNoUnknownConds = true
    · rw [if_pos hnu] at h; cases h
    · rw [if_neg hnu] at h
      by_cases hcc : hasFlag env.flags Gen.flagCostConditions = true
      · rw [if_pos hcc] at h
        obtain ⟨a1, _, _⟩ := addCost_ok h
        subst a1
        refine ⟨by simp [bump], ⟨[], by simp [bump]⟩, ?_, ?_⟩
        · intro hne hr; simp only [bump] at hr ⊢; exact hne hr
        · rintro (hr | ⟨x, hx, _⟩)
          · exact (bump_hasRel s _).mpr hr
          · cases hx
      · rw [if_neg hcc] at h
        injection h with h; injection h with h1 h2; subst h1
        refine ⟨rfl, ⟨[], by simp⟩, id, ?_⟩
        rintro (hr | ⟨x, hx, _⟩)
        · exact hr
        · cases hx
  | some op =>
    rw [ho] at h; simp only at h
    obtain ⟨⟨s2, m2⟩, ha, h⟩ := bind_ok h
    obtain ⟨⟨s3, extra⟩, hpc, h⟩ := bind_ok h
    obtain ⟨args, cva, hr, hpa, happ, _⟩ := pureCond_ok hpc
    obtain ⟨a1, _, _⟩ := addCost_ok ha
    obtain ⟨c1, _, _⟩ := addCost_ok h
    subst a1; subst c1
    refine ⟨[cva], by rw [parsedConds_cons_some hf ho hr hpa]; simp, ?_⟩
    obtain ⟨q1, ⟨l, q2⟩, q3, q4, q5⟩ := applyCond_stepNE env _ s3 cva happ
    have hv : (visit env (bump s (preCharge env.flags op)) cva).ret.spends = s.ret.spends
        ∧ (visit env (bump s (preCharge env.flags op)) cva).st.assertNotEphemeral = s.st.assertNotEphemeral := by
      simp [visit, bump]
    have hrel0 : hasRel (visit env (bump s (preCharge env.flags op)) cva) ↔ hasRel s := by
      rw [visit_hasRel, bump_hasRel]
    refine ⟨by simp only [bump]; rw [q1, hv.1], ⟨l, by simp only [bump]; rw [q2, hv.2]⟩, ?_, ?_⟩
    · intro hne hr'
      have hr3 : hasRel s3 := (bump_hasRel s3 _).mp hr'
      have : NE (visit env (bump s (preCharge env.flags op)) cva) := by
        intro hh; rw [hv.1, hv.2]; exact hne (hrel0.mp hh)
      have := q5 this hr3
      simpa [bump] using this
    · rintro (hr' | ⟨x, hx, hrb⟩)
      · exact (bump_hasRel s3 _).mpr (q3 (hrel0.mpr hr'))
      · simp at hx; subst hx
        exact (bump_hasRel s3 _).mpr (q4 hrb)

theorem condLoop_ne (env : Env) : ∀ (t : Sexp) (s : CSt) (m : Nat) (s' : CSt) (m' : Nat),
    condLoop env t s m = .ok (s', m') → LoopNE s s' (∃ x ∈ parsedConds env.flags t, relOrBirth x = true) := by
  intro t
  induction t with
  | atom b =>
    intro s m s' m' h
    cases b with
    | nil =>
      simp only [condLoop] at h; injection h with h; injection h with h1 h2; subst h1
      refine ⟨rfl, ⟨[], by simp⟩, id, ?_⟩
      rintro (hr | ⟨x, hx, _⟩)
      · exact hr
      · simp [parsedConds] at hx
    | cons x xs => simp [condLoop] at h
  | pair c nxt _ ih =>
    intro s m s' m' h
    simp only [condLoop] at h
    obtain ⟨⟨s1, m1⟩, hstep, h⟩ := bind_ok h
    obtain ⟨cs, hcs, a1, ⟨l1, a2⟩, a3, a4⟩ := stepCond_ne (nxt := nxt) hstep
    obtain ⟨b1, ⟨l2, b2⟩, b3, b4⟩ := ih s1 m1 s' m' h
    refine ⟨by rw [b1, a1], ⟨l2 ++ l1, by rw [b2, a2]; simp⟩, fun hne => b3 (a3 hne), ?_⟩
    rintro (hr | ⟨x, hx, hrb⟩)
    · exact b4 (Or.inl (a4 (Or.inl hr)))
    · rw [hcs] at hx
      rcases List.mem_append.mp hx with hx | hx
      · exact b4 (Or.inl (a4 (Or.inr ⟨x, hx, hrb⟩)))
      · exact b4 (Or.inr ⟨x, hx, hrb⟩)

end ChiaModel.TL

namespace ChiaModel.TL
open ChiaModel ChiaModel.Cond

/-- parsed conditions of one spend tuple -/
def condsOfSpend (flags : Nat) (tree : Sexp) : List Cond :=
  match parseSingleSpend tree with
  | .ok (_, _, _, conds) => parsedConds flags conds
  | .error _ => []

/-- the spend carries a relative lock or birth assertion (tautological negative ones included) -/
def spendHasRel (flags : Nat) (tree : Sexp) : Prop := ∃ x ∈ condsOfSpend flags tree, relOrBirth x = true

theorem processSingleSpend_ne {env : Env} {ret : Bundle} {st : PState} {spendTree parent ph amount conds : Sexp} {cc m : Nat}
    {ret' : Bundle} {st' : PState} {m' : Nat}
    (hp : parseSingleSpend spendTree = .ok (parent, ph, amount, conds))
    (h : processSingleSpend env ret st parent ph amount conds cc m = .ok ((ret', st'), m')) :
    ret'.spends.length = ret.spends.length + 1 ∧ (∃ l, st'.assertNotEphemeral = l ++ st.assertNotEphemeral) ∧
    (spendHasRel env.flags spendTree → ret.spends.length ∈ st'.assertNotEphemeral) := by
  obtain ⟨s0, m1, s, hh, _, _, hl, hf⟩ := processSingleSpend_ok h
  obtain ⟨parentId, puzzleHash, amountBuf, myAmount, _, _, _, _, _, _, _, hs0⟩ := spendHeader_ok hh
  obtain ⟨l1, ⟨l, l2⟩, l3, l4⟩ := condLoop_ne env conds _ m1 s m' hl
  have hnv : ∀ x : CSt, (newSpendVisit env x).ret = x.ret ∧ (newSpendVisit env x).st = x.st := by
    intro x; unfold newSpendVisit; split <;> exact ⟨rfl, rfl⟩
  have h0ret : (newSpendVisit env (bump s0 (spendCharge env.flags))).ret.spends = ret.spends := by
    rw [(hnv _).1, hs0]; simp [bump]
  have h0st : (newSpendVisit env (bump s0 (spendCharge env.flags))).st.assertNotEphemeral = st.assertNotEphemeral := by
    rw [(hnv _).2, hs0]; simp [bump]
  have h0rel : ¬ hasRel (newSpendVisit env (bump s0 (spendCharge env.flags))) := by
    have hf0 : (bump s0 (spendCharge env.flags)).spend.flags = 0 := by rw [hs0]; rfl
    simp only [hasRel, newSpendVisit, HAS_RELATIVE_CONDITION, ELIGIBLE_FOR_DEDUP, ELIGIBLE_FOR_FF]
    by_cases hm : env.mempool = true
    · rw [if_pos hm]; simp only [hf0]
      by_cases ho : (bump s0 (spendCharge env.flags)).spend.coinAmount % 2 = 1
      · rw [if_pos ho]; decide
      · rw [if_neg ho]; decide
    · rw [if_neg hm, hf0]; decide
  simp only [finishSpend] at hf
  injection hf with hf1 hf2
  subst hf1; subst hf2
  refine ⟨by simp [l1, h0ret], ⟨l, by rw [l2, h0st]⟩, ?_⟩
  intro hrel
  have hrel' : ∃ x ∈ parsedConds env.flags conds, relOrBirth x = true := by simpa [spendHasRel, condsOfSpend, hp] using hrel
  have hne : NE s := l3 (fun hh => absurd hh h0rel)
  have := hne (l4 (Or.inr hrel'))
  rw [l1, h0ret] at this
  exact this

theorem spendLoop_ne (env : Env) (cc : Nat) : ∀ (t : Sexp) ret st n m ret' st' m' (ts0 : List Sexp),
    spendLoop env cc t ret st n m = .ok ((ret', st'), m') → ret.spends.length = ts0.length →
    (∀ i tree, ts0[i]? = some tree → spendHasRel env.flags tree → i ∈ st.assertNotEphemeral) →
    ret'.spends.length = (ts0 ++ listElems t).length ∧
    (∀ i tree, (ts0 ++ listElems t)[i]? = some tree → spendHasRel env.flags tree → i ∈ st'.assertNotEphemeral) := by
  intro t
  induction t with
  | atom b =>
    intro ret st n m ret' st' m' ts0 h hlen hinv
    cases b with
    | nil =>
      simp only [spendLoop] at h; injection h with h; injection h with h1 h2; injection h1 with h1 h3; subst h1; subst h3
      simpa [listElems] using And.intro hlen hinv
    | cons x xs => simp [spendLoop] at h
  | pair sp nxt _ ih =>
    intro ret st n m ret' st' m' ts0 h hlen hinv
    simp only [spendLoop] at h
    split at h
    · cases h
    · cases hp : parseSingleSpend sp with
      | error e => rw [hp] at h; cases h
      | ok q =>
        obtain ⟨parent, ph, amount, conds⟩ := q
        rw [hp] at h; simp only at h
        obtain ⟨⟨⟨r1, s1⟩, m1⟩, h1, h⟩ := bind_ok h
        obtain ⟨e1, ⟨l, e2⟩, e3⟩ := processSingleSpend_ne hp h1
        have := ih r1 s1 (n - 1) m1 ret' st' m' (ts0 ++ [sp]) h (by simp [e1, hlen]) (by
          intro i tree hi hrel
          rcases Nat.lt_or_ge i ts0.length with hlt | hge
          · rw [List.getElem?_append_left hlt] at hi
            have := hinv i tree hi hrel
            rw [e2]; exact List.mem_append_right _ this
          · rw [List.getElem?_append_right hge] at hi
            have hi0 : i - ts0.length = 0 := by
              rcases Nat.eq_zero_or_pos (i - ts0.length) with h0 | hpos
              · exact h0
              · rw [List.getElem?_eq_none (by simp; omega)] at hi; cases hi
            rw [hi0] at hi; simp at hi; subst hi
            have : i = ret.spends.length := by omega
            rw [this]; exact e3 hrel)
        simpa [listElems, List.append_assoc] using this

end ChiaModel.TL
