import ChiaModel.Lemmas.FastPaths
import ChiaModel.Lemmas.Cost
/-
`SpendBundle::additions` (model `bundleAdditions`) against the mempool path (`bundleLoop`): on a bundle
that `run_spendbundle` accepts, whose puzzle outputs have no pair in an opcode position, the convenience
scan succeeds — its own cost countdown stays above the validation countdown, because validation charges
every CREATE_COIN at least 1 350 000 — and lists exactly the created coins of the validated spends.
-/
namespace ChiaModel.Gn
open ChiaModel ChiaModel.Cond

/-- what `SpendBundle::additions` lists for one validated spend -/
def adds3 (sp : Spend) : List (Bytes × Bytes × Nat) := sp.createCoin.map (fun nc => (sp.coinId, nc.ph, nc.amount))

/-- an amount atom `parse_amount` accepts is decoded by clvm-traits' `u64::from_clvm` to the same value -/
theorem u64FromClvm_of_sanitize {ab : Bytes} {v : Nat} (h : sanitizeUint ab 8 = .ok v) : u64FromClvm ab = some v := by
  cases ab with
  | nil =>
    simp only [sanitizeUint] at h
    injection h with h; subst h
    decide
  | cons b0 tl =>
    simp only [sanitizeUint] at h
    by_cases hb0 : b0 ≥ 128
    · rw [if_pos hb0] at h; cases h
    rw [if_neg hb0] at h
    by_cases h2 : (b0 :: tl = [0] ∨ b0 = 0 ∧ headLt128 tl = true)
    · rw [if_pos h2] at h; cases h
    rw [if_neg h2] at h
    by_cases hlen' : (b0 :: tl).length > (if b0 = 0 then 8 + 1 else 8)
    · rw [if_pos hlen'] at h; cases h
    rw [if_neg hlen'] at h
    have hlen : ¬ (b0 :: tl).length > (if b0 = 0 then 9 else 8) := hlen'
    injection h with h; subst h
    have hb0' : ¬ (128 ≤ b0) := by omega
    unfold u64FromClvm decodeNumber
    simp only [Bool.not_false, true_and, ge_iff_le, hb0', decide_false, Bool.false_and, Bool.false_eq_true, if_false]
    by_cases h9 : (b0 :: tl).length > 8 ∧ b0 = 0
    · -- nine bytes with a leading zero: one byte is stripped
      obtain ⟨hl, hz⟩ := h9
      subst hz
      simp only [if_true] at hlen
      have htl : tl.length = 8 := by simp only [List.length_cons] at hl hlen; omega
      cases tl with
      | nil => simp at htl
      | cons y tl' =>
        have hstrip : stripPadding 8 0 64 (0 :: y :: tl') = some (y :: tl') := by
          have hc : (0 :: y :: tl').length > 8 ∧ (0 : Nat) = 0 := ⟨by simp only [List.length_cons] at htl ⊢; omega, rfl⟩
          have hc2 : ¬ ((y :: tl').length > 8 ∧ y = 0) := by simp only [List.length_cons] at htl ⊢; omega
          rw [stripPadding, if_pos hc]
          show stripPadding 8 0 63 (y :: tl') = _
          rw [stripPadding, if_neg hc2]
        rw [hstrip]
        simp only
        rw [if_neg (by simp only [List.length_cons] at htl ⊢; simp; omega)]
        simp only [Option.map_some, Option.some.injEq]
        rw [C11.beVal_replicate_zero, beVal_cons (0 : Nat)]
        simp
    · have hl : (b0 :: tl).length ≤ 8 := by
        by_cases hz : b0 = 0
        · have : ¬ (b0 :: tl).length > 8 := fun hh => h9 ⟨hh, hz⟩
          omega
        · simp only [hz, if_false] at hlen; omega
      have hstrip : stripPadding 8 0 64 (b0 :: tl) = some (b0 :: tl) := by
        simp only [stripPadding]
        rw [if_neg h9]
      rw [hstrip]
      simp only
      rw [if_neg (by simp only [List.length_cons] at hl ⊢; simp; omega)]
      simp only [Option.map_some, Option.some.injEq]
      rw [C11.beVal_replicate_zero]

theorem preCharge_cc_ge (flags : Nat) : ADDITIONS_CREATE_COIN_COST ≤ preCharge flags Gen.opCreateCoin := by
  unfold preCharge
  rw [if_pos rfl]
  split <;> decide

/-- the validation countdown never grows, and a CREATE_COIN condition takes at least 1 350 000 off it -/
theorem stepCond_budget {env : Env} {s : CSt} {m : Nat} {c : Sexp} {s' : CSt} {m' : Nat}
    (h : stepCond env s m c = .ok (s', m')) :
    m' ≤ m ∧ (∀ args, c = .pair (.atom [51]) args → m' + ADDITIONS_CREATE_COIN_COST ≤ m) := by
  refine ⟨(shift_stepCond env s c m s' m' h).1, ?_⟩
  intro args hc
  subst hc
  unfold stepCond at h
  obtain ⟨opn, hf, h⟩ := bind_ok h
  injection hf with hf; subst hf
  have ho : parseOpcode (.atom [51]) = some Gen.opCreateCoin := (parseOpcode_cc _).mpr rfl
  rw [ho] at h; simp only at h
  obtain ⟨⟨s2, m2⟩, ha, h⟩ := bind_ok h
  obtain ⟨⟨s3, extra⟩, _, h⟩ := bind_ok h
  obtain ⟨_, a2, a3⟩ := addCost_ok ha
  obtain ⟨_, b2, b3⟩ := addCost_ok h
  have := preCharge_cc_ge env.flags
  omega

theorem noPairOpcode_pair {c nxt : Sexp} (h : noPairOpcode (.pair c nxt) = true) :
    (∀ a b args, c ≠ .pair (.pair a b) args) ∧ noPairOpcode nxt = true := by
  simp only [noPairOpcode, Bool.and_eq_true] at h
  refine ⟨?_, h.2⟩
  intro a b args hc
  subst hc
  simp at h

/-- **The convenience scan reads what the condition loop accepted.**  On a condition list accepted by
`parse_conditions`, without a pair in an opcode position, and with at least as much budget as the
validation countdown, the scan of `SpendBundle::additions` succeeds, reports exactly the coins the loop
appended to the spend's `create_coin` list (same order), and keeps at least the validation's remainder. -/
theorem condLoop_bundleScan (env : Env) (id : Bytes) : ∀ (t : Sexp) (s : CSt) (m : Nat) (s' : CSt) (m' M : Nat),
    condLoop env t s m = .ok (s', m') → m ≤ M → noPairOpcode t = true →
    ∃ ncs M', s'.spend.createCoin = s.spend.createCoin ++ ncs ∧
      bundleScan id t M = some (ncs.map (fun nc => (id, nc.ph, nc.amount)), M') ∧ m' ≤ M' := by
  intro t
  induction t with
  | atom b =>
    intro s m s' m' M h hM _
    cases b with
    | nil =>
      simp only [condLoop] at h
      injection h with h; injection h with h1 h2; subst h1; subst h2
      exact ⟨[], M, by simp, rfl, hM⟩
    | cons x xs => simp [condLoop] at h
  | pair c nxt _ ih =>
    intro s m s' m' M h hM hnp
    simp only [condLoop] at h
    obtain ⟨⟨s1, m1⟩, hs, hrest⟩ := bind_ok h
    clear h
    obtain ⟨hnp1, hnp2⟩ := noPairOpcode_pair hnp
    obtain ⟨hle, hcc⟩ := stepCond_budget hs
    obtain ⟨opn, args, rfl, hcase⟩ := stepCond_scan hs
    rcases hcase with ⟨rfl, ph, ab, v, hintS, rfl, hl, hv, hc⟩ | ⟨hne, hc⟩
    · have hb := hcc _ rfl
      obtain ⟨ncs, M', e1, e2, e3⟩ := ih s1 m1 s' m' (M - ADDITIONS_CREATE_COIN_COST) hrest (by omega) hnp2
      refine ⟨⟨ph, v, scanHint hintS⟩ :: ncs, M', by rw [e1, hc]; simp, ?_, e3⟩
      simp only [bundleScan, if_true]
      rw [if_neg (by omega), u64FromClvm_of_sanitize hv]
      simp only
      rw [if_neg (by omega), e2]
      simp only [List.map_cons]
    · obtain ⟨ncs, M', e1, e2, e3⟩ := ih s1 m1 s' m' M hrest (by omega) hnp2
      refine ⟨ncs, M', by rw [e1, hc], ?_, e3⟩
      cases opn with
      | pair a b => exact absurd rfl (hnp1 a b args)
      | atom buf =>
        match buf, hne with
        | [], _ => simp only [bundleScan]; exact e2
        | [x], hne =>
          simp only [bundleScan]
          rw [if_neg (fun hx => hne (by rw [hx]))]
          exact e2
        | _ :: _ :: _, _ => simp only [bundleScan]; exact e2

/-- one accepted spend: the record pushed, and what the convenience scan sees on its conditions -/
theorem processSingleSpend_btrace {env : Env} {ret : Bundle} {st : PState} {parent ph amount conds : Sexp} {c m : Nat}
    {ret' : Bundle} {st' : PState} {m' : Nat} (M : Nat)
    (h : processSingleSpend env ret st parent ph amount conds c m = .ok ((ret', st'), m'))
    (hM : m ≤ M) (hnp : noPairOpcode conds = true) :
    ∃ sp ab M', ret'.spends = ret.spends ++ [sp] ∧ parent = .atom sp.parentId ∧
      ph = .atom sp.puzzleHash ∧ amount = .atom ab ∧ sanitizeUint ab 8 = .ok sp.coinAmount ∧
      sp.coinId = coinId sp.parentId sp.puzzleHash ab ∧ bundleScan sp.coinId conds M = some (adds3 sp, M') ∧ m' ≤ M' := by
  obtain ⟨s0, m1, s, hh, _, hm1, hl, hfin⟩ := processSingleSpend_ok h
  obtain ⟨parentId, puzzleHash, amountBuf, myAmount, e1, l1, e2, _, e3, hs, _, hs0⟩ := spendHeader_ok hh
  have f1 : s0.spend.coinId = coinId parentId puzzleHash amountBuf := by rw [hs0]
  have f2 : s0.spend.parentId = parentId := by rw [hs0]
  have f3 : s0.spend.puzzleHash = puzzleHash := by rw [hs0]
  have f4 : s0.spend.coinAmount = myAmount := by rw [hs0]
  have f5 : s0.spend.createCoin = [] := by rw [hs0]
  have f6 : s0.ret.spends = ret.spends := by rw [hs0]
  obtain ⟨i1, i2, i3, i4⟩ := condLoop_ids hl
  obtain ⟨ncs, M', c1, c2, c3⟩ := condLoop_bundleScan env (coinId parentId puzzleHash amountBuf) conds _ m1 s m' M hl (by omega) hnp
  have hv : ∀ x : CSt, (newSpendVisit env x).spend.coinId = x.spend.coinId ∧ (newSpendVisit env x).spend.parentId = x.spend.parentId ∧
      (newSpendVisit env x).spend.puzzleHash = x.spend.puzzleHash ∧ (newSpendVisit env x).spend.coinAmount = x.spend.coinAmount ∧
      (newSpendVisit env x).spend.createCoin = x.spend.createCoin ∧ (newSpendVisit env x).ret.spends = x.ret.spends := by
    intro x; unfold newSpendVisit; split <;> exact ⟨rfl, rfl, rfl, rfl, rfl, rfl⟩
  obtain ⟨v1, v2, v3, v4, v5, v6⟩ := hv (bump s0 (spendCharge env.flags))
  rw [v1] at i1; rw [v2] at i2; rw [v3] at i3; rw [v4] at i4; rw [v5] at c1
  simp only [bump, f1, f2, f3, f4, f5] at i1 i2 i3 i4 c1
  obtain ⟨p1, p2, p3, p4⟩ := postSpend_ids env s.spend
  injection hfin with hf1 hf2
  have hs1 : s.ret.spends = ret.spends := by
    rw [condLoop_spends hl, v6]; exact f6
  refine ⟨postSpend env s.spend, amountBuf, M', ?_, ?_, ?_, e3, ?_, ?_, ?_, c3⟩
  · rw [hf1]; simp only [hs1]
  · rw [p2, i2]; exact e1
  · rw [p3, i3]; exact e2
  · rw [p4, i4]; exact hs
  · rw [p1, p2, p3, i1, i2, i3]
  · rw [p1, i1, c2]
    simp only [adds3, postSpend_createCoin, c1, p1, i1, List.nil_append]

/-- **An accepting bundle loop, seen by `SpendBundle::additions`.**  With at least the validation budget,
u64 amounts and no pair in an opcode position, the convenience loop succeeds on the same coin spends and
lists the created coins of the spend records the bundle loop appended, in order; the parent of each is the
id of the DECLARED coin, which equals the validated coin id because the declared puzzle hash was checked. -/
theorem bundleAddLoop_of_bundleLoop (env : Env) (puz : Nat → RunRes) : ∀ (css : List CoinSpendM) (i : Nat) (ret : Bundle)
    (st : PState) (m : Nat) (ret' : Bundle) (st' : PState) (m' M : Nat),
    bundleLoop env puz css i ret st m = .ok ((ret', st'), m') → m ≤ M →
    (∀ s ∈ css, s.amount < 2^64) →
    (∀ k, i ≤ k → k < i + css.length → ∀ c conds, puz k = some (c, conds) → noPairOpcode conds = true) →
    ∃ news, ret'.spends = ret.spends ++ news ∧ bundleAddLoop puz css i M = some (news.flatMap adds3) := by
  intro css
  induction css with
  | nil =>
    intro i ret st m ret' st' m' M h _ _ _
    simp only [bundleLoop] at h
    injection h with h; injection h with h1 _; injection h1 with h1 _
    subst h1
    exact ⟨[], by simp, rfl⟩
  | cons cs rest ih =>
    intro i ret st m ret' st' m' M h hM hamt hnp
    simp only [bundleLoop] at h
    cases hrun : runWithLimit (puz i) m with
    | error e => rw [hrun] at h; cases h
    | ok q =>
      obtain ⟨c, conds⟩ := q
      rw [hrun] at h; simp only at h
      obtain ⟨hp, hc⟩ := runWithLimit_ok hrun
      cases hsub : subtractCost m c with
      | error e => rw [hsub] at h; cases h
      | ok m1 =>
        rw [hsub] at h; simp only at h
        obtain ⟨_, hm1⟩ := subtractCost_ok' hsub
        split at h
        · cases h
        rename_i hph
        have hph' : cs.puzzleHash = Sexp.treeHash cs.puzzle := by
          simpa only [ne_eq, Decidable.not_not] using hph
        cases hps : processSingleSpend env { ret with executionCost := ret.executionCost + c } st (.atom cs.parent)
            (.atom (Sexp.treeHash cs.puzzle)) (.atom (canonNat cs.amount)) conds c m1 with
        | error e => rw [hps] at h; cases h
        | ok q2 =>
          obtain ⟨⟨r1, s1⟩, m2⟩ := q2
          rw [hps] at h; simp only at h
          have hnpc : noPairOpcode conds = true :=
            hnp i (Nat.le_refl _) (by simp only [List.length_cons]; omega) c conds hp
          obtain ⟨sp, ab, M', t1, t2, t4, t5, t6, t7, t8, t9⟩ := processSingleSpend_btrace (M - c) hps (by omega) hnpc
          obtain ⟨news, r1', r2'⟩ := ih (i + 1) r1 s1 m2 ret' st' m' M' h t9
            (fun s hs => hamt s (List.mem_cons_of_mem _ hs))
            (fun k hk1 hk2 => hnp k (by omega) (by simp only [List.length_cons]; omega))
          injection t2 with t2
          injection t4 with t4
          injection t5 with t5
          have hlt : cs.amount < 2^64 := hamt cs (List.mem_cons_self ..)
          have hid : sha256 (cs.parent ++ cs.puzzleHash ++ Gen.coinIdAmount cs.amount) = sp.coinId := by
            rw [t7, ← t2, ← t4, ← t5, C11.coinIdAmount_canon _ hlt, hph']; rfl
          refine ⟨sp :: news, by rw [r1', t1]; simp, ?_⟩
          simp only [bundleAddLoop, hp]
          rw [if_neg (by omega), hid, t8]
          simp only
          rw [r2']
          simp only [List.flatMap_cons]

theorem flatMap_adds3_map {f : Spend → Spend} (hf : ∀ sp, adds3 (f sp) = adds3 sp) (l : List Spend) :
    (l.map f).flatMap adds3 = l.flatMap adds3 := by
  induction l with
  | nil => rfl
  | cons a t ih => simp only [List.map_cons, List.flatMap_cons, hf, ih]

/-- the mempool visitor's post-processing only rewrites eligibility bits: the created coins stay -/
theorem postProcess_adds3 (env : Env) (ret : Bundle) (st : PState) :
    (postProcess env ret st).spends.flatMap adds3 = ret.spends.flatMap adds3 := by
  unfold postProcess
  split
  · rfl
  · simp only
    rw [flatMap_adds3_map, flatMap_adds3_map]
    · intro sp; split <;> rfl
    · intro sp
      split
      · rfl
      · split <;> rfl

end ChiaModel.Gn
