import ChiaModel.Lemmas.Scan
import ChiaModel.Lemmas.GenPaths
import ChiaModel.Lemmas.BundleInv
/-
What an accepting run of the native spend loop says about the generator's spend list (`Trace`), and
what the trusted fast paths (`additions_and_removals`, `get_puzzle_and_solution_for_coin`) compute on
a list with such a trace.
-/
namespace ChiaModel.Gn
open ChiaModel ChiaModel.Cond

/-- a removal as reported by `additions_and_removals` -/
def rem (sp : Spend) : Bytes × Bytes × Bytes × Nat := (sp.coinId, sp.parentId, sp.puzzleHash, sp.coinAmount)

/-- the additions a spend gives rise to: its created coins, parent = its coin id, with their hints -/
def spendAdds (sp : Spend) : List ((Bytes × Bytes × Nat) × Option Bytes) := sp.createCoin.map (ncAdd sp.coinId)

/-- `Trace puz t i m news`: the spend list `t` (first index `i`, budget `m`) was accepted spend by spend,
producing the spend records `news`. -/
def Trace (puz : Nat → RunRes) : Sexp → Nat → Nat → List Spend → Prop
  | t, _, _, [] => t = .atom []
  | t, i, m, sp :: rest => ∃ spend nxt puzzle ab sol r c conds m2,
      t = .pair spend nxt ∧ extract5 spend = some (.atom sp.parentId, puzzle, .atom ab, sol, r) ∧
      sp.parentId.length = 32 ∧ sanitizeUint ab 8 = .ok sp.coinAmount ∧ sp.puzzleHash = Sexp.treeHash puzzle ∧
      sp.coinId = coinId sp.parentId sp.puzzleHash ab ∧ puz i = some (c, conds) ∧ c ≤ m ∧ m2 ≤ m - c ∧
      scanCreateCoins sp.coinId conds = some (spendAdds sp) ∧ Trace puz nxt (i + 1) m2 rest

theorem condLoop_ids {env : Env} {t : Sexp} {s : CSt} {m : Nat} {s' : CSt} {m' : Nat}
    (h : condLoop env t s m = .ok (s', m')) :
    s'.spend.coinId = s.spend.coinId ∧ s'.spend.parentId = s.spend.parentId ∧ s'.spend.puzzleHash = s.spend.puzzleHash ∧
      s'.spend.coinAmount = s.spend.coinAmount :=
  condLoop_inv env (fun x => x.spend.coinId = s.spend.coinId ∧ x.spend.parentId = s.spend.parentId ∧
      x.spend.puzzleHash = s.spend.puzzleHash ∧ x.spend.coinAmount = s.spend.coinAmount)
    (fun _ _ hx => hx) (fun _ _ hx => hx)
    (fun x x' cva hx ha => by
      obtain ⟨_, _, _, _, _, f6, f7, f8, f9, _⟩ := applyCond_frame env x x' cva ha
      rw [f6, f7, f8, f9]; exact hx) _ s m s' m' h ⟨rfl, rfl, rfl, rfl⟩

theorem postSpend_ids (env : Env) (sp : Spend) : (postSpend env sp).coinId = sp.coinId ∧ (postSpend env sp).parentId = sp.parentId ∧
    (postSpend env sp).puzzleHash = sp.puzzleHash ∧ (postSpend env sp).coinAmount = sp.coinAmount := by
  unfold postSpend; split <;> exact ⟨rfl, rfl, rfl, rfl⟩

/-- one accepted spend: the record pushed, and what the scanner sees on its conditions -/
theorem processSingleSpend_trace {env : Env} {ret : Bundle} {st : PState} {parent ph amount conds : Sexp} {c m : Nat}
    {ret' : Bundle} {st' : PState} {m' : Nat}
    (h : processSingleSpend env ret st parent ph amount conds c m = .ok ((ret', st'), m')) :
    ∃ sp ab, ret'.spends = ret.spends ++ [sp] ∧ parent = .atom sp.parentId ∧ sp.parentId.length = 32 ∧
      ph = .atom sp.puzzleHash ∧ amount = .atom ab ∧ sanitizeUint ab 8 = .ok sp.coinAmount ∧
      sp.coinId = coinId sp.parentId sp.puzzleHash ab ∧ scanCreateCoins sp.coinId conds = some (spendAdds sp) ∧ m' ≤ m := by
  obtain ⟨hle, _, _⟩ := shift_processSingleSpend env ret st parent ph amount conds c m (ret', st') m' h
  obtain ⟨s0, m1, s, hh, _, _, hl, hfin⟩ := processSingleSpend_ok h
  obtain ⟨parentId, puzzleHash, amountBuf, myAmount, e1, l1, e2, _, e3, hs, _, hs0⟩ := spendHeader_ok hh
  have f1 : s0.spend.coinId = coinId parentId puzzleHash amountBuf := by rw [hs0]
  have f2 : s0.spend.parentId = parentId := by rw [hs0]
  have f3 : s0.spend.puzzleHash = puzzleHash := by rw [hs0]
  have f4 : s0.spend.coinAmount = myAmount := by rw [hs0]
  have f5 : s0.spend.createCoin = [] := by rw [hs0]
  have f6 : s0.ret.spends = ret.spends := by rw [hs0]
  obtain ⟨i1, i2, i3, i4⟩ := condLoop_ids hl
  obtain ⟨ncs, c1, c2⟩ := condLoop_scan env (coinId parentId puzzleHash amountBuf) conds _ m1 s m' hl
  have hv : ∀ x : CSt, (newSpendVisit env x).spend.coinId = x.spend.coinId ∧ (newSpendVisit env x).spend.parentId = x.spend.parentId ∧
      (newSpendVisit env x).spend.puzzleHash = x.spend.puzzleHash ∧ (newSpendVisit env x).spend.coinAmount = x.spend.coinAmount ∧
      (newSpendVisit env x).spend.createCoin = x.spend.createCoin ∧ (newSpendVisit env x).ret.spends = x.ret.spends := by
    intro x; unfold newSpendVisit; split <;> exact ⟨rfl, rfl, rfl, rfl, rfl, rfl⟩
  obtain ⟨v1, v2, v3, v4, v5, v6⟩ := hv (bump s0 (spendCharge env.flags))
  rw [v1] at i1; rw [v2] at i2; rw [v3] at i3; rw [v4] at i4; rw [v5] at c1
  simp only [bump, f1, f2, f3, f4, f5] at i1 i2 i3 i4 c1
  obtain ⟨p1, p2, p3, p4⟩ := postSpend_ids env s.spend
  injection hfin with hf1 hf2
  have hs1 : s.ret.spends = ret.spends := by
    rw [condLoop_spends hl, v6]; exact f6
  refine ⟨postSpend env s.spend, amountBuf, ?_, ?_, ?_, ?_, e3, ?_, ?_, ?_, hle⟩
  · rw [hf1]; simp only [hs1]
  · rw [p2, i2]; exact e1
  · rw [p2, i2]; exact l1
  · rw [p3, i3]; exact e2
  · rw [p4, i4]; exact hs
  · rw [p1, p2, p3, i1, i2, i3]
  · rw [p1, i1, c2]
    simp only [spendAdds, postSpend_createCoin, c1, p1, i1, List.nil_append]

/-- **An accepting native loop leaves a trace.** -/
theorem nativeLoop_trace (env : Env) (puz : Nat → RunRes) : ∀ (t : Sexp) (i : Nat) (ret : Bundle) (st : PState) (n m : Nat)
    (ret' : Bundle) (st' : PState) (m' : Nat), nativeLoop env puz t i ret st n m = .ok ((ret', st'), m') →
    ∃ news, ret'.spends = ret.spends ++ news ∧ Trace puz t i m news := by
  intro t
  induction t with
  | atom b =>
    intro i ret st n m ret' st' m' h
    cases b with
    | cons x xs => simp [nativeLoop] at h
    | nil =>
      simp only [nativeLoop] at h
      injection h with h; injection h with h1 _; injection h1 with h1 _
      subst h1
      exact ⟨[], by simp, rfl⟩
  | pair spend nxt _ ih =>
    intro i ret st n m ret' st' m' h
    simp only [nativeLoop] at h
    split at h
    · cases h
    cases h5 : extract5 spend with
    | none => rw [h5] at h; cases h
    | some q5 =>
      obtain ⟨parent, puzzle, amount, sol, r⟩ := q5
      rw [h5] at h; simp only at h
      cases hrun : runWithLimit (puz i) m with
      | error e => rw [hrun] at h; cases h
      | ok q =>
        obtain ⟨c, conds⟩ := q
        rw [hrun] at h; simp only at h
        obtain ⟨hp, hc⟩ := runWithLimit_ok hrun
        cases hsub : subtractCost m c with
        | error e => rw [hsub] at h; cases h
        | ok m1 =>
          rw [hsub] at h; simp only at h
          obtain ⟨_, hm1⟩ := subtractCost_ok' hsub
          cases hps : processSingleSpend env { ret with executionCost := ret.executionCost + c } st parent
              (.atom (Sexp.treeHash puzzle)) amount conds c m1 with
          | error e => rw [hps] at h; cases h
          | ok q2 =>
            obtain ⟨⟨r1, s1⟩, m2⟩ := q2
            rw [hps] at h; simp only at h
            obtain ⟨sp, ab, t1, t2, t3, t4, t5, t6, t7, t8, t9⟩ := processSingleSpend_trace hps
            obtain ⟨rest, r1', r2'⟩ := ih _ _ _ _ _ _ _ _ h
            injection t4 with t4
            subst t2; subst t5
            refine ⟨sp :: rest, by rw [r1', t1]; simp, ?_⟩
            exact ⟨spend, nxt, puzzle, ab, sol, r, c, conds, m2, rfl, h5, t3, t6, t4.symm, t7, hp, hc, by omega, t8, r2'⟩

/-! ## `additions_and_removals` on a traced list -/

theorem extract5_allBytes {sp a b c d r : Sexp} (h : extract5 sp = some (a, b, c, d, r)) (hb : sp.AllBytes) :
    a.AllBytes ∧ c.AllBytes := by
  unfold extract5 at h
  split at h
  · injection h with h; injection h with h1 h; injection h with h2 h; injection h with h3 h
    subst h1; subst h3
    simp only [Sexp.AllBytes] at hb
    exact ⟨hb.1, hb.2.2.1⟩
  · cases h

theorem addRemLoop_of_trace (puz : Nat → RunRes) : ∀ (news : List Spend) (t : Sexp) (i m M : Nat),
    Trace puz t i m news → t.AllBytes → m ≤ M →
    addRemLoop puz t i M = some (news.flatMap spendAdds, news.map rem) := by
  intro news
  induction news with
  | nil =>
    intro t i m M h _ _
    simp only [Trace] at h
    subst h; rfl
  | cons sp rest ih =>
    intro t i m M h hab hm
    obtain ⟨spend, nxt, puzzle, ab, sol, r, c, conds, m2, rfl, h5, hl, hv, hph, hid, hp, hc, hm2, hscan, htr⟩ := h
    simp only [Sexp.AllBytes] at hab
    obtain ⟨_, hbb⟩ := extract5_allBytes h5 hab.1
    have hcanon : ab = canonNat sp.coinAmount := C11.sanitizeUint_canon ab _ hbb hv
    have hlt : sp.coinAmount < 2 ^ 64 := by
      have := (C11.sanitizeUint_ok ab 8 _ hbb hv).2.2.2
      simpa using this
    have hidv : sha256 (sp.parentId ++ Sexp.treeHash puzzle ++ Gen.coinIdAmount sp.coinAmount) = sp.coinId := by
      rw [hid, C11.coinIdAmount_canon _ hlt, ← hcanon, hph]; rfl
    have ih' := ih nxt (i + 1) m2 (M - c) htr hab.2 (by omega)
    simp only [addRemLoop, h5]
    rw [if_neg (by omega), hv]
    simp only [hp]
    rw [if_neg (by omega), hidv, hscan, ih']
    simp only [List.flatMap_cons, List.map_cons, rem, hph]

/-! ## `get_puzzle_and_solution_for_coin` on a traced list -/

theorem go_of_trace (puz : Nat → RunRes) : ∀ (news : List Spend) (t : Sexp) (i m : Nat),
    Trace puz t i m news → ∀ sp ∈ news, ∃ pz sl, getPuzzleAndSolution.go sp.parentId sp.puzzleHash sp.coinAmount t = some (pz, sl) ∧
      Sexp.treeHash pz = sp.puzzleHash := by
  intro news
  induction news with
  | nil => intro t i m _ sp hsp; cases hsp
  | cons sp0 rest ih =>
    intro t i m h sp hsp
    obtain ⟨spend, nxt, puzzle, ab, sol, r, c, conds, m2, rfl, h5, hl, hv, hph, hid, hp, hc, hm2, hscan, htr⟩ := h
    have hshape : spend = .pair (.atom sp0.parentId) (.pair puzzle (.pair (.atom ab) (.pair sol r))) := by
      unfold extract5 at h5
      split at h5
      · injection h5 with h5; injection h5 with a1 h5; injection h5 with a2 h5; injection h5 with a3 h5
        injection h5 with a4 a5
        subst a1; subst a2; subst a3; subst a4; subst a5; rfl
      · cases h5
    subst hshape
    simp only [getPuzzleAndSolution.go, hv]
    by_cases hcond : sp0.parentId = sp.parentId ∧ sp0.coinAmount = sp.coinAmount ∧ Sexp.treeHash puzzle = sp.puzzleHash
    · rw [if_pos hcond]
      exact ⟨puzzle, sol, rfl, hcond.2.2⟩
    · rw [if_neg hcond]
      rcases List.mem_cons.mp hsp with rfl | hin
      · exact absurd ⟨rfl, rfl, hph.symm⟩ hcond
      · exact ih nxt (i + 1) m2 htr sp hin

end ChiaModel.Gn
