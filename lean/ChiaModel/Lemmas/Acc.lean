import ChiaModel.Lemmas.TimeLocks
/-
Generic "accumulated list" lemma: a list-valued projection of the parse state that every accepted
condition extends by a contribution depending only on loop-stable data equals, after the loops, the
concatenation of the contributions of all parsed conditions, in order.
-/
namespace ChiaModel.Cond
open ChiaModel ChiaModel.TL

/-- the loop-stable attributes of the spend being parsed -/
structure Attrs where
  parentId : Bytes
  puzzleHash : Bytes
  coinId : Bytes
  coinAmount : Nat

def attrsOf (sp : Spend) : Attrs := ⟨sp.parentId, sp.puzzleHash, sp.coinId, sp.coinAmount⟩

theorem attrs_frame {env : Env} {s s' : CSt} {c : Cond} (h : applyCond env s c = .ok s') : attrsOf s'.spend = attrsOf s.spend := by
  obtain ⟨_, _, _, _, _, f6, f7, f8, f9, _⟩ := applyCond_frame env s s' c h
  simp [attrsOf, f6, f7, f8, f9]

theorem condLoop_acc {X : Type} (env : Env) (proj : CSt → List X) (contrib : Attrs → Cond → List X)
    (hbump : ∀ s c, proj (bump s c) = proj s)
    (hvisit : ∀ s cva, proj (visit env s cva) = proj s)
    (hstep : ∀ s s' cva, applyCond env s cva = .ok s' → proj s' = proj s ++ contrib (attrsOf s.spend) cva) :
    ∀ (t : Sexp) (s : CSt) (m : Nat) (s' : CSt) (m' : Nat), condLoop env t s m = .ok (s', m') →
      proj s' = proj s ++ (parsedConds env.flags t).flatMap (contrib (attrsOf s.spend)) ∧ attrsOf s'.spend = attrsOf s.spend := by
  intro t
  induction t with
  | atom b =>
    intro s m s' m' h
    cases b with
    | nil => simp only [condLoop] at h; injection h with h; injection h with h1 h2; subst h1; simp [parsedConds]
    | cons x xs => simp [condLoop] at h
  | pair c nxt _ ih =>
    intro s m s' m' h
    simp only [condLoop] at h
    obtain ⟨⟨s1, m1⟩, hs, h⟩ := bind_ok h
    obtain ⟨i1, i2⟩ := ih s1 m1 s' m' h
    -- one step
    have step : proj s1 = proj s ++ (match first c with
        | .ok opn => (match parseOpcode opn with
          | some op => (match rest c with
            | .ok args => (match parseArgs args op env.flags with | .ok cva => [cva] | .error _ => [])
            | .error _ => [])
          | none => [])
        | .error _ => []).flatMap (contrib (attrsOf s.spend)) ∧ attrsOf s1.spend = attrsOf s.spend := by
      unfold stepCond at hs
      obtain ⟨opn, hf, hs⟩ := bind_ok hs
      rw [hf]; simp only
      cases ho : parseOpcode opn with
      | none =>
        rw [ho] at hs; simp only at hs ⊢
        by_cases hnu : hasFlag env.flags Gen.flagNoUnknownConds = true
        · rw [if_pos hnu] at hs; cases hs
        · rw [if_neg hnu] at hs
          by_cases hcc : hasFlag env.flags Gen.flagCostConditions = true
          · rw [if_pos hcc] at hs
            obtain ⟨a1, _, _⟩ := addCost_ok hs
            subst a1
            exact ⟨by rw [hbump]; simp, by simp [bump, attrsOf]⟩
          · rw [if_neg hcc] at hs
            injection hs with hs; injection hs with h1 h2; subst h1; simp
      | some op =>
        rw [ho] at hs; simp only at hs ⊢
        obtain ⟨⟨s2, m2⟩, ha, hs⟩ := bind_ok hs
        obtain ⟨⟨s3, extra⟩, hpc, hs⟩ := bind_ok hs
        obtain ⟨args, cva, hr, hpa, happ, _⟩ := pureCond_ok hpc
        obtain ⟨a1, _, _⟩ := addCost_ok ha
        obtain ⟨c1, _, _⟩ := addCost_ok hs
        subst a1; subst c1
        rw [hr]; simp only [hpa]
        have e1 := hstep _ _ _ happ
        have e2 := attrs_frame happ
        have hv : attrsOf (visit env (bump s (preCharge env.flags op)) cva).spend = attrsOf s.spend := by
          simp [visit, bump, attrsOf]
        refine ⟨?_, ?_⟩
        · rw [hbump, e1, hvisit, hbump, hv]; simp
        · have : ∀ x, attrsOf (bump s3 x).spend = attrsOf s3.spend := by intro x; simp [bump, attrsOf]
          rw [this, e2, hv]
    obtain ⟨st1, st2⟩ := step
    refine ⟨?_, by rw [i2, st2]⟩
    rw [i1, st1, st2]
    simp only [parsedConds, List.flatMap_append, List.append_assoc]
    rfl

end ChiaModel.Cond

namespace ChiaModel.Cond
open ChiaModel ChiaModel.TL

/-- the attributes `process_single_spend` derives from a spend tuple (when it is well-formed) -/
def treeAttrs (tree : Sexp) : Option (Attrs × Sexp) :=
  match parseSingleSpend tree with
  | .ok (.atom parent, .atom ph, .atom amt, conds) =>
    (match sanitizeUint amt 8 with
     | .ok v => some (⟨parent, ph, coinId parent ph amt, v⟩, conds)
     | _ => none)
  | _ => none

/-- contributions of one spend tuple -/
def spendContrib {X : Type} (flags : Nat) (contrib : Attrs → Cond → List X) (tree : Sexp) : List X :=
  match treeAttrs tree with
  | some (a, conds) => (parsedConds flags conds).flatMap (contrib a)
  | none => []

theorem spendLoop_acc {X : Type} (env : Env) (cc : Nat) (proj : PState → List X) (contrib : Attrs → Cond → List X)
    (hhdr : ∀ (st : PState) a b, proj { st with spentCoins := a, spentPuzzles := b } = proj st)
    (hstep : ∀ s s' cva, applyCond env s cva = .ok s' → proj s'.st = proj s.st ++ contrib (attrsOf s.spend) cva) :
    ∀ (t : Sexp) ret st n m ret' st' m', spendLoop env cc t ret st n m = .ok ((ret', st'), m') →
      proj st' = proj st ++ (listElems t).flatMap (spendContrib env.flags contrib) := by
  intro t
  induction t with
  | atom b =>
    intro ret st n m ret' st' m' h
    cases b with
    | nil => simp only [spendLoop] at h; injection h with h; injection h with h1 h2; injection h1 with h1 h3; subst h3; simp [listElems]
    | cons x xs => simp [spendLoop] at h
  | pair sp nxt _ ih =>
    intro ret st n m ret' st' m' h
    simp only [spendLoop] at h
    split at h
    · cases h
    · cases hp : parseSingleSpend sp with
      | error e => rw [hp] at h; cases h
      | ok q =>
        obtain ⟨parent, ph, amount, conds⟩ := q
        rw [hp] at h; simp only at h
        obtain ⟨⟨⟨r1, s1⟩, m1⟩, h1, h⟩ := bind_ok h
        have i := ih r1 s1 (n - 1) m1 ret' st' m' h
        obtain ⟨s0, m2, s, hh, _, _, hl, hf⟩ := processSingleSpend_ok h1
        obtain ⟨parentId, puzzleHash, amountBuf, myAmount, e1, _, e2, _, e3, hs, _, hs0⟩ := spendHeader_ok hh
        subst e1; subst e2; subst e3
        have hta : treeAttrs sp = some (⟨parentId, puzzleHash, coinId parentId puzzleHash amountBuf, myAmount⟩, conds) := by
          simp [treeAttrs, hp, hs]
        have hacc := condLoop_acc env (fun s => proj s.st) contrib (fun s c => by simp [bump]) (fun s c => by simp [visit]) hstep
          conds _ m2 s m1 hl
        simp only [finishSpend] at hf
        injection hf with hf1 hf2
        simp only [listElems, List.flatMap_cons, spendContrib, hta]
        have hs1 : proj s1 = proj s.st := by rw [← hf2]
        have hacc1 := hacc.1
        rw [i, hs1, hacc1]
        have hnv : ∀ x : CSt, (newSpendVisit env x).st = x.st ∧ attrsOf (newSpendVisit env x).spend = attrsOf x.spend := by
          intro x; unfold newSpendVisit; split <;> simp [attrsOf]
        rw [(hnv _).1, (hnv _).2]
        have hb : (bump s0 (spendCharge env.flags)).st = s0.st ∧ attrsOf (bump s0 (spendCharge env.flags)).spend = attrsOf s0.spend := by
          simp [bump, attrsOf]
        rw [hb.1, hb.2, hs0]
        simp only [attrsOf, hhdr, List.append_assoc]

end ChiaModel.Cond
