import ChiaModel.Lemmas.BlobDel
/-
C18: `delete` on the index-level model — the deleted leaf's parent is the root (the sibling is
promoted to index 0), the single-leaf case, and the refinement statement for `delete`.
-/
namespace ChiaModel.Blob
open List M

theorem delete_promote_leaf_run (s0 : Blob) (idx pi : Nat) (dp : Bool) (ph : Hash) (pl pr : Nat)
    (hpb : s0.blocks[pi]? = some { dirty := dp, node := .internal ph none pl pr })
    (hch : idx = pl ∨ idx = pr) (ds : Bool) (hs : Hash) (ps : Option Nat) (ks : KeyId) (vs : ValueId)
    (hsb : s0.blocks[if idx = pr then pl else pr]? = some { dirty := ds, node := .leaf hs ps ks vs })
    (h0 : 0 < s0.blocks.length)
    (hsf : (if idx = pr then pl else pr) ∉ (s0.write 0 { dirty := ds, node := .leaf hs none ks vs }).free)
    (h0f : 0 ∉ (s0.write 0 { dirty := ds, node := .leaf hs none ks vs }).free) :
    deleteAt idx (some pi) s0 = (.ok (),
      { (s0.write 0 { dirty := ds, node := .leaf hs none ks vs }) with
        free := freeInsert (s0.write 0 { dirty := ds, node := .leaf hs none ks vs }).free (if idx = pr then pl else pr) }) := by
  have hcond : ¬ (idx ≠ pr ∧ idx ≠ pl) := by
    rintro ⟨a, b⟩; rcases hch with e | e
    · exact b e
    · exact a e
  unfold deleteAt
  simp only [bind_run, getNode, getBlock_run, hpb, pure_run]
  rw [if_neg hcond]
  simp only [bind_run, getBlock_run, hsb]
  unfold deletePromoteRoot
  simp only [Node.setParent, bind_run, pure_run, writeBlock_run]
  rw [if_neg (by simp only [gt_iff_lt, Nat.not_lt]; exact Nat.zero_le _)]
  simp only [moveIndex_run]
  rw [if_neg hsf, if_neg h0f]

theorem delete_promote_node_run (s0 : Blob) (idx pi : Nat) (dp : Bool) (ph : Hash) (pl pr : Nat)
    (hpb : s0.blocks[pi]? = some { dirty := dp, node := .internal ph none pl pr })
    (hch : idx = pl ∨ idx = pr) (ds : Bool) (hs : Hash) (ps : Option Nat) (l r : Nat)
    (hsb : s0.blocks[if idx = pr then pl else pr]? = some { dirty := ds, node := .internal hs ps l r })
    (bl : Block) (hbl : s0.blocks[l]? = some bl)
    (br : Block) (hbr : (s0.write l { bl with node := bl.node.setParent (some 0) }).blocks[r]? = some br)
    (F : Blob)
    (hF : F = ((s0.write l { bl with node := bl.node.setParent (some 0) }).write r
        { br with node := br.node.setParent (some 0) }).write 0 { dirty := ds, node := .internal hs none l r })
    (h0 : 0 < s0.blocks.length)
    (hsf : (if idx = pr then pl else pr) ∉ F.free) (h0f : 0 ∉ F.free) :
    deleteAt idx (some pi) s0 = (.ok (), { F with free := freeInsert F.free (if idx = pr then pl else pr) }) := by
  have hcond : ¬ (idx ≠ pr ∧ idx ≠ pl) := by
    rintro ⟨a, b⟩; rcases hch with e | e
    · exact b e
    · exact a e
  have hll : l < s0.blocks.length := (List.getElem?_eq_some_iff.mp hbl).1
  have hlen1 := write_len s0 l { bl with node := bl.node.setParent (some 0) } hll
  have hrl : r < (s0.write l { bl with node := bl.node.setParent (some 0) }).blocks.length :=
    (List.getElem?_eq_some_iff.mp hbr).1
  have hlen2 := write_len _ r { br with node := br.node.setParent (some 0) } hrl
  unfold deleteAt
  simp only [bind_run, getNode, getBlock_run, hpb, pure_run]
  rw [if_neg hcond]
  simp only [bind_run, getBlock_run, hsb]
  unfold deletePromoteRoot
  simp only [Node.setParent, bind_run, pure_run]
  rw [updateParent_run l (some 0) s0 bl hbl]
  simp only
  rw [updateParent_run r (some 0) _ br hbr]
  simp only [writeBlock_run]
  rw [if_neg (by simp only [gt_iff_lt, Nat.not_lt]; exact Nat.zero_le _)]
  simp only [moveIndex_run]
  rw [← hF, if_neg hsf, if_neg h0f]

namespace IT
/-- move the root of a tree to index `j` -/
def setRoot (j : Nat) : IT → IT
  | leaf _ k v h => leaf j k v h
  | node _ l r => node j l r

theorem setRoot_erase (j : Nat) (t : IT) : (setRoot j t).erase = t.erase := by cases t <;> rfl
theorem setRoot_idx (j : Nat) (t : IT) : (setRoot j t).idx = j := by cases t <;> rfl
end IT

/-- the caches after removing the entry of the deleted leaf -/
theorem Good.erased_caches {s : Blob} {t : IT} (g : Good s t) {idx : Nat} {key : KeyId} {v0 : ValueId} {oh : Hash}
    (hleaf : (idx, key, v0, oh) ∈ t.leaves) :
    mapErase s.k2i key ~ (t.leaves.filter (fun e => e.1 ≠ idx)).map (fun e => (e.2.1, e.1))
    ∧ mapErase s.h2i oh ~ (t.leaves.filter (fun e => e.1 ≠ idx)).map (fun e => (e.2.2.2, e.1)) := by
  constructor
  · refine (g.k2i.filter _).trans ?_
    exact List.Perm.of_eq (SplicePost.filter_cache_eq t.leaves (·.2.1) key idx (g.key_iff_idx hleaf))
  · refine (g.h2i.filter _).trans ?_
    exact List.Perm.of_eq (SplicePost.filter_cache_eq t.leaves (·.2.2.2) oh idx (g.hash_iff_idx hleaf))

/-- **`delete` when the leaf's parent is the root and the sibling is a leaf** -/
theorem delete_promote_leaf_good {s : Blob} {t : IT} (g : Good s t) {idx : Nat} {key : KeyId} {v0 : ValueId} {oh : Hash}
    (hleaf : (idx, key, v0, oh) ∈ t.leaves)
    (hb : s.blocks[idx]? = some { dirty := false, node := .leaf oh (some 0) key v0 })
    {dp : Bool} {ph : Hash} {pl pr : Nat}
    (hpb : s.blocks[0]? = some { dirty := dp, node := .internal ph none pl pr })
    (hch : idx = pl ∨ idx = pr) {sibIdx : Nat} (hsd : (if idx = pr then pl else pr) = sibIdx)
    {ks : KeyId} {vs : ValueId} {hs : Hash}
    (hsb : s.blocks[sibIdx]? = some { dirty := false, node := .leaf hs (some 0) ks vs })
    (hperm : t.indices ~ [0, idx, sibIdx])
    (hlv : t.leaves.filter (fun e => e.1 ≠ idx) = [(sibIdx, ks, vs, hs)]) :
    ∃ S, delete key s = (.ok (), S) ∧ Good S (.leaf 0 ks vs hs) := by
  have hg := g.mapGet_k2i hleaf
  simp only at hg
  have hnd := hperm.nodup_iff.mp g.nodup
  simp only [List.nodup_cons, List.mem_cons, List.not_mem_nil, or_false, not_or] at hnd
  obtain ⟨⟨h0i, h0s⟩, his, _⟩ := hnd
  have mem3 : ∀ j, j ∈ t.indices ↔ (j = 0 ∨ j = idx ∨ j = sibIdx) := by
    intro j; rw [hperm.mem_iff]; simp
  have hlive : ∀ j, j ∈ t.indices → j < s.blocks.length ∧ j ∉ s.free := fun j hj => (g.live_iff j).mpr hj
  have h0l := (hlive 0 ((mem3 0).mpr (Or.inl rfl))).1
  have h0f := (hlive 0 ((mem3 0).mpr (Or.inl rfl))).2
  have hsl := hlive sibIdx ((mem3 sibIdx).mpr (Or.inr (Or.inr rfl)))
  -- run
  rw [delete_start_run key s idx false oh (some 0) v0 hg hb]
  generalize hs0 : ({ s with k2i := mapErase s.k2i key, h2i := mapErase s.h2i oh, free := freeInsert s.free idx } : Blob) = s0
  have hs0b : s0.blocks = s.blocks := by rw [← hs0]
  have hs0f : s0.free = freeInsert s.free idx := by rw [← hs0]
  have hs0k : s0.k2i = mapErase s.k2i key := by rw [← hs0]
  have hs0h : s0.h2i = mapErase s.h2i oh := by rw [← hs0]
  have h0l0 : 0 < s0.blocks.length := by rw [hs0b]; exact h0l
  have eF0 : (s0.write 0 { dirty := false, node := .leaf hs none ks vs }).free = freeInsert s.free idx := by
    rw [write_free, hs0f, List.erase_of_not_mem]
    rw [mem_freeInsert]; rintro (h | h)
    · exact h0f h
    · exact h0i h
  have hrun := delete_promote_leaf_run s0 idx 0 dp ph pl pr (by rw [hs0b]; exact hpb) hch false hs (some 0) ks vs
    (by rw [hsd, hs0b]; exact hsb) h0l0
    (by rw [hsd, eF0, mem_freeInsert]; rintro (h | h)
        · exact hsl.2 h
        · exact his h.symm)
    (by rw [eF0, mem_freeInsert]; rintro (h | h)
        · exact h0f h
        · exact h0i h)
  rw [hrun, hsd]
  refine ⟨_, rfl, ?_⟩
  obtain ⟨ek, eh⟩ := g.erased_caches hleaf
  rw [hlv] at ek eh
  simp only [List.map_cons, List.map_nil] at ek eh
  refine ⟨?_, rfl, by simp [IT.indices], ?_, ?_, ?_, ?_, by simp [IT.leaves], by simp [IT.leaves], ?_⟩
  · simp only [Rep]
    rw [write_get _ _ _ h0l0, if_pos rfl]
  · show (freeInsert _ sibIdx).Nodup
    rw [eF0]; exact freeInsert_nodup _ _ (freeInsert_nodup _ _ g.freeNodup)
  · intro j
    show j ∈ freeInsert _ sibIdx ↔ _
    rw [eF0, mem_freeInsert, mem_freeInsert, g.free j, mem3 j]
    simp only [IT.indices, List.mem_singleton]
    show _ ↔ j < (s0.write 0 _).blocks.length ∧ _
    rw [write_len _ _ _ h0l0, hs0b]
    constructor
    · rintro ((⟨h1, h2⟩ | h) | h)
      · exact ⟨h1, fun e => h2 (Or.inl e)⟩
      · rw [h]; exact ⟨(hlive idx ((mem3 idx).mpr (Or.inr (Or.inl rfl)))).1, fun e => h0i e.symm⟩
      · rw [h]; exact ⟨hsl.1, fun e => h0s e.symm⟩
    · rintro ⟨h1, h2⟩
      by_cases e1 : j = idx
      · exact Or.inl (Or.inr e1)
      · by_cases e2 : j = sibIdx
        · exact Or.inr e2
        · refine Or.inl (Or.inl ⟨h1, ?_⟩)
          rintro (e | e | e)
          · exact h2 e
          · exact e1 e
          · exact e2 e
  · show mapInsert s0.k2i ks 0 ~ _
    rw [hs0k]
    simp only [IT.leaves, List.map_cons, List.map_nil, mapInsert]
    refine List.Perm.cons _ ?_
    have := ek.filter (fun e => e.1 ≠ ks)
    rw [List.filter_cons_of_neg (by simp)] at this
    simpa using this
  · show mapInsert s0.h2i hs 0 ~ _
    rw [hs0h]
    simp only [IT.leaves, List.map_cons, List.map_nil, mapInsert]
    refine List.Perm.cons _ ?_
    have := eh.filter (fun e => e.1 ≠ hs)
    rw [List.filter_cons_of_neg (by simp)] at this
    simpa using this
  · intro j b hjb q hq
    have hlenF : ({ (s0.write 0 { dirty := false, node := .leaf hs none ks vs }) with
        free := freeInsert (s0.write 0 { dirty := false, node := .leaf hs none ks vs }).free sibIdx } : Blob).blocks.length
        = s.blocks.length := by
      show (s0.write 0 _).blocks.length = _
      rw [write_len _ _ _ h0l0, hs0b]
    rw [hlenF]
    have hjb' : (s0.write 0 { dirty := false, node := .leaf hs none ks vs }).blocks[j]? = some b := hjb
    rw [write_get _ _ _ h0l0] at hjb'
    by_cases e : j = 0
    · rw [if_pos e] at hjb'; injection hjb' with hjb'; subst hjb'; simp [Node.parent] at hq
    · rw [if_neg e, hs0b] at hjb'; exact g.range j b hjb' q hq

/-- re-writing a block whose cache entries are already there keeps the caches (up to order) -/
theorem write_cache_perm (X : Blob) (j : Nat) (b : Block) (p : Option Nat)
    (M : List (KeyId × Nat)) (Mh : List (Hash × Nat)) (hk : X.k2i ~ M) (hh : X.h2i ~ Mh)
    (hMn : (M.map (·.1)).Nodup) (hMhn : (Mh.map (·.1)).Nodup)
    (hmem : ∀ h q k v, b.node = .leaf h q k v → (k, j) ∈ M ∧ (h, j) ∈ Mh) :
    (X.write j { b with node := b.node.setParent p }).k2i ~ M
      ∧ (X.write j { b with node := b.node.setParent p }).h2i ~ Mh := by
  obtain ⟨d, n⟩ := b
  cases n with
  | internal h q l r => exact ⟨hk, hh⟩
  | leaf h q k v =>
    obtain ⟨m1, m2⟩ := hmem h q k v rfl
    constructor
    · show mapInsert X.k2i k j ~ M
      exact (mapInsert_perm_same X.k2i k j ((hk.map (·.1)).nodup_iff.mpr hMn) (hk.mem_iff.mpr m1)).trans hk
    · show mapInsert X.h2i h j ~ Mh
      exact (mapInsert_perm_same X.h2i h j ((hh.map (·.1)).nodup_iff.mpr hMhn) (hh.mem_iff.mpr m2)).trans hh

/-- **`delete` when the leaf's parent is the root and the sibling is an internal node** -/
theorem delete_promote_node_good {s : Blob} {t : IT} (g : Good s t) {idx : Nat} {key : KeyId} {v0 : ValueId} {oh : Hash}
    (hleaf : (idx, key, v0, oh) ∈ t.leaves)
    (hb : s.blocks[idx]? = some { dirty := false, node := .leaf oh (some 0) key v0 })
    {dp : Bool} {ph : Hash} {pl pr : Nat}
    (hpb : s.blocks[0]? = some { dirty := dp, node := .internal ph none pl pr })
    (hch : idx = pl ∨ idx = pr) {sibIdx : Nat} (hsd : (if idx = pr then pl else pr) = sibIdx)
    {a b : IT} {ds : Bool} {hs : Hash}
    (hsb : s.blocks[sibIdx]? = some { dirty := ds, node := .internal hs (some 0) a.idx b.idx })
    (hra : Rep s.blocks (some sibIdx) a) (hrb : Rep s.blocks (some sibIdx) b)
    (hperm : t.indices ~ 0 :: idx :: sibIdx :: (a.indices ++ b.indices))
    (hlv : t.leaves.filter (fun e => e.1 ≠ idx) = a.leaves ++ b.leaves) :
    ∃ S, delete key s = (.ok (), S) ∧ Good S (.node 0 a b)
      ∧ (LH s.blocks none (.node sibIdx a b) → LH S.blocks none (.node 0 a b)) := by
  have hg := g.mapGet_k2i hleaf
  simp only at hg
  have hnd := hperm.nodup_iff.mp g.nodup
  simp only [List.nodup_cons, List.mem_cons, List.mem_append, not_or] at hnd
  obtain ⟨⟨h0i, h0s, h0a, h0b⟩, ⟨his, hia, hib⟩, ⟨hsa, hsbb⟩, hab⟩ := hnd
  obtain ⟨han, hbn, habd⟩ := T.nodup_append' hab
  have memT : ∀ j, j ∈ t.indices ↔ (j = 0 ∨ j = idx ∨ j = sibIdx ∨ j ∈ a.indices ∨ j ∈ b.indices) := by
    intro j; rw [hperm.mem_iff]; simp
  have hlive : ∀ j, j ∈ t.indices → j < s.blocks.length ∧ j ∉ s.free := fun j hj => (g.live_iff j).mpr hj
  have h0m : (0 : Nat) ∈ t.indices := (memT 0).mpr (Or.inl rfl)
  have hlam : a.idx ∈ t.indices := (memT _).mpr (Or.inr (Or.inr (Or.inr (Or.inl a.idx_mem))))
  have hlbm : b.idx ∈ t.indices := (memT _).mpr (Or.inr (Or.inr (Or.inr (Or.inr b.idx_mem))))
  have hsm : sibIdx ∈ t.indices := (memT _).mpr (Or.inr (Or.inr (Or.inl rfl)))
  have hidxm : idx ∈ t.indices := (memT _).mpr (Or.inr (Or.inl rfl))
  have hla0 : a.idx ≠ 0 := fun e => h0a (e ▸ a.idx_mem)
  have hlb0 : b.idx ≠ 0 := fun e => h0b (e ▸ b.idx_mem)
  have hlab : a.idx ≠ b.idx := fun e => habd _ a.idx_mem (e ▸ b.idx_mem)
  have hlai : a.idx ≠ idx := fun e => hia (e ▸ a.idx_mem)
  have hlbi : b.idx ≠ idx := fun e => hib (e ▸ b.idx_mem)
  obtain ⟨ba, hba⟩ : ∃ x, s.blocks[a.idx]? = some x := ⟨s.blocks[a.idx]'(hlive _ hlam).1, List.getElem?_eq_getElem _⟩
  obtain ⟨bb, hbb⟩ : ∃ x, s.blocks[b.idx]? = some x := ⟨s.blocks[b.idx]'(hlive _ hlbm).1, List.getElem?_eq_getElem _⟩
  -- run
  rw [delete_start_run key s idx false oh (some 0) v0 hg hb]
  generalize hs0 : ({ s with k2i := mapErase s.k2i key, h2i := mapErase s.h2i oh, free := freeInsert s.free idx } : Blob) = s0
  have hs0b : s0.blocks = s.blocks := by rw [← hs0]
  have hs0f : s0.free = freeInsert s.free idx := by rw [← hs0]
  have hs0k : s0.k2i = mapErase s.k2i key := by rw [← hs0]
  have hs0h : s0.h2i = mapErase s.h2i oh := by rw [← hs0]
  have hl0 : a.idx < s0.blocks.length := by rw [hs0b]; exact (hlive _ hlam).1
  generalize hX1 : s0.write a.idx { ba with node := ba.node.setParent (some 0) } = X1
  have hl1 : b.idx < X1.blocks.length := by rw [← hX1, write_len _ _ _ hl0, hs0b]; exact (hlive _ hlbm).1
  have hbb1 : X1.blocks[b.idx]? = some bb := by
    rw [← hX1, write_get _ _ _ hl0, if_neg (fun e => hlab e.symm), hs0b]; exact hbb
  generalize hX2 : X1.write b.idx { bb with node := bb.node.setParent (some 0) } = X2
  have hl2 : 0 < X2.blocks.length := by
    rw [← hX2, write_len _ _ _ hl1, ← hX1, write_len _ _ _ hl0, hs0b]; exact (hlive _ h0m).1
  generalize hF : X2.write 0 { dirty := ds, node := .internal hs none a.idx b.idx } = F
  have eB : ∀ j, F.blocks[j]? = if j = 0 then some { dirty := ds, node := .internal hs none a.idx b.idx }
      else if j = b.idx then some { bb with node := bb.node.setParent (some 0) }
      else if j = a.idx then some { ba with node := ba.node.setParent (some 0) } else s.blocks[j]? := by
    intro j
    rw [← hF, write_get _ _ _ hl2, ← hX2, write_get _ _ _ hl1, ← hX1, write_get _ _ _ hl0, hs0b]
  have eL : F.blocks.length = s.blocks.length := by
    rw [← hF, write_len _ _ _ hl2, ← hX2, write_len _ _ _ hl1, ← hX1, write_len _ _ _ hl0, hs0b]
  have eFf : F.free = freeInsert s.free idx := by
    rw [← hF, write_free, ← hX2, write_free, ← hX1, write_free, hs0f]
    have n1 : a.idx ∉ freeInsert s.free idx := by
      rw [mem_freeInsert]; rintro (h | h)
      · exact (hlive _ hlam).2 h
      · exact hlai h
    have n2 : b.idx ∉ freeInsert s.free idx := by
      rw [mem_freeInsert]; rintro (h | h)
      · exact (hlive _ hlbm).2 h
      · exact hlbi h
    have n3 : (0 : Nat) ∉ freeInsert s.free idx := by
      rw [mem_freeInsert]; rintro (h | h)
      · exact (hlive _ h0m).2 h
      · exact h0i h
    rw [List.erase_of_not_mem n1, List.erase_of_not_mem n2, List.erase_of_not_mem n3]
  have hrun := delete_promote_node_run s0 idx 0 dp ph pl pr (by rw [hs0b]; exact hpb) hch ds hs (some 0) a.idx b.idx
    (by rw [hsd, hs0b]; exact hsb) ba (by rw [hs0b]; exact hba) bb (by rw [hX1]; exact hbb1) F
    (by rw [← hF, ← hX2, ← hX1]) (by rw [hs0b]; exact (hlive _ h0m).1)
    (by rw [hsd, eFf, mem_freeInsert]; rintro (h | h)
        · exact (hlive _ hsm).2 h
        · exact his h.symm)
    (by rw [eFf, mem_freeInsert]; rintro (h | h)
        · exact (hlive _ h0m).2 h
        · exact h0i h)
  rw [hrun, hsd]
  have hsameF : ∀ j, j ≠ 0 → dirtyB F.blocks j = dirtyB s.blocks j ∧ hashB F.blocks j = hashB s.blocks j := by
    intro j hj0
    have hsp : ∀ (y : Block), (y.node.setParent (some 0)).hash = y.node.hash := by
      intro y; cases y.node <;> rfl
    by_cases e1 : j = b.idx
    · rw [e1]
      have : F.blocks[b.idx]? = some { bb with node := bb.node.setParent (some 0) } := by
        rw [eB b.idx, if_neg hlb0, if_pos rfl]
      simp [dirtyB, hashB, blockAt, this, hbb, hsp]
    · by_cases e2 : j = a.idx
      · rw [e2]
        have : F.blocks[a.idx]? = some { ba with node := ba.node.setParent (some 0) } := by
          rw [eB a.idx, if_neg hla0, if_neg hlab, if_pos rfl]
        simp [dirtyB, hashB, blockAt, this, hba, hsp]
      · have : F.blocks[j]? = s.blocks[j]? := by rw [eB j, if_neg hj0, if_neg e1, if_neg e2]
        simp [dirtyB, hashB, blockAt, this]
  refine ⟨_, rfl, ?_, ?_⟩
  rotate_left
  · intro hlh
    show LH F.blocks none (.node 0 a b)
    obtain ⟨la, lb, c⟩ := hlh
    have h0F : F.blocks[0]? = some { dirty := ds, node := .internal hs none a.idx b.idx } := by rw [eB 0, if_pos rfl]
    refine ⟨LH.congr (fun j hj => hsameF j (fun e => h0a (e ▸ hj))) la,
      LH.congr (fun j hj => hsameF j (fun e => h0b (e ▸ hj))) lb, ?_⟩
    intro _ hd
    have hd0 : dirtyB s.blocks sibIdx = false := by
      simpa [dirtyB, blockAt, h0F, hsb] using hd
    have := c (by simp) hd0
    rw [(hsameF _ hla0).1, (hsameF _ hlb0).1, (hsameF _ hla0).2, (hsameF _ hlb0).2]
    refine ⟨this.1, this.2.1, ?_⟩
    have e0 : hashB F.blocks 0 = hashB s.blocks sibIdx := by simp [hashB, blockAt, h0F, hsb, Node.hash]
    rw [e0]; exact this.2.2
  -- caches
  obtain ⟨ek, eh⟩ := g.erased_caches hleaf
  rw [hlv] at ek eh
  have hMn : (((a.leaves ++ b.leaves).map (fun e => (e.2.1, e.1))).map (·.1)).Nodup := by
    rw [List.map_map, ← hlv]
    exact g.keys.sublist ((List.filter_sublist).map _)
  have hMhn : (((a.leaves ++ b.leaves).map (fun e => (e.2.2.2, e.1))).map (·.1)).Nodup := by
    rw [List.map_map, ← hlv]
    exact g.hashes.sublist ((List.filter_sublist).map _)
  have inM : ∀ (c : IT), (c = a ∨ c = b) → ∀ (x : Block), s.blocks[c.idx]? = some x → ∀ h q k v, x.node = .leaf h q k v →
      (k, c.idx) ∈ (a.leaves ++ b.leaves).map (fun e => (e.2.1, e.1))
        ∧ (h, c.idx) ∈ (a.leaves ++ b.leaves).map (fun e => (e.2.2.2, e.1)) := by
    intro c hc x hx h q k v hn
    have hcm : c.idx ∈ t.indices := by rcases hc with e | e <;> rw [e] <;> assumption
    obtain ⟨d, n⟩ := x
    simp only at hn; subst hn
    obtain ⟨hm, _⟩ := g.leaf_mem hcm hx
    have hne : c.idx ≠ idx := by rcases hc with e | e <;> rw [e] <;> assumption
    have : (c.idx, k, v, h) ∈ a.leaves ++ b.leaves := by
      rw [← hlv]; exact List.mem_filter.mpr ⟨hm, by simpa using hne⟩
    exact ⟨List.mem_map.mpr ⟨_, this, rfl⟩, List.mem_map.mpr ⟨_, this, rfl⟩⟩
  have c1 := write_cache_perm s0 a.idx ba (some 0) _ _ (by rw [hs0k]; exact ek) (by rw [hs0h]; exact eh) hMn hMhn
    (inM a (Or.inl rfl) ba hba)
  rw [hX1] at c1
  have c2 := write_cache_perm X1 b.idx bb (some 0) _ _ c1.1 c1.2 hMn hMhn (inM b (Or.inr rfl) bb hbb)
  rw [hX2] at c2
  have eFk : F.k2i ~ (a.leaves ++ b.leaves).map (fun e => (e.2.1, e.1)) := by rw [← hF]; exact c2.1
  have eFh : F.h2i ~ (a.leaves ++ b.leaves).map (fun e => (e.2.2.2, e.1)) := by rw [← hF]; exact c2.2
  -- the invariant
  have reparent : ∀ (c : IT) (x : Block), (c = a ∨ c = b) → Rep s.blocks (some sibIdx) c → s.blocks[c.idx]? = some x →
      F.blocks[c.idx]? = some { x with node := x.node.setParent (some 0) } →
      (∀ j ∈ c.indices.tail, j ≠ 0 ∧ j ≠ a.idx ∧ j ≠ b.idx) → Rep F.blocks (some 0) c := by
    intro c x _ hc hx hFx hrest
    refine hc.reparent (fun y hy => by rw [hx] at hy; injection hy with hy; subst hy; exact hFx) ?_
    intro j hj
    obtain ⟨n1, n2, n3⟩ := hrest j hj
    rw [eB j, if_neg n1, if_neg n3, if_neg n2]
  have tailNe : ∀ (c : IT), c.indices.Nodup → ∀ j ∈ c.indices.tail, j ≠ c.idx := by
    intro c hcn j hj e
    cases c with
    | leaf _ _ _ _ => simp [IT.indices] at hj
    | node i l r =>
      simp only [IT.indices, List.tail_cons] at hj
      simp only [IT.indices, List.nodup_cons] at hcn
      simp only [IT.idx] at e
      exact hcn.1 (e ▸ hj)
  refine ⟨?_, rfl, ?_, ?_, ?_, ?_, ?_, ?_, ?_, ?_⟩
  · show Rep F.blocks none (.node 0 a b)
    simp only [Rep]
    refine ⟨⟨ds, hs, by rw [eB 0, if_pos rfl]⟩, ?_, ?_⟩
    · refine reparent a ba (Or.inl rfl) hra hba (by rw [eB a.idx, if_neg hla0, if_neg hlab, if_pos rfl]) ?_
      intro j hj
      have hjm := List.mem_of_mem_tail hj
      exact ⟨fun e => h0a (e ▸ hjm), tailNe a han j hj, fun e => habd j hjm (e ▸ b.idx_mem)⟩
    · refine reparent b bb (Or.inr rfl) hrb hbb (by rw [eB b.idx, if_neg hlb0, if_pos rfl]) ?_
      intro j hj
      have hjm := List.mem_of_mem_tail hj
      exact ⟨fun e => h0b (e ▸ hjm), fun e => habd a.idx a.idx_mem (e ▸ hjm), tailNe b hbn j hj⟩
  · simp only [IT.indices, List.nodup_cons, List.mem_append, not_or]
    exact ⟨⟨h0a, h0b⟩, hab⟩
  · show (freeInsert F.free sibIdx).Nodup
    rw [eFf]; exact freeInsert_nodup _ _ (freeInsert_nodup _ _ g.freeNodup)
  · intro j
    show j ∈ freeInsert F.free sibIdx ↔ j < F.blocks.length ∧ _
    rw [eFf, eL, mem_freeInsert, mem_freeInsert, g.free j, memT j]
    simp only [IT.indices, List.mem_cons, List.mem_append]
    constructor
    · rintro ((⟨h1, h2⟩ | h) | h)
      · refine ⟨h1, ?_⟩
        rintro (e | e | e)
        · exact h2 (Or.inl e)
        · exact h2 (Or.inr (Or.inr (Or.inr (Or.inl e))))
        · exact h2 (Or.inr (Or.inr (Or.inr (Or.inr e))))
      · rw [h]
        refine ⟨(hlive _ hidxm).1, ?_⟩
        rintro (e | e | e)
        · exact h0i e.symm
        · exact hia e
        · exact hib e
      · rw [h]
        refine ⟨(hlive _ hsm).1, ?_⟩
        rintro (e | e | e)
        · exact h0s e.symm
        · exact hsa e
        · exact hsbb e
    · rintro ⟨h1, h2⟩
      by_cases e1 : j = idx
      · exact Or.inl (Or.inr e1)
      · by_cases e2 : j = sibIdx
        · exact Or.inr e2
        · refine Or.inl (Or.inl ⟨h1, ?_⟩)
          rintro (e | e | e | e | e)
          · exact h2 (Or.inl e)
          · exact e1 e
          · exact e2 e
          · exact h2 (Or.inr (Or.inl e))
          · exact h2 (Or.inr (Or.inr e))
  · show F.k2i ~ _
    simpa [IT.leaves] using eFk
  · show F.h2i ~ _
    simpa [IT.leaves] using eFh
  · simp only [IT.leaves]; rw [← hlv]; exact g.keys.sublist ((List.filter_sublist).map _)
  · simp only [IT.leaves]; rw [← hlv]; exact g.hashes.sublist ((List.filter_sublist).map _)
  · intro j x hjx q hq
    show q < F.blocks.length
    rw [eL]
    have hjx' : F.blocks[j]? = some x := hjx
    rw [eB j] at hjx'
    have h0l := (hlive _ h0m).1
    have par0 : ∀ (y : Block), ({ y with node := y.node.setParent (some 0) } : Block).node.parent = some q → q < s.blocks.length := by
      intro y hy
      have : q = 0 := by cases hn : y.node <;> simp [hn, Node.setParent, Node.parent] at hy <;> exact hy.symm
      rw [this]; exact h0l
    by_cases e0 : j = 0
    · rw [if_pos e0] at hjx'; injection hjx' with hjx'; subst hjx'; simp [Node.parent] at hq
    · rw [if_neg e0] at hjx'
      by_cases e1 : j = b.idx
      · rw [if_pos e1] at hjx'; injection hjx' with hjx'; subst hjx'; exact par0 bb hq
      · rw [if_neg e1] at hjx'
        by_cases e2 : j = a.idx
        · rw [if_pos e2] at hjx'; injection hjx' with hjx'; subst hjx'; exact par0 ba hq
        · rw [if_neg e2] at hjx'; exact g.range j x hjx' q hq

/-! ### `delete` refines `Tree.delete` -/

theorem T.del_not_mem (k : KeyId) (t : T) (h : k ∉ t.keys) : t.del k = some t := by
  induction t with
  | leaf k' v hh =>
    simp only [T.keys, List.mem_singleton] at h
    simp only [T.del]
    rw [if_neg (fun e : k' = k => h e.symm)]
  | node l r ihl ihr =>
    simp only [T.keys, List.mem_append, not_or] at h
    simp only [T.del, ihl h.1, ihr h.2]

theorem delete_absent_run (key : KeyId) (s : Blob) (hg : mapGet s.k2i key = none) :
    delete key s = (.error .err, s) := by
  unfold delete
  show (getLeafByKey key >>= _) s = _
  rw [bind_run, getLeafByKey_run, hg]

theorem del_refines {s : Blob} {t : Option IT} (hs : SInv s t) (k : KeyId) : Refines (.del k) s t := by
  unfold Refines
  cases t with
  | none =>
    simp only [SInv] at hs
    subst hs
    refine ⟨none, ?_, rfl, ?_, fun _ => trivial⟩
    · simp only [step]; rw [delete_absent_run k _ rfl]; rfl
    · simp only [step]; rw [delete_absent_run k _ rfl]
      simp [Tree.step, Tree.delete, Tree.orKeep, errOf]
  | some t0 =>
    have g : Good s t0 := hs
    simp only [Option.map_some, step, Tree.step]
    cases hg : mapGet s.k2i k with
    | none =>
      have hkm : k ∉ t0.erase.keys := by
        intro hm; have := (g.mem_keys_iff k).mpr hm; rw [hg] at this; cases this
      rw [delete_absent_run k s hg]
      refine ⟨some t0, g, ?_, ?_, id⟩
      · simp only [Tree.delete, if_neg hkm, Tree.orKeep, Option.map_some]
      · simp [Tree.delete, if_neg hkm, Tree.orKeep, errOf]
    | some idx =>
      have hkm : k ∈ t0.erase.keys := (g.mem_keys_iff k).mp (by rw [hg]; rfl)
      obtain ⟨v0, oh, hleaf⟩ := g.leaf_of_key hg
      obtain ⟨p, hb⟩ := g.rep.leaf_block hleaf
      simp only at hb
      have hinv := g.linv
      have hidxm : idx ∈ t0.indices := t0.leaf_idx_mem _ hleaf
      have hlive := (g.live_iff idx).mpr hidxm
      -- what the L1 side does, given the resulting tree
      have finish : ∀ (S : Blob) (t' : Option IT), delete k s = (.ok (), S) → SInv S t' →
          t0.erase.del k = t'.map IT.erase → (LHo s.blocks (some t0) → LHo S.blocks t') →
          ∃ t'', SInv (delete k s).2 t'' ∧ t''.map IT.erase = (Tree.orKeep (some t0.erase) (Tree.delete k (some t0.erase))).2
            ∧ (errOf (delete k s).1 = none ↔ (Tree.orKeep (some t0.erase) (Tree.delete k (some t0.erase))).1 = true)
            ∧ (LHo s.blocks (some t0) → LHo (delete k s).2.blocks t'') := by
        intro S t' hrun hS hdel hlh
        rw [hrun]
        refine ⟨t', hS, ?_, ?_, hlh⟩
        · simp only [Tree.delete, if_pos hkm, Tree.orKeep, hdel]
        · simp [Tree.delete, if_pos hkm, Tree.orKeep, errOf]
      cases p with
      | none =>
        -- the only leaf
        have hroot : idx = t0.idx := by
          cases Classical.em (idx = t0.idx) with
          | inl h => exact h
          | inr h =>
            obtain ⟨q, _, hq, _⟩ := (g.rep.info g.nodup idx hidxm).parent h
            simp [parentOfL, hb, Node.parent] at hq
        cases t0 with
        | node i l r =>
          have hr := g.rep
          simp only [Rep] at hr
          obtain ⟨⟨d, hh, hib⟩, _, _⟩ := hr
          simp only [IT.idx] at hroot
          rw [← hroot, hb] at hib; injection hib with hib; injection hib with _ hn; cases hn
        | leaf i k' v' h' =>
          simp only [IT.leaves, List.mem_singleton, Prod.mk.injEq] at hleaf
          obtain ⟨e1, e2, e3, e4⟩ := hleaf
          subst e1; subst e2; subst e3; subst e4
          refine finish Blob.empty none ?_ rfl ?_ (fun _ => trivial)
          · rw [delete_start_run k s idx false oh none v0 hg hb]; rfl
          · simp only [IT.erase, T.del, if_true, Option.map_none]
      | some pi =>
        obtain ⟨hpf, dp, ph, pp, pl, pr, hpb, hch⟩ := hinv.parent_of hlive.2 hb rfl
        have hkey := g.key_iff_idx hleaf
        have hrootNe : t0.idx ≠ idx := by
          intro e
          have := g.rep.root_parent
          rw [e] at this
          simp [parentOfL, hb, Node.parent] at this
        have hnl : IT.isLeafAt idx t0 = false := by
          cases hbb : IT.isLeafAt idx t0 with
          | false => rfl
          | true => exact absurd (IT.isLeafAt_mem idx t0 hbb).2 hrootNe
        have hL1 : t0.erase.del k = some (IT.prune idx t0).erase := by
          rw [IT.prune_erase idx k t0 g.nodup hkey, hnl]; rfl
        cases pp with
        | some gi =>
          obtain ⟨S, hrun, gS, hlh⟩ := delete_splice_good g hleaf hb hpb
          exact finish S (some (IT.prune idx t0)) hrun gS (by rw [hL1]; rfl) hlh
        | none =>
          -- the parent is the root
          have hpl : pi < s.blocks.length := (List.getElem?_eq_some_iff.mp hpb).1
          have hpim := (g.live_iff pi).mp ⟨hpl, hpf⟩
          have hpi0 : pi = 0 := by
            cases Classical.em (pi = t0.idx) with
            | inl h => rw [h, g.root]
            | inr h =>
              obtain ⟨q, _, hq, _⟩ := (g.rep.info g.nodup pi hpim).parent h
              simp [parentOfL, hpb, Node.parent] at hq
          subst hpi0
          cases t0 with
          | leaf i k' v' h' =>
            have hr := g.rep
            simp only [Rep] at hr
            have h0 := g.root
            simp only [IT.idx] at h0
            rw [h0, hpb] at hr; injection hr with hr; injection hr with _ hn; cases hn
          | node i l r =>
            have h0 := g.root
            simp only [IT.idx] at h0
            subst h0
            have hr := g.rep
            simp only [Rep] at hr
            obtain ⟨⟨d, hh, hib⟩, hl, hr'⟩ := hr
            rw [hpb] at hib
            injection hib with hib; injection hib with _ hn; injection hn with _ _ e3 e4
            have hnd := g.nodup
            simp only [IT.indices, List.nodup_cons, List.mem_append, not_or] at hnd
            obtain ⟨⟨h0l, h0r⟩, hlr⟩ := hnd
            obtain ⟨hln, hrn, hdis⟩ := T.nodup_append' hlr
            -- the child at index idx is the leaf itself
            have isLeaf : ∀ x : IT, Rep s.blocks (some 0) x → x.idx = idx → x = .leaf idx k v0 oh := by
              intro x hx hxi
              cases x with
              | leaf j a b c =>
                simp only [IT.idx] at hxi
                simp only [Rep] at hx
                rw [hxi, hb] at hx
                injection hx with hx; injection hx with _ hn; injection hn with a1 _ a3 a4
                rw [hxi, a1, a3, a4]
              | node j a b =>
                simp only [Rep] at hx
                obtain ⟨⟨d3, h3, hb3⟩, _, _⟩ := hx
                simp only [IT.idx] at hxi
                rw [hxi, hb] at hb3; injection hb3 with hb3; injection hb3 with _ hn; cases hn
            -- promote `sub`, the sibling subtree, given the shape of the tree
            have promote : ∀ (sub : IT), Rep s.blocks (some 0) sub → sub.idx = (if idx = pr then pl else pr) →
                idx ∉ sub.indices → (IT.node 0 l r).indices ~ 0 :: idx :: sub.indices →
                (IT.node 0 l r).leaves.filter (fun e => e.1 ≠ idx) = sub.leaves →
                (IT.node 0 l r).erase.del k = some sub.erase →
                (LH s.blocks none (IT.node 0 l r) → LH s.blocks none sub) →
                ∃ t'', SInv (delete k s).2 t'' ∧ t''.map IT.erase
                    = (Tree.orKeep (some (IT.node 0 l r).erase) (Tree.delete k (some (IT.node 0 l r).erase))).2
                  ∧ (errOf (delete k s).1 = none ↔
                    (Tree.orKeep (some (IT.node 0 l r).erase) (Tree.delete k (some (IT.node 0 l r).erase))).1 = true)
                  ∧ (LHo s.blocks (some (IT.node 0 l r)) → LHo (delete k s).2.blocks t'') := by
              intro sub hsub hsi hisub hperm hlv hdel hsubLH
              cases sub with
              | leaf j ks vs hs' =>
                simp only [IT.idx] at hsi
                simp only [Rep] at hsub
                obtain ⟨S, hrun, gS⟩ := delete_promote_leaf_good g hleaf hb hpb hch hsi.symm hsub
                  (by simpa [IT.indices] using hperm) (by simpa [IT.leaves] using hlv)
                exact finish S (some (.leaf 0 ks vs hs')) hrun gS (by rw [hdel]; rfl) (fun _ => trivial)
              | node j a b =>
                simp only [IT.idx] at hsi
                have hsub' := hsub
                simp only [Rep] at hsub
                obtain ⟨⟨ds, hs', hjb⟩, hra, hrb⟩ := hsub
                obtain ⟨S, hrun, gS, hlh⟩ := delete_promote_node_good g hleaf hb hpb hch hsi.symm hjb hra hrb
                  (by simpa [IT.indices] using hperm) (by simpa [IT.leaves] using hlv)
                refine finish S (some (.node 0 a b)) hrun gS (by rw [hdel]; rfl) (fun h0 => hlh ?_)
                exact hsubLH h0
            have keep : ∀ c : IT, idx ∉ c.indices → c.leaves.filter (fun e => e.1 ≠ idx) = c.leaves := by
              intro c hc
              rw [List.filter_eq_self]
              intro e he
              simp only [ne_eq, decide_eq_true_eq]
              intro hei
              exact hc (hei ▸ c.leaf_idx_mem e he)
            have noKey : ∀ c : IT, (∀ e ∈ c.leaves, e ∈ (IT.node 0 l r).leaves) → idx ∉ c.indices → k ∉ c.erase.keys := by
              intro c hsubl hc hm
              rw [T.keys_eq, IT.erase_entries, List.map_map] at hm
              obtain ⟨e, he, hek⟩ := List.mem_map.mp hm
              exact hc ((hkey e (hsubl e he)).mp hek ▸ c.leaf_idx_mem e he)
            rcases hch with hc | hc
            · -- the deleted leaf is the left child
              have hl0 := isLeaf l hl (by rw [← e3]; exact hc.symm)
              subst hl0
              have hir : idx ∉ r.indices := fun h' => hdis idx (by simp [IT.indices]) h'
              refine promote r hr' ?_ hir ?_ ?_ ?_ (fun h0 => h0.2.1)
              · rw [← e4]
                have : idx ≠ pr := by
                  intro e; apply hir; rw [e, e4]; exact r.idx_mem
                rw [if_neg this]
              · simp only [IT.indices, List.singleton_append]; exact List.Perm.refl _
              · simp only [IT.leaves, List.filter_append, keep r hir]
                simp
              · simp only [IT.erase, T.del, if_true]
            · -- the deleted leaf is the right child
              have hr0 := isLeaf r hr' (by rw [← e4]; exact hc.symm)
              subst hr0
              have hil : idx ∉ l.indices := fun h' => hdis idx h' (by simp [IT.indices])
              refine promote l hl ?_ hil ?_ ?_ ?_ (fun h0 => h0.1)
              · rw [← e3, if_pos hc]
              · simp only [IT.indices]
                exact List.Perm.cons 0 (List.perm_append_comm.trans (by simp))
              · simp only [IT.leaves, List.filter_append, keep l hil]
                simp
              · simp only [IT.erase, T.del, if_true]
                rw [T.del_not_mem k l.erase (noKey l (fun e he => by simp [IT.leaves, he]) hil)]

end ChiaModel.Blob
