import ChiaModel.Lemmas.BlobRep2
/-
C18: the hash invariant (stored hashes right up to dirtiness) in local form on the blocks of a stored
tree, and the dirty-marking walk, which re-establishes it.
-/
namespace ChiaModel.Blob
open List M

def blockAt (bl : List Block) (i : Nat) : Block := (bl[i]?).getD Block.zero

theorem SameShape.write {a b : Blob} (h : SameShape a b) (j : Nat) (B : Block) (hj : j < a.blocks.length) :
    SameShape (a.write j B) (b.write j B) := by
  have hj' : j < b.blocks.length := by rw [h.len]; exact hj
  refine ⟨?_, ?_, ?_, ?_, ?_⟩
  · rw [write_free, write_free, h.free]
  · obtain ⟨d, n⟩ := B
    cases n <;> simp [Blob.write, h.k2i]
  · obtain ⟨d, n⟩ := B
    cases n <;> simp [Blob.write, h.h2i]
  · rw [write_len _ _ _ hj', write_len _ _ _ hj, h.len]
  · intro x
    rw [write_get _ _ _ hj', write_get _ _ _ hj]
    by_cases hx : x = j
    · rw [if_pos hx, if_pos hx]; exact Or.inl rfl
    · rw [if_neg hx, if_neg hx]; exact h.blk x

/-- the parent of a live internal block is a live internal block -/
def PI (s : Blob) : Prop :=
  ∀ i, i ∉ s.free → ∀ d h q l r, s.blocks[i]? = some { dirty := d, node := .internal h (some q) l r } →
    q ∉ s.free ∧ ∃ d' h' p' l' r', s.blocks[q]? = some { dirty := d', node := .internal h' p' l' r' }

theorem PI.sameShape {s T : Blob} (h : SameShape s T) (p : PI s) : PI T := by
  intro i hi d hh q l r hb
  rw [h.free] at hi ⊢
  have key : ∃ d0 h0, s.blocks[i]? = some { dirty := d0, node := .internal h0 (some q) l r } := by
    rcases h.blk i with e | ⟨d1, d2, h1, h2, p1, l1, r1, e1, e2⟩
    · exact ⟨d, hh, by rw [← e]; exact hb⟩
    · rw [e2] at hb; injection hb with hb; injection hb with _ hn; injection hn with _ a1 a2 a3
      subst a1; subst a2; subst a3
      exact ⟨d1, h1, e1⟩
  obtain ⟨d0, h0, hb0⟩ := key
  obtain ⟨hq, d', h', p', l', r', hqb⟩ := p i hi d0 h0 q l r hb0
  refine ⟨hq, ?_⟩
  rcases h.blk q with e | ⟨d1, d2, h1, h2, p1, l1, r1, e1, e2⟩
  · exact ⟨d', h', p', l', r', by rw [e]; exact hqb⟩
  · exact ⟨_, _, _, _, _, e2⟩

theorem LInv.pi {s : Blob} (hinv : LInv s) : PI s := by
  intro i hi d hh q l r hb
  obtain ⟨hqf, dq, qh, qp, ql, qr, hqb, _⟩ := hinv.parent_of hi hb rfl
  exact ⟨hqf, dq, qh, qp, ql, qr, hqb⟩

/-- the dirty-marking walk only changes dirty flags of internal blocks (needs only `PI`) -/
theorem markDirtyAux_sameShape' (f : Nat) (i : Nat) (s : Blob) (hp : PI s) (hi : i ∉ s.free)
    (hb : ∃ d h p l r, s.blocks[i]? = some { dirty := d, node := .internal h p l r }) :
    SameShape s (markDirtyAux f i s).2 := by
  induction f generalizing i s with
  | zero => exact SameShape.refl s
  | succ f ih =>
    obtain ⟨d, h, p, l, r, hb⟩ := hb
    have hil : i < s.blocks.length := (List.getElem?_eq_some_iff.mp hb).1
    unfold markDirtyAux
    simp only [bind_run, getBlock_run, hb]
    cases d with
    | true => simp only [if_true]; exact SameShape.refl s
    | false =>
      simp only [Bool.false_eq_true, if_false, Node.parent]
      have hss := sameShape_write s i false true h h p l r hb hi
      have hT := PI.sameShape hss hp
      cases p with
      | none =>
        have hw : writeBlock i { dirty := true, node := .internal h none l r } s
            = (.ok (), s.write i { dirty := true, node := .internal h none l r }) := by
          rw [writeBlock_run, if_neg (Nat.not_lt.mpr (Nat.le_of_lt hil))]
        simp only [bind_run, hw, pure_run]
        exact hss
      | some q =>
        have hw : writeBlock i { dirty := true, node := .internal h (some q) l r } s
            = (.ok (), s.write i { dirty := true, node := .internal h (some q) l r }) := by
          rw [writeBlock_run, if_neg (Nat.not_lt.mpr (Nat.le_of_lt hil))]
        simp only [bind_run, hw]
        obtain ⟨hqf, dq, qh, qp, ql, qr, hqb⟩ := hp i hi false h q l r hb
        refine hss.trans (ih q _ hT (by rw [hss.free]; exact hqf) ?_)
        rcases hss.blk q with e | ⟨d1, d2, h1, h2, p1, l1, r1, e1, e2⟩
        · exact ⟨_, _, _, _, _, by rw [e]; exact hqb⟩
        · exact ⟨_, _, _, _, _, e2⟩

theorem markLineageDirty_sameShape' (i : Nat) (s : Blob) (hp : PI s) (hi : i ∉ s.free)
    (hb : ∃ d h p l r, s.blocks[i]? = some { dirty := d, node := .internal h p l r }) :
    SameShape s (markLineageDirty i s).2 := by
  unfold markLineageDirty
  simp only [bind_run, M.get]
  exact markDirtyAux_sameShape' _ i s hp hi hb

/-! ### the hash invariant on the blocks of a stored tree -/

def dirtyB (bl : List Block) (j : Nat) : Bool := (blockAt bl j).dirty
def hashB (bl : List Block) (j : Nat) : Hash := (blockAt bl j).node.hash

/-- local hash invariant of the stored tree; the clause of the node `hole` is not required -/
def LH (bl : List Block) (hole : Option Nat) : IT → Prop
  | .leaf _ _ _ _ => True
  | .node i l r => LH bl hole l ∧ LH bl hole r ∧
      (some i ≠ hole → dirtyB bl i = false →
        dirtyB bl l.idx = false ∧ dirtyB bl r.idx = false
          ∧ hashB bl i = internalHash (hashB bl l.idx) (hashB bl r.idx))

theorem LH.weaken {bl : List Block} {t : IT} (hole : Option Nat) (h : LH bl none t) : LH bl hole t := by
  induction t with
  | leaf i k v hh => trivial
  | node i l r ihl ihr =>
    obtain ⟨a, b, c⟩ := h
    exact ⟨ihl a, ihr b, fun _ hd => c (by simp) hd⟩

theorem LH.congr {bl bl' : List Block} {hole : Option Nat} {t : IT}
    (hag : ∀ j ∈ t.indices, dirtyB bl' j = dirtyB bl j ∧ hashB bl' j = hashB bl j) (h : LH bl hole t) :
    LH bl' hole t := by
  induction t with
  | leaf i k v hh => trivial
  | node i l r ihl ihr =>
    obtain ⟨a, b, c⟩ := h
    have hi := hag i (by simp [IT.indices])
    have hl := hag l.idx (by simp [IT.indices, l.idx_mem])
    have hr := hag r.idx (by simp [IT.indices, r.idx_mem])
    refine ⟨ihl (fun j hj => hag j (by simp [IT.indices, hj])) a,
      ihr (fun j hj => hag j (by simp [IT.indices, hj])) b, ?_⟩
    intro hne hd
    rw [hi.1] at hd
    rw [hl.1, hr.1, hi.2, hl.2, hr.2]
    exact c hne hd

def IT.isNode : IT → Bool
  | .leaf _ _ _ _ => false
  | .node _ _ _ => true

/-- the block at the root of a child subtree: an internal block pointing back to the parent `j`, or
some leaf block -/
def kidOk (bl : List Block) (j : Nat) (a : IT) : Prop :=
  if a.isNode then ∃ (d : Bool) (h : Hash) (l r : Nat), bl[a.idx]? = some ({ dirty := d, node := .internal h (some j) l r } : Block)
  else ∃ (d : Bool) (h : Hash) (q : Option Nat) (k : KeyId) (v : ValueId),
    bl[a.idx]? = some ({ dirty := d, node := .leaf h q k v } : Block)

/-- what the dirty-marking walk needs to know about the pointers: an internal child points back to
its parent, a leaf child is stored as a leaf block -/
def KP (bl : List Block) : IT → Prop
  | .leaf _ _ _ _ => True
  | .node j a b => KP bl a ∧ KP bl b ∧ kidOk bl j a ∧ kidOk bl j b

theorem Rep.kidOk {bl : List Block} {j : Nat} {a : IT} (h : Rep bl (some j) a) : kidOk bl j a := by
  unfold Blob.kidOk
  cases a with
  | leaf i k v hh =>
    simp only [Rep] at h
    simp only [IT.isNode, Bool.false_eq_true, if_false]
    exact ⟨_, _, _, _, _, h⟩
  | node i l r =>
    simp only [Rep] at h
    obtain ⟨⟨d, hh, hb⟩, _, _⟩ := h
    simp only [IT.isNode, if_true]
    exact ⟨d, hh, _, _, hb⟩

theorem Rep.kp {bl : List Block} {p : Option Nat} {t : IT} (h : Rep bl p t) : KP bl t := by
  induction t generalizing p with
  | leaf i k v hh => trivial
  | node j a b iha ihb =>
    simp only [Rep] at h
    obtain ⟨_, ra, rb⟩ := h
    exact ⟨iha ra, ihb rb, ra.kidOk, rb.kidOk⟩

theorem kidOk.congr {bl bl' : List Block} {j : Nat} {a : IT}
    (hint : ∀ (x : Nat) (d : Bool) (h : Hash) (p : Option Nat) (l r : Nat),
      bl[x]? = some ({ dirty := d, node := .internal h p l r } : Block) →
      ∃ (d' : Bool) (h' : Hash), bl'[x]? = some ({ dirty := d', node := .internal h' p l r } : Block))
    (hleaf : ∀ (x : Nat) (d : Bool) (h : Hash) (p : Option Nat) (k : KeyId) (v : ValueId),
      bl[x]? = some ({ dirty := d, node := .leaf h p k v } : Block) →
      ∃ (d' : Bool) (h' : Hash) (p' : Option Nat) (k' : KeyId) (v' : ValueId),
        bl'[x]? = some ({ dirty := d', node := .leaf h' p' k' v' } : Block))
    (h : kidOk bl j a) : kidOk bl' j a := by
  unfold kidOk at h ⊢
  by_cases hn : a.isNode = true
  · rw [if_pos hn] at h ⊢
    obtain ⟨d, hh, l, r, hb⟩ := h
    obtain ⟨d', h', hb'⟩ := hint _ _ _ _ _ _ hb
    exact ⟨d', h', l, r, hb'⟩
  · rw [if_neg hn] at h ⊢
    obtain ⟨d, hh, q, k, v, hb⟩ := h
    exact hleaf _ _ _ _ _ _ hb

/-- `KP` only depends on the shape of the blocks -/
theorem KP.congr {bl bl' : List Block} {t : IT}
    (hint : ∀ (x : Nat) (d : Bool) (h : Hash) (p : Option Nat) (l r : Nat),
      bl[x]? = some ({ dirty := d, node := .internal h p l r } : Block) →
      ∃ (d' : Bool) (h' : Hash), bl'[x]? = some ({ dirty := d', node := .internal h' p l r } : Block))
    (hleaf : ∀ (x : Nat) (d : Bool) (h : Hash) (p : Option Nat) (k : KeyId) (v : ValueId),
      bl[x]? = some ({ dirty := d, node := .leaf h p k v } : Block) →
      ∃ (d' : Bool) (h' : Hash) (p' : Option Nat) (k' : KeyId) (v' : ValueId),
        bl'[x]? = some ({ dirty := d', node := .leaf h' p' k' v' } : Block))
    (h : KP bl t) : KP bl' t := by
  induction t with
  | leaf i k v hh => trivial
  | node j a b iha ihb =>
    obtain ⟨ka, kb, fa, fb⟩ := h
    exact ⟨iha ka, ihb kb, fa.congr hint hleaf, fb.congr hint hleaf⟩

theorem KP.sameShape {s T : Blob} (h : SameShape s T) {t : IT} (k : KP s.blocks t) : KP T.blocks t := by
  refine k.congr ?_ ?_
  · intro x d hh p l r hb
    rcases h.blk x with e | ⟨d1, d2, h1, h2, p1, l1, r1, e1, e2⟩
    · exact ⟨d, hh, by rw [e]; exact hb⟩
    · rw [hb] at e1; injection e1 with e1; injection e1 with _ hn; injection hn with _ a1 a2 a3
      subst a1; subst a2; subst a3
      exact ⟨_, _, e2⟩
  · intro x d hh p k' v hb
    rcases h.blk x with e | ⟨d1, d2, h1, h2, p1, l1, r1, e1, e2⟩
    · exact ⟨d, hh, p, k', v, by rw [e]; exact hb⟩
    · rw [hb] at e1; injection e1 with e1; injection e1 with _ hn; cases hn

/-- marking the internal node `i` dirty moves the hole to its parent -/
theorem LH.setDirty {bl bl' : List Block} {i : Nat}
    (hint : ∃ (d : Bool) (h : Hash) (p : Option Nat) (l r : Nat),
      bl[i]? = some ({ dirty := d, node := .internal h p l r } : Block))
    (hd : dirtyB bl' i = true) (hh : ∀ j, hashB bl' j = hashB bl j) (ho : ∀ j, j ≠ i → dirtyB bl' j = dirtyB bl j)
    (t : IT) : KP bl t → LH bl (some i) t → LH bl' (parentOfL bl i) t := by
  induction t with
  | leaf j k v h => intro _ _; trivial
  | node j a b iha ihb =>
    intro hkp hl
    obtain ⟨ka, kb, fa, fb⟩ := hkp
    obtain ⟨la, lb, c⟩ := hl
    refine ⟨iha ka la, ihb kb lb, ?_⟩
    intro hne hdj
    have hji : j ≠ i := by
      intro e; rw [e, hd] at hdj; cases hdj
    obtain ⟨di, hi, pi, li, ri, hbi⟩ := hint
    have kid : ∀ (c : IT), kidOk bl j c → c.idx ≠ i := by
      intro c hc e
      unfold kidOk at hc
      by_cases hn : c.isNode = true
      · rw [if_pos hn] at hc
        obtain ⟨d, h2, l, r, hb⟩ := hc
        rw [e, hbi] at hb
        injection hb with hb; injection hb with _ hn'; injection hn' with _ e2 _ _
        apply hne
        simp [parentOfL, hbi, Node.parent, e2]
      · rw [if_neg hn] at hc
        obtain ⟨d, h2, q, k, v, hb⟩ := hc
        rw [e, hbi] at hb
        injection hb with hb; injection hb with _ hn'; cases hn'
    have hai := kid a fa
    have hbi' := kid b fb
    rw [ho j hji] at hdj
    rw [ho _ hai, ho _ hbi', hh, hh, hh]
    exact c (fun e => hji (by injection e)) hdj

theorem LH.fill {bl : List Block} {i : Nat} (hd : dirtyB bl i = true) {t : IT} (h : LH bl (some i) t) :
    LH bl none t := by
  induction t with
  | leaf j k v hh => trivial
  | node j a b iha ihb =>
    obtain ⟨la, lb, c⟩ := h
    refine ⟨iha la, ihb lb, ?_⟩
    intro _ hdj
    have hji : j ≠ i := by
      intro e; rw [e, hd] at hdj; cases hdj
    exact c (fun e => hji (by injection e)) hdj

/-- the dirty-marking walk from the node whose clause is broken re-establishes the invariant -/
theorem markDirtyAux_LH (f : Nat) (i : Nat) (s : Blob) (t : IT) (hp : PI s) (hi : i ∉ s.free)
    (hb : ∃ d h p l r, s.blocks[i]? = some { dirty := d, node := .internal h p l r })
    (hkp : KP s.blocks t) (hl : LH s.blocks (some i) t)
    (S : Blob) (hrun : markDirtyAux f i s = (.ok (), S)) : LH S.blocks none t := by
  induction f generalizing i s with
  | zero => simp [markDirtyAux, M.throw] at hrun
  | succ f ih =>
    obtain ⟨d, h, p, l, r, hb⟩ := hb
    have hil : i < s.blocks.length := (List.getElem?_eq_some_iff.mp hb).1
    unfold markDirtyAux at hrun
    simp only [bind_run, getBlock_run, hb] at hrun
    cases d with
    | true =>
      simp only [if_true, pure_run, Prod.mk.injEq] at hrun
      rw [← hrun.2]
      exact hl.fill (by simp [dirtyB, blockAt, hb])
    | false =>
      simp only [Bool.false_eq_true, if_false, Node.parent] at hrun
      have hss := sameShape_write s i false true h h p l r hb hi
      have hT := PI.sameShape hss hp
      have hw : writeBlock i { dirty := true, node := .internal h p l r } s
          = (.ok (), s.write i { dirty := true, node := .internal h p l r }) := by
        rw [writeBlock_run, if_neg (Nat.not_lt.mpr (Nat.le_of_lt hil))]
      have hget : ∀ j, (s.write i { dirty := true, node := .internal h p l r }).blocks[j]?
          = if j = i then some { dirty := true, node := .internal h p l r } else s.blocks[j]? :=
        fun j => write_get s i _ hil j
      have hstep := LH.setDirty (bl := s.blocks) (bl' := (s.write i { dirty := true, node := .internal h p l r }).blocks)
        (i := i) ⟨_, _, _, _, _, hb⟩ (by simp [dirtyB, blockAt, hget]) (by
          intro j
          by_cases hj : j = i
          · subst hj; simp [hashB, blockAt, hget, hb, Node.hash]
          · simp [hashB, blockAt, hget, hj]) (by
          intro j hj; simp [dirtyB, blockAt, hget, hj]) t hkp hl
      have hpo : parentOfL s.blocks i = p := by simp [parentOfL, hb, Node.parent]
      rw [hpo] at hstep
      cases p with
      | none =>
        simp only [bind_run, hw, pure_run, Prod.mk.injEq] at hrun
        rw [← hrun.2]; exact hstep
      | some q =>
        simp only [bind_run, hw] at hrun
        obtain ⟨hqf, dq, qh, qp, ql, qr, hqb⟩ := hp i hi false h q l r hb
        refine ih q _ hT (by rw [hss.free]; exact hqf) ?_ (hkp.sameShape hss) hstep hrun
        rcases hss.blk q with e | ⟨d1, d2, h1, h2, p1, l1, r1, e1, e2⟩
        · exact ⟨_, _, _, _, _, by rw [e]; exact hqb⟩
        · exact ⟨_, _, _, _, _, e2⟩

theorem markLineageDirty_LH (i : Nat) (s : Blob) (t : IT) (hp : PI s) (hi : i ∉ s.free)
    (hb : ∃ d h p l r, s.blocks[i]? = some { dirty := d, node := .internal h p l r })
    (hkp : KP s.blocks t) (hl : LH s.blocks (some i) t)
    (S : Blob) (hrun : markLineageDirty i s = (.ok (), S)) : LH S.blocks none t := by
  unfold markLineageDirty at hrun
  simp only [bind_run, M.get] at hrun
  exact markDirtyAux_LH _ i s t hp hi hb hkp hl S hrun


/-- the hash invariant of an optional tree -/
def LHo (bl : List Block) : Option IT → Prop
  | none => True
  | some t => LH bl none t

end ChiaModel.Blob
