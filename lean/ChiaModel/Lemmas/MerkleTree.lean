import ChiaModel.Lemmas.MerkleSet
/-
Helper lemmas for C12: abstraction of the node vector of merkle_tree.rs to an inductive tree
(`Den`), tree-level twins of the proof generator, and the tree that `from_leafs` builds (`ttree`).
-/
namespace ChiaModel.Merkle
open ChiaModel Spec

/-! ## trees denoted by a node vector -/

/-- the tree that an index of the node vector stands for; `mid` carries the cached node hash -/
inductive Tree where
  | empty
  | leaf (x : Bytes)
  | trunc (h : Bytes)
  | mid (l r : Tree) (h : Bytes)
  deriving Repr

def Tree.hash : Tree → Bytes
  | .empty => BLANK
  | .leaf x => x
  | .trunc h => h
  | .mid _ _ h => h

/-- `NodeType::from(ArrayTypes)` of the root node -/
def Tree.ntype : Tree → NodeType
  | .empty => .empty
  | .leaf _ => .term
  | .trunc _ => .mid
  | .mid _ _ _ => .mid

def Tree.leaf? : Tree → Option Bytes
  | .leaf x => some x
  | _ => none

/-- `get_root` on the tree -/
def Tree.root (H : Bytes → Bytes) : Tree → Bytes
  | .empty => BLANK
  | .leaf x => hashLeaf H x
  | .trunc h => h
  | .mid _ _ h => h

def Tree.other : Tree → Bytes
  | .empty => [EMPTY]
  | .leaf x => TERMINAL :: x
  | .trunc h => TRUNCATED :: h
  | .mid _ _ h => TRUNCATED :: h

def Tree.genProof : Tree → Bytes → Nat → Option (Bool × Bytes)
  | .empty, _, _ => some (false, [EMPTY])
  | .leaf h, x, _ => some (decide (h = x), TERMINAL :: h)
  | .trunc _, _, _ => none
  | .mid l r _, x, d =>
    match l.leaf?, r.leaf? with
    | some lh, some rh => some (decide (lh = x) || decide (rh = x), padMiddlesForProofGen 257 lh rh d)
    | _, _ =>
      if getBit x d then
        match r.genProof x ((d + 1) % 256) with
        | none => none
        | some (b, p) => some (b, [MIDDLE] ++ l.other ++ p)
      else
        match l.genProof x ((d + 1) % 256) with
        | none => none
        | some (b, p) => some (b, [MIDDLE] ++ p ++ r.other)

/-- index `i` of the vector `nv` stands for the tree `t` (child indices are smaller) -/
inductive Den (nv : NodeVec) : Nat → Tree → Prop where
  | empty {i : Nat} {h : Bytes} : nv[i]? = some (.empty, h) → Den nv i .empty
  | leaf {i : Nat} {x : Bytes} : nv[i]? = some (.leaf, x) → Den nv i (.leaf x)
  | trunc {i : Nat} {h : Bytes} : nv[i]? = some (.truncated, h) → Den nv i (.trunc h)
  | mid {i a b : Nat} {h : Bytes} {ta tb : Tree} : nv[i]? = some (.middle a b, h) → a < i → b < i →
      Den nv a ta → Den nv b tb → Den nv i (.mid ta tb h)

theorem getElem?_append_of_some {nv : NodeVec} {i : Nat} {v : ArrayType × Bytes} (e : NodeVec)
    (h : nv[i]? = some v) : (nv ++ e)[i]? = some v := by
  have hlt : i < nv.length := by
    rcases Nat.lt_or_ge i nv.length with h1 | h1
    · exact h1
    · rw [List.getElem?_eq_none h1] at h; simp at h
  rw [List.getElem?_append_left hlt]; exact h

theorem Den.append {nv : NodeVec} {i : Nat} {t : Tree} (h : Den nv i t) (e : NodeVec) :
    Den (nv ++ e) i t := by
  induction h with
  | empty h => exact .empty (getElem?_append_of_some e h)
  | leaf h => exact .leaf (getElem?_append_of_some e h)
  | trunc h => exact .trunc (getElem?_append_of_some e h)
  | mid h ha hb _ _ iha ihb => exact .mid (getElem?_append_of_some e h) ha hb iha ihb

theorem Den.leafAt {nv : NodeVec} {i : Nat} {t : Tree} (h : Den nv i t) : leafAt nv i = t.leaf? := by
  cases h <;> simp_all [Merkle.leafAt, Tree.leaf?]

theorem Den.other {nv : NodeVec} {i : Nat} {t : Tree} (h : Den nv i t) : otherIncluded nv i = t.other := by
  cases h <;> simp_all [otherIncluded, Tree.other]

theorem Den.hashAt {nv : NodeVec} {i : Nat} {t : Tree} (h : Den nv i t) (ht : t ≠ .empty) :
    hashAt nv i = t.hash := by
  cases h <;> simp_all [Merkle.hashAt, Tree.hash]

theorem Den.typeAt {nv : NodeVec} {i : Nat} {t : Tree} (h : Den nv i t) : typeAt nv i = t.ntype := by
  cases h <;> simp_all [Merkle.typeAt, Tree.ntype, toNodeType]

/-- the vector-level proof generator is the tree-level one on the denoted tree -/
theorem Den.genProof {nv : NodeVec} {i : Nat} {t : Tree} (h : Den nv i t) :
    ∀ (f : Nat) (x : Bytes) (d : Nat), i < f → generateProofImpl nv f i x d = t.genProof x d := by
  induction h with
  | empty h => intro f x d hf; cases f with
    | zero => omega
    | succ f => simp [generateProofImpl, h, Tree.genProof]
  | leaf h => intro f x d hf; cases f with
    | zero => omega
    | succ f => simp [generateProofImpl, h, Tree.genProof]
  | trunc h => intro f x d hf; cases f with
    | zero => omega
    | succ f => simp [generateProofImpl, h, Tree.genProof]
  | @mid i a b hh ta tb h ha hb da db iha ihb =>
    intro f x d hf
    cases f with
    | zero => omega
    | succ f =>
      unfold generateProofImpl Tree.genProof
      simp only [h]
      rw [da.leafAt, db.leafAt, da.other, db.other, iha f x _ (by omega), ihb f x _ (by omega)]
      rfl

theorem Den.getRoot {nv : NodeVec} {t : Tree} (H : Bytes → Bytes) (h : Den nv (nv.length - 1) t) :
    getRoot H nv = t.root H := by
  unfold Merkle.getRoot
  rw [List.getLast?_eq_getElem?]
  cases h <;> simp_all [Tree.root]

/-! ## the tree built by `from_leafs` -/

/-- one level of the collapsed tree (twin of `Spec.combine`) -/
def stepT (H : Bytes → Bytes) (tl tr : Tree) (a b : Bytes × NodeType) : Tree :=
  if a.2 = .empty ∧ b.2 ≠ .mid then tr
  else if b.2 = .empty ∧ a.2 ≠ .mid then tl
  else .mid tl tr (hashNode H a.2 b.2 a.1 b.1)

/-- the collapsed tree of the set `S` at depth `256 - n` (twin of `Spec.trie`) -/
def ttree (H : Bytes → Bytes) : Nat → List Bytes → Tree
  | 0, [] => .empty
  | 0, x :: _ => .leaf x
  | n+1, S =>
    stepT H (ttree H n (Lo(255 - n, S))) (ttree H n (Hi(255 - n, S)))
      (trie H n (Lo(255 - n, S))) (trie H n (Hi(255 - n, S)))

theorem ttree_succ (H : Bytes → Bytes) (n : Nat) (S : List Bytes) :
    ttree H (n + 1) S = stepT H (ttree H n (Lo(255 - n, S))) (ttree H n (Hi(255 - n, S)))
      (trie H n (Lo(255 - n, S))) (trie H n (Hi(255 - n, S))) := rfl

theorem ttree_nil (H : Bytes → Bytes) (n : Nat) : ttree H n [] = .empty := by
  induction n with
  | zero => rfl
  | succ n ih => simp [ttree, stepT, trie_nil, ih]

theorem ttree_zero_of_ne_nil (H : Bytes → Bytes) {S : List Bytes} (h : S ≠ []) :
    ttree H 0 S = .leaf (S.headD BLANK) := by
  cases S with
  | nil => exact absurd rfl h
  | cons x t => rfl

theorem ttree_single (H : Bytes → Bytes) (n : Nat) (x : Bytes) : ttree H n [x] = .leaf x := by
  induction n with
  | zero => rfl
  | succ n ih =>
    by_cases hb : getBit x (255 - n) = true
    · simp [ttree, stepT, hb, trie_nil, trie_single, ih]
    · simp [ttree, stepT, hb, trie_nil, trie_single, ih]

def Tree.isLeaf : Tree → Bool
  | .leaf _ => true
  | _ => false

/-- how the constructor of the tree follows from the type of the reference trie value -/
def Shape (t : Tree) (v : Bytes × NodeType) : Prop :=
  match v.2 with
  | .empty => t = .empty
  | .term => t = .leaf v.1
  | .mid => ∃ l r, t = .mid l r v.1 ∧ ¬ (l.isLeaf = true ∧ r.isLeaf = true)
  | .midDbl => ∃ a b, t = .mid (.leaf a) (.leaf b) v.1

/-- finisher for `shape_step`: the goal is the `Shape` of a concrete tree -/
local macro "fin" : tactic =>
  `(tactic| first
    | (simp [Tree.isLeaf]; done)
    | (simp; first | assumption | exact ⟨_, _, rfl⟩ | exact ⟨_, _, ⟨rfl, rfl⟩, by simp [Tree.isLeaf]⟩)
    | assumption
    | exact ⟨_, _, rfl⟩
    | exact ⟨_, _, rfl, by simp [Tree.isLeaf]⟩)

theorem shape_step (H : Bytes → Bytes) {tl tr : Tree} {a b : Bytes × NodeType}
    (hl : Shape tl a) (hr : Shape tr b) : Shape (stepT H tl tr a b) (combine H a b) := by
  obtain ⟨ah, aty⟩ := a
  obtain ⟨bh, bty⟩ := b
  cases aty <;> cases bty <;> simp only [Shape, stepT, combine] at * <;>
    first
    | (subst hl; subst hr; fin)
    | (subst hl; obtain ⟨l, r, rfl, h⟩ := hr; fin)
    | (subst hr; obtain ⟨l, r, rfl, h⟩ := hl; fin)
    | (subst hl; obtain ⟨l, r, rfl⟩ := hr; fin)
    | (subst hr; obtain ⟨l, r, rfl⟩ := hl; fin)
    | (obtain ⟨l, r, rfl, h⟩ := hl; obtain ⟨l', r', rfl, h'⟩ := hr; fin)
    | (obtain ⟨l, r, rfl, h⟩ := hl; obtain ⟨l', r', rfl⟩ := hr; fin)
    | (obtain ⟨l, r, rfl⟩ := hl; obtain ⟨l', r', rfl, h'⟩ := hr; fin)
    | (obtain ⟨l, r, rfl⟩ := hl; obtain ⟨l', r', rfl⟩ := hr; fin)

theorem ttree_shape (H : Bytes → Bytes) (n : Nat) (S : List Bytes) : Shape (ttree H n S) (trie H n S) := by
  induction n generalizing S with
  | zero => cases S <;> simp [ttree, trie, Shape]
  | succ n ih => rw [trie_succ, ttree_succ]; exact shape_step H (ih _) (ih _)

theorem Shape.hash {t : Tree} {v : Bytes × NodeType} (h : Shape t v) (hv : v.2 = .empty → v.1 = BLANK) :
    t.hash = v.1 := by
  obtain ⟨vh, vt⟩ := v
  cases vt <;> simp only [Shape] at h
  · subst h; exact (hv rfl).symm
  · subst h; rfl
  · obtain ⟨l, r, rfl, _⟩ := h; rfl
  · obtain ⟨l, r, rfl⟩ := h; rfl

theorem gen_snd (H : Bytes → Bytes) (n : Nat) : ∀ (l : List Bytes) (nv : NodeVec),
    (generateMerkleTreeRecurse H n l nv).2 = radixSort H n l := by
  induction n with
  | zero => intro l nv; rfl
  | succ n ih =>
    intro l nv
    unfold generateMerkleTreeRecurse radixSort
    simp only [ih]
    split
    · rfl
    · split
      · split
        · rfl
        · split
          · split <;> rfl
          · exact ih _ _
      · split <;> rfl

theorem getElem?_append_add (a b : NodeVec) (k : Nat) : (a ++ b)[a.length + k]? = b[k]? := by
  rw [List.getElem?_append_right (by omega)]; congr 1; omega

theorem getElem?_append_idx (a b : NodeVec) (i k : Nat) (h : i = a.length + k) : (a ++ b)[i]? = b[k]? := by
  subst h; exact getElem?_append_add a b k

theorem den_last_leaf (nv : NodeVec) (x : Bytes) : Den (nv ++ [(.leaf, x)]) (nv.length + [(ArrayType.leaf, x)].length - 1) (.leaf x) := by
  apply Den.leaf
  show (nv ++ [(ArrayType.leaf, x)])[nv.length + 1 - 1]? = _
  rw [show nv.length + 1 - 1 = nv.length + 0 by omega, getElem?_append_add]; rfl

/-- `generate_merkle_tree_recurse` appends a non-empty block whose last node denotes `ttree` -/
theorem gen_spec (H : Bytes → Bytes) (n : Nat) : ∀ (l : List Bytes) (nv : NodeVec), l ≠ [] →
    ∃ ext, (generateMerkleTreeRecurse H n l nv).1 = nv ++ ext ∧ ext ≠ [] ∧
      Den (nv ++ ext) (nv.length + ext.length - 1) (ttree H n l) := by
  induction n with
  | zero =>
    intro l nv hl
    refine ⟨[(.leaf, l.headD BLANK)], rfl, by simp, ?_⟩
    rw [ttree_zero_of_ne_nil H hl]; exact den_last_leaf _ _
  | succ n ih =>
    intro l nv hl
    unfold generateMerkleTreeRecurse
    by_cases h1 : l.length = 1
    · rw [if_pos h1]
      obtain ⟨a, rfl⟩ := List.length_eq_one_iff.mp h1
      refine ⟨[(.leaf, a)], rfl, by simp, ?_⟩
      rw [ttree_single]; exact den_last_leaf _ _
    · rw [if_neg h1, ttree_succ]
      simp only []
      by_cases hlo : Lo(255 - n, l) = []
      · have hhi := lo_nil_hi hlo
        rw [if_pos (Or.inl hlo), hlo, hhi, trie_nil, ttree_nil]
        by_cases hd : 255 - n = 255
        · rw [if_pos hd]
          have : n = 0 := by omega
          subst this
          refine ⟨[(.leaf, l.headD BLANK)], rfl, by simp, ?_⟩
          rw [trie_zero_of_ne_nil H hl, ttree_zero_of_ne_nil H hl]
          simp only [stepT]; rw [if_pos (by simp)]
          exact den_last_leaf _ _
        · rw [if_neg hd]
          obtain ⟨ext, he, hne, hden⟩ := ih l nv hl
          have hs := gen_snd H n l nv
          rw [radix_eq_trie H n l hl] at hs
          by_cases hm : (generateMerkleTreeRecurse H n l nv).2.2 = .mid
          · rw [if_pos hm, if_pos rfl]
            have hm' : (trie H n l).2 = .mid := by rw [← hs]; exact hm
            refine ⟨ext ++ [(.empty, EMPTY_NODE_HASH), (.middle (nv.length + ext.length) (nv.length + ext.length - 1),
              hashNode H .empty (trie H n l).2 BLANK (trie H n l).1)], ?_, by simp, ?_⟩
            · rw [he, hs]; simp [List.length_append]
              constructor <;> omega
            · simp only [stepT]
              rw [if_neg (by simp [hm']), if_neg (by simp [hm'])]
              have hlen : ext.length ≥ 1 := by cases ext with | nil => exact absurd rfl hne | cons => simp
              have e1 : nv ++ (ext ++ [(ArrayType.empty, EMPTY_NODE_HASH), (ArrayType.middle (nv.length + ext.length) (nv.length + ext.length - 1),
                  hashNode H .empty (trie H n l).2 BLANK (trie H n l).1)]) =
                (nv ++ ext) ++ [(ArrayType.empty, EMPTY_NODE_HASH), (ArrayType.middle (nv.length + ext.length) (nv.length + ext.length - 1),
                  hashNode H .empty (trie H n l).2 BLANK (trie H n l).1)] := by simp
              rw [e1]
              refine Den.mid (a := nv.length + ext.length) (b := nv.length + ext.length - 1) ?_ ?_ ?_ ?_ (hden.append _)
              · rw [getElem?_append_idx _ _ _ 1 (by simp [List.length_append]; omega)]; rfl
              · simp only [List.length_append, List.length_cons, List.length_nil]; omega
              · simp only [List.length_append, List.length_cons, List.length_nil]; omega
              · apply Den.empty (h := EMPTY_NODE_HASH)
                rw [getElem?_append_idx _ _ _ 0 (by simp [List.length_append])]; rfl
          · rw [if_neg hm]
            refine ⟨ext, he, hne, ?_⟩
            have hm' : (trie H n l).2 ≠ .mid := by rw [← hs]; exact hm
            simp only [stepT]; rw [if_pos (by simp [hm'])]
            exact hden
      · by_cases hhi : Hi(255 - n, l) = []
        · have hlo' := hi_nil_lo hhi
          rw [if_pos (Or.inr hhi), hhi, hlo', trie_nil, ttree_nil]
          by_cases hd : 255 - n = 255
          · rw [if_pos hd]
            have : n = 0 := by omega
            subst this
            refine ⟨[(.leaf, l.headD BLANK)], rfl, by simp, ?_⟩
            rw [trie_zero_of_ne_nil H hl, ttree_zero_of_ne_nil H hl]
            simp only [stepT]; rw [if_neg (by simp), if_pos (by simp)]
            exact den_last_leaf _ _
          · rw [if_neg hd]
            obtain ⟨ext, he, hne, hden⟩ := ih l nv hl
            have hs := gen_snd H n l nv
            rw [radix_eq_trie H n l hl] at hs
            have hne' := trie_ne_empty H n hl
            by_cases hm : (generateMerkleTreeRecurse H n l nv).2.2 = .mid
            · rw [if_pos hm, if_neg hl]
              have hm' : (trie H n l).2 = .mid := by rw [← hs]; exact hm
              refine ⟨ext ++ [(.empty, EMPTY_NODE_HASH), (.middle (nv.length + ext.length - 1) (nv.length + ext.length),
                hashNode H (trie H n l).2 .empty (trie H n l).1 BLANK)], ?_, by simp, ?_⟩
              · rw [he, hs]; simp [List.length_append]
                constructor <;> omega
              · simp only [stepT]
                rw [if_neg (by simp [hm']), if_neg (by simp [hm'])]
                have hlen : ext.length ≥ 1 := by cases ext with | nil => exact absurd rfl hne | cons => simp
                have e1 : nv ++ (ext ++ [(ArrayType.empty, EMPTY_NODE_HASH), (ArrayType.middle (nv.length + ext.length - 1) (nv.length + ext.length),
                    hashNode H (trie H n l).2 .empty (trie H n l).1 BLANK)]) =
                  (nv ++ ext) ++ [(ArrayType.empty, EMPTY_NODE_HASH), (ArrayType.middle (nv.length + ext.length - 1) (nv.length + ext.length),
                    hashNode H (trie H n l).2 .empty (trie H n l).1 BLANK)] := by simp
                rw [e1]
                refine Den.mid (a := nv.length + ext.length - 1) (b := nv.length + ext.length) ?_ ?_ ?_ (hden.append _) ?_
                · rw [getElem?_append_idx _ _ _ 1 (by simp [List.length_append]; omega)]; rfl
                · simp only [List.length_append, List.length_cons, List.length_nil]; omega
                · simp only [List.length_append, List.length_cons, List.length_nil]; omega
                · apply Den.empty (h := EMPTY_NODE_HASH)
                  rw [getElem?_append_idx _ _ _ 0 (by simp [List.length_append])]; rfl
            · rw [if_neg hm]
              refine ⟨ext, he, hne, ?_⟩
              have hm' : (trie H n l).2 ≠ .mid := by rw [← hs]; exact hm
              simp only [stepT]; rw [if_neg (by simp [hne']), if_pos (by simp [hm'])]
              exact hden
        · rw [if_neg (by simp only [not_or]; exact ⟨hlo, hhi⟩)]
          by_cases hd : 255 - n = 255
          · rw [if_pos hd]
            have : n = 0 := by omega
            subst this
            refine ⟨[(.leaf, (Lo(255 - 0, l)).headD BLANK), (.leaf, (Hi(255 - 0, l)).headD BLANK),
              (.middle nv.length (nv.length + 1), hashNode H .term .term ((Lo(255 - 0, l)).headD BLANK) ((Hi(255 - 0, l)).headD BLANK))],
              ?_, by simp, ?_⟩
            · simp [List.length_append]
            · rw [trie_zero_of_ne_nil H hlo, trie_zero_of_ne_nil H hhi, ttree_zero_of_ne_nil H hlo, ttree_zero_of_ne_nil H hhi]
              simp only [stepT]; rw [if_neg (by simp), if_neg (by simp)]
              refine Den.mid (a := nv.length) (b := nv.length + 1) ?_ ?_ ?_ ?_ ?_
              · rw [getElem?_append_idx _ _ _ 2 (by simp)]; rfl
              · simp
              · simp
              · apply Den.leaf
                rw [show nv.length = nv.length + 0 by rfl, getElem?_append_add]; rfl
              · apply Den.leaf
                rw [getElem?_append_add]; rfl
          · rw [if_neg hd]
            obtain ⟨ext1, he1, hne1, hden1⟩ := ih _ nv hlo
            obtain ⟨ext2, he2, hne2, hden2⟩ := ih _ (generateMerkleTreeRecurse H n (Lo(255 - n, l)) nv).1 hhi
            have hs1 := gen_snd H n (Lo(255 - n, l)) nv
            have hs2 := gen_snd H n (Hi(255 - n, l)) (generateMerkleTreeRecurse H n (Lo(255 - n, l)) nv).1
            rw [radix_eq_trie H n _ hlo] at hs1
            rw [radix_eq_trie H n _ hhi] at hs2
            have hn1 := trie_ne_empty H n hlo
            have hn2 := trie_ne_empty H n hhi
            rw [he1] at he2 hden2 hs2
            have hl1 : ext1.length ≥ 1 := by cases ext1 with | nil => exact absurd rfl hne1 | cons => simp
            have hl2 : ext2.length ≥ 1 := by cases ext2 with | nil => exact absurd rfl hne2 | cons => simp
            refine ⟨ext1 ++ ext2 ++ [(.middle (nv.length + ext1.length - 1) (nv.length + ext1.length + ext2.length - 1),
              hashNode H (trie H n (Lo(255 - n, l))).2 (trie H n (Hi(255 - n, l))).2 (trie H n (Lo(255 - n, l))).1 (trie H n (Hi(255 - n, l))).1)], ?_, by simp, ?_⟩
            · rw [he1, he2, hs1, hs2]; simp [List.length_append, Nat.add_assoc]
            · simp only [stepT]; rw [if_neg (by simp [hn1]), if_neg (by simp [hn2])]
              have e1 : nv ++ (ext1 ++ ext2 ++ [(ArrayType.middle (nv.length + ext1.length - 1) (nv.length + ext1.length + ext2.length - 1),
                  hashNode H (trie H n (Lo(255 - n, l))).2 (trie H n (Hi(255 - n, l))).2 (trie H n (Lo(255 - n, l))).1 (trie H n (Hi(255 - n, l))).1)]) =
                (nv ++ ext1 ++ ext2) ++ [(ArrayType.middle (nv.length + ext1.length - 1) (nv.length + ext1.length + ext2.length - 1),
                  hashNode H (trie H n (Lo(255 - n, l))).2 (trie H n (Hi(255 - n, l))).2 (trie H n (Lo(255 - n, l))).1 (trie H n (Hi(255 - n, l))).1)] := by simp
              rw [e1]
              refine Den.mid (a := nv.length + ext1.length - 1) (b := nv.length + ext1.length + ext2.length - 1) ?_ ?_ ?_ ?_ ?_
              · rw [getElem?_append_idx _ _ _ 0 (by simp [List.length_append]; omega)]; rfl
              · simp only [List.length_append, List.length_cons, List.length_nil]; omega
              · simp only [List.length_append, List.length_cons, List.length_nil]; omega
              · have := (hden1.append ext2).append [(ArrayType.middle (nv.length + ext1.length - 1) (nv.length + ext1.length + ext2.length - 1),
                  hashNode H (trie H n (Lo(255 - n, l))).2 (trie H n (Hi(255 - n, l))).2 (trie H n (Lo(255 - n, l))).1 (trie H n (Hi(255 - n, l))).1)]
                exact this
              · have := hden2.append [(ArrayType.middle (nv.length + ext1.length - 1) (nv.length + ext1.length + ext2.length - 1),
                  hashNode H (trie H n (Lo(255 - n, l))).2 (trie H n (Hi(255 - n, l))).2 (trie H n (Lo(255 - n, l))).1 (trie H n (Hi(255 - n, l))).1)]
                simp only [List.length_append] at this
                exact this


theorem fromLeafs_den (H : Bytes → Bytes) (l : List Bytes) :
    Den (fromLeafs H l).nodes ((fromLeafs H l).nodes.length - 1) (ttree H 256 l) := by
  unfold fromLeafs
  by_cases h : l = []
  · subst h; rw [if_pos rfl, ttree_nil]
    exact Den.empty (h := BLANK) rfl
  · rw [if_neg h]
    obtain ⟨ext, he, _, hden⟩ := gen_spec H 256 l [] h
    simp only [he]
    simpa using hden

/-- the root that belongs to a trie value (the final `match` of `compute_merkle_set_root`) -/
def rootOfVal (H : Bytes → Bytes) : Bytes × NodeType → Bytes
  | (h, .term) => hashLeaf H h
  | (h, .mid) => h
  | (h, .midDbl) => h
  | (_, .empty) => BLANK

theorem computeRoot_eq (H : Bytes → Bytes) (l : List Bytes) :
    computeMerkleSetRoot H l = rootOfVal H (trie H 256 l) := by
  unfold computeMerkleSetRoot
  by_cases h : l = []
  · subst h; rw [if_pos rfl, trie_nil]; rfl
  · rw [if_neg h, radix_eq_trie H 256 l h]; rfl

theorem root_of_shape (H : Bytes → Bytes) {t : Tree} {v : Bytes × NodeType} (h : Shape t v) :
    t.root H = rootOfVal H v := by
  obtain ⟨vh, vt⟩ := v
  cases vt <;> simp only [Shape] at h
  · subst h; rfl
  · subst h; rfl
  · obtain ⟨l, r, rfl, _⟩ := h; rfl
  · obtain ⟨l, r, rfl⟩ := h; rfl

end ChiaModel.Merkle
