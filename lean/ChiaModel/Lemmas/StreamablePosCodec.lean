import ChiaModel.Lemmas.StreamablePos
/-!
Round trip and canonicity of the `ProofOfSpace` codec.
-/
namespace ChiaModel.Streamable
open ChiaModel

theorem wfPos_iff {O : Oracles} {tr : Bool} {v : V} :
    wfPos O tr v = true ↔ ∃ ch pp ct pk version pi mg st sz pf,
      v = .tup [ch, pp, ct, pk, .n version, .n pi, .n mg, .n st, .n sz, pf] ∧
      wfBytesN 32 ch = true ∧ wfOption (wfG1 O tr) pp = true ∧ wfOption (wfBytesN 32) ct = true ∧
      wfG1 O tr pk = true ∧ wfBytes pf = true ∧
      ((version = 0 ∧ pi = 0 ∧ mg = 0 ∧ st = 0 ∧ sz < 256) ∨
       (version = 1 ∧ pi < 65536 ∧ mg < 256 ∧ st < 256 ∧ sz = 0 ∧ (isSomeV pp == isSomeV ct) = false)) := by
  constructor
  · intro h
    match v, h with
    | .tup [ch, pp, ct, pk, .n version, .n pi, .n mg, .n st, .n sz, pf], h =>
      refine ⟨ch, pp, ct, pk, version, pi, mg, st, sz, pf, rfl, ?_⟩
      simp only [wfPos, Bool.and_eq_true] at h
      obtain ⟨⟨⟨⟨⟨h1, h2⟩, h3⟩, h4⟩, h5⟩, h6⟩ := h
      refine ⟨h1, h2, h3, h4, h5, ?_⟩
      by_cases h0 : version = 0
      · rw [if_pos h0] at h6
        simp only [Bool.and_eq_true, beq_iff_eq, decide_eq_true_eq] at h6
        exact Or.inl ⟨h0, h6.1.1.1, h6.1.1.2, h6.1.2, h6.2⟩
      · by_cases h1' : version = 1
        · rw [if_neg h0, if_pos h1'] at h6
          simp only [Bool.and_eq_true, beq_iff_eq, decide_eq_true_eq, bne_iff_ne, ne_eq] at h6
          refine Or.inr ⟨h1', h6.1.1.1.1, h6.1.1.1.2, h6.1.1.2, h6.1.2, ?_⟩
          have := h6.2
          cases hA : isSomeV pp <;> cases hB : isSomeV ct <;> simp [hA, hB] at this ⊢
        · rw [if_neg h0, if_neg h1'] at h6; cases h6
  · rintro ⟨ch, pp, ct, pk, version, pi, mg, st, sz, pf, rfl, h1, h2, h3, h4, h5, h6⟩
    simp only [wfPos, h1, h2, h3, h4, h5, Bool.and_self, Bool.true_and]
    rcases h6 with ⟨rfl, rfl, rfl, rfl, hsz⟩ | ⟨rfl, hpi, hmg, hst, rfl, hs⟩
    · simp [hsz]
    · simp only [if_neg (by decide : ¬ (1 : Nat) = 0), if_true, hpi, hmg, hst, decide_true, Bool.and_self, Bool.true_and,
        beq_self_eq_true]
      cases hA : isSomeV pp <;> cases hB : isSomeV ct <;> simp [hA, hB] at hs ⊢

theorem wfBytesN_enc {n : Nat} {x : V} (h : wfBytesN n x = true) : ∃ c, x = .bytes c ∧ c.length = n := by
  cases x <;> simp [wfBytesN] at h
  exact ⟨_, rfl, h⟩

theorem codec_pos (O : Oracles) (tr : Bool) : Codec (decPos O tr) (encPos O false) (wfPos O tr) where
  rt := by
    intro v hv
    obtain ⟨ch, pp, ct, pk, version, pi, mg, st, sz, pf, rfl, h1, h2, h3, h4, h5, h6⟩ := wfPos_iff.mp hv
    obtain ⟨A, heA, hdA⟩ := (codec_bytesN 32).rt ch h1
    obtain ⟨B, heB, hdB⟩ := (codec_option (codec_g1 O tr)).rt pp h2
    obtain ⟨D, heD, hdD⟩ := (codec_g1 O tr).rt pk h4
    obtain ⟨F, heF, hdF⟩ := codec_bytes.rt pf h5
    rcases h6 with ⟨rfl, rfl, rfl, rfl, hsz⟩ | ⟨rfl, hpi, hmg, hst, rfl, hs⟩
    · obtain ⟨C, heC, hdC⟩ := (codec_option (codec_bytesN 32)).rt ct h3
      obtain ⟨k, crest, rfl, hk, _⟩ := encOption_shape heC
      obtain ⟨E, heE, hdE⟩ := (codec_uint 1).rt (.n sz) (wfUint_iff.mpr ⟨sz, rfl, by simpa using hsz⟩)
      refine ⟨A ++ B ++ (k :: crest) ++ D ++ E ++ F, by simp [encPos, heA, heB, heC, heD, heE, heF], fun r => ?_⟩
      refine decPos_ok.mpr ⟨ch, B ++ (k :: (crest ++ (D ++ (E ++ (F ++ r))))), pp, k, crest ++ (D ++ (E ++ (F ++ r))), ct,
        D ++ (E ++ (F ++ r)), pk, E ++ (F ++ r), ?_, ?_, ?_, hdD _, Or.inl ⟨by omega, .n sz, F ++ r, pf, hdE _, hdF r, rfl⟩⟩
      · have e : A ++ B ++ (k :: crest) ++ D ++ E ++ F ++ r = A ++ (B ++ (k :: (crest ++ (D ++ (E ++ (F ++ r)))))) := by
          simp [List.append_assoc]
        rw [e]; exact hdA _
      · exact hdB _
      · have := hdC (D ++ (E ++ (F ++ r)))
        rw [List.cons_append, option_present hk] at this
        exact this
    · obtain ⟨E1, heE1, hdE1⟩ := (codec_uint 2).rt (.n pi) (wfUint_iff.mpr ⟨pi, rfl, by simpa using hpi⟩)
      obtain ⟨E2, heE2, hdE2⟩ := (codec_uint 1).rt (.n mg) (wfUint_iff.mpr ⟨mg, rfl, by simpa using hmg⟩)
      obtain ⟨E3, heE3, hdE3⟩ := (codec_uint 1).rt (.n st) (wfUint_iff.mpr ⟨st, rfl, by simpa using hst⟩)
      -- the contract hash behind prefix 2 | 3
      have hct : ∃ k crest, (k = 2 ∨ k = 3) ∧
          encContract2 ct = some (k :: crest) ∧
          ∀ r, (decPresent (k % 2 != 0) (decBytesN 32) (crest ++ r)).out = .ok (ct, r) := by
        rcases wfOption_iff.mp h3 with rfl | ⟨x, rfl, hx⟩
        · exact ⟨2, [], Or.inl rfl, rfl, fun r => decPresent_ok.mpr (Or.inl ⟨by decide, rfl, rfl⟩)⟩
        · obtain ⟨c, hec, hdc⟩ := (codec_bytesN 32).rt x hx
          exact ⟨3, c, Or.inr rfl, by simp [encContract2, hec], fun r => decPresent_ok.mpr (Or.inr ⟨by decide, x, hdc r, rfl⟩)⟩
      obtain ⟨k, crest, hk, heC, hdC⟩ := hct
      refine ⟨A ++ B ++ (k :: crest) ++ D ++ E1 ++ E2 ++ E3 ++ F, ?_, fun r => ?_⟩
      · simp only [encPos, heA, heB, heD, heF, if_neg (by decide : ¬ (1 : Nat) = 0), if_true, heC, heE1, heE2, heE3]
        simp
      refine decPos_ok.mpr ⟨ch, B ++ (k :: (crest ++ (D ++ (E1 ++ (E2 ++ (E3 ++ (F ++ r))))))), pp, k,
        crest ++ (D ++ (E1 ++ (E2 ++ (E3 ++ (F ++ r))))), ct,
        D ++ (E1 ++ (E2 ++ (E3 ++ (F ++ r)))), pk, E1 ++ (E2 ++ (E3 ++ (F ++ r))), ?_, hdB _, hdC _, hdD _,
        Or.inr ⟨by omega, .n pi, E2 ++ (E3 ++ (F ++ r)), .n mg, E3 ++ (F ++ r), .n st, F ++ r, pf,
          hdE1 _, hdE2 _, hdE3 _, hdF r, hs, rfl⟩⟩
      have e : A ++ B ++ (k :: crest) ++ D ++ E1 ++ E2 ++ E3 ++ F ++ r =
          A ++ (B ++ (k :: (crest ++ (D ++ (E1 ++ (E2 ++ (E3 ++ (F ++ r)))))))) := by
        simp [List.append_assoc]
      rw [e]; exact hdA _
  cn := by
    intro b v r hb hd
    obtain ⟨ch, r1, pp, k, r3, ct, r4, pk, r5, hch, hpp, hct, hpk, ht⟩ := decPos_ok.mp hd
    obtain ⟨A, heA, hpA, hwA⟩ := (codec_bytesN 32).cn b ch r1 hb hch
    have hb1 := isBytes_of_append_right hpA hb
    obtain ⟨B, heB, hpB, hwB⟩ := (codec_option (codec_g1 O tr)).cn r1 pp (k :: r3) hb1 hpp
    have hb2 := isBytes_of_append_right hpB hb1
    have hk256 : k < 256 := (isBytes_cons.mp hb2).1
    have hb3 : isBytes r3 := (isBytes_cons.mp hb2).2
    rcases ht with ⟨h0, sz, r6, pf, hsz, hpf, rfl⟩ | ⟨h1, pi, r6, mg, r7, st, r8, pf, hpi, hmg, hst, hpf, hs, rfl⟩
    · have hk2 : k < 2 := by omega
      obtain ⟨C, heC, hpC, hwC⟩ := (codec_option (codec_bytesN 32)).cn (k :: r3) ct r4 hb2 ((option_present hk2).mpr hct)
      have hb4 := isBytes_of_append_right hpC hb2
      obtain ⟨D, heD, hpD, hwD⟩ := (codec_g1 O tr).cn r4 pk r5 hb4 hpk
      have hb5 := isBytes_of_append_right hpD hb4
      obtain ⟨E, heE, hpE, hwE⟩ := (codec_uint 1).cn r5 sz r6 hb5 hsz
      have hb6 := isBytes_of_append_right hpE hb5
      obtain ⟨F, heF, hpF, hwF⟩ := codec_bytes.cn r6 pf r hb6 hpf
      obtain ⟨x, rfl, hx⟩ := wfUint_iff.mp hwE
      refine ⟨A ++ B ++ C ++ D ++ E ++ F, by simp [encPos, heA, heB, heC, heD, heE, heF], ?_, ?_⟩
      · rw [← hpA, ← hpB, ← hpC, ← hpD, ← hpE, ← hpF]; simp [List.append_assoc]
      · exact wfPos_iff.mpr ⟨ch, pp, ct, pk, 0, 0, 0, 0, x, pf, rfl, hwA, hwB, hwC, hwD, hwF,
          Or.inl ⟨rfl, rfl, rfl, rfl, by simpa using hx⟩⟩
    · have hk23 : k = 2 ∨ k = 3 := by omega
      -- contract hash
      have hC : ∃ C, encContract2 ct = some (k :: C) ∧ C ++ r4 = r3 ∧ wfOption (wfBytesN 32) ct = true := by
        rcases decPresent_ok.mp hct with ⟨hp, rfl, rfl⟩ | ⟨hp, x, hx, rfl⟩
        · have : k = 2 := by
            rcases hk23 with rfl | rfl
            · rfl
            · exact absurd hp (by decide)
          subst this
          exact ⟨[], rfl, rfl, rfl⟩
        · have : k = 3 := by
            rcases hk23 with rfl | rfl
            · exact absurd hp (by decide)
            · rfl
          subst this
          obtain ⟨C, heC, hpC, hwC⟩ := (codec_bytesN 32).cn r3 x r4 hb3 hx
          exact ⟨C, by simp [encContract2, heC], hpC, by simp [wfOption, hwC]⟩
      obtain ⟨C, heC, hpC, hwC⟩ := hC
      have hb4 := isBytes_of_append_right hpC hb3
      obtain ⟨D, heD, hpD, hwD⟩ := (codec_g1 O tr).cn r4 pk r5 hb4 hpk
      have hb5 := isBytes_of_append_right hpD hb4
      obtain ⟨E1, heE1, hpE1, hwE1⟩ := (codec_uint 2).cn r5 pi r6 hb5 hpi
      have hb6 := isBytes_of_append_right hpE1 hb5
      obtain ⟨E2, heE2, hpE2, hwE2⟩ := (codec_uint 1).cn r6 mg r7 hb6 hmg
      have hb7 := isBytes_of_append_right hpE2 hb6
      obtain ⟨E3, heE3, hpE3, hwE3⟩ := (codec_uint 1).cn r7 st r8 hb7 hst
      have hb8 := isBytes_of_append_right hpE3 hb7
      obtain ⟨F, heF, hpF, hwF⟩ := codec_bytes.cn r8 pf r hb8 hpf
      obtain ⟨x1, rfl, hx1⟩ := wfUint_iff.mp hwE1
      obtain ⟨x2, rfl, hx2⟩ := wfUint_iff.mp hwE2
      obtain ⟨x3, rfl, hx3⟩ := wfUint_iff.mp hwE3
      refine ⟨A ++ B ++ (k :: C) ++ D ++ E1 ++ E2 ++ E3 ++ F, ?_, ?_, ?_⟩
      · simp only [encPos, heA, heB, heD, heF, if_neg (by decide : ¬ (1 : Nat) = 0), if_true, heC, heE1, heE2, heE3]
        simp
      · rw [← hpA, ← hpB, ← hpC, ← hpD, ← hpE1, ← hpE2, ← hpE3, ← hpF]; simp [List.append_assoc]
      · exact wfPos_iff.mpr ⟨ch, pp, ct, pk, 1, x1, x2, x3, 0, pf, rfl, hwA, hwB, hwC, hwD, hwF,
          Or.inr ⟨rfl, by simpa using hx1, by simpa using hx2, by simpa using hx3, rfl, hs⟩⟩

end ChiaModel.Streamable
