import ChiaModel.Lemmas.JsonDictMain
/-!
C20: a well-formed value whose encoding consists of bytes contains only bytes (`bytesOK`) — hence every value the
decoder returns for a real byte string does (`Props/C20.from_bytes_roundtrip`).
-/
namespace ChiaModel.JsonDict
open ChiaModel ChiaModel.Streamable

/-- if the encoding of a well-formed value consists of bytes, so does every byte string inside the value -/
def BOK (e : Enc) (w : Wf) : Prop := ∀ v p, w v = true → e v = some p → isBytes p → bytesOK v = true

theorem all_of_isBytes {c : Bytes} (h : isBytes c) : c.all (· < 256) = true := by
  simp only [List.all_eq_true, decide_eq_true_eq]
  exact h

theorem optAppend_eq_some {a b : Option Bytes} {p : Bytes} (h : optAppend a b = some p) :
    ∃ x y, a = some x ∧ b = some y ∧ p = x ++ y := by
  cases a <;> cases b <;> simp [optAppend] at h
  exact ⟨_, _, rfl, rfl, h.symm⟩

theorem bok_uint (n : Nat) : BOK (encUint n) (wfUint n) := by
  intro v p hv _ _
  obtain ⟨x, rfl, _⟩ := wfUint_iff.mp hv
  rfl
theorem bok_sint (n : Nat) : BOK (encSint n) (wfSint n) := by
  intro v p hv _ _
  obtain ⟨x, rfl, _⟩ := wfSint_iff.mp hv
  rfl
theorem bok_bool : BOK encBool wfBool := by
  intro v p hv _ _
  cases v <;> simp [wfBool] at hv
  rfl
theorem bok_unit : BOK encUnit wfUnit := by
  intro v p hv _ _
  cases v <;> simp [wfUnit] at hv
  rfl
theorem bok_enum (vals : List Nat) : BOK (encEnum vals) (wfEnum vals) := by
  intro v p hv _ _
  cases v <;> simp [wfEnum] at hv
  rfl
theorem bok_bytes : BOK encBytes wfBytes := by
  intro v p hv he hp
  cases v <;> simp [wfBytes] at hv
  rename_i c
  simp only [encBytes, hv, if_true, Option.some.injEq] at he
  subst he
  exact all_of_isBytes (isBytes_append.mp hp).2
theorem bok_str : BOK encStr wfStr := by
  intro v p hv he hp
  cases v <;> simp [wfStr] at hv
  rename_i c
  simp only [encStr, hv.1, hv.2, decide_true, Bool.and_self, if_true, Option.some.injEq] at he
  subst he
  exact all_of_isBytes (isBytes_append.mp hp).2
theorem bok_opaque (n : Nat) (valid : Bytes → Bool) : BOK (encBytesN n) (wfOpaque n valid) := by
  intro v p hv he hp
  obtain ⟨c, rfl, hc, _⟩ := wfOpaque_iff.mp hv
  simp only [encBytesN, hc, if_true, Option.some.injEq] at he
  subst he
  exact all_of_isBytes hp
theorem bok_bytesN (n : Nat) : BOK (encBytesN n) (wfBytesN n) := by
  rw [wfBytesN_eq]; exact bok_opaque n _
theorem bok_program (O : Oracles) (tr : Bool) : BOK encProgram (wfProgram O tr) := by
  intro v p hv he hp
  cases v <;> simp only [wfProgram, Bool.false_eq_true] at hv
  simp only [encProgram, Option.some.injEq] at he
  subst he
  exact all_of_isBytes hp

theorem bok_option {e : Enc} {w : Wf} (h : BOK e w) : BOK (encOption e) (wfOption w) := by
  intro v p hv he hp
  rcases wfOption_iff.mp hv with rfl | ⟨x, rfl, hx⟩
  · rfl
  · simp only [encOption, Option.map_eq_some_iff] at he
    obtain ⟨q, hq, rfl⟩ := he
    simp only [bytesOK]
    exact h x q hx hq (isBytes_cons.mp hp).2

theorem bok_all {e : Enc} {w : Wf} (h : BOK e w) : ∀ (l : List V) (p : Bytes), l.all w = true → encAll e l = some p →
    isBytes p → bytesOKL l = true
  | [], _, _, _, _ => rfl
  | v :: vs, p, hw, he, hp => by
    simp only [List.all_cons, Bool.and_eq_true] at hw
    simp only [encAll] at he
    obtain ⟨x, y, hx, hy, rfl⟩ := optAppend_eq_some he
    have hxy := isBytes_append.mp hp
    simp only [bytesOKL, Bool.and_eq_true]
    exact ⟨h v x hw.1 hx hxy.1, bok_all h vs y hw.2 hy hxy.2⟩

theorem bok_vec {e : Enc} {w : Wf} (h : BOK e w) : BOK (encVec e) (wfVec w) := by
  intro v p hv he hp
  obtain ⟨l, rfl, hlen, hall⟩ := wfVec_iff.mp hv
  simp only [encVec, hlen, if_true, Option.map_eq_some_iff] at he
  obtain ⟨q, hq, rfl⟩ := he
  simp only [bytesOK]
  exact bok_all h l q hall hq (isBytes_append.mp hp).2

theorem bok_array (n : Nat) {e : Enc} {w : Wf} (h : BOK e w) : BOK (encArray n e) (wfArray n w) := by
  intro v p hv he hp
  obtain ⟨l, rfl, hlen, hall⟩ := wfArray_iff.mp hv
  simp only [encArray, hlen, if_true] at he
  simp only [bytesOK]
  exact bok_all h l p hall he hp

theorem bok_optpair {e g : Enc} {w x : Wf} (h1 : BOK e w) (h2 : BOK g x) : BOK (encOptPair e g) (wfOptPair w x) := by
  intro v p hv he hp
  obtain ⟨a, b, rfl, ha, hb⟩ := wfOptPair_iff.mp hv
  have key : bytesOK a = true ∧ bytesOK b = true → bytesOK (.tup [a, b]) = true := by
    intro h; simp only [bytesOK, bytesOKL, h.1, h.2, Bool.and_self]
  apply key
  rcases wfOption_iff.mp ha with rfl | ⟨xa, rfl, hxa⟩ <;> rcases wfOption_iff.mp hb with rfl | ⟨xb, rfl, hxb⟩
  · exact ⟨rfl, rfl⟩
  · simp only [encOptPair, Option.map_eq_some_iff] at he
    obtain ⟨q, hq, rfl⟩ := he
    exact ⟨rfl, h2 xb q hxb hq (isBytes_cons.mp hp).2⟩
  · simp only [encOptPair, Option.map_eq_some_iff] at he
    obtain ⟨q, hq, rfl⟩ := he
    exact ⟨h1 xa q hxa hq (isBytes_cons.mp hp).2, rfl⟩
  · simp only [encOptPair, Option.map_eq_some_iff] at he
    obtain ⟨q, hq, rfl⟩ := he
    obtain ⟨y1, y2, hy1, hy2, rfl⟩ := optAppend_eq_some hq
    have := isBytes_append.mp (isBytes_cons.mp hp).2
    exact ⟨h1 xa y1 hxa hy1 this.1, h2 xb y2 hxb hy2 this.2⟩

theorem bok_gentail (O : Oracles) (tr : Bool) : BOK encGenTail (wfGenTail O tr) := by
  intro v p hv he hp
  obtain ⟨gen, refs, buf, version, rfl, h⟩ := wfGenTail_iff.mp hv
  have key : bytesOK gen = true ∧ bytesOK refs = true ∧ bytesOK buf = true →
      bytesOK (.tup [gen, refs, buf, .n version]) = true := by
    intro h; simp only [bytesOK, bytesOKL, h.1, h.2.1, h.2.2, Bool.and_self]
  apply key
  rcases h with ⟨rfl, hg, hr, rfl⟩ | ⟨rfl, rfl, rfl, hbuf⟩
  · simp only [encGenTail, if_true] at he
    obtain ⟨y1, y2, hy1, hy2, rfl⟩ := optAppend_eq_some he
    have := isBytes_append.mp hp
    exact ⟨bok_option (bok_program O tr) gen y1 hg hy1 this.1, bok_vec (bok_uint 4) refs y2 hr hy2 this.2, rfl⟩
  · refine ⟨rfl, rfl, ?_⟩
    rcases wfOption_iff.mp hbuf with rfl | ⟨x, rfl, hx⟩
    · rfl
    · cases x <;> simp [wfBytes] at hx
      rename_i c
      simp only [encGenTail, if_neg (by decide : ¬ (1 : Nat) = 0), if_true, Option.some.injEq] at he
      subst he
      simp only [bytesOK]
      exact all_of_isBytes (isBytes_append.mp (isBytes_cons.mp hp).2).2

theorem bok_tup {e : List V → Option Bytes} {w : List V → Bool}
    (h : ∀ l p, w l = true → e l = some p → isBytes p → bytesOKL l = true) : BOK (encTup e) (wfTup w) := by
  intro v p hv he hp
  cases v <;> simp only [wfTup, Bool.false_eq_true] at hv
  rename_i l
  simp only [bytesOK]
  exact h l p hv he hp

theorem bok_contract2 : BOK encContract2 (wfOption (wfBytesN 32)) := by
  intro v p hv he hp
  rcases wfOption_iff.mp hv with rfl | ⟨x, rfl, hx⟩
  · rfl
  · simp only [encContract2, Option.map_eq_some_iff] at he
    obtain ⟨q, hq, rfl⟩ := he
    simp only [bytesOK]
    exact bok_bytesN 32 x q hx hq (isBytes_cons.mp hp).2

theorem bok_pos (O : Oracles) (tr : Bool) : BOK (encPos O false) (wfPos O tr) := by
  intro v p hv he hp
  obtain ⟨ch, pp, ct, pk, version, pi, mg, st, sz, pf, rfl, h1, h2, h3, h4, h5, h6⟩ := wfPos_iff.mp hv
  have key : bytesOK ch = true ∧ bytesOK pp = true ∧ bytesOK ct = true ∧ bytesOK pk = true ∧ bytesOK pf = true →
      bytesOK (.tup [ch, pp, ct, pk, .n version, .n pi, .n mg, .n st, .n sz, pf]) = true := by
    intro h; simp only [bytesOK, bytesOKL, h.1, h.2.1, h.2.2.1, h.2.2.2.1, h.2.2.2.2, Bool.and_self]
  apply key
  simp only [encPos] at he
  cases e1 : encBytesN 32 ch with
  | none => simp [e1] at he
  | some chb =>
  cases e2 : encOption (encBytesN 48) pp with
  | none => simp [e1, e2] at he
  | some ppb =>
  cases e3 : encBytesN 48 pk with
  | none => simp [e1, e2, e3] at he
  | some pkb =>
  cases e4 : encBytes pf with
  | none => simp [e1, e2, e3, e4] at he
  | some pfb =>
  simp only [e1, e2, e3, e4] at he
  have b1 := fun h => bok_bytesN 32 ch chb h1 e1 h
  have b2 := fun h => bok_option (bok_opaque 48 _) pp ppb h2 e2 h
  have b4 := fun h => bok_opaque 48 _ pk pkb h4 e3 h
  have b5 := fun h => bok_bytes pf pfb h5 e4 h
  rcases h6 with ⟨rfl, rfl, rfl, rfl, hsz⟩ | ⟨rfl, hpi, hmg, hst, rfl, _⟩
  · simp only [if_true] at he
    cases e5 : encOption (encBytesN 32) ct with
    | none => simp [e5] at he
    | some ctb =>
    cases e6 : encUint 1 (.n sz) with
    | none => simp [e5, e6] at he
    | some szb =>
    simp only [e5, e6, Option.some.injEq] at he
    subst he
    simp only [isBytes_append] at hp
    exact ⟨b1 hp.1.1.1.1.1, b2 hp.1.1.1.1.2, bok_option (bok_bytesN 32) ct ctb h3 e5 hp.1.1.1.2, b4 hp.1.1.2, b5 hp.2⟩
  · simp only [if_neg (by decide : ¬ (1 : Nat) = 0), if_true] at he
    cases e5 : encContract2 ct with
    | none => simp [e5] at he
    | some ctb =>
    cases e6 : encUint 2 (.n pi) with
    | none => simp [e5, e6] at he
    | some pib =>
    cases e7 : encUint 1 (.n mg) with
    | none => simp [e5, e6, e7] at he
    | some mgb =>
    cases e8 : encUint 1 (.n st) with
    | none => simp [e5, e6, e7, e8] at he
    | some stb =>
    simp only [e5, e6, e7, e8, Bool.false_eq_true, if_false, Option.some.injEq] at he
    subst he
    simp only [isBytes_append] at hp
    exact ⟨b1 hp.1.1.1.1.1.1.1, b2 hp.1.1.1.1.1.1.2, bok_contract2 ct ctb h3 e5 hp.1.1.1.1.1.2, b4 hp.1.1.1.1.2, b5 hp.2⟩

mutual
theorem bok_encode (O : Oracles) (tr : Bool) : ∀ t : Ty, BOK (encodeH O false t) (WF O tr t)
  | .uint n => by simp only [encodeH, WF]; exact bok_uint n
  | .sint n => by simp only [encodeH, WF]; exact bok_sint n
  | .bool => by simp only [encodeH, WF]; exact bok_bool
  | .unit => by simp only [encodeH, WF]; exact bok_unit
  | .bytes => by simp only [encodeH, WF]; exact bok_bytes
  | .bytesN n => by simp only [encodeH, WF]; exact bok_bytesN n
  | .str => by simp only [encodeH, WF]; exact bok_str
  | .option t => by simp only [encodeH, WF]; exact bok_option (bok_encode O tr t)
  | .vec t => by simp only [encodeH, WF]; exact bok_vec (bok_encode O tr t)
  | .tuple ts => by simp only [encodeH, WF]; exact bok_tup (bok_encodeL O tr ts)
  | .array n t => by simp only [encodeH, WF]; exact bok_array n (bok_encode O tr t)
  | .struct _ _ ts => by simp only [encodeH, WF]; exact bok_tup (bok_encodeL O tr ts)
  | .enum8 _ vals => by simp only [encodeH, WF]; exact bok_enum vals
  | .program => by simp only [encodeH, WF]; exact bok_program O tr
  | .g1 => by simp only [encodeH, WF, wfG1]; exact bok_opaque 48 _
  | .g2 => by simp only [encodeH, WF, wfG2]; exact bok_opaque 96 _
  | .gt => by simp only [encodeH, WF]; exact bok_opaque 576 _
  | .secretKey => by simp only [encodeH, WF]; exact bok_opaque 32 _
  | .optpair t u => by simp only [encodeH, WF]; exact bok_optpair (bok_encode O tr t) (bok_encode O tr u)
  | .genTail _ => by simp only [encodeH, WF]; exact bok_gentail O tr
  | .proofOfSpace => by simp only [encodeH, WF]; exact bok_pos O tr
theorem bok_encodeL (O : Oracles) (tr : Bool) : ∀ (ts : List Ty) (l : List V) (p : Bytes), WFL O tr ts l = true →
    encodeLH O false ts l = some p → isBytes p → bytesOKL l = true
  | [], [], _, _, _, _ => rfl
  | [], _ :: _, _, hw, _, _ => by simp [WFL] at hw
  | _ :: _, [], _, hw, _, _ => by simp [WFL] at hw
  | t :: ts, v :: vs, p, hw, he, hp => by
    simp only [WFL, Bool.and_eq_true] at hw
    simp only [encodeLH] at he
    obtain ⟨x, y, hx, hy, rfl⟩ := optAppend_eq_some he
    have hxy := isBytes_append.mp hp
    simp only [bytesOKL, Bool.and_eq_true]
    exact ⟨bok_encode O tr t v x hw.1 hx hxy.1, bok_encodeL O tr ts vs y hw.2 hy hxy.2⟩
end

end ChiaModel.JsonDict
