import ChiaModel.Lemmas.StreamableAlloc2
/-!
Pre-allocation bound: field lists, packed option pairs, generator tail, and the induction over `Ty`.
-/
namespace ChiaModel.Streamable
open ChiaModel

theorem Res.alloc_bind_ok {α β : Type} {x : Res α} {f : α → Res β} {a : α} (h : x.out = .ok a) :
    (x.bind f).alloc = x.alloc + (f a).alloc := by
  rw [Res.bind_alloc, h]

theorem Res.alloc_bind_le {α β : Type} {x : Res α} {f : α → Res β} {M : Nat}
    (h : ∀ a, x.out = .ok a → (f a).alloc ≤ M) : (x.bind f).alloc ≤ x.alloc + M := by
  rw [Res.bind_alloc]
  cases hx : x.out with
  | ok a => simp only; exact Nat.add_le_add_left (h a hx) _
  | err => simp
  | panic s => simp

theorem Res.alloc_bind_pure {α β : Type} (x : Res α) (g : α → β) : (x.bind fun a => Res.pure (g a)).alloc = x.alloc := by
  rw [Res.bind_alloc]; cases x.out <;> simp

theorem mul_le_of_le {F a b : Nat} (h : a ≤ b) : F * a ≤ F * b := Nat.mul_le_mul_left F h

/-! ### field lists -/

theorem allocOKL_nil (O : Oracles) (tr : Bool) : AllocOKL (decodeL O tr []) 0 0 where
  ok := by
    intro b vs r hd
    simp only [decodeL, Res.pure_out] at hd
    injection hd with hd; injection hd with _ e2; subst e2
    simp [decodeL]
  any := by intro b; simp [decodeL]

theorem allocOKL_cons (O : Oracles) (tr : Bool) (t : Ty) (ts : List Ty) {F1 D1 F2 D2 : Nat}
    (h1 : AllocOK (decode O tr t) F1 D1) (h2 : AllocOKL (decodeL O tr ts) F2 D2) :
    AllocOKL (decodeL O tr (t :: ts)) (F1 + F2) (max D1 D2) where
  ok := by
    intro b vs r hd
    obtain ⟨v, r1, l', hv, hl, _⟩ := decodeL_cons_ok.mp hd
    have a1 := h1.ok b v r1 hv
    have a2 := h2.ok r1 l' r hl
    have hal : (decodeL O tr (t :: ts) b).alloc = (decode O tr t b).alloc + (decodeL O tr ts r1).alloc := by
      rw [decodeL, Res.alloc_bind_ok hv]
      simp only
      rw [Res.alloc_bind_pure]
    rw [hal]
    exact alloc_seq a1 a2
  any := by
    intro b
    rw [decodeL]
    cases hv : (decode O tr t b).out with
    | ok vr =>
      obtain ⟨v, r1⟩ := vr
      rw [Res.alloc_bind_ok hv]
      simp only
      rw [Res.alloc_bind_pure]
      have a1 := h1.ok b v r1 hv
      have a2 := h2.any r1
      have hD : D2 * allocCap ≤ max D1 D2 * allocCap := Nat.mul_le_mul_right _ (Nat.le_max_right _ _)
      have := alloc_seq_any (F1 := F1) (F2 := F2) (D := D2) a1 a2
      omega
    | err =>
      have : ((decode O tr t b).bind fun vr => (decodeL O tr ts vr.2).bind fun lr => Res.pure (vr.1 :: lr.1, lr.2)).alloc
          = (decode O tr t b).alloc := by rw [Res.bind_alloc, hv]; simp
      rw [this]
      have a := h1.any b
      have hD : D1 * allocCap ≤ max D1 D2 * allocCap := Nat.mul_le_mul_right _ (Nat.le_max_left _ _)
      have hF : F1 * b.length ≤ (F1 + F2) * b.length := Nat.mul_le_mul_right _ (Nat.le_add_right _ _)
      omega
    | panic s =>
      have : ((decode O tr t b).bind fun vr => (decodeL O tr ts vr.2).bind fun lr => Res.pure (vr.1 :: lr.1, lr.2)).alloc
          = (decode O tr t b).alloc := by rw [Res.bind_alloc, hv]; simp
      rw [this]
      have a := h1.any b
      have hD : D1 * allocCap ≤ max D1 D2 * allocCap := Nat.mul_le_mul_right _ (Nat.le_max_left _ _)
      have hF : F1 * b.length ≤ (F1 + F2) * b.length := Nat.mul_le_mul_right _ (Nat.le_add_right _ _)
      omega

theorem allocOK_tup {d : Bytes → Res (List V × Bytes)} {F D : Nat} (h : AllocOKL d F D) : AllocOK (decTup d) F D where
  ok := by
    intro b v r hd
    obtain ⟨vs, hd', _⟩ := decTup_ok.mp hd
    have : (decTup d b).alloc = (d b).alloc := by unfold decTup; rw [Res.alloc_bind_pure]
    rw [this]; exact h.ok b vs r hd'
  any := by
    intro b
    have : (decTup d b).alloc = (d b).alloc := by unfold decTup; rw [Res.alloc_bind_pure]
    rw [this]; exact h.any b

/-! ### a decoder behind one already-consumed prefix byte -/

/-- lifting the facts about `f` on `b'` to the input `k :: b'` -/
theorem alloc_cons_ok {F a lr lb : Nat} (h : lr ≤ lb ∧ a + F * lr ≤ F * lb) :
    lr ≤ lb + 1 ∧ a + F * lr ≤ F * (lb + 1) := by
  refine ⟨by omega, ?_⟩
  rw [Nat.mul_succ]; omega

theorem allocOK_optpair {f g : Dec} {F1 D1 F2 D2 : Nat} (h1 : AllocOK f F1 D1) (h2 : AllocOK g F2 D2) :
    AllocOK (decOptPair f g) (F1 + F2) (max D1 D2) := by
  have hf := h1.mono (Nat.le_add_right F1 F2) (Nat.le_max_left D1 D2)
  have hg := h2.mono (Nat.le_add_left F2 F1) (Nat.le_max_right D1 D2)
  constructor
  · intro b v r hd
    obtain ⟨k, b', rfl, hk⟩ := decOptPair_ok.mp hd
    have hr : (readUint 1 (k :: b')).out = .ok (k, b') := readUint1_ok.mpr rfl
    unfold decOptPair
    rw [Res.alloc_bind_ok hr, readUint_alloc, Nat.zero_add]
    simp only [List.length_cons]
    rcases hk with ⟨rfl, rfl, _⟩ | ⟨rfl, x, hx, _⟩ | ⟨rfl, y, hy, _⟩ | ⟨rfl, x, r1, y, hx, hy, _⟩
    · simp only [if_true, Res.pure_alloc, Nat.zero_add]
      exact ⟨Nat.le_succ _, Nat.mul_le_mul_left _ (Nat.le_succ _)⟩
    · simp only [if_neg (by decide : ¬ (1 : Nat) = 0), if_true]
      rw [Res.alloc_bind_pure]
      exact alloc_cons_ok (hf.ok b' x r hx)
    · simp only [if_neg (by decide : ¬ (2 : Nat) = 0), if_neg (by decide : ¬ (2 : Nat) = 1), if_true]
      rw [Res.alloc_bind_pure]
      exact alloc_cons_ok (hg.ok b' y r hy)
    · simp only [if_neg (by decide : ¬ (3 : Nat) = 0), if_neg (by decide : ¬ (3 : Nat) = 1),
        if_neg (by decide : ¬ (3 : Nat) = 2), if_true]
      rw [Res.alloc_bind_ok hx]
      simp only
      rw [Res.alloc_bind_pure]
      exact alloc_cons_ok (alloc_seq (h1.ok b' x r1 hx) (h2.ok r1 y r hy))
  · intro b
    unfold decOptPair
    refine Nat.le_trans (Res.alloc_bind_le (M := (F1 + F2) * b.length + max D1 D2 * allocCap) ?_) (by rw [readUint_alloc]; omega)
    rintro ⟨k, b'⟩ hr
    have hb := readUint1_ok.mp hr
    subst hb
    have hlen : (F1 + F2) * b'.length ≤ (F1 + F2) * (k :: b').length := mul_le_of_le (by simp)
    simp only
    split
    · simp
    · split
      · rw [Res.alloc_bind_pure]; have := hf.any b'; omega
      · split
        · rw [Res.alloc_bind_pure]; have := hg.any b'; omega
        · split
          · cases hx : (f b').out with
            | ok xr =>
              obtain ⟨x, r1⟩ := xr
              rw [Res.alloc_bind_ok hx]
              simp only
              rw [Res.alloc_bind_pure]
              have hD : D2 * allocCap ≤ max D1 D2 * allocCap := Nat.mul_le_mul_right _ (Nat.le_max_right _ _)
              have := alloc_seq_any (F1 := F1) (F2 := F2) (D := D2) (h1.ok b' x r1 hx) (h2.any r1)
              omega
            | err =>
              have : ((f b').bind fun vr => (g vr.2).bind fun wr => Res.pure (V.tup [.some vr.1, .some wr.1], wr.2)).alloc
                  = (f b').alloc := by rw [Res.bind_alloc, hx]; simp
              rw [this]; have := hf.any b'; omega
            | panic s =>
              have : ((f b').bind fun vr => (g vr.2).bind fun wr => Res.pure (V.tup [.some vr.1, .some wr.1], wr.2)).alloc
                  = (f b').alloc := by rw [Res.bind_alloc, hx]; simp
              rw [this]; have := hf.any b'; omega
          · simp

/-! ### generator tail -/

theorem allocOK_refs : AllocOK (decVec 4 (decUint 4)) 4 1 := by
  have := allocOK_vec (sz := 4) (allocOK_of_noAlloc (noAlloc_uint 4) (total_uint 4) 0 0)
    ((consumes_uint 4).mono (by decide))
  simpa using this

theorem allocOK_gentail (O : Oracles) (tr : Bool) : AllocOK (decGenTail O tr) 4 1 where
  ok := by
    intro b v r hd
    obtain ⟨k, b', rfl, hk⟩ := decGenTail_ok.mp hd
    have hr : (readUint 1 (k :: b')).out = .ok (k, b') := readUint1_ok.mpr rfl
    unfold decGenTail
    rw [Res.alloc_bind_ok hr, readUint_alloc, Nat.zero_add]
    simp only [List.length_cons]
    rcases hk with ⟨h0, g, r1, l, hg, hl, _⟩ | ⟨h1, bf, hbf, _⟩
    · rw [if_pos h0]
      rw [Res.alloc_bind_ok hg, noAlloc_present (noAlloc_program O tr), Nat.zero_add]
      simp only
      rw [Res.alloc_bind_pure]
      have a2 := allocOK_refs.ok r1 l r hl
      have hr1 : r1.length ≤ b'.length := by
        rcases decPresent_ok.mp hg with ⟨_, _, rfl⟩ | ⟨_, x, hx, _⟩
        · exact Nat.le_refl _
        · obtain ⟨p, rfl⟩ := (total_program O tr).pre b' x r1 hx; simp
      refine ⟨by omega, ?_⟩
      omega
    · have h0 : ¬ k / 2 = 0 := by omega
      rw [if_neg h0, if_pos h1]
      rw [Res.alloc_bind_pure, noAlloc_present noAlloc_bytes]
      have hrl : r.length ≤ b'.length := by
        rcases decPresent_ok.mp hbf with ⟨_, _, rfl⟩ | ⟨_, x, hx, _⟩
        · exact Nat.le_refl _
        · obtain ⟨p, rfl⟩ := total_bytes.pre b' x r hx; simp
      refine ⟨by omega, by omega⟩
  any := by
    intro b
    unfold decGenTail
    refine Nat.le_trans (Res.alloc_bind_le (M := 4 * b.length + 1 * allocCap) ?_) (by rw [readUint_alloc]; omega)
    rintro ⟨k, b'⟩ hr
    have hb := readUint1_ok.mp hr
    subst hb
    simp only
    split
    · refine Nat.le_trans (Res.alloc_bind_le (M := 4 * (k :: b').length + 1 * allocCap) ?_)
        (by rw [noAlloc_present (noAlloc_program O tr)]; omega)
      rintro ⟨g, r1⟩ hg
      simp only
      rw [Res.alloc_bind_pure]
      have hr1 : r1.length ≤ b'.length := by
        rcases decPresent_ok.mp hg with ⟨_, _, rfl⟩ | ⟨_, x, hx, _⟩
        · exact Nat.le_refl _
        · obtain ⟨p, rfl⟩ := (total_program O tr).pre b' x r1 hx; simp
      have := allocOK_refs.any r1
      simp only [List.length_cons]
      omega
    · split
      · rw [Res.alloc_bind_pure, noAlloc_present noAlloc_bytes]; exact Nat.zero_le _
      · simp

/-! ### the induction -/

mutual
theorem allocOK_decode (O : Oracles) (hO : OracleContract O) (tr : Bool) :
    ∀ t : Ty, noZeroWidthVec t = true → AllocOK (decode O tr t) (allocFactor t) (vecDepth t)
  | .uint n, _ => by simp only [decode]; exact allocOK_of_noAlloc (noAlloc_uint n) (total_uint n) _ _
  | .sint n, _ => by simp only [decode]; exact allocOK_of_noAlloc (noAlloc_sint n) (total_sint n) _ _
  | .bool, _ => by simp only [decode]; exact allocOK_of_noAlloc noAlloc_bool total_bool _ _
  | .unit, _ => by simp only [decode]; exact allocOK_of_noAlloc noAlloc_unit total_unit _ _
  | .bytes, _ => by simp only [decode]; exact allocOK_of_noAlloc (noAlloc_lenPrefixed _) total_bytes _ _
  | .bytesN n, _ => by simp only [decode]; exact allocOK_of_noAlloc (noAlloc_bytesN n) (total_bytesN n) _ _
  | .str, _ => by simp only [decode]; exact allocOK_of_noAlloc (noAlloc_lenPrefixed _) total_str _ _
  | .option t, h => by
      simp only [decode, allocFactor, vecDepth]
      exact allocOK_option (allocOK_decode O hO tr t (by simpa [noZeroWidthVec] using h))
  | .vec t, h => by
      simp only [noZeroWidthVec, Bool.and_eq_true, decide_eq_true_eq] at h
      simp only [decode, allocFactor, vecDepth]
      exact allocOK_vec (allocOK_decode O hO tr t h.2) ((consumes_decode O hO tr t).mono h.1)
  | .tuple ts, h => by
      simp only [decode, allocFactor, vecDepth]
      exact allocOK_tup (allocOKL_decode O hO tr ts (by simpa [noZeroWidthVec] using h))
  | .array n t, h => by
      simp only [decode, allocFactor, vecDepth]
      exact allocOK_array (allocOK_decode O hO tr t (by simpa [noZeroWidthVec] using h))
  | .struct _ _ ts, h => by
      simp only [decode, allocFactor, vecDepth]
      exact allocOK_tup (allocOKL_decode O hO tr ts (by simpa [noZeroWidthVec] using h))
  | .enum8 _ vals, _ => by simp only [decode]; exact allocOK_of_noAlloc (noAlloc_enum vals) (total_enum vals) _ _
  | .program, _ => by simp only [decode]; exact allocOK_of_noAlloc (noAlloc_program O tr) (total_program O tr) _ _
  | .g1, _ => by simp only [decode]; exact allocOK_of_noAlloc (noAlloc_opaque _ _ _) (total_g1 O tr) _ _
  | .g2, _ => by simp only [decode]; exact allocOK_of_noAlloc (noAlloc_opaque _ _ _) (total_g2 O tr) _ _
  | .gt, _ => by simp only [decode]; exact allocOK_of_noAlloc (noAlloc_opaque _ _ _) (total_opaque _ _ _) _ _
  | .secretKey, _ => by simp only [decode]; exact allocOK_of_noAlloc (noAlloc_opaque _ _ _) (total_opaque _ _ _) _ _
  | .optpair t u, h => by
      simp only [noZeroWidthVec, Bool.and_eq_true] at h
      simp only [decode, allocFactor, vecDepth]
      exact allocOK_optpair (allocOK_decode O hO tr t h.1) (allocOK_decode O hO tr u h.2)
  | .genTail _, _ => by simp only [decode, allocFactor, vecDepth]; exact allocOK_gentail O tr
  | .proofOfSpace, _ => by simp only [decode]; exact allocOK_of_noAlloc (noAlloc_pos O tr) (total_pos O tr) _ _
theorem allocOKL_decode (O : Oracles) (hO : OracleContract O) (tr : Bool) :
    ∀ ts : List Ty, noZeroWidthVecL ts = true → AllocOKL (decodeL O tr ts) (allocFactorL ts) (vecDepthL ts)
  | [], _ => by simp only [allocFactorL, vecDepthL]; exact allocOKL_nil O tr
  | t :: ts, h => by
      simp only [noZeroWidthVecL, Bool.and_eq_true] at h
      simp only [allocFactorL, vecDepthL]
      exact allocOKL_cons O tr t ts (allocOK_decode O hO tr t h.1) (allocOKL_decode O hO tr ts h.2)
end

end ChiaModel.Streamable
