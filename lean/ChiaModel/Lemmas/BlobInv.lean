import ChiaModel.Lemmas.BlobL2
/-
C18, level L2: the local invariant `LInv` is preserved by `insert` (all three paths), and what
follows from that.
-/
namespace ChiaModel.Blob
open M

/-! ### `Blob.write` pointwise -/

theorem write_get (s : Blob) (i : Nat) (b : Block) (hi : i < s.blocks.length) (j : Nat) :
    (s.write i b).blocks[j]? = if j = i then some b else s.blocks[j]? := by
  rw [write_blocks_lt s i b hi]
  by_cases h : j = i
  · subst h; rw [if_pos rfl, List.getElem?_set_self hi]
  · rw [if_neg h, List.getElem?_set_ne (fun e => h e.symm)]

theorem write_len (s : Blob) (i : Nat) (b : Block) (hi : i < s.blocks.length) :
    (s.write i b).blocks.length = s.blocks.length := by
  rw [write_blocks_lt s i b hi, List.length_set]

theorem write_k2i_leaf (s : Blob) (i : Nat) (d : Bool) (h : Hash) (p : Option Nat) (k : KeyId) (v : ValueId) :
    (s.write i { dirty := d, node := .leaf h p k v }).k2i = mapInsert s.k2i k i := rfl
theorem write_h2i_leaf (s : Blob) (i : Nat) (d : Bool) (h : Hash) (p : Option Nat) (k : KeyId) (v : ValueId) :
    (s.write i { dirty := d, node := .leaf h p k v }).h2i = mapInsert s.h2i h i := rfl
theorem write_k2i_internal (s : Blob) (i : Nat) (d : Bool) (h : Hash) (p : Option Nat) (l r : Nat) :
    (s.write i { dirty := d, node := .internal h p l r }).k2i = s.k2i := rfl
theorem write_h2i_internal (s : Blob) (i : Nat) (d : Bool) (h : Hash) (p : Option Nat) (l r : Nat) :
    (s.write i { dirty := d, node := .internal h p l r }).h2i = s.h2i := rfl

/-! ### association lists -/

theorem mapGet_insert_self {κ : Type} [DecidableEq κ] (m : List (κ × Nat)) (k : κ) (i : Nat) :
    mapGet (mapInsert m k i) k = some i := by
  simp [mapInsert, mapGet]

theorem mapGet_filter_ne {κ : Type} [DecidableEq κ] (m : List (κ × Nat)) (k k' : κ) (h : k' ≠ k) :
    mapGet (m.filter (fun e => e.1 ≠ k)) k' = mapGet m k' := by
  induction m with
  | nil => rfl
  | cons x m ih =>
    obtain ⟨kx, ix⟩ := x
    by_cases hx : kx = k
    · rw [List.filter_cons_of_neg (by simp [hx]), ih]
      simp only [mapGet]
      rw [if_neg (fun e => h (e.symm.trans hx))]
    · rw [List.filter_cons_of_pos (by simp [hx])]
      simp only [mapGet, ih]

theorem mapGet_insert_ne {κ : Type} [DecidableEq κ] (m : List (κ × Nat)) (k k' : κ) (i : Nat) (h : k' ≠ k) :
    mapGet (mapInsert m k i) k' = mapGet m k' := by
  simp only [mapInsert, mapGet]
  rw [if_neg (fun e => h e.symm)]
  exact mapGet_filter_ne m k k' h

theorem mem_mapInsert {κ : Type} [DecidableEq κ] (m : List (κ × Nat)) (k : κ) (i : Nat) (e : κ × Nat)
    (h : e ∈ mapInsert m k i) : e = (k, i) ∨ (e ∈ m ∧ e.1 ≠ k) := by
  simp only [mapInsert, List.mem_cons, List.mem_filter, ne_eq, decide_eq_true_eq] at h
  exact h

theorem mapGet_isSome_of_mem {κ : Type} [DecidableEq κ] (m : List (κ × Nat)) (e : κ × Nat) (h : e ∈ m) :
    (mapGet m e.1).isSome = true := by
  induction m with
  | nil => cases h
  | cons x m ih =>
    obtain ⟨kx, ix⟩ := x
    simp only [mapGet]
    by_cases hx : kx = e.1
    · rw [if_pos hx]; rfl
    · rw [if_neg hx]
      rcases List.mem_cons.mp h with h | h
      · rw [h] at hx; exact absurd rfl hx
      · exact ih h

theorem mapInsert_keys_nodup {κ : Type} [DecidableEq κ] (m : List (κ × Nat)) (k : κ) (i : Nat)
    (h : (m.map (·.1)).Nodup) : ((mapInsert m k i).map (·.1)).Nodup := by
  simp only [mapInsert, List.map_cons, List.nodup_cons]
  refine ⟨?_, (h.sublist ((List.filter_sublist).map _))⟩
  intro hm
  obtain ⟨e, he, hek⟩ := List.mem_map.mp hm
  have := (List.mem_filter.mp he).2
  simp only [ne_eq, decide_eq_true_eq] at this
  exact this hek

/-! ### two index allocations in a row -/

/-- the result of two `get_new_index` calls: first index, second index, state -/
def popTwo (s : Blob) : Nat × Nat × Blob :=
  match s.free with
  | a :: b :: rest => (a, b, { s with free := rest })
  | [a] => (a, s.blocks.length, { s with free := [], blocks := s.blocks ++ [Block.zero] })
  | [] => (s.blocks.length, s.blocks.length + 1,
      { s with blocks := (s.blocks ++ [Block.zero]) ++ [Block.zero] })

theorem getNewIndex_twice {α : Type} (f : Nat → Nat → M α) (s : Blob) :
    (do let a ← getNewIndex; let b ← getNewIndex; f a b) s
      = f (popTwo s).1 (popTwo s).2.1 (popTwo s).2.2 := by
  show (getNewIndex >>= fun a => getNewIndex >>= fun b => f a b) s = _
  unfold popTwo
  rw [bind_run, getNewIndex_run]
  cases hf : s.free with
  | nil => simp only [bind_run, getNewIndex_run, hf, List.length_append, List.length_cons, List.length_nil]
  | cons a rest =>
    cases rest with
    | nil => simp only [bind_run, getNewIndex_run]
    | cons b rest => simp only [bind_run, getNewIndex_run]

structure PopTwo (s : Blob) (nl ni : Nat) (s2 : Blob) : Prop where
  ne : nl ≠ ni
  nlLt : nl < s2.blocks.length
  niLt : ni < s2.blocks.length
  nlNew : nl ∈ s.free ∨ s.blocks.length ≤ nl
  niNew : ni ∈ s.free ∨ s.blocks.length ≤ ni
  len : s.blocks.length ≤ s2.blocks.length
  newIdx : ∀ j, s.blocks.length ≤ j → j < s2.blocks.length → j = nl ∨ j = ni
  same : ∀ j, j < s.blocks.length → s2.blocks[j]? = s.blocks[j]?
  zero : ∀ j b, s2.blocks[j]? = some b → s.blocks.length ≤ j → b = Block.zero
  free : ∀ j, j ∈ s2.free ↔ (j ∈ s.free ∧ j ≠ nl ∧ j ≠ ni)
  freeNodup : s2.free.Nodup
  k2i : s2.k2i = s.k2i
  h2i : s2.h2i = s.h2i

theorem popTwo_spec (s : Blob) (hlt : ∀ i ∈ s.free, i < s.blocks.length) (hnd : s.free.Nodup) :
    PopTwo s (popTwo s).1 (popTwo s).2.1 (popTwo s).2.2 := by
  unfold popTwo
  cases hf : s.free with
  | nil =>
    simp only
    refine ⟨by omega, by simp, by simp, Or.inr (Nat.le_refl _), Or.inr (by omega), by simp, ?_, ?_, ?_, ?_, List.nodup_nil, rfl, rfl⟩
    · intro j h1 h2; simp only [List.length_append, List.length_cons, List.length_nil] at h2; omega
    · intro j hj
      rw [List.getElem?_append_left (by simp; omega), List.getElem?_append_left hj]
    · intro j b hb hj
      rw [List.append_assoc, List.getElem?_append_right hj] at hb
      have := List.mem_of_getElem? hb
      simp at this; exact this
    · intro j; rw [hf]; simp
  | cons a rest =>
    cases rest with
    | nil =>
      have ha : a < s.blocks.length := hlt a (by rw [hf]; simp)
      simp only
      refine ⟨by omega, by simp; omega, by simp, Or.inl (by rw [hf]; simp), Or.inr (Nat.le_refl _), by simp, ?_, ?_, ?_, ?_, List.nodup_nil, rfl, rfl⟩
      · intro j h1 h2; simp only [List.length_append, List.length_cons, List.length_nil] at h2; omega
      · intro j hj; rw [List.getElem?_append_left hj]
      · intro j b hb hj
        rw [List.getElem?_append_right hj] at hb
        have := List.mem_of_getElem? hb
        simp at this; exact this
      · intro j; rw [hf]; simp
        intro e h; exact absurd e h
    | cons b rest =>
      have ha : a < s.blocks.length := hlt a (by rw [hf]; simp)
      have hb : b < s.blocks.length := hlt b (by rw [hf]; simp)
      rw [hf] at hnd
      simp only [List.nodup_cons, List.mem_cons, not_or] at hnd
      simp only
      refine ⟨hnd.1.1, ha, hb, Or.inl (by rw [hf]; simp), Or.inl (by rw [hf]; simp), Nat.le_refl _, ?_,
        fun _ _ => rfl, ?_, ?_, hnd.2.2, rfl, rfl⟩
      · intro j h1 h2
        have : j < s.blocks.length := h2
        omega
      · intro j b' hb' hj
        have : j < s.blocks.length := (List.getElem?_eq_some_iff.mp hb').1
        omega
      · intro j
        rw [hf]
        simp only [List.mem_cons]
        constructor
        · intro hj
          refine ⟨Or.inr (Or.inr hj), ?_, ?_⟩
          · intro e; subst e; exact hnd.1.2 hj
          · intro e; subst e; exact hnd.2.1 hj
        · rintro ⟨h1 | h1 | h1, h2, h3⟩
          · exact absurd h1 h2
          · exact absurd h1 h3
          · exact h1

/-! ### `insert_third_or_later` as one explicit state update -/

def childPair (side : Side) (nl idx : Nat) : Nat × Nat :=
  match side with
  | .left => (nl, idx)
  | .right => (idx, nl)

/-- the blob after the four structural writes of `insert_third_or_later` (before dirty marking) -/
def thirdState (s : Blob) (k : KeyId) (v : ValueId) (h : Hash) (opi idx : Nat) (ih : Hash) (side : Side)
    (d : Bool) (oh : Hash) (ok : KeyId) (ov : ValueId) (d' : Bool) (ph : Hash) (pp : Option Nat)
    (pl pr : Nat) : Blob :=
  let nl := (popTwo s).1
  let ni := (popTwo s).2.1
  let s2 := (popTwo s).2.2
  let s3 := s2.write nl { dirty := false, node := .leaf h (some ni) k v }
  let s4 := s3.write ni { dirty := false, node := .internal ih (some opi) (childPair side nl idx).1 (childPair side nl idx).2 }
  let s5 := s4.write idx { dirty := d, node := .leaf oh (some ni) ok ov }
  s5.write opi { dirty := d', node := if idx = pl then .internal ph pp ni pr else .internal ph pp pl ni }

theorem updateParent_run (i : Nat) (p : Option Nat) (s : Blob) (b : Block) (hb : s.blocks[i]? = some b) :
    updateParent i p s = (.ok { b with node := b.node.setParent p }, s.write i { b with node := b.node.setParent p }) := by
  have hi : i < s.blocks.length := (List.getElem?_eq_some_iff.mp hb).1
  unfold updateParent
  simp only [bind_run, getBlock_run, hb, writeBlock_run, if_neg (Nat.not_lt.mpr (Nat.le_of_lt hi)), pure_run]

theorem insertThird_run (s : Blob) (k : KeyId) (v : ValueId) (h : Hash) (opi idx : Nat) (ih : Hash)
    (side : Side) (hlt : ∀ i ∈ s.free, i < s.blocks.length) (hnd : s.free.Nodup)
    {d : Bool} {oh : Hash} {ok : KeyId} {ov : ValueId}
    (hleaf : s.blocks[idx]? = some { dirty := d, node := .leaf oh (some opi) ok ov })
    {d' : Bool} {ph : Hash} {pp : Option Nat} {pl pr : Nat}
    (hpar : s.blocks[opi]? = some { dirty := d', node := .internal ph pp pl pr })
    (hch : idx = pl ∨ idx = pr) (hif : idx ∉ s.free) (hnf : opi ∉ s.free) :
    insertThird k v h (some opi) idx ih side s
      = (do markLineageDirty opi; pure (popTwo s).1)
          (thirdState s k v h opi idx ih side d oh ok ov d' ph pp pl pr) := by
  have P := popTwo_spec s hlt hnd
  have hidx : idx < s.blocks.length := (List.getElem?_eq_some_iff.mp hleaf).1
  have hopi : opi < s.blocks.length := (List.getElem?_eq_some_iff.mp hpar).1
  have hne : opi ≠ idx := by
    intro e; rw [e, hleaf] at hpar; injection hpar with hpar; injection hpar with _ hn; cases hn
  have fresh : ∀ x, (x ∈ s.free ∨ s.blocks.length ≤ x) → ∀ y, y < s.blocks.length → y ∉ s.free → y ≠ x := by
    intro x hx y hy hyf e; subst e
    rcases hx with hx | hx
    · exact hyf hx
    · omega
  unfold insertThird
  rw [getNewIndex_twice]
  generalize hnl : (popTwo s).1 = nl at P
  generalize hni : (popTwo s).2.1 = ni at P
  generalize hs2 : (popTwo s).2.2 = s2 at P
  have e_ts : thirdState s k v h opi idx ih side d oh ok ov d' ph pp pl pr
      = (((s2.write nl { dirty := false, node := .leaf h (some ni) k v }).write ni
            { dirty := false, node := .internal ih (some opi) (childPair side nl idx).1 (childPair side nl idx).2 }).write idx
            { dirty := d, node := .leaf oh (some ni) ok ov }).write opi
            { dirty := d', node := if idx = pl then .internal ph pp ni pr else .internal ph pp pl ni } := by
    simp only [thirdState, hnl, hni, hs2]
  rw [e_ts]
  -- the four writes
  have l3 := write_len s2 nl { dirty := false, node := .leaf h (some ni) k v } P.nlLt
  generalize hs3 : s2.write nl { dirty := false, node := .leaf h (some ni) k v } = s3 at *
  have hni3 : ni < s3.blocks.length := by rw [l3]; exact P.niLt
  have l4 := write_len s3 ni { dirty := false, node := .internal ih (some opi) (childPair side nl idx).1 (childPair side nl idx).2 } hni3
  have hidx2 : idx < s2.blocks.length := Nat.lt_of_lt_of_le hidx P.len
  have hopi2 : opi < s2.blocks.length := Nat.lt_of_lt_of_le hopi P.len
  have g4 : ∀ j, j ≠ nl → j ≠ ni → j < s.blocks.length →
      ((s3.write ni { dirty := false, node := .internal ih (some opi) (childPair side nl idx).1 (childPair side nl idx).2 }).blocks[j]?)
        = s.blocks[j]? := by
    intro j h1 h2 h3
    rw [write_get _ _ _ hni3, if_neg h2, ← hs3, write_get _ _ _ P.nlLt, if_neg h1, P.same j h3]
  generalize hs4 : s3.write ni { dirty := false, node := .internal ih (some opi) (childPair side nl idx).1 (childPair side nl idx).2 } = s4 at *
  have hidx4 : idx < s4.blocks.length := by rw [l4, l3]; exact hidx2
  have b_idx : s4.blocks[idx]? = some { dirty := d, node := .leaf oh (some opi) ok ov } := by
    rw [g4 idx (fresh nl P.nlNew idx hidx hif) (fresh ni P.niNew idx hidx hif) hidx]; exact hleaf
  have l5 := write_len s4 idx { dirty := d, node := .leaf oh (some ni) ok ov } hidx4
  have b_opi : (s4.write idx { dirty := d, node := .leaf oh (some ni) ok ov }).blocks[opi]?
      = some { dirty := d', node := .internal ph pp pl pr } := by
    rw [write_get _ _ _ hidx4, if_neg hne, g4 opi (fresh nl P.nlNew opi hopi hnf) (fresh ni P.niNew opi hopi hnf) hopi]
    exact hpar
  have hopi5 : opi < (s4.write idx { dirty := d, node := .leaf oh (some ni) ok ov }).blocks.length := by
    rw [l5, l4, l3]; exact hopi2
  have w1 : writeBlock nl { dirty := false, node := .leaf h (some ni) k v } s2 = (.ok (), s3) := by
    rw [writeBlock_run, if_neg (Nat.not_lt.mpr (Nat.le_of_lt P.nlLt)), hs3]
  have w2 : ∀ (l r : Nat), (l, r) = childPair side nl idx →
      writeBlock ni { dirty := false, node := .internal ih (some opi) l r } s3 = (.ok (), s4) := by
    intro l r e
    have e1 : l = (childPair side nl idx).1 := by rw [← e]
    have e2 : r = (childPair side nl idx).2 := by rw [← e]
    rw [writeBlock_run, if_neg (Nat.not_lt.mpr (Nat.le_of_lt hni3)), e1, e2, hs4]
  have w3 : updateParent idx (some ni) s4
      = (.ok { dirty := d, node := .leaf oh (some ni) ok ov }, s4.write idx { dirty := d, node := .leaf oh (some ni) ok ov }) := by
    rw [updateParent_run idx (some ni) s4 _ b_idx]; rfl
  have w4 : replaceChild opi idx ni (s4.write idx { dirty := d, node := .leaf oh (some ni) ok ov })
      = (.ok (), (s4.write idx { dirty := d, node := .leaf oh (some ni) ok ov }).write opi
          { dirty := d', node := if idx = pl then .internal ph pp ni pr else .internal ph pp pl ni }) := by
    unfold replaceChild
    simp only [bind_run, getBlock_run, b_opi]
    by_cases h1 : idx = pl
    · simp only [if_pos h1, writeBlock_run, if_neg (Nat.not_lt.mpr (Nat.le_of_lt hopi5))]
    · have h2 : idx = pr := hch.resolve_left h1
      simp only [if_neg h1, if_pos h2, writeBlock_run, if_neg (Nat.not_lt.mpr (Nat.le_of_lt hopi5))]
  cases side with
  | left =>
    simp only [bind_run, w1, w2 nl idx rfl, w3, w4]
  | right =>
    simp only [bind_run, w1, w2 idx nl rfl, w3, w4]

/-- the contents of `thirdState`, pointwise -/
theorem thirdState_post (s : Blob) (k : KeyId) (v : ValueId) (h : Hash) (opi idx : Nat) (ih : Hash) (side : Side)
    (d : Bool) (oh : Hash) (ok : KeyId) (ov : ValueId) (d' : Bool) (ph : Hash) (pp : Option Nat) (pl pr : Nat)
    (hlt : ∀ i ∈ s.free, i < s.blocks.length) (hnd : s.free.Nodup)
    (hidx : idx < s.blocks.length) (hopi : opi < s.blocks.length) (hif : idx ∉ s.free) (hnf : opi ∉ s.free) :
    let T := thirdState s k v h opi idx ih side d oh ok ov d' ph pp pl pr
    let nl := (popTwo s).1
    let ni := (popTwo s).2.1
    let s2 := (popTwo s).2.2
    T.blocks.length = s2.blocks.length
    ∧ (∀ j, T.blocks[j]? =
        if j = opi then some { dirty := d', node := if idx = pl then .internal ph pp ni pr else .internal ph pp pl ni }
        else if j = idx then some { dirty := d, node := .leaf oh (some ni) ok ov }
        else if j = ni then some { dirty := false, node := .internal ih (some opi) (childPair side nl idx).1 (childPair side nl idx).2 }
        else if j = nl then some { dirty := false, node := .leaf h (some ni) k v }
        else s2.blocks[j]?)
    ∧ T.free = s2.free
    ∧ T.k2i = mapInsert (mapInsert s.k2i k nl) ok idx
    ∧ T.h2i = mapInsert (mapInsert s.h2i h nl) oh idx := by
  intro T nl ni s2
  have P := popTwo_spec s hlt hnd
  have hnl : nl < s2.blocks.length := P.nlLt
  have l3 := write_len s2 nl { dirty := false, node := .leaf h (some ni) k v } hnl
  have hni3 : ni < (s2.write nl { dirty := false, node := .leaf h (some ni) k v }).blocks.length := by rw [l3]; exact P.niLt
  have l4 := write_len _ ni { dirty := false, node := .internal ih (some opi) (childPair side nl idx).1 (childPair side nl idx).2 } hni3
  have hidx4 : idx < ((s2.write nl { dirty := false, node := .leaf h (some ni) k v }).write ni
      { dirty := false, node := .internal ih (some opi) (childPair side nl idx).1 (childPair side nl idx).2 }).blocks.length := by
    rw [l4, l3]; exact Nat.lt_of_lt_of_le hidx P.len
  have l5 := write_len _ idx { dirty := d, node := .leaf oh (some ni) ok ov } hidx4
  have hopi5 : opi < ((((s2.write nl { dirty := false, node := .leaf h (some ni) k v }).write ni
      { dirty := false, node := .internal ih (some opi) (childPair side nl idx).1 (childPair side nl idx).2 }).write idx
      { dirty := d, node := .leaf oh (some ni) ok ov })).blocks.length := by
    rw [l5, l4, l3]; exact Nat.lt_of_lt_of_le hopi P.len
  have l6 := write_len _ opi { dirty := d', node := if idx = pl then .internal ph pp ni pr else .internal ph pp pl ni } hopi5
  have hfree2 : ∀ x, x ∉ s.free → x ∉ s2.free := fun x hx hx2 => hx ((P.free x).mp hx2).1
  refine ⟨?_, ?_, ?_, ?_, ?_⟩
  · show (thirdState s k v h opi idx ih side d oh ok ov d' ph pp pl pr).blocks.length = _
    simp only [thirdState]
    rw [l6, l5, l4, l3]
  · intro j
    show (thirdState s k v h opi idx ih side d oh ok ov d' ph pp pl pr).blocks[j]? = _
    simp only [thirdState]
    rw [write_get _ _ _ hopi5, write_get _ _ _ hidx4, write_get _ _ _ hni3, write_get _ _ _ hnl]
  · show (thirdState s k v h opi idx ih side d oh ok ov d' ph pp pl pr).free = _
    simp only [thirdState, write_free]
    have h1 : nl ∉ s2.free := fun hx => ((P.free nl).mp hx).2.1 rfl
    have h2 : ni ∉ s2.free := fun hx => ((P.free ni).mp hx).2.2 rfl
    rw [List.erase_of_not_mem h1, List.erase_of_not_mem h2, List.erase_of_not_mem (hfree2 idx hif),
      List.erase_of_not_mem (hfree2 opi hnf)]
  · show (thirdState s k v h opi idx ih side d oh ok ov d' ph pp pl pr).k2i = _
    simp only [thirdState]
    by_cases hc : idx = pl
    · simp only [if_pos hc, write_k2i_internal, write_k2i_leaf, P.k2i]; rfl
    · simp only [if_neg hc, write_k2i_internal, write_k2i_leaf, P.k2i]; rfl
  · show (thirdState s k v h opi idx ih side d oh ok ov d' ph pp pl pr).h2i = _
    simp only [thirdState]
    by_cases hc : idx = pl
    · simp only [if_pos hc, write_h2i_internal, write_h2i_leaf, P.h2i]; rfl
    · simp only [if_neg hc, write_h2i_internal, write_h2i_leaf, P.h2i]; rfl

/-! ### reading and building the cache clauses -/

theorem okKey_elim {s : Blob} {e : KeyId × Nat} (h : okKey s e) :
    e.2 ∉ s.free ∧ ∃ d hh p v, s.blocks[e.2]? = some { dirty := d, node := .leaf hh p e.1 v } := by
  simp only [okKey] at h
  refine ⟨h.1, ?_⟩
  have h2 := h.2
  split at h2
  · rename_i d hh p k' v heq
    subst h2
    exact ⟨_, _, _, _, heq⟩
  · exact absurd h2 id

theorem okKey_intro {s : Blob} {e : KeyId × Nat} {d : Bool} {hh : Hash} {p : Option Nat} {v : ValueId}
    (hf : e.2 ∉ s.free) (hb : s.blocks[e.2]? = some { dirty := d, node := .leaf hh p e.1 v }) : okKey s e := by
  simp only [okKey, hb]
  exact ⟨hf, trivial⟩

theorem okHash_elim {s : Blob} {e : Hash × Nat} (h : okHash s e) :
    e.2 ∉ s.free ∧ ∃ d p k v, s.blocks[e.2]? = some { dirty := d, node := .leaf e.1 p k v } := by
  simp only [okHash] at h
  refine ⟨h.1, ?_⟩
  have h2 := h.2
  split at h2
  · rename_i d hh p k' v heq
    subst h2
    exact ⟨_, _, _, _, heq⟩
  · exact absurd h2 id

theorem okHash_intro {s : Blob} {e : Hash × Nat} {d : Bool} {p : Option Nat} {k : KeyId} {v : ValueId}
    (hf : e.2 ∉ s.free) (hb : s.blocks[e.2]? = some { dirty := d, node := .leaf e.1 p k v }) : okHash s e := by
  simp only [okHash, hb]
  exact ⟨hf, trivial⟩

/-- the caches know a live leaf -/
theorem LInv.leaf_cached {s : Blob} (hinv : LInv s) {i : Nat} {d : Bool} {hh : Hash} {p : Option Nat}
    {k : KeyId} {v : ValueId} (hi : i ∉ s.free) (hb : s.blocks[i]? = some { dirty := d, node := .leaf hh p k v }) :
    mapGet s.k2i k = some i ∧ mapGet s.h2i hh = some i := by
  have hil : i < s.blocks.length := (List.getElem?_eq_some_iff.mp hb).1
  have := (hinv.node i hil hi).2.2
  simp only [okLeaf, hb] at this
  exact this

theorem LInv.children' {s : Blob} (hinv : LInv s) {i : Nat} {d : Bool} {h : Hash} {p : Option Nat} {l r : Nat}
    (hi : i ∉ s.free) (hb : s.blocks[i]? = some { dirty := d, node := .internal h p l r }) :
    l < s.blocks.length ∧ r < s.blocks.length ∧ l ∉ s.free ∧ r ∉ s.free ∧ l ≠ r
      ∧ parentOf s l = some i ∧ parentOf s r = some i := by
  have hil : i < s.blocks.length := (List.getElem?_eq_some_iff.mp hb).1
  have := (hinv.node i hil hi).1
  simp only [okChildren, hb] at this
  exact this

/-! ### the local invariant after `insert_third_or_later` -/

/-- everything the proof needs to know about the state `T` after the four structural writes -/
structure ThirdPost (s T : Blob) (nl ni : Nat) (k : KeyId) (v : ValueId) (h : Hash) (opi idx : Nat)
    (ih : Hash) (l r : Nat) (d : Bool) (oh : Hash) (ok : KeyId) (ov : ValueId)
    (d' : Bool) (ph : Hash) (pp : Option Nat) (pl pr pl' pr' : Nat) : Prop where
  inv : LInv s
  hk : mapGet s.k2i k = none
  hh : mapGet s.h2i h = none
  len1 : s.k2i.length ≠ 1
  idxLt : idx < s.blocks.length
  idxLive : idx ∉ s.free
  leaf : s.blocks[idx]? = some { dirty := d, node := .leaf oh (some opi) ok ov }
  par : s.blocks[opi]? = some { dirty := d', node := .internal ph pp pl pr }
  kids : (l = nl ∧ r = idx) ∨ (l = idx ∧ r = nl)
  pkids : (idx = pl ∧ pl' = ni ∧ pr' = pr) ∨ (idx = pr ∧ idx ≠ pl ∧ pl' = pl ∧ pr' = ni)
  ne : nl ≠ ni
  nlNew : nl ∈ s.free ∨ s.blocks.length ≤ nl
  niNew : ni ∈ s.free ∨ s.blocks.length ≤ ni
  lenLe : s.blocks.length ≤ T.blocks.length
  nlLt : nl < T.blocks.length
  niLt : ni < T.blocks.length
  newIdx : ∀ j, s.blocks.length ≤ j → j < T.blocks.length → j = nl ∨ j = ni
  bOpi : T.blocks[opi]? = some { dirty := d', node := .internal ph pp pl' pr' }
  bIdx : T.blocks[idx]? = some { dirty := d, node := .leaf oh (some ni) ok ov }
  bNi : T.blocks[ni]? = some { dirty := false, node := .internal ih (some opi) l r }
  bNl : T.blocks[nl]? = some { dirty := false, node := .leaf h (some ni) k v }
  bOther : ∀ j, j ≠ opi → j ≠ idx → j ≠ ni → j ≠ nl → j < s.blocks.length → T.blocks[j]? = s.blocks[j]?
  free : ∀ j, j ∈ T.free ↔ (j ∈ s.free ∧ j ≠ nl ∧ j ≠ ni)
  freeNodup : T.free.Nodup
  k2i : T.k2i = mapInsert (mapInsert s.k2i k nl) ok idx
  h2i : T.h2i = mapInsert (mapInsert s.h2i h nl) oh idx

namespace ThirdPost

variable {s T : Blob} {nl ni : Nat} {k : KeyId} {v : ValueId} {h : Hash} {opi idx : Nat}
  {ih : Hash} {l r : Nat} {d : Bool} {oh : Hash} {ok : KeyId} {ov : ValueId}
  {d' : Bool} {ph : Hash} {pp : Option Nat} {pl pr pl' pr' : Nat}

theorem opiLt (P : ThirdPost s T nl ni k v h opi idx ih l r d oh ok ov d' ph pp pl pr pl' pr') :
    opi < s.blocks.length := (List.getElem?_eq_some_iff.mp P.par).1

theorem opiFacts (P : ThirdPost s T nl ni k v h opi idx ih l r d oh ok ov d' ph pp pl pr pl' pr') :
    opi ∉ s.free ∧ (idx = pl ∨ idx = pr) := by
  obtain ⟨a, d2, ph2, pp2, pl2, pr2, hb, hc⟩ := P.inv.parent_of P.idxLive P.leaf rfl
  rw [P.par] at hb
  injection hb with hb
  injection hb with _ hn
  injection hn with _ _ e3 e4
  subst e3; subst e4
  exact ⟨a, hc⟩

/-- an index that was live before is neither of the two new indexes -/
theorem fresh (P : ThirdPost s T nl ni k v h opi idx ih l r d oh ok ov d' ph pp pl pr pl' pr')
    {y : Nat} (hy : y < s.blocks.length) (hyf : y ∉ s.free) : y ≠ nl ∧ y ≠ ni := by
  constructor
  · intro e; subst e
    rcases P.nlNew with hx | hx
    · exact hyf hx
    · omega
  · intro e; subst e
    rcases P.niNew with hx | hx
    · exact hyf hx
    · omega

theorem opiNe (P : ThirdPost s T nl ni k v h opi idx ih l r d oh ok ov d' ph pp pl pr pl' pr') : opi ≠ idx := by
  intro e
  have h1 := P.par
  rw [e, P.leaf] at h1
  injection h1 with h1; injection h1 with _ hn; cases hn

/-- the live indexes of `T`: the two new ones and the old live ones -/
theorem liveT (P : ThirdPost s T nl ni k v h opi idx ih l r d oh ok ov d' ph pp pl pr pl' pr')
    {j : Nat} (hj : j < T.blocks.length) (hjf : j ∉ T.free) :
    j = nl ∨ j = ni ∨ (j < s.blocks.length ∧ j ∉ s.free) := by
  by_cases h1 : j = nl
  · exact Or.inl h1
  by_cases h2 : j = ni
  · exact Or.inr (Or.inl h2)
  refine Or.inr (Or.inr ⟨?_, ?_⟩)
  · by_cases h3 : j < s.blocks.length
    · exact h3
    · rcases P.newIdx j (Nat.le_of_not_lt h3) hj with e | e
      · exact absurd e h1
      · exact absurd e h2
  · intro hf; exact hjf ((P.free j).mpr ⟨hf, h1, h2⟩)

theorem liveOld (P : ThirdPost s T nl ni k v h opi idx ih l r d oh ok ov d' ph pp pl pr pl' pr')
    {j : Nat} (hj : j < s.blocks.length) (hjf : j ∉ s.free) : j < T.blocks.length ∧ j ∉ T.free :=
  ⟨Nat.lt_of_lt_of_le hj P.lenLe, fun hf => hjf ((P.free j).mp hf).1⟩

theorem nlLive (P : ThirdPost s T nl ni k v h opi idx ih l r d oh ok ov d' ph pp pl pr pl' pr') : nl ∉ T.free :=
  fun hf => ((P.free nl).mp hf).2.1 rfl
theorem niLive (P : ThirdPost s T nl ni k v h opi idx ih l r d oh ok ov d' ph pp pl pr pl' pr') : ni ∉ T.free :=
  fun hf => ((P.free ni).mp hf).2.2 rfl

/-- parent pointers in `T` -/
theorem parentOf_other (P : ThirdPost s T nl ni k v h opi idx ih l r d oh ok ov d' ph pp pl pr pl' pr')
    {j : Nat} (hj : j < s.blocks.length) (hjf : j ∉ s.free) (hne : j ≠ idx) :
    parentOf T j = parentOf s j := by
  obtain ⟨h1, h2⟩ := P.fresh hj hjf
  by_cases ho : j = opi
  · subst ho
    simp only [parentOf, P.bOpi, P.par, Node.parent]
  · simp only [parentOf, P.bOther j ho hne h2 h1 hj]

theorem cases5 (P : ThirdPost s T nl ni k v h opi idx ih l r d oh ok ov d' ph pp pl pr pl' pr')
    {j : Nat} (hj : j < T.blocks.length) :
    j = opi ∨ j = idx ∨ j = ni ∨ j = nl ∨ (j ≠ opi ∧ j ≠ idx ∧ j ≠ ni ∧ j ≠ nl ∧ j < s.blocks.length) := by
  by_cases h1 : j = opi
  · exact Or.inl h1
  by_cases h2 : j = idx
  · exact Or.inr (Or.inl h2)
  by_cases h3 : j = ni
  · exact Or.inr (Or.inr (Or.inl h3))
  by_cases h4 : j = nl
  · exact Or.inr (Or.inr (Or.inr (Or.inl h4)))
  refine Or.inr (Or.inr (Or.inr (Or.inr ⟨h1, h2, h3, h4, ?_⟩)))
  by_cases h5 : j < s.blocks.length
  · exact h5
  · rcases P.newIdx j (Nat.le_of_not_lt h5) hj with e | e
    · exact absurd e h4
    · exact absurd e h3

theorem ppRange (P : ThirdPost s T nl ni k v h opi idx ih l r d oh ok ov d' ph pp pl pr pl' pr')
    {g : Nat} (hg : pp = some g) : g < s.blocks.length :=
  P.inv.rangeP opi _ P.par g (by simp [Node.parent, hg])

theorem linv_parentRange (P : ThirdPost s T nl ni k v h opi idx ih l r d oh ok ov d' ph pp pl pr pl' pr') :
    ∀ j, j < T.blocks.length → parentInRange T j := by
  intro j hj
  rcases P.cases5 hj with e | e | e | e | ⟨h1, h2, h3, h4, h5⟩
  · subst e
    simp only [parentInRange, P.bOpi, Node.parent]
    cases hpp : pp with
    | none => trivial
    | some g => exact Nat.lt_of_lt_of_le (P.ppRange hpp) P.lenLe
  · subst e; simp only [parentInRange, P.bIdx, Node.parent]; exact P.niLt
  · subst e; simp only [parentInRange, P.bNi, Node.parent]; exact Nat.lt_of_lt_of_le P.opiLt P.lenLe
  · subst e; simp only [parentInRange, P.bNl, Node.parent]; exact P.niLt
  · have hs := P.inv.parentRange j h5
    simp only [parentInRange, P.bOther j h1 h2 h3 h4 h5] at hs ⊢
    split
    · rename_i b hb
      rw [hb] at hs
      simp only at hs
      split
      · rename_i p hp
        rw [hp] at hs
        exact Nat.lt_of_lt_of_le hs P.lenLe
      · trivial
    · trivial

theorem linv_root (P : ThirdPost s T nl ni k v h opi idx ih l r d oh ok ov d' ph pp pl pr pl' pr') : rootOk T := by
  have h0 : 0 < s.blocks.length := Nat.lt_of_le_of_lt (Nat.zero_le _) P.idxLt
  have hr := P.inv.root
  simp only [rootOk, List.getElem?_eq_getElem h0] at hr
  obtain ⟨hr1, hr2⟩ := hr
  have h0T : 0 ∉ T.free := (P.liveOld h0 hr1).2
  obtain ⟨hn1, hn2⟩ := P.fresh h0 hr1
  have h0i : (0 : Nat) ≠ idx := by
    intro e
    have hb := P.leaf
    rw [← e, List.getElem?_eq_getElem h0] at hb
    injection hb with hb
    rw [hb] at hr2
    simp [Node.parent] at hr2
  by_cases ho : 0 = opi
  · have hb := P.par
    rw [← ho, List.getElem?_eq_getElem h0] at hb
    injection hb with hb
    rw [hb] at hr2
    simp only [Node.parent] at hr2
    have hbT := P.bOpi
    rw [← ho] at hbT
    simp only [rootOk, hbT, Node.parent]
    exact ⟨h0T, hr2⟩
  · simp only [rootOk, P.bOther 0 ho h0i hn2 hn1 h0, List.getElem?_eq_getElem h0]
    exact ⟨h0T, hr2⟩

theorem linv_keys (P : ThirdPost s T nl ni k v h opi idx ih l r d oh ok ov d' ph pp pl pr pl' pr') :
    ∀ e ∈ T.k2i, okKey T e := by
  intro e he
  rw [P.k2i] at he
  rcases mem_mapInsert _ _ _ _ he with e1 | ⟨he2, hne1⟩
  · subst e1
    exact okKey_intro (P.liveOld P.idxLt P.idxLive).2 P.bIdx
  · rcases mem_mapInsert _ _ _ _ he2 with e1 | ⟨he3, hne2⟩
    · subst e1
      exact okKey_intro P.nlLive P.bNl
    · obtain ⟨hf, d0, hh0, p0, v0, hb⟩ := okKey_elim (P.inv.keys e he3)
      have hlt : e.2 < s.blocks.length := (List.getElem?_eq_some_iff.mp hb).1
      obtain ⟨f1, f2⟩ := P.fresh hlt hf
      have n1 : e.2 ≠ opi := by
        intro e'; rw [e', P.par] at hb; injection hb with hb; injection hb with _ hn; cases hn
      have n2 : e.2 ≠ idx := by
        intro e'; rw [e', P.leaf] at hb; injection hb with hb; injection hb with _ hn
        injection hn with _ _ e3 _; exact hne1 e3.symm
      refine okKey_intro (P.liveOld hlt hf).2 (d := d0) (hh := hh0) (p := p0) (v := v0) ?_
      rw [P.bOther e.2 n1 n2 f2 f1 hlt]; exact hb

theorem linv_hashes (P : ThirdPost s T nl ni k v h opi idx ih l r d oh ok ov d' ph pp pl pr pl' pr') :
    ∀ e ∈ T.h2i, okHash T e := by
  intro e he
  rw [P.h2i] at he
  rcases mem_mapInsert _ _ _ _ he with e1 | ⟨he2, hne1⟩
  · subst e1
    exact okHash_intro (P.liveOld P.idxLt P.idxLive).2 P.bIdx
  · rcases mem_mapInsert _ _ _ _ he2 with e1 | ⟨he3, hne2⟩
    · subst e1
      exact okHash_intro P.nlLive P.bNl
    · obtain ⟨hf, d0, p0, k0, v0, hb⟩ := okHash_elim (P.inv.hashes e he3)
      have hlt : e.2 < s.blocks.length := (List.getElem?_eq_some_iff.mp hb).1
      obtain ⟨f1, f2⟩ := P.fresh hlt hf
      have n1 : e.2 ≠ opi := by
        intro e'; rw [e', P.par] at hb; injection hb with hb; injection hb with _ hn; cases hn
      have n2 : e.2 ≠ idx := by
        intro e'; rw [e', P.leaf] at hb; injection hb with hb; injection hb with _ hn
        injection hn with e3 _ _ _; exact hne1 e3.symm
      refine okHash_intro (P.liveOld hlt hf).2 (d := d0) (p := p0) (k := k0) (v := v0) ?_
      rw [P.bOther e.2 n1 n2 f2 f1 hlt]; exact hb

theorem keyNe (P : ThirdPost s T nl ni k v h opi idx ih l r d oh ok ov d' ph pp pl pr pl' pr') : k ≠ ok := by
  intro e
  have := (P.inv.leaf_cached P.idxLive P.leaf).1
  rw [← e, P.hk] at this; cases this

theorem hashNe (P : ThirdPost s T nl ni k v h opi idx ih l r d oh ok ov d' ph pp pl pr pl' pr') : h ≠ oh := by
  intro e
  have := (P.inv.leaf_cached P.idxLive P.leaf).2
  rw [← e, P.hh] at this; cases this

theorem getK (P : ThirdPost s T nl ni k v h opi idx ih l r d oh ok ov d' ph pp pl pr pl' pr') (x : KeyId) :
    mapGet T.k2i x = if x = ok then some idx else if x = k then some nl else mapGet s.k2i x := by
  rw [P.k2i]
  by_cases h1 : x = ok
  · rw [if_pos h1, h1, mapGet_insert_self]
  · rw [if_neg h1, mapGet_insert_ne _ _ _ _ h1]
    by_cases h2 : x = k
    · rw [if_pos h2, h2, mapGet_insert_self]
    · rw [if_neg h2, mapGet_insert_ne _ _ _ _ h2]

theorem getH (P : ThirdPost s T nl ni k v h opi idx ih l r d oh ok ov d' ph pp pl pr pl' pr') (x : Hash) :
    mapGet T.h2i x = if x = oh then some idx else if x = h then some nl else mapGet s.h2i x := by
  rw [P.h2i]
  by_cases h1 : x = oh
  · rw [if_pos h1, h1, mapGet_insert_self]
  · rw [if_neg h1, mapGet_insert_ne _ _ _ _ h1]
    by_cases h2 : x = h
    · rw [if_pos h2, h2, mapGet_insert_self]
    · rw [if_neg h2, mapGet_insert_ne _ _ _ _ h2]

theorem nlNeIdx (P : ThirdPost s T nl ni k v h opi idx ih l r d oh ok ov d' ph pp pl pr pl' pr') : nl ≠ idx :=
  fun e => (P.fresh P.idxLt P.idxLive).1 e.symm

theorem pOfNl (P : ThirdPost s T nl ni k v h opi idx ih l r d oh ok ov d' ph pp pl pr pl' pr') :
    parentOf T nl = some ni := by simp only [parentOf, P.bNl, Node.parent]
theorem pOfIdx (P : ThirdPost s T nl ni k v h opi idx ih l r d oh ok ov d' ph pp pl pr pl' pr') :
    parentOf T idx = some ni := by simp only [parentOf, P.bIdx, Node.parent]
theorem pOfNi (P : ThirdPost s T nl ni k v h opi idx ih l r d oh ok ov d' ph pp pl pr pl' pr') :
    parentOf T ni = some opi := by simp only [parentOf, P.bNi, Node.parent]

theorem node_nl (P : ThirdPost s T nl ni k v h opi idx ih l r d oh ok ov d' ph pp pl pr pl' pr') :
    okChildren T nl ∧ okParent T nl ∧ okLeaf T nl := by
  refine ⟨by simp only [okChildren, P.bNl], ?_, ?_⟩
  · simp only [okParent, P.bNl, Node.parent, P.bNi]
    refine ⟨P.niLive, ?_⟩
    rcases P.kids with ⟨e, _⟩ | ⟨_, e⟩
    · exact Or.inl e.symm
    · exact Or.inr e.symm
  · simp only [okLeaf, P.bNl]
    refine ⟨?_, ?_⟩
    · rw [P.getK, if_neg P.keyNe, if_pos rfl]
    · rw [P.getH, if_neg P.hashNe, if_pos rfl]

theorem node_idx (P : ThirdPost s T nl ni k v h opi idx ih l r d oh ok ov d' ph pp pl pr pl' pr') :
    okChildren T idx ∧ okParent T idx ∧ okLeaf T idx := by
  refine ⟨by simp only [okChildren, P.bIdx], ?_, ?_⟩
  · simp only [okParent, P.bIdx, Node.parent, P.bNi]
    refine ⟨P.niLive, ?_⟩
    rcases P.kids with ⟨_, e⟩ | ⟨e, _⟩
    · exact Or.inr e.symm
    · exact Or.inl e.symm
  · simp only [okLeaf, P.bIdx]
    exact ⟨by rw [P.getK, if_pos rfl], by rw [P.getH, if_pos rfl]⟩

theorem node_ni (P : ThirdPost s T nl ni k v h opi idx ih l r d oh ok ov d' ph pp pl pr pl' pr') :
    okChildren T ni ∧ okParent T ni ∧ okLeaf T ni := by
  obtain ⟨hof, _⟩ := P.opiFacts
  have idxT := P.liveOld P.idxLt P.idxLive
  refine ⟨?_, ?_, by simp only [okLeaf, P.bNi]⟩
  · simp only [okChildren, P.bNi]
    rcases P.kids with ⟨e1, e2⟩ | ⟨e1, e2⟩
    · rw [e1, e2]
      exact ⟨P.nlLt, idxT.1, P.nlLive, idxT.2, P.nlNeIdx, P.pOfNl, P.pOfIdx⟩
    · rw [e1, e2]
      exact ⟨idxT.1, P.nlLt, idxT.2, P.nlLive, fun e => P.nlNeIdx e.symm, P.pOfIdx, P.pOfNl⟩
  · simp only [okParent, P.bNi, Node.parent, P.bOpi]
    refine ⟨(P.liveOld P.opiLt hof).2, ?_⟩
    rcases P.pkids with ⟨_, e, _⟩ | ⟨_, _, _, e⟩
    · exact Or.inl e.symm
    · exact Or.inr e.symm

theorem node_opi (P : ThirdPost s T nl ni k v h opi idx ih l r d oh ok ov d' ph pp pl pr pl' pr') :
    okChildren T opi ∧ okParent T opi ∧ okLeaf T opi := by
  obtain ⟨hof, _⟩ := P.opiFacts
  obtain ⟨hpl, hpr, hplf, hprf, hne, hppl, hppr⟩ := P.inv.children' hof P.par
  refine ⟨?_, ?_, by simp only [okLeaf, P.bOpi]⟩
  · simp only [okChildren, P.bOpi]
    rcases P.pkids with ⟨e0, e1, e2⟩ | ⟨e0, e0', e1, e2⟩
    · rw [e1, e2]
      have hprT := P.liveOld hpr hprf
      have : pr ≠ idx := fun e => hne (e0.symm ▸ e.symm)
      refine ⟨P.niLt, hprT.1, P.niLive, hprT.2, fun e => (P.fresh hpr hprf).2 e.symm, P.pOfNi, ?_⟩
      rw [P.parentOf_other hpr hprf this]; exact hppr
    · rw [e1, e2]
      have hplT := P.liveOld hpl hplf
      have : pl ≠ idx := fun e => e0' e.symm
      refine ⟨hplT.1, P.niLt, hplT.2, P.niLive, (P.fresh hpl hplf).2, ?_, P.pOfNi⟩
      rw [P.parentOf_other hpl hplf this]; exact hppl
  · simp only [okParent, P.bOpi, Node.parent]
    cases hpp : pp with
    | none => simp [Node.isLeaf]
    | some g =>
      simp only
      obtain ⟨hgf, dg, gh, gp, gl, gr, hgb, hgc⟩ := P.inv.parent_of (p := g) hof P.par (by simp [Node.parent, hpp])
      have hgl : g < s.blocks.length := (List.getElem?_eq_some_iff.mp hgb).1
      refine ⟨(P.liveOld hgl hgf).2, ?_⟩
      by_cases hgo : g = opi
      · subst hgo
        rw [P.par] at hgb
        injection hgb with hgb; injection hgb with _ hn; injection hn with _ _ e3 e4
        subst e3; subst e4
        rw [P.bOpi]
        simp only
        rcases P.pkids with ⟨e0, e1, e2⟩ | ⟨e0, e0', e1, e2⟩
        · rcases hgc with c | c
          · exact absurd (c.trans e0.symm) P.opiNe
          · exact Or.inr (c.trans e2.symm)
        · rcases hgc with c | c
          · exact Or.inl (c.trans e1.symm)
          · exact absurd (c.trans e0.symm) P.opiNe
      · have n2 : g ≠ idx := by
          intro e'; rw [e', P.leaf] at hgb; injection hgb with hgb; injection hgb with _ hn; cases hn
        obtain ⟨f1, f2⟩ := P.fresh hgl hgf
        rw [P.bOther g hgo n2 f2 f1 hgl, hgb]
        exact hgc

theorem node_other (P : ThirdPost s T nl ni k v h opi idx ih l r d oh ok ov d' ph pp pl pr pl' pr')
    {j : Nat} (h1 : j ≠ opi) (h2 : j ≠ idx) (h3 : j ≠ ni) (h4 : j ≠ nl) (h5 : j < s.blocks.length)
    (hjf : j ∉ s.free) : okChildren T j ∧ okParent T j ∧ okLeaf T j := by
  have hb := P.bOther j h1 h2 h3 h4 h5
  obtain ⟨b, hsb⟩ : ∃ b, s.blocks[j]? = some b := ⟨s.blocks[j], List.getElem?_eq_getElem h5⟩
  obtain ⟨hof, _⟩ := P.opiFacts
  refine ⟨?_, ?_, ?_⟩
  · -- children
    obtain ⟨db, nb⟩ := b
    cases nb with
    | leaf hh p kk vv => simp only [okChildren, hb, hsb]
    | internal hh p l' r' =>
      obtain ⟨a1, a2, a3, a4, a5, a6, a7⟩ := P.inv.children' hjf hsb
      simp only [okChildren, hb, hsb]
      have nl' : l' ≠ idx := by
        intro e; rw [e] at a6
        simp only [parentOf, P.leaf, Node.parent, Option.some.injEq] at a6
        exact h1 a6.symm
      have nr' : r' ≠ idx := by
        intro e; rw [e] at a7
        simp only [parentOf, P.leaf, Node.parent, Option.some.injEq] at a7
        exact h1 a7.symm
      refine ⟨(P.liveOld a1 a3).1, (P.liveOld a2 a4).1, (P.liveOld a1 a3).2, (P.liveOld a2 a4).2, a5, ?_, ?_⟩
      · rw [P.parentOf_other a1 a3 nl']; exact a6
      · rw [P.parentOf_other a2 a4 nr']; exact a7
  · -- parent
    simp only [okParent, hb, hsb]
    cases hp : b.node.parent with
    | none =>
      simp only
      intro hl
      have := (P.inv.node j h5 hjf).2.1
      simp only [okParent, hsb, hp] at this
      exact absurd (this hl) P.len1
    | some p =>
      simp only
      obtain ⟨hpf, dp, hp', pp', gl, gr, hpb, hpc⟩ := P.inv.parent_of hjf hsb hp
      have hpl : p < s.blocks.length := (List.getElem?_eq_some_iff.mp hpb).1
      refine ⟨(P.liveOld hpl hpf).2, ?_⟩
      by_cases hpo : p = opi
      · subst hpo
        rw [P.par] at hpb
        injection hpb with hpb; injection hpb with _ hn; injection hn with _ _ e3 e4
        subst e3; subst e4
        rw [P.bOpi]
        simp only
        rcases P.pkids with ⟨e0, e1, e2⟩ | ⟨e0, e0', e1, e2⟩
        · rcases hpc with c | c
          · exact absurd (c.trans e0.symm) h2
          · exact Or.inr (c.trans e2.symm)
        · rcases hpc with c | c
          · exact Or.inl (c.trans e1.symm)
          · exact absurd (c.trans e0.symm) h2
      · have n2 : p ≠ idx := by
          intro e'; rw [e', P.leaf] at hpb; injection hpb with hpb; injection hpb with _ hn; cases hn
        obtain ⟨f1, f2⟩ := P.fresh hpl hpf
        rw [P.bOther p hpo n2 f2 f1 hpl, hpb]
        exact hpc
  · -- caches
    obtain ⟨db, nb⟩ := b
    cases nb with
    | internal hh p l' r' => simp only [okLeaf, hb, hsb]
    | leaf hh p kk vv =>
      obtain ⟨c1, c2⟩ := P.inv.leaf_cached hjf hsb
      simp only [okLeaf, hb, hsb]
      have ck := (P.inv.leaf_cached P.idxLive P.leaf)
      refine ⟨?_, ?_⟩
      · rw [P.getK]
        have n1 : kk ≠ ok := by
          intro e; rw [e, ck.1] at c1; injection c1 with c1; exact h2 c1.symm
        have n2 : kk ≠ k := by
          intro e; rw [e, P.hk] at c1; cases c1
        rw [if_neg n1, if_neg n2]; exact c1
      · rw [P.getH]
        have n1 : hh ≠ oh := by
          intro e; rw [e, ck.2] at c2; injection c2 with c2; exact h2 c2.symm
        have n2 : hh ≠ h := by
          intro e; rw [e, P.hh] at c2; cases c2
        rw [if_neg n1, if_neg n2]; exact c2

/-- **the local invariant holds after the structural writes of `insert_third_or_later`** -/
theorem linv (P : ThirdPost s T nl ni k v h opi idx ih l r d oh ok ov d' ph pp pl pr pl' pr') : LInv T where
  freeLt := fun j hj => Nat.lt_of_lt_of_le (P.inv.freeLt j ((P.free j).mp hj).1) P.lenLe
  freeNodup := P.freeNodup
  parentRange := P.linv_parentRange
  root := P.linv_root
  node := by
    intro j hj hjf
    rcases P.cases5 hj with e | e | e | e | ⟨h1, h2, h3, h4, h5⟩
    · subst e; exact P.node_opi
    · subst e; exact P.node_idx
    · subst e; exact P.node_ni
    · subst e; exact P.node_nl
    · rcases P.liveT hj hjf with e | e | ⟨_, hf⟩
      · exact absurd e h4
      · exact absurd e h3
      · exact P.node_other h1 h2 h3 h4 h5 hf
  keys := P.linv_keys
  hashes := P.linv_hashes
  keysNodup := by
    rw [P.k2i]
    exact mapInsert_keys_nodup _ _ _ (mapInsert_keys_nodup _ _ _ P.inv.keysNodup)

end ThirdPost

/-! ### the invariant does not look at dirty flags -/

/-- `T` has the same shape as `s`: same caches, free list, length, and the same node at every index -/
structure SameNodes (s T : Blob) : Prop where
  free : T.free = s.free
  k2i : T.k2i = s.k2i
  h2i : T.h2i = s.h2i
  len : T.blocks.length = s.blocks.length
  node : ∀ j : Nat, (T.blocks[j]?).map Block.node = (s.blocks[j]?).map Block.node

theorem SameNodes.get {s T : Blob} (h : SameNodes s T) (j : Nat) :
    (s.blocks[j]? = none ∧ T.blocks[j]? = none) ∨
    (∃ d1 d2 n, s.blocks[j]? = some { dirty := d1, node := n } ∧ T.blocks[j]? = some { dirty := d2, node := n }) := by
  have := h.node j
  cases hs : s.blocks[j]? with
  | none =>
    cases hT : T.blocks[j]? with
    | none => exact Or.inl ⟨rfl, rfl⟩
    | some b => rw [hs, hT] at this; simp at this
  | some b =>
    cases hT : T.blocks[j]? with
    | none => rw [hs, hT] at this; simp at this
    | some b' =>
      rw [hs, hT] at this
      simp only [Option.map_some, Option.some.injEq] at this
      obtain ⟨d1, n1⟩ := b
      obtain ⟨d2, n2⟩ := b'
      simp only at this
      subst this
      exact Or.inr ⟨d1, d2, n2, rfl, rfl⟩

theorem SameNodes.parentOf {s T : Blob} (h : SameNodes s T) (j : Nat) : parentOf T j = parentOf s j := by
  rcases h.get j with ⟨a, b⟩ | ⟨d1, d2, n, a, b⟩
  · simp only [Blob.parentOf, a, b]
  · simp only [Blob.parentOf, a, b]

theorem SameNodes.linv {s T : Blob} (h : SameNodes s T) (hinv : LInv s) : LInv T where
  freeLt := by rw [h.free, h.len]; exact hinv.freeLt
  freeNodup := by rw [h.free]; exact hinv.freeNodup
  parentRange := by
    intro j hj
    have := hinv.parentRange j (by rw [← h.len]; exact hj)
    rcases h.get j with ⟨a, b⟩ | ⟨d1, d2, n, a, b⟩
    · simp only [parentInRange, b]
    · simp only [parentInRange, a, b, h.len] at this ⊢; exact this
  root := by
    have := hinv.root
    rcases h.get 0 with ⟨a, b⟩ | ⟨d1, d2, n, a, b⟩
    · simp only [rootOk, b]
    · simp only [rootOk, a, b, h.free] at this ⊢; exact this
  node := by
    intro j hj hjf
    rw [h.len] at hj
    rw [h.free] at hjf
    obtain ⟨c1, c2, c3⟩ := hinv.node j hj hjf
    rcases h.get j with ⟨a, b⟩ | ⟨d1, d2, n, a, b⟩
    · simp only [okChildren, okParent, okLeaf, b]; exact ⟨trivial, trivial, trivial⟩
    · cases n with
      | leaf hh p kk vv =>
        refine ⟨by simp only [okChildren, b], ?_, ?_⟩
        · simp only [okParent, a, b, Node.parent, Node.isLeaf, h.free, h.k2i] at c2 ⊢
          cases p with
          | none => exact c2
          | some q =>
            simp only at c2 ⊢
            refine ⟨c2.1, ?_⟩
            have c22 := c2.2
            rcases h.get q with ⟨a', b'⟩ | ⟨e1, e2, n', a', b'⟩
            · rw [a'] at c22; exact absurd c22 id
            · rw [a'] at c22; rw [b']; cases n' <;> exact c22
        · simp only [okLeaf, a, b, h.k2i, h.h2i] at c3 ⊢; exact c3
      | internal hh p l r =>
        refine ⟨?_, ?_, by simp only [okLeaf, b]⟩
        · simp only [okChildren, a, b, h.len, h.free, h.parentOf] at c1 ⊢; exact c1
        · simp only [okParent, a, b, Node.parent, Node.isLeaf, h.free] at c2 ⊢
          cases p with
          | none => simp
          | some q =>
            simp only at c2 ⊢
            refine ⟨c2.1, ?_⟩
            have c22 := c2.2
            rcases h.get q with ⟨a', b'⟩ | ⟨e1, e2, n', a', b'⟩
            · rw [a'] at c22; exact absurd c22 id
            · rw [a'] at c22; rw [b']; cases n' <;> exact c22
  keys := by
    intro e he
    rw [h.k2i] at he
    have := hinv.keys e he
    simp only [okKey, h.free] at this ⊢
    refine ⟨this.1, ?_⟩
    have t2 := this.2
    rcases h.get e.2 with ⟨a, b⟩ | ⟨d1, d2, n, a, b⟩
    · rw [a] at t2; exact absurd t2 id
    · rw [a] at t2; rw [b]; cases n <;> exact t2
  hashes := by
    intro e he
    rw [h.h2i] at he
    have := hinv.hashes e he
    simp only [okHash, h.free] at this ⊢
    refine ⟨this.1, ?_⟩
    have t2 := this.2
    rcases h.get e.2 with ⟨a, b⟩ | ⟨d1, d2, n, a, b⟩
    · rw [a] at t2; exact absurd t2 id
    · rw [a] at t2; rw [b]; cases n <;> exact t2
  keysNodup := by rw [h.k2i]; exact hinv.keysNodup

theorem sameNodes_setDirty (s : Blob) (i : Nat) (d : Bool) (h : Hash) (p : Option Nat) (l r : Nat)
    (hi : i ∉ s.free) (hb : s.blocks[i]? = some { dirty := d, node := .internal h p l r }) (d2 : Bool) :
    SameNodes s (s.write i { dirty := d2, node := .internal h p l r }) := by
  have hil : i < s.blocks.length := (List.getElem?_eq_some_iff.mp hb).1
  refine ⟨?_, rfl, rfl, write_len s i _ hil, ?_⟩
  · rw [write_free, List.erase_of_not_mem hi]
  · intro j
    rw [write_get s i _ hil]
    by_cases hj : j = i
    · rw [if_pos hj, hj, hb]; rfl
    · rw [if_neg hj]

/-- `mark_lineage_as_dirty` keeps the local invariant (whatever it returns) -/
theorem markDirtyAux_linv (f : Nat) (i : Nat) (s : Blob) (hinv : LInv s) (hi : i ∉ s.free)
    (hb : ∃ d h p l r, s.blocks[i]? = some { dirty := d, node := .internal h p l r }) :
    LInv (markDirtyAux f i s).2 := by
  induction f generalizing i s with
  | zero => exact hinv
  | succ f ih =>
    obtain ⟨d, h, p, l, r, hb⟩ := hb
    have hil : i < s.blocks.length := (List.getElem?_eq_some_iff.mp hb).1
    unfold markDirtyAux
    simp only [bind_run, getBlock_run, hb]
    cases d with
    | true => simp only [if_true]; exact hinv
    | false =>
      simp only [Bool.false_eq_true, if_false, writeBlock_run, if_neg (Nat.not_lt.mpr (Nat.le_of_lt hil)), Node.parent]
      have hsn := sameNodes_setDirty s i false h p l r hi hb true
      have hT := hsn.linv hinv
      cases p with
      | none =>
        have hw : writeBlock i { dirty := true, node := .internal h none l r } s
            = (.ok (), s.write i { dirty := true, node := .internal h none l r }) := by
          rw [writeBlock_run, if_neg (Nat.not_lt.mpr (Nat.le_of_lt hil))]
        simp only [bind_run, hw, pure_run]
        exact hT
      | some q =>
        have hw : writeBlock i { dirty := true, node := .internal h (some q) l r } s
            = (.ok (), s.write i { dirty := true, node := .internal h (some q) l r }) := by
          rw [writeBlock_run, if_neg (Nat.not_lt.mpr (Nat.le_of_lt hil))]
        simp only [bind_run, hw]
        obtain ⟨hqf, dq, qh, qp, ql, qr, hqb, _⟩ := hinv.parent_of hi hb rfl
        apply ih q _ hT
        · rw [hsn.free]; exact hqf
        · rcases hsn.get q with ⟨a, _⟩ | ⟨d1, d2, n, a, b⟩
          · rw [a] at hqb; cases hqb
          · rw [a] at hqb; injection hqb with hqb; injection hqb with _ hn; subst hn
            exact ⟨_, _, _, _, _, b⟩

theorem markLineageDirty_linv (i : Nat) (s : Blob) (hinv : LInv s) (hi : i ∉ s.free)
    (hb : ∃ d h p l r, s.blocks[i]? = some { dirty := d, node := .internal h p l r }) :
    LInv (markLineageDirty i s).2 := by
  unfold markLineageDirty
  simp only [bind_run, M.get]
  exact markDirtyAux_linv _ i s hinv hi hb

theorem bind_pure_snd {α β : Type} (x : M α) (a : β) (s : Blob) :
    ((do let _ ← x; pure a : M β) s).2 = (x s).2 := by
  show ((x >>= fun _ => pure a) s).2 = _
  rw [bind_run]
  cases x s with
  | mk r s' => cases r <;> rfl

/-- `insert_third_or_later` = four structural writes giving a state `T` described by `ThirdPost`,
followed by the dirty-marking walk from the old parent -/
theorem insertThird_post (s : Blob) (hinv : LInv s) (k : KeyId) (v : ValueId) (h : Hash) (opi idx : Nat)
    (ih : Hash) (side : Side) (hk : mapGet s.k2i k = none) (hh : mapGet s.h2i h = none)
    (hlen1 : s.k2i.length ≠ 1) {d : Bool} {oh : Hash} {ok : KeyId} {ov : ValueId} (hif : idx ∉ s.free)
    (hleaf : s.blocks[idx]? = some { dirty := d, node := .leaf oh (some opi) ok ov }) :
    ∃ T nl ni l r d' ph pp pl pr pl' pr',
      insertThird k v h (some opi) idx ih side s = (do markLineageDirty opi; pure nl) T
      ∧ ThirdPost s T nl ni k v h opi idx ih l r d oh ok ov d' ph pp pl pr pl' pr'
      ∧ (l, r) = childPair side nl idx := by
  obtain ⟨hnf, d', ph, pp, pl, pr, hpar, hch⟩ := hinv.parent_of hif hleaf rfl
  have hidx : idx < s.blocks.length := (List.getElem?_eq_some_iff.mp hleaf).1
  have hopi : opi < s.blocks.length := (List.getElem?_eq_some_iff.mp hpar).1
  have hrun := insertThird_run s k v h opi idx ih side hinv.freeLt hinv.freeNodup hleaf hpar hch hif hnf
  have P2 := popTwo_spec s hinv.freeLt hinv.freeNodup
  obtain ⟨tl, tb, tf, tk, th⟩ := thirdState_post s k v h opi idx ih side d oh ok ov d' ph pp pl pr
    hinv.freeLt hinv.freeNodup hidx hopi hif hnf
  generalize hT : thirdState s k v h opi idx ih side d oh ok ov d' ph pp pl pr = T at *
  generalize hnl : (popTwo s).1 = nl at *
  generalize hni : (popTwo s).2.1 = ni at *
  generalize hs2 : (popTwo s).2.2 = s2 at *
  have hne_opi_idx : opi ≠ idx := by
    intro e; rw [e, hleaf] at hpar; injection hpar with hpar; injection hpar with _ hn; cases hn
  have fresh : ∀ y, y < s.blocks.length → y ∉ s.free → y ≠ nl ∧ y ≠ ni := by
    intro y hy hyf
    constructor
    · intro e; subst e
      rcases P2.nlNew with hx | hx
      · exact hyf hx
      · omega
    · intro e; subst e
      rcases P2.niNew with hx | hx
      · exact hyf hx
      · omega
  have f_idx := fresh idx hidx hif
  have f_opi := fresh opi hopi hnf
  -- the post-condition bundle, for the right choice of the child pairs
  have key : ∀ (l r pl' pr' : Nat), (l, r) = childPair side nl idx →
      ((idx = pl ∧ pl' = ni ∧ pr' = pr) ∨ (idx = pr ∧ idx ≠ pl ∧ pl' = pl ∧ pr' = ni)) →
      ThirdPost s T nl ni k v h opi idx ih l r d oh ok ov d' ph pp pl pr pl' pr' := by
    intro l r pl' pr' hlr hp
    have e1 : (childPair side nl idx).1 = l := by rw [← hlr]
    have e2 : (childPair side nl idx).2 = r := by rw [← hlr]
    refine {
      inv := hinv, hk := hk, hh := hh, len1 := hlen1, idxLt := hidx, idxLive := hif, leaf := hleaf,
      par := hpar, kids := ?_, pkids := hp, ne := P2.ne, nlNew := P2.nlNew, niNew := P2.niNew,
      lenLe := by rw [tl]; exact P2.len, nlLt := by rw [tl]; exact P2.nlLt, niLt := by rw [tl]; exact P2.niLt,
      newIdx := by rw [tl]; exact P2.newIdx, bOpi := ?_, bIdx := ?_, bNi := ?_, bNl := ?_, bOther := ?_,
      free := by rw [tf]; exact P2.free, freeNodup := by rw [tf]; exact P2.freeNodup, k2i := tk, h2i := th }
    · cases side with
      | left => simp only [childPair, Prod.mk.injEq] at hlr; exact Or.inl hlr
      | right => simp only [childPair, Prod.mk.injEq] at hlr; exact Or.inr hlr
    · rw [tb opi, if_pos rfl]
      rcases hp with ⟨a, b, c⟩ | ⟨a, a', b, c⟩
      · rw [if_pos a, b, c]
      · rw [if_neg a', b, c]
    · rw [tb idx, if_neg (fun e => hne_opi_idx e.symm), if_pos rfl]
    · rw [tb ni, if_neg (fun e => f_opi.2 e.symm), if_neg (fun e => f_idx.2 e.symm), if_pos rfl, e1, e2]
    · rw [tb nl, if_neg (fun e => f_opi.1 e.symm), if_neg (fun e => f_idx.1 e.symm), if_neg P2.ne, if_pos rfl]
    · intro j h1 h2 h3 h4 h5
      rw [tb j, if_neg h1, if_neg h2, if_neg h3, if_neg h4, P2.same j h5]
  have hpost : ∃ l r pl' pr', ThirdPost s T nl ni k v h opi idx ih l r d oh ok ov d' ph pp pl pr pl' pr'
      ∧ (l, r) = childPair side nl idx := by
    by_cases hc : idx = pl
    · exact ⟨_, _, ni, pr, key _ _ ni pr rfl (Or.inl ⟨hc, rfl, rfl⟩), rfl⟩
    · exact ⟨_, _, pl, ni, key _ _ pl ni rfl (Or.inr ⟨hch.resolve_left hc, hc, rfl, rfl⟩), rfl⟩
  obtain ⟨l, r, pl', pr', P, hlr⟩ := hpost
  exact ⟨T, nl, ni, l, r, d', ph, pp, pl, pr, pl', pr', hrun, P, hlr⟩

/-- **`insert_third_or_later` keeps the local invariant** -/
theorem insertThird_linv (s : Blob) (hinv : LInv s) (k : KeyId) (v : ValueId) (h : Hash) (opi idx : Nat)
    (ih : Hash) (side : Side) (hk : mapGet s.k2i k = none) (hh : mapGet s.h2i h = none)
    (hlen1 : s.k2i.length ≠ 1) {d : Bool} {oh : Hash} {ok : KeyId} {ov : ValueId} (hif : idx ∉ s.free)
    (hleaf : s.blocks[idx]? = some { dirty := d, node := .leaf oh (some opi) ok ov }) :
    LInv (insertThird k v h (some opi) idx ih side s).2 := by
  obtain ⟨T, nl, ni, l, r, d', ph, pp, pl, pr, pl', pr', hrun, P, _⟩ :=
    insertThird_post s hinv k v h opi idx ih side hk hh hlen1 hif hleaf
  rw [hrun, bind_pure_snd]
  exact markLineageDirty_linv opi T P.linv (P.liveOld P.opiLt P.opiFacts.1).2 ⟨_, _, _, _, _, P.bOpi⟩

/-! ### `insert_second` and `insert_first` -/

/-- the blob after `insert_second` -/
def secondState (k : KeyId) (v : ValueId) (h oh : Hash) (ok : KeyId) (ov : ValueId) (ih : Hash) (side : Side) : Blob :=
  match side with
  | .left =>
    { blocks := [{ dirty := false, node := .internal ih none 1 2 }, { dirty := false, node := .leaf h (some 0) k v },
        { dirty := false, node := .leaf oh (some 0) ok ov }],
      free := [], k2i := mapInsert (mapInsert [] ok 2) k 1, h2i := mapInsert (mapInsert [] oh 2) h 1 }
  | .right =>
    { blocks := [{ dirty := false, node := .internal ih none 1 2 }, { dirty := false, node := .leaf oh (some 0) ok ov },
        { dirty := false, node := .leaf h (some 0) k v }],
      free := [], k2i := mapInsert (mapInsert [] ok 1) k 2, h2i := mapInsert (mapInsert [] oh 1) h 2 }

theorem insertSecond_run (k : KeyId) (v : ValueId) (h oh : Hash) (ok : KeyId) (ov : ValueId) (ih : Hash)
    (side : Side) (s : Blob) :
    (insertSecond k v h oh ok ov ih side s).2 = secondState k v h oh ok ov ih side := by
  cases side <;> rfl

theorem secondState_linv (k : KeyId) (v : ValueId) (h oh : Hash) (ok : KeyId) (ov : ValueId) (ih : Hash)
    (side : Side) (hk : k ≠ ok) (hh : h ≠ oh) : LInv (secondState k v h oh ok ov ih side) := by
  have hk' : ok ≠ k := fun e => hk e.symm
  have hh' : oh ≠ h := fun e => hh e.symm
  cases side
  all_goals
    refine ⟨(by intro i hi; cases hi), List.nodup_nil, ?_, ?_, ?_, ?_, ?_,
      mapInsert_keys_nodup _ _ _ (mapInsert_keys_nodup _ _ _ List.nodup_nil)⟩
    · intro i hi
      match i, hi with
      | 0, _ => simp [parentInRange, secondState, Node.parent]
      | 1, _ => simp [parentInRange, secondState, Node.parent]
      | 2, _ => simp [parentInRange, secondState, Node.parent]
    · simp [rootOk, secondState, Node.parent]
    · intro i hi _
      match i, hi with
      | 0, _ => simp [okChildren, okParent, okLeaf, secondState, parentOf, Node.parent, Node.isLeaf]
      | 1, _ =>
        simp [okChildren, okParent, okLeaf, secondState, Node.parent, Node.isLeaf, mapGet_insert_self,
          mapGet_insert_ne _ _ _ _ hk', mapGet_insert_ne _ _ _ _ hh']
      | 2, _ =>
        simp [okChildren, okParent, okLeaf, secondState, Node.parent, Node.isLeaf, mapGet_insert_self,
          mapGet_insert_ne _ _ _ _ hk', mapGet_insert_ne _ _ _ _ hh']
    · intro e he
      rcases mem_mapInsert _ _ _ _ he with e1 | ⟨he2, _⟩
      · subst e1; simp [okKey, secondState]
      · rcases mem_mapInsert _ _ _ _ he2 with e1 | ⟨he3, _⟩
        · subst e1; simp [okKey, secondState]
        · cases he3
    · intro e he
      rcases mem_mapInsert _ _ _ _ he with e1 | ⟨he2, _⟩
      · subst e1; simp [okHash, secondState]
      · rcases mem_mapInsert _ _ _ _ he2 with e1 | ⟨he3, _⟩
        · subst e1; simp [okHash, secondState]
        · cases he3

/-- a locally well-formed blob without blocks is the empty blob -/
theorem LInv.empty_of_no_blocks {s : Blob} (hinv : LInv s) (hb : s.blocks = []) : s = Blob.empty := by
  have hf : s.free = [] := by
    cases hfr : s.free with
    | nil => rfl
    | cons a rest => have := hinv.freeLt a (by rw [hfr]; simp); rw [hb] at this; simp at this
  have hk : s.k2i = [] := by
    cases hkk : s.k2i with
    | nil => rfl
    | cons e rest =>
      obtain ⟨_, d, hh, p, v, hbb⟩ := okKey_elim (hinv.keys e (by rw [hkk]; simp))
      rw [hb] at hbb; simp at hbb
  have hh : s.h2i = [] := by
    cases hkk : s.h2i with
    | nil => rfl
    | cons e rest =>
      obtain ⟨_, d, p, k, v, hbb⟩ := okHash_elim (hinv.hashes e (by rw [hkk]; simp))
      rw [hb] at hbb; simp at hbb
  cases s
  simp only at hb hf hk hh
  subst hb; subst hf; subst hk; subst hh
  rfl

/-- the blob after `insert_first` on the empty blob -/
def firstState (k : KeyId) (v : ValueId) (h : Hash) : Blob :=
  { blocks := [{ dirty := false, node := .leaf h none k v }], free := [],
    k2i := mapInsert [] k 0, h2i := mapInsert [] h 0 }

theorem insertFirst_run (k : KeyId) (v : ValueId) (h : Hash) :
    (insertFirst k v h Blob.empty).2 = firstState k v h := rfl

theorem firstState_linv (k : KeyId) (v : ValueId) (h : Hash) : LInv (firstState k v h) := by
  refine ⟨(by intro i hi; cases hi), List.nodup_nil, ?_, ?_, ?_, ?_, ?_,
    mapInsert_keys_nodup _ _ _ List.nodup_nil⟩
  · intro i hi
    match i, hi with
    | 0, _ => simp [parentInRange, firstState, Node.parent]
  · simp [rootOk, firstState, Node.parent]
  · intro i hi _
    match i, hi with
    | 0, _ => simp [okChildren, okParent, okLeaf, firstState, Node.parent, Node.isLeaf, mapInsert, mapGet]
  · intro e he
    rcases mem_mapInsert _ _ _ _ he with e1 | ⟨he2, _⟩
    · subst e1; simp [okKey, firstState]
    · cases he2
  · intro e he
    rcases mem_mapInsert _ _ _ _ he with e1 | ⟨he2, _⟩
    · subst e1; simp [okHash, firstState]
    · cases he2

/-- **`insert` at a live leaf keeps the local invariant** -/
theorem insertAtLeaf_linv {s : Blob} (hinv : LInv s) (k : KeyId) (v : ValueId) (h : Hash)
    (idx : Nat) (side : Side) (hfree : idx ∉ s.free) (hk : mapGet s.k2i k = none) (hh : mapGet s.h2i h = none) :
    LInv (insertAtLeaf k v h idx side s).2 := by
  unfold insertAtLeaf
  simp only [bind_run, M.get, getNode, getBlock_run]
  cases hb : s.blocks[idx]? with
  | none => exact hinv
  | some b =>
    obtain ⟨d, n⟩ := b
    cases n with
    | internal hh' p l r => simp only [pure_run]; exact hinv
    | leaf oh op ok ov =>
      simp only [pure_run]
      obtain ⟨c1, c2⟩ := hinv.leaf_cached hfree hb
      by_cases hlen1 : s.k2i.length = 1
      · rw [if_pos hlen1, insertSecond_run]
        apply secondState_linv
        · intro e; rw [e, c1] at hk; cases hk
        · intro e; rw [e, c2] at hh; cases hh
      · rw [if_neg hlen1]
        obtain ⟨hnone, _⟩ := hinv.leaf_parent hfree hb
        cases op with
        | none => exact absurd (hnone rfl) hlen1
        | some opi => exact insertThird_linv s hinv k v h opi idx _ side hk hh hlen1 hfree hb

theorem isSome_false_iff {α : Type} (o : Option α) (h : ¬ o.isSome = true) : o = none := by
  cases o with
  | none => rfl
  | some a => exact absurd rfl h

/-- **`insert` keeps the local invariant** (automatic location, or an explicit live leaf), whatever
it returns -/
theorem insert_linv {s : Blob} (hinv : LInv s) (k : KeyId) (v : ValueId) (h : Hash) (loc : Loc)
    (hloc : loc = .auto ∨ ∃ idx side, loc = .leaf idx side ∧ idx ∉ s.free) :
    LInv (insert k v h loc s).2 := by
  unfold insert
  simp only [bind_run, M.get]
  by_cases hk : (mapGet s.k2i k).isSome = true
  · rw [if_pos hk]; exact hinv
  · rw [if_neg hk]
    by_cases hh : (mapGet s.h2i h).isSome = true
    · rw [if_pos hh]; exact hinv
    · rw [if_neg hh]
      have hk' := isSome_false_iff _ hk
      have hh' := isSome_false_iff _ hh
      rcases hloc with e | ⟨idx, side, e, hlive⟩
      · subst e
        simp only [bind_run, randomLoc_run]
        by_cases hemp : s.blocks.isEmpty = true
        · rw [if_pos hemp]
          have hb : s.blocks = [] := List.isEmpty_iff.mp hemp
          have hs := hinv.empty_of_no_blocks hb
          subst hs
          simp only
          exact firstState_linv k v h
        · rw [if_neg hemp]
          cases hw : walkAux s.blocks (s.blocks.length + 1) 0 (BitSrc.ofKey k) with
          | none => exact hinv
          | some idx =>
            simp only
            have hne : s.blocks ≠ [] := by intro e; rw [e] at hemp; exact hemp rfl
            have h0 : 0 < s.blocks.length := List.length_pos_iff.mpr hne
            have hroot := hinv.root
            simp only [rootOk, List.getElem?_eq_getElem h0] at hroot
            obtain ⟨hlive, _⟩ := walk_live hinv _ 0 _ idx h0 hroot.1 hw
            exact insertAtLeaf_linv hinv k v h idx _ hlive hk' hh'
      · subst e
        simp only [bind_run, pure_run]
        exact insertAtLeaf_linv hinv k v h idx side hlive hk' hh'

end ChiaModel.Blob
