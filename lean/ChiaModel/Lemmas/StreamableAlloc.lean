import ChiaModel.Lemmas.StreamableMain
/-!
Minimum consumption (`Consumes`) and the pre-allocation bound (`AllocOK`).
-/
namespace ChiaModel.Streamable
open ChiaModel

/-- an accepting run consumes at least `m` bytes -/
def Consumes (d : Dec) (m : Nat) : Prop := ∀ b v r, (d b).out = .ok (v, r) → r.length + m ≤ b.length

def ConsumesL (d : Bytes → Res (List V × Bytes)) (m : Nat) : Prop :=
  ∀ b vs r, (d b).out = .ok (vs, r) → r.length + m ≤ b.length

theorem Consumes.mono {d : Dec} {m m' : Nat} (h : Consumes d m) (hm : m' ≤ m) : Consumes d m' :=
  fun b v r hd => by have := h b v r hd; omega

theorem consumes_uint (n : Nat) : Consumes (decUint n) n := by
  intro b v r h
  obtain ⟨c, rfl, hl, _⟩ := decUint_ok.mp h
  simp [hl]; omega

theorem consumes_sint (n : Nat) : Consumes (decSint n) n := by
  intro b v r h
  obtain ⟨c, rfl, hl, _⟩ := decSint_ok.mp h
  simp [hl]; omega

theorem consumes_bool : Consumes decBool 1 := by
  intro b v r h
  rcases decBool_ok.mp h with ⟨rfl, _⟩ | ⟨rfl, _⟩ <;> simp

theorem consumes_unit : Consumes decUnit 0 := by
  intro b v r h
  simp only [decUnit, Res.pure_out] at h
  injection h with h; injection h with _ e2; subst e2; simp

theorem consumes_lenPrefixed (ok : Bytes → Bool) : Consumes (decLenPrefixed ok) 4 := by
  intro b v r h
  obtain ⟨l, c, rfl, hl, _⟩ := decLenPrefixed_ok.mp h
  simp [hl]; omega

theorem consumes_opaque (s : String) (n : Nat) (valid : Bytes → Bool) : Consumes (decOpaque s n valid) n := by
  intro b v r h
  obtain ⟨c, rfl, hl, _⟩ := decOpaque_ok.mp h
  simp [hl]; omega

theorem consumes_bytesN (n : Nat) : Consumes (decBytesN n) n := by
  rw [decBytesN_eq]; exact consumes_opaque _ _ _

theorem consumes_enum (vals : List Nat) : Consumes (decEnum vals) 1 := by
  intro b v r h
  obtain ⟨x, rfl, _⟩ := decEnum_ok.mp h
  simp

theorem consumes_program (O : Oracles) (hO : OracleContract O) (tr : Bool) : Consumes (decProgram O tr) 1 := by
  intro b v r h
  obtain ⟨n, hs, hle, _, rfl⟩ := decProgram_ok.mp h
  have := hO.serLen_pos tr b n hs
  simp [List.length_drop]; omega

theorem consumes_option {f : Dec} (h : Total f) : Consumes (decOption f) 1 := by
  intro b v r hd
  rcases decOption_ok.mp hd with ⟨rfl, _⟩ | ⟨b', x, rfl, hf, _⟩
  · simp
  · obtain ⟨p, rfl⟩ := h.pre b' x r hf
    simp

theorem consumes_repeat {f : Dec} {m : Nat} (h : Consumes f m) :
    ∀ n b vs r, (repeatN f n b).out = .ok (vs, r) → r.length + n * m ≤ b.length ∧ vs.length = n := by
  intro n
  induction n with
  | zero =>
    intro b vs r hd
    rw [repeatN_zero] at hd
    injection hd with hd; injection hd with e1 e2; subst e1; subst e2; simp
  | succ n ih =>
    intro b vs r hd
    obtain ⟨v, r1, l', h1, h2, rfl⟩ := repeatN_succ_ok.mp hd
    have a1 := h b v r1 h1
    obtain ⟨a2, a3⟩ := ih r1 l' r h2
    refine ⟨?_, by simp [a3]⟩
    rw [Nat.succ_mul]; omega

theorem consumes_vec (sz : Nat) {f : Dec} (h : Total f) : Consumes (decVec sz f) 4 := by
  intro b v r hd
  obtain ⟨l, rest, vs, rfl, hl, hrep, _⟩ := decVec_ok.mp hd
  obtain ⟨p, rfl⟩ := repeatN_pre h _ rest vs r hrep
  simp [hl]; omega

theorem consumes_array (n : Nat) {f : Dec} {m : Nat} (h : Consumes f m) : Consumes (decArray n f) (n * m) := by
  intro b v r hd
  obtain ⟨vs, hrep, _⟩ := decArray_ok.mp hd
  exact (consumes_repeat h n b vs r hrep).1

theorem consumes_optpair {f g : Dec} (h1 : Total f) (h2 : Total g) : Consumes (decOptPair f g) 1 := by
  intro b v r hd
  obtain ⟨p, rfl⟩ := (total_optpair h1 h2).pre b v r hd
  obtain ⟨k, b', hb, _⟩ := decOptPair_ok.mp hd
  cases p with
  | nil =>
    exfalso
    -- the decoder consumed the prefix byte, so `r` cannot be the whole input
    simp only [List.nil_append] at hb hd
    have := (total_optpair h1 h2).pre r v r hd
    rcases decOptPair_ok.mp hd with ⟨k', b'', hb', hk⟩
    have hlen : b''.length < r.length := by rw [hb']; simp
    rcases hk with ⟨_, e, _⟩ | ⟨_, x, hf, _⟩ | ⟨_, y, hg, _⟩ | ⟨_, x, r1, y, hf, hg, _⟩
    · rw [e] at hlen; omega
    · obtain ⟨q, hq⟩ := h1.pre b'' x r hf; rw [hq] at hlen; simp at hlen; omega
    · obtain ⟨q, hq⟩ := h2.pre b'' y r hg; rw [hq] at hlen; simp at hlen; omega
    · obtain ⟨q1, hq1⟩ := h1.pre b'' x r1 hf
      obtain ⟨q2, hq2⟩ := h2.pre r1 y r hg
      rw [hq1, hq2] at hlen; simp at hlen; omega
  | cons x xs => simp

theorem consumes_gentail (O : Oracles) (tr : Bool) : Consumes (decGenTail O tr) 1 := by
  intro b v r hd
  obtain ⟨k, b', rfl, hk⟩ := decGenTail_ok.mp hd
  rcases hk with ⟨_, g, r1, l, hg, hl, _⟩ | ⟨_, bf, hbf, _⟩
  · obtain ⟨p2, rfl⟩ := (total_vec 4 (total_uint 4)).pre r1 l r hl
    rcases decPresent_ok.mp hg with ⟨_, _, rfl⟩ | ⟨_, x, hx, _⟩
    · simp
    · obtain ⟨p1, rfl⟩ := (total_program O tr).pre b' x _ hx
      simp; omega
  · rcases decPresent_ok.mp hbf with ⟨_, _, rfl⟩ | ⟨_, x, hx, _⟩
    · simp
    · obtain ⟨p1, rfl⟩ := total_bytes.pre b' x _ hx
      simp

theorem consumes_pos (O : Oracles) (tr : Bool) : Consumes (decPos O tr) 87 := by
  intro b v r hd
  obtain ⟨ch, r1, pp, k, r3, ct, r4, pk, r5, hch, hpp, hct, hpk, ht⟩ := decPos_ok.mp hd
  have c1 := consumes_bytesN 32 b ch r1 hch
  have c2 := consumes_option (total_g1 O tr) r1 pp (k :: r3) hpp
  have c3 : r4.length ≤ r3.length := by
    rcases decPresent_ok.mp hct with ⟨_, _, rfl⟩ | ⟨_, x, hx, _⟩
    · exact Nat.le_refl _
    · have := consumes_bytesN 32 r3 x r4 hx; omega
  have c4 := consumes_opaque siteG1 48 _ r4 pk r5 hpk
  simp only [List.length_cons] at c2
  rcases ht with ⟨_, sz, r6, pf, hsz, hpf, _⟩ | ⟨_, pi, r6, mg, r7, st, r8, pf, hpi, hmg, hst, hpf, _, _⟩
  · have c5 := consumes_uint 1 r5 sz r6 hsz
    have c6 := consumes_lenPrefixed _ r6 pf r hpf
    omega
  · have c5 := consumes_uint 2 r5 pi r6 hpi
    have c6 := consumes_uint 1 r6 mg r7 hmg
    have c7 := consumes_uint 1 r7 st r8 hst
    have c8 := consumes_lenPrefixed _ r8 pf r hpf
    omega

theorem consumes_tup {d : Bytes → Res (List V × Bytes)} {m : Nat} (h : ConsumesL d m) : Consumes (decTup d) m := by
  intro b v r hd
  obtain ⟨vs, hd', _⟩ := decTup_ok.mp hd
  exact h b vs r hd'

mutual
theorem consumes_decode (O : Oracles) (hO : OracleContract O) (tr : Bool) :
    ∀ t : Ty, Consumes (decode O tr t) (minWire t)
  | .uint n => by simp only [decode, minWire]; exact consumes_uint n
  | .sint n => by simp only [decode, minWire]; exact consumes_sint n
  | .bool => by simp only [decode, minWire]; exact consumes_bool
  | .unit => by simp only [decode, minWire]; exact consumes_unit
  | .bytes => by simp only [decode, minWire]; exact consumes_lenPrefixed _
  | .bytesN n => by simp only [decode, minWire]; exact consumes_bytesN n
  | .str => by simp only [decode, minWire]; exact consumes_lenPrefixed _
  | .option t => by simp only [decode, minWire]; exact consumes_option (total_decode O tr t)
  | .vec t => by simp only [decode, minWire]; exact consumes_vec _ (total_decode O tr t)
  | .tuple ts => by simp only [decode, minWire]; exact consumes_tup (consumesL_decode O hO tr ts)
  | .array n t => by simp only [decode, minWire]; exact consumes_array n (consumes_decode O hO tr t)
  | .struct _ _ ts => by simp only [decode, minWire]; exact consumes_tup (consumesL_decode O hO tr ts)
  | .enum8 _ vals => by simp only [decode, minWire]; exact consumes_enum vals
  | .program => by simp only [decode, minWire]; exact consumes_program O hO tr
  | .g1 => by simp only [decode, minWire]; exact consumes_opaque _ _ _
  | .g2 => by simp only [decode, minWire]; exact consumes_opaque _ _ _
  | .gt => by simp only [decode, minWire]; exact consumes_opaque _ _ _
  | .secretKey => by simp only [decode, minWire]; exact consumes_opaque _ _ _
  | .optpair t u => by
      simp only [decode, minWire]; exact consumes_optpair (total_decode O tr t) (total_decode O tr u)
  | .genTail _ => by simp only [decode, minWire]; exact consumes_gentail O tr
  | .proofOfSpace => by simp only [decode, minWire]; exact consumes_pos O tr
theorem consumesL_decode (O : Oracles) (hO : OracleContract O) (tr : Bool) :
    ∀ ts : List Ty, ConsumesL (decodeL O tr ts) (minWireL ts)
  | [] => by
      intro b vs r hd
      simp only [decodeL, Res.pure_out] at hd
      injection hd with hd; injection hd with _ e2; subst e2; simp [minWireL]
  | t :: ts => by
      intro b vs r hd
      obtain ⟨v, r1, l', hv, hl, _⟩ := decodeL_cons_ok.mp hd
      have a1 := consumes_decode O hO tr t b v r1 hv
      have a2 := consumesL_decode O hO tr ts r1 l' r hl
      simp only [minWireL]; omega
end

end ChiaModel.Streamable
