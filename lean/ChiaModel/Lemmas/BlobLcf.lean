import ChiaModel.Lemmas.BlobBatchRef
/-
C18: the left-child-first iteration over the dirty blocks (`calculate_lazy_hashes`) on a stored tree.
-/
namespace ChiaModel.Blob
open List M

def dirtyAt (bl : List Block) (i : Nat) : Bool :=
  match bl[i]? with
  | some b => b.dirty
  | none => false

def itemAt (bl : List Block) (i : Nat) : List (Nat × Block) :=
  match bl[i]? with
  | some b => [(i, b)]
  | none => []

/-- what the iteration yields below a node: dirty internal nodes, children first; nothing below a
clean node -/
def IT.lcfItems (bl : List Block) : IT → List (Nat × Block)
  | .leaf _ _ _ _ => []
  | .node i l r => if dirtyAt bl i then IT.lcfItems bl l ++ IT.lcfItems bl r ++ itemAt bl i else []

/-- stack frames of the iteration -/
inductive Fr where
  | sub (c : IT)
  | done (i : Nat)

def Fr.entry : Fr → Bool × Nat
  | .sub c => (false, c.idx)
  | .done i => (true, i)

def Fr.out (bl : List Block) : Fr → List (Nat × Block)
  | .sub c => c.lcfItems bl
  | .done i => itemAt bl i

def Fr.weight : Fr → Nat
  | .sub c => 2 * c.indices.length
  | .done _ => 1

def Fr.idxs : Fr → List Nat
  | .sub c => c.indices
  | .done _ => []

def Fr.ok (bl : List Block) (q : List Nat) : Fr → Prop
  | .sub c => ∃ p, Rep bl (some p) c ∧ p ∈ q ∧ 0 ∉ c.indices
  | .done i => ∃ hh p l r, bl[i]? = some { dirty := true, node := .internal hh p l r }
      ∧ (match p with | none => i = 0 | some p' => i ≠ 0 ∧ p' ∈ q)

theorem Fr.ok_mono {bl : List Block} {q : List Nat} (x : Nat) {fr : Fr} (h : fr.ok bl q) : fr.ok bl (x :: q) := by
  cases fr with
  | sub c =>
    obtain ⟨p, h1, h2, h3⟩ := h
    exact ⟨p, h1, List.mem_cons_of_mem _ h2, h3⟩
  | done i =>
    obtain ⟨hh, p, l, r, h1, h2⟩ := h
    refine ⟨hh, p, l, r, h1, ?_⟩
    cases p with
    | none => exact h2
    | some p' => exact ⟨h2.1, List.mem_cons_of_mem _ h2.2⟩

def frWeight (fs : List Fr) : Nat := (fs.map Fr.weight).sum

theorem lcfAux_sim (bl : List Block) (f : Nat) :
    ∀ (fs : List Fr) (q : List Nat) (acc : List (Nat × Block)),
    (∀ fr ∈ fs, fr.ok bl q) → (fs.flatMap Fr.idxs).Nodup → (∀ j ∈ fs.flatMap Fr.idxs, j ∉ q) →
    frWeight fs < f →
    lcfAux bl (fun b => b.dirty) f (fs.map Fr.entry) q acc = (acc.reverse ++ fs.flatMap (Fr.out bl), true) := by
  induction f with
  | zero => intro fs q acc _ _ _ hw; omega
  | succ f ih =>
    intro fs q acc hok hn hq hw
    cases fs with
    | nil => simp [lcfAux]
    | cons fr rest =>
      have hokr : ∀ fr' ∈ rest, fr'.ok bl q := fun fr' h => hok fr' (List.mem_cons_of_mem _ h)
      have hw' : frWeight (fr :: rest) = fr.weight + frWeight rest := by simp [frWeight]
      have hnr : (rest.flatMap Fr.idxs).Nodup := by
        simp only [List.flatMap_cons] at hn
        exact (T.nodup_append' hn).2.1
      have hqr : ∀ j ∈ rest.flatMap Fr.idxs, j ∉ q := by
        intro j hj; exact hq j (by simp only [List.flatMap_cons, List.mem_append]; exact Or.inr hj)
      cases fr with
      | done i =>
        obtain ⟨hh, p, l, r, hb, hp⟩ := hok (.done i) List.mem_cons_self
        have hrest := ih rest q ((i, { dirty := true, node := .internal hh p l r }) :: acc) hokr hnr hqr
          (by rw [hw'] at hw; simp only [Fr.weight] at hw; omega)
        show lcfAux bl (fun b => b.dirty) (f + 1) ((true, i) :: rest.map Fr.entry) q acc = _
        cases p with
        | none =>
          have h2 : i = 0 := hp
          subst h2
          simp only [lcfAux, hb, Node.parent, Bool.not_true, Bool.false_eq_true, if_false, decide_true, if_true, hrest]
          simp [Fr.out, itemAt, hb]
        | some p' =>
          have h2 : i ≠ 0 ∧ p' ∈ q := hp
          have hc : q.contains p' = true := by simp [h2.2]
          simp only [lcfAux, hb, Node.parent, Bool.not_true, Bool.false_eq_true, if_false, if_neg h2.1, hc, if_true, hrest]
          simp [Fr.out, itemAt, hb]
      | sub c =>
        obtain ⟨p, hrep, hpq, h0⟩ := hok (.sub c) List.mem_cons_self
        cases c with
        | leaf i k v h =>
          simp only [Rep] at hrep
          have hrest := ih rest q acc hokr hnr hqr (by
            rw [hw'] at hw; simp only [Fr.weight, IT.indices, List.length_cons, List.length_nil] at hw; omega)
          show lcfAux bl (fun b => b.dirty) (f + 1) ((false, i) :: rest.map Fr.entry) q acc = _
          simp only [lcfAux, hrep, Bool.not_false, if_true, hrest]
          simp [Fr.out, IT.lcfItems]
        | node i l r =>
          simp only [Rep] at hrep
          obtain ⟨⟨d, hh, hb⟩, hl, hr⟩ := hrep
          cases d with
          | false =>
            have hrest := ih rest q acc hokr hnr hqr (by
              rw [hw'] at hw; simp only [Fr.weight, IT.indices, List.length_cons] at hw; omega)
            show lcfAux bl (fun b => b.dirty) (f + 1) ((false, i) :: rest.map Fr.entry) q acc = _
            simp only [lcfAux, hb, Bool.not_false, if_true, hrest]
            simp [Fr.out, IT.lcfItems, dirtyAt, hb]
          | true =>
            have hi0 : i ≠ 0 := by
              intro e; exact h0 (by simp [IT.indices, e])
            simp only [List.flatMap_cons, Fr.idxs, IT.indices, List.cons_append, List.nodup_cons] at hn
            have hiq : i ∉ q := hq i (by simp [Fr.idxs, IT.indices])
            obtain ⟨hn1, hn2⟩ := hn
            have hlrn : (l.indices ++ r.indices).Nodup := (T.nodup_append' hn2).1
            have hlr : l.idx ≠ r.idx := by
              intro e
              exact (T.nodup_append' hlrn).2.2 _ l.idx_mem (e ▸ r.idx_mem)
            have hlq : l.idx ∉ q := hq _ (by simp [Fr.idxs, IT.indices, l.idx_mem])
            have hrq : r.idx ∉ q := hq _ (by simp [Fr.idxs, IT.indices, r.idx_mem])
            have hpc : q.contains p = true := by simp [hpq]
            have hcond : (decide (l.idx = r.idx) || q.contains l.idx || q.contains r.idx) = false := by
              simp [hlr, hlq, hrq]
            have hcq : q.contains i = false := by simp [hiq]
            have hnew := ih (.sub l :: .sub r :: .done i :: rest) (i :: q) acc ?_ ?_ ?_ ?_
            · show lcfAux bl (fun b => b.dirty) (f + 1) ((false, i) :: rest.map Fr.entry) q acc = _
              simp only [lcfAux, hb, Node.parent, Bool.not_true, Bool.false_eq_true, if_false, if_neg hi0, hpc, if_true, hcond, hcq]
              simp only [List.map_cons, Fr.entry] at hnew
              rw [hnew]
              simp [Fr.out, IT.lcfItems, dirtyAt, hb, List.append_assoc]
            · intro fr hfr
              simp only [List.mem_cons] at hfr
              rcases hfr with e | e | e | e
              · subst e
                refine ⟨i, hl, List.mem_cons_self, ?_⟩
                intro hm; exact h0 (by simp [IT.indices, hm])
              · subst e
                refine ⟨i, hr, List.mem_cons_self, ?_⟩
                intro hm; exact h0 (by simp [IT.indices, hm])
              · subst e
                exact ⟨hh, some p, l.idx, r.idx, hb, hi0, List.mem_cons_of_mem _ hpq⟩
              · exact Fr.ok_mono i (hokr fr e)
            · simp only [List.flatMap_cons, Fr.idxs, List.nil_append]
              rw [← List.append_assoc]; exact hn2
            · intro j hj hm
              simp only [List.flatMap_cons, Fr.idxs, List.nil_append, ← List.append_assoc] at hj
              rcases List.mem_cons.mp hm with e | e
              · subst e; exact hn1 hj
              · refine hq j ?_ e
                simp only [List.flatMap_cons, Fr.idxs, IT.indices, List.cons_append]
                exact List.mem_cons_of_mem _ hj
            · rw [hw'] at hw
              simp only [Fr.weight, IT.indices, List.length_cons, List.length_append] at hw
              simp only [frWeight, List.map_cons, List.sum_cons, Fr.weight]
              simp only [frWeight] at hw
              omega

/-- the items are dirty internal blocks of the tree -/
theorem IT.lcfItems_spec {bl : List Block} {p : Option Nat} {c : IT} (hc : Rep bl p c) :
    ∀ it ∈ c.lcfItems bl, it.1 ∈ c.indices ∧ ∃ hh p' l r, bl[it.1]? = some it.2
      ∧ it.2 = { dirty := true, node := .internal hh p' l r } ∧ l < bl.length ∧ r < bl.length := by
  induction c generalizing p with
  | leaf i k v h => intro it hit; simp [IT.lcfItems] at hit
  | node i l r ihl ihr =>
    intro it hit
    simp only [Rep] at hc
    obtain ⟨⟨d, hh, hb⟩, hl, hr⟩ := hc
    simp only [IT.lcfItems, dirtyAt, hb] at hit
    cases d with
    | false => simp at hit
    | true =>
      simp only [if_true, List.mem_append, itemAt, hb, List.mem_singleton] at hit
      rcases hit with (a | a) | a
      · obtain ⟨m, rest⟩ := ihl hl it a
        exact ⟨by simp [IT.indices, m], rest⟩
      · obtain ⟨m, rest⟩ := ihr hr it a
        exact ⟨by simp [IT.indices, m], rest⟩
      · subst a
        exact ⟨by simp [IT.indices], hh, p, l.idx, r.idx, hb, rfl, hl.lt _ l.idx_mem, hr.lt _ r.idx_mem⟩

/-- `LeftChildFirstIterator` over the dirty blocks of a stored tree -/
theorem lcf_good {s : Blob} {t : IT} (g : Good s t) :
    lcf s.blocks (fun b => b.dirty) = (t.lcfItems s.blocks, true) := by
  have hroot := g.root
  have h0 := (g.live_iff 0).mpr (by rw [← hroot]; exact t.idx_mem)
  have hne : s.blocks.isEmpty = false := by
    cases hb : s.blocks with
    | nil => rw [hb] at h0; simp at h0
    | cons _ _ => rfl
  unfold lcf
  rw [hne]
  simp only [Bool.false_eq_true, if_false]
  have hrep := g.rep
  cases t with
  | leaf i k v h =>
    simp only [IT.idx] at hroot
    subst hroot
    simp only [Rep] at hrep
    have : 4 * s.blocks.length + 4 = (4 * s.blocks.length + 2) + 1 + 1 := by omega
    rw [this]
    generalize 4 * s.blocks.length + 2 = F
    simp [lcfAux, hrep, IT.lcfItems]
  | node i l r =>
    simp only [IT.idx] at hroot
    subst hroot
    simp only [Rep] at hrep
    obtain ⟨⟨d, hh, hb⟩, hl, hr⟩ := hrep
    have hnd := g.nodup
    simp only [IT.indices, List.nodup_cons] at hnd
    cases d with
    | false =>
      have : 4 * s.blocks.length + 4 = (4 * s.blocks.length + 2) + 1 + 1 := by omega
      rw [this]
      generalize 4 * s.blocks.length + 2 = F
      simp [lcfAux, hb, IT.lcfItems, dirtyAt]
    | true =>
      have hlr : l.idx ≠ r.idx := by
        intro e
        exact (T.nodup_append' hnd.2).2.2 _ l.idx_mem (e ▸ r.idx_mem)
      have hlen : (l.indices ++ r.indices).length + 1 ≤ s.blocks.length := by
        have := nodup_bound s.blocks.length _ g.nodup g.rep.lt
        simpa [IT.indices] using this
      have hnew := lcfAux_sim s.blocks (4 * s.blocks.length + 3) [.sub l, .sub r, .done 0] [0] [] ?_ ?_ ?_ ?_
      · have : 4 * s.blocks.length + 4 = (4 * s.blocks.length + 3) + 1 := by omega
        rw [this]
        generalize 4 * s.blocks.length + 3 = F at hnew ⊢
        simp only [lcfAux, hb, Node.parent, Bool.not_true, Bool.false_eq_true, if_false, decide_true, if_true]
        have hcond : (decide (l.idx = r.idx) || ([] : List Nat).contains l.idx || ([] : List Nat).contains r.idx) = false := by
          simp [hlr]
        simp only [List.map_cons, List.map_nil, Fr.entry] at hnew
        simp [hlr, hnew, Fr.out, IT.lcfItems, dirtyAt, hb, List.append_assoc]
      · intro fr hfr
        simp only [List.mem_cons, List.not_mem_nil, or_false] at hfr
        rcases hfr with e | e | e
        · subst e
          exact ⟨0, hl, List.mem_singleton_self _, fun hm => hnd.1 (List.mem_append.mpr (Or.inl hm))⟩
        · subst e
          exact ⟨0, hr, List.mem_singleton_self _, fun hm => hnd.1 (List.mem_append.mpr (Or.inr hm))⟩
        · subst e
          exact ⟨hh, none, l.idx, r.idx, hb, rfl⟩
      · simpa [Fr.idxs] using hnd.2
      · intro j hj hm
        simp only [List.mem_singleton] at hm
        subst hm
        simp only [List.flatMap_cons, Fr.idxs, List.flatMap_nil, List.append_nil] at hj
        exact hnd.1 hj
      · simp only [frWeight, List.map_cons, List.map_nil, List.sum_cons, List.sum_nil, Fr.weight]
        simp only [List.length_append] at hlen
        omega

/-! ### `calculate_lazy_hashes` keeps the structure -/

theorem getHash_run (i : Nat) (s : Blob) (b : Block) (hb : s.blocks[i]? = some b) :
    getHash i s = (.ok b.node.hash, s) := by
  unfold getHash
  simp only [bind_run, getBlock_run, hb, pure_run]

theorem SameShape.lt_iff {s T : Blob} (h : SameShape s T) {j : Nat} (hj : j < s.blocks.length) :
    ∃ b, T.blocks[j]? = some b := by
  have : j < T.blocks.length := by rw [h.len]; exact hj
  exact ⟨_, List.getElem?_eq_getElem this⟩

theorem recomputeAll_sameShape (s : Blob) (items : List (Nat × Block)) :
    ∀ (cur : Blob), SameShape s cur →
    (∀ it ∈ items, it.1 ∉ s.free ∧ ∃ hh p l r, s.blocks[it.1]? = some it.2
      ∧ it.2 = { dirty := true, node := .internal hh p l r } ∧ l < s.blocks.length ∧ r < s.blocks.length) →
    ∃ S, recomputeAll items cur = (.ok (), S) ∧ SameShape s S := by
  induction items with
  | nil => intro cur h _; exact ⟨cur, rfl, h⟩
  | cons it rest ih =>
    intro cur hss hit
    obtain ⟨hf, hh, p, l, r, hb, hit2, hl, hr⟩ := hit it List.mem_cons_self
    obtain ⟨bl, hbl⟩ := hss.lt_iff hl
    obtain ⟨br, hbr⟩ := hss.lt_iff hr
    obtain ⟨i, b⟩ := it
    simp only at hb hit2 hf
    subst hit2
    have hcur : ∃ d' hh', cur.blocks[i]? = some { dirty := d', node := .internal hh' p l r } := by
      rcases hss.blk i with e | ⟨d1, d2, h1, h2, p1, l1, r1, e1, e2⟩
      · exact ⟨_, _, by rw [e]; exact hb⟩
      · rw [hb] at e1; injection e1 with e1; injection e1 with _ hn; injection hn with _ a1 a2 a3
        subst a1; subst a2; subst a3
        exact ⟨_, _, e2⟩
    obtain ⟨d', hh', hci⟩ := hcur
    have hil : i < cur.blocks.length := (List.getElem?_eq_some_iff.mp hci).1
    have hfc : i ∉ cur.free := by rw [hss.free]; exact hf
    have hw := sameShape_write cur i d' false hh' (internalHash bl.node.hash br.node.hash) p l r hci hfc
    obtain ⟨S, hS, hSS⟩ := ih _ (hss.trans hw) (fun it' h' => hit it' (List.mem_cons_of_mem _ h'))
    refine ⟨S, ?_, hSS⟩
    simp only [recomputeAll, recomputeOne, bind_run, getHash_run l cur bl hbl, getHash_run r cur br hbr,
      writeBlock_run, if_neg (Nat.not_lt.mpr (Nat.le_of_lt hil)), hS]

theorem calcLazyHashes_run (s : Blob) :
    calcLazyHashes s = match recomputeAll (lcf s.blocks (fun b => b.dirty)).1 s with
      | (.ok _, S) => if (lcf s.blocks (fun b => b.dirty)).2 then (.ok (), S) else (.error .err, S)
      | (.error e, S) => (.error e, S) := by
  unfold calcLazyHashes
  simp only [bind_run, M.get]
  cases recomputeAll (lcf s.blocks (fun b => b.dirty)).1 s with
  | mk r S =>
    cases r with
    | error e => rfl
    | ok u =>
      simp only
      cases (lcf s.blocks (fun b => b.dirty)).2 <;> rfl

theorem calcLazyHashes_good {s : Blob} {t : IT} (g : Good s t) :
    ∃ S, calcLazyHashes s = (.ok (), S) ∧ SameShape s S := by
  have hl := lcf_good g
  obtain ⟨S, hS, hSS⟩ := recomputeAll_sameShape s (t.lcfItems s.blocks) s (SameShape.refl s) (by
    intro it hit
    obtain ⟨hm, hh, p, l, r, h1, h2, h3, h4⟩ := IT.lcfItems_spec g.rep it hit
    exact ⟨((g.live_iff _).mpr hm).2, hh, p, l, r, h1, h2, h3, h4⟩)
  refine ⟨S, ?_, hSS⟩
  rw [calcLazyHashes_run, hl]
  simp only [hS, if_true]

end ChiaModel.Blob
