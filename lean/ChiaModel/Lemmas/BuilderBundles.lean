import ChiaModel.Lemmas.Builders
import ChiaModel.Lemmas.CostAdditive
import ChiaModel.Lemmas.BundlePath
/-
C10: the declared costs a block builder adds up are the execution + condition costs `run_spendbundle` reported
for the bundles, and their total is the execution + condition cost of the block built from them.

 * `MpRun`              one spend bundle as the mempool validated it (coin spends, puzzle runs, limit, result)
 * `MpRun.declared`     execution cost + condition cost of that result (= cost − byte cost)
 * `Add.From`           a batch handed to a builder was assembled from such bundles and declares their costs
 * `ISt.blockCost_run`, `CSt.blockCost_run`   `block_cost` = 20 + the accepted batches' declared costs (no wrap)
 * `ISt.spends_sum`, `CSt.spends_sum`         a sum over the emitted spend list is the sum over the accepted batches
-/
namespace ChiaModel.Bld
open ChiaModel ChiaModel.Gn ChiaModel.Cond

/-! ## list sums -/

theorem sum_map_flatMap {α β : Type} (f : β → Nat) (g : α → List β) (l : List α) :
    ((l.flatMap g).map f).sum = (l.map (fun x => ((g x).map f).sum)).sum := by
  induction l with
  | nil => rfl
  | cons a t ih => simp only [List.flatMap_cons, List.map_append, List.sum_append_nat, List.map_cons, List.sum_cons, ih]

theorem sum_map_reverse {β : Type} (f : β → Nat) (l : List β) : (l.reverse.map f).sum = (l.map f).sum := by
  rw [List.map_reverse, List.sum_reverse_nat]

theorem sum_map_add {α : Type} (f g : α → Nat) (l : List α) :
    (l.map (fun x => f x + g x)).sum = (l.map f).sum + (l.map g).sum := by
  induction l with
  | nil => rfl
  | cons a t ih => simp only [List.map_cons, List.sum_cons, ih]; omega

theorem sum_map_congr {α : Type} (f g : α → Nat) (l : List α) (h : ∀ x ∈ l, f x = g x) : (l.map f).sum = (l.map g).sum := by
  rw [List.map_congr_left h]

/-! ## a bundle as the mempool validated it -/

/-- one spend bundle as the mempool validated it: its coin spends, the puzzle runs (`puz j` = the run of the
`j`-th coin spend's puzzle on its solution), the cost limit given, and what `run_spendbundle` returned -/
structure MpRun where
  css : List CoinSpendM
  puz : Nat → RunRes
  limit : Nat
  conds : Bundle
  pairs : List (Bytes × Bytes)

/-- `run_spendbundle` accepted the bundle with this result -/
def MpRun.Accepted (p : Params) (r : MpRun) : Prop := runSpendbundle p r.css r.puz r.limit = .ok (r.conds, r.pairs)

/-- the cost the mempool declares to a block builder for this bundle: "only the CLVM execution cost + the cost of
the conditions", not the byte cost -/
def MpRun.declared (r : MpRun) : Nat := r.conds.executionCost + r.conds.conditionCost

/-- … which is the cost `run_spendbundle` reported minus the byte cost it charged (C04) -/
theorem MpRun.declared_eq {p : Params} {r : MpRun} (h : r.Accepted p) : r.declared = r.conds.cost - bundleBase p r.css := by
  have := C04.runSpendbundle_cost_decomposition p r.css r.puz r.limit r.conds r.pairs h
  unfold MpRun.declared; omega

/-- the items of the bundle's coin spends as a generator lists them: `(parent puzzle amount solution)` -/
def MpRun.items (r : MpRun) : List Sexp := r.css.map item

/-- the puzzle runs of the bundle are those of `run`, a function of the listed item -/
def MpRun.Oracle (run : Sexp → RunRes) (r : MpRun) : Prop := ∀ j (h : j < r.css.length), r.puz j = run (item r.css[j])

/-- both cost fields of an accepted bundle, as sums over its items -/
theorem MpRun.costs {p : Params} {run : Sexp → RunRes} {r : MpRun} (h : r.Accepted p) (ho : r.Oracle run) :
    r.conds.executionCost = (r.items.map (fun x => runExec (run x))).sum ∧
    r.conds.conditionCost = (r.items.map (fun x => runCond p.flags (run x))).sum := by
  obtain ⟨e1, e2⟩ := runSpendbundle_costs p r.css r.puz r.limit r.conds r.pairs h
  have hv : oracleVals r.puz 0 r.css.length = r.css.map (fun cs => run (item cs)) :=
    oracleVals_eq_map r.puz (fun cs => run (item cs)) r.css 0 (by intro j hj; rw [Nat.zero_add]; exact ho j hj)
  rw [hv, List.map_map] at e1 e2
  simp only [MpRun.items, List.map_map]
  exact ⟨e1, e2⟩

/-! ## a batch assembled from mempool-validated bundles -/

/-- a mempool coin spend as the builders see it -/
def toSpend (cs : CoinSpendM) : Spend := { parent := cs.parent, puzzle := cs.puzzle, amount := cs.amount, solution := cs.solution }

theorem item_toSpend (cs : CoinSpendM) : (toSpend cs).item = item cs := rfl

/-- the batch `op` of one `add_spend_bundles` call was assembled from the bundles `rs` the mempool validated:
bundle by bundle the same coin spends, every bundle accepted by `run_spendbundle` (parameters `p`), and the
declared cost of the batch is the sum of the bundles' declared costs -/
structure Add.From (p : Params) (op : Add) (rs : List MpRun) : Prop where
  bundles : op.bundles.map (·.spends) = rs.map (fun r => r.css.map toSpend)
  accepted : ∀ r ∈ rs, r.Accepted p
  cost : op.cost = (rs.map MpRun.declared).sum

theorem flatMap_eq_flatten_map {α β : Type} (f : α → List β) (l : List α) : l.flatMap f = (l.map f).flatten := by
  induction l with
  | nil => rfl
  | cons a t ih => simp only [List.flatMap_cons, List.map_cons, List.flatten_cons, ih]

/-- a sum over the items of a batch is the sum over its bundles' items (the order inside the batch is irrelevant) -/
theorem Add.From.items_sum {p : Params} {op : Add} {rs : List MpRun} (h : op.From p rs)
    (f : Sexp → Nat) : (op.items.map f).sum = (rs.map (fun r => (r.items.map f).sum)).sum := by
  unfold Add.items
  rw [sum_map_reverse, flatMap_eq_flatten_map, h.bundles, ← flatMap_eq_flatten_map, List.map_flatMap, sum_map_flatMap]
  apply sum_map_congr
  intro r _
  unfold MpRun.items
  rw [List.map_map, List.map_map, List.map_map]
  rfl

theorem flatMap_congr' {α β : Type} {f g : α → List β} {l : List α} (h : ∀ x ∈ l, f x = g x) : l.flatMap f = l.flatMap g := by
  rw [flatMap_eq_flatten_map, flatMap_eq_flatten_map, List.map_congr_left h]

/-- the items of a batch are the items of its bundles' coin spends, all reversed -/
theorem Add.From.items_eq {p : Params} {op : Add} {rs : List MpRun} (h : op.From p rs) :
    op.items = (rs.flatMap MpRun.items).reverse := by
  unfold Add.items
  rw [flatMap_eq_flatten_map, h.bundles, ← flatMap_eq_flatten_map, List.map_flatMap]
  congr 1
  apply flatMap_congr'
  intro r _
  unfold MpRun.items
  rw [List.map_map]
  rfl

/-- **The declared cost of a batch is what its spends cost**: the sum over the batch's items of the CLVM cost of
the puzzle run plus the per-spend charge plus the table cost of the returned conditions. -/
theorem Add.From.cost_eq {p : Params} {run : Sexp → RunRes} {op : Add} {rs : List MpRun} (h : op.From p rs)
    (ho : ∀ r ∈ rs, r.Oracle run) :
    op.cost = (op.items.map (fun x => runCost p.flags (run x))).sum := by
  rw [h.cost, h.items_sum]
  apply sum_map_congr
  intro r hr
  obtain ⟨e1, e2⟩ := MpRun.costs (h.accepted r hr) (ho r hr)
  unfold MpRun.declared
  rw [e1, e2, ← sum_map_add]
  rfl

/-! ## the builders' `block_cost` and spend list along a history -/

theorem ISt.blockCost_run (ops : List Add) : ∀ {s : ISt}, IInv s → AllSmall s.cpb ops →
    (s.run ops).blockCost = s.blockCost + ((s.accepted ops).map (·.cost)).sum := by
  induction ops with
  | nil => intro s _ _; simp only [ISt.run_nil, ISt.accepted, List.map_nil, List.sum_nil, Nat.add_zero]
  | cons op rest ih =>
    intro s hi hs
    have hsm := hs op List.mem_cons_self
    obtain ⟨_, h2, h3⟩ := ISt.step_spec hi hsm
    have hrest : AllSmall (s.step op).1.cpb rest := by
      intro o ho
      rw [(s.step_obs op).2.2.1]
      exact hs o (List.mem_cons_of_mem _ ho)
    rw [ISt.run_cons, ih (hi.step hsm) hrest]
    simp only [ISt.accepted]
    by_cases ha : isAdded (s.step op).2 = true
    · obtain ⟨_, b2, _⟩ := h2 ha
      rw [b2, ha]
      simp only [if_true, List.cons_append, List.nil_append, List.map_cons, List.sum_cons]
      omega
    · have hf : isAdded (s.step op).2 = false := by simpa using ha
      have e := h3 hf
      have : (s.step op).1.blockCost = s.blockCost := by rw [e]
      rw [this, hf]
      simp only [Bool.false_eq_true, if_false, List.nil_append]

theorem CSt.blockCost_run (ops : List Add) : ∀ {s : CSt}, CInv s → AllSmall s.cpb ops → ContractAlong s ops →
    (s.run ops).blockCost = s.blockCost + ((s.accepted ops).map (·.cost)).sum := by
  induction ops with
  | nil => intro s _ _ _; simp only [CSt.run_nil, CSt.accepted, List.map_nil, List.sum_nil, Nat.add_zero]
  | cons op rest ih =>
    intro s hi hs hc
    have hsm := hs op List.mem_cons_self
    obtain ⟨_, _, _, _, _, g6⟩ := hi.guards hsm hc.1
    obtain ⟨_, _, o3, _, o5⟩ := s.step_obs op
    have hrest : AllSmall (s.step op).1.cpb rest := by
      intro o ho
      rw [o3]
      exact hs o (List.mem_cons_of_mem _ ho)
    rw [CSt.run_cons, ih (hi.step hsm hc.1) hrest hc.2, o5]
    simp only [CSt.accepted]
    by_cases ha : isAdded (s.step op).2 = true
    · rw [ha, g6]
      simp only [if_true, List.cons_append, List.nil_append, List.map_cons, List.sum_cons]
      omega
    · have hf : isAdded (s.step op).2 = false := by simpa using ha
      rw [hf]
      simp only [Bool.false_eq_true, if_false, List.nil_append]

/-- a sum over the interned builder's spend list is the sum over the accepted batches' items -/
theorem ISt.spends_sum (f : Sexp → Nat) (ops : List Add) (s : ISt) :
    ((s.run ops).spends.map f).sum = ((s.accepted ops).map (fun op => (op.items.map f).sum)).sum + (s.spends.map f).sum := by
  rw [(ISt.run_obs ops s).1, List.map_append, List.sum_append_nat, sum_map_flatMap, sum_map_reverse]

/-- … and over the compressed builder's -/
theorem CSt.spends_sum (f : Sexp → Nat) (ops : List Add) (s : CSt) :
    ((s.run ops).spends.map f).sum = (s.spends.map f).sum + ((s.accepted ops).map (fun op => (op.items.map f).sum)).sum := by
  rw [(CSt.run_obs ops s).1, List.map_append, List.sum_append_nat, sum_map_flatMap]

/-! ## the block's own run, with the puzzle runs given by `run` -/

/-- both cost fields of an accepted `run_block_generator2` on a generator whose run returns the list `all` (at
cost `c`), when the `i`-th puzzle run is `run` of the `i`-th listed item: sums over `all` -/
theorem native_costs_keyed (p : Params) (run : Sexp → RunRes) (all : List Sexp) (g : GenInput) (c : Nat)
    (puz : Nat → RunRes) (L : Nat) (b : Bundle)
    (hpuz : ∀ i (h : i < all.length), puz i = run all[i])
    (hrun : native p g (some (c, .pair (Sexp.ofList all) Sexp.nil)) puz L = .ok b) :
    b.executionCost = c + (all.map (fun x => runExec (run x))).sum ∧
    b.conditionCost = (all.map (fun x => runCond p.flags (run x))).sum ∧
    b.executionCost + b.conditionCost = c + (all.map (fun x => runCost p.flags (run x))).sum := by
  obtain ⟨e1, e2⟩ := native_costs p g c _ (Sexp.ofList all) puz L b rfl hrun
  have hv : oracleVals puz 0 all.length = all.map run :=
    oracleVals_eq_map puz run all 0 (by intro j hj; rw [Nat.zero_add]; exact hpuz j hj)
  rw [listElems_ofList, hv, List.map_map] at e1 e2
  have e1' : b.executionCost = c + (all.map (fun x => runExec (run x))).sum := e1
  have e2' : b.conditionCost = (all.map (fun x => runCond p.flags (run x))).sum := e2
  refine ⟨e1', e2', ?_⟩
  have := sum_map_add (fun x => runExec (run x)) (fun x => runCond p.flags (run x)) all
  have hc : (all.map (fun x => runCost p.flags (run x))).sum = (all.map (fun x => runExec (run x) + runCond p.flags (run x))).sum := rfl
  rw [hc, this, e1', e2']; omega

/-- an accepting run as a record (for examples): the result `run_spendbundle` returns, or the empty result -/
def mpRun (p : Params) (css : List CoinSpendM) (puz : Nat → RunRes) (L : Nat) : MpRun :=
  match runSpendbundle p css puz L with
  | .ok (bb, pairs) => { css := css, puz := puz, limit := L, conds := bb, pairs := pairs }
  | .error _ => { css := css, puz := puz, limit := L, conds := {}, pairs := [] }

theorem mpRun_accepted {p : Params} {css : List CoinSpendM} {puz : Nat → RunRes} {L : Nat}
    (h : (runSpendbundle p css puz L).toBool = true) : (mpRun p css puz L).Accepted p := by
  unfold MpRun.Accepted mpRun
  cases h' : runSpendbundle p css puz L with
  | error e => rw [h'] at h; cases h
  | ok q => obtain ⟨bb, pairs⟩ := q; simp only; exact h'

theorem mpRun_css (p : Params) (css : List CoinSpendM) (puz : Nat → RunRes) (L : Nat) : (mpRun p css puz L).css = css := by
  unfold mpRun; split <;> rfl

theorem mpRun_puz (p : Params) (css : List CoinSpendM) (puz : Nat → RunRes) (L : Nat) : (mpRun p css puz L).puz = puz := by
  unfold mpRun; split <;> rfl

/-! ## positional oracles: the block's puzzle runs are the bundles' runs, re-indexed -/

theorem oracleVals_congr (puz q : Nat → RunRes) : ∀ (n i i' : Nat), (∀ j, j < n → puz (i + j) = q (i' + j)) →
    oracleVals puz i n = oracleVals q i' n := by
  intro n
  induction n with
  | zero => intro i i' _; rfl
  | succ n ih =>
    intro i i' h
    simp only [oracleVals]
    have h0 := h 0 (by omega)
    simp only [Nat.add_zero] at h0
    rw [h0, ih (i + 1) (i' + 1)]
    intro j hj
    have := h (j + 1) (by omega)
    have e1 : i + 1 + j = i + (j + 1) := by omega
    have e2 : i' + 1 + j = i' + (j + 1) := by omega
    rw [e1, e2]; exact this

/-- reading the oracle backwards: if `puz i = q (n − 1 − i)` for `i < n`, the runs consumed from `puz` are those
consumed from `q`, reversed -/
theorem oracleVals_reverse (puz q : Nat → RunRes) (n : Nat) (h : ∀ i, i < n → puz i = q (n - 1 - i)) :
    oracleVals puz 0 n = (oracleVals q 0 n).reverse := by
  rw [oracleVals_range, oracleVals_range]
  apply List.ext_getElem
  · simp only [List.length_map, List.length_range, List.length_reverse]
  · intro i h1 h2
    simp only [List.length_map, List.length_range] at h1
    simp only [List.getElem_map, List.getElem_range, List.getElem_reverse, List.length_map, List.length_range]
    exact h i h1

/-- the bundles' puzzle runs are consecutive segments of the positional oracle `q`, starting at index `i`, in the
order of the list: the `j`-th run of the first bundle is `q (i + j)`, the next bundle continues after it -/
def SegmentsOf (q : Nat → RunRes) : Nat → List MpRun → Prop
  | _, [] => True
  | i, r :: rest => (∀ j, j < r.css.length → r.puz j = q (i + j)) ∧ SegmentsOf q (i + r.css.length) rest

/-- total number of coin spends of the bundles -/
def totalSpends (rs : List MpRun) : Nat := (rs.map (·.css.length)).sum

theorem length_flatMap_items (rs : List MpRun) : (rs.flatMap MpRun.items).length = totalSpends rs := by
  induction rs with
  | nil => rfl
  | cons r rest ih =>
    simp only [List.flatMap_cons, List.length_append, ih, totalSpends, List.map_cons, List.sum_cons, MpRun.items, List.length_map]

/-- the sums of both cost fields over accepted bundles whose runs are consecutive segments of `q` -/
theorem SegmentsOf.costs {p : Params} {q : Nat → RunRes} : ∀ (rs : List MpRun) (i : Nat), SegmentsOf q i rs →
    (∀ r ∈ rs, r.Accepted p) →
    (rs.map (·.conds.executionCost)).sum = ((oracleVals q i (totalSpends rs)).map runExec).sum ∧
    (rs.map (·.conds.conditionCost)).sum = ((oracleVals q i (totalSpends rs)).map (runCond p.flags)).sum := by
  intro rs
  induction rs with
  | nil => intro i _ _; exact ⟨rfl, rfl⟩
  | cons r rest ih =>
    intro i hseg hacc
    obtain ⟨h1, h2⟩ := hseg
    obtain ⟨i1, i2⟩ := ih (i + r.css.length) h2 (fun x hx => hacc x (List.mem_cons_of_mem _ hx))
    obtain ⟨e1, e2⟩ := runSpendbundle_costs p r.css r.puz r.limit r.conds r.pairs (hacc r List.mem_cons_self)
    have hv : oracleVals r.puz 0 r.css.length = oracleVals q i r.css.length :=
      oracleVals_congr r.puz q r.css.length 0 i (by intro j hj; rw [Nat.zero_add]; exact h1 j hj)
    have ht : totalSpends (r :: rest) = r.css.length + totalSpends rest := by
      simp only [totalSpends, List.map_cons, List.sum_cons]
    rw [ht, oracleVals_append]
    simp only [List.map_cons, List.sum_cons, List.map_append, List.sum_append_nat]
    rw [i1, i2, e1, e2, hv]
    exact ⟨rfl, rfl⟩

/-- **The order of the interned builder's spend list**: the items of all coin spends of all bundles of the accepted
batches (in the order added), completely reversed — the last spend added comes first -/
theorem ISt.spends_reversed {p : Params} (mp : Add → List MpRun) (ops : List Add) (s : ISt) (hs0 : s.spends = [])
    (hfrom : ∀ op ∈ s.accepted ops, op.From p (mp op)) :
    (s.run ops).spends = (((s.accepted ops).flatMap mp).flatMap MpRun.items).reverse := by
  rw [(ISt.run_obs ops s).1, hs0, List.append_nil, List.flatMap_assoc, List.flatMap_reverse]
  congr 1
  apply flatMap_congr'
  intro op hop
  rw [Function.comp_apply, (hfrom op hop).items_eq, List.reverse_reverse]

/-- the accepted adds are adds of the history -/
theorem ISt.mem_accepted {op : Add} : ∀ (ops : List Add) (s : ISt), op ∈ s.accepted ops → op ∈ ops := by
  intro ops
  induction ops with
  | nil => intro s h; simp only [ISt.accepted, List.not_mem_nil] at h
  | cons o rest ih =>
    intro s h
    simp only [ISt.accepted, List.mem_append] at h
    rcases h with h | h
    · split at h
      · simp only [List.mem_cons, List.not_mem_nil, or_false] at h; rw [h]; exact List.mem_cons_self
      · simp only [List.not_mem_nil] at h
    · exact List.mem_cons_of_mem _ (ih _ h)

theorem CSt.mem_accepted {op : Add} : ∀ (ops : List Add) (s : CSt), op ∈ s.accepted ops → op ∈ ops := by
  intro ops
  induction ops with
  | nil => intro s h; simp only [CSt.accepted, List.not_mem_nil] at h
  | cons o rest ih =>
    intro s h
    simp only [CSt.accepted, List.mem_append] at h
    rcases h with h | h
    · split at h
      · simp only [List.mem_cons, List.not_mem_nil, or_false] at h; rw [h]; exact List.mem_cons_self
      · simp only [List.not_mem_nil] at h
    · exact List.mem_cons_of_mem _ (ih _ h)

end ChiaModel.Bld
