import ChiaModel.Model.Streamable
import ChiaModel.Lemmas.Ints
/-!
Basic lemmas for the Streamable model: the `Res` monad, `read_bytes`, integers.  Core Lean only.
-/
namespace ChiaModel.Streamable
open ChiaModel

/-! ### Outcome / Res -/

theorem Res.bind_out {α β : Type} (x : Res α) (f : α → Res β) :
    (x.bind f).out = match x.out with
      | .ok a => (f a).out
      | .err => .err
      | .panic s => .panic s := by
  unfold Res.bind; cases h : x.out <;> simp

theorem Res.bind_ok {α β : Type} {x : Res α} {f : α → Res β} {b : β} :
    (x.bind f).out = .ok b ↔ ∃ a, x.out = .ok a ∧ (f a).out = .ok b := by
  rw [Res.bind_out]; cases h : x.out <;> simp

theorem Res.bind_panic {α β : Type} {x : Res α} {f : α → Res β} {s : String} :
    (x.bind f).out = .panic s ↔ x.out = .panic s ∨ ∃ a, x.out = .ok a ∧ (f a).out = .panic s := by
  rw [Res.bind_out]; cases h : x.out <;> simp

theorem Res.bind_of_ok {α β : Type} {x : Res α} {f : α → Res β} {a : α} (h : x.out = .ok a) :
    (x.bind f).out = (f a).out := by
  rw [Res.bind_out, h]

@[simp] theorem Res.pure_out {α : Type} (a : α) : (Res.pure a).out = .ok a := rfl
@[simp] theorem Res.fail_out {α : Type} : (Res.fail : Res α).out = .err := rfl
@[simp] theorem Res.site_out {α : Type} (s : String) : (Res.site s : Res α).out = .panic s := rfl
@[simp] theorem Res.reserve_out (a : Nat) : (Res.reserve a).out = .ok () := rfl
@[simp] theorem Res.pure_alloc {α : Type} (a : α) : (Res.pure a).alloc = 0 := rfl
@[simp] theorem Res.fail_alloc {α : Type} : (Res.fail : Res α).alloc = 0 := rfl
@[simp] theorem Res.site_alloc {α : Type} (s : String) : (Res.site s : Res α).alloc = 0 := rfl
@[simp] theorem Res.reserve_alloc (a : Nat) : (Res.reserve a).alloc = a := rfl

/-! ### lists of bytes -/

theorem lenGe_iff (b : Bytes) (n : Nat) : ClvmScan.lenGe b n = true ↔ n ≤ b.length := by
  induction b generalizing n with
  | nil => cases n <;> simp [ClvmScan.lenGe]
  | cons x t ih => cases n with
    | zero => simp [ClvmScan.lenGe]
    | succ n => simp [ClvmScan.lenGe, ih]

theorem isBytes_append {a b : Bytes} : isBytes (a ++ b) ↔ isBytes a ∧ isBytes b := by
  unfold isBytes; simp only [List.mem_append]
  constructor
  · intro h; exact ⟨fun x hx => h x (Or.inl hx), fun x hx => h x (Or.inr hx)⟩
  · rintro ⟨h1, h2⟩ x (hx | hx)
    · exact h1 x hx
    · exact h2 x hx

theorem isBytes_cons {x : Nat} {b : Bytes} : isBytes (x :: b) ↔ x < 256 ∧ isBytes b := by
  unfold isBytes; simp

theorem isBytes_nil : isBytes [] := by unfold isBytes; simp

/-! ### read_bytes -/

theorem readBytes_ok {n : Nat} {b c r : Bytes} :
    readBytes n b = .ok (c, r) ↔ b = c ++ r ∧ c.length = n := by
  unfold readBytes
  by_cases h : ClvmScan.lenGe b n = true
  · rw [if_pos h]
    rw [lenGe_iff] at h
    constructor
    · intro e
      injection e with e
      injection e with e1 e2
      subst e1; subst e2
      exact ⟨(List.take_append_drop n b).symm, by simp [List.length_take]; omega⟩
    · rintro ⟨rfl, rfl⟩
      simp
  · rw [if_neg h]
    rw [lenGe_iff] at h
    constructor
    · intro e; cases e
    · rintro ⟨rfl, rfl⟩; simp at h

theorem readBytes_append (c r : Bytes) : readBytes c.length (c ++ r) = .ok (c, r) :=
  readBytes_ok.mpr ⟨rfl, rfl⟩

theorem readBytes_no_panic (n : Nat) (b : Bytes) (s : String) : readBytes n b ≠ .panic s := by
  unfold readBytes; split <;> simp

theorem readFixed_ok {s : String} {n : Nat} {b c r : Bytes} :
    (readFixed s n b).out = .ok (c, r) ↔ b = c ++ r ∧ c.length = n := by
  unfold readFixed
  cases h : readBytes n b with
  | ok cr =>
    obtain ⟨c', r'⟩ := cr
    have h' := readBytes_ok.mp h
    simp only [h'.2, if_true, Res.pure_out]
    constructor
    · intro e; injection e with e; injection e with e1 e2; subst e1; subst e2; exact h'
    · rintro ⟨rfl, hl⟩
      have := readBytes_append c r
      rw [hl, h] at this
      exact this
  | err =>
    simp only [Res.fail_out]
    constructor
    · intro e; cases e
    · rintro ⟨rfl, rfl⟩; rw [readBytes_append] at h; cases h
  | panic s' => exact absurd h (readBytes_no_panic _ _ _)

theorem readFixed_no_panic (s : String) (n : Nat) (b : Bytes) (s' : String) :
    (readFixed s n b).out ≠ .panic s' := by
  unfold readFixed
  cases h : readBytes n b with
  | ok cr =>
    obtain ⟨c', r'⟩ := cr
    have h' := readBytes_ok.mp h
    simp [h'.2]
  | err => simp
  | panic s'' => exact absurd h (readBytes_no_panic _ _ _)

theorem readByte_ok {s : String} {b r : Bytes} {x : Nat} :
    (readByte s b).out = .ok (x, r) ↔ b = x :: r := by
  unfold readByte
  cases h : readBytes 1 b with
  | ok cr =>
    obtain ⟨c', r'⟩ := cr
    obtain ⟨hb, hl⟩ := readBytes_ok.mp h
    match c', hl with
    | [y], _ =>
      simp only [Res.pure_out]
      subst hb
      constructor
      · intro e; injection e with e; injection e with e1 e2; subst e1; subst e2; rfl
      · intro e; injection e with e1 e2; subst e1; subst e2; rfl
  | err =>
    simp only [Res.fail_out]
    constructor
    · intro e; cases e
    · rintro rfl
      have := readBytes_append [x] r
      simp at this; rw [this] at h; cases h
  | panic s' => exact absurd h (readBytes_no_panic _ _ _)

theorem readByte_no_panic (s : String) (b : Bytes) (s' : String) : (readByte s b).out ≠ .panic s' := by
  unfold readByte
  cases h : readBytes 1 b with
  | ok cr =>
    obtain ⟨c', r'⟩ := cr
    obtain ⟨hb, hl⟩ := readBytes_ok.mp h
    match c', hl with
    | [y], _ => simp
  | err => simp
  | panic s'' => exact absurd h (readBytes_no_panic _ _ _)

/-! ### big-endian integers -/

theorem be_mod (n v : Nat) : be n v = be n (v % 256 ^ n) := by
  simp only [be]
  apply List.map_congr_left
  intro i hi
  simp at hi
  have : 256 ^ n = 256 ^ i * 256 ^ (n - i) := by rw [← Nat.pow_add]; congr 1; omega
  rw [this, Nat.mod_mul_right_div_self]
  have h256 : 256 ^ (n - i) = 256 * 256 ^ (n - i - 1) := by
    rw [← Nat.pow_succ']; congr 1; omega
  rw [h256, Nat.mod_mul_right_mod]

theorem be_beVal (c : Bytes) (hc : isBytes c) : be c.length (beVal c) = c := by
  induction c with
  | nil => simp
  | cons x t ih =>
    have hx : x < 256 := (isBytes_cons.mp hc).1
    have ht : isBytes t := (isBytes_cons.mp hc).2
    have hlt := beVal_lt t ht
    rw [List.length_cons, be_succ, beVal_cons]
    have hpos : 0 < 256 ^ t.length := Nat.pow_pos (by decide)
    have h1 : (x * 256 ^ t.length + beVal t) / 256 ^ t.length = x := by
      rw [Nat.mul_comm, Nat.mul_add_div hpos, Nat.div_eq_of_lt hlt]; simp
    have h2 : (x * 256 ^ t.length + beVal t) % 256 ^ t.length = beVal t := by
      rw [Nat.mul_comm, Nat.mul_add_mod, Nat.mod_eq_of_lt hlt]
    rw [h1, Nat.mod_eq_of_lt hx, be_mod, h2, ih ht]

theorem readUint_ok {n : Nat} {b r : Bytes} {x : Nat} :
    (readUint n b).out = .ok (x, r) ↔ ∃ c, b = c ++ r ∧ c.length = n ∧ x = beVal c := by
  unfold readUint
  rw [Res.bind_ok]
  constructor
  · rintro ⟨⟨c, r'⟩, h1, h2⟩
    simp only [Res.pure_out] at h2
    injection h2 with h2; injection h2 with e1 e2
    subst e1; subst e2
    obtain ⟨hb, hl⟩ := readFixed_ok.mp h1
    exact ⟨c, hb, hl, rfl⟩
  · rintro ⟨c, hb, hl, rfl⟩
    exact ⟨(c, r), readFixed_ok.mpr ⟨hb, hl⟩, rfl⟩

theorem readUint_no_panic (n : Nat) (b : Bytes) (s : String) : (readUint n b).out ≠ .panic s := by
  unfold readUint
  rw [Ne, Res.bind_panic]
  rintro (h | ⟨a, _, h⟩)
  · exact readFixed_no_panic _ _ _ _ h
  · simp at h

/-- reading back what `be` wrote -/
theorem readUint_be {n x : Nat} (hx : x < 256 ^ n) (r : Bytes) :
    (readUint n (be n x ++ r)).out = .ok (x, r) :=
  readUint_ok.mpr ⟨be n x, rfl, be_length n x, (beVal_be n x hx).symm⟩

end ChiaModel.Streamable
