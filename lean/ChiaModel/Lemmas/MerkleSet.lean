import ChiaModel.Model.MerkleSet
/-
Helper lemmas for C12 (Merkle set): bit extensionality of 32-byte strings, the recursive
characterisation of the radix-sort root by `Spec.trie`, set-invariance of `Spec.trie`, and the
abstraction of the node vector to an inductive tree.
-/
namespace ChiaModel.Merkle
open ChiaModel

/-! ## bits of 32-byte strings -/

theorem getBit_eq (x : Bytes) (j b : Nat) (hb : b < 8) :
    getBit x (8 * j + (7 - b)) = (x.getD j 0).testBit b := by
  unfold getBit
  have h1 : (8 * j + (7 - b)) / 8 = j := by omega
  have h2 : 7 - (8 * j + (7 - b)) % 8 = b := by omega
  rw [h1, h2]

/-- two 32-byte strings with the same 256 bits are equal -/
theorem leaf_ext {x y : Bytes} (hx : IsLeaf x) (hy : IsLeaf y)
    (h : ∀ i, i < 256 → getBit x i = getBit y i) : x = y := by
  apply List.ext_getElem (by rw [hx.1, hy.1])
  intro j h1 h2
  apply Nat.eq_of_testBit_eq
  intro b
  by_cases hb : b < 8
  · have := h (8 * j + (7 - b)) (by have := hx.1; omega)
    rw [getBit_eq x j b hb, getBit_eq y j b hb] at this
    simpa [List.getD_eq_getElem?_getD, List.getElem?_eq_getElem h1, List.getElem?_eq_getElem h2] using this
  · have hxl : x[j] < 2 ^ b :=
      Nat.lt_of_lt_of_le (hx.2 _ (List.getElem_mem h1))
        (by have : 2 ^ 8 ≤ 2 ^ b := Nat.pow_le_pow_right (by omega) (by omega); simpa using this)
    have hyl : y[j] < 2 ^ b :=
      Nat.lt_of_lt_of_le (hy.2 _ (List.getElem_mem h2))
        (by have : 2 ^ 8 ≤ 2 ^ b := Nat.pow_le_pow_right (by omega) (by omega); simpa using this)
    rw [Nat.testBit_lt_two_pow hxl, Nat.testBit_lt_two_pow hyl]

/-- all elements agree on their first `k` bits -/
def Agree (k : Nat) (S : List Bytes) : Prop :=
  ∀ x ∈ S, ∀ y ∈ S, ∀ i, i < k → getBit x i = getBit y i

theorem Agree.all_eq {S : List Bytes} (h : Agree 256 S) (hS : ∀ x ∈ S, IsLeaf x) :
    ∀ x ∈ S, ∀ y ∈ S, x = y :=
  fun x hx y hy => leaf_ext (hS x hx) (hS y hy) (h x hx y hy)

/-- the elements whose bit `d` is 0 / 1 (pure notation: expands to `List.filter`) -/
notation "Lo(" d ", " S ")" => List.filter (fun v => !getBit v d) S
notation "Hi(" d ", " S ")" => List.filter (fun v => getBit v d) S

theorem lo_nil_hi {d : Nat} {S : List Bytes} (h : Lo(d, S) = []) : Hi(d, S) = S := by
  rw [List.filter_eq_self]
  intro a ha
  have := (List.filter_eq_nil_iff.mp h) a ha
  simpa using this

theorem hi_nil_lo {d : Nat} {S : List Bytes} (h : Hi(d, S) = []) : Lo(d, S) = S := by
  rw [List.filter_eq_self]
  intro a ha
  have := (List.filter_eq_nil_iff.mp h) a ha
  simpa using this

theorem lo_hi_nil {d : Nat} {S : List Bytes} (h1 : Lo(d, S) = []) (h2 : Hi(d, S) = []) : S = [] := by
  rw [← lo_nil_hi h1]; exact h2

theorem Agree.lo {n : Nat} {S : List Bytes} (h : Agree (256 - (n + 1)) S) :
    Agree (256 - n) (Lo((255 - n), S)) := by
  intro x hx y hy i hi
  have hx' := List.mem_filter.mp hx
  have hy' := List.mem_filter.mp hy
  by_cases hlt : i < 256 - (n + 1)
  · exact h x hx'.1 y hy'.1 i hlt
  · have : i = 255 - n := by omega
    subst this
    have a := hx'.2; have b := hy'.2
    simp at a b
    rw [a, b]

theorem Agree.hi {n : Nat} {S : List Bytes} (h : Agree (256 - (n + 1)) S) :
    Agree (256 - n) (Hi((255 - n), S)) := by
  intro x hx y hy i hi
  have hx' := List.mem_filter.mp hx
  have hy' := List.mem_filter.mp hy
  by_cases hlt : i < 256 - (n + 1)
  · exact h x hx'.1 y hy'.1 i hlt
  · have : i = 255 - n := by omega
    subst this
    have a := hx'.2; have b := hy'.2
    rw [a, b]

/-! ## `Spec.trie`: unfolding, and the radix-sort root -/

open Spec

theorem trie_nil (H : Bytes → Bytes) (n : Nat) : trie H n [] = (BLANK, .empty) := by
  cases n <;> rfl

theorem trie_single (H : Bytes → Bytes) (n : Nat) (x : Bytes) : trie H n [x] = (x, .term) := by
  cases n <;> rfl

theorem trie_zero_cons (H : Bytes → Bytes) (x : Bytes) (S : List Bytes) : trie H 0 (x :: S) = (x, .term) := rfl

theorem combine_empty_left (H : Bytes → Bytes) (b : Bytes) (r : Bytes × NodeType) (h : r.2 ≠ .mid) :
    combine H (b, .empty) r = r := by
  simp [combine, h]

theorem combine_empty_right (H : Bytes → Bytes) (b : Bytes) (l : Bytes × NodeType) (h : l.2 ≠ .mid)
    (h' : l.2 ≠ .empty) : combine H l (b, .empty) = l := by
  simp [combine, h, h']

/-- the one recursion equation of the reference trie, valid for every list -/
theorem trie_succ (H : Bytes → Bytes) (n : Nat) (S : List Bytes) :
    trie H (n + 1) S = combine H (trie H n (Lo((255 - n), S))) (trie H n (Hi((255 - n), S))) := by
  match S with
  | [] => simp [trie, trie_nil, combine]
  | [x] =>
    by_cases hb : getBit x (255 - n) = true
    · simp [trie, hb, trie_nil, trie_single, combine]
    · simp [trie, hb, trie_nil, trie_single, combine]
  | x :: y :: t => simp [trie]

theorem trie_type_empty_iff (H : Bytes → Bytes) (n : Nat) (S : List Bytes) :
    (trie H n S).2 = .empty ↔ S = [] := by
  induction n generalizing S with
  | zero => cases S <;> simp [trie]
  | succ n ih =>
    constructor
    · intro h
      rw [trie_succ] at h
      unfold combine at h
      split at h
      · rename_i h1
        exact lo_hi_nil ((ih _).mp h1.1) ((ih _).mp h)
      · split at h
        · rename_i h1 h2
          have := (ih _).mp h
          have h3 := (ih _).mp h2.1
          exact lo_hi_nil this h3
        · simp at h
          split at h <;> simp at h
    · intro h; subst h; simp [trie_nil]

theorem trie_ne_empty (H : Bytes → Bytes) (n : Nat) {S : List Bytes} (h : S ≠ []) :
    (trie H n S).2 ≠ .empty := fun h' => h ((trie_type_empty_iff H n S).mp h')

theorem headD_cons_of_ne_nil {S : List Bytes} (h : S ≠ []) : ∃ t, S = S.headD BLANK :: t := by
  cases S with
  | nil => exact absurd rfl h
  | cons x t => exact ⟨t, rfl⟩

theorem trie_zero_of_ne_nil (H : Bytes → Bytes) {S : List Bytes} (h : S ≠ []) :
    trie H 0 S = (S.headD BLANK, .term) := by
  cases S with
  | nil => exact absurd rfl h
  | cons x t => rfl

/-- the radix-sort recursion computes the reference trie value (any non-empty list) -/
theorem radix_eq_trie (H : Bytes → Bytes) (n : Nat) (l : List Bytes) (hl : l ≠ []) :
    radixSort H n l = trie H n l := by
  induction n generalizing l with
  | zero => rw [trie_zero_of_ne_nil H hl]; rfl
  | succ n ih =>
    unfold radixSort
    by_cases h1 : l.length = 1
    · rw [if_pos h1]
      obtain ⟨a, rfl⟩ := List.length_eq_one_iff.mp h1
      simp [trie_single]
    · rw [if_neg h1, trie_succ]
      simp only []
      by_cases hlo : Lo((255 - n), l) = []
      · have hhi := lo_nil_hi hlo
        rw [if_pos (Or.inl hlo)]
        rw [hlo, hhi, trie_nil]
        by_cases hd : 255 - n = 255
        · rw [if_pos hd]
          have : n = 0 := by omega
          subst this
          rw [trie_zero_of_ne_nil H hl, combine_empty_left _ _ _ (by simp)]
        · rw [if_neg hd, ih l hl]
          by_cases hm : (trie H n l).2 = .mid
          · rw [if_pos hm, if_pos rfl]
            simp [combine, hm]
          · rw [if_neg hm, combine_empty_left _ _ _ hm]
      · by_cases hhi : Hi((255 - n), l) = []
        · have hlo' := hi_nil_lo hhi
          rw [if_pos (Or.inr hhi)]
          rw [hhi, hlo', trie_nil]
          by_cases hd : 255 - n = 255
          · rw [if_pos hd]
            have : n = 0 := by omega
            subst this
            rw [trie_zero_of_ne_nil H hl, combine_empty_right _ _ _ (by simp) (by simp)]
          · rw [if_neg hd, ih l hl]
            by_cases hm : (trie H n l).2 = .mid
            · rw [if_pos hm, if_neg hl]
              simp [combine, hm]
            · rw [if_neg hm, combine_empty_right _ _ _ hm (trie_ne_empty H n hl)]
        · rw [if_neg (by simp only [not_or]; exact ⟨hlo, hhi⟩)]
          by_cases hd : 255 - n = 255
          · rw [if_pos hd]
            have : n = 0 := by omega
            subst this
            rw [trie_zero_of_ne_nil H hlo, trie_zero_of_ne_nil H hhi]
            simp [combine]
          · rw [if_neg hd, ih _ hlo, ih _ hhi]
            have e1 := trie_ne_empty H n hlo
            have e2 := trie_ne_empty H n hhi
            simp [combine, e1, e2]

/-- the reference trie value depends only on the set of elements -/
theorem trie_set_ext (H : Bytes → Bytes) (n : Nat) (S S' : List Bytes) (hS : ∀ x ∈ S, IsLeaf x)
    (hag : Agree (256 - n) S) (hmem : ∀ x, x ∈ S ↔ x ∈ S') : trie H n S = trie H n S' := by
  induction n generalizing S S' with
  | zero =>
    cases S with
    | nil =>
      cases S' with
      | nil => rfl
      | cons y t => exact absurd ((hmem y).mpr (List.mem_cons_self ..)) (by simp)
    | cons x t =>
      cases S' with
      | nil => exact absurd ((hmem x).mp (List.mem_cons_self ..)) (by simp)
      | cons y t' =>
        have hy : y ∈ x :: t := (hmem y).mpr (List.mem_cons_self ..)
        have : x = y := Agree.all_eq hag hS x (List.mem_cons_self ..) y hy
        subst this; rfl
  | succ n ih =>
    rw [trie_succ, trie_succ]
    have hmem_lo : ∀ x, x ∈ Lo((255 - n), S) ↔ x ∈ Lo((255 - n), S') := by
      intro x; simp only [List.mem_filter, hmem x]
    have hmem_hi : ∀ x, x ∈ Hi((255 - n), S) ↔ x ∈ Hi((255 - n), S') := by
      intro x; simp only [List.mem_filter, hmem x]
    rw [ih _ _ (fun x hx => hS x (List.mem_filter.mp hx).1) hag.lo hmem_lo,
        ih _ _ (fun x hx => hS x (List.mem_filter.mp hx).1) hag.hi hmem_hi]

theorem agree_zero (S : List Bytes) : Agree (256 - 256) S := by
  intro x _ y _ i hi; omega

theorem mem_dedup (l : List Bytes) (x : Bytes) : x ∈ Spec.dedup l ↔ x ∈ l := by
  induction l with
  | nil => simp [Spec.dedup]
  | cons a t ih =>
    unfold Spec.dedup
    by_cases h : a ∈ Spec.dedup t
    · rw [if_pos h, ih]
      constructor
      · exact fun hx => List.mem_cons_of_mem _ hx
      · intro hx
        rcases List.mem_cons.mp hx with hxa | hx
        · exact ih.mp (by rw [hxa]; exact h)
        · exact hx
    · rw [if_neg h, List.mem_cons, List.mem_cons, ih]

theorem nodup_dedup (l : List Bytes) : (Spec.dedup l).Nodup := by
  induction l with
  | nil => simp [Spec.dedup]
  | cons a t ih =>
    unfold Spec.dedup
    by_cases h : a ∈ Spec.dedup t
    · rw [if_pos h]; exact ih
    · rw [if_neg h]; exact List.nodup_cons.mpr ⟨h, ih⟩

end ChiaModel.Merkle
