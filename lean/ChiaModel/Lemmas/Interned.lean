import ChiaModel.Model.Builders
/-
Finite-set facts about `internedVbytes` (the weight of the set of distinct subtrees), proved directly
over the duplicate-free list `dedup` (no Mathlib): monotone in the set, sub-additive over unions,
and the bound of the whole generator by the per-spend weights that the interned builder sums up.
-/
namespace ChiaModel.Gn
open ChiaModel

/-- weight of one distinct node: atom bytes + 2, or 3 for a pair -/
def wt : Sexp → Nat
  | .atom b => b.length + 2
  | .pair _ _ => 3

/-- weight of the SET of the members of `l` -/
def vb (l : List Sexp) : Nat := ((dedup l).map wt).sum

theorem internedVbytes_eq (t : Sexp) : internedVbytes t = vb (subtrees t) := by
  unfold internedVbytes vb
  congr 2 <;> (funext n; cases n <;> rfl)

def dstep (acc : List Sexp) (x : Sexp) : List Sexp := if acc.contains x then acc else acc ++ [x]

theorem dedup_eq (l : List Sexp) : dedup l = l.foldl dstep [] := rfl

theorem mem_foldl_dstep (l : List Sexp) : ∀ (acc : List Sexp) (x : Sexp), x ∈ l.foldl dstep acc ↔ x ∈ acc ∨ x ∈ l := by
  induction l with
  | nil => intro acc x; simp
  | cons a l ih =>
    intro acc x
    rw [List.foldl_cons, ih]
    unfold dstep
    by_cases h : acc.contains a = true
    · rw [if_pos h]
      simp only [List.mem_cons]
      have ha : a ∈ acc := List.contains_iff_mem.mp h
      constructor
      · rintro (h1 | h1)
        · exact Or.inl h1
        · exact Or.inr (Or.inr h1)
      · rintro (h1 | h1 | h1)
        · exact Or.inl h1
        · exact Or.inl (h1 ▸ ha)
        · exact Or.inr h1
    · rw [if_neg h]
      simp only [List.mem_append, List.mem_cons, List.not_mem_nil, or_false]
      constructor
      · rintro ((h1 | h1) | h1)
        · exact Or.inl h1
        · exact Or.inr (Or.inl h1)
        · exact Or.inr (Or.inr h1)
      · rintro (h1 | h1 | h1)
        · exact Or.inl (Or.inl h1)
        · exact Or.inl (Or.inr h1)
        · exact Or.inr h1

theorem nodup_foldl_dstep (l : List Sexp) : ∀ (acc : List Sexp), acc.Nodup → (l.foldl dstep acc).Nodup := by
  induction l with
  | nil => intro acc h; exact h
  | cons a l ih =>
    intro acc h
    rw [List.foldl_cons]
    apply ih
    unfold dstep
    by_cases hc : acc.contains a = true
    · rw [if_pos hc]; exact h
    · rw [if_neg hc]
      have ha : a ∉ acc := fun hm => hc (List.contains_iff_mem.mpr hm)
      rw [List.nodup_append]
      refine ⟨h, by simp, ?_⟩
      intro x hx y hy
      simp only [List.mem_singleton] at hy
      subst hy
      intro hxy; subst hxy; exact ha hx

theorem mem_dedup {l : List Sexp} {x : Sexp} : x ∈ dedup l ↔ x ∈ l := by
  rw [dedup_eq, mem_foldl_dstep]; simp

theorem nodup_dedup (l : List Sexp) : (dedup l).Nodup := by
  rw [dedup_eq]; exact nodup_foldl_dstep l [] (by simp)

theorem sum_map_erase (w : Sexp → Nat) (a : Sexp) : ∀ (B : List Sexp), a ∈ B → (B.map w).sum = w a + ((B.erase a).map w).sum := by
  intro B
  induction B with
  | nil => intro h; cases h
  | cons b B ih =>
    intro h
    by_cases hb : b = a
    · subst hb; simp
    · have : a ∈ B := by
        rcases List.mem_cons.mp h with h1 | h1
        · exact absurd h1.symm hb
        · exact h1
      rw [List.erase_cons_tail (by simpa using hb)]
      simp only [List.map_cons, List.sum_cons]
      rw [ih this]; omega

/-- a sum over a duplicate-free list is at most the sum over any list that contains its members -/
theorem sum_le_of_nodup_subset (w : Sexp → Nat) : ∀ (A B : List Sexp), A.Nodup → (∀ x ∈ A, x ∈ B) → (A.map w).sum ≤ (B.map w).sum := by
  intro A
  induction A with
  | nil => intro B _ _; simp
  | cons a A ih =>
    intro B hn hs
    rw [List.nodup_cons] at hn
    have haB : a ∈ B := hs a (List.mem_cons_self)
    rw [sum_map_erase w a B haB]
    simp only [List.map_cons, List.sum_cons]
    have : (A.map w).sum ≤ ((B.erase a).map w).sum := by
      apply ih _ hn.2
      intro x hx
      have hne : x ≠ a := fun h => hn.1 (h ▸ hx)
      exact (List.mem_erase_of_ne hne).mpr (hs x (List.mem_cons_of_mem _ hx))
    omega

/-- **monotone in the set** -/
theorem vb_mono {A B : List Sexp} (h : ∀ x ∈ A, x ∈ B) : vb A ≤ vb B := by
  unfold vb
  apply sum_le_of_nodup_subset wt _ _ (nodup_dedup A)
  intro x hx
  exact mem_dedup.mpr (h x (mem_dedup.mp hx))

/-- **finite-set sub-additivity**: the weight of a union is at most the sum of the weights -/
theorem vb_append_le (A B : List Sexp) : vb (A ++ B) ≤ vb A + vb B := by
  unfold vb
  have := sum_le_of_nodup_subset wt (dedup (A ++ B)) (dedup A ++ dedup B) (nodup_dedup _) (by
    intro x hx
    have := mem_dedup.mp hx
    rcases List.mem_append.mp this with h | h
    · exact List.mem_append.mpr (Or.inl (mem_dedup.mpr h))
    · exact List.mem_append.mpr (Or.inr (mem_dedup.mpr h)))
  simpa [List.map_append, List.sum_append] using this

theorem vb_singleton (x : Sexp) : vb [x] = wt x := by
  unfold vb dedup; simp

theorem vb_cons_le (x : Sexp) (l : List Sexp) : vb (x :: l) ≤ wt x + vb l := by
  have := vb_append_le [x] l
  rw [vb_singleton] at this
  simpa using this

theorem nil_mem_subtrees_ofList (items : List Sexp) : Sexp.nil ∈ subtrees (Sexp.ofList items) := by
  induction items with
  | nil => simp [Sexp.ofList, Sexp.nil, subtrees]
  | cons a l ih =>
    have : Sexp.ofList (a :: l) = .pair a (Sexp.ofList l) := rfl
    rw [this]
    simp only [subtrees, List.mem_cons, List.mem_append]
    exact Or.inr (Or.inr ih)

/-- the spend list weighs at most nil plus, per spend, the spend on its own and one linking pair -/
theorem vb_spendList_le (items : List Sexp) :
    vb (subtrees (Sexp.ofList items)) ≤ 2 + (items.map (fun it => internedVbytes it + 3)).sum := by
  induction items with
  | nil =>
    have : Sexp.ofList [] = Sexp.atom [] := rfl
    rw [this]; simp [subtrees, vb_singleton, wt]
  | cons a l ih =>
    have : Sexp.ofList (a :: l) = .pair a (Sexp.ofList l) := rfl
    rw [this]
    simp only [subtrees, List.map_cons, List.sum_cons]
    have h1 := vb_cons_le (.pair a (Sexp.ofList l)) (subtrees a ++ subtrees (Sexp.ofList l))
    have h2 := vb_append_le (subtrees a) (subtrees (Sexp.ofList l))
    rw [internedVbytes_eq a]
    simp only [wt] at h1
    omega

/-- **The generator weighs at most the wrapper (11) plus the per-spend weights.** -/
theorem generator_bound (items : List Sexp) :
    internedVbytes (Bld.generator items) ≤ 11 + (items.map (fun it => internedVbytes it + 3)).sum := by
  rw [internedVbytes_eq]
  unfold Bld.generator
  simp only [subtrees]
  have h1 := vb_cons_le (.pair (.atom [1]) (.pair (Sexp.ofList items) Sexp.nil))
    ([Sexp.atom [1]] ++ (.pair (Sexp.ofList items) Sexp.nil :: (subtrees (Sexp.ofList items) ++ subtrees Sexp.nil)))
  have h2 := vb_cons_le (Sexp.atom [1]) (.pair (Sexp.ofList items) Sexp.nil :: (subtrees (Sexp.ofList items) ++ subtrees Sexp.nil))
  have h3 := vb_cons_le (.pair (Sexp.ofList items) Sexp.nil) (subtrees (Sexp.ofList items) ++ subtrees Sexp.nil)
  have h4 : vb (subtrees (Sexp.ofList items) ++ subtrees Sexp.nil) ≤ vb (subtrees (Sexp.ofList items)) := by
    apply vb_mono
    intro x hx
    rcases List.mem_append.mp hx with h | h
    · exact h
    · have : x = Sexp.nil := by simpa [Sexp.nil, subtrees] using h
      rw [this]; exact nil_mem_subtrees_ofList items
  have h5 := vb_spendList_le items
  simp only [wt, List.singleton_append, List.length_cons, List.length_nil] at h1 h2 h3 ⊢
  omega

end ChiaModel.Gn
