import ChiaModel.Lemmas.JsonDict
/-!
C20: the round trip `fromJson t (toJson t v) = ok v` by induction on the descriptor (mutually with the element lists,
the single field of a transparent struct and the field lists of a named struct).
-/
namespace ChiaModel.JsonDict
open ChiaModel ChiaModel.Streamable

/-- a field with its key, both conversions and the well-formedness test of its values -/
structure FieldSpec where
  key : String
  toJ : ToJ
  fromJ : FromJ
  wf : Wf

/-- every value passes the test of its field -/
def AllOK : List FieldSpec → List V → Prop
  | [], [] => True
  | s :: ss, v :: vs => (s.wf v = true ∧ bytesOK v = true) ∧ AllOK ss vs
  | _, _ => False

/-- explicit field lists (`ProofOfSpace`, the generator tail): if every field round-trips, the fields are written
under their keys and read back from any dict in which those keys hold those values -/
theorem fields_rt : ∀ (specs : List FieldSpec) (vs : List V),
    (∀ s ∈ specs, RT s.toJ s.fromJ s.wf) → AllOK specs vs →
    ∃ kvs, fieldsToJ (specs.map fun s => (s.key, s.toJ)) vs = some kvs ∧ kvs.map Prod.fst = specs.map (·.key) ∧
      ∀ d, (∀ kj ∈ kvs, d.lookup kj.1 = some kj.2) →
        fieldsFromJ (specs.map fun s => (s.key, s.fromJ)) (.dict d) = .ok vs
  | [], [], _, _ => ⟨[], rfl, rfl, fun _ _ => rfl⟩
  | [], _ :: _, _, hw => by simp [AllOK] at hw
  | _ :: _, [], _, hw => by simp [AllOK] at hw
  | s :: specs, v :: vs, hs, hw => by
    obtain ⟨h1, hrest⟩ := hw
    obtain ⟨j, hj, hg⟩ := hs s (List.mem_cons_self) v h1.1 h1.2
    obtain ⟨kvs, hk, hkeys, hfrom⟩ := fields_rt specs vs (fun s' hs' => hs s' (List.mem_cons_of_mem _ hs')) hrest
    refine ⟨(s.key, j) :: kvs, by simp only [List.map_cons, fieldsToJ, hj, hk], by simp [hkeys], ?_⟩
    intro d hd
    have h0 := hd (s.key, j) (List.mem_cons_self)
    have hr := hfrom d (fun kj hkj => hd kj (List.mem_cons_of_mem _ hkj))
    simp only [List.map_cons, fieldsFromJ, getItem, h0, hg, hr]

/-! ## `ProofOfSpace`, generator tail -/

theorem wfG1_eq (O : Oracles) : wfG1 O false = wfOpaque 48 (g1Valid O) := rfl
theorem wfG2_eq (O : Oracles) : wfG2 O false = wfOpaque 96 (g2Valid O) := rfl

def posSpecs (O : Oracles) : List FieldSpec := [
  ⟨"challenge", toHexJ, fromBytesN 32, wfBytesN 32⟩,
  ⟨"pool_public_key", toOption toHexJ, fromOption (fromBls 48 (g1Valid O)), wfOption (wfOpaque 48 (g1Valid O))⟩,
  ⟨"pool_contract_puzzle_hash", toOption toHexJ, fromOption (fromBytesN 32), wfOption (wfBytesN 32)⟩,
  ⟨"plot_public_key", toHexJ, fromBls 48 (g1Valid O), wfOpaque 48 (g1Valid O)⟩,
  ⟨"version", toUint, fromUint 1, wfUint 1⟩, ⟨"plot_index", toUint, fromUint 2, wfUint 2⟩,
  ⟨"meta_group", toUint, fromUint 1, wfUint 1⟩, ⟨"strength", toUint, fromUint 1, wfUint 1⟩,
  ⟨"size", toUint, fromUint 1, wfUint 1⟩, ⟨"proof", toBytesJ, fromBytesJ, wfBytes⟩]

theorem posSpecs_rt (O : Oracles) : ∀ s ∈ posSpecs O, RT s.toJ s.fromJ s.wf := by
  intro s hs
  simp only [posSpecs, List.mem_cons, List.not_mem_nil, or_false] at hs
  rcases hs with rfl | rfl | rfl | rfl | rfl | rfl | rfl | rfl | rfl | rfl
  · exact rt_bytesN 32
  · exact rt_option (rt_bls 48 _) nonNull_toHexJ
  · exact rt_option (rt_bytesN 32) nonNull_toHexJ
  · exact rt_bls 48 _
  · exact rt_uint 1
  · exact rt_uint 2
  · exact rt_uint 1
  · exact rt_uint 1
  · exact rt_uint 1
  · exact rt_bytes

theorem rt_pos (O : Oracles) : RT toPos (fromPos O) (wfPos O false) := by
  intro v hv hb
  obtain ⟨ch, pp, ct, pk, version, pi, mg, st, sz, pf, rfl, h1, h2, h3, h4, h5, h6⟩ := wfPos_iff.mp hv
  simp only [bytesOK, bytesOKL, Bool.and_eq_true] at hb
  rw [wfG1_eq] at h2 h4
  have hu : wfUint 1 (.n version) = true ∧ wfUint 2 (.n pi) = true ∧ wfUint 1 (.n mg) = true ∧
      wfUint 1 (.n st) = true ∧ wfUint 1 (.n sz) = true := by
    rcases h6 with ⟨rfl, rfl, rfl, rfl, hsz⟩ | ⟨rfl, hpi, hmg, hst, rfl, _⟩
    · simp [wfUint, hsz]
    · simp [wfUint, hpi, hmg, hst]
  have hall : AllOK (posSpecs O) [ch, pp, ct, pk, .n version, .n pi, .n mg, .n st, .n sz, pf] := by
    simp only [AllOK, posSpecs, bytesOK, and_true]
    exact ⟨⟨h1, hb.1⟩, ⟨h2, hb.2.1⟩, ⟨h3, hb.2.2.1⟩, ⟨h4, hb.2.2.2.1⟩, hu.1, hu.2.1, hu.2.2.1, hu.2.2.2.1, hu.2.2.2.2, h5, hb.2.2.2.2.2.2.2.2.2.1⟩
  obtain ⟨kvs, hto, hkeys, hfrom⟩ := fields_rt (posSpecs O) _ (posSpecs_rt O) hall
  have hk2 : (posSpecs O).map (·.key) = posKeys := rfl
  have hnd : (kvs.map Prod.fst).Nodup := by rw [hkeys, hk2]; decide
  refine ⟨.dict kvs, ?_, ?_⟩
  · show (fieldsToJ posToFields _).map J.dict = _
    have : posToFields = (posSpecs O).map fun s => (s.key, s.toJ) := rfl
    rw [this, hto]; rfl
  · have : posFromFields O = (posSpecs O).map fun s => (s.key, s.fromJ) := rfl
    simp only [fromPos, this, hfrom kvs (lookup_of_nodup kvs hnd)]

def genTailSpecs (O : Oracles) (k1 k2 k3 k4 : String) : List FieldSpec := [
  ⟨k1, toOption toBytesJ, fromOption (fromProgram O), wfOption (wfProgram O false)⟩,
  ⟨k2, toVec toUint, fromVec (fromUint 4), wfVec (wfUint 4)⟩,
  ⟨k3, toOption toU8Vec, fromOption fromU8Vec, wfOption wfBytes⟩,
  ⟨k4, toUint, fromUint 1, wfUint 1⟩]

theorem genTailSpecs_rt (O : Oracles) (k1 k2 k3 k4 : String) : ∀ s ∈ genTailSpecs O k1 k2 k3 k4, RT s.toJ s.fromJ s.wf := by
  intro s hs
  simp only [genTailSpecs, List.mem_cons, List.not_mem_nil, or_false] at hs
  rcases hs with rfl | rfl | rfl | rfl
  · exact rt_option (rt_program O) nonNull_toBytesJ
  · exact rt_vec (rt_uint 4)
  · exact rt_option rt_u8vec nonNull_toU8Vec
  · exact rt_uint 1

/-- the four fields behind a generator tail: written under `k1 … k4`, read back from any dict holding them -/
theorem genTail_rt (O : Oracles) (k1 k2 k3 k4 : String) (p : Bool) (v : V) (hv : wfGenTail O false v = true)
    (hb : bytesOK v = true) :
    ∃ gs kvs, v = .tup gs ∧ fieldsToJ (genTailToFields k1 k2 k3 k4) gs = some kvs ∧ kvs.map Prod.fst = [k1, k2, k3, k4] ∧
      ∀ d, (∀ kj ∈ kvs, d.lookup kj.1 = some kj.2) → fieldsFromJ (genTailFromFields O k1 k2 k3 k4) (.dict d) = .ok gs := by
  let _ := p
  obtain ⟨gen, refs, buf, version, rfl, h⟩ := wfGenTail_iff.mp hv
  simp only [bytesOK, bytesOKL, Bool.and_eq_true] at hb
  have hall : AllOK (genTailSpecs O k1 k2 k3 k4) [gen, refs, buf, .n version] := by
    simp only [AllOK, genTailSpecs, bytesOK, and_true]
    rcases h with ⟨rfl, hg, hr, rfl⟩ | ⟨rfl, rfl, rfl, hbuf⟩
    · exact ⟨⟨hg, hb.1⟩, ⟨hr, hb.2.1⟩, ⟨rfl, rfl⟩, by simp [wfUint]⟩
    · exact ⟨⟨rfl, rfl⟩, ⟨by simp [wfVec, u32Max], rfl⟩, ⟨hbuf, hb.2.2.1⟩, by simp [wfUint]⟩
  obtain ⟨kvs, hto, hkeys, hfrom⟩ := fields_rt (genTailSpecs O k1 k2 k3 k4) _ (genTailSpecs_rt O k1 k2 k3 k4) hall
  exact ⟨_, kvs, rfl, hto, hkeys, hfrom⟩

/-! ## unfolding of the field-list functions on an ordinary field -/

def isGroup : Ty → Bool
  | .optpair _ _ => true
  | .genTail _ => true
  | _ => false

theorem toJsonF_plain (k : String) (keys : List String) (t : Ty) (ts : List Ty) (v : V) (vs : List V)
    (h : isGroup t = false) :
    toJsonF (k :: keys) (t :: ts) (v :: vs) =
      match toJsonF keys ts vs with
      | none => none
      | some rest => match toJson t v with
        | some j => some ((k, j) :: rest)
        | none => none := by
  cases t <;> first | (simp [isGroup] at h; done) | (simp only [toJsonF]; rfl)

theorem fromJsonF_plain (O : Oracles) (k : String) (keys : List String) (t : Ty) (ts : List Ty) (o : J)
    (h : isGroup t = false) :
    fromJsonF O (k :: keys) (t :: ts) o =
      match getItem o k with
      | .error e => .error e
      | .ok j => match fromJson O t j with
        | .error e => .error e
        | .ok v => match fromJsonF O keys ts o with
          | .error e => .error e
          | .ok vs => .ok (v :: vs) := by
  cases t <;> first | (simp [isGroup] at h; done) | (simp only [fromJsonF]; rfl)

theorem WFjsonF_plain (k : String) (keys : List String) (t : Ty) (ts : List Ty) (h : isGroup t = false) :
    WFjsonF (k :: keys) (t :: ts) = (WFjson t && WFjsonF keys ts) := by
  cases t <;> first | (simp [isGroup] at h; done) | (simp only [WFjsonF])

theorem WFjsonF_nil_cons (t : Ty) (ts : List Ty) : WFjsonF [] (t :: ts) = false := by
  cases t <;> simp only [WFjsonF]

/-! ## never `null` -/

mutual
theorem nonNull_json : ∀ t : Ty, nullable t = false → NonNull (toJson t)
  | .uint _, _ => by simp only [toJson]; exact nonNull_toUint
  | .sint _, _ => by simp only [toJson]; exact nonNull_toSint
  | .bool, _ => by simp only [toJson]; exact nonNull_toBool
  | .unit, _ => by intro v j h; simp [toJson] at h
  | .bytes, _ => by simp only [toJson]; exact nonNull_toBytesJ
  | .bytesN _, _ => by simp only [toJson]; exact nonNull_toHexJ
  | .str, _ => by simp only [toJson]; exact nonNull_toStr
  | .option _, h => by simp [nullable] at h
  | .vec t, _ => by simp only [toJson]; exact nonNull_toVec _
  | .tuple ts, _ => by
    intro v j h
    simp only [toJson] at h
    cases v <;> simp only [reduceCtorEq] at h
    split at h
    · obtain ⟨a, _, rfl⟩ := Option.map_eq_some_iff.mp h
      simp
    · simp at h
  | .array _ t, _ => by simp only [toJson]; exact nonNull_toVec _
  | .struct _ keys ts, h => by
    intro v j hj
    simp only [toJson] at hj
    cases v <;> simp only [reduceCtorEq] at hj
    rename_i vs
    cases hk : (keys.isEmpty && !ts.isEmpty)
    · simp only [hk, Bool.false_eq_true, if_false] at hj
      obtain ⟨a, _, rfl⟩ := Option.map_eq_some_iff.mp hj
      simp
    · simp only [hk, if_true] at hj
      simp only [Bool.and_eq_true] at hk
      simp only [nullable, hk.1, Bool.true_and] at h
      exact nonNull_jsonNT ts h vs j hj
  | .enum8 _ _, _ => by simp only [toJson]; exact nonNull_toEnum
  | .program, _ => by simp only [toJson]; exact nonNull_toBytesJ
  | .g1, _ => by simp only [toJson]; exact nonNull_toHexJ
  | .g2, _ => by simp only [toJson]; exact nonNull_toHexJ
  | .gt, _ => by simp only [toJson]; exact nonNull_toHexJ
  | .secretKey, _ => by simp only [toJson]; exact nonNull_toHexJ
  | .optpair _ _, _ => by intro v j h; simp [toJson] at h
  | .genTail _, _ => by intro v j h; simp [toJson] at h
  | .proofOfSpace, _ => by simp only [toJson]; exact nonNull_toPos
theorem nonNull_jsonNT : ∀ ts : List Ty, nullableNT ts = false → ∀ vs j, toJsonNT ts vs = some j → j ≠ .null
  | [], _, vs, j, hj => by simp [toJsonNT] at hj
  | [t], h, vs, j, hj => by
    match vs, hj with
    | [v], hj =>
      simp only [toJsonNT] at hj
      simp only [nullableNT] at h
      exact nonNull_json t h v j hj
    | [], hj => simp [toJsonNT] at hj
    | _ :: _ :: _, hj => simp [toJsonNT] at hj
  | _ :: _ :: _, _, vs, j, hj => by simp [toJsonNT] at hj
end

/-! ## the round trip -/

mutual
theorem rt_json (O : Oracles) : ∀ t : Ty, WFjson t = true → RT (toJson t) (fromJson O t) (WF O false t)
  | .uint n, _ => by simp only [toJson, fromJson, WF]; exact rt_uint n
  | .sint n, _ => by simp only [toJson, fromJson, WF]; exact rt_sint n
  | .bool, _ => by simp only [toJson, fromJson, WF]; exact rt_bool
  | .unit, h => by simp [WFjson] at h
  | .bytes, _ => by simp only [toJson, fromJson, WF]; exact rt_bytes
  | .bytesN n, _ => by simp only [toJson, fromJson, WF]; exact rt_bytesN n
  | .str, _ => by simp only [toJson, fromJson, WF]; exact rt_str
  | .option t, h => by
    simp only [WFjson, Bool.and_eq_true, Bool.not_eq_true'] at h
    simp only [toJson, fromJson, WF]
    exact rt_option (rt_json O t h.2) (nonNull_json t h.1)
  | .vec t, h => by
    simp only [WFjson] at h
    simp only [toJson, fromJson, WF]
    exact rt_vec (rt_json O t h)
  | .tuple ts, h => by
    intro v hv hb
    simp only [WFjson, Bool.and_eq_true, Bool.or_eq_true, beq_iff_eq] at h
    simp only [WF] at hv
    cases v <;> simp only [wfTup, Bool.false_eq_true] at hv
    rename_i vs
    simp only [bytesOK] at hb
    obtain ⟨js, hjs, hlen, hgs⟩ := rt_jsonL O ts h.2 vs hv hb
    refine ⟨.list js, by simp only [toJson, h.1, if_true, hjs, Option.map_some], ?_⟩
    simp only [fromJson, h.1, if_true, fixedSeq, hlen, hgs]
  | .array n t, h => by
    simp only [WFjson] at h
    simp only [toJson, fromJson, WF]
    exact rt_array n (rt_json O t h)
  | .struct _ keys ts, h => by
    intro v hv hb
    simp only [WF] at hv
    cases v <;> simp only [wfTup, Bool.false_eq_true] at hv
    rename_i vs
    simp only [bytesOK] at hb
    simp only [WFjson] at h
    cases hk : (keys.isEmpty && !ts.isEmpty)
    · simp only [hk, Bool.false_eq_true, if_false, Bool.and_eq_true, decide_eq_true_eq] at h
      obtain ⟨kvs, hto, hkeys, hfrom⟩ := rt_jsonF O ts keys h.2 vs hv hb
      have := hfrom kvs (lookup_of_nodup kvs (hkeys ▸ h.1))
      exact ⟨.dict kvs, by simp only [toJson, hk, Bool.false_eq_true, if_false, hto, Option.map_some],
        by simp only [fromJson, hk, Bool.false_eq_true, if_false, this]⟩
    · simp only [hk, if_true] at h
      obtain ⟨j, v1, rfl, hj, hg⟩ := rt_jsonNT O ts h vs hv hb
      exact ⟨j, by simp only [toJson, hk, if_true, hj], by simp only [fromJson, hk, if_true, hg]⟩
  | .enum8 _ vals, h => by
    simp only [WFjson] at h
    simp only [toJson, fromJson, WF]
    exact rt_enum vals h
  | .program, _ => by simp only [toJson, fromJson, WF]; exact rt_program O
  | .g1, _ => by simp only [toJson, fromJson, WF, wfG1_eq]; exact rt_bls 48 _
  | .g2, _ => by simp only [toJson, fromJson, WF, wfG2_eq]; exact rt_bls 96 _
  | .gt, _ => by simp only [toJson, fromJson, WF]; exact rt_bls 576 _
  | .secretKey, _ => by simp only [toJson, fromJson, WF]; exact rt_bls 32 _
  | .optpair _ _, h => by simp [WFjson] at h
  | .genTail _, h => by simp [WFjson] at h
  | .proofOfSpace, _ => by simp only [toJson, fromJson, WF]; exact rt_pos O
theorem rt_jsonL (O : Oracles) : ∀ ts : List Ty, WFjsonL ts = true → ∀ vs, WFL O false ts vs = true → bytesOKL vs = true →
    ∃ js, toJsonL ts vs = some js ∧ js.length = ts.length ∧ fromJsonL O ts js = .ok vs
  | [], _, [], _, _ => ⟨[], rfl, rfl, rfl⟩
  | [], _, _ :: _, hv, _ => by simp [WFL] at hv
  | _ :: _, _, [], hv, _ => by simp [WFL] at hv
  | t :: ts, h, v :: vs, hv, hb => by
    simp only [WFjsonL, Bool.and_eq_true] at h
    simp only [WFL, Bool.and_eq_true] at hv
    simp only [bytesOKL, Bool.and_eq_true] at hb
    obtain ⟨j, hj, hg⟩ := rt_json O t h.1 v hv.1 hb.1
    obtain ⟨js, hjs, hlen, hgs⟩ := rt_jsonL O ts h.2 vs hv.2 hb.2
    exact ⟨j :: js, by simp only [toJsonL, hj, hjs], by simp [hlen], by simp only [fromJsonL, hg, hgs]⟩
theorem rt_jsonNT (O : Oracles) : ∀ ts : List Ty, WFjsonNT ts = true → ∀ vs, WFL O false ts vs = true → bytesOKL vs = true →
    ∃ j v, vs = [v] ∧ toJsonNT ts vs = some j ∧ fromJsonNT O ts j = .ok v
  | [], h, _, _, _ => by simp [WFjsonNT] at h
  | _ :: _ :: _, h, _, _, _ => by simp [WFjsonNT] at h
  | [t], h, vs, hv, hb => by
    match vs, hv, hb with
    | [v], hv, hb =>
      simp only [WFjsonNT] at h
      simp only [WFL, Bool.and_true] at hv
      simp only [bytesOKL, Bool.and_true] at hb
      obtain ⟨j, hj, hg⟩ := rt_json O t h v hv hb
      exact ⟨j, v, rfl, by simp only [toJsonNT, hj], by simp only [fromJsonNT, hg]⟩
    | [], hv, _ => simp [WFL] at hv
    | _ :: _ :: _, hv, _ => simp [WFL] at hv
theorem rt_jsonF (O : Oracles) : ∀ (ts : List Ty) (keys : List String), WFjsonF keys ts = true →
    ∀ vs, WFL O false ts vs = true → bytesOKL vs = true →
    ∃ kvs, toJsonF keys ts vs = some kvs ∧ kvs.map Prod.fst = keys ∧
      ∀ d, (∀ kj ∈ kvs, d.lookup kj.1 = some kj.2) → fromJsonF O keys ts (.dict d) = .ok vs
  | [], [], _, [], _, _ => ⟨[], rfl, rfl, fun _ _ => rfl⟩
  | [], [], _, _ :: _, hv, _ => by simp [WFL] at hv
  | [], _ :: _, h, _, _, _ => by simp [WFjsonF] at h
  | _ :: _, _, _, [], hv, _ => by simp [WFL] at hv
  | t :: ts, keys, h, v :: vs, hv, hb => by
    simp only [WFL, Bool.and_eq_true] at hv
    simp only [bytesOKL, Bool.and_eq_true] at hb
    cases hg : isGroup t
    · -- an ordinary field
      cases keys with
      | nil => rw [WFjsonF_nil_cons] at h; exact absurd h Bool.false_ne_true
      | cons k keys =>
        rw [WFjsonF_plain _ _ _ _ hg] at h
        simp only [Bool.and_eq_true] at h
        obtain ⟨j, hj, hgj⟩ := rt_json O t h.1 v hv.1 hb.1
        obtain ⟨kvs, hto, hkeys, hfrom⟩ := rt_jsonF O ts keys h.2 vs hv.2 hb.2
        refine ⟨(k, j) :: kvs, by rw [toJsonF_plain _ _ _ _ _ _ hg]; simp only [hto, hj], by simp [hkeys], ?_⟩
        intro d hd
        rw [fromJsonF_plain O _ _ _ _ _ hg]
        simp only [getItem, hd (k, j) (List.mem_cons_self), hgj, hfrom d (fun kj hkj => hd kj (List.mem_cons_of_mem _ hkj))]
    · cases t <;> simp only [isGroup, Bool.false_eq_true] at hg
      case optpair a b =>
        match keys, h with
        | [], h => simp [WFjsonF] at h
        | [_], h => simp [WFjsonF, WFjson] at h
        | k1 :: k2 :: keys, h =>
          simp only [WFjsonF, Bool.and_eq_true, Bool.not_eq_true'] at h
          obtain ⟨⟨⟨⟨ha0, ha⟩, hb0⟩, hb'⟩, hrest⟩ := h
          simp only [WF] at hv
          obtain ⟨x, y, rfl, hx, hy⟩ := wfOptPair_iff.mp hv.1
          simp only [bytesOK, bytesOKL, Bool.and_eq_true, Bool.and_true] at hb
          obtain ⟨jx, hjx, hgx⟩ := rt_option (rt_json O a ha) (nonNull_json a ha0) x hx hb.1.1
          obtain ⟨jy, hjy, hgy⟩ := rt_option (rt_json O b hb') (nonNull_json b hb0) y hy hb.1.2
          obtain ⟨kvs, hto, hkeys, hfrom⟩ := rt_jsonF O ts keys hrest vs hv.2 hb.2
          refine ⟨(k1, jx) :: (k2, jy) :: kvs, by simp only [toJsonF, hto, hjx, hjy], by simp [hkeys], ?_⟩
          intro d hd
          have h1 := hd (k1, jx) (List.mem_cons_self)
          have h2 := hd (k2, jy) (List.mem_cons_of_mem _ List.mem_cons_self)
          have h3 := hfrom d (fun kj hkj => hd kj (List.mem_cons_of_mem _ (List.mem_cons_of_mem _ hkj)))
          simp only [fromJsonF, getItem, h1, h2, hgx, hgy, h3]
      case genTail p =>
        match keys, h with
        | [], h => simp [WFjsonF] at h
        | [_], h => simp [WFjsonF, WFjson] at h
        | [_, _], h => simp [WFjsonF, WFjson] at h
        | [_, _, _], h => simp [WFjsonF, WFjson] at h
        | k1 :: k2 :: k3 :: k4 :: keys, h =>
          simp only [WFjsonF] at h
          simp only [WF] at hv
          obtain ⟨gs, kvg, rfl, htog, hkeysg, hfromg⟩ := genTail_rt O k1 k2 k3 k4 p v hv.1 hb.1
          obtain ⟨kvs, hto, hkeys, hfrom⟩ := rt_jsonF O ts keys h vs hv.2 hb.2
          refine ⟨kvg ++ kvs, by simp only [toJsonF, hto, htog], by simp [hkeysg, hkeys], ?_⟩
          intro d hd
          have h1 := hfromg d (fun kj hkj => hd kj (List.mem_append_left _ hkj))
          have h3 := hfrom d (fun kj hkj => hd kj (List.mem_append_right _ hkj))
          simp only [fromJsonF, h1, h3]
end

end ChiaModel.JsonDict
