import ChiaModel.Lemmas.BlobLH
/-
C18: grafting a new subtree `N` (under a new internal node `ni`) next to the leaf at index `idx` —
the common core of `insert_third_or_later` and of `insert_subtree_at_key` (batch insert).
-/
namespace ChiaModel.Blob
open List

namespace IT

def joinI (side : Side) (ni : Nat) (N old : IT) : IT :=
  match side with
  | .left => node ni N old
  | .right => node ni old N

/-- replace the leaf with index `idx` by `node ni (N, that leaf)` -/
def graft (idx ni : Nat) (side : Side) (N : IT) : IT → IT
  | leaf i k v h => if i = idx then joinI side ni N (leaf i k v h) else leaf i k v h
  | node i l r => node i (graft idx ni side N l) (graft idx ni side N r)

theorem joinI_idx (side : Side) (ni : Nat) (N old : IT) : (joinI side ni N old).idx = ni := by
  cases side <;> rfl

theorem graft_not_mem (idx ni : Nat) (side : Side) (N : IT) (t : IT) (h : idx ∉ t.indices) :
    graft idx ni side N t = t := by
  induction t with
  | leaf i k v hh =>
    simp only [indices, List.mem_singleton] at h
    simp only [graft]
    rw [if_neg (fun e : i = idx => h e.symm)]
  | node i l r ihl ihr =>
    simp only [indices, List.mem_cons, List.mem_append, not_or] at h
    simp only [graft, ihl h.2.1, ihr h.2.2]

/-- the root index of a grafted subtree -/
theorem graft_idx (idx ni : Nat) (side : Side) (N : IT) (t : IT) :
    (graft idx ni side N t).idx = (match t with
      | leaf i _ _ _ => if i = idx then ni else i
      | node i _ _ => i) := by
  cases t with
  | leaf i k v hh =>
    simp only [graft]
    split
    · exact joinI_idx _ _ _ _
    · rfl
  | node i l r => rfl

theorem joinI_leaves (side : Side) (ni : Nat) (N old : IT) : (joinI side ni N old).leaves ~ N.leaves ++ old.leaves := by
  cases side
  · exact List.Perm.refl _
  · exact List.perm_append_comm

theorem joinI_indices (side : Side) (ni : Nat) (N old : IT) :
    (joinI side ni N old).indices ~ ni :: (N.indices ++ old.indices) := by
  cases side
  · exact List.Perm.refl _
  · exact List.Perm.cons _ List.perm_append_comm

theorem joinI_erase (side : Side) (ni : Nat) (N old : IT) :
    (joinI side ni N old).erase = T.join side N.erase old.erase := by
  cases side <;> rfl

/-- leaves after grafting at a leaf index that occurs exactly once -/
theorem graft_leaves (idx ni : Nat) (side : Side) (N : IT) (t : IT) (hn : t.indices.Nodup)
    (hm : ∃ e, e ∈ t.leaves ∧ e.1 = idx) : (graft idx ni side N t).leaves ~ N.leaves ++ t.leaves := by
  induction t with
  | leaf i k v hh =>
    obtain ⟨e, he, hei⟩ := hm
    simp only [leaves, List.mem_singleton] at he
    subst he
    simp only at hei
    simp only [graft, if_pos hei]
    exact joinI_leaves _ _ _ _
  | node i l r ihl ihr =>
    simp only [indices, List.nodup_cons] at hn
    obtain ⟨hl, hr, hd⟩ := T.nodup_append' hn.2
    obtain ⟨e, he, hei⟩ := hm
    simp only [leaves, List.mem_append] at he
    simp only [graft, leaves]
    rcases he with he | he
    · have : idx ∉ r.indices := fun h' => hd idx (hei ▸ l.leaf_idx_mem e he) h'
      rw [graft_not_mem idx ni side N r this, ← List.append_assoc]
      exact List.Perm.append_right _ (ihl hl ⟨e, he, hei⟩)
    · have : idx ∉ l.indices := fun h' => hd idx h' (hei ▸ r.leaf_idx_mem e he)
      rw [graft_not_mem idx ni side N l this]
      exact (List.Perm.append_left _ (ihr hr ⟨e, he, hei⟩)).trans (T.perm_mid _ _ _)

theorem graft_indices (idx ni : Nat) (side : Side) (N : IT) (t : IT) (hn : t.indices.Nodup)
    (hm : ∃ e, e ∈ t.leaves ∧ e.1 = idx) :
    (graft idx ni side N t).indices ~ ni :: (N.indices ++ t.indices) := by
  induction t with
  | leaf i k v hh =>
    obtain ⟨e, he, hei⟩ := hm
    simp only [leaves, List.mem_singleton] at he
    subst he
    simp only at hei
    simp only [graft, if_pos hei]
    exact joinI_indices _ _ _ _
  | node i l r ihl ihr =>
    simp only [indices, List.nodup_cons] at hn
    obtain ⟨hl, hr, hd⟩ := T.nodup_append' hn.2
    obtain ⟨e, he, hei⟩ := hm
    simp only [leaves, List.mem_append] at he
    simp only [graft, indices]
    rcases he with he | he
    · have : idx ∉ r.indices := fun h' => hd idx (hei ▸ l.leaf_idx_mem e he) h'
      rw [graft_not_mem idx ni side N r this]
      have p1 := ihl hl ⟨e, he, hei⟩
      -- i :: ((ni :: N ++ l) ++ r) ~ ni :: (N ++ i :: (l ++ r))
      refine (List.Perm.cons i (List.Perm.append_right _ p1)).trans ?_
      simp only [List.cons_append, List.append_assoc]
      refine (List.Perm.swap ni i _).trans (List.Perm.cons ni ?_)
      exact List.perm_middle.symm
    · have : idx ∉ l.indices := fun h' => hd idx h' (hei ▸ r.leaf_idx_mem e he)
      rw [graft_not_mem idx ni side N l this]
      have p1 := ihr hr ⟨e, he, hei⟩
      refine (List.Perm.cons i (List.Perm.append_left _ p1)).trans ?_
      -- i :: (l ++ ni :: (N ++ r)) ~ ni :: (N ++ i :: (l ++ r))
      refine (List.Perm.cons i List.perm_middle).trans ?_
      refine (List.Perm.swap ni i _).trans (List.Perm.cons ni ?_)
      refine (List.Perm.cons i (T.perm_mid _ _ _)).trans ?_
      exact List.perm_middle.symm

/-- erasing the indexes: grafting at the leaf of key `key` is `mapLeaf key (join side N)` -/
theorem graft_erase (idx ni : Nat) (side : Side) (N : IT) (key : KeyId) (t : IT)
    (hkey : ∀ e ∈ t.leaves, (e.2.1 = key ↔ e.1 = idx)) :
    (graft idx ni side N t).erase = t.erase.mapLeaf key (T.join side N.erase) := by
  induction t with
  | leaf i k v hh =>
    have := hkey (i, k, v, hh) (by simp [leaves])
    simp only at this
    simp only [graft, erase, T.mapLeaf]
    by_cases h : i = idx
    · rw [if_pos h, if_pos (this.mpr h), joinI_erase]; rfl
    · rw [if_neg h, if_neg (fun e => h (this.mp e))]; rfl
  | node i l r ihl ihr =>
    simp only [graft, erase, T.mapLeaf]
    rw [ihl (fun e he => hkey e (by simp [leaves, he])), ihr (fun e he => hkey e (by simp [leaves, he]))]

end IT

theorem IT.graft_idx_ne (idx ni : Nat) (side : Side) (N : IT) (c : IT) (h : c.idx ≠ idx) :
    (IT.graft idx ni side N c).idx = c.idx := by
  rw [IT.graft_idx]
  cases c with
  | leaf i k v hh => simp only [IT.idx] at h; simp only [IT.idx]; rw [if_neg h]
  | node i l r => rfl

/-- left / right child of the new internal node: the new subtree goes to `side` -/
def sideL (side : Side) (new old : Nat) : Nat := match side with | .left => new | .right => old
def sideR (side : Side) (new old : Nat) : Nat := match side with | .left => old | .right => new

/-- everything the graft proof needs to know about the state `T` reached from `s` -/
structure GraftPost (s T : Blob) (t N : IT) (idx ni opi : Nat) (side : Side)
    (oh : Hash) (ok : KeyId) (ov : ValueId) (pp : Option Nat) (pl pr pl' pr' : Nat) : Prop where
  good : Good s t
  leafMem : (idx, ok, ov, oh) ∈ t.leaves
  leafB : s.blocks[idx]? = some { dirty := false, node := .leaf oh (some opi) ok ov }
  par : ∃ d hh, s.blocks[opi]? = some { dirty := d, node := .internal hh pp pl pr }
  pkids : (idx = pl ∧ pl' = ni ∧ pr' = pr) ∨ (idx = pr ∧ idx ≠ pl ∧ pl' = pl ∧ pr' = ni)
  niNew : ni ∉ t.indices
  nNew : ∀ j ∈ N.indices, j ∉ t.indices
  niN : ni ∉ N.indices
  nNodup : N.indices.Nodup
  repN : Rep T.blocks (some ni) N
  bNi : ∃ d hh, T.blocks[ni]? =
    some { dirty := d, node := Node.internal hh (some opi) (sideL side N.idx idx) (sideR side N.idx idx) }
  bIdx : T.blocks[idx]? = some { dirty := false, node := .leaf oh (some ni) ok ov }
  bOpi : ∃ d hh, T.blocks[opi]? = some { dirty := d, node := .internal hh pp pl' pr' }
  bOther : ∀ j ∈ t.indices, j ≠ idx → j ≠ opi → T.blocks[j]? = s.blocks[j]?
  lenLe : s.blocks.length ≤ T.blocks.length
  newIdx : ∀ j, s.blocks.length ≤ j → j < T.blocks.length → j = ni ∨ j ∈ N.indices
  free : ∀ j, j ∈ T.free ↔ (j ∈ s.free ∧ j ≠ ni ∧ j ∉ N.indices)
  freeNodup : T.free.Nodup
  k2i : T.k2i ~ N.leaves.map (fun e => (e.2.1, e.1)) ++ s.k2i
  h2i : T.h2i ~ N.leaves.map (fun e => (e.2.2.2, e.1)) ++ s.h2i
  keys : (N.leaves.map (·.2.1) ++ t.leaves.map (·.2.1)).Nodup
  hashes : (N.leaves.map (·.2.2.2) ++ t.leaves.map (·.2.2.2)).Nodup
  range : RangeP T

namespace GraftPost

variable {s T : Blob} {t N : IT} {idx ni opi : Nat} {side : Side} {oh : Hash} {ok : KeyId} {ov : ValueId}
  {pp : Option Nat} {pl pr pl' pr' : Nat}

theorem idxMem (P : GraftPost s T t N idx ni opi side oh ok ov pp pl pr pl' pr') : idx ∈ t.indices :=
  t.leaf_idx_mem _ P.leafMem

theorem opiFacts (P : GraftPost s T t N idx ni opi side oh ok ov pp pl pr pl' pr') :
    opi ∈ t.indices ∧ pl ≠ pr := by
  have hlinv := P.good.linv
  have hlive := (P.good.live_iff idx).mpr P.idxMem
  obtain ⟨hof, d', ph, pp2, pl2, pr2, hpb, _⟩ := hlinv.parent_of hlive.2 P.leafB rfl
  obtain ⟨d, hh, hb⟩ := P.par
  rw [hb] at hpb
  injection hpb with hpb; injection hpb with _ hn; injection hn with _ _ e3 e4
  subst e3; subst e4
  have hopl : opi < s.blocks.length := (List.getElem?_eq_some_iff.mp hb).1
  obtain ⟨_, _, _, _, hne, _, _⟩ := hlinv.children' hof hb
  exact ⟨(P.good.live_iff opi).mp ⟨hopl, hof⟩, hne⟩

/-- the represented tree after the graft -/
theorem rep (P : GraftPost s T t N idx ni opi side oh ok ov pp pl pr pl' pr') :
    ∀ (c : IT) (p : Option Nat), Rep s.blocks p c → (∀ j ∈ c.indices, j ∈ t.indices) →
      Rep T.blocks p (IT.graft idx ni side N c) := by
  obtain ⟨dO, hhO, hparB⟩ := P.par
  intro c
  induction c with
  | leaf i k v hh =>
    intro p hr hsub
    simp only [Rep] at hr
    simp only [IT.graft]
    by_cases hi : i = idx
    · rw [if_pos hi]
      subst hi
      rw [P.leafB] at hr
      injection hr with hr; injection hr with _ hn; injection hn with e1 e2 e3 e4
      subst e1; subst e2; subst e3; subst e4
      obtain ⟨dn, hhn, hbn⟩ := P.bNi
      cases side with
      | left =>
        simp only [IT.joinI, Rep]
        exact ⟨⟨dn, hhn, hbn⟩, P.repN, P.bIdx⟩
      | right =>
        simp only [IT.joinI, Rep]
        exact ⟨⟨dn, hhn, hbn⟩, P.bIdx, P.repN⟩
    · rw [if_neg hi]
      simp only [Rep]
      have hio : i ≠ opi := by
        intro e; rw [e, hparB] at hr; injection hr with hr; injection hr with _ hn; cases hn
      rw [P.bOther i (hsub i (by simp [IT.indices])) hi hio]; exact hr
  | node i l r ihl ihr =>
    intro p hr hsub
    simp only [Rep] at hr
    obtain ⟨⟨d, hh, hb⟩, hl, hr'⟩ := hr
    have hii : i ≠ idx := by
      intro e; rw [e, P.leafB] at hb; injection hb with hb; injection hb with _ hn; cases hn
    simp only [IT.graft, Rep]
    refine ⟨?_, ihl _ hl (fun j hj => hsub j (by simp [IT.indices, hj])),
      ihr _ hr' (fun j hj => hsub j (by simp [IT.indices, hj]))⟩
    by_cases hio : i = opi
    · subst hio
      rw [hparB] at hb
      injection hb with hb; injection hb with _ hn; injection hn with _ e2 e3 e4
      subst e2
      obtain ⟨dT, hhT, hbT⟩ := P.bOpi
      refine ⟨dT, hhT, ?_⟩
      rw [hbT]
      -- a child with index idx is the leaf itself
      have isLeaf : ∀ c : IT, Rep s.blocks (some i) c → c.idx = idx →
          (IT.graft idx ni side N c).idx = ni := by
        intro c hc hci
        cases c with
        | leaf j k v h' =>
          simp only [IT.idx] at hci
          simp only [IT.graft, if_pos hci, IT.joinI_idx]
        | node j a b =>
          simp only [Rep] at hc
          obtain ⟨⟨d2, h2, hb2⟩, _, _⟩ := hc
          simp only [IT.idx] at hci
          rw [hci, P.leafB] at hb2
          injection hb2 with hb2; injection hb2 with _ hn; cases hn
      have hne := P.opiFacts.2
      rcases P.pkids with ⟨a1, a2, a3⟩ | ⟨a1, a1', a2, a3⟩
      · have hl1 : (IT.graft idx ni side N l).idx = ni := isLeaf l hl (by rw [← e3]; exact a1.symm)
        have hr1 : (IT.graft idx ni side N r).idx = r.idx :=
          IT.graft_idx_ne _ _ _ _ _ (by rw [← e4]; intro e; exact hne (a1.symm.trans e.symm))
        rw [hl1, hr1, a2, a3, e4]
      · have hl1 : (IT.graft idx ni side N l).idx = l.idx :=
          IT.graft_idx_ne _ _ _ _ _ (by rw [← e3]; exact fun e => a1' e.symm)
        have hr1 : (IT.graft idx ni side N r).idx = ni := isLeaf r hr' (by rw [← e4]; exact a1.symm)
        rw [hl1, hr1, a2, a3, e3]
    · refine ⟨d, hh, ?_⟩
      rw [P.bOther i (hsub i (by simp [IT.indices])) hii hio]
      -- neither child is the leaf idx, whose parent is opi
      have notIdx : ∀ c : IT, Rep s.blocks (some i) c → c.idx ≠ idx := by
        intro c hc e
        have := hc.root_parent
        rw [e] at this
        simp only [parentOfL, P.leafB, Node.parent, Option.some.injEq] at this
        exact hio this.symm
      rw [IT.graft_idx_ne _ _ _ _ _ (notIdx l hl), IT.graft_idx_ne _ _ _ _ _ (notIdx r hr')]
      exact hb

/-- **the blob after the graft stores the grafted tree** -/
theorem good_after (P : GraftPost s T t N idx ni opi side oh ok ov pp pl pr pl' pr') :
    Good T (IT.graft idx ni side N t) := by
  have hm : ∃ e, e ∈ t.leaves ∧ e.1 = idx := ⟨_, P.leafMem, rfl⟩
  have pidx := IT.graft_indices idx ni side N t P.good.nodup hm
  have plv := IT.graft_leaves idx ni side N t P.good.nodup hm
  have hidx0 : idx ≠ 0 ∨ True := Or.inr trivial
  refine ⟨P.rep t none P.good.rep (fun _ h => h), ?_, ?_, P.freeNodup, ?_, ?_, ?_, ?_, ?_, P.range⟩
  · -- root index: the root is not the leaf idx (idx has a parent)
    have : t.idx ≠ idx := by
      intro e
      have := P.good.rep.root_parent
      rw [e] at this
      simp [parentOfL, P.leafB, Node.parent] at this
    rw [IT.graft_idx_ne _ _ _ _ _ this]; exact P.good.root
  · refine pidx.nodup_iff.mpr ?_
    refine List.nodup_cons.mpr ⟨?_, ?_⟩
    · intro h
      rcases List.mem_append.mp h with h | h
      · exact P.niN h
      · exact P.niNew h
    · rw [List.nodup_append]
      exact ⟨P.nNodup, P.good.nodup, fun a ha b hb hab => P.nNew a ha (hab ▸ hb)⟩
  · intro j
    rw [P.free j, P.good.free j]
    constructor
    · rintro ⟨⟨h1, h2⟩, h3, h4⟩
      refine ⟨Nat.lt_of_lt_of_le h1 P.lenLe, fun hm' => ?_⟩
      rcases List.mem_cons.mp (pidx.mem_iff.mp hm') with e | e
      · exact h3 e
      · rcases List.mem_append.mp e with e | e
        · exact h4 e
        · exact h2 e
    · rintro ⟨h1, h2⟩
      have n1 : j ≠ ni := fun e => h2 (pidx.mem_iff.mpr (by rw [e]; simp))
      have n2 : j ∉ N.indices := fun e => h2 (pidx.mem_iff.mpr (by simp [e]))
      have n3 : j ∉ t.indices := fun e => h2 (pidx.mem_iff.mpr (by simp [e]))
      refine ⟨⟨?_, n3⟩, n1, n2⟩
      cases Nat.lt_or_ge j s.blocks.length with
      | inl h => exact h
      | inr h =>
        rcases P.newIdx j h h1 with e | e
        · exact absurd e n1
        · exact absurd e n2
  · refine P.k2i.trans ?_
    refine (List.Perm.append_left _ P.good.k2i).trans ?_
    rw [← List.map_append]
    exact (plv.map _).symm
  · refine P.h2i.trans ?_
    refine (List.Perm.append_left _ P.good.h2i).trans ?_
    rw [← List.map_append]
    exact (plv.map _).symm
  · refine ((plv.map (·.2.1)).nodup_iff).mpr ?_
    rw [List.map_append]; exact P.keys
  · refine ((plv.map (·.2.2.2)).nodup_iff).mpr ?_
    rw [List.map_append]; exact P.hashes

end GraftPost

/-! ### the hash invariant across a graft -/

/-- after the structural writes of a graft the local hash invariant holds except at the old parent
`opi` of the leaf (whose child changed) -/
theorem graft_LH {bl bl' : List Block} {N : IT} {idx ni opi : Nat} {side : Side}
    (hleaf : ∃ d h q k v, bl[idx]? = some { dirty := d, node := .leaf h q k v })
    (hpar : parentOfL bl idx = some opi) (hno : ni ≠ opi)
    (hidx : dirtyB bl' idx = false) (hN : LH bl' none N) (hNc : dirtyB bl' N.idx = false)
    (hni : hashB bl' ni = internalHash (hashB bl' (sideL side N.idx idx)) (hashB bl' (sideR side N.idx idx)))
    (t : IT) : ∀ (pp : Option Nat), Rep bl pp t → LH bl none t →
    (∀ j ∈ t.indices, j ≠ idx → dirtyB bl' j = dirtyB bl j ∧ hashB bl' j = hashB bl j) →
    LH bl' (some opi) (IT.graft idx ni side N t) := by
  induction t with
  | leaf i k v h =>
    intro pp _ _ _
    simp only [IT.graft]
    by_cases hi : i = idx
    · rw [if_pos hi]
      subst hi
      cases side with
      | left =>
        refine ⟨hN.weaken _, trivial, ?_⟩
        intro _ _
        exact ⟨hNc, hidx, hni⟩
      | right =>
        refine ⟨trivial, hN.weaken _, ?_⟩
        intro _ _
        exact ⟨hidx, hNc, hni⟩
    · rw [if_neg hi]; trivial
  | node i l r ihl ihr =>
    intro pp hrep hl same
    simp only [Rep] at hrep
    obtain ⟨⟨d, hh, hb⟩, rl, rr⟩ := hrep
    obtain ⟨ll, lr, c⟩ := hl
    simp only [IT.graft]
    refine ⟨ihl _ rl ll (fun j hj => same j (by simp [IT.indices, hj])),
      ihr _ rr lr (fun j hj => same j (by simp [IT.indices, hj])), ?_⟩
    intro hne hd
    have hio : i ≠ opi := fun e => hne (by rw [e])
    have hli : l.idx ≠ idx := by
      intro e
      have := rl.root_parent
      rw [e, hpar] at this
      exact hio (by injection this with this; exact this.symm)
    have hri : r.idx ≠ idx := by
      intro e
      have := rr.root_parent
      rw [e, hpar] at this
      exact hio (by injection this with this; exact this.symm)
    have hii : i ≠ idx := by
      intro e
      obtain ⟨d', h', q', k', v', hlb⟩ := hleaf
      rw [e, hlb] at hb
      injection hb with hb; injection hb with _ hn; cases hn
    rw [IT.graft_idx_ne _ _ _ _ _ hli, IT.graft_idx_ne _ _ _ _ _ hri]
    have si := same i (by simp [IT.indices]) hii
    have sl := same l.idx (by simp [IT.indices, l.idx_mem]) hli
    have sr := same r.idx (by simp [IT.indices, r.idx_mem]) hri
    rw [si.1] at hd
    rw [sl.1, sr.1, si.2, sl.2, sr.2]
    exact c (by simp) hd

end ChiaModel.Blob
