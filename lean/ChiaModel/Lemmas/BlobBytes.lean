import ChiaModel.Lemmas.Ints
import ChiaModel.Model.Blob
/-
C18: the block byte format round-trips (`Block::from_bytes (Block::to_bytes b) = b`), and the blob
bytes split back into the blocks.
-/
namespace ChiaModel.Blob
open List

def ParentOk : Option Nat → Prop
  | none => True
  | some p => p < 256 ^ 4

/-- what the byte format can hold: 32-byte hash, u32 indexes, 64-bit key and value patterns -/
def NodeOk : Node → Prop
  | .internal h p l r => h.length = 32 ∧ ParentOk p ∧ l < 256 ^ 4 ∧ r < 256 ^ 4
  | .leaf h p k v => h.length = 32 ∧ ParentOk p ∧ k < 256 ^ 8 ∧ v < 256 ^ 8

def BlockOk (b : Block) : Prop := NodeOk b.node

instance : DecidablePred ParentOk := fun p => by unfold ParentOk; split <;> infer_instance
instance : DecidablePred NodeOk := fun n => by unfold NodeOk; split <;> infer_instance
instance : DecidablePred BlockOk := fun b => by unfold BlockOk; infer_instance

theorem encParent_length_le (p : Option Nat) : (encParent p).length ≤ 5 := by
  cases p <;> simp [encParent, be_length]

theorem decParent_enc (p : Option Nat) (hp : ParentOk p) (rest : Bytes) :
    decParent (encParent p ++ rest) = some (p, rest) := by
  cases p with
  | none => rfl
  | some q =>
    simp only [encParent, List.cons_append, decParent]
    have hl : (be 4 q).length = 4 := be_length 4 q
    rw [if_neg (by simp [hl])]
    rw [List.take_left' hl, List.drop_left' hl, beVal_be 4 q hp]

theorem zeros_length (n : Nat) : (zeros n).length = n := by simp [zeros]

theorem encNode_length (n : Node) (hn : NodeOk n) : (encNode n).length ≤ dataSize := by
  cases n with
  | internal h p l r =>
    have := encParent_length_le p
    simp only [encNode, List.length_append, be_length, hn.1, dataSize]; omega
  | leaf h p k v =>
    have := encParent_length_le p
    simp only [encNode, List.length_append, be_length, hn.1, dataSize]; omega

theorem padTo_length (n : Nat) (b : Bytes) (h : b.length ≤ n) : (padTo n b).length = n := by
  simp only [padTo, List.length_append, zeros_length]; omega

theorem encBlock_length (b : Block) (hb : BlockOk b) : (encBlock b).length = blockSize := by
  have := padTo_length _ _ (encNode_length b.node hb)
  simp only [encBlock, List.length_append, List.length_cons, List.length_nil, this]
  rfl

/-- `Block::from_bytes (Block::to_bytes b) = b` -/
theorem decBlock_encBlock (b : Block) (hb : BlockOk b) : decBlock (encBlock b) = some b := by
  obtain ⟨dirty, node⟩ := b
  have hlen := padTo_length _ _ (encNode_length node hb)
  cases node with
  | internal h p l r =>
    obtain ⟨hh, hp, hl, hr⟩ := hb
    have e : padTo dataSize (encNode (.internal h p l r))
        = h ++ (encParent p ++ (be 4 l ++ (be 4 r ++ zeros (dataSize - (encNode (.internal h p l r)).length)))) := by
      simp only [padTo, encNode, List.append_assoc]
    simp only [encBlock, Node.isLeaf, List.cons_append, List.nil_append, decBlock]
    rw [if_neg (by simpa using hlen)]
    have hd : (if (if dirty = true then 1 else 0) = 0 then some false
        else if (if dirty = true then 1 else 0) = 1 then some true else none) = some dirty := by
      cases dirty <;> simp
    rw [e] at hlen ⊢
    simp only [Bool.false_eq_true, if_false, hd, List.take_left' hh, List.drop_left' hh, decParent_enc p hp, if_true]
    have h4l : (be 4 l).length = 4 := be_length 4 l
    have h4r : (be 4 r).length = 4 := be_length 4 r
    rw [List.take_left' h4l, List.drop_left' h4l, List.take_left' h4r, beVal_be 4 l hl, beVal_be 4 r hr]
    split
    · rename_i hc; simp only [List.length_append, h4l, h4r] at hc; omega
    · rfl
  | leaf h p k v =>
    obtain ⟨hh, hp, hk, hv⟩ := hb
    have e : padTo dataSize (encNode (.leaf h p k v))
        = h ++ (encParent p ++ (be 8 k ++ (be 8 v ++ zeros (dataSize - (encNode (.leaf h p k v)).length)))) := by
      simp only [padTo, encNode, List.append_assoc]
    simp only [encBlock, Node.isLeaf, List.cons_append, List.nil_append, decBlock]
    rw [if_neg (by simpa using hlen)]
    have hd : (if (if dirty = true then 1 else 0) = 0 then some false
        else if (if dirty = true then 1 else 0) = 1 then some true else none) = some dirty := by
      cases dirty <;> simp
    rw [e] at hlen ⊢
    simp only [if_true, hd, List.take_left' hh, List.drop_left' hh, decParent_enc p hp]
    have h8k : (be 8 k).length = 8 := be_length 8 k
    have h8v : (be 8 v).length = 8 := be_length 8 v
    rw [List.take_left' h8k, List.drop_left' h8k, List.take_left' h8v, beVal_be 8 k hk, beVal_be 8 v hv]
    rw [if_neg (by decide : ¬ (1 : Nat) = 0)]
    split
    · rename_i hc; simp only [List.length_append, h8k, h8v] at hc; omega
    · rfl

theorem bytes_length (bs : List Block) (h : ∀ b ∈ bs, BlockOk b) :
    (bs.flatMap encBlock).length = blockSize * bs.length := by
  induction bs with
  | nil => rfl
  | cons b bs ih =>
    simp only [List.flatMap_cons, List.length_append, List.length_cons,
      encBlock_length b (h b (by simp)), ih (fun x hx => h x (by simp [hx]))]
    simp only [blockSize]; omega

theorem chunks_bytes (bs : List Block) (h : ∀ b ∈ bs, BlockOk b) :
    chunks blockSize bs.length (bs.flatMap encBlock) = bs.map encBlock := by
  induction bs with
  | nil => rfl
  | cons b bs ih =>
    have hl := encBlock_length b (h b (by simp))
    simp only [List.flatMap_cons, List.length_cons, chunks, List.map_cons]
    rw [if_neg]
    · rw [List.take_left' hl, List.drop_left' hl, ih (fun x hx => h x (by simp [hx]))]
    · simp only [List.isEmpty_iff, List.append_eq_nil_iff, not_and]
      intro e; rw [e] at hl; simp [blockSize] at hl

theorem decodeAll_enc (bs : List Block) (h : ∀ b ∈ bs, BlockOk b) :
    decodeAll (bs.map encBlock) = some bs := by
  induction bs with
  | nil => rfl
  | cons b bs ih =>
    simp only [List.map_cons, decodeAll, decBlock_encBlock b (h b (by simp)),
      ih (fun x hx => h x (by simp [hx]))]

/-- the serialized bytes split and decode back to the block list -/
theorem ofBytes_bytes (s : Blob) (h : ∀ b ∈ s.blocks, BlockOk b) :
    Blob.ofBytes s.bytes = ofBlocks s.blocks := by
  have hl := bytes_length s.blocks h
  simp only [Blob.ofBytes, Blob.bytes, hl]
  rw [if_neg (by simp [blockSize])]
  have : blockSize * s.blocks.length / blockSize = s.blocks.length := by
    simp [blockSize]
  rw [this, chunks_bytes s.blocks h, decodeAll_enc s.blocks h]

end ChiaModel.Blob
