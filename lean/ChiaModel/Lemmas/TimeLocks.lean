import ChiaModel.Model.TimeLocks
import ChiaModel.Lemmas.CostTable
/-
C03: the lock fields of the summary are exactly the max / min / common value of the individual
assertions, for every condition list (invariant through the condition and spend loops).
-/
namespace ChiaModel.TL
open ChiaModel ChiaModel.Cond

def hrOf : Lock → Option Nat | .heightRel v => some v | _ => none
def srOf : Lock → Option Nat | .secondsRel v => some v | _ => none
def bhrOf : Lock → Option Nat | .beforeHeightRel v => some v | _ => none
def bsrOf : Lock → Option Nat | .beforeSecondsRel v => some v | _ => none
def bhOf : Lock → Option Nat | .birthHeight v => some v | _ => none
def bsOf : Lock → Option Nat | .birthSeconds v => some v | _ => none
def haOf : Lock → Option Nat | .heightAbs v => some v | _ => none
def saOf : Lock → Option Nat | .secondsAbs v => some v | _ => none
def bhaOf : Lock → Option Nat | .beforeHeightAbs v => some v | _ => none
def bsaOf : Lock → Option Nat | .beforeSecondsAbs v => some v | _ => none

/-- `o` is the maximum of `vs` (absent iff `vs` is empty) -/
def MaxSpec (o : Option Nat) (vs : List Nat) : Prop :=
  match o with | none => vs = [] | some m => m ∈ vs ∧ ∀ v ∈ vs, v ≤ m
/-- `o` is the minimum of `vs` (absent iff `vs` is empty) -/
def MinSpec (o : Option Nat) (vs : List Nat) : Prop :=
  match o with | none => vs = [] | some m => m ∈ vs ∧ ∀ v ∈ vs, m ≤ v
/-- all of `vs` equal `o` (absent iff `vs` is empty) -/
def SameSpec (o : Option Nat) (vs : List Nat) : Prop :=
  match o with | none => vs = [] | some m => m ∈ vs ∧ ∀ v ∈ vs, v = m
/-- `m` is the maximum of `vs` with 0 as the neutral "no constraint" value -/
def AbsMaxSpec (m : Nat) (vs : List Nat) : Prop := (∀ v ∈ vs, v ≤ m) ∧ (m = 0 ∨ m ∈ vs)

theorem MaxSpec_snoc {o : Option Nat} {vs : List Nat} (v : Nat) (h : MaxSpec o vs) : MaxSpec (optMax o v) (vs ++ [v]) := by
  cases o with
  | none => simp only [MaxSpec] at h; subst h; simp [optMax, MaxSpec]
  | some m =>
    simp only [MaxSpec, optMax] at h ⊢
    refine ⟨?_, ?_⟩
    · by_cases hm : m ≤ v
      · rw [Nat.max_eq_right hm]; simp
      · rw [Nat.max_eq_left (by omega)]; simp [h.1]
    · intro x hx
      simp at hx
      rcases hx with hx | rfl
      · have := h.2 x hx; omega
      · omega

theorem MinSpec_snoc {o : Option Nat} {vs : List Nat} (v : Nat) (h : MinSpec o vs) : MinSpec (optMin o v) (vs ++ [v]) := by
  cases o with
  | none => simp only [MinSpec] at h; subst h; simp [optMin, MinSpec]
  | some m =>
    simp only [MinSpec, optMin] at h ⊢
    refine ⟨?_, ?_⟩
    · by_cases hm : m ≤ v
      · rw [Nat.min_eq_left hm]; simp [h.1]
      · rw [Nat.min_eq_right (by omega)]; simp
    · intro x hx
      simp at hx
      rcases hx with hx | rfl
      · have := h.2 x hx; omega
      · omega

theorem SameSpec_snoc {o : Option Nat} {vs : List Nat} (v : Nat) (h : SameSpec o vs) (hne : isSomeNe o v = false) :
    SameSpec (some v) (vs ++ [v]) := by
  cases o with
  | none => simp only [SameSpec] at h; subst h; simp [SameSpec]
  | some m =>
    simp only [isSomeNe, decide_eq_false_iff_not, ne_eq, Decidable.not_not] at hne
    subst hne
    simp only [SameSpec] at h ⊢
    refine ⟨by simp, ?_⟩
    intro x hx; simp at hx
    rcases hx with hx | rfl
    · exact h.2 x hx
    · rfl

theorem AbsMaxSpec_snoc {m : Nat} {vs : List Nat} (v : Nat) (h : AbsMaxSpec m vs) : AbsMaxSpec (max m v) (vs ++ [v]) := by
  obtain ⟨h1, h2⟩ := h
  refine ⟨?_, ?_⟩
  · intro x hx; simp at hx
    rcases hx with hx | rfl
    · have := h1 x hx; omega
    · omega
  · by_cases hm : m ≤ v
    · rw [Nat.max_eq_right hm]; right; simp
    · rw [Nat.max_eq_left (by omega)]
      rcases h2 with h2 | h2
      · left; exact h2
      · right; simp [h2]

structure SpendSum (sp : Spend) (ls : List Lock) : Prop where
  hr : MaxSpec sp.heightRelative (ls.filterMap hrOf)
  sr : MaxSpec sp.secondsRelative (ls.filterMap srOf)
  bhr : MinSpec sp.beforeHeightRelative (ls.filterMap bhrOf)
  bsr : MinSpec sp.beforeSecondsRelative (ls.filterMap bsrOf)
  bh : SameSpec sp.birthHeight (ls.filterMap bhOf)
  bs : SameSpec sp.birthSeconds (ls.filterMap bsOf)

structure BundleSum (b : Bundle) (ls : List Lock) : Prop where
  ha : AbsMaxSpec b.heightAbsolute (ls.filterMap haOf)
  sa : AbsMaxSpec b.secondsAbsolute (ls.filterMap saOf)
  bha : MinSpec b.beforeHeightAbsolute (ls.filterMap bhaOf)
  bsa : MinSpec b.beforeSecondsAbsolute (ls.filterMap bsaOf)

theorem SpendSum_nil (sp : Spend) (h1 : sp.heightRelative = none) (h2 : sp.secondsRelative = none)
    (h3 : sp.beforeHeightRelative = none) (h4 : sp.beforeSecondsRelative = none) (h5 : sp.birthHeight = none)
    (h6 : sp.birthSeconds = none) : SpendSum sp [] := by
  constructor <;> simp [MaxSpec, MinSpec, SameSpec, *]

theorem BundleSum_init : BundleSum {} [] := by
  constructor <;> simp [AbsMaxSpec, MinSpec]

/-- the lock-relevant fields -/
def SpendLockEq (a b : Spend) : Prop :=
  a.heightRelative = b.heightRelative ∧ a.secondsRelative = b.secondsRelative ∧
  a.beforeHeightRelative = b.beforeHeightRelative ∧ a.beforeSecondsRelative = b.beforeSecondsRelative ∧
  a.birthHeight = b.birthHeight ∧ a.birthSeconds = b.birthSeconds

def BundleLockEq (a b : Bundle) : Prop :=
  a.heightAbsolute = b.heightAbsolute ∧ a.secondsAbsolute = b.secondsAbsolute ∧
  a.beforeHeightAbsolute = b.beforeHeightAbsolute ∧ a.beforeSecondsAbsolute = b.beforeSecondsAbsolute

theorem SpendSum_congr {a b : Spend} {ls : List Lock} (h : SpendLockEq a b) (hs : SpendSum b ls) : SpendSum a ls := by
  obtain ⟨e1, e2, e3, e4, e5, e6⟩ := h
  obtain ⟨s1, s2, s3, s4, s5, s6⟩ := hs
  constructor <;> simp only [e1, e2, e3, e4, e5, e6] <;> assumption

theorem BundleSum_congr {a b : Bundle} {ls : List Lock} (h : BundleLockEq a b) (hs : BundleSum b ls) : BundleSum a ls := by
  obtain ⟨e1, e2, e3, e4⟩ := h
  obtain ⟨s1, s2, s3, s4⟩ := hs
  constructor <;> simp only [e1, e2, e3, e4] <;> assumption

@[simp] theorem ane_hr (s : CSt) : (assertNotEphemeral s).spend.heightRelative = s.spend.heightRelative := by
  unfold assertNotEphemeral; split <;> rfl
@[simp] theorem ane_sr (s : CSt) : (assertNotEphemeral s).spend.secondsRelative = s.spend.secondsRelative := by
  unfold assertNotEphemeral; split <;> rfl
@[simp] theorem ane_bhr (s : CSt) : (assertNotEphemeral s).spend.beforeHeightRelative = s.spend.beforeHeightRelative := by
  unfold assertNotEphemeral; split <;> rfl
@[simp] theorem ane_bsr (s : CSt) : (assertNotEphemeral s).spend.beforeSecondsRelative = s.spend.beforeSecondsRelative := by
  unfold assertNotEphemeral; split <;> rfl
@[simp] theorem ane_bh (s : CSt) : (assertNotEphemeral s).spend.birthHeight = s.spend.birthHeight := by
  unfold assertNotEphemeral; split <;> rfl
@[simp] theorem ane_bs (s : CSt) : (assertNotEphemeral s).spend.birthSeconds = s.spend.birthSeconds := by
  unfold assertNotEphemeral; split <;> rfl

end ChiaModel.TL

namespace ChiaModel.TL
open ChiaModel ChiaModel.Cond

theorem filterMap_snoc_none {α β : Type} (f : α → Option β) (l : List α) (a : α) (h : f a = none) :
    (l ++ [a]).filterMap f = l.filterMap f := by simp [List.filterMap_append, h]

theorem filterMap_snoc_some {α β : Type} (f : α → Option β) (l : List α) (a : α) (b : β) (h : f a = some b) :
    (l ++ [a]).filterMap f = l.filterMap f ++ [b] := by simp [List.filterMap_append, h]

/-- One accepted condition extends the lock summary by exactly its own lock (if it carries one). -/
theorem applyCond_locks (env : Env) (s s' : CSt) (c : Cond) (ls bl : List Lock)
    (h : applyCond env s c = .ok s') (hs : SpendSum s.spend ls) (hb : BundleSum s.ret bl) :
    SpendSum s'.spend (ls ++ (lockOf c).toList) ∧ BundleSum s'.ret (bl ++ (lockOf c).toList) := by
  obtain ⟨s1, s2, s3, s4, s5, s6⟩ := hs
  obtain ⟨b1, b2, b3, b4⟩ := hb
  cases c <;> simp only [applyCond] at h
  case assertHeightRelative v =>
    split at h
    · cases h
    injection h with h; subst h
    simp only [lockOf, Option.toList]
    refine ⟨?_, ?_⟩
    · constructor <;> simp only [ane_hr, ane_sr, ane_bhr, ane_bsr, ane_bh, ane_bs]
      · rw [filterMap_snoc_some hrOf _ _ v rfl]; exact MaxSpec_snoc v s1
      · rw [filterMap_snoc_none srOf _ _ rfl]; exact s2
      · rw [filterMap_snoc_none bhrOf _ _ rfl]; exact s3
      · rw [filterMap_snoc_none bsrOf _ _ rfl]; exact s4
      · rw [filterMap_snoc_none bhOf _ _ rfl]; exact s5
      · rw [filterMap_snoc_none bsOf _ _ rfl]; exact s6
    · rw [assertNotEphemeral_ret]
      constructor
      · rw [filterMap_snoc_none haOf _ _ rfl]; exact b1
      · rw [filterMap_snoc_none saOf _ _ rfl]; exact b2
      · rw [filterMap_snoc_none bhaOf _ _ rfl]; exact b3
      · rw [filterMap_snoc_none bsaOf _ _ rfl]; exact b4
  case assertSecondsRelative v =>
    split at h
    · cases h
    injection h with h; subst h
    simp only [lockOf, Option.toList]
    refine ⟨?_, ?_⟩
    · constructor <;> simp only [ane_hr, ane_sr, ane_bhr, ane_bsr, ane_bh, ane_bs]
      · rw [filterMap_snoc_none hrOf _ _ rfl]; exact s1
      · rw [filterMap_snoc_some srOf _ _ v rfl]; exact MaxSpec_snoc v s2
      · rw [filterMap_snoc_none bhrOf _ _ rfl]; exact s3
      · rw [filterMap_snoc_none bsrOf _ _ rfl]; exact s4
      · rw [filterMap_snoc_none bhOf _ _ rfl]; exact s5
      · rw [filterMap_snoc_none bsOf _ _ rfl]; exact s6
    · rw [assertNotEphemeral_ret]
      constructor
      · rw [filterMap_snoc_none haOf _ _ rfl]; exact b1
      · rw [filterMap_snoc_none saOf _ _ rfl]; exact b2
      · rw [filterMap_snoc_none bhaOf _ _ rfl]; exact b3
      · rw [filterMap_snoc_none bsaOf _ _ rfl]; exact b4
  case assertBeforeHeightRelative v =>
    split at h
    · cases h
    injection h with h; subst h
    simp only [lockOf, Option.toList]
    refine ⟨?_, ?_⟩
    · constructor <;> simp only [ane_hr, ane_sr, ane_bhr, ane_bsr, ane_bh, ane_bs]
      · rw [filterMap_snoc_none hrOf _ _ rfl]; exact s1
      · rw [filterMap_snoc_none srOf _ _ rfl]; exact s2
      · rw [filterMap_snoc_some bhrOf _ _ v rfl]; exact MinSpec_snoc v s3
      · rw [filterMap_snoc_none bsrOf _ _ rfl]; exact s4
      · rw [filterMap_snoc_none bhOf _ _ rfl]; exact s5
      · rw [filterMap_snoc_none bsOf _ _ rfl]; exact s6
    · rw [assertNotEphemeral_ret]
      constructor
      · rw [filterMap_snoc_none haOf _ _ rfl]; exact b1
      · rw [filterMap_snoc_none saOf _ _ rfl]; exact b2
      · rw [filterMap_snoc_none bhaOf _ _ rfl]; exact b3
      · rw [filterMap_snoc_none bsaOf _ _ rfl]; exact b4
  case assertBeforeSecondsRelative v =>
    split at h
    · cases h
    injection h with h; subst h
    simp only [lockOf, Option.toList]
    refine ⟨?_, ?_⟩
    · constructor <;> simp only [ane_hr, ane_sr, ane_bhr, ane_bsr, ane_bh, ane_bs]
      · rw [filterMap_snoc_none hrOf _ _ rfl]; exact s1
      · rw [filterMap_snoc_none srOf _ _ rfl]; exact s2
      · rw [filterMap_snoc_none bhrOf _ _ rfl]; exact s3
      · rw [filterMap_snoc_some bsrOf _ _ v rfl]; exact MinSpec_snoc v s4
      · rw [filterMap_snoc_none bhOf _ _ rfl]; exact s5
      · rw [filterMap_snoc_none bsOf _ _ rfl]; exact s6
    · rw [assertNotEphemeral_ret]
      constructor
      · rw [filterMap_snoc_none haOf _ _ rfl]; exact b1
      · rw [filterMap_snoc_none saOf _ _ rfl]; exact b2
      · rw [filterMap_snoc_none bhaOf _ _ rfl]; exact b3
      · rw [filterMap_snoc_none bsaOf _ _ rfl]; exact b4
  case assertMyBirthHeight v =>
    split at h
    · cases h
    rename_i hne
    injection h with h; subst h
    simp only [lockOf, Option.toList]
    refine ⟨?_, ?_⟩
    · constructor <;> simp only [ane_hr, ane_sr, ane_bhr, ane_bsr, ane_bh, ane_bs]
      · rw [filterMap_snoc_none hrOf _ _ rfl]; exact s1
      · rw [filterMap_snoc_none srOf _ _ rfl]; exact s2
      · rw [filterMap_snoc_none bhrOf _ _ rfl]; exact s3
      · rw [filterMap_snoc_none bsrOf _ _ rfl]; exact s4
      · rw [filterMap_snoc_some bhOf _ _ v rfl]; exact SameSpec_snoc v s5 (by simpa using hne)
      · rw [filterMap_snoc_none bsOf _ _ rfl]; exact s6
    · rw [assertNotEphemeral_ret]
      constructor
      · rw [filterMap_snoc_none haOf _ _ rfl]; exact b1
      · rw [filterMap_snoc_none saOf _ _ rfl]; exact b2
      · rw [filterMap_snoc_none bhaOf _ _ rfl]; exact b3
      · rw [filterMap_snoc_none bsaOf _ _ rfl]; exact b4
  case assertMyBirthSeconds v =>
    split at h
    · cases h
    rename_i hne
    injection h with h; subst h
    simp only [lockOf, Option.toList]
    refine ⟨?_, ?_⟩
    · constructor <;> simp only [ane_hr, ane_sr, ane_bhr, ane_bsr, ane_bh, ane_bs]
      · rw [filterMap_snoc_none hrOf _ _ rfl]; exact s1
      · rw [filterMap_snoc_none srOf _ _ rfl]; exact s2
      · rw [filterMap_snoc_none bhrOf _ _ rfl]; exact s3
      · rw [filterMap_snoc_none bsrOf _ _ rfl]; exact s4
      · rw [filterMap_snoc_none bhOf _ _ rfl]; exact s5
      · rw [filterMap_snoc_some bsOf _ _ v rfl]; exact SameSpec_snoc v s6 (by simpa using hne)
    · rw [assertNotEphemeral_ret]
      constructor
      · rw [filterMap_snoc_none haOf _ _ rfl]; exact b1
      · rw [filterMap_snoc_none saOf _ _ rfl]; exact b2
      · rw [filterMap_snoc_none bhaOf _ _ rfl]; exact b3
      · rw [filterMap_snoc_none bsaOf _ _ rfl]; exact b4
  case assertHeightAbsolute v =>
    injection h with h; subst h
    simp only [lockOf, Option.toList]
    refine ⟨?_, ?_⟩
    · constructor
      · rw [filterMap_snoc_none hrOf _ _ rfl]; exact s1
      · rw [filterMap_snoc_none srOf _ _ rfl]; exact s2
      · rw [filterMap_snoc_none bhrOf _ _ rfl]; exact s3
      · rw [filterMap_snoc_none bsrOf _ _ rfl]; exact s4
      · rw [filterMap_snoc_none bhOf _ _ rfl]; exact s5
      · rw [filterMap_snoc_none bsOf _ _ rfl]; exact s6
    · constructor
      · rw [filterMap_snoc_some haOf _ _ v rfl]; exact AbsMaxSpec_snoc v b1
      · rw [filterMap_snoc_none saOf _ _ rfl]; exact b2
      · rw [filterMap_snoc_none bhaOf _ _ rfl]; exact b3
      · rw [filterMap_snoc_none bsaOf _ _ rfl]; exact b4
  case assertSecondsAbsolute v =>
    injection h with h; subst h
    simp only [lockOf, Option.toList]
    refine ⟨?_, ?_⟩
    · constructor
      · rw [filterMap_snoc_none hrOf _ _ rfl]; exact s1
      · rw [filterMap_snoc_none srOf _ _ rfl]; exact s2
      · rw [filterMap_snoc_none bhrOf _ _ rfl]; exact s3
      · rw [filterMap_snoc_none bsrOf _ _ rfl]; exact s4
      · rw [filterMap_snoc_none bhOf _ _ rfl]; exact s5
      · rw [filterMap_snoc_none bsOf _ _ rfl]; exact s6
    · constructor
      · rw [filterMap_snoc_none haOf _ _ rfl]; exact b1
      · rw [filterMap_snoc_some saOf _ _ v rfl]; exact AbsMaxSpec_snoc v b2
      · rw [filterMap_snoc_none bhaOf _ _ rfl]; exact b3
      · rw [filterMap_snoc_none bsaOf _ _ rfl]; exact b4
  case assertBeforeHeightAbsolute v =>
    injection h with h; subst h
    simp only [lockOf, Option.toList]
    refine ⟨?_, ?_⟩
    · constructor
      · rw [filterMap_snoc_none hrOf _ _ rfl]; exact s1
      · rw [filterMap_snoc_none srOf _ _ rfl]; exact s2
      · rw [filterMap_snoc_none bhrOf _ _ rfl]; exact s3
      · rw [filterMap_snoc_none bsrOf _ _ rfl]; exact s4
      · rw [filterMap_snoc_none bhOf _ _ rfl]; exact s5
      · rw [filterMap_snoc_none bsOf _ _ rfl]; exact s6
    · constructor
      · rw [filterMap_snoc_none haOf _ _ rfl]; exact b1
      · rw [filterMap_snoc_none saOf _ _ rfl]; exact b2
      · rw [filterMap_snoc_some bhaOf _ _ v rfl]; exact MinSpec_snoc v b3
      · rw [filterMap_snoc_none bsaOf _ _ rfl]; exact b4
  case assertBeforeSecondsAbsolute v =>
    injection h with h; subst h
    simp only [lockOf, Option.toList]
    refine ⟨?_, ?_⟩
    · constructor
      · rw [filterMap_snoc_none hrOf _ _ rfl]; exact s1
      · rw [filterMap_snoc_none srOf _ _ rfl]; exact s2
      · rw [filterMap_snoc_none bhrOf _ _ rfl]; exact s3
      · rw [filterMap_snoc_none bsrOf _ _ rfl]; exact s4
      · rw [filterMap_snoc_none bhOf _ _ rfl]; exact s5
      · rw [filterMap_snoc_none bsOf _ _ rfl]; exact s6
    · constructor
      · rw [filterMap_snoc_none haOf _ _ rfl]; exact b1
      · rw [filterMap_snoc_none saOf _ _ rfl]; exact b2
      · rw [filterMap_snoc_none bhaOf _ _ rfl]; exact b3
      · rw [filterMap_snoc_some bsaOf _ _ v rfl]; exact MinSpec_snoc v b4
  case aggSig op pk msg =>
    have hframe : SpendLockEq s'.spend s.spend ∧ BundleLockEq s'.ret s.ret := by
      split at h
      · split at h
        · cases h
        · obtain ⟨k, _, h⟩ := bind_ok h
          injection h with h; subst h
          simp [SpendLockEq, BundleLockEq]
      · obtain ⟨k, _, h⟩ := bind_ok h
        injection h with h; subst h
        simp only [SpendLockEq, BundleLockEq, pushAggSig]
        repeat' split
        all_goals simp
    simp only [lockOf, Option.toList, List.append_nil]
    exact ⟨SpendSum_congr hframe.1 ⟨s1, s2, s3, s4, s5, s6⟩, BundleSum_congr hframe.2 ⟨b1, b2, b3, b4⟩⟩
  all_goals
    have hframe : SpendLockEq s'.spend s.spend ∧ BundleLockEq s'.ret s.ret := by
      first
        | (injection h with h; subst h; simp [SpendLockEq, BundleLockEq]; done)
        | (split at h <;> first | (injection h with h; subst h; simp [SpendLockEq, BundleLockEq]; done) | (cases h; done))
        | (obtain ⟨s1', hd, h⟩ := bind_ok h; obtain ⟨d1, d2, d3⟩ := decrement_frame _ _ _ hd; injection h with h; subst h; simp [SpendLockEq, BundleLockEq, d1, d2, d3]; done)
    simp only [lockOf, Option.toList, List.append_nil]
    exact ⟨SpendSum_congr hframe.1 ⟨s1, s2, s3, s4, s5, s6⟩, BundleSum_congr hframe.2 ⟨b1, b2, b3, b4⟩⟩

end ChiaModel.TL

namespace ChiaModel.TL
open ChiaModel ChiaModel.Cond

/-- pointwise relation between two lists -/
inductive All2 {α β : Type} (R : α → β → Prop) : List α → List β → Prop where
  | nil : All2 R [] []
  | cons {a b l1 l2} : R a b → All2 R l1 l2 → All2 R (a :: l1) (b :: l2)

theorem All2.snoc {α β : Type} {R : α → β → Prop} {l1 : List α} {l2 : List β} {a : α} {b : β}
    (h : All2 R l1 l2) (hab : R a b) : All2 R (l1 ++ [a]) (l2 ++ [b]) := by
  induction h with
  | nil => exact .cons hab .nil
  | cons h1 _ ih => exact .cons h1 ih

theorem All2.map_left {α β γ : Type} {R : α → β → Prop} {S : γ → β → Prop} {l1 : List α} {l2 : List β} (f : α → γ)
    (h : All2 R l1 l2) (hf : ∀ a b, R a b → S (f a) b) : All2 S (l1.map f) l2 := by
  induction h with
  | nil => exact .nil
  | cons h1 _ ih => exact .cons (hf _ _ h1) ih

theorem All2.zip_mem {α β : Type} {R : α → β → Prop} {l1 : List α} {l2 : List β} (h : All2 R l1 l2) :
    l1.length = l2.length ∧ ∀ p ∈ l1.zip l2, R p.1 p.2 := by
  induction h with
  | nil => simp
  | cons h1 _ ih =>
    refine ⟨by simp [ih.1], ?_⟩
    intro p hp
    simp only [List.zip_cons_cons, List.mem_cons] at hp
    rcases hp with rfl | hp
    · exact h1
    · exact ih.2 p hp

theorem bump_lockEq (s : CSt) (c : Nat) : SpendLockEq (bump s c).spend s.spend ∧ BundleLockEq (bump s c).ret s.ret := by
  simp [bump, SpendLockEq, BundleLockEq]

theorem parsedConds_cons_some {flags : Nat} {c nxt opn args : Sexp} {op : Nat} {cva : Cond}
    (h1 : first c = .ok opn) (h2 : parseOpcode opn = some op) (h3 : rest c = .ok args)
    (h4 : parseArgs args op flags = .ok cva) : parsedConds flags (.pair c nxt) = cva :: parsedConds flags nxt := by
  simp [parsedConds, h1, h2, h3, h4]

theorem parsedConds_cons_none {flags : Nat} {c nxt opn : Sexp}
    (h1 : first c = .ok opn) (h2 : parseOpcode opn = none) : parsedConds flags (.pair c nxt) = parsedConds flags nxt := by
  simp [parsedConds, h1, h2]

theorem stepCond_locks {env : Env} {s : CSt} {m : Nat} {c nxt : Sexp} {s' : CSt} {m' : Nat} {ls bl : List Lock}
    (h : stepCond env s m c = .ok (s', m')) (hs : SpendSum s.spend ls) (hb : BundleSum s.ret bl) :
    ∃ L, (parsedConds env.flags (.pair c nxt)).filterMap lockOf = L ++ (parsedConds env.flags nxt).filterMap lockOf ∧
      SpendSum s'.spend (ls ++ L) ∧ BundleSum s'.ret (bl ++ L) := by
  unfold stepCond at h
  obtain ⟨opn, hf, h⟩ := bind_ok h
  cases ho : parseOpcode opn with
  | none =>
    rw [ho] at h; simp only at h
    refine ⟨[], by rw [parsedConds_cons_none hf ho]; simp, ?_⟩
    simp only [List.append_nil]
    by_cases hnu : hasFlag env.flags Gen.flagNoUnknownConds = true
    · rw [if_pos hnu] at h; cases h
    · rw [if_neg hnu] at h
      by_cases hcc : hasFlag env.flags Gen.flagCostConditions = true
      · rw [if_pos hcc] at h
        obtain ⟨a1, _, _⟩ := addCost_ok h
        subst a1
        exact ⟨SpendSum_congr (bump_lockEq s _).1 hs, BundleSum_congr (bump_lockEq s _).2 hb⟩
      · rw [if_neg hcc] at h
        injection h with h; injection h with h1 h2; subst h1
        exact ⟨hs, hb⟩
  | some op =>
    rw [ho] at h; simp only at h
    obtain ⟨⟨s2, m2⟩, ha, h⟩ := bind_ok h
    obtain ⟨⟨s3, extra⟩, hpc, h⟩ := bind_ok h
    obtain ⟨args, cva, hr, hpa, happ, _⟩ := pureCond_ok hpc
    obtain ⟨a1, _, _⟩ := addCost_ok ha
    obtain ⟨c1, _, _⟩ := addCost_ok h
    subst a1; subst c1
    refine ⟨(lockOf cva).toList, ?_, ?_⟩
    · rw [parsedConds_cons_some hf ho hr hpa]
      cases hl : lockOf cva <;> simp [List.filterMap_cons, hl]
    · have hv : SpendLockEq (visit env (bump s (preCharge env.flags op)) cva).spend s.spend ∧
          BundleLockEq (visit env (bump s (preCharge env.flags op)) cva).ret s.ret := by
        simp [visit, bump, SpendLockEq, BundleLockEq]
      obtain ⟨r1, r2⟩ := applyCond_locks env _ s3 cva ls bl happ (SpendSum_congr hv.1 hs) (BundleSum_congr hv.2 hb)
      exact ⟨SpendSum_congr (bump_lockEq s3 _).1 r1, BundleSum_congr (bump_lockEq s3 _).2 r2⟩

theorem condLoop_locks (env : Env) : ∀ (t : Sexp) (s : CSt) (m : Nat) (s' : CSt) (m' : Nat) (ls bl : List Lock),
    condLoop env t s m = .ok (s', m') → SpendSum s.spend ls → BundleSum s.ret bl →
    SpendSum s'.spend (ls ++ (parsedConds env.flags t).filterMap lockOf) ∧
    BundleSum s'.ret (bl ++ (parsedConds env.flags t).filterMap lockOf) := by
  intro t
  induction t with
  | atom b =>
    intro s m s' m' ls bl h hs hb
    cases b with
    | nil =>
      simp only [condLoop] at h; injection h with h; injection h with h1 h2; subst h1
      simpa [parsedConds] using And.intro hs hb
    | cons x xs => simp [condLoop] at h
  | pair c nxt _ ih =>
    intro s m s' m' ls bl h hs hb
    simp only [condLoop] at h
    obtain ⟨⟨s1, m1⟩, hstep, h⟩ := bind_ok h
    obtain ⟨L, hL, q1, q2⟩ := stepCond_locks (nxt := nxt) hstep hs hb
    obtain ⟨r1, r2⟩ := ih s1 m1 s' m' (ls ++ L) (bl ++ L) h q1 q2
    rw [hL]
    simp only [List.append_assoc] at r1 r2
    exact ⟨r1, r2⟩

end ChiaModel.TL

namespace ChiaModel.TL
open ChiaModel ChiaModel.Cond

/-- the spend's summary reflects its own locks; also records its coin id for the record lookup -/
def SpendOk (flags : Nat) (sp : Spend) (tree : Sexp) : Prop := SpendSum sp (spendLocks flags tree)

theorem postSpend_lockEq (env : Env) (sp : Spend) : SpendLockEq (postSpend env sp) sp := by
  unfold postSpend; split <;> simp [SpendLockEq]

theorem newSpendVisit_lockEq (env : Env) (s : CSt) :
    SpendLockEq (newSpendVisit env s).spend s.spend ∧ BundleLockEq (newSpendVisit env s).ret s.ret := by
  unfold newSpendVisit; split <;> simp [SpendLockEq, BundleLockEq]

theorem processSingleSpend_locks {env : Env} {ret : Bundle} {st : PState} {spendTree parent ph amount conds : Sexp} {cc m : Nat}
    {ret' : Bundle} {st' : PState} {m' : Nat} {bl : List Lock}
    (hp : parseSingleSpend spendTree = .ok (parent, ph, amount, conds))
    (h : processSingleSpend env ret st parent ph amount conds cc m = .ok ((ret', st'), m')) (hb : BundleSum ret bl) :
    ∃ sp, ret'.spends = ret.spends ++ [sp] ∧ SpendOk env.flags sp spendTree ∧
      BundleSum ret' (bl ++ spendLocks env.flags spendTree) := by
  obtain ⟨s0, m1, s, hh, _, _, hl, hf⟩ := processSingleSpend_ok h
  obtain ⟨parentId, puzzleHash, amountBuf, myAmount, _, _, _, _, _, _, _, hs0⟩ := spendHeader_ok hh
  have hsl : spendLocks env.flags spendTree = (parsedConds env.flags conds).filterMap lockOf := by
    simp [spendLocks, hp]
  have hsp0 : SpendSum s0.spend [] := by rw [hs0]; exact SpendSum_nil _ rfl rfl rfl rfl rfl rfl
  have hret0 : BundleLockEq s0.ret ret ∧ s0.ret.spends = ret.spends := by rw [hs0]; simp [BundleLockEq]
  have h0 : SpendSum (newSpendVisit env (bump s0 (spendCharge env.flags))).spend [] :=
    SpendSum_congr (newSpendVisit_lockEq env _).1 (SpendSum_congr (bump_lockEq _ _).1 hsp0)
  have hb0 : BundleSum (newSpendVisit env (bump s0 (spendCharge env.flags))).ret bl :=
    BundleSum_congr (newSpendVisit_lockEq env _).2 (BundleSum_congr (bump_lockEq _ _).2
      (BundleSum_congr hret0.1 hb))
  obtain ⟨r1, r2⟩ := condLoop_locks env conds _ m1 s m' [] bl hl h0 hb0
  obtain ⟨_, _, _, c4⟩ := condLoop_cost env conds _ m1 s m' hl
  simp only [finishSpend] at hf
  injection hf with hf1 hf2
  subst hf1
  refine ⟨postSpend env s.spend, ?_, ?_, ?_⟩
  · simp only [c4]
    have : (newSpendVisit env (bump s0 (spendCharge env.flags))).ret.spends = ret.spends := by
      rw [← hret0.2]; unfold newSpendVisit; split <;> simp [bump]
    rw [this]
  · rw [SpendOk, hsl]
    simpa using SpendSum_congr (postSpend_lockEq env s.spend) r1
  · rw [hsl]
    exact BundleSum_congr (by simp [BundleLockEq]) r2

theorem spendLoop_locks (env : Env) (cc : Nat) : ∀ (t : Sexp) ret st n m ret' st' m' (bl : List Lock) (ts0 : List Sexp),
    spendLoop env cc t ret st n m = .ok ((ret', st'), m') → BundleSum ret bl → All2 (SpendOk env.flags) ret.spends ts0 →
    BundleSum ret' (bl ++ (listElems t).flatMap (spendLocks env.flags)) ∧
    All2 (SpendOk env.flags) ret'.spends (ts0 ++ listElems t) := by
  intro t
  induction t with
  | atom b =>
    intro ret st n m ret' st' m' bl ts0 h hb ha
    cases b with
    | nil =>
      simp only [spendLoop] at h; injection h with h; injection h with h1 h2; injection h1 with h1 h3; subst h1
      simpa [listElems] using And.intro hb ha
    | cons x xs => simp [spendLoop] at h
  | pair sp nxt _ ih =>
    intro ret st n m ret' st' m' bl ts0 h hb ha
    simp only [spendLoop] at h
    split at h
    · cases h
    · cases hp : parseSingleSpend sp with
      | error e => rw [hp] at h; cases h
      | ok q =>
        obtain ⟨parent, ph, amount, conds⟩ := q
        rw [hp] at h; simp only at h
        obtain ⟨⟨⟨r1, s1⟩, m1⟩, h1, h⟩ := bind_ok h
        obtain ⟨spn, e1, e2, e3⟩ := processSingleSpend_locks hp h1 hb
        have ha' : All2 (SpendOk env.flags) r1.spends (ts0 ++ [sp]) := by rw [e1]; exact ha.snoc e2
        obtain ⟨i1, i2⟩ := ih r1 s1 (n - 1) m1 ret' st' m' _ _ h e3 ha'
        simp only [listElems, List.flatMap_cons]
        refine ⟨by simpa [List.append_assoc] using i1, by simpa [List.append_assoc] using i2⟩

end ChiaModel.TL

namespace ChiaModel.TL
open ChiaModel ChiaModel.Cond

theorem mem_hrOf (ls : List Lock) (v : Nat) : v ∈ ls.filterMap hrOf ↔ Lock.heightRel v ∈ ls := by
  simp only [List.mem_filterMap]
  constructor
  · rintro ⟨l, hl, h⟩
    cases l <;> simp [hrOf] at h
    subst h; exact hl
  · intro h; exact ⟨_, h, rfl⟩

theorem mem_srOf (ls : List Lock) (v : Nat) : v ∈ ls.filterMap srOf ↔ Lock.secondsRel v ∈ ls := by
  simp only [List.mem_filterMap]
  constructor
  · rintro ⟨l, hl, h⟩
    cases l <;> simp [srOf] at h
    subst h; exact hl
  · intro h; exact ⟨_, h, rfl⟩

theorem mem_bhrOf (ls : List Lock) (v : Nat) : v ∈ ls.filterMap bhrOf ↔ Lock.beforeHeightRel v ∈ ls := by
  simp only [List.mem_filterMap]
  constructor
  · rintro ⟨l, hl, h⟩
    cases l <;> simp [bhrOf] at h
    subst h; exact hl
  · intro h; exact ⟨_, h, rfl⟩

theorem mem_bsrOf (ls : List Lock) (v : Nat) : v ∈ ls.filterMap bsrOf ↔ Lock.beforeSecondsRel v ∈ ls := by
  simp only [List.mem_filterMap]
  constructor
  · rintro ⟨l, hl, h⟩
    cases l <;> simp [bsrOf] at h
    subst h; exact hl
  · intro h; exact ⟨_, h, rfl⟩

theorem mem_bhOf (ls : List Lock) (v : Nat) : v ∈ ls.filterMap bhOf ↔ Lock.birthHeight v ∈ ls := by
  simp only [List.mem_filterMap]
  constructor
  · rintro ⟨l, hl, h⟩
    cases l <;> simp [bhOf] at h
    subst h; exact hl
  · intro h; exact ⟨_, h, rfl⟩

theorem mem_bsOf (ls : List Lock) (v : Nat) : v ∈ ls.filterMap bsOf ↔ Lock.birthSeconds v ∈ ls := by
  simp only [List.mem_filterMap]
  constructor
  · rintro ⟨l, hl, h⟩
    cases l <;> simp [bsOf] at h
    subst h; exact hl
  · intro h; exact ⟨_, h, rfl⟩

theorem mem_haOf (ls : List Lock) (v : Nat) : v ∈ ls.filterMap haOf ↔ Lock.heightAbs v ∈ ls := by
  simp only [List.mem_filterMap]
  constructor
  · rintro ⟨l, hl, h⟩
    cases l <;> simp [haOf] at h
    subst h; exact hl
  · intro h; exact ⟨_, h, rfl⟩

theorem mem_saOf (ls : List Lock) (v : Nat) : v ∈ ls.filterMap saOf ↔ Lock.secondsAbs v ∈ ls := by
  simp only [List.mem_filterMap]
  constructor
  · rintro ⟨l, hl, h⟩
    cases l <;> simp [saOf] at h
    subst h; exact hl
  · intro h; exact ⟨_, h, rfl⟩

theorem mem_bhaOf (ls : List Lock) (v : Nat) : v ∈ ls.filterMap bhaOf ↔ Lock.beforeHeightAbs v ∈ ls := by
  simp only [List.mem_filterMap]
  constructor
  · rintro ⟨l, hl, h⟩
    cases l <;> simp [bhaOf] at h
    subst h; exact hl
  · intro h; exact ⟨_, h, rfl⟩

theorem mem_bsaOf (ls : List Lock) (v : Nat) : v ∈ ls.filterMap bsaOf ↔ Lock.beforeSecondsAbs v ∈ ls := by
  simp only [List.mem_filterMap]
  constructor
  · rintro ⟨l, hl, h⟩
    cases l <;> simp [bsaOf] at h
    subst h; exact hl
  · intro h; exact ⟨_, h, rfl⟩

theorem All2.exists_right {α β : Type} {R : α → β → Prop} {l1 : List α} {l2 : List β} (h : All2 R l1 l2) {a : α} (ha : a ∈ l1) :
    ∃ b, (a, b) ∈ l1.zip l2 := by
  induction h with
  | nil => cases ha
  | cons h1 _ ih =>
    simp only [List.mem_cons] at ha
    rcases ha with rfl | ha
    · rename_i b0 _ _ _; exact ⟨b0, by simp⟩
    · obtain ⟨b, hb⟩ := ih ha; exact ⟨b, by simp [hb]⟩

theorem All2.exists_left {α β : Type} {R : α → β → Prop} {l1 : List α} {l2 : List β} (h : All2 R l1 l2) {b : β} (hb : b ∈ l2) :
    ∃ a, (a, b) ∈ l1.zip l2 := by
  induction h with
  | nil => cases hb
  | cons h1 _ ih =>
    simp only [List.mem_cons] at hb
    rcases hb with rfl | hb
    · rename_i a0 _ _ _; exact ⟨a0, by simp⟩
    · obtain ⟨a, ha⟩ := ih hb; exact ⟨a, by simp [ha]⟩

theorem sat32_mono {a b : Nat} (h : a ≤ b) : sat32 a ≤ sat32 b := by unfold sat32; omega
theorem sat64_mono {a b : Nat} (h : a ≤ b) : sat64 a ≤ sat64 b := by unfold sat64; omega

end ChiaModel.TL
