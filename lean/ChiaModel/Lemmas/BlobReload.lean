import ChiaModel.Lemmas.BlobHashes
/-
C18: `MerkleBlob::new` on the blocks of a state satisfying the invariant rebuilds the caches.
-/
namespace ChiaModel.Blob
open List M

/-- the indexes in left-child-first (post) order -/
def IT.post : IT → List Nat
  | .leaf i _ _ _ => [i]
  | .node i l r => IT.post l ++ IT.post r ++ [i]

theorem IT.post_perm (t : IT) : t.post ~ t.indices := by
  induction t with
  | leaf i k v h => exact List.Perm.refl _
  | node i l r ihl ihr =>
    simp only [IT.post, IT.indices]
    refine List.perm_append_comm.trans ?_
    simp only [List.singleton_append]
    exact (ihl.append ihr).cons _

def FrA.out (bl : List Block) : Fr → List (Nat × Block)
  | .sub c => c.post.map (fun j => (j, blockAt bl j))
  | .done i => [(i, blockAt bl i)]

def FrA.ok (bl : List Block) (q : List Nat) : Fr → Prop
  | .sub c => ∃ p, Rep bl (some p) c ∧ p ∈ q ∧ 0 ∉ c.indices
  | .done i => ∃ d hh p l r, bl[i]? = some { dirty := d, node := .internal hh p l r }
      ∧ (match p with | none => i = 0 | some p' => i ≠ 0 ∧ p' ∈ q)

theorem FrA.ok_mono {bl : List Block} {q : List Nat} (x : Nat) {fr : Fr} (h : FrA.ok bl q fr) :
    FrA.ok bl (x :: q) fr := by
  cases fr with
  | sub c =>
    obtain ⟨p, h1, h2, h3⟩ := h
    exact ⟨p, h1, List.mem_cons_of_mem _ h2, h3⟩
  | done i =>
    obtain ⟨d, hh, p, l, r, h1, h2⟩ := h
    refine ⟨d, hh, p, l, r, h1, ?_⟩
    cases p with
    | none => exact h2
    | some p' => exact ⟨h2.1, List.mem_cons_of_mem _ h2.2⟩

/-- the unfiltered left-child-first iteration (`MerkleBlob::new`) -/
theorem lcfAll_sim (bl : List Block) (f : Nat) :
    ∀ (fs : List Fr) (q : List Nat) (acc : List (Nat × Block)),
    (∀ fr ∈ fs, FrA.ok bl q fr) → (fs.flatMap Fr.idxs).Nodup → (∀ j ∈ fs.flatMap Fr.idxs, j ∉ q) →
    frWeight fs < f →
    lcfAux bl (fun _ => true) f (fs.map Fr.entry) q acc = (acc.reverse ++ fs.flatMap (FrA.out bl), true) := by
  induction f with
  | zero => intro fs q acc _ _ _ hw; omega
  | succ f ih =>
    intro fs q acc hok hn hq hw
    cases fs with
    | nil => simp [lcfAux]
    | cons fr rest =>
      have hokr : ∀ fr' ∈ rest, FrA.ok bl q fr' := fun fr' h => hok fr' (List.mem_cons_of_mem _ h)
      have hw' : frWeight (fr :: rest) = fr.weight + frWeight rest := by simp [frWeight]
      have hnr : (rest.flatMap Fr.idxs).Nodup := by
        simp only [List.flatMap_cons] at hn
        exact (T.nodup_append' hn).2.1
      have hqr : ∀ j ∈ rest.flatMap Fr.idxs, j ∉ q := by
        intro j hj; exact hq j (by simp only [List.flatMap_cons, List.mem_append]; exact Or.inr hj)
      cases fr with
      | done i =>
        obtain ⟨d, hh, p, l, r, hb, hp⟩ := hok (.done i) List.mem_cons_self
        have hbA : blockAt bl i = { dirty := d, node := .internal hh p l r } := by simp [blockAt, hb]
        have hrest := ih rest q ((i, { dirty := d, node := .internal hh p l r }) :: acc) hokr hnr hqr
          (by rw [hw'] at hw; simp only [Fr.weight] at hw; omega)
        show lcfAux bl (fun _ => true) (f + 1) ((true, i) :: rest.map Fr.entry) q acc = _
        cases p with
        | none =>
          have h2 : i = 0 := hp
          subst h2
          simp only [lcfAux, hb, Node.parent, Bool.not_true, Bool.false_eq_true, if_false, decide_true, if_true, hrest]
          simp [FrA.out, hbA]
        | some p' =>
          have h2 : i ≠ 0 ∧ p' ∈ q := hp
          have hc : q.contains p' = true := by simp [h2.2]
          simp only [lcfAux, hb, Node.parent, Bool.not_true, Bool.false_eq_true, if_false, if_neg h2.1, hc, if_true, hrest]
          simp [FrA.out, hbA]
      | sub c =>
        obtain ⟨p, hrep, hpq, h0⟩ := hok (.sub c) List.mem_cons_self
        have hpc : q.contains p = true := by simp [hpq]
        cases c with
        | leaf i k v h =>
          simp only [Rep] at hrep
          have hi0 : i ≠ 0 := by
            intro e; exact h0 (by simp [IT.indices, e])
          have hbA : blockAt bl i = { dirty := false, node := .leaf h (some p) k v } := by simp [blockAt, hrep]
          have hrest := ih rest q ((i, { dirty := false, node := .leaf h (some p) k v }) :: acc) hokr hnr hqr (by
            rw [hw'] at hw; simp only [Fr.weight, IT.indices, List.length_cons, List.length_nil] at hw; omega)
          show lcfAux bl (fun _ => true) (f + 1) ((false, i) :: rest.map Fr.entry) q acc = _
          simp only [lcfAux, hrep, Node.parent, Bool.not_true, Bool.false_eq_true, if_false, if_neg hi0, hpc, hrest]
          simp [FrA.out, IT.post, hbA]
        | node i l r =>
          simp only [Rep] at hrep
          obtain ⟨⟨d, hh, hb⟩, hl, hr⟩ := hrep
          have hbA : blockAt bl i = { dirty := d, node := .internal hh (some p) l.idx r.idx } := by simp [blockAt, hb]
          have hi0 : i ≠ 0 := by
            intro e; exact h0 (by simp [IT.indices, e])
          simp only [List.flatMap_cons, Fr.idxs, IT.indices, List.cons_append, List.nodup_cons] at hn
          have hiq : i ∉ q := hq i (by simp [Fr.idxs, IT.indices])
          obtain ⟨hn1, hn2⟩ := hn
          have hlrn : (l.indices ++ r.indices).Nodup := (T.nodup_append' hn2).1
          have hlr : l.idx ≠ r.idx := by
            intro e
            exact (T.nodup_append' hlrn).2.2 _ l.idx_mem (e ▸ r.idx_mem)
          have hlq : l.idx ∉ q := hq _ (by simp [Fr.idxs, IT.indices, l.idx_mem])
          have hrq : r.idx ∉ q := hq _ (by simp [Fr.idxs, IT.indices, r.idx_mem])
          have hcond : (decide (l.idx = r.idx) || q.contains l.idx || q.contains r.idx) = false := by
            simp [hlr, hlq, hrq]
          have hcq : q.contains i = false := by simp [hiq]
          have hnew := ih (.sub l :: .sub r :: .done i :: rest) (i :: q) acc ?_ ?_ ?_ ?_
          · show lcfAux bl (fun _ => true) (f + 1) ((false, i) :: rest.map Fr.entry) q acc = _
            simp only [lcfAux, hb, Node.parent, Bool.not_true, Bool.false_eq_true, if_false, if_neg hi0, hpc, if_true, hcond, hcq]
            simp only [List.map_cons, Fr.entry] at hnew
            rw [hnew]
            simp [FrA.out, IT.post, List.append_assoc]
          · intro fr hfr
            simp only [List.mem_cons] at hfr
            rcases hfr with e | e | e | e
            · subst e
              refine ⟨i, hl, List.mem_cons_self, ?_⟩
              intro hm; exact h0 (by simp [IT.indices, hm])
            · subst e
              refine ⟨i, hr, List.mem_cons_self, ?_⟩
              intro hm; exact h0 (by simp [IT.indices, hm])
            · subst e
              exact ⟨d, hh, some p, l.idx, r.idx, hb, hi0, List.mem_cons_of_mem _ hpq⟩
            · exact FrA.ok_mono i (hokr fr e)
          · simp only [List.flatMap_cons, Fr.idxs, List.nil_append]
            rw [← List.append_assoc]; exact hn2
          · intro j hj hm
            simp only [List.flatMap_cons, Fr.idxs, List.nil_append, ← List.append_assoc] at hj
            rcases List.mem_cons.mp hm with e | e
            · subst e; exact hn1 hj
            · refine hq j ?_ e
              simp only [List.flatMap_cons, Fr.idxs, IT.indices, List.cons_append]
              exact List.mem_cons_of_mem _ hj
          · rw [hw'] at hw
            simp only [Fr.weight, IT.indices, List.length_cons, List.length_append] at hw
            simp only [frWeight, List.map_cons, List.sum_cons, Fr.weight]
            simp only [frWeight] at hw
            omega

theorem lcfAll_good {s : Blob} {t : IT} (g : Good s t) :
    lcf s.blocks (fun _ => true) = (t.post.map (fun j => (j, blockAt s.blocks j)), true) := by
  have hroot := g.root
  have h0 := (g.live_iff 0).mpr (by rw [← hroot]; exact t.idx_mem)
  have hne : s.blocks.isEmpty = false := by
    cases hb : s.blocks with
    | nil => rw [hb] at h0; simp at h0
    | cons _ _ => rfl
  unfold lcf
  rw [hne]
  simp only [Bool.false_eq_true, if_false]
  have hrep := g.rep
  cases t with
  | leaf i k v h =>
    simp only [IT.idx] at hroot
    subst hroot
    simp only [Rep] at hrep
    have hbA : blockAt s.blocks 0 = { dirty := false, node := .leaf h none k v } := by simp [blockAt, hrep]
    have : 4 * s.blocks.length + 4 = (4 * s.blocks.length + 2) + 1 + 1 := by omega
    rw [this]
    generalize 4 * s.blocks.length + 2 = F
    simp [lcfAux, hrep, IT.post, hbA, Node.parent]
  | node i l r =>
    simp only [IT.idx] at hroot
    subst hroot
    simp only [Rep] at hrep
    obtain ⟨⟨d, hh, hb⟩, hl, hr⟩ := hrep
    have hbA : blockAt s.blocks 0 = { dirty := d, node := .internal hh none l.idx r.idx } := by simp [blockAt, hb]
    have hnd := g.nodup
    simp only [IT.indices, List.nodup_cons] at hnd
    have hlr : l.idx ≠ r.idx := by
      intro e
      exact (T.nodup_append' hnd.2).2.2 _ l.idx_mem (e ▸ r.idx_mem)
    have hlen : (l.indices ++ r.indices).length + 1 ≤ s.blocks.length := by
      have := nodup_bound s.blocks.length _ g.nodup g.rep.lt
      simpa [IT.indices] using this
    have hnew := lcfAll_sim s.blocks (4 * s.blocks.length + 3) [.sub l, .sub r, .done 0] [0] [] ?_ ?_ ?_ ?_
    · have : 4 * s.blocks.length + 4 = (4 * s.blocks.length + 3) + 1 := by omega
      rw [this]
      generalize 4 * s.blocks.length + 3 = F at hnew ⊢
      simp only [lcfAux, hb, Node.parent, Bool.not_true, Bool.false_eq_true, if_false, decide_true]
      simp only [List.map_cons, List.map_nil, Fr.entry] at hnew
      simp [hlr, hnew, FrA.out, IT.post, hbA, List.append_assoc]
    · intro fr hfr
      simp only [List.mem_cons, List.not_mem_nil, or_false] at hfr
      rcases hfr with e | e | e
      · subst e
        exact ⟨0, hl, List.mem_singleton_self _, fun hm => hnd.1 (List.mem_append.mpr (Or.inl hm))⟩
      · subst e
        exact ⟨0, hr, List.mem_singleton_self _, fun hm => hnd.1 (List.mem_append.mpr (Or.inr hm))⟩
      · subst e
        exact ⟨d, hh, none, l.idx, r.idx, hb, rfl⟩
    · simpa [Fr.idxs] using hnd.2
    · intro j hj hm
      simp only [List.mem_singleton] at hm
      subst hm
      simp only [List.flatMap_cons, Fr.idxs, List.flatMap_nil, List.append_nil] at hj
      exact hnd.1 hj
    · simp only [frWeight, List.map_cons, List.map_nil, List.sum_cons, List.sum_nil, Fr.weight]
      simp only [List.length_append] at hlen
      omega

/-- the cache loop of `MerkleBlob::new` over the nodes of one stored subtree -/
theorem cache_sim {bl : List Block} (c : IT) :
    ∀ (p : Option Nat) (rest : List (Nat × Block)) (K : List (KeyId × Nat)) (H : List (Hash × Nat)),
    Rep bl p c →
    (c.leaves.map (·.2.1) ++ K.map (·.1)).Nodup → (c.leaves.map (·.2.2.2) ++ H.map (·.1)).Nodup →
    ∃ K' H', cacheLoop (c.post.map (fun j => (j, blockAt bl j)) ++ rest) K H = cacheLoop rest K' H'
      ∧ K' ~ c.leaves.map (fun e => (e.2.1, e.1)) ++ K ∧ H' ~ c.leaves.map (fun e => (e.2.2.2, e.1)) ++ H := by
  induction c with
  | leaf i k v h =>
    intro p rest K H hrep hk hh
    simp only [Rep] at hrep
    have hbA : blockAt bl i = { dirty := false, node := .leaf h p k v } := by simp [blockAt, hrep]
    simp only [IT.leaves, List.map_cons, List.map_nil, List.singleton_append, List.nodup_cons] at hk hh
    have hkn : mapGet K k = none := by
      rw [mapGet_none_iff]; intro e he hek
      exact hk.1 (hek ▸ List.mem_map_of_mem (f := (·.1)) he)
    have hhn : mapGet H h = none := by
      rw [mapGet_none_iff]; intro e he hek
      exact hh.1 (hek ▸ List.mem_map_of_mem (f := (·.1)) he)
    refine ⟨mapInsert K k i, mapInsert H h i, ?_, ?_, ?_⟩
    · simp [IT.post, hbA, cacheLoop, hkn, hhn]
    · simpa [IT.leaves] using mapInsert_perm_new K k i hkn
    · simpa [IT.leaves] using mapInsert_perm_new H h i hhn
  | node i l r ihl ihr =>
    intro p rest K H hrep hk hh
    simp only [Rep] at hrep
    obtain ⟨⟨d, hh', hb⟩, hl, hr⟩ := hrep
    have hbA : blockAt bl i = { dirty := d, node := .internal hh' p l.idx r.idx } := by simp [blockAt, hb]
    simp only [IT.leaves, List.map_append, List.append_assoc] at hk hh
    -- left
    have hkl : (l.leaves.map (·.2.1) ++ K.map (·.1)).Nodup := by
      refine hk.sublist ?_
      exact (List.Sublist.refl _).append (List.sublist_append_right _ _)
    have hhl : (l.leaves.map (·.2.2.2) ++ H.map (·.1)).Nodup := by
      refine hh.sublist ?_
      exact (List.Sublist.refl _).append (List.sublist_append_right _ _)
    obtain ⟨K1, H1, e1, pk1, ph1⟩ := ihl (some i)
      (r.post.map (fun j => (j, blockAt bl j)) ++ ((i, blockAt bl i) :: rest)) K H hl hkl hhl
    -- right
    have hkr : (r.leaves.map (·.2.1) ++ K1.map (·.1)).Nodup := by
      have hp : (r.leaves.map (·.2.1) ++ K1.map (·.1)) ~ (l.leaves.map (·.2.1) ++ (r.leaves.map (·.2.1) ++ K.map (·.1))) := by
        have := (pk1.map (·.1))
        simp only [List.map_append, List.map_map, Function.comp_def] at this
        refine (List.Perm.append_left _ this).trans ?_
        rw [← List.append_assoc, ← List.append_assoc]
        exact List.Perm.append_right _ List.perm_append_comm
      exact hp.nodup_iff.mpr hk
    have hhr : (r.leaves.map (·.2.2.2) ++ H1.map (·.1)).Nodup := by
      have hp : (r.leaves.map (·.2.2.2) ++ H1.map (·.1)) ~ (l.leaves.map (·.2.2.2) ++ (r.leaves.map (·.2.2.2) ++ H.map (·.1))) := by
        have := (ph1.map (·.1))
        simp only [List.map_append, List.map_map, Function.comp_def] at this
        refine (List.Perm.append_left _ this).trans ?_
        rw [← List.append_assoc, ← List.append_assoc]
        exact List.Perm.append_right _ List.perm_append_comm
      exact hp.nodup_iff.mpr hh
    obtain ⟨K2, H2, e2, pk2, ph2⟩ := ihr (some i) ((i, blockAt bl i) :: rest) K1 H1 hr hkr hhr
    refine ⟨K2, H2, ?_, ?_, ?_⟩
    · simp only [IT.post, List.map_append, List.map_cons, List.map_nil, List.append_assoc, List.singleton_append]
      rw [e1, e2, hbA]
      simp [cacheLoop]
    · refine pk2.trans ?_
      simp only [IT.leaves, List.map_append, List.append_assoc]
      refine (List.Perm.append_left _ pk1).trans ?_
      rw [← List.append_assoc, ← List.append_assoc]
      exact List.Perm.append_right _ List.perm_append_comm
    · refine ph2.trans ?_
      simp only [IT.leaves, List.map_append, List.append_assoc]
      refine (List.Perm.append_left _ ph1).trans ?_
      rw [← List.append_assoc, ← List.append_assoc]
      exact List.Perm.append_right _ List.perm_append_comm

def reloadFree (bl : List Block) (t : IT) : List Nat :=
  (List.range bl.length).filter (fun i => !((t.post.map (fun j => (j, blockAt bl j))).map (·.1)).contains i)

/-- **reload**: `MerkleBlob::new` on the blocks of a state satisfying the invariant yields a state
satisfying the invariant for the same tree: same blocks, caches with the same content, the same
free indexes (in increasing order) -/
theorem ofBlocks_good {s : Blob} {t : IT} (g : Good s t) :
    ∃ n, ofBlocks s.blocks = some n ∧ n.blocks = s.blocks ∧ Good n t ∧ n.free ~ s.free := by
  obtain ⟨K, H, e, pk, ph⟩ := cache_sim (bl := s.blocks) t none [] [] [] g.rep (by simpa using g.keys) (by simpa using g.hashes)
  simp only [List.append_nil, cacheLoop] at e pk ph
  have hmem : ∀ i, i ∈ reloadFree s.blocks t ↔ (i < s.blocks.length ∧ i ∉ t.indices) := by
    intro i
    simp only [reloadFree, List.mem_filter, List.mem_range, List.map_map, Function.comp_def, List.map_id', Bool.not_eq_true',
      List.contains_eq_mem, decide_eq_false_iff_not, t.post_perm.mem_iff]
  have hfn : (reloadFree s.blocks t).Nodup := List.nodup_range.sublist List.filter_sublist
  refine ⟨{ blocks := s.blocks, k2i := K, h2i := H, free := reloadFree s.blocks t }, ?_, rfl, ?_, ?_⟩
  · unfold ofBlocks
    rw [lcfAll_good g]
    simp only [e, Bool.not_true, Bool.false_eq_true, if_false]
    rfl
  · exact ⟨g.rep, g.root, g.nodup, hfn, hmem, pk, ph, g.keys, g.hashes, g.range.congr rfl⟩
  · rw [List.perm_ext_iff_of_nodup hfn g.freeNodup]
    intro i
    rw [hmem i, g.free i]

end ChiaModel.Blob
