import ChiaModel.Model.Mempool
import ChiaModel.Lemmas.Strict
import ChiaModel.Lemmas.Ints
import ChiaModel.Lemmas.TimeLocks
/-
C19: the fingerprint byte stream determines the parsed conditions.
-/
namespace ChiaModel.Mp
open ChiaModel ChiaModel.Cond

/-- every atom of the tree is shorter than 2^32 bytes (a clvmr `Allocator` cannot hold a longer one:
its heap is indexed by `u32`) -/
def AtomsShort : Sexp → Prop
  | .atom b => b.length < 4294967296
  | .pair l r => AtomsShort l ∧ AtomsShort r

theorem lp32_inj {a a' r r' : Bytes} (ha : a.length < 4294967296) (ha' : a'.length < 4294967296)
    (h : lp32 a ++ r = lp32 a' ++ r') : a = a' ∧ r = r' := by
  simp only [lp32, List.append_assoc] at h
  obtain ⟨h1, h2⟩ := List.append_inj h (by rw [be_length, be_length])
  have e : a.length = a'.length := by
    have b1 := beVal_be 4 (a.length % 4294967296) (by omega)
    have b2 := beVal_be 4 (a'.length % 4294967296) (by omega)
    rw [h1] at b1
    rw [b1] at b2
    omega
  exact List.append_inj h2 e

theorem encAtoms_inj : ∀ (l l' : List Bytes) (r r' : Bytes), l.length = l'.length →
    (∀ a ∈ l, a.length < 4294967296) → (∀ a ∈ l', a.length < 4294967296) →
    encAtoms l ++ r = encAtoms l' ++ r' → l = l' ∧ r = r' := by
  intro l
  induction l with
  | nil =>
    intro l' r r' hl _ _ h
    cases l' with
    | nil => simpa [encAtoms] using h
    | cons _ _ => simp at hl
  | cons a tl ih =>
    intro l' r r' hl hs hs' h
    cases l' with
    | nil => simp at hl
    | cons a' tl' =>
      simp only [encAtoms, List.append_assoc] at h
      obtain ⟨e1, e2⟩ := lp32_inj (hs a (by simp)) (hs' a' (by simp)) h
      obtain ⟨e3, e4⟩ := ih tl' r r' (by simpa using hl) (fun x hx => hs x (by simp [hx])) (fun x hx => hs' x (by simp [hx])) e2
      exact ⟨by rw [e1, e3], e4⟩

/-! ## the shape of a hashed condition -/

theorem takeAtoms_succ {c : Sexp} {n : Nat} {l : List Bytes} {r : Sexp} (h : takeAtoms c (n+1) = some (l, r)) :
    ∃ b next l', c = .pair (.atom b) next ∧ takeAtoms next n = some (l', r) ∧ l = b :: l' := by
  cases c with
  | atom x => simp [takeAtoms] at h
  | pair a next =>
    cases a with
    | pair _ _ => simp [takeAtoms] at h
    | atom b =>
      simp only [takeAtoms] at h
      cases ht : takeAtoms next n with
      | none => rw [ht] at h; cases h
      | some q =>
        obtain ⟨l', r'⟩ := q
        rw [ht] at h
        simp only [Option.some.injEq, Prod.mk.injEq] at h
        exact ⟨b, next, l', rfl, by rw [h.2] at ht; exact ht, h.1.symm⟩

theorem takeAtoms_zero {c : Sexp} {l : List Bytes} {r : Sexp} (h : takeAtoms c 0 = some (l, r)) : l = [] ∧ r = c := by
  cases c <;> simp [takeAtoms] at h <;> exact ⟨h.1, h.2.symm⟩

/-- the three kinds of hashed conditions -/
inductive ItemShape (c : Sexp) (l : List Bytes) : Prop where
  | createCoin (ob ph amt : Bytes) (r : Sexp)
      (hc : c = .pair (.atom ob) (.pair (.atom ph) (.pair (.atom amt) r)))
      (hop : parseOpcode (.atom ob) = some Gen.opCreateCoin) (hl : l = [ob, ph, amt, hintAtom r])
  | oneArg (ob a : Bytes) (r : Sexp) (op : Nat)
      (hc : c = .pair (.atom ob) (.pair (.atom a) r))
      (hop : parseOpcode (.atom ob) = some op) (h1 : oneArgOps.contains op = true) (hl : l = [ob, a])
  | noArg (ob : Bytes) (r : Sexp) (op : Nat)
      (hc : c = .pair (.atom ob) r)
      (hop : parseOpcode (.atom ob) = some op) (h0 : op = Gen.opAssertEphemeral ∨ op = Gen.opRemark) (hl : l = [ob])

theorem condItem_shape {c : Sexp} {l : List Bytes} (h : condItem c = some (some l)) : ItemShape c l := by
  unfold condItem at h
  cases c with
  | atom x => simp [first] at h
  | pair opn rst =>
    simp only [first] at h
    cases ho : parseOpcode opn with
    | none => rw [ho] at h; cases h
    | some op =>
      rw [ho] at h; simp only at h
      split at h
      · rename_i hcc
        split at h
        · rename_i l3 r ht
          injection h with h; injection h with h
          obtain ⟨b0, n0, l0, e0, t0, le0⟩ := takeAtoms_succ ht
          obtain ⟨b1, n1, l1, e1, t1, le1⟩ := takeAtoms_succ t0
          obtain ⟨b2, n2, l2, e2, t2, le2⟩ := takeAtoms_succ t1
          obtain ⟨z1, z2⟩ := takeAtoms_zero t2
          injection e0 with e0a e0b
          subst e0a; subst e0b; subst e1; subst e2; subst z1; subst z2; subst le2; subst le1; subst le0
          exact .createCoin b0 b1 b2 _ rfl (by rw [ho, hcc]) (by rw [← h]; rfl)
        · cases h
      · split at h
        · rename_i h1
          split at h
          · rename_i l2 r ht
            injection h with h; injection h with h
            obtain ⟨b0, n0, l0, e0, t0, le0⟩ := takeAtoms_succ ht
            obtain ⟨b1, n1, l1, e1, t1, le1⟩ := takeAtoms_succ t0
            obtain ⟨z1, z2⟩ := takeAtoms_zero t1
            injection e0 with e0a e0b
            subst e0a; subst e0b; subst e1; subst z1; subst z2; subst le1; subst le0
            exact .oneArg b0 b1 _ op rfl ho h1 h.symm
          · cases h
        · split at h
          · rename_i h0
            split at h
            · rename_i l1 r ht
              injection h with h; injection h with h
              obtain ⟨b0, n0, l0, e0, t0, le0⟩ := takeAtoms_succ ht
              obtain ⟨z1, z2⟩ := takeAtoms_zero t0
              injection e0 with e0a e0b
              subst e0a; subst e0b; subst z1; subst z2; subst le0
              exact .noArg b0 _ op rfl ho h0 h.symm
            · cases h
          · cases h

/-! ## the parsed condition is a function of the hashed atoms -/

theorem argsStricter_zero (f : Nat) : ArgsStricter f 0 :=
  ⟨by simp [strict, hasFlag], by simp [hasFlag]⟩

theorem parseArgs_to_zero {c : Sexp} {op f : Nat} {v : Cond} (h : parseArgs c op f = .ok v) : parseArgs c op 0 = .ok v :=
  (parseArgs_mono (argsStricter_zero f) c op).imp v h

def hintOf (h : Bytes) : Option Bytes := if h.isEmpty then none else some h

theorem parseArgs_createCoin {ph amt : Bytes} {r : Sexp} {f : Nat} {cva : Cond}
    (h : parseArgs (.pair (.atom ph) (.pair (.atom amt) r)) Gen.opCreateCoin f = .ok cva) :
    ∃ v, sanitizeUint amt 8 = .ok v ∧ cva = .createCoin ph v (hintOf (hintAtom r)) := by
  have h0 := parseArgs_to_zero h
  have e1 : isAggSig Gen.opCreateCoin = false := by decide
  simp only [parseArgs, e1, Bool.false_eq_true, if_false, if_true, first, rest, atomOf, sanitizeHash, bind, Except.bind,
    maybeCheckArgsTerminator, strict, hasFlag, Nat.zero_and, ne_eq, not_true_eq_false, decide_false, pure, Except.pure] at h0
  split at h0
  · cases h0
  · rename_i _ v' heq
    have hv' : v' = ph := by
      split at heq
      · injection heq with heq; exact heq.symm
      · cases heq
    subst hv'
    cases hs : sanitizeUint amt 8 with
    | ok v =>
      rw [hs] at h0; simp only at h0
      refine ⟨v, rfl, ?_⟩
      cases r with
      | atom x => simp only at h0; injection h0 with h0; rw [← h0]; simp [hintAtom, hintOf]
      | pair params rr =>
        simp only at h0
        cases params with
        | atom x => simp only at h0; injection h0 with h0; rw [← h0]; simp [hintAtom, hintOf]
        | pair p1 p2 =>
          cases p1 with
          | pair _ _ => simp only at h0; injection h0 with h0; rw [← h0]; simp [hintAtom, hintOf]
          | atom hb =>
            simp only at h0
            split at h0
            · injection h0 with h0; rw [← h0]; simp [hintAtom, hintOf, *]
            · injection h0 with h0; rw [← h0]; simp [hintAtom, hintOf, *]
    | posOverflow => rw [hs] at h0; simp at h0
    | negOverflow => rw [hs] at h0; simp at h0
    | err => rw [hs] at h0; simp at h0

set_option linter.unusedSimpArgs false in
theorem parseArgs_tail0 (op : Nat) (hop : oneArgOps.contains op = true) (a : Bytes) (t t' : Sexp) :
    parseArgs (.pair (.atom a) t) op 0 = parseArgs (.pair (.atom a) t') op 0 := by
  simp only [oneArgOps, List.contains_cons, List.contains_nil, Bool.or_false, Bool.or_eq_true, beq_iff_eq] at hop
  rcases hop with h|h|h|h|h|h|h|h|h|h|h|h|h|h|h|h|h|h|h|h|h <;> subst h <;>
    simp [parseArgs, isAggSig, lockArg, maybeCheckArgsTerminator, strict, hasFlag, first,
      Gen.opAggSigParent, Gen.opAggSigPuzzle, Gen.opAggSigAmount, Gen.opAggSigPuzzleAmount, Gen.opAggSigParentAmount,
      Gen.opAggSigParentPuzzle, Gen.opAggSigUnsafe, Gen.opAggSigMe, Gen.opCreateCoin, Gen.opReserveFee,
      Gen.opCreateCoinAnnouncement, Gen.opAssertCoinAnnouncement, Gen.opCreatePuzzleAnnouncement, Gen.opAssertPuzzleAnnouncement,
      Gen.opAssertConcurrentSpend, Gen.opAssertConcurrentPuzzle, Gen.opSendMessage, Gen.opReceiveMessage, Gen.opAssertMyCoinId,
      Gen.opAssertMyParentId, Gen.opAssertMyPuzzlehash, Gen.opAssertMyAmount, Gen.opAssertMyBirthSeconds, Gen.opAssertMyBirthHeight,
      Gen.opAssertEphemeral, Gen.opAssertSecondsRelative, Gen.opAssertSecondsAbsolute, Gen.opAssertHeightRelative,
      Gen.opAssertHeightAbsolute, Gen.opAssertBeforeSecondsRelative, Gen.opAssertBeforeSecondsAbsolute,
      Gen.opAssertBeforeHeightRelative, Gen.opAssertBeforeHeightAbsolute, Gen.opRemark, Gen.opSoftfork]

set_option linter.unusedSimpArgs false in
theorem parseArgs_noArg {c : Sexp} {op f : Nat} {cva : Cond} (h0 : op = Gen.opAssertEphemeral ∨ op = Gen.opRemark)
    (h : parseArgs c op f = .ok cva) : cva = (if op = Gen.opAssertEphemeral then Cond.assertEphemeral else Cond.skip) := by
  have hz := parseArgs_to_zero h
  rcases h0 with e | e <;> subst e <;>
    simp [parseArgs, isAggSig, strict, hasFlag,
      Gen.opAggSigParent, Gen.opAggSigPuzzle, Gen.opAggSigAmount, Gen.opAggSigPuzzleAmount, Gen.opAggSigParentAmount,
      Gen.opAggSigParentPuzzle, Gen.opAggSigUnsafe, Gen.opAggSigMe, Gen.opCreateCoin, Gen.opReserveFee,
      Gen.opCreateCoinAnnouncement, Gen.opAssertCoinAnnouncement, Gen.opCreatePuzzleAnnouncement, Gen.opAssertPuzzleAnnouncement,
      Gen.opAssertConcurrentSpend, Gen.opAssertConcurrentPuzzle, Gen.opSendMessage, Gen.opReceiveMessage, Gen.opAssertMyCoinId,
      Gen.opAssertMyParentId, Gen.opAssertMyPuzzlehash, Gen.opAssertMyAmount, Gen.opAssertMyBirthSeconds, Gen.opAssertMyBirthHeight,
      Gen.opAssertEphemeral, Gen.opAssertSecondsRelative, Gen.opAssertSecondsAbsolute, Gen.opAssertHeightRelative,
      Gen.opAssertHeightAbsolute, Gen.opAssertBeforeSecondsRelative, Gen.opAssertBeforeSecondsAbsolute,
      Gen.opAssertBeforeHeightRelative, Gen.opAssertBeforeHeightAbsolute, Gen.opRemark, Gen.opSoftfork, pure, Except.pure] at hz ⊢ <;>
    exact hz.symm

/-- item `l` is hashed for a condition that parses to `cva` -/
def R (flags : Nat) (l : List Bytes) (cva : Cond) : Prop :=
  ∃ c opn op args, condItem c = some (some l) ∧ first c = .ok opn ∧ parseOpcode opn = some op ∧ rest c = .ok args ∧
    parseArgs args op flags = .ok cva

theorem R_functional {flags : Nat} {l : List Bytes} {v v' : Cond} (h : R flags l v) (h' : R flags l v') : v = v' := by
  obtain ⟨c, opn, op, args, hi, hf, ho, hr, hp⟩ := h
  obtain ⟨c', opn', op', args', hi', hf', ho', hr', hp'⟩ := h'
  cases condItem_shape hi with
  | createCoin ob ph amt r hc hop hl =>
    cases condItem_shape hi' with
    | createCoin ob' ph' amt' r' hc' hop' hl' =>
      subst hc; subst hc'
      rw [hl] at hl'
      injection hl' with e1 hl'; injection hl' with e2 hl'; injection hl' with e3 hl'; injection hl' with e4 _
      subst e1; subst e2; subst e3
      injection hf with hf; subst hf; injection hf' with hf'; subst hf'
      injection hr with hr; subst hr; injection hr' with hr'; subst hr'
      rw [hop] at ho; injection ho with ho; subst ho
      rw [hop'] at ho'; injection ho' with ho'; subst ho'
      obtain ⟨x, hx, ex⟩ := parseArgs_createCoin hp
      obtain ⟨x', hx', ex'⟩ := parseArgs_createCoin hp'
      rw [hx] at hx'; injection hx' with hx'
      rw [ex, ex', hx', e4]
    | oneArg _ _ _ _ _ _ _ hl' => rw [hl] at hl'; simp at hl'
    | noArg _ _ _ _ _ _ hl' => rw [hl] at hl'; simp at hl'
  | oneArg ob a r opx hc hop h1 hl =>
    cases condItem_shape hi' with
    | createCoin _ _ _ _ _ _ hl' => rw [hl] at hl'; simp at hl'
    | oneArg ob' a' r' opx' hc' hop' h1' hl' =>
      subst hc; subst hc'
      rw [hl] at hl'
      injection hl' with e1 hl'; injection hl' with e2 _
      subst e1; subst e2
      injection hf with hf; subst hf; injection hf' with hf'; subst hf'
      injection hr with hr; subst hr; injection hr' with hr'; subst hr'
      rw [hop] at ho; injection ho with ho; subst ho
      rw [hop] at ho'; injection ho' with ho'; subst ho'
      have z := parseArgs_to_zero hp
      have z' := parseArgs_to_zero hp'
      rw [parseArgs_tail0 _ h1 a r r'] at z
      rw [z] at z'; injection z'
    | noArg _ _ _ _ _ _ hl' => rw [hl] at hl'; simp at hl'
  | noArg ob r opx hc hop h0 hl =>
    cases condItem_shape hi' with
    | createCoin _ _ _ _ _ _ hl' => rw [hl] at hl'; simp at hl'
    | oneArg _ _ _ _ _ _ _ hl' => rw [hl] at hl'; simp at hl'
    | noArg ob' r' opx' hc' hop' h0' hl' =>
      subst hc; subst hc'
      rw [hl] at hl'
      injection hl' with e1 _
      subst e1
      injection hf with hf; subst hf; injection hf' with hf'; subst hf'
      rw [hop] at ho; injection ho with ho; subst ho
      rw [hop] at ho'; injection ho' with ho'; subst ho'
      rw [parseArgs_noArg h0 hp, parseArgs_noArg h0 hp']

/-! ## the stream as an encoding of the item list -/

/-- the hashed items of a condition list (skipped conditions contribute nothing) -/
def fpItems : Sexp → Option (List (List Bytes))
  | .pair c nxt =>
    match condItem c with
    | none => none
    | some it =>
      match fpItems nxt with
      | none => none
      | some ls => some (match it with | none => ls | some l => l :: ls)
  | .atom _ => some []

def encItems : List (List Bytes) → Bytes
  | [] => []
  | l :: r => encAtoms l ++ encItems r

theorem fpStream_items : ∀ (t : Sexp) (s : Bytes), fpStream t = some s → ∃ ls, fpItems t = some ls ∧ s = encItems ls := by
  intro t
  induction t with
  | atom b => intro s h; simp only [fpStream] at h; injection h with h; exact ⟨[], rfl, h.symm⟩
  | pair c nxt _ ih =>
    intro s h
    simp only [fpStream] at h
    cases hc : condItem c with
    | none => rw [hc] at h; cases h
    | some it =>
      rw [hc] at h; simp only at h
      cases hn : fpStream nxt with
      | none => rw [hn] at h; cases h
      | some s' =>
        rw [hn] at h; simp only at h
        injection h with h
        obtain ⟨ls, h1, h2⟩ := ih s' hn
        cases it with
        | none => exact ⟨ls, by simp [fpItems, hc, h1], by rw [← h, h2]; simp [itemBytes]⟩
        | some l => exact ⟨l :: ls, by simp [fpItems, hc, h1], by rw [← h, h2]; simp [itemBytes, encItems]⟩

/-- number of atoms hashed after the opcode atom `o` -/
def itemArity (o : Bytes) : Nat :=
  match parseOpcode (.atom o) with
  | some op => if op = Gen.opCreateCoin then 3 else if oneArgOps.contains op then 1 else 0
  | none => 0

/-- a well-formed item: the opcode atom followed by as many atoms as the opcode prescribes, all short -/
def ItemWF (l : List Bytes) : Prop :=
  (∃ o args, l = o :: args ∧ args.length = itemArity o) ∧ ∀ a ∈ l, a.length < 4294967296

theorem hintAtom_short (r : Sexp) : (hintAtom r).length ≤ 32 := by
  unfold hintAtom
  split
  · split <;> simp_all
  · simp

theorem condItem_wf {c : Sexp} {l : List Bytes} (h : condItem c = some (some l)) (hs : AtomsShort c) : ItemWF l := by
  cases condItem_shape h with
  | createCoin ob ph amt r hc hop hl =>
    subst hc; subst hl
    simp only [AtomsShort] at hs
    refine ⟨⟨ob, [ph, amt, hintAtom r], rfl, by simp [itemArity, hop]⟩, ?_⟩
    intro a ha
    simp only [List.mem_cons, List.not_mem_nil, or_false] at ha
    rcases ha with rfl | rfl | rfl | rfl
    · exact hs.1
    · exact hs.2.1
    · exact hs.2.2.1
    · have := hintAtom_short r; omega
  | oneArg ob a r op hc hop h1 hl =>
    subst hc; subst hl
    simp only [AtomsShort] at hs
    have hne : op ≠ Gen.opCreateCoin := by
      intro e; subst e; revert h1; decide
    refine ⟨⟨ob, [a], rfl, by simp only [itemArity, hop]; rw [if_neg hne, if_pos h1]; rfl⟩, ?_⟩
    intro x hx
    simp only [List.mem_cons, List.not_mem_nil, or_false] at hx
    rcases hx with rfl | rfl
    · exact hs.1
    · exact hs.2.1
  | noArg ob r op hc hop h0 hl =>
    subst hc; subst hl
    simp only [AtomsShort] at hs
    have hne : op ≠ Gen.opCreateCoin ∧ oneArgOps.contains op = false := by
      rcases h0 with e | e <;> subst e <;> decide
    refine ⟨⟨ob, [], rfl, by simp only [itemArity, hop]; rw [if_neg hne.1, if_neg (by rw [hne.2]; decide)]; rfl⟩, ?_⟩
    intro x hx
    simp only [List.mem_cons, List.not_mem_nil, or_false] at hx
    subst hx
    exact hs.1

theorem lp32_ne_nil (a : Bytes) (r : Bytes) : lp32 a ++ r ≠ [] := by
  intro h
  have := congrArg List.length h
  simp [lp32, be_length] at this

theorem encItems_inj : ∀ (ls ls' : List (List Bytes)), (∀ l ∈ ls, ItemWF l) → (∀ l ∈ ls', ItemWF l) →
    encItems ls = encItems ls' → ls = ls' := by
  intro ls
  induction ls with
  | nil =>
    intro ls' _ hw' h
    cases ls' with
    | nil => rfl
    | cons l' tl' =>
      obtain ⟨⟨o, args, e, _⟩, _⟩ := hw' l' (by simp)
      subst e
      simp only [encItems, encAtoms, List.append_assoc] at h
      exact absurd h.symm (lp32_ne_nil _ _)
  | cons l tl ih =>
    intro ls' hw hw' h
    cases ls' with
    | nil =>
      obtain ⟨⟨o, args, e, _⟩, _⟩ := hw l (by simp)
      subst e
      simp only [encItems, encAtoms, List.append_assoc] at h
      exact absurd h (lp32_ne_nil _ _)
    | cons l' tl' =>
      obtain ⟨⟨o, args, e, ha⟩, hs⟩ := hw l (by simp)
      obtain ⟨⟨o', args', e', ha'⟩, hs'⟩ := hw' l' (by simp)
      subst e; subst e'
      simp only [encItems, encAtoms, List.append_assoc] at h
      obtain ⟨e1, e2⟩ := lp32_inj (hs o (by simp)) (hs' o' (by simp)) h
      subst e1
      obtain ⟨e3, e4⟩ := encAtoms_inj args args' _ _ (by rw [ha, ha'])
        (fun x hx => hs x (by simp [hx])) (fun x hx => hs' x (by simp [hx])) e2
      subst e3
      rw [ih tl' (fun x hx => hw x (by simp [hx])) (fun x hx => hw' x (by simp [hx])) e4]

theorem fpItems_wf : ∀ (t : Sexp) (ls : List (List Bytes)), fpItems t = some ls → AtomsShort t → ∀ l ∈ ls, ItemWF l := by
  intro t
  induction t with
  | atom b => intro ls h _ l hl; simp only [fpItems] at h; injection h with h; subst h; simp at hl
  | pair c nxt _ ih =>
    intro ls h hs l hl
    simp only [AtomsShort] at hs
    simp only [fpItems] at h
    cases hc : condItem c with
    | none => rw [hc] at h; cases h
    | some it =>
      rw [hc] at h; simp only at h
      cases hn : fpItems nxt with
      | none => rw [hn] at h; cases h
      | some ls' =>
        rw [hn] at h; simp only at h
        injection h with h
        cases it with
        | none => simp only at h; subst h; exact ih ls' hn hs.2 l hl
        | some l0 =>
          simp only at h; subst h
          simp only [List.mem_cons] at hl
          rcases hl with rfl | hl
          · exact condItem_wf hc hs.1
          · exact ih ls' hn hs.2 l hl

/-! ## items versus parsed conditions -/

/-- every condition with a recognised opcode parses (what `parse_conditions` requires of a list it accepts) -/
def ParsesAll (flags : Nat) : Sexp → Prop
  | .pair c nxt =>
    (∀ opn op args, first c = .ok opn → parseOpcode opn = some op → rest c = .ok args →
      ∃ cva, parseArgs args op flags = .ok cva) ∧ ParsesAll flags nxt
  | .atom _ => True

theorem condItem_skip {c : Sexp} (h : condItem c = some none) : ∃ opn, first c = .ok opn ∧ parseOpcode opn = none := by
  unfold condItem at h
  cases hf : first c with
  | error e => rw [hf] at h; cases h
  | ok opn =>
    rw [hf] at h; simp only at h
    cases ho : parseOpcode opn with
    | none => exact ⟨opn, rfl, ho⟩
    | some op =>
      rw [ho] at h; simp only at h
      split at h
      · split at h <;> cases h
      · split at h
        · split at h <;> cases h
        · split at h
          · split at h <;> cases h
          · cases h

theorem items_parsed (flags : Nat) : ∀ (t : Sexp) (ls : List (List Bytes)), fpItems t = some ls → ParsesAll flags t →
    TL.All2 (R flags) ls (TL.parsedConds flags t) := by
  intro t
  induction t with
  | atom b => intro ls h _; simp only [fpItems] at h; injection h with h; subst h; simp only [TL.parsedConds]; exact .nil
  | pair c nxt _ ih =>
    intro ls h hp
    simp only [ParsesAll] at hp
    simp only [fpItems] at h
    cases hc : condItem c with
    | none => rw [hc] at h; cases h
    | some it =>
      rw [hc] at h; simp only at h
      cases hn : fpItems nxt with
      | none => rw [hn] at h; cases h
      | some ls' =>
        rw [hn] at h; simp only at h
        injection h with h
        have i := ih ls' hn hp.2
        cases it with
        | none =>
          simp only at h; subst h
          obtain ⟨opn, hf, ho⟩ := condItem_skip hc
          rw [TL.parsedConds_cons_none hf ho]; exact i
        | some l0 =>
          simp only at h; subst h
          have sh := condItem_shape hc
          have hfr : ∃ opn op args, first c = .ok opn ∧ parseOpcode opn = some op ∧ rest c = .ok args := by
            cases sh with
            | createCoin ob ph amt r hcc hop _ => subst hcc; exact ⟨_, _, _, rfl, hop, rfl⟩
            | oneArg ob a r op hcc hop _ _ => subst hcc; exact ⟨_, _, _, rfl, hop, rfl⟩
            | noArg ob r op hcc hop _ _ => subst hcc; exact ⟨_, _, _, rfl, hop, rfl⟩
          obtain ⟨opn, op, args, hf, ho, hr⟩ := hfr
          obtain ⟨cva, hpa⟩ := hp.1 opn op args hf ho hr
          rw [TL.parsedConds_cons_some hf ho hr hpa]
          exact .cons ⟨c, opn, op, args, hc, hf, ho, hr, hpa⟩ i

theorem all2_functional {α β : Type} {Q : α → β → Prop} (hq : ∀ a b b', Q a b → Q a b' → b = b') :
    ∀ (l : List α) (m m' : List β), TL.All2 Q l m → TL.All2 Q l m' → m = m' := by
  intro l m m' h
  induction h generalizing m' with
  | nil => intro h'; cases h'; rfl
  | cons hab _ ih =>
    intro h'
    cases h' with
    | cons hab' ht' => rw [hq _ _ _ hab hab', ih _ ht']

/-- what `condLoop` accepting a list implies about it -/
theorem condLoop_parsesAll (env : Env) : ∀ (t : Sexp) (s : CSt) (m : Nat) (r : CSt × Nat),
    condLoop env t s m = .ok r → ParsesAll env.flags t := by
  intro t
  induction t with
  | atom b => intro s m r _; simp [ParsesAll]
  | pair c nxt _ ih =>
    intro s m r h
    simp only [condLoop] at h
    obtain ⟨⟨s1, m1⟩, hs, h⟩ := bind_ok h
    refine ⟨?_, ih s1 m1 r h⟩
    intro opn op args hf ho hr
    unfold stepCond at hs
    obtain ⟨opn', hf', hs⟩ := bind_ok hs
    rw [hf] at hf'; injection hf' with hf'; subst hf'
    rw [ho] at hs; simp only at hs
    obtain ⟨⟨s2, m2⟩, _, hs⟩ := bind_ok hs
    obtain ⟨⟨s3, extra⟩, hpc, _⟩ := bind_ok hs
    obtain ⟨args', cva, hr', hpa, _, _⟩ := pureCond_ok hpc
    rw [hr] at hr'; injection hr' with hr'; subst hr'
    exact ⟨cva, hpa⟩

end ChiaModel.Mp
