import ChiaModel.Lemmas.Cost
import ChiaModel.Model.Generator
/-
C04 for the execution paths: the cost countdown of `run_block_generator2`, `run_block_generator`
and `run_spendbundle` (interpreter runs under `runWithLimit`, `subtract_cost`) has the same `Shift`
property as the condition loops, hence the limit is exact for every entry point.
-/
namespace ChiaModel.Gn
open ChiaModel ChiaModel.Cond

/-- running the interpreter under the remaining budget and subtracting its cost -/
def runCharge (r : RunRes) (m : Nat) : R ((Nat × Sexp) × Nat) :=
  match runWithLimit r m with
  | .error e => .error e
  | .ok (c, out) =>
    match subtractCost m c with
    | .error e => .error e
    | .ok m' => .ok ((c, out), m')

theorem shift_runCharge (r : RunRes) : Shift (fun m => runCharge r m) := by
  intro m a m' h
  unfold runCharge runWithLimit subtractCost at h ⊢
  cases r with
  | none => simp at h
  | some p =>
    obtain ⟨c, out⟩ := p
    simp only at h ⊢
    by_cases hc : c > m
    · simp [hc] at h
    · simp only [hc, if_false] at h
      injection h with h; injection h with h1 h2; subst h1; subst h2
      refine ⟨by omega, fun δ hδ => ?_, fun δ h1 h2 => ?_⟩
      · have : ¬ c > m - δ := by omega
        simp only [this, if_false]
        congr 2; omega
      · have : c > m - δ := by omega
        simp only [this, if_true]

/-- `shift_bind` with the pair taken apart by projections -/
theorem shift_bind' {α β : Type} (f : Nat → R (α × Nat)) (g : α → Nat → R (β × Nat))
    (hf : Shift f) (hg : ∀ a, Shift (g a)) :
    Shift (fun m => (do let x ← f m; g x.1 x.2 : R (β × Nat))) := by
  have := shift_bind f g hf hg
  have e : (fun m => (do let x ← f m; g x.1 x.2 : R (β × Nat))) = (fun m => (do let (a, m) ← f m; g a m : R (β × Nat))) := by
    funext m
    simp only [bind, Except.bind]
  rw [e]; exact this

/-- one iteration of the native spend loop, in `bind` form -/
def nativeStep (env : Env) (puz : Nat → RunRes) (nxt : Sexp) (i : Nat) (ret : Bundle) (st : PState) (n : Nat)
    (parent puzzle amount : Sexp) (m : Nat) : R ((Bundle × PState) × Nat) := do
  let (p, m) ← runCharge (puz i) m
  let (q, m) ← processSingleSpend env { ret with executionCost := ret.executionCost + p.1 } st parent
      (.atom (Sexp.treeHash puzzle)) amount p.2 p.1 m
  nativeLoop env puz nxt (i + 1) q.1 q.2 (n - 1) m

theorem nativeLoop_pair (env : Env) (puz : Nat → RunRes) (spend nxt : Sexp) (i : Nat) (ret : Bundle) (st : PState) (n m : Nat) :
    nativeLoop env puz (.pair spend nxt) i ret st n m =
      if n = 0 then .error .reject else
      match extract5 spend with
      | none => .error .reject
      | some (parent, puzzle, amount, _, _) => nativeStep env puz nxt i ret st n parent puzzle amount m := by
  simp only [nativeLoop]
  split
  · rfl
  · cases extract5 spend with
    | none => rfl
    | some q =>
      obtain ⟨parent, puzzle, amount, sol, ext⟩ := q
      simp only [nativeStep, runCharge]
      cases runWithLimit (puz i) m with
      | error e => rfl
      | ok p =>
        obtain ⟨c, out⟩ := p
        simp only
        cases subtractCost m c with
        | error e => rfl
        | ok m1 =>
          simp only [bind, Except.bind]
          cases processSingleSpend env { ret with executionCost := ret.executionCost + c } st parent
              (.atom (Sexp.treeHash puzzle)) amount out c m1 with
          | error e => rfl
          | ok r => rfl

theorem shift_nativeLoop (env : Env) (puz : Nat → RunRes) : ∀ (t : Sexp) (i : Nat) (ret : Bundle) (st : PState) (n : Nat),
    Shift (fun m => nativeLoop env puz t i ret st n m) := by
  intro t
  induction t with
  | atom b =>
    intro i ret st n
    cases b with
    | nil => simpa [nativeLoop] using shift_pure (ret, st)
    | cons x xs => simpa [nativeLoop] using shift_error (α := Bundle × PState) Err.reject
  | pair spend nxt _ ih =>
    intro i ret st n
    have : (fun m => nativeLoop env puz (.pair spend nxt) i ret st n m) = fun m =>
        if n = 0 then .error .reject else
        match extract5 spend with
        | none => .error .reject
        | some (parent, puzzle, amount, _, _) => nativeStep env puz nxt i ret st n parent puzzle amount m :=
      funext (nativeLoop_pair env puz spend nxt i ret st n)
    rw [this]
    by_cases hn : n = 0
    · simp only [hn, if_true]; exact shift_error _
    · simp only [hn, if_false]
      cases extract5 spend with
      | none => exact shift_error _
      | some q =>
        obtain ⟨parent, puzzle, amount, sol, ext⟩ := q
        simp only [nativeStep]
        apply shift_bind' (fun m => runCharge (puz i) m)
          (fun p m => do
            let x ← processSingleSpend env { ret with executionCost := ret.executionCost + p.1 } st parent
              (.atom (Sexp.treeHash puzzle)) amount p.2 p.1 m
            nativeLoop env puz nxt (i + 1) x.1.1 x.1.2 (n - 1) x.2)
        · exact shift_runCharge _
        · intro p
          apply shift_bind' (fun m => processSingleSpend env { ret with executionCost := ret.executionCost + p.1 } st parent
              (.atom (Sexp.treeHash puzzle)) amount p.2 p.1 m)
            (fun q m => nativeLoop env puz nxt (i + 1) q.1 q.2 (n - 1) m)
          · exact shift_processSingleSpend env _ st parent _ amount p.2 p.1
          · intro q; exact ih (i + 1) q.1 q.2 (n - 1)

end ChiaModel.Gn

namespace ChiaModel.Gn
open ChiaModel ChiaModel.Cond

def nativeBase (p : Params) (g : GenInput) : Nat :=
  (if hasFlag p.flags Gen.flagInternedGenerator then internedVbytes g.prog else g.len) * p.costPerByte

def nativeEnv (p : Params) : Env := { flags := p.flags, mempool := false, pkOk := p.pkOk }

/-- everything of `run_block_generator2` that touches the cost countdown -/
def nativeCountdown (p : Params) (g : GenInput) (genRun : RunRes) (puz : Nat → RunRes) (m : Nat) : R ((Bundle × PState) × Nat) := do
  let (_, m) ← (do let m' ← charge m (nativeBase p g); pure ((), m') : R (Unit × Nat))
  if !generatorNodeOk p.flags g.prog then .error .reject else
  if simpleGen p.flags ∧ g.nrefs > 0 then .error .reject else do
  let (r, m) ← runCharge genRun m
  match first r.2 with
  | .error e => .error e
  | .ok allSpends =>
    if !allExtract3 allSpends then .error .reject else
    nativeLoop (nativeEnv p) puz allSpends 0 { executionCost := r.1 } {} (spendLimit p.flags) m

theorem subtractCost_eq_charge (m c : Nat) : subtractCost m c = charge m c := by
  unfold subtractCost charge
  by_cases h : c > m
  · rw [if_pos h]
  · rw [if_neg h]

theorem native_eq (p : Params) (g : GenInput) (genRun : RunRes) (puz : Nat → RunRes) (L : Nat) :
    native p g genRun puz L =
      if simpleGen p.flags ∧ !g.startsQuote then .error .reject else
      match nativeCountdown p g genRun puz L with
      | .error e => .error e
      | .ok ((ret, st), left) =>
        match finishBundle (nativeEnv p) p.sigOk ret st with
        | .error e => .error e
        | .ok ret => .ok { ret with cost := L - left } := by
  unfold native nativeCountdown nativeBase nativeEnv runCharge
  by_cases h0 : simpleGen p.flags ∧ !g.startsQuote
  · rw [if_pos h0, if_pos h0]
  rw [if_neg h0, if_neg h0]
  simp only [subtractCost_eq_charge, bind, Except.bind, pure, Except.pure]
  cases charge L ((if hasFlag p.flags Gen.flagInternedGenerator = true then internedVbytes g.prog else g.len) * p.costPerByte) with
  | error e => rfl
  | ok m1 =>
    simp only
    by_cases h1 : (!generatorNodeOk p.flags g.prog) = true
    · simp only [h1, if_true]
    simp only [h1, Bool.false_eq_true, if_false]
    by_cases h2 : simpleGen p.flags = true ∧ g.nrefs > 0
    · simp only [h2, and_self, if_true]
    simp only [h2, if_false]
    cases runWithLimit genRun m1 with
    | error e => rfl
    | ok q =>
      obtain ⟨c, out⟩ := q
      simp only
      cases charge m1 c with
      | error e => rfl
      | ok m2 =>
        simp only
        cases first out with
        | error e => rfl
        | ok allSpends =>
          simp only
          by_cases h3 : (!allExtract3 allSpends) = true
          · simp only [h3, if_true]
          simp only [h3, Bool.false_eq_true, if_false]
          cases nativeLoop { flags := p.flags, mempool := false, pkOk := p.pkOk } puz allSpends 0 { executionCost := c } { } (spendLimit p.flags) m2 with
          | error e => rfl
          | ok q => rfl

theorem shift_nativeCountdown (p : Params) (g : GenInput) (genRun : RunRes) (puz : Nat → RunRes) :
    Shift (fun m => nativeCountdown p g genRun puz m) := by
  unfold nativeCountdown
  refine shift_bind (fun m => (do let m' ← charge m (nativeBase p g); pure ((), m') : R (Unit × Nat)))
    (fun _ m =>
      if !generatorNodeOk p.flags g.prog then .error .reject else
      if simpleGen p.flags ∧ g.nrefs > 0 then .error .reject else do
      let (r, m) ← runCharge genRun m
      match first r.2 with
      | .error e => .error e
      | .ok allSpends =>
        if !allExtract3 allSpends then .error .reject else
        nativeLoop (nativeEnv p) puz allSpends 0 { executionCost := r.1 } {} (spendLimit p.flags) m)
    (shift_charge () _) ?_
  intro _
  by_cases h1 : (!generatorNodeOk p.flags g.prog) = true
  · simp only [h1, if_true]; exact shift_error _
  simp only [h1, Bool.false_eq_true, if_false]
  by_cases h2 : simpleGen p.flags = true ∧ g.nrefs > 0
  · simp only [h2, and_self, if_true]; exact shift_error _
  simp only [h2, if_false]
  refine shift_bind (fun m => runCharge genRun m)
    (fun r m =>
      match first r.2 with
      | .error e => .error e
      | .ok allSpends =>
        if !allExtract3 allSpends then .error .reject else
        nativeLoop (nativeEnv p) puz allSpends 0 { executionCost := r.1 } {} (spendLimit p.flags) m)
    (shift_runCharge _) ?_
  intro r
  cases first r.2 with
  | error e => exact shift_error _
  | ok allSpends =>
    simp only
    by_cases h3 : (!allExtract3 allSpends) = true
    · simp only [h3, if_true]; exact shift_error _
    simp only [h3, Bool.false_eq_true, if_false]
    exact shift_nativeLoop _ _ _ _ _ _ _

end ChiaModel.Gn


namespace ChiaModel.Gn
open ChiaModel ChiaModel.Cond

/-! ## `run_spendbundle` -/

def bundleStep (env : Env) (puz : Nat → RunRes) (cs : CoinSpendM) (rest : List CoinSpendM) (i : Nat) (ret : Bundle) (st : PState)
    (m : Nat) : R ((Bundle × PState) × Nat) := do
  let (p, m) ← runCharge (puz i) m
  if cs.puzzleHash ≠ Sexp.treeHash cs.puzzle then .error .reject else do
  let (q, m) ← processSingleSpend env { ret with executionCost := ret.executionCost + p.1 } st (.atom cs.parent)
      (.atom (Sexp.treeHash cs.puzzle)) (.atom (canonNat cs.amount)) p.2 p.1 m
  bundleLoop env puz rest (i + 1) q.1 q.2 m

theorem bundleLoop_cons (env : Env) (puz : Nat → RunRes) (cs : CoinSpendM) (rest : List CoinSpendM) (i : Nat) (ret : Bundle)
    (st : PState) (m : Nat) :
    bundleLoop env puz (cs :: rest) i ret st m = bundleStep env puz cs rest i ret st m := by
  simp only [bundleLoop, bundleStep, runCharge]
  cases runWithLimit (puz i) m with
  | error e => rfl
  | ok p =>
    obtain ⟨c, out⟩ := p
    simp only
    cases subtractCost m c with
    | error e => rfl
    | ok m1 =>
      simp only [bind, Except.bind]
      by_cases hp : cs.puzzleHash ≠ Sexp.treeHash cs.puzzle
      · rw [if_pos hp, if_pos hp]
      rw [if_neg hp, if_neg hp]
      cases processSingleSpend env { ret with executionCost := ret.executionCost + c } st (.atom cs.parent)
          (.atom (Sexp.treeHash cs.puzzle)) (.atom (canonNat cs.amount)) out c m1 with
      | error e => rfl
      | ok r => rfl

theorem shift_bundleLoop (env : Env) (puz : Nat → RunRes) : ∀ (l : List CoinSpendM) (i : Nat) (ret : Bundle) (st : PState),
    Shift (fun m => bundleLoop env puz l i ret st m) := by
  intro l
  induction l with
  | nil => intro i ret st; simpa [bundleLoop] using shift_pure (ret, st)
  | cons cs rest ih =>
    intro i ret st
    have : (fun m => bundleLoop env puz (cs :: rest) i ret st m) = fun m => bundleStep env puz cs rest i ret st m :=
      funext (bundleLoop_cons env puz cs rest i ret st)
    rw [this]
    simp only [bundleStep]
    apply shift_bind' (fun m => runCharge (puz i) m)
      (fun p m =>
        if cs.puzzleHash ≠ Sexp.treeHash cs.puzzle then .error .reject else do
        let x ← processSingleSpend env { ret with executionCost := ret.executionCost + p.1 } st (.atom cs.parent)
          (.atom (Sexp.treeHash cs.puzzle)) (.atom (canonNat cs.amount)) p.2 p.1 m
        bundleLoop env puz rest (i + 1) x.1.1 x.1.2 x.2)
    · exact shift_runCharge _
    · intro p
      by_cases hp : cs.puzzleHash ≠ Sexp.treeHash cs.puzzle
      · simp only [if_pos hp]; exact shift_error _
      simp only [if_neg hp]
      apply shift_bind' (fun m => processSingleSpend env { ret with executionCost := ret.executionCost + p.1 } st (.atom cs.parent)
          (.atom (Sexp.treeHash cs.puzzle)) (.atom (canonNat cs.amount)) p.2 p.1 m)
        (fun q m => bundleLoop env puz rest (i + 1) q.1 q.2 m)
      · exact shift_processSingleSpend env _ st _ _ _ p.2 p.1
      · intro q; exact ih (i + 1) q.1 q.2

def bundleBase (p : Params) (spends : List CoinSpendM) : Nat :=
  (if hasFlag p.flags Gen.flagInternedGenerator then internedVbytes (buildGenerator spends)
   else calculateGeneratorLength spends - QUOTE_BYTES) * p.costPerByte

def bundleEnv (p : Params) : Env := { flags := p.flags, mempool := true, pkOk := p.pkOk }

def bundleCountdown (p : Params) (spends : List CoinSpendM) (puz : Nat → RunRes) (m : Nat) : R ((Bundle × PState) × Nat) := do
  let (_, m) ← (do let m' ← charge m (bundleBase p spends); pure ((), m') : R (Unit × Nat))
  if hasFlag p.flags Gen.flagLimitSpends ∧ spends.length > MAX_SPENDS_PER_BLOCK then .error .reject else
  bundleLoop (bundleEnv p) puz spends 0 {} {} m

theorem runSpendbundle_eq (p : Params) (spends : List CoinSpendM) (puz : Nat → RunRes) (L : Nat) :
    runSpendbundle p spends puz L =
      match bundleCountdown p spends puz L with
      | .error e => .error e
      | .ok ((ret, st), left) =>
        match validateConditions (postProcess (bundleEnv p) ret st) st with
        | .error e => .error e
        | .ok _ => .ok ({ postProcess (bundleEnv p) ret st with cost := L - left }, st.pkmPairs) := by
  unfold runSpendbundle bundleCountdown bundleBase bundleEnv
  simp only [subtractCost_eq_charge, bind, Except.bind, pure, Except.pure]
  cases charge L ((if hasFlag p.flags Gen.flagInternedGenerator = true then internedVbytes (buildGenerator spends)
      else calculateGeneratorLength spends - QUOTE_BYTES) * p.costPerByte) with
  | error e => rfl
  | ok m1 =>
    simp only
    by_cases h1 : hasFlag p.flags Gen.flagLimitSpends = true ∧ spends.length > MAX_SPENDS_PER_BLOCK
    · simp only [h1, and_self, if_true]
    simp only [h1, if_false]
    cases bundleLoop { flags := p.flags, mempool := true, pkOk := p.pkOk } puz spends 0 {} {} m1 with
    | error e => rfl
    | ok q => rfl

theorem shift_bundleCountdown (p : Params) (spends : List CoinSpendM) (puz : Nat → RunRes) :
    Shift (fun m => bundleCountdown p spends puz m) := by
  unfold bundleCountdown
  refine shift_bind (fun m => (do let m' ← charge m (bundleBase p spends); pure ((), m') : R (Unit × Nat)))
    (fun _ m =>
      if hasFlag p.flags Gen.flagLimitSpends ∧ spends.length > MAX_SPENDS_PER_BLOCK then .error .reject else
      bundleLoop (bundleEnv p) puz spends 0 {} {} m)
    (shift_charge () _) ?_
  intro _
  by_cases h1 : hasFlag p.flags Gen.flagLimitSpends = true ∧ spends.length > MAX_SPENDS_PER_BLOCK
  · simp only [h1, and_self, if_true]; exact shift_error _
  simp only [h1, if_false]
  exact shift_bundleLoop _ _ _ _ _ _

end ChiaModel.Gn
