import ChiaModel.Lemmas.MerkleTree
/-
Helper lemmas for C12: facts about the reference trie (single-leaf and double-leaf values, hash
lengths), the leaf-position audit, unfolding of the proof parser, and the parser run on the bytes
that proof generation emits (used for completeness).
-/
set_option linter.unusedSimpArgs false
namespace ChiaModel.Merkle
open ChiaModel Spec

/-! ## the leaf-position audit -/

theorem auditFrom_iff (h : Bytes) (pos : Nat) (bits : List Bool) :
    auditFrom h pos bits = true ↔ ∀ i (hi : i < bits.length), getBit h ((pos + i) % 256) = bits[i] := by
  induction bits generalizing pos with
  | nil => simp [auditFrom]
  | cons v rest ih =>
    simp only [auditFrom, Bool.and_eq_true, beq_iff_eq, ih]
    constructor
    · rintro ⟨h0, hr⟩ i hi
      cases i with
      | zero => simpa using h0
      | succ j =>
        have := hr j (by simpa using hi)
        simpa [Nat.add_assoc, Nat.add_comm 1 j] using this
    · intro hall
      refine ⟨by have := hall 0 (by simp); simpa using this, fun i hi => ?_⟩
      have := hall (i + 1) (by simpa using hi)
      simpa [Nat.add_assoc, Nat.add_comm 1 i] using this

/-- `y` lies below the trie position reached by the route `p` -/
def Path (p : List Bool) (y : Bytes) : Prop := ∀ i (hi : i < p.length), getBit y i = p[i]

theorem auditOk_of_path {p : List Bool} {y : Bytes} (hp : Path p y) (hlen : p.length ≤ 256) :
    auditOk y p = true := by
  unfold auditOk
  rw [auditFrom_iff]
  intro i hi
  rw [Nat.zero_add, Nat.mod_eq_of_lt (by omega)]
  exact hp i hi

theorem path_of_auditOk {p : List Bool} {y : Bytes} (h : auditOk y p = true) (hlen : p.length ≤ 256) :
    Path p y := by
  unfold auditOk at h
  rw [auditFrom_iff] at h
  intro i hi
  have := h i hi
  rwa [Nat.zero_add, Nat.mod_eq_of_lt (by omega)] at this

theorem Path.snoc {p : List Bool} {y : Bytes} (hp : Path p y) {b : Bool} (hb : getBit y p.length = b) :
    Path (p ++ [b]) y := by
  intro i hi
  by_cases h : i < p.length
  · rw [List.getElem_append_left h]; exact hp i h
  · have : i = p.length := by simp at hi; omega
    subst this
    simp [hb]

theorem Path.prefix {p : List Bool} {y : Bytes} {b : Bool} (hp : Path (p ++ [b]) y) : Path p y := by
  intro i hi
  have := hp i (by simp; omega)
  rwa [List.getElem_append_left hi] at this

theorem Path.last {p : List Bool} {y : Bytes} {b : Bool} (hp : Path (p ++ [b]) y) : getBit y p.length = b := by
  have := hp p.length (by simp)
  simpa using this

theorem path_nil (y : Bytes) : Path [] y := by intro i hi; simp at hi

/-! ## values of the reference trie -/

theorem mem_lo_or_hi {d : Nat} {S : List Bytes} {y : Bytes} (h : y ∈ S) : y ∈ Lo(d, S) ∨ y ∈ Hi(d, S) := by
  by_cases hb : getBit y d = true
  · exact Or.inr (List.mem_filter.mpr ⟨h, hb⟩)
  · exact Or.inl (List.mem_filter.mpr ⟨h, by simpa using hb⟩)

theorem agree_of_hi_eq {n : Nat} {S : List Bytes} (h : Agree (256 - (n + 1)) S) (e : Hi(255 - n, S) = S) :
    Agree (256 - n) S := by
  have := h.hi; rwa [e] at this

theorem agree_of_lo_eq {n : Nat} {S : List Bytes} (h : Agree (256 - (n + 1)) S) (e : Lo(255 - n, S) = S) :
    Agree (256 - n) S := by
  have := h.lo; rwa [e] at this

/-- the cases of `combine`: forward right, forward left, or hash -/
theorem combine_cases (H : Bytes → Bytes) (a b : Bytes × NodeType) :
    (a.2 = .empty ∧ b.2 ≠ .mid ∧ combine H a b = b) ∨
    (¬(a.2 = .empty ∧ b.2 ≠ .mid) ∧ b.2 = .empty ∧ a.2 ≠ .mid ∧ combine H a b = a) ∨
    (¬(a.2 = .empty ∧ b.2 ≠ .mid) ∧ ¬(b.2 = .empty ∧ a.2 ≠ .mid) ∧
      combine H a b = (hashNode H a.2 b.2 a.1 b.1, if a.2 = .term ∧ b.2 = .term then .midDbl else .mid)) := by
  unfold combine
  by_cases h1 : a.2 = .empty ∧ b.2 ≠ .mid
  · left; exact ⟨h1.1, h1.2, by rw [if_pos h1]⟩
  · by_cases h2 : b.2 = .empty ∧ a.2 ≠ .mid
    · right; left; exact ⟨h1, h2.1, h2.2, by rw [if_neg h1, if_pos h2]⟩
    · right; right; exact ⟨h1, h2, by rw [if_neg h1, if_neg h2]⟩

/-- a `term` value is an element of the set, and the set has no other element -/
theorem trie_term (H : Bytes → Bytes) (n : Nat) (S : List Bytes) (a : Bytes) (hS : ∀ x ∈ S, IsLeaf x)
    (hag : Agree (256 - n) S) (h : trie H n S = (a, .term)) : a ∈ S ∧ ∀ y ∈ S, y = a := by
  induction n generalizing S with
  | zero =>
    cases S with
    | nil => simp [trie] at h
    | cons x t =>
      simp [trie] at h; subst h
      exact ⟨List.mem_cons_self .., fun y hy => Agree.all_eq hag hS y hy x (List.mem_cons_self ..)⟩
  | succ n ih =>
    rw [trie_succ] at h
    rcases combine_cases H (trie H n (Lo(255 - n, S))) (trie H n (Hi(255 - n, S))) with
      ⟨h1, _, hc⟩ | ⟨_, h2, _, hc⟩ | ⟨_, _, hc⟩
    · have hlo := (trie_type_empty_iff H n _).mp h1
      have hhi := lo_nil_hi hlo
      rw [hc, hhi] at h
      exact ih S hS (agree_of_hi_eq hag hhi) h
    · have hhi := (trie_type_empty_iff H n _).mp h2
      have hlo := hi_nil_lo hhi
      rw [hc, hlo] at h
      exact ih S hS (agree_of_lo_eq hag hlo) h
    · rw [hc] at h
      have := congrArg Prod.snd h
      simp only [] at this
      split at this <;> simp at this

theorem length_BLANK : BLANK.length = 32 := by simp [BLANK, zeros]

/-- every value hash is 32 bytes long -/
theorem trie_hash_length (H : Bytes → Bytes) (hH : ∀ u, (H u).length = 32) (n : Nat) (S : List Bytes)
    (hS : ∀ x ∈ S, IsLeaf x) : (trie H n S).1.length = 32 := by
  induction n generalizing S with
  | zero =>
    cases S with
    | nil => exact length_BLANK
    | cons x t => exact (hS x (List.mem_cons_self ..)).1
  | succ n ih =>
    rw [trie_succ]
    have hl := ih (Lo(255 - n, S)) (fun x hx => hS x (List.mem_filter.mp hx).1)
    have hr := ih (Hi(255 - n, S)) (fun x hx => hS x (List.mem_filter.mp hx).1)
    rcases combine_cases H (trie H n (Lo(255 - n, S))) (trie H n (Hi(255 - n, S))) with
      ⟨_, _, hc⟩ | ⟨_, _, _, hc⟩ | ⟨_, _, hc⟩
    · rw [hc]; exact hr
    · rw [hc]; exact hl
    · rw [hc]; exact hH _

/-- a `midDbl` value: exactly two leaves, which first differ at some bit `e` -/
theorem trie_dbl (H : Bytes → Bytes) (n : Nat) (S : List Bytes) (h : Bytes) (hS : ∀ x ∈ S, IsLeaf x)
    (hag : Agree (256 - n) S) (hv : trie H n S = (h, .midDbl)) :
    ∃ a b e, 256 - n ≤ e ∧ e ≤ 255 ∧ h = hashNode H .term .term a b ∧ getBit a e = false ∧ getBit b e = true ∧
      (∀ i, i < e → getBit a i = getBit b i) ∧ a ∈ S ∧ b ∈ S ∧ (∀ y ∈ S, y = a ∨ y = b) ∧
      ttree H n S = .mid (.leaf a) (.leaf b) h := by
  induction n generalizing S with
  | zero => cases S <;> simp [trie] at hv
  | succ n ih =>
    rw [trie_succ] at hv
    rw [ttree_succ]
    rcases combine_cases H (trie H n (Lo(255 - n, S))) (trie H n (Hi(255 - n, S))) with
      ⟨h1, h1', hc⟩ | ⟨h1, h2, h2', hc⟩ | ⟨h1, h2, hc⟩
    · have hlo := (trie_type_empty_iff H n _).mp h1
      have hhi := lo_nil_hi hlo
      simp only [stepT]; rw [if_pos ⟨h1, h1'⟩]
      rw [hc] at hv
      rw [hhi] at hv ⊢
      obtain ⟨a, b, e, he, hrest⟩ := ih S hS (agree_of_hi_eq hag hhi) hv
      exact ⟨a, b, e, by omega, hrest⟩
    · have hhi := (trie_type_empty_iff H n _).mp h2
      have hlo := hi_nil_lo hhi
      simp only [stepT]; rw [if_neg h1, if_pos ⟨h2, h2'⟩]
      rw [hc] at hv
      rw [hlo] at hv ⊢
      obtain ⟨a, b, e, he, hrest⟩ := ih S hS (agree_of_lo_eq hag hlo) hv
      exact ⟨a, b, e, by omega, hrest⟩
    · rw [hc] at hv
      simp only [stepT]; rw [if_neg h1, if_neg h2]
      have hty := congrArg Prod.snd hv
      have hh := congrArg Prod.fst hv
      simp only [] at hty hh
      by_cases htt : (trie H n (Lo(255 - n, S))).2 = .term ∧ (trie H n (Hi(255 - n, S))).2 = .term
      · have hSlo : ∀ x ∈ Lo(255 - n, S), IsLeaf x := fun x hx => hS x (List.mem_filter.mp hx).1
        have hShi : ∀ x ∈ Hi(255 - n, S), IsLeaf x := fun x hx => hS x (List.mem_filter.mp hx).1
        have e1 : trie H n (Lo(255 - n, S)) = ((trie H n (Lo(255 - n, S))).1, .term) := by rw [← htt.1]
        have e2 : trie H n (Hi(255 - n, S)) = ((trie H n (Hi(255 - n, S))).1, .term) := by rw [← htt.2]
        obtain ⟨ma, alla⟩ := trie_term H n _ _ hSlo hag.lo e1
        obtain ⟨mb, allb⟩ := trie_term H n _ _ hShi hag.hi e2
        have s1 := ttree_shape H n (Lo(255 - n, S))
        have s2 := ttree_shape H n (Hi(255 - n, S))
        rw [e1] at s1; rw [e2] at s2
        simp only [Shape] at s1 s2
        have ba := (List.mem_filter.mp ma).2
        have bb := (List.mem_filter.mp mb).2
        refine ⟨(trie H n (Lo(255 - n, S))).1, (trie H n (Hi(255 - n, S))).1, 255 - n, by omega, by omega, ?_,
          by simpa using ba, bb, ?_, (List.mem_filter.mp ma).1, (List.mem_filter.mp mb).1, ?_, ?_⟩
        · rw [← hh, htt.1, htt.2]
        · intro i hi
          exact hag _ (List.mem_filter.mp ma).1 _ (List.mem_filter.mp mb).1 i (by omega)
        · intro y hy
          rcases mem_lo_or_hi (d := 255 - n) hy with hy | hy
          · exact Or.inl (alla y hy)
          · exact Or.inr (allb y hy)
        · rw [s1, s2, ← hh, htt.1, htt.2]
      · rw [if_neg htt] at hty; simp at hty

theorem Shape.enc {t : Tree} {v : Bytes × NodeType} (h : Shape t v) : encodeType t.ntype = encodeType v.2 := by
  obtain ⟨vh, vt⟩ := v
  cases vt <;> simp only [Shape] at h
  · subst h; rfl
  · subst h; rfl
  · obtain ⟨l, r, rfl, _⟩ := h; rfl
  · obtain ⟨l, r, rfl⟩ := h; rfl

theorem Shape.leaf?_isSome {t : Tree} {v : Bytes × NodeType} (h : Shape t v) : t.leaf?.isSome = true ↔ v.2 = .term := by
  obtain ⟨vh, vt⟩ := v
  cases vt <;> simp only [Shape] at h
  · subst h; simp [Tree.leaf?]
  · subst h; simp [Tree.leaf?]
  · obtain ⟨l, r, rfl, _⟩ := h; simp [Tree.leaf?]
  · obtain ⟨l, r, rfl⟩ := h; simp [Tree.leaf?]

theorem hashNode_enc (H : Bytes → Bytes) {a b a' b' : NodeType} (l r : Bytes) (h1 : encodeType a = encodeType a')
    (h2 : encodeType b = encodeType b') : hashNode H a b l r = hashNode H a' b' l r := by
  unfold hashNode; rw [h1, h2]

/-! ## unfolding the proof parser -/

theorem parse_empty (H : Bytes → Bytes) (f d : Nat) (p : List Bool) (rest : Bytes) (nv : NodeVec) :
    parseNode H (f + 1) d p (EMPTY :: rest) nv = some (rest, nv ++ [(.empty, BLANK)], nv.length, .empty) := by
  simp [parseNode, EMPTY]

theorem take_append_32 {x rest : Bytes} (hx : x.length = 32) : (x ++ rest).take 32 = x := by
  rw [← hx]; simp

theorem drop_append_32 {x rest : Bytes} (hx : x.length = 32) : (x ++ rest).drop 32 = rest := by
  rw [← hx]; simp

theorem parse_term (H : Bytes → Bytes) (f d : Nat) (p : List Bool) (x rest : Bytes) (nv : NodeVec)
    (hx : x.length = 32) (ha : auditOk x p = true) :
    parseNode H (f + 1) d p (TERMINAL :: (x ++ rest)) nv = some (rest, nv ++ [(.leaf, x)], nv.length, .term) := by
  have hlen : ¬ (x ++ rest).length < 32 := by simp [hx]
  simp [parseNode, EMPTY, TERMINAL, take_append_32 hx, drop_append_32 hx, ha, hx]

theorem parse_trunc (H : Bytes → Bytes) (f d : Nat) (p : List Bool) (x rest : Bytes) (nv : NodeVec)
    (hx : x.length = 32) :
    parseNode H (f + 1) d p (TRUNCATED :: (x ++ rest)) nv = some (rest, nv ++ [(.truncated, x)], nv.length, .mid) := by
  simp [parseNode, EMPTY, TERMINAL, TRUNCATED, take_append_32 hx, drop_append_32 hx, hx]

theorem parse_mid (H : Bytes → Bytes) (f d : Nat) (p : List Bool) (inp : Bytes) (nv : NodeVec) (hd : d ≤ 256) :
    parseNode H (f + 1) d p (MIDDLE :: inp) nv =
      match parseNode H f (d + 1) (p ++ [false]) inp nv with
      | none => none
      | some (rest1, nv1, li, lt) =>
        match parseNode H f (d + 1) (p ++ [true]) rest1 nv1 with
        | none => none
        | some (rest2, nv2, ri, rt) =>
          some (rest2, (parseMiddle H nv2 li lt ri rt).1, (parseMiddle H nv2 li lt ri rt).2.1,
            (parseMiddle H nv2 li lt ri rt).2.2) := by
  have : ¬ d > 256 := by omega
  simp [parseNode, EMPTY, TERMINAL, TRUNCATED, MIDDLE, this]
  rfl


/-! ## what a successful run of the parser on one node leaves behind -/

theorem hashAt_append {nv : NodeVec} {i : Nat} (e : NodeVec) (h : i < nv.length) :
    hashAt (nv ++ e) i = hashAt nv i := by
  unfold hashAt; rw [List.getElem?_append_left h]

/-- parsing `bs` (followed by `rest`) at depth `d` on route `p` succeeds, consumes exactly `bs`,
appends a non-empty block to the vector, leaves a value whose index denotes `vt` with type `ty`;
the last node appended denotes `nt`. -/
def ParsesTo (H : Bytes → Bytes) (f d : Nat) (p : List Bool) (bs rest : Bytes) (nv : NodeVec)
    (vt : Tree) (ty : NodeType) (nt : Tree) : Prop :=
  ∃ ext vi, parseNode H f d p (bs ++ rest) nv = some (rest, nv ++ ext, vi, ty) ∧
    vi < nv.length + ext.length ∧ ext ≠ [] ∧ Den (nv ++ ext) vi vt ∧ hashAt (nv ++ ext) vi = vt.hash ∧
    Den (nv ++ ext) (nv.length + ext.length - 1) nt

theorem getElem?_append_self (nv : NodeVec) (x : ArrayType × Bytes) : (nv ++ [x])[nv.length]? = some x := by
  simp

theorem parsesTo_empty (H : Bytes → Bytes) (f d : Nat) (p : List Bool) (rest : Bytes) (nv : NodeVec) :
    ParsesTo H (f + 1) d p [EMPTY] rest nv .empty .empty .empty := by
  refine ⟨[(.empty, BLANK)], nv.length, parse_empty H f d p rest nv, by simp, by simp, ?_, ?_, ?_⟩
  · exact Den.empty (h := BLANK) (getElem?_append_self _ _)
  · simp [hashAt, Tree.hash]
  · exact Den.empty (h := BLANK) (by simp)

theorem parsesTo_term (H : Bytes → Bytes) (f d : Nat) (p : List Bool) (x rest : Bytes) (nv : NodeVec)
    (hx : x.length = 32) (ha : auditOk x p = true) :
    ParsesTo H (f + 1) d p (TERMINAL :: x) rest nv (.leaf x) .term (.leaf x) := by
  refine ⟨[(.leaf, x)], nv.length, parse_term H f d p x rest nv hx ha, by simp, by simp, ?_, ?_, ?_⟩
  · exact Den.leaf (getElem?_append_self _ _)
  · simp [hashAt, Tree.hash]
  · exact Den.leaf (by simp)

theorem parsesTo_trunc (H : Bytes → Bytes) (f d : Nat) (p : List Bool) (x rest : Bytes) (nv : NodeVec)
    (hx : x.length = 32) :
    ParsesTo H (f + 1) d p (TRUNCATED :: x) rest nv (.trunc x) .mid (.trunc x) := by
  refine ⟨[(.truncated, x)], nv.length, parse_trunc H f d p x rest nv hx, by simp, by simp, ?_, ?_, ?_⟩
  · exact Den.trunc (getElem?_append_self _ _)
  · simp [hashAt, Tree.hash]
  · exact Den.trunc (by simp)

/-- a `MIDDLE` whose children do not collapse: a new hashed node becomes the value -/
theorem parsesTo_mid (H : Bytes → Bytes) {f d : Nat} {p : List Bool} {bl br rest : Bytes} {nv : NodeVec}
    {vl vr ntl ntr : Tree} {lt rt : NodeType} (hd : d ≤ 256)
    (hl : ParsesTo H f (d + 1) (p ++ [false]) bl (br ++ rest) nv vl lt ntl)
    (hr : ∀ nv1, ParsesTo H f (d + 1) (p ++ [true]) br rest nv1 vr rt ntr)
    (hnc : ¬(lt = .empty ∧ rt = .midDbl)) (hnc2 : ¬(lt = .midDbl ∧ rt = .empty)) :
    ParsesTo H (f + 1) d p (MIDDLE :: (bl ++ br)) rest nv
      (.mid vl vr (hashNode H vl.ntype vr.ntype vl.hash vr.hash))
      (if lt = .term ∧ rt = .term then .midDbl else .mid)
      (.mid vl vr (hashNode H vl.ntype vr.ntype vl.hash vr.hash)) := by
  obtain ⟨ext1, li, e1, hli, hne1, hd1, hh1, _⟩ := hl
  obtain ⟨ext2, ri, e2, hri, hne2, hd2, hh2, _⟩ := hr (nv ++ ext1)
  simp only [List.length_append] at hri
  have hli' : li < (nv ++ ext1 ++ ext2).length := by simp only [List.length_append, List.length_cons, List.length_nil]; omega
  have hri' : ri < (nv ++ ext1 ++ ext2).length := by simp only [List.length_append, List.length_cons, List.length_nil]; omega
  have hd1' : Den (nv ++ ext1 ++ ext2) li vl := hd1.append ext2
  have hh1' : hashAt (nv ++ ext1 ++ ext2) li = vl.hash := by
    rw [hashAt_append ext2 (by simp only [List.length_append, List.length_cons, List.length_nil]; omega)]; exact hh1
  let node : ArrayType × Bytes := (.middle li ri, hashNode H vl.ntype vr.ntype vl.hash vr.hash)
  have hpm : parseMiddle H (nv ++ ext1 ++ ext2) li lt ri rt =
      ((nv ++ ext1 ++ ext2) ++ [node], (nv ++ ext1 ++ ext2).length, if lt = .term ∧ rt = .term then .midDbl else .mid) := by
    unfold parseMiddle
    rw [if_neg hnc, if_neg hnc2, hd1'.typeAt, hd2.typeAt, hh1', hh2]
  refine ⟨ext1 ++ ext2 ++ [node], (nv ++ ext1 ++ ext2).length, ?_, ?_, by simp, ?_, ?_, ?_⟩
  · have : (MIDDLE :: (bl ++ br)) ++ rest = MIDDLE :: (bl ++ (br ++ rest)) := by simp
    rw [this, parse_mid H f d p _ nv hd, e1]
    simp only []
    rw [e2]
    simp only [hpm]
    simp only [List.append_assoc]
  · simp only [List.length_append, List.length_cons, List.length_nil]; omega
  · have : nv ++ (ext1 ++ ext2 ++ [node]) = (nv ++ ext1 ++ ext2) ++ [node] := by simp
    rw [this]
    exact Den.mid (getElem?_append_self _ _) hli' hri' (hd1'.append _) (hd2.append _)
  · have : nv ++ (ext1 ++ ext2 ++ [node]) = (nv ++ ext1 ++ ext2) ++ [node] := by simp
    rw [this]
    simp [hashAt, Tree.hash, node]
  · have : nv ++ (ext1 ++ ext2 ++ [node]) = (nv ++ ext1 ++ ext2) ++ [node] := by simp
    rw [this]
    have hidx : nv.length + (ext1 ++ ext2 ++ [node]).length - 1 = (nv ++ ext1 ++ ext2).length := by
      simp only [List.length_append, List.length_cons, List.length_nil]; omega
    rw [hidx]
    exact Den.mid (getElem?_append_self _ _) hli' hri' (hd1'.append _) (hd2.append _)


/-- `MIDDLE` over `(empty, midDbl)`: the level is collapsed, the right value stays the value -/
theorem parsesTo_collapse_right (H : Bytes → Bytes) {f d : Nat} {p : List Bool} {bl br rest : Bytes} {nv : NodeVec}
    {vr ntl ntr : Tree} (hd : d ≤ 256)
    (hl : ParsesTo H f (d + 1) (p ++ [false]) bl (br ++ rest) nv .empty .empty ntl)
    (hr : ∀ nv1, ParsesTo H f (d + 1) (p ++ [true]) br rest nv1 vr .midDbl ntr) :
    ParsesTo H (f + 1) d p (MIDDLE :: (bl ++ br)) rest nv vr .midDbl (.mid .empty vr vr.hash) := by
  obtain ⟨ext1, li, e1, hli, hne1, hd1, hh1, _⟩ := hl
  obtain ⟨ext2, ri, e2, hri, hne2, hd2, hh2, _⟩ := hr (nv ++ ext1)
  simp only [List.length_append] at hri
  have hli' : li < (nv ++ ext1 ++ ext2).length := by simp only [List.length_append]; omega
  have hri' : ri < (nv ++ ext1 ++ ext2).length := by simp only [List.length_append]; omega
  have hd1' : Den (nv ++ ext1 ++ ext2) li .empty := hd1.append ext2
  let node : ArrayType × Bytes := (.middle li ri, vr.hash)
  have hpm : parseMiddle H (nv ++ ext1 ++ ext2) li .empty ri .midDbl =
      ((nv ++ ext1 ++ ext2) ++ [node], ri, .midDbl) := by
    unfold parseMiddle
    rw [if_pos ⟨rfl, rfl⟩, hh2]
  refine ⟨ext1 ++ ext2 ++ [node], ri, ?_, ?_, by simp, ?_, ?_, ?_⟩
  · have : (MIDDLE :: (bl ++ br)) ++ rest = MIDDLE :: (bl ++ (br ++ rest)) := by simp
    rw [this, parse_mid H f d p _ nv hd, e1]
    simp only []
    rw [e2]
    simp only [hpm]
    simp only [List.append_assoc]
  · simp only [List.length_append, List.length_cons, List.length_nil]; omega
  · have : nv ++ (ext1 ++ ext2 ++ [node]) = (nv ++ ext1 ++ ext2) ++ [node] := by simp
    rw [this]
    exact hd2.append _
  · have : nv ++ (ext1 ++ ext2 ++ [node]) = (nv ++ ext1 ++ ext2) ++ [node] := by simp
    rw [this, hashAt_append _ hri']
    exact hh2
  · have : nv ++ (ext1 ++ ext2 ++ [node]) = (nv ++ ext1 ++ ext2) ++ [node] := by simp
    rw [this]
    have hidx : nv.length + (ext1 ++ ext2 ++ [node]).length - 1 = (nv ++ ext1 ++ ext2).length := by
      simp only [List.length_append, List.length_cons, List.length_nil]; omega
    rw [hidx]
    exact Den.mid (getElem?_append_self _ _) hli' hri' (hd1'.append _) (hd2.append _)

/-- `MIDDLE` over `(midDbl, empty)`: the level is collapsed, the left value stays the value -/
theorem parsesTo_collapse_left (H : Bytes → Bytes) {f d : Nat} {p : List Bool} {bl br rest : Bytes} {nv : NodeVec}
    {vl ntl ntr : Tree} (hd : d ≤ 256)
    (hl : ParsesTo H f (d + 1) (p ++ [false]) bl (br ++ rest) nv vl .midDbl ntl)
    (hr : ∀ nv1, ParsesTo H f (d + 1) (p ++ [true]) br rest nv1 .empty .empty ntr) :
    ParsesTo H (f + 1) d p (MIDDLE :: (bl ++ br)) rest nv vl .midDbl (.mid vl .empty vl.hash) := by
  obtain ⟨ext1, li, e1, hli, hne1, hd1, hh1, _⟩ := hl
  obtain ⟨ext2, ri, e2, hri, hne2, hd2, hh2, _⟩ := hr (nv ++ ext1)
  simp only [List.length_append] at hri
  have hli' : li < (nv ++ ext1 ++ ext2).length := by simp only [List.length_append]; omega
  have hri' : ri < (nv ++ ext1 ++ ext2).length := by simp only [List.length_append]; omega
  have hd1' : Den (nv ++ ext1 ++ ext2) li vl := hd1.append ext2
  have hh1' : hashAt (nv ++ ext1 ++ ext2) li = vl.hash := by
    rw [hashAt_append ext2 (by simp only [List.length_append]; omega)]; exact hh1
  let node : ArrayType × Bytes := (.middle li ri, vl.hash)
  have hpm : parseMiddle H (nv ++ ext1 ++ ext2) li .midDbl ri .empty =
      ((nv ++ ext1 ++ ext2) ++ [node], li, .midDbl) := by
    unfold parseMiddle
    rw [if_neg (by simp), if_pos ⟨rfl, rfl⟩, hh1']
  refine ⟨ext1 ++ ext2 ++ [node], li, ?_, ?_, by simp, ?_, ?_, ?_⟩
  · have : (MIDDLE :: (bl ++ br)) ++ rest = MIDDLE :: (bl ++ (br ++ rest)) := by simp
    rw [this, parse_mid H f d p _ nv hd, e1]
    simp only []
    rw [e2]
    simp only [hpm]
    simp only [List.append_assoc]
  · simp only [List.length_append, List.length_cons, List.length_nil]; omega
  · have : nv ++ (ext1 ++ ext2 ++ [node]) = (nv ++ ext1 ++ ext2) ++ [node] := by simp
    rw [this]
    exact hd1'.append _
  · have : nv ++ (ext1 ++ ext2 ++ [node]) = (nv ++ ext1 ++ ext2) ++ [node] := by simp
    rw [this, hashAt_append _ hli']
    exact hh1'
  · have : nv ++ (ext1 ++ ext2 ++ [node]) = (nv ++ ext1 ++ ext2) ++ [node] := by simp
    rw [this]
    have hidx : nv.length + (ext1 ++ ext2 ++ [node]).length - 1 = (nv ++ ext1 ++ ext2).length := by
      simp only [List.length_append, List.length_cons, List.length_nil]; omega
    rw [hidx]
    exact Den.mid (getElem?_append_self _ _) hli' hri' (hd1'.append _) (hd2.append _)

/-- the value tree of a double-leaf node -/
abbrev dblT (H : Bytes → Bytes) (a b : Bytes) : Tree := .mid (.leaf a) (.leaf b) (hashNode H .term .term a b)

/-- the parser on the bytes of `pad_middles_for_proof_gen`: the two leaves at the bottom are the
value (type `midDbl`), every level above is collapsed; the last node pushed is the top of the chain -/
theorem pad_parses (H : Bytes → Bytes) (a b : Bytes) (ha : a.length = 32) (hb : b.length = 32) (e : Nat)
    (he : e ≤ 255) (hae : getBit a e = false) (hbe : getBit b e = true)
    (hagree : ∀ i, i < e → getBit a i = getBit b i) :
    ∀ (k d : Nat) (p : List Bool), d ≤ e → e - d < k → p.length = d → Path p a → Path p b →
      ∀ (f : Nat) (nv : NodeVec) (rest : Bytes), f + d = 258 →
        ParsesTo H f d p (padMiddlesForProofGen k a b d) rest nv (dblT H a b) .midDbl
          (if d = e then dblT H a b
           else if getBit a d = true then .mid .empty (dblT H a b) (hashNode H .term .term a b)
           else .mid (dblT H a b) .empty (hashNode H .term .term a b)) := by
  intro k
  induction k with
  | zero => intro d p _ h; omega
  | succ k ih =>
    intro d p hde hk hpl hpa hpb f nv rest hf
    obtain ⟨f1, rfl⟩ : ∃ f1, f = f1 + 1 := ⟨f - 1, by omega⟩
    obtain ⟨f2, rfl⟩ : ∃ f2, f1 = f2 + 1 := ⟨f1 - 1, by omega⟩
    unfold padMiddlesForProofGen
    simp only []
    by_cases hd : d = e
    · subst hd
      rw [if_pos (by rw [hae, hbe]; simp), if_pos rfl]
      have e1 : [MIDDLE, TERMINAL] ++ a ++ [TERMINAL] ++ b = MIDDLE :: ((TERMINAL :: a) ++ (TERMINAL :: b)) := by simp
      rw [e1]
      have hl := parsesTo_term H f2 (d + 1) (p ++ [false]) a ((TERMINAL :: b) ++ rest) nv ha
        (auditOk_of_path (hpa.snoc (by rw [hpl]; exact hae)) (by simp; omega))
      have hr := fun nv1 => parsesTo_term H f2 (d + 1) (p ++ [true]) b rest nv1 hb
        (auditOk_of_path (hpb.snoc (by rw [hpl]; exact hbe)) (by simp; omega))
      have := parsesTo_mid H (by omega) hl hr (by simp) (by simp)
      simpa [Tree.ntype, Tree.hash] using this
    · have hlt : d < e := by omega
      have hab := hagree d hlt
      rw [if_neg (by rw [hab]; simp), if_neg hd]
      have hmod : (d + 1) % 256 = d + 1 := Nat.mod_eq_of_lt (by omega)
      rw [hmod]
      by_cases hbit : getBit a d = true
      · rw [if_pos hbit, if_pos hbit]
        have e1 : [MIDDLE, EMPTY] ++ padMiddlesForProofGen k a b (d + 1) = MIDDLE :: ([EMPTY] ++ padMiddlesForProofGen k a b (d + 1)) := by simp
        rw [e1]
        have hl := parsesTo_empty H f2 (d + 1) (p ++ [false]) (padMiddlesForProofGen k a b (d + 1) ++ rest) nv
        have hr := fun nv1 => ih (d + 1) (p ++ [true]) (by omega) (by omega) (by simp [hpl])
          (hpa.snoc (by rw [hpl]; exact hbit)) (hpb.snoc (by rw [hpl, ← hab]; exact hbit)) (f2 + 1) nv1 rest (by omega)
        have := parsesTo_collapse_right H (by omega) hl hr
        simpa [Tree.hash] using this
      · rw [if_neg hbit, if_neg hbit]
        have hbit' : getBit a d = false := by simpa using hbit
        have e1 : [MIDDLE] ++ padMiddlesForProofGen k a b (d + 1) ++ [EMPTY] = MIDDLE :: (padMiddlesForProofGen k a b (d + 1) ++ [EMPTY]) := by simp
        rw [e1]
        have hl := ih (d + 1) (p ++ [false]) (by omega) (by omega) (by simp [hpl])
          (hpa.snoc (by rw [hpl]; exact hbit')) (hpb.snoc (by rw [hpl, ← hab]; exact hbit')) (f2 + 1) nv ([EMPTY] ++ rest) (by omega)
        have hr := fun nv1 => parsesTo_empty H f2 (d + 1) (p ++ [true]) rest nv1
        have := parsesTo_collapse_left H (by omega) hl hr
        simpa [Tree.hash] using this

/-- what `other_included` leaves of a sub-tree: its hash as a truncated node -/
def Tree.stub : Tree → Tree
  | .empty => .empty
  | .leaf x => .leaf x
  | .trunc h => .trunc h
  | .mid _ _ h => .trunc h

theorem Tree.stub_hash (t : Tree) : t.stub.hash = t.hash := by cases t <;> rfl
theorem Tree.stub_ntype (t : Tree) : t.stub.ntype = t.ntype := by cases t <;> rfl
theorem Tree.stub_leaf? (t : Tree) : t.stub.leaf? = t.leaf? := by cases t <;> rfl

/-- the type under which a truncated sub-tree re-enters the parser -/
def otherTy : NodeType → NodeType
  | .midDbl => .mid
  | t => t

theorem trie_empty_val (H : Bytes → Bytes) (n : Nat) (S : List Bytes) (h : (trie H n S).2 = .empty) :
    (trie H n S).1 = BLANK := by
  have := (trie_type_empty_iff H n S).mp h
  subst this; rw [trie_nil]

/-- the parser on the bytes `other_included` emits for the sub-tree of `S` -/
theorem other_parses (H : Bytes → Bytes) (hH : ∀ u, (H u).length = 32) (n : Nat) (S : List Bytes)
    (hS : ∀ y ∈ S, IsLeaf y) (hag : Agree (256 - n) S) (d : Nat) (p : List Bool)
    (hp : ∀ y ∈ S, Path p y) (hlen : p.length ≤ 256) (f : Nat) (nv : NodeVec) (rest : Bytes) :
    ParsesTo H (f + 1) d p (ttree H n S).other rest nv (ttree H n S).stub (otherTy (trie H n S).2)
      (ttree H n S).stub := by
  have sh := ttree_shape H n S
  have hlen32 := trie_hash_length H hH n S hS
  cases hv : trie H n S with
  | mk vh vt =>
    rw [hv] at sh hlen32
    cases vt <;> simp only [Shape] at sh
    · rw [sh]; exact parsesTo_empty H f d p rest nv
    · rw [sh]
      obtain ⟨hm, _⟩ := trie_term H n S vh hS hag hv
      exact parsesTo_term H f d p vh rest nv (hS vh hm).1 (auditOk_of_path (hp vh hm) hlen)
    · obtain ⟨l, r, e, _⟩ := sh
      rw [e]; exact parsesTo_trunc H f d p vh rest nv hlen32
    · obtain ⟨l, r, e⟩ := sh
      rw [e]; exact parsesTo_trunc H f d p vh rest nv hlen32

theorem genProof_mid_not_both (l r : Tree) (h x : Bytes) (d : Nat)
    (hnb : ¬ (l.leaf?.isSome = true ∧ r.leaf?.isSome = true)) :
    (Tree.mid l r h).genProof x d =
      if getBit x d then
        match r.genProof x ((d + 1) % 256) with
        | none => none
        | some (b, p) => some (b, [MIDDLE] ++ l.other ++ p)
      else
        match l.genProof x ((d + 1) % 256) with
        | none => none
        | some (b, p) => some (b, [MIDDLE] ++ p ++ r.other) := by
  conv => lhs; unfold Tree.genProof
  cases hl : l.leaf? <;> cases hr : r.leaf? <;> first | (simp_all; done) | (simp_all; rfl) | rfl

theorem trie_zero_type (H : Bytes → Bytes) (S : List Bytes) : (trie H 0 S).2 = .empty ∨ (trie H 0 S).2 = .term := by
  cases S <;> simp [trie]


/-- proof generation on the `from_leafs` tree of `S` at depth `d` (route `p`) yields the membership
flag and bytes that the parser turns back into a value with the reference hash and type, on which
the walk for `x` again yields the membership flag -/
def GenOK (H : Bytes → Bytes) (x : Bytes) (n : Nat) (S : List Bytes) (d : Nat) (p : List Bool) : Prop :=
  ∃ bs vt nt, (ttree H n S).genProof x d = some (decide (x ∈ S), bs) ∧
    vt.hash = (trie H n S).1 ∧ vt.ntype = (ttree H n S).ntype ∧ vt.leaf? = (ttree H n S).leaf? ∧
    (vt.genProof x d).map Prod.fst = some (decide (x ∈ S)) ∧ ((trie H n S).2 = .mid → nt = vt) ∧
    ∀ (f : Nat) (nv : NodeVec) (rest : Bytes), f + d = 258 → ParsesTo H f d p bs rest nv vt (trie H n S).2 nt

theorem gen_empty (H : Bytes → Bytes) (x : Bytes) (n d : Nat) (p : List Bool) (hd : d ≤ 256) :
    GenOK H x n [] d p := by
  refine ⟨[EMPTY], .empty, .empty, by rw [ttree_nil]; simp [Tree.genProof], ?_, ?_, ?_, ?_, ?_, ?_⟩
  · rw [trie_nil]; rfl
  · rw [ttree_nil]
  · rw [ttree_nil]
  · simp [Tree.genProof]
  · rw [trie_nil]; simp
  · intro f nv rest hf
    obtain ⟨f1, rfl⟩ : ∃ f1, f = f1 + 1 := ⟨f - 1, by omega⟩
    rw [trie_nil]; exact parsesTo_empty H f1 d p rest nv

theorem gen_term (H : Bytes → Bytes) (x : Bytes) (n : Nat) (S : List Bytes) (a : Bytes)
    (hS : ∀ y ∈ S, IsLeaf y) (hag : Agree (256 - n) S) (hv : trie H n S = (a, .term))
    (d : Nat) (p : List Bool) (hd : d ≤ 256) (hpl : p.length = d) (hp : ∀ y ∈ S, Path p y) :
    GenOK H x n S d p := by
  obtain ⟨hm, hall⟩ := trie_term H n S a hS hag hv
  have sh := ttree_shape H n S
  rw [hv] at sh; simp only [Shape] at sh
  have hflag : decide (a = x) = decide (x ∈ S) := by
    apply decide_eq_decide.mpr
    constructor
    · intro h; rw [← h]; exact hm
    · intro h; exact (hall x h).symm
  refine ⟨TERMINAL :: a, .leaf a, .leaf a, by rw [sh]; simp [Tree.genProof, hflag], ?_, ?_, ?_, ?_, ?_, ?_⟩
  · rw [hv]; rfl
  · rw [sh]
  · rw [sh]
  · simp [Tree.genProof, hflag]
  · rw [hv]; simp
  · intro f nv rest hf
    obtain ⟨f1, rfl⟩ : ∃ f1, f = f1 + 1 := ⟨f - 1, by omega⟩
    rw [hv]; exact parsesTo_term H f1 d p a rest nv (hS a hm).1 (auditOk_of_path (hp a hm) (by omega))

theorem gen_dbl (H : Bytes → Bytes) (x : Bytes) (n : Nat) (S : List Bytes) (h : Bytes)
    (hS : ∀ y ∈ S, IsLeaf y) (hag : Agree (256 - n) S) (hv : trie H n S = (h, .midDbl))
    (d : Nat) (p : List Bool) (hd : d ≤ 256 - n) (hpl : p.length = d) (hp : ∀ y ∈ S, Path p y) :
    GenOK H x n S d p := by
  obtain ⟨a, b, e, he1, he2, hh, hae, hbe, hagree, hma, hmb, hall, ht⟩ := trie_dbl H n S h hS hag hv
  have hflag : (decide (a = x) || decide (b = x)) = decide (x ∈ S) := by
    rw [Bool.eq_iff_iff]
    simp only [Bool.or_eq_true, decide_eq_true_eq]
    constructor
    · rintro (h | h)
      · rw [← h]; exact hma
      · rw [← h]; exact hmb
    · intro hx
      rcases hall x hx with h | h
      · exact Or.inl h.symm
      · exact Or.inr h.symm
  have hgp : ∀ d, (Tree.mid (.leaf a) (.leaf b) h).genProof x d =
      some (decide (x ∈ S), padMiddlesForProofGen 257 a b d) := by
    intro d; simp [Tree.genProof, Tree.leaf?, hflag]
  refine ⟨padMiddlesForProofGen 257 a b d, dblT H a b,
    (if d = e then dblT H a b
     else if getBit a d = true then .mid .empty (dblT H a b) (hashNode H .term .term a b)
     else .mid (dblT H a b) .empty (hashNode H .term .term a b)),
    by rw [ht]; exact hgp d, ?_, ?_, ?_, ?_, ?_, ?_⟩
  · rw [hv, hh]; rfl
  · rw [ht]; rfl
  · rw [ht]; rfl
  · show Option.map Prod.fst ((Tree.mid (.leaf a) (.leaf b) (hashNode H .term .term a b)).genProof x d) = _
    rw [← hh, hgp]; rfl
  · rw [hv]; simp
  · intro f nv rest hf
    rw [hv]
    exact pad_parses H a b (hS a hma).1 (hS b hmb).1 e he2 hae hbe hagree 257 d p (by omega) (by omega) hpl
      (hp a hma) (hp b hmb) f nv rest hf

theorem otherTy_ne_midDbl (t : NodeType) : otherTy t ≠ .midDbl := by cases t <;> simp [otherTy]
theorem otherTy_eq_empty {t : NodeType} : otherTy t = .empty ↔ t = .empty := by cases t <;> simp [otherTy]
theorem otherTy_eq_term {t : NodeType} : otherTy t = .term ↔ t = .term := by cases t <;> simp [otherTy]

theorem mem_hi_iff {d : Nat} {S : List Bytes} {x : Bytes} (hb : getBit x d = true) : x ∈ Hi(d, S) ↔ x ∈ S := by
  simp [List.mem_filter, hb]

theorem mem_lo_iff {d : Nat} {S : List Bytes} {x : Bytes} (hb : getBit x d = false) : x ∈ Lo(d, S) ↔ x ∈ S := by
  simp [List.mem_filter, hb]

theorem map_fst_some {α β : Type} {o : Option (α × β)} {c : α} (h : o.map Prod.fst = some c) :
    ∃ q, o = some (c, q) := by
  cases o with
  | none => simp at h
  | some v => obtain ⟨a, b⟩ := v; simp at h; subst h; exact ⟨b, rfl⟩

/-- completeness engine: `GenOK` for every set, depth and route -/
theorem gen_parses (H : Bytes → Bytes) (hH : ∀ u, (H u).length = 32) (x : Bytes) :
    ∀ (n : Nat) (S : List Bytes), (∀ y ∈ S, IsLeaf y) → Agree (256 - n) S → n ≤ 256 →
      ∀ (d : Nat) (p : List Bool), d ≤ 256 - n → p.length = d → (∀ y ∈ S, Path p y) →
        ((trie H n S).2 = .mid → d = 256 - n) → GenOK H x n S d p := by
  intro n
  induction n with
  | zero =>
    intro S hS hag _ d p hd hpl hp _
    rcases trie_zero_type H S with h | h
    · have := (trie_type_empty_iff H 0 S).mp h
      subst this; exact gen_empty H x 0 d p (by omega)
    · exact gen_term H x 0 S (trie H 0 S).1 hS hag (by rw [← h]) d p (by omega) hpl hp
  | succ n ih =>
    intro S hS hag hn d p hd hpl hp hmid
    cases hv : trie H (n + 1) S with
    | mk vh vt =>
    cases vt with
    | empty =>
      have := (trie_type_empty_iff H (n + 1) S).mp (by rw [hv])
      subst this; exact gen_empty H x (n + 1) d p (by omega)
    | term => exact gen_term H x (n + 1) S vh hS hag hv d p (by omega) hpl hp
    | midDbl => exact gen_dbl H x (n + 1) S vh hS hag hv d p hd hpl hp
    | mid =>
      have hd' : d = 255 - n := by have := hmid (by rw [hv]); omega
      have hSlo : ∀ y ∈ Lo(255 - n, S), IsLeaf y := fun y hy => hS y (List.mem_filter.mp hy).1
      have hShi : ∀ y ∈ Hi(255 - n, S), IsLeaf y := fun y hy => hS y (List.mem_filter.mp hy).1
      have hplo : ∀ y ∈ Lo(255 - n, S), Path (p ++ [false]) y := fun y hy =>
        (hp y (List.mem_filter.mp hy).1).snoc (by rw [hpl, hd']; simpa using (List.mem_filter.mp hy).2)
      have hphi : ∀ y ∈ Hi(255 - n, S), Path (p ++ [true]) y := fun y hy =>
        (hp y (List.mem_filter.mp hy).1).snoc (by rw [hpl, hd']; exact (List.mem_filter.mp hy).2)
      have hvv := hv
      rw [trie_succ] at hv
      rcases combine_cases H (trie H n (Lo(255 - n, S))) (trie H n (Hi(255 - n, S))) with
        ⟨_, h1', hc⟩ | ⟨_, _, h2', hc⟩ | ⟨h1, h2, hc⟩
      · rw [hc] at hv; rw [hv] at h1'; simp at h1'
      · rw [hc] at hv; rw [hv] at h2'; simp at h2'
      · rw [hc] at hv
        have hty := congrArg Prod.snd hv
        have hh := congrArg Prod.fst hv
        simp only [] at hty hh
        have hnt : ¬((trie H n (Lo(255 - n, S))).2 = .term ∧ (trie H n (Hi(255 - n, S))).2 = .term) := by
          intro h; rw [if_pos h] at hty; simp at hty
        have hn1 : 1 ≤ n := by
          rcases Nat.eq_zero_or_pos n with h0 | h0
          · subst h0
            exfalso
            rcases trie_zero_type H (Lo(255 - 0, S)) with ha | ha <;>
              rcases trie_zero_type H (Hi(255 - 0, S)) with hb | hb
            · exact h1 ⟨ha, by rw [hb]; simp⟩
            · exact h1 ⟨ha, by rw [hb]; simp⟩
            · exact h2 ⟨hb, by rw [ha]; simp⟩
            · exact hnt ⟨ha, hb⟩
          · exact h0
        have hmod : (d + 1) % 256 = d + 1 := Nat.mod_eq_of_lt (by omega)
        have shl := ttree_shape H n (Lo(255 - n, S))
        have shr := ttree_shape H n (Hi(255 - n, S))
        have hnb : ¬((ttree H n (Lo(255 - n, S))).leaf?.isSome = true ∧ (ttree H n (Hi(255 - n, S))).leaf?.isSome = true) := by
          rw [shl.leaf?_isSome, shr.leaf?_isSome]; exact hnt
        have htree : ttree H (n + 1) S = .mid (ttree H n (Lo(255 - n, S))) (ttree H n (Hi(255 - n, S))) vh := by
          rw [ttree_succ]; simp only [stepT]; rw [if_neg h1, if_neg h2, hh]
        have hhl : (ttree H n (Lo(255 - n, S))).hash = (trie H n (Lo(255 - n, S))).1 := shl.hash (trie_empty_val H n _)
        have hhr : (ttree H n (Hi(255 - n, S))).hash = (trie H n (Hi(255 - n, S))).1 := shr.hash (trie_empty_val H n _)
        by_cases hbit : getBit x d = true
        · -- the item is on the right: the left sub-tree is truncated
          obtain ⟨bsr, vtr, ntr, hgr, hvh, hvn, hvl, hvg, _, hpr⟩ :=
            ih (Hi(255 - n, S)) hShi hag.hi (by omega) (d + 1) (p ++ [true]) (by omega) (by simp [hpl]) hphi (fun _ => by omega)
          have hflag : decide (x ∈ Hi(255 - n, S)) = decide (x ∈ S) :=
            decide_eq_decide.mpr (mem_hi_iff (by rw [← hd']; exact hbit))
          rw [hflag] at hgr hvg
          refine ⟨MIDDLE :: ((ttree H n (Lo(255 - n, S))).other ++ bsr),
            .mid (ttree H n (Lo(255 - n, S))).stub vtr (hashNode H (ttree H n (Lo(255 - n, S))).stub.ntype vtr.ntype
              (ttree H n (Lo(255 - n, S))).stub.hash vtr.hash), _, ?_, ?_, ?_, ?_, ?_, fun _ => rfl, ?_⟩
          · rw [htree, genProof_mid_not_both _ _ _ _ _ hnb, if_pos hbit, hmod, hgr]; simp
          · rw [hvv]; change hashNode H _ _ _ _ = vh; rw [← hh, Tree.stub_hash, Tree.stub_ntype, hvh, hvn, hhl]
            exact hashNode_enc H _ _ shl.enc shr.enc
          · rw [htree]; rfl
          · rw [htree]; rfl
          · obtain ⟨q, hq⟩ := map_fst_some hvg
            rw [genProof_mid_not_both _ _ _ _ _ (by rw [Tree.stub_leaf?, hvl]; exact hnb), if_pos hbit, hmod, hq]
            rfl
          · intro f nv rest hf
            obtain ⟨f1, rfl⟩ : ∃ f1, f = f1 + 1 := ⟨f - 1, by omega⟩
            obtain ⟨f2, rfl⟩ : ∃ f2, f1 = f2 + 1 := ⟨f1 - 1, by omega⟩
            have hl := other_parses H hH n (Lo(255 - n, S)) hSlo hag.lo (d + 1) (p ++ [false]) hplo
              (by simp [hpl]; omega) f2 nv (bsr ++ rest)
            have hr := fun nv1 => hpr (f2 + 1) nv1 rest (by omega)
            have := parsesTo_mid H (by omega) hl hr
              (by rintro ⟨e1, e2⟩; rw [otherTy_eq_empty] at e1; exact h1 ⟨e1, by rw [e2]; simp⟩)
              (by rintro ⟨e1, _⟩; exact otherTy_ne_midDbl _ e1)
            rw [if_neg (by rw [otherTy_eq_term]; exact hnt)] at this
            rw [hvv]; exact this
        · -- the item is on the left: the right sub-tree is truncated
          have hbit' : getBit x d = false := by simpa using hbit
          obtain ⟨bsl, vtl, ntl, hgl, hvh, hvn, hvl, hvg, _, hpl'⟩ :=
            ih (Lo(255 - n, S)) hSlo hag.lo (by omega) (d + 1) (p ++ [false]) (by omega) (by simp [hpl]) hplo (fun _ => by omega)
          have hflag : decide (x ∈ Lo(255 - n, S)) = decide (x ∈ S) :=
            decide_eq_decide.mpr (mem_lo_iff (by rw [← hd']; exact hbit'))
          rw [hflag] at hgl hvg
          refine ⟨MIDDLE :: (bsl ++ (ttree H n (Hi(255 - n, S))).other),
            .mid vtl (ttree H n (Hi(255 - n, S))).stub (hashNode H vtl.ntype (ttree H n (Hi(255 - n, S))).stub.ntype
              vtl.hash (ttree H n (Hi(255 - n, S))).stub.hash), _, ?_, ?_, ?_, ?_, ?_, fun _ => rfl, ?_⟩
          · rw [htree, genProof_mid_not_both _ _ _ _ _ hnb, if_neg hbit, hmod, hgl]; simp
          · rw [hvv]; change hashNode H _ _ _ _ = vh; rw [← hh, Tree.stub_hash, Tree.stub_ntype, hvh, hvn, hhr]
            exact hashNode_enc H _ _ shl.enc shr.enc
          · rw [htree]; rfl
          · rw [htree]; rfl
          · obtain ⟨q, hq⟩ := map_fst_some hvg
            rw [genProof_mid_not_both _ _ _ _ _ (by rw [Tree.stub_leaf?, hvl]; exact hnb), if_neg hbit, hmod, hq]
            rfl
          · intro f nv rest hf
            obtain ⟨f1, rfl⟩ : ∃ f1, f = f1 + 1 := ⟨f - 1, by omega⟩
            obtain ⟨f2, rfl⟩ : ∃ f2, f1 = f2 + 1 := ⟨f1 - 1, by omega⟩
            have hl := hpl' (f2 + 1) nv ((ttree H n (Hi(255 - n, S))).other ++ rest) (by omega)
            have hr := fun nv1 => other_parses H hH n (Hi(255 - n, S)) hShi hag.hi (d + 1) (p ++ [true]) hphi
              (by simp [hpl]; omega) f2 nv1 rest
            have := parsesTo_mid H (by omega) hl hr
              (by rintro ⟨_, e2⟩; exact otherTy_ne_midDbl _ e2)
              (by rintro ⟨e1, e2⟩; rw [otherTy_eq_empty] at e2; exact h2 ⟨e2, by rw [e1]; simp⟩)
            rw [if_neg (by rw [otherTy_eq_term]; exact hnt)] at this
            rw [hvv]; exact this

theorem root_of_ntype_mid (H : Bytes → Bytes) {t : Tree} (h : t.ntype = .mid) : t.root H = t.hash := by
  cases t <;> simp [Tree.ntype] at h <;> rfl

/-- what the verifier sees for the honest proof of `x` against the tree of `l` -/
theorem top_ok (H : Bytes → Bytes) (hH : ∀ u, (H u).length = 32) (x : Bytes) (l : List Bytes)
    (hl : ∀ y ∈ l, IsLeaf y) :
    ∃ bs vt ty nt, (ttree H 256 l).genProof x 0 = some (decide (x ∈ l), bs) ∧
      ParsesTo H 258 0 [] bs [] [] vt ty nt ∧ nt.root H = rootOfVal H (trie H 256 l) ∧
      (nt.genProof x 0).map Prod.fst = some (decide (x ∈ l)) := by
  have hag := agree_zero l
  cases hv : trie H 256 l with
  | mk vh vt =>
  cases vt with
  | empty =>
    have := (trie_type_empty_iff H 256 l).mp (by rw [hv])
    subst this
    exact ⟨[EMPTY], .empty, .empty, .empty, by rw [ttree_nil]; simp [Tree.genProof],
      parsesTo_empty H 257 0 [] [] [], by rw [trie_nil] at hv; cases hv; rfl, by simp [Tree.genProof]⟩
  | term =>
    obtain ⟨hm, hall⟩ := trie_term H 256 l vh hl hag hv
    have sh := ttree_shape H 256 l
    rw [hv] at sh; simp only [Shape] at sh
    have hflag : decide (vh = x) = decide (x ∈ l) := by
      apply decide_eq_decide.mpr
      constructor
      · intro h; rw [← h]; exact hm
      · intro h; exact (hall x h).symm
    exact ⟨TERMINAL :: vh, .leaf vh, .term, .leaf vh, by rw [sh]; simp [Tree.genProof, hflag],
      parsesTo_term H 257 0 [] vh [] [] (hl vh hm).1 (by simp [auditOk, auditFrom]), rfl,
      by simp [Tree.genProof, hflag]⟩
  | midDbl =>
    obtain ⟨a, b, e, he1, he2, hh, hae, hbe, hagree, hma, hmb, hall, ht⟩ := trie_dbl H 256 l vh hl hag hv
    have hflag : (decide (a = x) || decide (b = x)) = decide (x ∈ l) := by
      rw [Bool.eq_iff_iff]
      simp only [Bool.or_eq_true, decide_eq_true_eq]
      constructor
      · rintro (h | h)
        · rw [← h]; exact hma
        · rw [← h]; exact hmb
      · intro hx
        rcases hall x hx with h | h
        · exact Or.inl h.symm
        · exact Or.inr h.symm
    have hgp : ∀ d, (dblT H a b).genProof x d = some (decide (x ∈ l), padMiddlesForProofGen 257 a b d) := by
      intro d; simp [Tree.genProof, Tree.leaf?, hflag]
    have hpp := pad_parses H a b (hl a hma).1 (hl b hmb).1 e he2 hae hbe hagree 257 0 [] (by omega) (by omega) rfl
      (path_nil a) (path_nil b) 258 [] [] rfl
    refine ⟨padMiddlesForProofGen 257 a b 0, dblT H a b, .midDbl, _, by rw [ht, hh]; exact hgp 0, hpp, ?_, ?_⟩
    · rw [hh]; split
      · rfl
      · split <;> rfl
    · by_cases h0 : 0 = e
      · rw [if_pos h0, hgp]; rfl
      · rw [if_neg h0]
        have hab0 := hagree 0 (by omega)
        by_cases hbit : getBit a 0 = true
        · rw [if_pos hbit, genProof_mid_not_both _ _ _ _ _ (by simp [Tree.leaf?])]
          by_cases hx : getBit x 0 = true
          · rw [if_pos hx, hgp]; rfl
          · rw [if_neg hx]
            have : decide (x ∈ l) = false := by
              apply decide_eq_false
              intro hxl
              rcases hall x hxl with h | h
              · rw [h] at hx; exact hx hbit
              · rw [h, ← hab0] at hx; exact hx hbit
            rw [this]; simp [Tree.genProof]
        · rw [if_neg hbit, genProof_mid_not_both _ _ _ _ _ (by simp [Tree.leaf?])]
          by_cases hx : getBit x 0 = true
          · rw [if_pos hx]
            have : decide (x ∈ l) = false := by
              apply decide_eq_false
              intro hxl
              rcases hall x hxl with h | h
              · rw [h] at hx; exact hbit hx
              · rw [h, ← hab0] at hx; exact hbit hx
            rw [this]; simp [Tree.genProof]
          · rw [if_neg hx, hgp]; rfl
  | mid =>
    obtain ⟨bs, vt, nt, hg, hvh, hvn, hvl, hvg, hnt, hp⟩ :=
      gen_parses H hH x 256 l hl hag (Nat.le_refl _) 0 [] (by omega) rfl (fun y _ => path_nil y) (fun _ => by omega)
    have hnv := hnt (by rw [hv])
    subst hnv
    have sh := ttree_shape H 256 l
    rw [hv] at sh; simp only [Shape] at sh
    obtain ⟨tl, tr, et, _⟩ := sh
    refine ⟨bs, nt, _, nt, hg, hp 258 [] [] rfl, ?_, hvg⟩
    rw [root_of_ntype_mid H (by rw [hvn, et]; rfl), hvh, hv]; rfl


theorem fromLeafs_fromProof (H : Bytes → Bytes) (l : List Bytes) : (fromLeafs H l).fromProof = false := by
  unfold fromLeafs; split <;> rfl

theorem fromLeafs_nodes_ne (H : Bytes → Bytes) (l : List Bytes) : (fromLeafs H l).nodes ≠ [] := by
  unfold fromLeafs
  by_cases h : l = []
  · rw [if_pos h]; simp
  · rw [if_neg h]
    obtain ⟨ext, he, hne, _⟩ := gen_spec H 256 l [] h
    simp only [he]; simpa using hne

/-- `generate_proof` on a vector whose last node denotes `t` -/
theorem generateProof_eq (ms : MerkleSet) (t : Tree) (hne : ms.nodes ≠ [])
    (hd : Den ms.nodes (ms.nodes.length - 1) t) (x : Bytes) :
    generateProof ms x = match t.genProof x 0 with
      | none => none
      | some (b, p) => some (b, if ms.fromProof then [] else p) := by
  unfold generateProof
  have : ms.nodes.length - 1 < ms.nodes.length := by
    cases h : ms.nodes with
    | nil => exact absurd h hne
    | cons a t => simp
  rw [hd.genProof _ _ _ this]
  rfl

end ChiaModel.Merkle
