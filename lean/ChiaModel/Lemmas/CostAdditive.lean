import ChiaModel.Lemmas.CostDecomp
import ChiaModel.Props.C04
/-
C10/C04: the execution cost and the condition cost of an accepted spend loop are SUMS OVER THE SPENDS of a
quantity read off each spend's own puzzle run `(clvm cost, conditions)` — nothing else enters (not the other
spends, not the parser state, not the remaining budget, not the visitor).  Hence the execution + condition cost
of a block is the sum of what `run_spendbundle` reports for the bundles it was assembled from, whatever the
order of the spends.

 * `runExec`, `runCond`              what one accepted spend adds to `execution_cost` / `condition_cost`
 * `oracleVals puz i n`              the puzzle runs `puz i, …, puz (i+n-1)` a loop over `n` spends consumes
 * `nativeLoop_costs`, `bundleLoop_costs`   closed form of both cost fields after an accepted loop
 * `native_costs`, `runSpendbundle_costs`   … of an accepted `run_block_generator2` / `run_spendbundle`
 * `oracleVals_append`, `oracleVals_eq_map`, `oracleVals_range`  list bookkeeping for concatenated bundles
-/
namespace ChiaModel.Gn
open ChiaModel ChiaModel.Cond

/-- what an accepted spend adds to the execution cost: the CLVM cost of its puzzle run -/
def runExec : RunRes → Nat
  | some (c, _) => c
  | none => 0

/-- what an accepted spend adds to the condition cost: the per-spend charge plus the table cost
(`condCostOf`, C04) of each condition its puzzle returned -/
def runCond (flags : Nat) : RunRes → Nat
  | some (_, conds) => spendCharge flags + ((listElems conds).map (condCostOf flags)).sum
  | none => 0

/-- both together: what the spend costs beyond the bytes of the generator -/
def runCost (flags : Nat) (r : RunRes) : Nat := runExec r + runCond flags r

/-- the puzzle runs a loop over `n` spends starting at index `i` consumes, in order -/
def oracleVals (puz : Nat → RunRes) : Nat → Nat → List RunRes
  | _, 0 => []
  | i, n + 1 => puz i :: oracleVals puz (i + 1) n

theorem oracleVals_length (puz : Nat → RunRes) : ∀ n i, (oracleVals puz i n).length = n := by
  intro n
  induction n with
  | zero => intro i; rfl
  | succ n ih => intro i; simp only [oracleVals, List.length_cons, ih]

theorem oracleVals_append (puz : Nat → RunRes) : ∀ a b i,
    oracleVals puz i (a + b) = oracleVals puz i a ++ oracleVals puz (i + a) b := by
  intro a
  induction a with
  | zero => intro b i; simp only [Nat.zero_add, oracleVals, List.nil_append, Nat.add_zero]
  | succ a ih =>
    intro b i
    have : a + 1 + b = (a + b) + 1 := by omega
    rw [this]
    simp only [oracleVals, List.cons_append]
    rw [ih b (i + 1)]
    have : i + 1 + a = i + (a + 1) := by omega
    rw [this]

/-- when the oracle is a function `run` of the listed item, the consumed runs are that function mapped over the list -/
theorem oracleVals_eq_map {α : Type} (puz : Nat → RunRes) (run : α → RunRes) : ∀ (l : List α) (i : Nat),
    (∀ j (h : j < l.length), puz (i + j) = run l[j]) → oracleVals puz i l.length = l.map run := by
  intro l
  induction l with
  | nil => intro i _; rfl
  | cons x xs ih =>
    intro i h
    simp only [List.length_cons, oracleVals, List.map_cons]
    have h0 := h 0 (by simp)
    simp only [Nat.add_zero, List.getElem_cons_zero] at h0
    rw [h0, ih (i + 1)]
    intro j hj
    have := h (j + 1) (by simp only [List.length_cons]; omega)
    simp only [List.getElem_cons_succ] at this
    rw [← this]
    congr 1; omega

/-- positional form: the runs consumed from index 0 are `puz 0, …, puz (n-1)` -/
theorem oracleVals_range (puz : Nat → RunRes) (n : Nat) : oracleVals puz 0 n = (List.range n).map puz := by
  have h := oracleVals_eq_map puz puz (List.range n) 0 (by
    intro j hj
    simp only [List.getElem_range, Nat.zero_add])
  rw [List.length_range] at h
  exact h

theorem listElems_ofList (l : List Sexp) : listElems (Sexp.ofList l) = l := by
  induction l with
  | nil => rfl
  | cons a t ih =>
    show listElems (.pair a (Sexp.ofList t)) = a :: t
    simp only [listElems, ih]

/-- **Closed form of the native spend loop's two cost fields.**  After an accepted loop over the spend list `t`
starting at oracle index `i`, the execution cost has grown by the sum of the puzzle runs' CLVM costs and the
condition cost by the sum of (per-spend charge + table cost of the returned conditions). -/
theorem nativeLoop_costs (env : Env) (puz : Nat → RunRes) :
    ∀ (t : Sexp) i ret st n m ret' st' m', nativeLoop env puz t i ret st n m = .ok ((ret', st'), m') →
      ret'.executionCost = ret.executionCost + ((oracleVals puz i (listElems t).length).map runExec).sum ∧
      ret'.conditionCost = ret.conditionCost + ((oracleVals puz i (listElems t).length).map (runCond env.flags)).sum := by
  intro t
  induction t with
  | atom b =>
    intro i ret st n m ret' st' m' h
    cases b with
    | nil =>
      simp only [nativeLoop] at h; injection h with h; injection h with h1 h2; injection h1 with h1 h3; subst h1
      simp [listElems, oracleVals]
    | cons x xs => simp [nativeLoop] at h
  | pair spend nxt _ ih =>
    intro i ret st n m ret' st' m' h
    rw [nativeLoop_pair] at h
    by_cases hn : n = 0
    · rw [if_pos hn] at h; cases h
    rw [if_neg hn] at h
    cases he : extract5 spend with
    | none => rw [he] at h; cases h
    | some q =>
      obtain ⟨parent, puzzle, amount, sol, ext⟩ := q
      rw [he] at h; simp only [nativeStep] at h
      obtain ⟨⟨pr, m1⟩, hr, h⟩ := bind_ok h
      obtain ⟨⟨⟨r1, s1⟩, m2⟩, h1, h⟩ := bind_ok h
      simp only at h1 h
      obtain ⟨hp, _⟩ := runCharge_ok hr
      obtain ⟨_, c2, _⟩ := processSingleSpend_cost h1
      have x1 := processSingleSpend_exec h1
      obtain ⟨i1, i2⟩ := ih (i + 1) r1 s1 (n - 1) m2 ret' st' m' h
      simp only at c2 x1
      obtain ⟨pc, pconds⟩ := pr
      simp only [listElems, List.length_cons, oracleVals, List.map_cons, List.sum_cons, hp, runExec, runCond]
      simp only at c2 x1
      refine ⟨by omega, by omega⟩

/-- **Closed form of the mempool spend loop's two cost fields** (same sums, the visitor does not touch them). -/
theorem bundleLoop_costs (env : Env) (puz : Nat → RunRes) :
    ∀ (l : List CoinSpendM) i ret st m ret' st' m', bundleLoop env puz l i ret st m = .ok ((ret', st'), m') →
      ret'.executionCost = ret.executionCost + ((oracleVals puz i l.length).map runExec).sum ∧
      ret'.conditionCost = ret.conditionCost + ((oracleVals puz i l.length).map (runCond env.flags)).sum := by
  intro l
  induction l with
  | nil =>
    intro i ret st m ret' st' m' h
    simp only [bundleLoop] at h; injection h with h; injection h with h1 h2; injection h1 with h1 h3; subst h1
    simp [oracleVals]
  | cons cs rest ih =>
    intro i ret st m ret' st' m' h
    rw [bundleLoop_cons] at h
    simp only [bundleStep] at h
    obtain ⟨⟨pr, m1⟩, hr, h⟩ := bind_ok h
    simp only at h
    by_cases hph : cs.puzzleHash ≠ Sexp.treeHash cs.puzzle
    · rw [if_pos hph] at h; cases h
    rw [if_neg hph] at h
    obtain ⟨⟨⟨r1, s1⟩, m2⟩, h1, h⟩ := bind_ok h
    simp only at h1 h
    obtain ⟨hp, _⟩ := runCharge_ok hr
    obtain ⟨_, c2, _⟩ := processSingleSpend_cost h1
    have x1 := processSingleSpend_exec h1
    obtain ⟨i1, i2⟩ := ih (i + 1) r1 s1 m2 ret' st' m' h
    obtain ⟨pc, pconds⟩ := pr
    simp only [List.length_cons, oracleVals, List.map_cons, List.sum_cons, hp, runExec, runCond]
    simp only at c2 x1
    refine ⟨by omega, by omega⟩

/-- **Closed form of both cost fields of an accepted `run_block_generator2`.**  If the generator's run returned
`(c, out)` and `out`'s first element is the spend list `allSpends`, then the reported execution cost is `c` plus
the CLVM costs of the puzzle runs `puz 0, …`, one per listed spend, and the reported condition cost is the sum of
(per-spend charge + table cost of the returned conditions) over the same runs. -/
theorem native_costs (p : Params) (g : GenInput) (c : Nat) (out allSpends : Sexp) (puz : Nat → RunRes) (L : Nat) (b : Bundle)
    (hfirst : first out = .ok allSpends)
    (h : native p g (some (c, out)) puz L = .ok b) :
    b.executionCost = c + ((oracleVals puz 0 (listElems allSpends).length).map runExec).sum ∧
    b.conditionCost = ((oracleVals puz 0 (listElems allSpends).length).map (runCond p.flags)).sum := by
  rw [native_eq] at h
  by_cases h0 : simpleGen p.flags ∧ !g.startsQuote
  · rw [if_pos h0] at h; cases h
  rw [if_neg h0] at h
  cases hl : nativeCountdown p g (some (c, out)) puz L with
  | error e => rw [hl] at h; cases h
  | ok q =>
    obtain ⟨⟨ret, st⟩, left⟩ := q
    rw [hl] at h; simp only at h
    cases hb : finishBundle (nativeEnv p) p.sigOk ret st with
    | error e => rw [hb] at h; cases h
    | ok ret' =>
      rw [hb] at h; simp only at h
      injection h with h
      obtain ⟨_, hr⟩ := C02.finishBundle_ok hb
      obtain ⟨pc1, pc2⟩ := C04.postProcess_costs (nativeEnv p) ret st
      unfold nativeCountdown at hl
      obtain ⟨⟨_, m0⟩, hc0, hl⟩ := bind_ok hl
      simp only at hl
      by_cases h1 : (!generatorNodeOk p.flags g.prog) = true
      · rw [if_pos h1] at hl; cases hl
      rw [if_neg h1] at hl
      by_cases h2 : simpleGen p.flags = true ∧ g.nrefs > 0
      · rw [if_pos h2] at hl; cases hl
      rw [if_neg h2] at hl
      obtain ⟨⟨r, m1⟩, hrun, hl⟩ := bind_ok hl
      simp only at hl
      obtain ⟨hre, _⟩ := runCharge_ok hrun
      injection hre with hre
      subst hre
      simp only at hl
      rw [hfirst] at hl; simp only at hl
      by_cases h3 : (!allExtract3 allSpends) = true
      · rw [if_pos h3] at hl; cases hl
      rw [if_neg h3] at hl
      obtain ⟨e1, e2⟩ := nativeLoop_costs (nativeEnv p) puz allSpends 0 _ _ _ m1 ret st left hl
      have hex : b.executionCost = ret.executionCost := by rw [← h, hr]; exact pc1
      have hcc : b.conditionCost = ret.conditionCost := by rw [← h, hr]; exact pc2
      have z : (({ executionCost := c } : Bundle).conditionCost) = 0 := rfl
      have hfl : (nativeEnv p).flags = p.flags := rfl
      rw [hex, hcc, e1, e2, z, hfl]
      exact ⟨rfl, by omega⟩

/-- **Closed form of both cost fields of an accepted `run_spendbundle`**: the same two sums over the bundle's own
puzzle runs (no generator run on this path, so the execution cost starts at 0). -/
theorem runSpendbundle_costs (p : Params) (spends : List CoinSpendM) (puz : Nat → RunRes) (L : Nat)
    (b : Bundle) (pk : List (Bytes × Bytes)) (h : runSpendbundle p spends puz L = .ok (b, pk)) :
    b.executionCost = ((oracleVals puz 0 spends.length).map runExec).sum ∧
    b.conditionCost = ((oracleVals puz 0 spends.length).map (runCond p.flags)).sum := by
  rw [runSpendbundle_eq] at h
  cases hl : bundleCountdown p spends puz L with
  | error e => rw [hl] at h; cases h
  | ok q =>
    obtain ⟨⟨ret, st⟩, left⟩ := q
    rw [hl] at h; simp only at h
    cases hv : validateConditions (postProcess (bundleEnv p) ret st) st with
    | error e => rw [hv] at h; cases h
    | ok u =>
      rw [hv] at h; simp only at h
      injection h with h; injection h with h hpk
      obtain ⟨pc1, pc2⟩ := C04.postProcess_costs (bundleEnv p) ret st
      unfold bundleCountdown at hl
      obtain ⟨⟨_, m0⟩, hc0, hl⟩ := bind_ok hl
      simp only at hl
      by_cases h1 : hasFlag p.flags Gen.flagLimitSpends = true ∧ spends.length > MAX_SPENDS_PER_BLOCK
      · rw [if_pos h1] at hl; cases hl
      rw [if_neg h1] at hl
      obtain ⟨e1, e2⟩ := bundleLoop_costs (bundleEnv p) puz spends 0 _ _ m0 ret st left hl
      have hex : b.executionCost = ret.executionCost := by rw [← h]; exact pc1
      have hcc : b.conditionCost = ret.conditionCost := by rw [← h]; exact pc2
      have z1 : (({} : Bundle).conditionCost) = 0 := rfl
      have z2 : (({} : Bundle).executionCost) = 0 := rfl
      have hfl : (bundleEnv p).flags = p.flags := rfl
      rw [hex, hcc, e1, e2, z1, z2, hfl]
      exact ⟨by omega, by omega⟩

end ChiaModel.Gn
