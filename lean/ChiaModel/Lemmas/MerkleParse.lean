import ChiaModel.Lemmas.MerkleProof
/-
Helper lemmas for C12 (`parse_total`): the proof parser hands back untouched what it does not
consume, consumes exactly one serialised proof tree, and rejects trees nested deeper than the guard.
-/
set_option linter.unusedSimpArgs false
namespace ChiaModel.Merkle
open ChiaModel Spec

/-! ## the parser and its input: trailing bytes and nesting depth -/

/-- the parser does not look beyond what it consumes: extra input is handed back untouched -/
theorem parse_append (H : Bytes → Bytes) (extra : Bytes) : ∀ (f d : Nat) (bits : List Bool) (inp : Bytes) (nv : NodeVec)
    (rest : Bytes) (nv' : NodeVec) (vi : Nat) (ty : NodeType),
    parseNode H f d bits inp nv = some (rest, nv', vi, ty) →
    parseNode H f d bits (inp ++ extra) nv = some (rest ++ extra, nv', vi, ty) := by
  intro f
  induction f with
  | zero => intro d bits inp nv rest nv' vi ty h; simp [parseNode] at h
  | succ f ih =>
    intro d bits inp nv rest nv' vi ty h
    cases inp with
    | nil => simp [parseNode] at h
    | cons b rest0 =>
      unfold parseNode at h
      simp only [] at h
      rw [List.cons_append]
      unfold parseNode
      simp only []
      split at h
      · rename_i hb
        rw [if_pos hb]
        simp only [Option.some.injEq, Prod.mk.injEq] at h ⊢
        obtain ⟨rfl, rfl, rfl, rfl⟩ := h
        exact ⟨rfl, rfl, rfl, rfl⟩
      · rename_i hb
        rw [if_neg hb]
        split at h
        · rename_i hb1
          rw [if_pos hb1]
          split at h
          · simp at h
          · rename_i hlen
            have hlen' : 32 ≤ rest0.length := by omega
            rw [if_neg (by simp only [List.length_append]; omega), List.take_append_of_le_length hlen',
              List.drop_append_of_le_length hlen']
            split at h
            · rename_i haud
              rw [if_pos haud]
              simp only [Option.some.injEq, Prod.mk.injEq] at h ⊢
              obtain ⟨rfl, rfl, rfl, rfl⟩ := h
              exact ⟨rfl, rfl, rfl, rfl⟩
            · simp at h
        · rename_i hb1
          rw [if_neg hb1]
          split at h
          · rename_i hb2
            rw [if_pos hb2]
            split at h
            · simp at h
            · rename_i hlen
              have hlen' : 32 ≤ rest0.length := by omega
              rw [if_neg (by simp only [List.length_append]; omega), List.take_append_of_le_length hlen',
                List.drop_append_of_le_length hlen']
              simp only [Option.some.injEq, Prod.mk.injEq] at h ⊢
              obtain ⟨rfl, rfl, rfl, rfl⟩ := h
              exact ⟨rfl, rfl, rfl, rfl⟩
          · rename_i hb2
            rw [if_neg hb2]
            split at h
            · rename_i hb3
              rw [if_pos hb3]
              split at h
              · simp at h
              · rename_i hd
                rw [if_neg hd]
                cases h1 : parseNode H f (d + 1) (bits ++ [false]) rest0 nv with
                | none => rw [h1] at h; simp at h
                | some r1 =>
                  obtain ⟨rest1, nv1, li, lt⟩ := r1
                  rw [h1] at h; simp only [] at h
                  rw [ih _ _ _ _ _ _ _ _ h1]
                  simp only []
                  cases h2 : parseNode H f (d + 1) (bits ++ [true]) rest1 nv1 with
                  | none => rw [h2] at h; simp at h
                  | some r2 =>
                    obtain ⟨rest2, nv2, ri, rt⟩ := r2
                    rw [h2] at h
                    rw [ih _ _ _ _ _ _ _ _ h2]
                    simp only [Option.some.injEq, Prod.mk.injEq] at h ⊢
                    obtain ⟨rfl, rfl, rfl, rfl⟩ := h
                    exact ⟨rfl, rfl, rfl, rfl⟩
            · simp at h

/-- proof trees as they are written on the wire -/
inductive PT where
  | empty
  | term (x : Bytes)
  | trunc (h : Bytes)
  | mid (l r : PT)

def PT.ser : PT → Bytes
  | .empty => [EMPTY]
  | .term x => TERMINAL :: x
  | .trunc h => TRUNCATED :: h
  | .mid l r => MIDDLE :: (l.ser ++ r.ser)

/-- payloads are 32 bytes -/
def PT.WF : PT → Prop
  | .empty => True
  | .term x => x.length = 32
  | .trunc h => h.length = 32
  | .mid l r => l.WF ∧ r.WF

/-- number of nested `MIDDLE`s -/
def PT.height : PT → Nat
  | .mid l r => 1 + max l.height r.height
  | _ => 0

/-- whenever the parser accepts the serialisation of a tree followed by `rest`, it hands back `rest` -/
theorem parse_ser_rest (H : Bytes → Bytes) (t : PT) (ht : t.WF) : ∀ (f d : Nat) (bits : List Bool) (rest : Bytes) (nv : NodeVec)
    (rest' : Bytes) (nv' : NodeVec) (vi : Nat) (ty : NodeType),
    parseNode H f d bits (t.ser ++ rest) nv = some (rest', nv', vi, ty) → rest' = rest := by
  induction t with
  | empty =>
    intro f d bits rest nv rest' nv' vi ty h
    cases f with
    | zero => simp [parseNode] at h
    | succ f =>
      simp only [PT.ser, List.cons_append, List.nil_append] at h
      rw [parse_empty] at h
      simp at h; exact h.1.symm
  | term x =>
    intro f d bits rest nv rest' nv' vi ty h
    cases f with
    | zero => simp [parseNode] at h
    | succ f =>
      simp only [PT.ser, List.cons_append] at h
      unfold parseNode at h
      simp [EMPTY, TERMINAL, take_append_32 ht, drop_append_32 ht, (show x.length = 32 from ht)] at h
      exact h.2.1.symm
  | trunc x =>
    intro f d bits rest nv rest' nv' vi ty h
    cases f with
    | zero => simp [parseNode] at h
    | succ f =>
      simp only [PT.ser, List.cons_append] at h
      unfold parseNode at h
      simp [EMPTY, TERMINAL, TRUNCATED, take_append_32 ht, drop_append_32 ht, (show x.length = 32 from ht)] at h
      exact h.1.symm
  | mid l r ihl ihr =>
    intro f d bits rest nv rest' nv' vi ty h
    cases f with
    | zero => simp [parseNode] at h
    | succ f =>
      simp only [PT.ser, List.cons_append, List.append_assoc] at h
      by_cases hd : d ≤ 256
      · rw [parse_mid H f d bits _ nv hd] at h
        cases h1 : parseNode H f (d + 1) (bits ++ [false]) (l.ser ++ (r.ser ++ rest)) nv with
        | none => rw [h1] at h; simp at h
        | some r1 =>
          obtain ⟨rest1, nv1, li, lt⟩ := r1
          have e1 := ihl ht.1 _ _ _ _ _ _ _ _ _ h1
          subst e1
          rw [h1] at h; simp only [] at h
          cases h2 : parseNode H f (d + 1) (bits ++ [true]) (r.ser ++ rest) nv1 with
          | none => rw [h2] at h; simp at h
          | some r2 =>
            obtain ⟨rest2, nv2, ri, rt⟩ := r2
            have e2 := ihr ht.2 _ _ _ _ _ _ _ _ _ h2
            subst e2
            rw [h2] at h
            simp at h; exact h.1.symm
      · unfold parseNode at h
        simp [EMPTY, TERMINAL, TRUNCATED, MIDDLE, (show d > 256 by omega)] at h

/-- a serialised proof tree with a `MIDDLE` nested below more than 256 others is rejected
(`height` counts nested `MIDDLE`s; `d` is the number of `MIDDLE`s already open) -/
theorem parse_deep_none (H : Bytes → Bytes) (t : PT) (ht : t.WF) : ∀ (f d : Nat) (bits : List Bool) (rest : Bytes) (nv : NodeVec),
    1 ≤ t.height → 257 < d + t.height → parseNode H f d bits (t.ser ++ rest) nv = none := by
  induction t with
  | empty => intro f d bits rest nv h; simp [PT.height] at h
  | term x => intro f d bits rest nv h; simp [PT.height] at h
  | trunc x => intro f d bits rest nv h; simp [PT.height] at h
  | mid l r ihl ihr =>
    intro f d bits rest nv _ hdeep
    cases f with
    | zero => simp [parseNode]
    | succ f =>
      simp only [PT.ser, List.cons_append, List.append_assoc]
      by_cases hd : d ≤ 256
      · rw [parse_mid H f d bits _ nv hd]
        simp only [PT.height] at hdeep
        cases h1 : parseNode H f (d + 1) (bits ++ [false]) (l.ser ++ (r.ser ++ rest)) nv with
        | none => rfl
        | some r1 =>
          obtain ⟨rest1, nv1, li, lt⟩ := r1
          have e1 := parse_ser_rest H l ht.1 _ _ _ _ _ _ _ _ _ h1
          subst e1
          simp only []
          by_cases hlr : r.height ≤ l.height
          · have hmax : max l.height r.height = l.height := Nat.max_eq_left hlr
            rw [hmax] at hdeep
            have := ihl ht.1 f (d + 1) (bits ++ [false]) (r.ser ++ rest) nv (by omega) (by omega)
            rw [this] at h1; simp at h1
          · have hmax : max l.height r.height = r.height := Nat.max_eq_right (by omega)
            rw [hmax] at hdeep
            rw [ihr ht.2 f (d + 1) (bits ++ [true]) rest nv1 (by omega) (by omega)]
      · unfold parseNode
        simp [EMPTY, TERMINAL, TRUNCATED, MIDDLE, (show d > 256 by omega)]


/-! ## concrete inputs for the non-vacuity examples of Props/C12 -/

/-- a leaf with first byte `a` and last byte `z` -/
def lf (a z : Nat) : Bytes := a :: (zeros 30 ++ [z])

/-- the 5-leaf tree of the Rust unit tests (`merkle_tree_5`) -/
def tree5 : List Bytes := [lf 0x58 0, lf 0x23 0, lf 0x21 0, lf 0xca 0, lf 0x20 0]

/-- the "left edge" tree of the Rust unit tests -/
def leftEdge : List Bytes := [lf 0x80 0, lf 0 1, lf 0 2, lf 0 3]

def root5 : Bytes := (ofHex "08f0b908a5725bd200d0fab6f3fd30223d29544eefeb88f9705c39ed09f15e89").getD []

/-- two leaves that share their first 255 bits: a chain of 255 collapsed levels -/
def deepPair : List Bytes := [List.replicate 32 0xff, List.replicate 31 0xff ++ [0xfe]]

/-- validate the generated proof of `x` in the tree of `l` against the root of `l` -/
def roundTrip (l : List Bytes) (x : Bytes) : Option Bool × Option Bool :=
  match generateProof (fromLeafs sha256 l) x with
  | none => (none, none)
  | some (flag, p) => (some flag, validateMerkleProof sha256 p x (computeMerkleSetRoot sha256 l))

/-- the honest proof of the first leaf of `deepPair` (`MIDDLE EMPTY rest`), and the same proof with
the two sides of the top collapsed level swapped (`MIDDLE rest EMPTY`): the swap keeps the root
(the level is collapsed for hashing) and is rejected only by the leaf-position audit -/
def swapDemo : Option Bool × Option Bool :=
  let r := computeMerkleSetRoot sha256 deepPair
  let x := List.replicate 32 0xff
  match generateProof (fromLeafs sha256 deepPair) x with
  | some (_, 2 :: 0 :: rest) =>
    (validateMerkleProof sha256 (2 :: 0 :: rest) x r, validateMerkleProof sha256 (2 :: rest ++ [0]) x r)
  | _ => (none, some false)

theorem sha256_length (u : Bytes) : (sha256 u).length = 32 := by
  simp [sha256, Sha256.sha256, Sha256.digest, be]

end ChiaModel.Merkle
