import ChiaModel.Model.Mempool
import ChiaModel.Lemmas.Acc
import ChiaModel.Lemmas.TimeLocks
/-
C19: the ELIGIBLE_FOR_DEDUP flag computed by the `parse_spends` model equals its closed form.
-/
namespace ChiaModel.Mp
open ChiaModel ChiaModel.Cond

theorem and4_le {f : Nat} (h : f &&& 4 ≠ 0) : 4 ≤ f := by
  rcases Nat.lt_or_ge f 4 with h4 | h4
  · exfalso; apply h
    have : f = 0 ∨ f = 1 ∨ f = 2 ∨ f = 3 := by omega
    rcases this with rfl | rfl | rfl | rfl <;> decide
  · exact h4

theorem clearFlag_dedup (f : Nat) : (clearFlag f ELIGIBLE_FOR_DEDUP) % 2 = 0 := by
  unfold clearFlag ELIGIBLE_FOR_DEDUP
  rw [Nat.and_one_is_mod]
  split <;> omega

theorem clearFlag_ff (f : Nat) : (clearFlag f ELIGIBLE_FOR_FF) % 2 = f % 2 := by
  unfold clearFlag ELIGIBLE_FOR_FF
  split
  · rename_i h; have := and4_le h; omega
  · rfl

/-- the visitor's effect on the dedup bit -/
theorem visit_dedup (env : Env) (hm : env.mempool = true) (counter f : Nat) (c : Cond) :
    (visitCondition env counter f c) % 2 = if blocksDedup c then 0 else f % 2 := by
  unfold visitCondition
  simp only [hm, Bool.not_true, Bool.false_eq_true, if_false]
  cases c <;> simp only [blocksDedup, Bool.false_eq_true, if_false, if_true, clearFlag_ff]
  case assertMyParentId id => split <;> simp [clearFlag_ff]
  case aggSig op pk msg => split <;> simp [clearFlag_ff, clearFlag_dedup]
  case sendMessage a b c => exact clearFlag_dedup _
  case receiveMessage a b c => exact clearFlag_dedup _

def createdSum (sp : Spend) : Nat := (sp.createCoin.map (·.amount)).sum

theorem assertNotEphemeral_flags (s : CSt) : (assertNotEphemeral s).spend.flags % 2 = s.spend.flags % 2 := by
  unfold assertNotEphemeral HAS_RELATIVE_CONDITION
  split
  · rfl
  · simp only; omega

set_option linter.unusedSimpArgs false in
/-- what one accepted condition does to the created value, the dedup bit and the coin amount -/
theorem applyCond_dd (env : Env) (s s' : CSt) (c : Cond) (h : applyCond env s c = .ok s') :
    createdSum s'.spend = createdSum s.spend + createdAmount c ∧ s'.spend.flags % 2 = s.spend.flags % 2
      ∧ s'.spend.coinAmount = s.spend.coinAmount := by
  cases c <;> simp only [applyCond] at h
  case aggSig op pk msg =>
    split at h
    · split at h
      · cases h
      · obtain ⟨k, _, h⟩ := bind_ok h
        injection h with h; subst h
        split <;> simp [createdSum, createdAmount]
    · obtain ⟨k, _, h⟩ := bind_ok h
      injection h with h; subst h
      simp only [createdSum, createdAmount, pushAggSig]
      repeat' split
      all_goals simp
  case createCoin ph amount hint =>
    split at h
    · cases h
    · injection h with h; subst h
      simp [createdSum, createdAmount]
  all_goals first
    | (injection h with h; subst h; simp [createdSum, createdAmount, assertNotEphemeral_flags]; done)
    | (split at h <;> first
        | (injection h with h; subst h; simp [createdSum, createdAmount, assertNotEphemeral_flags]; done)
        | (cases h; done))
    | (obtain ⟨s1, hd, h⟩ := bind_ok h; obtain ⟨d1, d2, d3⟩ := decrement_frame _ _ _ hd; injection h with h; subst h
       simp [createdSum, createdAmount, d1, d2, d3]; done)

/-- A relation between the per-spend state and the list of conditions parsed so far that is preserved by
cost bookkeeping and extended by every accepted condition holds, at the end of the condition loop,
for the parsed conditions of the whole list. -/
theorem condLoop_ghost (env : Env) (P : CSt → List Cond → Prop)
    (hbump : ∀ s c l, P s l → P (bump s c) l)
    (hstep : ∀ s s' cva l, P s l → applyCond env (visit env s cva) cva = .ok s' → P s' (l ++ [cva])) :
    ∀ (t : Sexp) (s : CSt) (m : Nat) (s' : CSt) (m' : Nat) (l : List Cond),
      condLoop env t s m = .ok (s', m') → P s l → P s' (l ++ TL.parsedConds env.flags t) := by
  intro t
  induction t with
  | atom b =>
    intro s m s' m' l h hp
    cases b with
    | nil => simp only [condLoop] at h; injection h with h; injection h with h1; rw [← h1]; simpa [TL.parsedConds] using hp
    | cons x xs => simp [condLoop] at h
  | pair c nxt _ ih =>
    intro s m s' m' l h hp
    simp only [condLoop] at h
    obtain ⟨⟨s1, m1⟩, hs, h⟩ := bind_ok h
    unfold stepCond at hs
    obtain ⟨opn, hf, hs⟩ := bind_ok hs
    cases ho : parseOpcode opn with
    | none =>
      rw [ho] at hs; simp only at hs
      rw [TL.parsedConds_cons_none hf ho]
      refine ih s1 m1 s' m' l h ?_
      split at hs
      · cases hs
      · split at hs
        · rw [(addCost_ok hs).1]; exact hbump _ _ _ hp
        · injection hs with hs; injection hs with hs1; rw [← hs1]; exact hp
    | some op =>
      rw [ho] at hs; simp only at hs
      obtain ⟨⟨s2, m2⟩, ha, hs⟩ := bind_ok hs
      obtain ⟨⟨s3, extra⟩, hpc, hs⟩ := bind_ok hs
      obtain ⟨args, cva, hr, hpa, happ, _⟩ := pureCond_ok hpc
      rw [TL.parsedConds_cons_some hf ho hr hpa]
      have := ih s1 m1 s' m' (l ++ [cva]) h (by
        rw [(addCost_ok hs).1]
        apply hbump
        apply hstep _ _ _ _ _ happ
        rw [(addCost_ok ha).1]
        exact hbump _ _ _ hp)
      simpa [List.append_assoc] using this

/-- the relation carried through the condition loop -/
def DedupInv (s : CSt) (l : List Cond) : Prop :=
  (s.spend.flags % 2 = 1 ↔ l.any blocksDedup = false) ∧ createdSum s.spend = (l.map createdAmount).sum

theorem condLoop_dedup (env : Env) (hm : env.mempool = true) (t : Sexp) (s : CSt) (m : Nat) (s' : CSt) (m' : Nat)
    (h : condLoop env t s m = .ok (s', m')) (h0 : s.spend.flags % 2 = 1) (h1 : s.spend.createCoin = []) :
    (s'.spend.flags % 2 = 1 ↔ (TL.parsedConds env.flags t).any blocksDedup = false) ∧
      createdSum s'.spend = ((TL.parsedConds env.flags t).map createdAmount).sum ∧ s'.spend.coinAmount = s.spend.coinAmount := by
  have key := condLoop_ghost env (fun x l => DedupInv x l ∧ x.spend.coinAmount = s.spend.coinAmount)
    (by intro x c l hx; simpa [bump, DedupInv, createdSum] using hx)
    (by
      intro x x' cva l ⟨⟨hx1, hx2⟩, hx3⟩ happ
      obtain ⟨a1, a2, a3⟩ := applyCond_dd env _ _ _ happ
      have hv : (visit env x cva).spend.flags % 2 = if blocksDedup cva then 0 else x.spend.flags % 2 := by
        simp only [visit]; exact visit_dedup env hm _ _ _
      have hc : createdSum (visit env x cva).spend = createdSum x.spend := by simp [visit, createdSum]
      have hamt : (visit env x cva).spend.coinAmount = x.spend.coinAmount := by simp [visit]
      refine ⟨⟨?_, ?_⟩, by rw [a3, hamt, hx3]⟩
      · rw [a2, hv]
        cases hb : blocksDedup cva with
        | true => simp [hb]
        | false => simp [hb, hx1]
      · rw [a1, hc, hx2]; simp)
    t s m s' m' [] h ⟨⟨by simp [h0], by simp [createdSum, h1]⟩, rfl⟩
  simp only [List.nil_append] at key
  exact ⟨key.1.1, key.1.2, key.2⟩

/-- `post_spend` and the dedup bit -/
theorem postSpend_dedup (env : Env) (hm : env.mempool = true) (sp : Spend) :
    ((postSpend env sp).flags % 2 = 1 ↔ (sp.flags % 2 = 1 ∧ sp.coinAmount ≤ createdSum sp)) ∧
      (postSpend env sp).coinAmount = sp.coinAmount := by
  refine ⟨?_, by unfold postSpend; split <;> rfl⟩
  unfold postSpend
  simp only [hm, Bool.not_true, Bool.false_eq_true, if_false]
  generalize hf1 : (if sp.flags &&& ELIGIBLE_FOR_FF ≠ 0 ∧
        (!sp.createCoin.any fun c => c.ph == sp.puzzleHash && c.amount == sp.coinAmount) = true then
      clearFlag sp.flags ELIGIBLE_FOR_FF else sp.flags) = f1
  have e1 : f1 % 2 = sp.flags % 2 := by
    rw [← hf1]; split
    · exact clearFlag_ff _
    · rfl
  have e2 : (f1 &&& ELIGIBLE_FOR_DEDUP ≠ 0) ↔ f1 % 2 = 1 := by
    unfold ELIGIBLE_FOR_DEDUP; rw [Nat.and_one_is_mod]; omega
  by_cases hc : f1 &&& ELIGIBLE_FOR_DEDUP ≠ 0 ∧ sp.coinAmount > (sp.createCoin.map (·.amount)).sum
  · rw [if_pos hc, clearFlag_dedup]
    have := hc.2
    simp only [createdSum]; omega
  · rw [if_neg hc, e1]
    simp only [createdSum]
    rw [e2, e1] at hc
    omega

/-- **one spend**: after `process_single_spend` under the mempool visitor, the pushed spend carries
ELIGIBLE_FOR_DEDUP exactly when the closed form holds for its parsed conditions -/
theorem processSingleSpend_dedup {env : Env} (hm : env.mempool = true) {ret : Bundle} {st : PState}
    {parent ph amount conds : Sexp} {cc m : Nat} {ret' : Bundle} {st' : PState} {m' : Nat}
    (h : processSingleSpend env ret st parent ph amount conds cc m = .ok ((ret', st'), m')) :
    ∃ sp amt v, ret'.spends = ret.spends ++ [sp] ∧ amount = .atom amt ∧ sanitizeUint amt 8 = .ok v ∧ sp.coinAmount = v ∧
      (sp.flags % 2 = 1 ↔ dedupClosedForm (TL.parsedConds env.flags conds) v = true) := by
  obtain ⟨s0, m1, s, hh, _, _, hl, hf⟩ := processSingleSpend_ok h
  obtain ⟨parentId, puzzleHash, amountBuf, myAmount, e1, _, e2, _, e3, hs, _, hs0⟩ := spendHeader_ok hh
  simp only [finishSpend] at hf
  injection hf with hf1 hf2
  have hstart : (newSpendVisit env (bump s0 (spendCharge env.flags))).spend.flags % 2 = 1 ∧
      (newSpendVisit env (bump s0 (spendCharge env.flags))).spend.createCoin = [] ∧
      (newSpendVisit env (bump s0 (spendCharge env.flags))).spend.coinAmount = myAmount := by
    subst hs0
    refine ⟨?_, ?_, ?_⟩
    · simp only [newSpendVisit, hm, if_true, bump, ELIGIBLE_FOR_DEDUP, ELIGIBLE_FOR_FF]
      have key : ∀ (p : Prop) [Decidable p], (0 + 1 + if p then 4 else 0) % 2 = 1 := by
        intro p _; by_cases hp : p <;> simp [hp]
      exact key _
    · simp [newSpendVisit, hm, bump]
    · simp [newSpendVisit, hm, bump]
  have hsp : s.ret.spends = ret.spends := by
    have := condLoop_inv env (fun x => x.ret.spends = ret.spends)
      (by intro x c hx; simpa [bump] using hx) (by intro x c hx; simpa [visit] using hx)
      (by intro x x' c hx happ; obtain ⟨_, _, f3, _⟩ := applyCond_frame env x x' c happ; rw [f3]; exact hx)
      conds _ m1 s m' hl
    apply this
    subst hs0
    unfold newSpendVisit; split <;> simp [bump]
  obtain ⟨c1, c2, c3⟩ := condLoop_dedup env hm conds _ m1 s m' hl hstart.1 hstart.2.1
  obtain ⟨p1, p2⟩ := postSpend_dedup env hm s.spend
  refine ⟨postSpend env s.spend, amountBuf, myAmount, by rw [hf1, hsp], e3, hs, by rw [p2, c3, hstart.2.2], ?_⟩
  rw [p1, c1, c2, c3, hstart.2.2]
  simp [dedupClosedForm]

/-! ## the whole bundle -/

/-- the dedup bit of a spend record agrees with the closed form of its tuple in the generator output -/
def DedupOK (flags : Nat) (sp : Spend) (tree : Sexp) : Prop :=
  sp.flags % 2 = 1 ↔ dedupOfSpendTree flags tree = true

theorem spendLoop_dedup (env : Env) (hm : env.mempool = true) (cc : Nat) :
    ∀ (t : Sexp) ret st n m ret' st' m' (ts0 : List Sexp), spendLoop env cc t ret st n m = .ok ((ret', st'), m') →
      TL.All2 (DedupOK env.flags) ret.spends ts0 → TL.All2 (DedupOK env.flags) ret'.spends (ts0 ++ elems t) := by
  intro t
  induction t with
  | atom b =>
    intro ret st n m ret' st' m' ts0 h ha
    cases b with
    | nil =>
      simp only [spendLoop] at h; injection h with h; injection h with h1 h2; injection h1 with h1 h3; subst h1
      simpa [elems] using ha
    | cons x xs => simp [spendLoop] at h
  | pair sp nxt _ ih =>
    intro ret st n m ret' st' m' ts0 h ha
    simp only [spendLoop] at h
    split at h
    · cases h
    · cases hp : parseSingleSpend sp with
      | error e => rw [hp] at h; cases h
      | ok q =>
        obtain ⟨parent, ph, amount, conds⟩ := q
        rw [hp] at h; simp only at h
        obtain ⟨⟨⟨r1, s1⟩, m1⟩, h1, h⟩ := bind_ok h
        obtain ⟨spd, amt, v, e1, e2, e3, _, e5⟩ := processSingleSpend_dedup hm h1
        have hq : DedupOK env.flags spd sp := by
          simp only [DedupOK, dedupOfSpendTree, hp, e2, e3]; exact e5
        have i := ih r1 s1 (n - 1) m1 ret' st' m' (ts0 ++ [sp]) h (by rw [e1]; exact ha.snoc hq)
        simpa [elems, List.append_assoc] using i

theorem postProcess_dedup (env : Env) (ret : Bundle) (st : PState) (flags : Nat) (ts : List Sexp)
    (h : TL.All2 (DedupOK flags) ret.spends ts) : TL.All2 (DedupOK flags) (postProcess env ret st).spends ts := by
  unfold postProcess
  split
  · exact h
  · simp only
    refine TL.All2.map_left (R := DedupOK flags) (S := DedupOK flags) _
      (TL.All2.map_left (R := DedupOK flags) (S := DedupOK flags) _ h ?_) ?_
    · intro a b hab
      simp only [DedupOK] at hab ⊢
      split
      · simp only [clearFlag_ff]; exact hab
      · exact hab
    · intro a b hab
      simp only [DedupOK] at hab ⊢
      split
      · exact hab
      · split
        · simp only [clearFlag_ff]; exact hab
        · exact hab

end ChiaModel.Mp
