import ChiaModel.Lemmas.CondInv
import ChiaModel.Lemmas.Ints
/-
C01: message keys.  A message is counted under the key (source key ‖ destination key ‖ message); each
end-point key is a mode byte followed by exactly the fixed-width fields the mode selects (`KeyForm`), so
the concatenation determines its three parts (`msgKey_injective` in Props/C01.lean).
-/
set_option linter.unusedSimpArgs false
namespace ChiaModel.Rules
open ChiaModel ChiaModel.Cond

/-- width of a message end-point key under a 3-bit mode: the mode byte, then 32 bytes for the coin id
(mode 7), or 32 / 32 / 8 bytes for each of parent id / puzzle hash / amount that the mode selects -/
def keyLen (mode : Nat) : Nat :=
  1 + (if mode = 7 then 32
       else (if mode / 4 % 2 = 1 then 32 else 0) + (if mode / 2 % 2 = 1 then 32 else 0) + (if mode % 2 = 1 then 8 else 0))

/-- a message end-point key: a mode byte followed by exactly the fields the mode selects -/
def KeyForm (k : Bytes) : Prop := ∃ mode rest, k = mode :: rest ∧ k.length = keyLen mode

theorem keyForm_fromSelf (mode : Nat) (parent puzzle coinId : Bytes) (amount : Nat)
    (h1 : parent.length = 32) (h2 : puzzle.length = 32) (h3 : coinId.length = 32) :
    KeyForm (spendIdFromSelf mode parent puzzle amount coinId) := by
  unfold spendIdFromSelf
  by_cases h7 : mode = 7
  · rw [if_pos h7]; exact ⟨7, coinId, rfl, by simp [keyLen, h3]⟩
  · rw [if_neg h7]
    refine ⟨mode, _, rfl, ?_⟩
    simp only [keyLen, if_neg h7, List.length_cons, List.length_append]
    by_cases a : mode / 4 % 2 = 1 <;> by_cases b : mode / 2 % 2 = 1 <;> by_cases c : mode % 2 = 1 <;>
      simp [a, b, c, h1, h2, be_length] <;> omega

theorem keyForm_parse {args : Sexp} {mode : Nat} {k : SpendIdKey} {r : Sexp}
    (h : spendIdParse args mode = .ok (k, r)) : KeyForm k := by
  unfold spendIdParse at h
  by_cases h7 : mode = 7
  · simp only [h7, if_true] at h
    obtain ⟨f, _, h⟩ := bind_ok h
    obtain ⟨id, hid, h⟩ := bind_ok h
    obtain ⟨a, _, h⟩ := bind_ok h
    injection h with h; injection h with hk _
    subst hk
    exact ⟨7, id, rfl, by simp [keyLen, (sanitizeHash_ok hid).2]⟩
  · simp only [h7, if_false] at h
    by_cases c4 : mode / 4 % 2 = 1 <;> by_cases c2 : mode / 2 % 2 = 1 <;> by_cases c1 : mode % 2 = 1 <;>
      simp only [c4, c2, c1, if_true, if_false, bind_assoc, pure_bind] at h
    all_goals
      repeat
        (obtain ⟨_, hx, h⟩ := bind_ok h
         first | (have := (sanitizeHash_ok hx).2) | skip)
    all_goals
      first
        | (change Except.ok _ = Except.ok _ at h
           injection h with h; injection h with hk _
           subst hk
           refine ⟨mode, _, rfl, ?_⟩
           simp only [keyLen, if_neg h7, c4, c2, c1, if_true, if_false, List.length_cons, List.length_append, be_length,
             List.length_nil] <;> omega)
        | (split at h <;> first
            | (obtain ⟨_, _, h⟩ := bind_ok h
               injection h with h; injection h with hk _
               subst hk
               refine ⟨mode, _, rfl, ?_⟩
               simp only [keyLen, if_neg h7, c4, c2, c1, if_true, if_false, List.length_cons, List.length_append, be_length,
                 List.length_nil] <;> omega)
            | (exfalso; simp [bind, Except.bind] at h))

/-- two keys of the prescribed form that are prefixes of the same byte string are equal -/
theorem keyForm_append_inj {k k' x x' : Bytes} (hk : KeyForm k) (hk' : KeyForm k') (h : k ++ x = k' ++ x') :
    k = k' ∧ x = x' := by
  obtain ⟨m, r, rfl, hl⟩ := hk
  obtain ⟨m', r', rfl, hl'⟩ := hk'
  have hm : m = m' := by
    simp only [List.cons_append, List.cons.injEq] at h; exact h.1
  subst hm
  exact List.append_inj h (by rw [hl, hl'])

theorem parseArgs_send_keyForm {c : Sexp} {flags : Nat} {cva : Cond} (h : parseArgs c Gen.opSendMessage flags = .ok cva) :
    ∃ srcMode dst msg, cva = .sendMessage srcMode dst msg ∧ KeyForm dst := by
  unfold parseArgs at h
  simp (config := { decide := true }) only [if_false, if_true, ite_false, ite_true] at h
  obtain ⟨f, _, h⟩ := bind_ok h
  obtain ⟨mode, _, h⟩ := bind_ok h
  obtain ⟨c1, _, h⟩ := bind_ok h
  obtain ⟨f1, _, h⟩ := bind_ok h
  obtain ⟨msg, _, h⟩ := bind_ok h
  obtain ⟨c2, _, h⟩ := bind_ok h
  obtain ⟨⟨dst, c3⟩, hk, h⟩ := bind_ok h
  refine ⟨mode / 8 % 8, dst, msg, ?_, keyForm_parse hk⟩
  split at h
  · obtain ⟨_, _, h⟩ := bind_ok h
    injection h with h; exact h.symm
  · injection h with h; exact h.symm

theorem parseArgs_receive_keyForm {c : Sexp} {flags : Nat} {cva : Cond} (h : parseArgs c Gen.opReceiveMessage flags = .ok cva) :
    ∃ src dstMode msg, cva = .receiveMessage src dstMode msg ∧ KeyForm src := by
  unfold parseArgs at h
  simp (config := { decide := true }) only [if_false, if_true, ite_false, ite_true] at h
  obtain ⟨f, _, h⟩ := bind_ok h
  obtain ⟨mode, _, h⟩ := bind_ok h
  obtain ⟨c1, _, h⟩ := bind_ok h
  obtain ⟨f1, _, h⟩ := bind_ok h
  obtain ⟨msg, _, h⟩ := bind_ok h
  obtain ⟨c2, _, h⟩ := bind_ok h
  obtain ⟨⟨src, c3⟩, hk, h⟩ := bind_ok h
  refine ⟨src, mode % 8, msg, ?_, keyForm_parse hk⟩
  split at h
  · obtain ⟨_, _, h⟩ := bind_ok h
    injection h with h; exact h.symm
  · injection h with h; exact h.symm


theorem sha256_len (m : Bytes) : (sha256 m).length = 32 := by
  simp [sha256, Sha256.sha256, Sha256.digest, be_length]

/-- the three parts of a message key are determined by their concatenation -/
theorem msgKey_inj {src dst msg src' dst' msg' : Bytes} (h1 : KeyForm src) (h2 : KeyForm dst)
    (h1' : KeyForm src') (h2' : KeyForm dst') (h : src ++ dst ++ msg = src' ++ dst' ++ msg') :
    src = src' ∧ dst = dst' ∧ msg = msg' := by
  rw [List.append_assoc, List.append_assoc] at h
  obtain ⟨e1, h⟩ := keyForm_append_inj h1 h1' h
  obtain ⟨e2, e3⟩ := keyForm_append_inj h2 h2' h
  exact ⟨e1, e2, e3⟩

end ChiaModel.Rules
