import ChiaModel.Lemmas.TreeHash
/-
C17: the `TreeCache` invariant and the cached two-stack machine (core Lean only).
-/
namespace ChiaModel.TreeHash
open ChiaModel

/-- The cache invariant: the memo never exceeds its size limit, the per-pair vector never outgrows the
heap, and every memoised slot of a pair holds the tree hash of the tree that pair denotes. -/
structure CacheOK (h : Heap) (c : Cache) : Prop where
  size_le : c.hashes.size ≤ SEEN_MULTIPLE
  pairs_le : c.pairs.size ≤ h.size
  slot_ok : ∀ n s, c.pairs[n]? = some s → s < SEEN_MULTIPLE → isPair h n = true →
    c.hashes[s]? = some (Sexp.treeHash (denote h n))

theorem cacheOK_empty (h : Heap) : CacheOK h Cache.empty :=
  ⟨by simp [Cache.empty, SEEN_MULTIPLE], by simp [Cache.empty], by intro n s hs; simp [Cache.empty] at hs⟩

theorem isPair_lt {h : Heap} {n : Nat} (hp : isPair h n = true) : n < h.size := by
  unfold isPair at hp
  cases hn : h[n]? with
  | none => simp [hn] at hp
  | some nd =>
    have := Array.getElem?_eq_some_iff.mp hn
    exact this.1

theorem isPair_iff {h : Heap} {n : Nat} : isPair h n = true ↔ ∃ l r, h[n]? = some (Node.pair l r) := by
  unfold isPair
  cases hn : h[n]? with
  | none => simp
  | some nd => cases nd <;> simp

theorem growPairs_getElem? (p : Array Nat) (n m : Nat) :
    (growPairs p n)[m]? = if m < p.size then p[m]? else if m ≤ n then some NOT_VISITED else none := by
  unfold growPairs
  by_cases hg : n ≥ p.size
  · rw [if_pos hg, Array.getElem?_append]
    by_cases hm : m < p.size
    · simp [hm]
    · simp only [hm, if_false, Array.getElem?_replicate]
      by_cases hmn : m ≤ n
      · rw [if_pos (by omega), if_pos hmn]
      · rw [if_neg (by omega), if_neg hmn]
  · rw [if_neg hg]
    by_cases hm : m < p.size
    · simp [hm]
    · have : p[m]? = none := by simp; omega
      simp only [hm, if_false, this]
      rw [if_neg (by omega)]

theorem growPairs_size (p : Array Nat) (n : Nat) : (growPairs p n).size = max p.size (n + 1) := by
  unfold growPairs
  by_cases hg : n ≥ p.size
  · rw [if_pos hg]; simp; omega
  · rw [if_neg hg]; omega

theorem get_some {h : Heap} {c : Cache} (hc : CacheOK h c) {n : Nat} {x : Bytes}
    (hg : c.get h n = some x) : x = Sexp.treeHash (denote h n) := by
  unfold Cache.get at hg
  by_cases hp : isPair h n = true
  · simp only [hp, Bool.not_true, Bool.false_eq_true, if_false] at hg
    cases hs : c.pairs[n]? with
    | none => simp [hs] at hg
    | some slot =>
      simp only [hs] at hg
      by_cases hge : slot ≥ SEEN_MULTIPLE
      · simp [hge] at hg
      · rw [if_neg hge] at hg
        have := hc.slot_ok n slot hs (by omega) hp
        rw [this] at hg
        exact (Option.some.inj hg).symm
  · simp [hp] at hg

theorem insert_ok {h : Heap} {c : Cache} (hc : CacheOK h c) (n : Nat) :
    CacheOK h (c.insert h n (Sexp.treeHash (denote h n))) := by
  unfold Cache.insert
  by_cases h1 : c.hashes.size = SEEN_MULTIPLE
  · rw [if_pos h1]; exact hc
  rw [if_neg h1]
  by_cases hp : isPair h n = true
  · simp only [hp, Bool.not_true, Bool.false_eq_true, if_false]
    have hn := isPair_lt hp
    have hsz := hc.size_le
    refine ⟨?_, ?_, ?_⟩
    · simp; omega
    · have := hc.pairs_le
      simp [growPairs_size]; omega
    · intro m s hs hlt hpm
      simp only [Array.getElem?_setIfInBounds, growPairs_size] at hs
      by_cases hnm : n = m
      · subst hnm
        rw [if_pos rfl, if_pos (by omega)] at hs
        have : s = c.hashes.size := (Option.some.inj hs).symm
        subst this
        simp
      · rw [if_neg hnm, growPairs_getElem?] at hs
        by_cases hm : m < c.pairs.size
        · rw [if_pos hm] at hs
          have := hc.slot_ok m s hs hlt hpm
          have hlt2 : s < c.hashes.size := (Array.getElem?_eq_some_iff.mp this).1
          rw [Array.getElem?_push, if_neg (by omega)]; exact this
        · rw [if_neg hm] at hs
          split at hs
          · have : s = NOT_VISITED := (Option.some.inj hs).symm
            subst this; simp [NOT_VISITED, SEEN_MULTIPLE] at hlt
          · cases hs
  · simp only [hp, Bool.not_false, if_true]; exact hc

theorem visit_ok {h : Heap} {c : Cache} (hc : CacheOK h c) (n : Nat) : CacheOK h (c.visit h n).1 := by
  unfold Cache.visit
  by_cases hp : isPair h n = true
  · simp only [hp, Bool.not_true, Bool.false_eq_true, if_false]
    have hn := isPair_lt hp
    refine ⟨hc.size_le, ?_, ?_⟩
    · have := hc.pairs_le
      simp [growPairs_size]; omega
    · intro m s hs hlt hpm
      simp only [Array.getElem?_setIfInBounds, growPairs_size] at hs
      by_cases hnm : n = m
      · subst hnm
        rw [if_pos rfl, if_pos (by omega)] at hs
        have hs := (Option.some.inj hs)
        -- the stored value is a slot only if it was one before
        have hgd : (growPairs c.pairs n).getD n NOT_VISITED = s := by
          by_cases hgt : (growPairs c.pairs n).getD n NOT_VISITED > SEEN_MULTIPLE
          · rw [if_pos hgt] at hs; omega
          · rw [if_neg hgt] at hs; exact hs
        rw [Array.getD_eq_getD_getElem?, growPairs_getElem?] at hgd
        by_cases hm : n < c.pairs.size
        · rw [if_pos hm] at hgd
          have hsome : c.pairs[n]? = some c.pairs[n] := by simp [hm]
          rw [hsome] at hgd
          simp only [Option.getD_some] at hgd
          rw [hgd] at hsome
          exact hc.slot_ok n s hsome hlt hpm
        · rw [if_neg hm, if_pos (Nat.le_refl _)] at hgd
          simp only [Option.getD_some] at hgd
          subst hgd; simp [NOT_VISITED, SEEN_MULTIPLE] at hlt
      · rw [if_neg hnm, growPairs_getElem?] at hs
        by_cases hm : m < c.pairs.size
        · rw [if_pos hm] at hs
          exact hc.slot_ok m s hs hlt hpm
        · rw [if_neg hm] at hs
          split at hs
          · have : s = NOT_VISITED := (Option.some.inj hs).symm
            subst this; simp [NOT_VISITED, SEEN_MULTIPLE] at hlt
          · cases hs
  · simp only [hp, Bool.not_false, if_true]; exact hc

theorem visitLoop_ok {h : Heap} : ∀ (fuel : Nat) (nodes : List Nat) (c c' : Cache), CacheOK h c →
    visitLoop h fuel nodes c = some c' → CacheOK h c' := by
  intro fuel
  induction fuel with
  | zero => intro nodes c c' _ hv; simp [visitLoop] at hv
  | succ f ih =>
    intro nodes c c' hc hv
    cases nodes with
    | nil => simp only [visitLoop] at hv; cases hv; exact hc
    | cons n nodes =>
      simp only [visitLoop] at hv
      split at hv
      · exact ih _ _ _ (visit_ok (visit_ok hc _) _) hv
      · exact ih _ _ _ hc hv

theorem visitTree_ok {h : Heap} {c c' : Cache} (hc : CacheOK h c) {n : Nat}
    (hv : visitTree h c n = some c') : CacheOK h c' := by
  unfold visitTree at hv
  simp only [] at hv
  split at hv
  · cases hv; exact visit_ok hc n
  · exact visitLoop_ok _ _ _ _ (visit_ok hc n) hv

/-! ### the cached machine -/

theorem runCached_sexp {h : Heap} (hwf : WF h) : ∀ n, n < h.size → ∀ c, CacheOK h c →
    ∃ k c', 1 ≤ k ∧ k ≤ stepsOf (denote h n) ∧ CacheOK h c' ∧ ∀ fuel ops hs,
      runCached h (fuel + k) (.sexp n :: ops) hs c = runCached h fuel ops (TH h n :: hs) c' := by
  intro n
  induction n using Nat.strongRecOn with
  | _ n ih =>
    intro hn c hc
    have hget : h[n]? = some h[n] := by simp [hn]
    cases hnd : h[n] with
    | atom b =>
      rw [hnd] at hget
      refine ⟨1, c, Nat.le_refl _, by rw [denote_atom hget]; simp [stepsOf], hc, ?_⟩
      intro fuel ops hs
      rw [runCached, hget]
      simp only []
      rw [leafHash_atom hget]
    | small v =>
      rw [hnd] at hget
      refine ⟨1, c, Nat.le_refl _, by rw [denote_small hget]; simp [stepsOf], hc, ?_⟩
      intro fuel ops hs
      rw [runCached, hget]
      simp only []
      rw [leafHash_small hget]
    | pair l r =>
      rw [hnd] at hget
      obtain ⟨hl, hr⟩ := hwf n l r hget
      cases hg : c.get h n with
      | some x =>
        have hx := get_some hc hg
        refine ⟨1, c, Nat.le_refl _, by rw [denote_pair hwf hget]; simp [stepsOf]; omega, hc, ?_⟩
        intro fuel ops hs
        rw [runCached, hget]
        simp only [hg]
        rw [hx]
      | none =>
        obtain ⟨k1, c1, hk1, hk1', hc1, run1⟩ := ih r hr (by omega) c hc
        obtain ⟨k2, c2, hk2, hk2', hc2, run2⟩ := ih l hl (by omega) c1 hc1
        by_cases hm : c.shouldMemoize h n = true
        · refine ⟨k1 + k2 + 2, c2.insert h n (TH h n), by omega,
            by rw [denote_pair hwf hget]; simp only [stepsOf]; omega, insert_ok hc2 n, ?_⟩
          intro fuel ops hs
          have e : fuel + (k1 + k2 + 2) = (((fuel + 1) + k2) + k1) + 1 := by omega
          rw [e, runCached, hget]
          simp only [hg, hm, if_true]
          rw [run1, run2]
          simp only [runCached, TH_pair hwf hget]
        · refine ⟨k1 + k2 + 2, c2, by omega,
            by rw [denote_pair hwf hget]; simp only [stepsOf]; omega, hc2, ?_⟩
          intro fuel ops hs
          have e : fuel + (k1 + k2 + 2) = (((fuel + 1) + k2) + k1) + 1 := by omega
          rw [e, runCached, hget]
          simp only [hg, hm, Bool.false_eq_true, if_false]
          rw [run1, run2]
          simp only [runCached, TH_pair hwf hget]

theorem runCached_root {h : Heap} (hwf : WF h) {n : Nat} (hn : n < h.size) {c : Cache} (hc : CacheOK h c)
    (fuel : Nat) (hf : 2 * (denote h n).size + 1 ≤ fuel) :
    ∃ c', CacheOK h c' ∧ runCached h fuel [.sexp n] [] c = some ([TH h n], c') := by
  obtain ⟨k, c', hk, hk', hc', run⟩ := runCached_sexp hwf n hn c hc
  have := stepsOf_le (denote h n)
  obtain ⟨f', rfl⟩ : ∃ f', fuel = (f' + 1) + k := ⟨fuel - k - 1, by omega⟩
  exact ⟨c', hc', by rw [run, runCached]⟩

/-! ### `visit_tree` terminates within its fuel: every pair is pushed at most once per cache life time -/

def cnt (p : Nat → Bool) : Nat → Nat
  | 0 => 0
  | N+1 => cnt p N + (if p N then 1 else 0)

theorem cnt_le (p : Nat → Bool) : ∀ N, cnt p N ≤ N := by
  intro N; induction N with
  | zero => simp [cnt]
  | succ N ih => simp only [cnt]; split <;> omega

theorem cnt_congr (p q : Nat → Bool) : ∀ N, (∀ i, i < N → p i = q i) → cnt p N = cnt q N := by
  intro N; induction N with
  | zero => intro _; rfl
  | succ N ih =>
    intro hpq
    simp only [cnt, ih (fun i hi => hpq i (by omega)), hpq N (by omega)]

theorem cnt_flip (p q : Nat → Bool) (n : Nat) (hp : p n = true) (hq : q n = false)
    (hpq : ∀ i, i ≠ n → p i = q i) : ∀ N, n < N → cnt q N + 1 = cnt p N := by
  intro N; induction N with
  | zero => intro hn; omega
  | succ N ih =>
    intro hn
    simp only [cnt]
    by_cases hN : n = N
    · subst hN
      rw [cnt_congr q p n (fun i hi => (hpq i (by omega)).symm), hp, hq]; simp
    · rw [← ih (by omega), hpq N (fun e => hN e.symm)]; omega

/-- state of a pair as `visit` reads it -/
def stOf (c : Cache) (i : Nat) : Nat := c.pairs.getD i NOT_VISITED

/-- pairs of the heap that this cache has not yet seen -/
def mu (h : Heap) (c : Cache) : Nat :=
  cnt (fun i => isPair h i && Nat.ble NOT_VISITED (stOf c i)) h.size

theorem grow_set_getD (p : Array Nat) (n v i : Nat) :
    ((growPairs p n).setIfInBounds n v).getD i NOT_VISITED = if i = n then v else p.getD i NOT_VISITED := by
  rw [Array.getD_eq_getD_getElem?, Array.getD_eq_getD_getElem?, Array.getElem?_setIfInBounds, growPairs_size]
  by_cases hin : i = n
  · subst hin; rw [if_pos rfl, if_pos (by omega), if_pos rfl]; rfl
  · rw [if_neg (fun e => hin e.symm), if_neg hin, growPairs_getElem?]
    by_cases hm : i < p.size
    · rw [if_pos hm]
    · rw [if_neg hm]
      have : p[i]? = none := by simp; omega
      rw [this]
      split <;> rfl

theorem growPairs_getD (p : Array Nat) (n : Nat) :
    (growPairs p n).getD n NOT_VISITED = p.getD n NOT_VISITED := by
  rw [Array.getD_eq_getD_getElem?, Array.getD_eq_getD_getElem?, growPairs_getElem?]
  by_cases hm : n < p.size
  · rw [if_pos hm]
  · rw [if_neg hm, if_pos (Nat.le_refl _)]
    have : p[n]? = none := by simp; omega
    rw [this]; rfl

theorem dec_state (s : Nat) :
    ((if s > SEEN_MULTIPLE then s - 1 else s) = SEEN_ONCE ↔ s = NOT_VISITED) ∧
    (s ≠ NOT_VISITED → (NOT_VISITED ≤ (if s > SEEN_MULTIPLE then s - 1 else s) ↔ NOT_VISITED ≤ s)) := by
  have h1 : SEEN_MULTIPLE = 4294967293 := rfl
  have h2 : SEEN_ONCE = 4294967294 := rfl
  have h3 : NOT_VISITED = 4294967295 := rfl
  by_cases hgt : s > SEEN_MULTIPLE
  · rw [if_pos hgt]; omega
  · rw [if_neg hgt]; omega

/-- `visit` answers true exactly for a pair not seen before, and then (only then) `mu` drops by one -/
theorem visit_mu (h : Heap) (c : Cache) (n : Nat) :
    mu h (c.visit h n).1 + (if (c.visit h n).2 then 1 else 0) = mu h c := by
  unfold Cache.visit
  by_cases hp : isPair h n = true
  · simp only [hp, Bool.not_true, Bool.false_eq_true, if_false]
    rw [growPairs_getD]
    have hn := isPair_lt hp
    generalize hs : c.pairs.getD n NOT_VISITED = s
    have hst : stOf c n = s := hs
    obtain ⟨d1, d2⟩ := dec_state s
    by_cases hnv : s = NOT_VISITED
    · -- first visit
      have e1 : (if s > SEEN_MULTIPLE then s - 1 else s) = SEEN_ONCE := d1.mpr hnv
      rw [e1]
      simp only [beq_self_eq_true, if_true]
      unfold mu
      apply cnt_flip _ _ n
      · have : Nat.ble NOT_VISITED s = true := by rw [hnv]; decide
        simp [hp, hst, this]
      · simp only [stOf, grow_set_getD, if_true]
        have : Nat.ble NOT_VISITED SEEN_ONCE = false := by decide
        rw [this]; simp
      · intro i hi; simp only [stOf, grow_set_getD, if_neg hi]
      · exact hn
    · -- seen before (or a value no u32 can hold): nothing changes for `mu`
      have hflag : ((if s > SEEN_MULTIPLE then s - 1 else s) == SEEN_ONCE) = false := by
        simp only [beq_eq_false_iff_ne, ne_eq]
        exact fun e => hnv (d1.mp e)
      rw [hflag]
      simp only [Bool.false_eq_true, if_false, Nat.add_zero]
      unfold mu
      apply cnt_congr
      intro i _
      simp only [stOf, grow_set_getD]
      by_cases hin : i = n
      · subst hin
        rw [if_pos rfl, hs]
        congr 1
        rw [Bool.eq_iff_iff]
        simp only [Nat.ble_eq]
        exact d2 hnv
      · rw [if_neg hin]
  · simp only [hp, Bool.not_false, if_true, Bool.false_eq_true, if_false, Nat.add_zero]

theorem visitLoop_total (h : Heap) : ∀ (fuel : Nat) (nodes : List Nat) (c : Cache),
    2 * mu h c + nodes.length + 1 ≤ fuel → ∃ c', visitLoop h fuel nodes c = some c' := by
  intro fuel
  induction fuel with
  | zero => intro nodes c hf; omega
  | succ f ih =>
    intro nodes c hf
    cases nodes with
    | nil => exact ⟨c, by simp [visitLoop]⟩
    | cons n nodes =>
      simp only [visitLoop]
      split
      · rename_i l r _
        apply ih
        have h1 := visit_mu h c l
        have h2 := visit_mu h (c.visit h l).1 r
        simp only [List.length_cons] at hf
        cases hv1 : (c.visit h l).2 <;> cases hv2 : ((c.visit h l).1.visit h r).2 <;>
          simp only [hv1, hv2, Bool.false_eq_true, if_false, if_true, List.length_cons] at h1 h2 ⊢ <;> omega
      · apply ih
        simp only [List.length_cons] at hf
        omega

theorem visitTree_total (h : Heap) (c : Cache) (n : Nat) : ∃ c', visitTree h c n = some c' := by
  unfold visitTree
  simp only []
  split
  · exact ⟨_, rfl⟩
  · apply visitLoop_total
    have := cnt_le (fun i => isPair h i && Nat.ble NOT_VISITED (stOf (c.visit h n).1 i)) h.size
    simp only [mu, visitFuel, List.length_cons, List.length_nil]
    omega

/-! ### the allocator only appends: a cache stays valid when the heap grows -/

/-- `h` is an initial segment of `h'` -/
def Extends (h h' : Heap) : Prop := h.size ≤ h'.size ∧ ∀ i, i < h.size → h'[i]? = h[i]?

theorem wf_of_extends {h h' : Heap} (he : Extends h h') (hwf : WF h') : WF h := by
  intro n l r hn
  have hlt : n < h.size := (Array.getElem?_eq_some_iff.mp hn).1
  exact hwf n l r (by rw [he.2 n hlt]; exact hn)

theorem denoteF_extends {h h' : Heap} (he : Extends h h') (hwf : WF h') :
    ∀ f n, n < h.size → denoteF h' f n = denoteF h f n := by
  intro f
  induction f with
  | zero => intro n _; rfl
  | succ f ih =>
    intro n hn
    simp only [denoteF, he.2 n hn]
    cases hnd : h[n]? with
    | none => rfl
    | some nd =>
      cases nd with
      | atom b => rfl
      | small v => rfl
      | pair l r =>
        obtain ⟨hl, hr⟩ := wf_of_extends he hwf n l r hnd
        simp only []
        rw [ih l (by omega), ih r (by omega)]

theorem denote_extends {h h' : Heap} (he : Extends h h') (hwf : WF h') {n : Nat} (hn : n < h.size) :
    denote h' n = denote h n := denoteF_extends he hwf _ n hn

theorem cacheOK_extends {h h' : Heap} (he : Extends h h') (hwf : WF h') {c : Cache} (hc : CacheOK h c) :
    CacheOK h' c := by
  refine ⟨hc.size_le, Nat.le_trans hc.pairs_le he.1, ?_⟩
  intro n s hs hlt hp
  have hn : n < h.size := Nat.lt_of_lt_of_le (Array.getElem?_eq_some_iff.mp hs).1 hc.pairs_le
  have hp' : isPair h n = true := by
    unfold isPair at hp ⊢
    rw [he.2 n hn] at hp; exact hp
  rw [denote_extends he hwf hn]
  exact hc.slot_ok n s hs hlt hp'

/-! ### histories: any sequence of pre-visits and hashes through one cache -/

inductive CacheOp where
  | visit (n : Nat)      -- `cache.visit_tree(a, n)`
  | hash (n : Nat)       -- `tree_hash_cached(a, n, &mut cache)`

def CacheOp.root : CacheOp → Nat
  | .visit n => n
  | .hash n => n

/-- run a history; the hashes returned, in order -/
def runHistory (h : Heap) : Cache → List CacheOp → Option (List Bytes × Cache)
  | c, [] => some ([], c)
  | c, .visit n :: ops =>
    match visitTree h c n with
    | none => none
    | some c1 => runHistory h c1 ops
  | c, .hash n :: ops =>
    match treeHashCached h n c with
    | none => none
    | some (x, c1) =>
      match runHistory h c1 ops with
      | none => none
      | some (xs, c2) => some (x :: xs, c2)

def specHistory (h : Heap) : List CacheOp → List Bytes
  | [] => []
  | .visit _ :: ops => specHistory h ops
  | .hash n :: ops => Sexp.treeHash (denote h n) :: specHistory h ops

theorem treeHashCached_spec {h : Heap} (hwf : WF h) {n : Nat} (hn : n < h.size) {c : Cache} (hc : CacheOK h c) :
    ∃ c', treeHashCached h n c = some (Sexp.treeHash (denote h n), c') ∧ CacheOK h c' := by
  obtain ⟨c1, hv⟩ := visitTree_total h c n
  obtain ⟨c2, hc2, hrun⟩ := runCached_root hwf hn (visitTree_ok hc hv) (iterFuel h n)
    (by simp [iterFuel, sizeTable_getD hwf hn])
  exact ⟨c2, by simp only [treeHashCached, hv, hrun], hc2⟩

theorem runHistory_spec {h : Heap} (hwf : WF h) : ∀ (ops : List CacheOp) (c : Cache), CacheOK h c →
    (∀ op, op ∈ ops → op.root < h.size) →
    ∃ c', runHistory h c ops = some (specHistory h ops, c') ∧ CacheOK h c' := by
  intro ops
  induction ops with
  | nil => intro c hc _; exact ⟨c, rfl, hc⟩
  | cons op ops ih =>
    intro c hc hr
    have hr' : ∀ op', op' ∈ ops → op'.root < h.size := fun o ho => hr o (List.mem_cons_of_mem _ ho)
    cases op with
    | visit n =>
      obtain ⟨c1, hv⟩ := visitTree_total h c n
      obtain ⟨c', hrun, hc'⟩ := ih c1 (visitTree_ok hc hv) hr'
      exact ⟨c', by simp only [runHistory, hv, specHistory, hrun], hc'⟩
    | hash n =>
      have hn : n < h.size := hr (.hash n) (List.mem_cons_self)
      obtain ⟨c1, hh, hc1⟩ := treeHashCached_spec hwf hn hc
      obtain ⟨c', hrun, hc'⟩ := ih c1 hc1 hr'
      exact ⟨c', by simp only [runHistory, hh, specHistory, hrun], hc'⟩

end ChiaModel.TreeHash
