import ChiaModel.Lemmas.TreeCache
/-
C17: the back-reference deserialiser builds a well-formed heap and returns a pointer into it.
-/
namespace ChiaModel.TreeHash
open ChiaModel

/-- parse-stack invariant: the heap is well formed and every pointer on the stack (values and cached
stack lists) points into it -/
structure DInv (heap : Heap) (vals : Array Val) : Prop where
  wf : WF heap
  ptr : ∀ (i : Nat) (v : Val), vals[i]? = some v → v.1 < heap.size ∧ ∀ p, v.2 = some p → p < heap.size

theorem wf_push {heap : Heap} (hwf : WF heap) (nd : Node)
    (hnd : ∀ l r, nd = Node.pair l r → l < heap.size ∧ r < heap.size) : WF (heap.push nd) := by
  intro n l r hn
  rw [Array.getElem?_push] at hn
  by_cases h : n = heap.size
  · rw [if_pos h] at hn
    have := hnd l r (Option.some.inj hn)
    omega
  · rw [if_neg h] at hn; exact hwf n l r hn

theorem dinv_mono {heap heap' : Heap} {vals : Array Val} (hd : DInv heap vals) (hwf : WF heap')
    (hsz : heap.size ≤ heap'.size) : DInv heap' vals :=
  ⟨hwf, fun i v hv => ⟨by have := (hd.ptr i v hv).1; omega, fun p hp => by have := (hd.ptr i v hv).2 p hp; omega⟩⟩

theorem dinv_push {heap : Heap} {vals : Array Val} (hd : DInv heap vals) (v : Val)
    (h1 : v.1 < heap.size) (h2 : ∀ p, v.2 = some p → p < heap.size) : DInv heap (vals.push v) := by
  refine ⟨hd.wf, ?_⟩
  intro i w hw
  rw [Array.getElem?_push] at hw
  by_cases h : i = vals.size
  · rw [if_pos h] at hw; cases hw; exact ⟨h1, h2⟩
  · rw [if_neg h] at hw; exact hd.ptr i w hw

theorem dinv_pop {heap : Heap} {vals : Array Val} (hd : DInv heap vals) : DInv heap vals.pop := by
  refine ⟨hd.wf, ?_⟩
  intro i w hw
  rw [Array.getElem?_pop] at hw
  split at hw
  · exact hd.ptr i w hw
  · cases hw

theorem back_mem {α} {a : Array α} {v : α} (h : a.back? = some v) : a[a.size - 1]? = some v := by
  simpa [Array.back?] using h

/-- a traversal state only holds pointers into the heap / indices into the stack -/
def TOk (heap : Heap) (args : Array Val) : TState → Prop
  | .vec i => i < args.size
  | .sx none => True
  | .sx (some p) => p < heap.size

theorem travStep_ok {heap : Heap} {args : Array Val} (hd : DInv heap args) {st st' : TState} {bit : Bool}
    (hst : TOk heap args st) (hs : travStep heap args st bit = some st') : TOk heap args st' := by
  cases st with
  | sx p =>
    cases p with
    | none => simp [travStep] at hs
    | some p =>
      simp only [travStep] at hs
      cases hp : heap[p]? with
      | none => simp [hp] at hs
      | some nd =>
        cases nd with
        | atom b => simp [hp] at hs
        | small v => simp [hp] at hs
        | pair l r =>
          simp only [hp] at hs
          cases hs
          have := hd.wf p l r hp
          simp only [TOk] at hst ⊢
          split <;> omega
  | vec i =>
    simp only [travStep] at hs
    simp only [TOk] at hst
    by_cases hb : bit = true
    · simp only [hb, if_true] at hs
      by_cases hi : i = 0
      · simp only [hi, if_true] at hs; cases hs; trivial
      · simp only [hi, if_false] at hs; cases hs; simp only [TOk]; omega
    · simp only [hb, Bool.false_eq_true, if_false] at hs
      cases hs
      have hget : args[i]? = some args[i] := by simp [hst]
      simp only [TOk, Array.getD_eq_getD_getElem?, hget, Option.getD_some]
      exact (hd.ptr i _ hget).1

theorem travBits_ok {heap : Heap} {args : Array Val} (hd : DInv heap args) : ∀ (bits : List Bool) (st st' : TState),
    TOk heap args st → travBits heap args st bits = some st' → TOk heap args st' := by
  intro bits
  induction bits with
  | nil => intro st st' hst hs; simp only [travBits] at hs; cases hs; exact hst
  | cons b bs ih =>
    intro st st' hst hs
    simp only [travBits] at hs
    cases h1 : travStep heap args st b with
    | none => simp [h1] at hs
    | some st1 =>
      simp only [h1] at hs
      exact ih st1 st' (travStep_ok hd hst h1) hs

theorem realise_ok {heap : Heap} {args : Array Val} (hd : DInv heap args) (p : Option Nat)
    (hp : ∀ q, p = some q → q < heap.size) :
    DInv (realise heap p).1 args ∧ (realise heap p).2 < (realise heap p).1.size ∧ heap.size ≤ (realise heap p).1.size := by
  cases p with
  | some q => exact ⟨hd, hp q rfl, Nat.le_refl _⟩
  | none =>
    simp only [realise]
    refine ⟨dinv_mono hd (wf_push hd.wf _ (by intro l r h; cases h)) (by simp), by simp, by simp⟩

theorem buildList_ok : ∀ (cnt k : Nat) (heap : Heap) (args : Array Val) (acc : Option Nat),
    DInv heap args → (∀ q, acc = some q → q < heap.size) →
    DInv (buildList cnt k heap args acc).1 (buildList cnt k heap args acc).2.1 ∧
    (∀ q, (buildList cnt k heap args acc).2.2 = some q → q < (buildList cnt k heap args acc).1.size) ∧
    heap.size ≤ (buildList cnt k heap args acc).1.size ∧
    (buildList cnt k heap args acc).2.1.size = args.size := by
  intro cnt
  induction cnt with
  | zero => intro k heap args acc hd hacc; exact ⟨hd, hacc, Nat.le_refl _, rfl⟩
  | succ cnt ih =>
    intro k heap args acc hd hacc
    simp only [buildList]
    cases hk : args[k]? with
    | none => exact ⟨hd, hacc, Nat.le_refl _, rfl⟩
    | some v =>
      obtain ⟨v1, v2⟩ := v
      cases v2 with
      | some cached =>
        simp only []
        exact ih (k + 1) heap args (some cached) hd
          (by intro q hq; cases hq; exact (hd.ptr k _ hk).2 cached rfl)
      | none =>
        have hv1 := (hd.ptr k _ hk).1
        simp only [] at hv1
        cases acc with
        | some t =>
          have ht := hacc t rfl
          simp only []
          have hwf2 : WF (heap.push (Node.pair v1 t)) :=
            wf_push hd.wf _ (by intro l r h; cases h; exact ⟨hv1, ht⟩)
          have hd2 : DInv (heap.push (Node.pair v1 t)) (args.setIfInBounds k (v1, some heap.size)) := by
            refine ⟨hwf2, ?_⟩
            intro i w hw
            rw [Array.getElem?_setIfInBounds] at hw
            by_cases hki : k = i
            · rw [if_pos hki] at hw
              split at hw
              · cases hw; simp only [Array.size_push]
                exact ⟨by omega, fun p hp => by cases hp; omega⟩
              · cases hw
            · rw [if_neg hki] at hw
              have := hd.ptr i w hw
              simp only [Array.size_push]
              exact ⟨by omega, fun p hp => by have := this.2 p hp; omega⟩
          have := ih (k + 1) _ _ (some heap.size) hd2 (by intro q hq; cases hq; simp)
          refine ⟨this.1, this.2.1, ?_, ?_⟩
          · have h3 := this.2.2.1
            have h4 : (heap.push (Node.pair v1 t)).size = heap.size + 1 := by simp
            omega
          · rw [this.2.2.2]; simp
        | none =>
          simp only []
          have hwf1 : WF (heap.push (Node.small 0)) := wf_push hd.wf _ (by intro l r h; cases h)
          have hwf2 : WF ((heap.push (Node.small 0)).push (Node.pair v1 heap.size)) :=
            wf_push hwf1 _ (by intro l r h; cases h; simp only [Array.size_push]; omega)
          have hd2 : DInv ((heap.push (Node.small 0)).push (Node.pair v1 heap.size))
              (args.setIfInBounds k (v1, some (heap.push (Node.small 0)).size)) := by
            refine ⟨hwf2, ?_⟩
            intro i w hw
            rw [Array.getElem?_setIfInBounds] at hw
            by_cases hki : k = i
            · rw [if_pos hki] at hw
              split at hw
              · cases hw; simp only [Array.size_push]
                exact ⟨by omega, fun p hp => by cases hp; omega⟩
              · cases hw
            · rw [if_neg hki] at hw
              have := hd.ptr i w hw
              simp only [Array.size_push]
              exact ⟨by omega, fun p hp => by have := this.2 p hp; omega⟩
          have := ih (k + 1) _ _ (some (heap.push (Node.small 0)).size) hd2 (by intro q hq; cases hq; simp)
          refine ⟨this.1, this.2.1, ?_, ?_⟩
          · have h3 := this.2.2.1
            have h4 : ((heap.push (Node.small 0)).push (Node.pair v1 heap.size)).size = heap.size + 2 := by simp
            omega
          · rw [this.2.2.2]; simp

theorem traverse_ok {heap : Heap} {args : Array Val} (hd : DInv heap args) {path : Bytes}
    {heap1 : Heap} {args1 : Array Val} {node : Nat}
    (ht : traversePathWithVec heap path args = some (heap1, args1, node)) :
    DInv heap1 args1 ∧ node < heap1.size := by
  unfold traversePathWithVec at ht
  cases hb : pathBits path with
  | none =>
    simp only [hb] at ht
    cases ht
    have := realise_ok hd none (by intro q hq; cases hq)
    exact ⟨this.1, this.2.1⟩
  | some bits =>
    simp only [hb] at ht
    have h0 : TOk heap args (travInit args) := by
      unfold travInit
      by_cases he : args.isEmpty = true
      · simp [he, TOk]
      · simp only [he, Bool.false_eq_true, if_false, TOk]
        have : args.size ≠ 0 := by
          intro h0; apply he; simp [Array.isEmpty, h0]
        omega
    cases hs : travBits heap args (travInit args) bits with
    | none => simp [hs] at ht
    | some st =>
      simp only [hs] at ht
      have hst := travBits_ok hd bits _ _ h0 hs
      cases st with
      | sx p =>
        simp only [] at ht
        cases ht
        have := realise_ok hd p (by intro q hq; subst hq; exact hst)
        exact ⟨this.1, this.2.1⟩
      | vec i =>
        simp only [] at ht
        cases ht
        have hb := buildList_ok (i + 1) 0 heap args none hd (by intro q hq; cases hq)
        have := realise_ok hb.1 _ hb.2.1
        exact ⟨this.1, this.2.1⟩

theorem newAtom_not_pair (b : Bytes) : ∀ l r, newAtom b ≠ Node.pair l r := by
  intro l r; unfold newAtom; split <;> simp

theorem parseAtomNode_not_pair {b0 : Nat} {rest rest1 : Bytes} {nd : Node}
    (h : parseAtomNode b0 rest = some (nd, rest1)) : ∀ l r, nd ≠ Node.pair l r := by
  intro l r
  unfold parseAtomNode at h
  split at h
  · cases h; simp
  · split at h
    · cases h; simp
    · split at h
      · cases h
      · cases h; exact newAtom_not_pair _ l r

theorem deserLoop_ok : ∀ (fuel : Nat) (ops : List ParseOp) (vals : Array Val) (heap : Heap) (bs : Bytes)
    (heap' : Heap) (root : Nat), DInv heap vals → deserLoop fuel ops vals heap bs = some (heap', root) →
    WF heap' ∧ root < heap'.size := by
  intro fuel
  induction fuel with
  | zero => intro ops vals heap bs heap' root _ h; simp [deserLoop] at h
  | succ f ih =>
    intro ops vals heap bs heap' root hd h
    cases ops with
    | nil =>
      simp only [deserLoop] at h
      cases hb : vals.back? with
      | none => simp [hb] at h
      | some v =>
        simp only [hb] at h
        cases h
        exact ⟨hd.wf, (hd.ptr _ v (back_mem hb)).1⟩
    | cons op ops =>
      cases op with
      | sexp =>
        cases bs with
        | nil => simp [deserLoop] at h
        | cons b rest =>
          simp only [deserLoop] at h
          split at h
          · exact ih _ _ _ _ _ _ hd h
          · split at h
            · cases hp : parsePath rest with
              | none => simp [hp] at h
              | some pr =>
                obtain ⟨path, rest1⟩ := pr
                simp only [hp] at h
                cases ht : traversePathWithVec heap path vals with
                | none => simp [ht] at h
                | some tr =>
                  obtain ⟨heap1, vals1, node⟩ := tr
                  simp only [ht] at h
                  have := traverse_ok hd ht
                  exact ih _ _ _ _ _ _ (dinv_push this.1 (node, none) this.2 (by intro p hp; cases hp)) h
            · cases hp : parseAtomNode b rest with
              | none => simp [hp] at h
              | some pr =>
                obtain ⟨nd, rest1⟩ := pr
                simp only [hp] at h
                have hwf := wf_push hd.wf nd (by intro l r e; exact absurd e (parseAtomNode_not_pair hp l r))
                exact ih _ _ _ _ _ _ (dinv_push (dinv_mono hd hwf (by simp)) (heap.size, none) (by simp)
                  (by intro p hp; cases hp)) h
      | cons =>
        simp only [deserLoop] at h
        cases hr : vals.back? with
        | none => simp [hr] at h
        | some right =>
          cases hl : vals.pop.back? with
          | none => simp [hr, hl] at h
          | some left =>
            simp only [hr, hl] at h
            have h1 := (hd.ptr _ right (back_mem hr)).1
            have h2 := ((dinv_pop hd).ptr _ left (back_mem hl)).1
            have hwf := wf_push hd.wf (Node.pair left.1 right.1) (by intro l r e; cases e; exact ⟨h2, h1⟩)
            exact ih _ _ _ _ _ _ (dinv_push (dinv_mono (dinv_pop (dinv_pop hd)) hwf (by simp)) (heap.size, none)
              (by simp) (by intro p hp; cases hp)) h

theorem deserializeBackrefs_ok {b : Bytes} {heap : Heap} {root : Nat}
    (h : deserializeBackrefs b = some (heap, root)) : WF heap ∧ root < heap.size :=
  deserLoop_ok _ _ _ _ _ _ _ ⟨by intro n l r hn; simp at hn, by intro i v hv; simp at hv⟩ h

end ChiaModel.TreeHash
