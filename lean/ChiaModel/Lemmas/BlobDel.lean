import ChiaModel.Lemmas.BlobPrune
/-
C18: `delete` on the index-level model — the case where the deleted leaf's parent has a parent.
-/
namespace ChiaModel.Blob
open List M

theorem Rep.parentOfLeaf_eq {bl : List Block} {p : Option Nat} {c : IT} (h : Rep bl p c) (hn : c.indices.Nodup)
    {idx : Nat} (hm : ∃ e, e ∈ c.leaves ∧ e.1 = idx) (hnl : IT.isLeafAt idx c = false) :
    IT.parentOfLeaf idx c = parentOfL bl idx := by
  induction c generalizing p with
  | leaf i k v hh =>
    obtain ⟨e, he, hei⟩ := hm
    simp only [IT.leaves, List.mem_singleton] at he
    subst he
    simp only at hei
    simp [IT.isLeafAt, hei] at hnl
  | node i l r ihl ihr =>
    simp only [Rep] at h
    obtain ⟨_, hl, hr⟩ := h
    simp only [IT.indices, List.nodup_cons] at hn
    obtain ⟨hln, hrn, hdis⟩ := _root_.ChiaModel.Blob.T.nodup_append' hn.2
    rw [IT.parentOfLeaf_node]
    have leafPar : ∀ x : IT, Rep bl (some i) x → IT.isLeafAt idx x = true → parentOfL bl idx = some i := by
      intro x hx hb
      obtain ⟨k, v, hh, e⟩ := IT.isLeafAt_eq idx x hb
      subst e
      exact hx.root_parent
    by_cases h1 : IT.isLeafAt idx l = true
    · rw [h1]; simp only [Bool.true_or, if_true]; exact (leafPar l hl h1).symm
    · have h1' : IT.isLeafAt idx l = false := by simpa using h1
      by_cases h2 : IT.isLeafAt idx r = true
      · rw [h1', h2]; simp only [Bool.or_true, if_true]; exact (leafPar r hr h2).symm
      · have h2' : IT.isLeafAt idx r = false := by simpa using h2
        rw [h1', h2']
        simp only [Bool.or_self, Bool.false_eq_true, if_false]
        obtain ⟨e, he, hei⟩ := hm
        simp only [IT.leaves, List.mem_append] at he
        rcases he with he | he
        · have := ihl hl hln ⟨e, he, hei⟩ h1'
          have hsome : ∃ q, parentOfL bl idx = some q := by
            -- a leaf that is not the root of `l` has a parent
            have hinfo := hl.info hln idx (hei ▸ l.leaf_idx_mem e he)
            have hne : idx ≠ l.idx := by
              intro e'
              cases l with
              | leaf a b c d => simp [IT.isLeafAt, IT.idx] at h1' e'; exact h1' e'.symm
              | node a b c =>
                simp only [IT.idx] at e'
                simp only [IT.indices, List.nodup_cons] at hln
                simp only [IT.leaves, List.mem_append] at he
                apply hln.1
                rw [← e', ← hei]
                rcases he with he | he
                · exact List.mem_append.mpr (Or.inl (b.leaf_idx_mem e he))
                · exact List.mem_append.mpr (Or.inr (c.leaf_idx_mem e he))
            obtain ⟨q, _, hq, _⟩ := hinfo.parent hne
            exact ⟨q, hq⟩
          obtain ⟨q, hq⟩ := hsome
          rw [this, hq]; rfl
        · have hnl' : idx ∉ l.indices := fun h' => hdis idx h' (hei ▸ r.leaf_idx_mem e he)
          rw [IT.parentOfLeaf_not_mem idx l hnl']
          simp only [Option.none_or]
          exact ihr hr hrn ⟨e, he, hei⟩ h2'

theorem Good.hash_iff_idx {s : Blob} {t : IT} (g : Good s t) {idx : Nat} {ok : KeyId} {ov : ValueId} {oh : Hash}
    (hleaf : (idx, ok, ov, oh) ∈ t.leaves) : ∀ e ∈ t.leaves, (e.2.2.2 = oh ↔ e.1 = idx) := by
  intro e he
  constructor
  · intro h
    have := inj_of_nodup_map (·.2.2.2) t.leaves g.hashes e he _ hleaf h
    rw [this]
  · intro h
    have hn : (t.leaves.map (·.1)).Nodup := g.nodup.sublist t.leaves_idx_sublist
    have := inj_of_nodup_map (·.1) t.leaves hn e he _ hleaf h
    rw [this]

/-- everything the proof needs to know about the state `T` after the structural writes of `delete`
(grandparent case), before the dirty-marking walk -/
structure SplicePost (s T : Blob) (t : IT) (idx pi gi sibIdx : Nat) (key : KeyId) (v0 : ValueId) (oh : Hash)
    (pl pr gl gr gl' gr' : Nat) (gp : Option Nat) : Prop where
  good : Good s t
  leafMem : (idx, key, v0, oh) ∈ t.leaves
  leafB : s.blocks[idx]? = some { dirty := false, node := .leaf oh (some pi) key v0 }
  par : ∃ d hh, s.blocks[pi]? = some { dirty := d, node := .internal hh (some gi) pl pr }
  sibDef : (idx = pr ∧ sibIdx = pl) ∨ (idx = pl ∧ idx ≠ pr ∧ sibIdx = pr)
  gpar : ∃ d hh, s.blocks[gi]? = some { dirty := d, node := .internal hh gp gl gr }
  gkids : (pi = gl ∧ gl' = sibIdx ∧ gr' = gr) ∨ (pi = gr ∧ pi ≠ gl ∧ gl' = gl ∧ gr' = sibIdx)
  bSib : ∀ b, s.blocks[sibIdx]? = some b → T.blocks[sibIdx]? = some { b with node := b.node.setParent (some gi) }
  bGi : ∃ d hh, T.blocks[gi]? = some { dirty := d, node := .internal hh gp gl' gr' }
  bOther : ∀ j, j ≠ sibIdx → j ≠ gi → T.blocks[j]? = s.blocks[j]?
  len : T.blocks.length = s.blocks.length
  free : ∀ j, j ∈ T.free ↔ (j ∈ s.free ∨ j = idx ∨ j = pi)
  freeNodup : T.free.Nodup
  k2i : T.k2i ~ mapErase s.k2i key
  h2i : T.h2i ~ mapErase s.h2i oh
  range : RangeP T

namespace SplicePost

variable {s T : Blob} {t : IT} {idx pi gi sibIdx : Nat} {key : KeyId} {v0 : ValueId} {oh : Hash}
  {pl pr gl gr gl' gr' : Nat} {gp : Option Nat}

theorem idxMem (P : SplicePost s T t idx pi gi sibIdx key v0 oh pl pr gl gr gl' gr' gp) : idx ∈ t.indices :=
  t.leaf_idx_mem _ P.leafMem

/-- facts from the local invariant: the parent's children are distinct, live, and point back -/
theorem facts (P : SplicePost s T t idx pi gi sibIdx key v0 oh pl pr gl gr gl' gr' gp) :
    pi ∈ t.indices ∧ gi ∈ t.indices ∧ pl ≠ pr ∧ gl ≠ gr ∧ parentOfL s.blocks sibIdx = some pi
      ∧ sibIdx ∈ t.indices ∧ (idx = pl ∨ idx = pr) ∧ (pi = gl ∨ pi = gr) := by
  have hinv := P.good.linv
  have hlive := (P.good.live_iff idx).mpr P.idxMem
  obtain ⟨d, hh, hpb⟩ := P.par
  obtain ⟨dg, hhg, hgb⟩ := P.gpar
  obtain ⟨hpf, d', ph, pp2, pl2, pr2, hpb2, hc⟩ := hinv.parent_of hlive.2 P.leafB rfl
  rw [hpb] at hpb2
  injection hpb2 with e; injection e with _ hn; injection hn with _ _ e3 e4
  subst e3; subst e4
  have hpl : pi < s.blocks.length := (List.getElem?_eq_some_iff.mp hpb).1
  obtain ⟨a1, a2, a3, a4, a5, a6, a7⟩ := hinv.children' hpf hpb
  obtain ⟨hgf, dg', gh2, gp2, gl2, gr2, hgb2, hgc⟩ := hinv.parent_of hpf hpb rfl
  rw [hgb] at hgb2
  injection hgb2 with e; injection e with _ hn; injection hn with _ _ e3 e4
  subst e3; subst e4
  have hgl : gi < s.blocks.length := (List.getElem?_eq_some_iff.mp hgb).1
  obtain ⟨b1, b2, b3, b4, b5, b6, b7⟩ := hinv.children' hgf hgb
  have hpim := (P.good.live_iff pi).mp ⟨hpl, hpf⟩
  have hgim := (P.good.live_iff gi).mp ⟨hgl, hgf⟩
  refine ⟨hpim, hgim, a5, b5, ?_, ?_, hc, hgc⟩
  · rcases P.sibDef with ⟨_, e⟩ | ⟨_, _, e⟩
    · rw [e]; exact a6
    · rw [e]; exact a7
  · rcases P.sibDef with ⟨_, e⟩ | ⟨_, _, e⟩
    · rw [e]; exact (P.good.live_iff pl).mp ⟨a1, a3⟩
    · rw [e]; exact (P.good.live_iff pr).mp ⟨a2, a4⟩

/-- a subtree whose root is not `pi` keeps its root index -/
theorem prune_root_keep (P : SplicePost s T t idx pi gi sibIdx key v0 oh pl pr gl gr gl' gr' gp)
    {q : Option Nat} {c : IT} (h : Rep s.blocks q c) (hne : c.idx ≠ pi) (hnl : IT.isLeafAt idx c = false) :
    (IT.prune idx c).idx = c.idx := by
  rw [IT.prune_idx idx c hnl]
  cases c with
  | leaf i k v hh => rfl
  | node i l r =>
    simp only [Rep] at h
    obtain ⟨_, hl, hr⟩ := h
    have notLeaf : ∀ x : IT, Rep s.blocks (some i) x → IT.isLeafAt idx x = false := by
      intro x hx
      cases hb : IT.isLeafAt idx x with
      | false => rfl
      | true =>
        obtain ⟨k, v, hh, e⟩ := IT.isLeafAt_eq idx x hb
        subst e
        simp only [Rep] at hx
        rw [P.leafB] at hx
        injection hx with hx; injection hx with _ hn; injection hn with _ e2 _ _
        injection e2 with e2
        exact absurd e2.symm hne
    simp only [notLeaf l hl, notLeaf r hr, Bool.false_eq_true, if_false, IT.idx]

/-- the subtree rooted at `pi` is replaced by the sibling subtree -/
theorem prune_root_pi (P : SplicePost s T t idx pi gi sibIdx key v0 oh pl pr gl gr gl' gr' gp)
    {q : Option Nat} {c : IT} (h : Rep s.blocks q c) (he : c.idx = pi) :
    ∃ i l r, c = .node i l r ∧ l.idx = pl ∧ r.idx = pr ∧ q = some gi ∧
      ((idx = pr ∧ IT.isLeafAt idx l = false ∧ IT.isLeafAt idx r = true ∧ IT.prune idx c = l) ∨
       (idx = pl ∧ IT.isLeafAt idx l = true ∧ IT.prune idx c = r)) := by
  obtain ⟨d, hh, hpb⟩ := P.par
  obtain ⟨_, _, hne, _, _, _, _, _⟩ := P.facts
  cases c with
  | leaf i k v h' =>
    simp only [IT.idx] at he
    simp only [Rep] at h
    rw [he, hpb] at h; injection h with h; injection h with _ hn; cases hn
  | node i l r =>
    simp only [IT.idx] at he
    simp only [Rep] at h
    obtain ⟨⟨d2, h2, hb⟩, hl, hr⟩ := h
    rw [he, hpb] at hb
    injection hb with hb; injection hb with _ hn; injection hn with _ e2 e3 e4
    have isLeaf : ∀ x : IT, Rep s.blocks (some i) x → x.idx = idx → IT.isLeafAt idx x = true := by
      intro x hx hxi
      cases x with
      | leaf j k v h' => simp only [IT.idx] at hxi; simp [IT.isLeafAt, hxi]
      | node j a b =>
        simp only [Rep] at hx
        obtain ⟨⟨d3, h3, hb3⟩, _, _⟩ := hx
        simp only [IT.idx] at hxi
        rw [hxi, P.leafB] at hb3; injection hb3 with hb3; injection hb3 with _ hn; cases hn
    have notLeaf : ∀ x : IT, x.idx ≠ idx → IT.isLeafAt idx x = false := by
      intro x hx
      cases hb' : IT.isLeafAt idx x with
      | false => rfl
      | true => exact absurd (IT.isLeafAt_mem idx x hb').2 hx
    refine ⟨i, l, r, rfl, e3.symm, e4.symm, e2.symm, ?_⟩
    rcases P.sibDef with ⟨a1, a2⟩ | ⟨a1, a1', a2⟩
    · have hl' : IT.isLeafAt idx l = false := notLeaf l (by rw [← e3, a1]; exact hne)
      have hr' : IT.isLeafAt idx r = true := isLeaf r hr (by rw [← e4]; exact a1.symm)
      exact Or.inl ⟨a1, hl', hr', by rw [IT.prune_node, hl', hr']; rfl⟩
    · have hl' : IT.isLeafAt idx l = true := isLeaf l hl (by rw [← e3]; exact a1.symm)
      exact Or.inr ⟨a1, hl', by rw [IT.prune_node, hl']; rfl⟩

/-- the represented tree after the splice -/
theorem rep (P : SplicePost s T t idx pi gi sibIdx key v0 oh pl pr gl gr gl' gr' gp) :
    ∀ (c : IT) (p : Option Nat), Rep s.blocks p c → c.indices.Nodup → p ≠ some pi →
      Rep T.blocks p (IT.prune idx c) := by
  obtain ⟨dP, hhP, hpb⟩ := P.par
  obtain ⟨dG, hhG, hgb⟩ := P.gpar
  obtain ⟨_, _, hplr, hglr, hsibpar, _, hidxc, hpic⟩ := P.facts
  have idxPar : parentOfL s.blocks idx = some pi := by simp [parentOfL, P.leafB, Node.parent]
  have piPar : parentOfL s.blocks pi = some gi := by simp [parentOfL, hpb, Node.parent]
  intro c
  induction c with
  | leaf i k v hh =>
    intro p hr _ hp
    have hrp := hr.root_parent
    simp only [IT.idx] at hrp
    have h1 : i ≠ sibIdx := fun e => hp (by rw [← hrp, e]; exact hsibpar)
    have h2 : i ≠ gi := by
      intro e; simp only [Rep] at hr
      rw [e, hgb] at hr; injection hr with hr; injection hr with _ hn; cases hn
    simp only [IT.prune, Rep] at hr ⊢
    rw [P.bOther i h1 h2]; exact hr
  | node i l r ihl ihr =>
    intro p hr hn hp
    have hrep := hr
    simp only [Rep] at hr
    obtain ⟨⟨d, hh, hb⟩, hl, hr'⟩ := hr
    simp only [IT.indices, List.nodup_cons] at hn
    obtain ⟨hln, hrn, hdis⟩ := _root_.ChiaModel.Blob.T.nodup_append' hn.2
    by_cases hi : i = pi
    · -- the parent of the deleted leaf: replaced by the sibling subtree
      obtain ⟨i', l', r', e, el, er, ep, hcase⟩ := P.prune_root_pi hrep (by simp [IT.idx, hi])
      injection e with e1 e2 e3
      subst e1; subst e2; subst e3
      -- gi is not inside this subtree
      have hgi : gi ∉ (IT.node i l r).indices := by
        intro hm
        have := (hrep.child_inner hm hgb)
        have hpin : pi ∈ (IT.node i l r).indices.tail := by
          rcases hpic with e | e
          · rw [e]; exact this.1
          · rw [e]; exact this.2
        simp only [IT.indices, List.tail_cons] at hpin
        exact hn.1 (hi ▸ hpin)
      simp only [IT.indices, List.mem_cons, List.mem_append, not_or] at hgi
      have reparent : ∀ x : IT, Rep s.blocks (some i) x → x.idx = sibIdx → x.indices.Nodup → gi ∉ x.indices →
          Rep T.blocks (some gi) x := by
        intro x hx hxi hxn hxg
        refine hx.reparent (fun b hb' => by rw [hxi] at hb' ⊢; exact P.bSib b hb') ?_
        intro j hj
        have hjm := List.mem_of_mem_tail hj
        refine P.bOther j ?_ (fun e => hxg (e ▸ hjm))
        intro e
        -- the root index does not occur again below
        cases x with
        | leaf a b c d => simp [IT.indices] at hj
        | node a b c =>
          simp only [IT.indices, List.tail_cons] at hj
          simp only [IT.indices, List.nodup_cons] at hxn
          simp only [IT.idx] at hxi
          exact hxn.1 (by rw [hxi, ← e]; exact hj)
      rw [ep]
      rcases hcase with ⟨a1, a2, a3, a4⟩ | ⟨a1, a2, a3⟩
      · rw [a4]
        have hls : l.idx = sibIdx := by
          rcases P.sibDef with ⟨_, b2⟩ | ⟨b1, b1', _⟩
          · rw [el, b2]
          · exact absurd (b1.symm.trans a1) hplr
        exact reparent l hl hls hln hgi.2.1
      · rw [a3]
        have hrs : r.idx = sibIdx := by
          rcases P.sibDef with ⟨b1, _⟩ | ⟨_, _, b2⟩
          · exact absurd (a1.symm.trans b1) hplr
          · rw [er, b2]
        exact reparent r hr' hrs hrn hgi.2.2
    · -- a node that stays
      have notLeaf : ∀ x : IT, Rep s.blocks (some i) x → IT.isLeafAt idx x = false := by
        intro x hx
        cases hb' : IT.isLeafAt idx x with
        | false => rfl
        | true =>
          obtain ⟨k, v, h', e⟩ := IT.isLeafAt_eq idx x hb'
          subst e
          have := hx.root_parent
          simp only [IT.idx] at this
          rw [idxPar] at this
          injection this with this
          exact absurd this.symm hi
      rw [IT.prune_node, notLeaf l hl, notLeaf r hr']
      simp only [Bool.false_eq_true, if_false, Rep]
      have hpi' : (some i : Option Nat) ≠ some pi := fun e => hi (by injection e)
      refine ⟨?_, ihl _ hl hln hpi', ihr _ hr' hrn hpi'⟩
      have hrp := hrep.root_parent
      simp only [IT.idx] at hrp
      have hisib : i ≠ sibIdx := fun e => hp (by rw [← hrp, e]; exact hsibpar)
      by_cases hig : i = gi
      · subst hig
        rw [hgb] at hb
        injection hb with hb; injection hb with _ hnn; injection hnn with _ e2 e3 e4
        obtain ⟨dT, hhT, hbT⟩ := P.bGi
        refine ⟨dT, hhT, ?_⟩
        rw [hbT, e2]
        -- the child that was `pi` is now the sibling; the other child keeps its root
        have toSib : ∀ x : IT, Rep s.blocks (some i) x → x.idx = pi → (IT.prune idx x).idx = sibIdx := by
          intro x hx hxi
          obtain ⟨j, a, b, e, ea, eb, _, hcase⟩ := P.prune_root_pi hx hxi
          rcases hcase with ⟨a1, _, _, a4⟩ | ⟨a1, _, a3⟩
          · rw [a4, ea]
            rcases P.sibDef with ⟨_, b2⟩ | ⟨b1, b1', _⟩
            · exact b2.symm
            · exact absurd (b1.symm.trans a1) hplr
          · rw [a3, eb]
            rcases P.sibDef with ⟨b1, _⟩ | ⟨_, _, b2⟩
            · exact absurd (a1.symm.trans b1) hplr
            · exact b2.symm
        rcases P.gkids with ⟨a1, a2, a3⟩ | ⟨a1, a1', a2, a3⟩
        · have h1 := toSib l hl (by rw [← e3]; exact a1.symm)
          have h2 := P.prune_root_keep hr' (by rw [← e4]; exact fun e => hglr (a1.symm.trans e.symm)) (notLeaf r hr')
          rw [h1, h2, a2, a3, e4]
        · have h1 := P.prune_root_keep hl (by rw [← e3]; exact fun e => a1' e.symm) (notLeaf l hl)
          have h2 := toSib r hr' (by rw [← e4]; exact a1.symm)
          rw [h1, h2, a2, a3, e3]
      · refine ⟨d, hh, ?_⟩
        rw [P.bOther i hisib hig]
        have keep : ∀ x : IT, Rep s.blocks (some i) x → (IT.prune idx x).idx = x.idx := by
          intro x hx
          refine P.prune_root_keep hx ?_ (notLeaf x hx)
          intro e
          have := hx.root_parent
          rw [e, piPar] at this
          injection this with this
          exact hig this.symm
        rw [keep l hl, keep r hr']
        exact hb

theorem filter_cache_eq {β : Type} [DecidableEq β] (L : List (Nat × KVH)) (f : Nat × KVH → β) (x : β) (idx : Nat)
    (h : ∀ e ∈ L, (f e = x ↔ e.1 = idx)) :
    (L.map (fun e => (f e, e.1))).filter (fun e => e.1 ≠ x) = (L.filter (fun e => e.1 ≠ idx)).map (fun e => (f e, e.1)) := by
  induction L with
  | nil => rfl
  | cons a L ih =>
    have ha := h a (by simp)
    have ih' := ih (fun e he => h e (by simp [he]))
    by_cases hc : a.1 = idx
    · rw [List.map_cons, List.filter_cons_of_neg (by simp [ha.mpr hc]), List.filter_cons_of_neg (by simp [hc]), ih']
    · rw [List.map_cons, List.filter_cons_of_pos (by simpa using fun e => hc (ha.mp e)),
        List.filter_cons_of_pos (by simpa using hc), List.map_cons, ih']

/-- **the blob after the splice stores the pruned tree** -/
theorem good_after (P : SplicePost s T t idx pi gi sibIdx key v0 oh pl pr gl gr gl' gr' gp) :
    Good T (IT.prune idx t) := by
  have g := P.good
  obtain ⟨hpim, hgim, _, _, _, _, _, _⟩ := P.facts
  have idxPar : parentOfL s.blocks idx = some pi := by simp [parentOfL, P.leafB, Node.parent]
  have hrootNe : t.idx ≠ idx := by
    intro e
    have := g.rep.root_parent
    rw [e, idxPar] at this; cases this
  have hnl : IT.isLeafAt idx t = false := by
    cases hb : IT.isLeafAt idx t with
    | false => rfl
    | true => exact absurd (IT.isLeafAt_mem idx t hb).2 hrootNe
  have hrootPi : t.idx ≠ pi := by
    intro e
    obtain ⟨d, hh, hpb⟩ := P.par
    have := g.rep.root_parent
    rw [e] at this
    simp [parentOfL, hpb, Node.parent] at this
  have hpol : IT.parentOfLeaf idx t = some pi := by
    rw [g.rep.parentOfLeaf_eq g.nodup ⟨_, P.leafMem, rfl⟩ hnl]; exact idxPar
  have pidx := IT.prune_indices idx t g.nodup pi hpol
  have hnd := pidx.nodup_iff.mp g.nodup
  simp only [List.nodup_cons, List.mem_cons, not_or] at hnd
  have hleaves : (IT.prune idx t).leaves = t.leaves.filter (fun e => e.1 ≠ idx) := by
    rw [IT.prune_leaves idx t g.nodup, hnl]; rfl
  refine ⟨P.rep t none g.rep g.nodup (fun e => by cases e), ?_, hnd.2.2, P.freeNodup, ?_, ?_, ?_, ?_, ?_, P.range⟩
  · rw [P.prune_root_keep g.rep hrootPi hnl]; exact g.root
  · intro j
    rw [P.free j, P.len, g.free j]
    constructor
    · rintro (⟨h1, h2⟩ | h | h)
      · exact ⟨h1, fun hm => h2 (pidx.mem_iff.mpr (by simp [hm]))⟩
      · rw [h]; exact ⟨g.rep.lt idx P.idxMem, hnd.1.2⟩
      · rw [h]; exact ⟨g.rep.lt pi hpim, hnd.2.1⟩
    · rintro ⟨h1, h2⟩
      cases Classical.em (j ∈ t.indices) with
      | inl hm =>
        rcases List.mem_cons.mp (pidx.mem_iff.mp hm) with e | e
        · exact Or.inr (Or.inl e)
        · rcases List.mem_cons.mp e with e | e
          · exact Or.inr (Or.inr e)
          · exact absurd e h2
      | inr hm => exact Or.inl ⟨h1, hm⟩
  · refine P.k2i.trans ?_
    rw [hleaves]
    refine (g.k2i.filter _).trans ?_
    exact List.Perm.of_eq (filter_cache_eq t.leaves (·.2.1) key idx (g.key_iff_idx P.leafMem))
  · refine P.h2i.trans ?_
    rw [hleaves]
    refine (g.h2i.filter _).trans ?_
    exact List.Perm.of_eq (filter_cache_eq t.leaves (·.2.2.2) oh idx (g.hash_iff_idx P.leafMem))
  · rw [hleaves]; exact g.keys.sublist ((List.filter_sublist).map _)
  · rw [hleaves]; exact g.hashes.sublist ((List.filter_sublist).map _)

/-- the splice changes no dirty flag and no stored hash: the local hash invariant of the pruned tree
holds except at the grandparent `gi`, whose child changed -/
theorem lh (P : SplicePost s T t idx pi gi sibIdx key v0 oh pl pr gl gr gl' gr' gp)
    (same : ∀ j, dirtyB T.blocks j = dirtyB s.blocks j ∧ hashB T.blocks j = hashB s.blocks j)
    (c : IT) : ∀ (q : Option Nat), Rep s.blocks q c → LH s.blocks none c → LH T.blocks (some gi) (IT.prune idx c) := by
  induction c with
  | leaf i k v h => intro _ _ _; trivial
  | node i l r ihl ihr =>
    intro q hrep hl
    simp only [Rep] at hrep
    obtain ⟨_, rl, rr⟩ := hrep
    obtain ⟨ll, lr, c⟩ := hl
    rw [IT.prune_node]
    by_cases h1 : IT.isLeafAt idx l = true
    · rw [if_pos h1]
      exact (LH.congr (fun j _ => same j) lr).weaken _
    · rw [if_neg h1]
      by_cases h2 : IT.isLeafAt idx r = true
      · rw [if_pos h2]
        exact (LH.congr (fun j _ => same j) ll).weaken _
      · rw [if_neg h2]
        refine ⟨ihl _ rl ll, ihr _ rr lr, ?_⟩
        intro hne hd
        have hig : i ≠ gi := fun e => hne (by rw [e])
        obtain ⟨dp, hhp, hpb⟩ := P.par
        have piPar : parentOfL s.blocks pi = some gi := by simp [parentOfL, hpb, Node.parent]
        have hlp : l.idx ≠ pi := by
          intro e
          have := rl.root_parent
          rw [e, piPar] at this
          exact hig (by injection this with this; exact this.symm)
        have hrp : r.idx ≠ pi := by
          intro e
          have := rr.root_parent
          rw [e, piPar] at this
          exact hig (by injection this with this; exact this.symm)
        rw [P.prune_root_keep rl hlp (by simpa using h1), P.prune_root_keep rr hrp (by simpa using h2)]
        rw [(same i).1] at hd
        rw [(same _).1, (same _).1, (same i).2, (same _).2, (same _).2]
        exact c (by simp) hd

end SplicePost

/-! ### the run of `delete`, grandparent case -/

/-- the blob after the structural writes of `delete` when the leaf's parent `pi` has a parent `gi` -/
def spliceState (s : Blob) (idx : Nat) (key : KeyId) (oh : Hash) (pi gi sibIdx : Nat) (sib gb' : Block) : Blob :=
  ((({ s with k2i := mapErase s.k2i key, h2i := mapErase s.h2i oh,
              free := freeInsert (freeInsert s.free idx) pi } : Blob).write sibIdx
      { sib with node := sib.node.setParent (some gi) }).write gi gb')

theorem delete_start_run (key : KeyId) (s : Blob) (idx : Nat) (d : Bool) (oh : Hash) (p : Option Nat) (v0 : ValueId)
    (hg : mapGet s.k2i key = some idx) (hb : s.blocks[idx]? = some { dirty := d, node := .leaf oh p key v0 }) :
    delete key s = deleteAt idx p
      ({ s with k2i := mapErase s.k2i key, h2i := mapErase s.h2i oh, free := freeInsert s.free idx } : Blob) := by
  unfold delete
  show (getLeafByKey key >>= fun x => removeLeaf key x.2.hash >>= fun _ => deleteAt x.1 x.2.parent) s = _
  rw [bind_run, getLeafByKey_run, hg]
  simp only [hb, bind_run, removeLeaf_run, hg, Node.hash, Node.parent]

theorem delete_splice_run (s0 : Blob) (idx pi gi : Nat) (dp : Bool) (ph : Hash) (pl pr : Nat)
    (hpb : s0.blocks[pi]? = some { dirty := dp, node := .internal ph (some gi) pl pr })
    (hch : idx = pl ∨ idx = pr) (sib : Block) (hsb : s0.blocks[if idx = pr then pl else pr]? = some sib)
    (dg : Bool) (gh : Hash) (gp : Option Nat) (gl gr : Nat)
    (hgb : s0.blocks[gi]? = some { dirty := dg, node := .internal gh gp gl gr }) (hgc : pi = gl ∨ pi = gr) :
    deleteAt idx (some pi) s0 = markLineageDirty gi
      ((({ s0 with free := freeInsert s0.free pi } : Blob).write (if idx = pr then pl else pr)
          { sib with node := sib.node.setParent (some gi) }).write gi
          { dirty := dg, node := .internal gh gp (if pi = gl then (if idx = pr then pl else pr) else gl)
              (if pi = gl then gr else (if idx = pr then pl else pr)) }) := by
  have hsl : (if idx = pr then pl else pr) < s0.blocks.length := (List.getElem?_eq_some_iff.mp hsb).1
  have hgl : gi < s0.blocks.length := (List.getElem?_eq_some_iff.mp hgb).1
  have hcond : ¬ (idx ≠ pr ∧ idx ≠ pl) := by
    rintro ⟨a, b⟩; rcases hch with e | e
    · exact b e
    · exact a e
  unfold deleteAt
  simp only [bind_run, getNode, getBlock_run, hpb, pure_run]
  rw [if_neg hcond]
  simp only [bind_run, getBlock_run, hsb]
  unfold deleteSplice
  simp only [bind_run, removeInternal_run, getBlock_run]
  have hgb1 : ({ s0 with free := freeInsert s0.free pi } : Blob).blocks[gi]?
      = some { dirty := dg, node := .internal gh gp gl gr } := hgb
  rw [hgb1]
  simp only [writeBlock_run]
  rw [if_neg (by simp only [gt_iff_lt, Nat.not_lt]; exact Nat.le_of_lt hsl)]
  simp only
  have hl2 : gi < (({ s0 with free := freeInsert s0.free pi } : Blob).write (if idx = pr then pl else pr)
      { sib with node := sib.node.setParent (some gi) }).blocks.length := by
    rw [write_len _ _ _ (by exact hsl)]; exact hgl
  by_cases h1 : pi = gl
  · simp only [if_pos h1, bind_run, writeBlock_run]
    rw [if_neg (by simp only [gt_iff_lt, Nat.not_lt]; exact Nat.le_of_lt hl2)]
  · have h2 : pi = gr := hgc.resolve_left h1
    simp only [if_neg h1, if_pos h2, bind_run, writeBlock_run]
    rw [if_neg (by simp only [gt_iff_lt, Nat.not_lt]; exact Nat.le_of_lt hl2)]

/-! ### no node of a represented tree is its own parent or grandparent -/

theorem Rep.no_two_cycle {bl : List Block} {p : Option Nat} {c : IT} (h : Rep bl p c) (hn : c.indices.Nodup)
    (hp : ∀ q, p = some q → q ∉ c.indices) {a b : Nat} (ha : a ∈ c.indices) (hb : b ∈ c.indices)
    (hab : parentOfL bl a = some b) (hba : parentOfL bl b = some a) : False := by
  induction c generalizing p a b with
  | leaf i k v hh =>
    simp only [IT.indices, List.mem_singleton] at ha hb
    have := h.root_parent
    simp only [IT.idx] at this
    rw [ha] at hab; rw [hab] at this
    exact hp b this.symm (by simp [IT.indices, hb])
  | node i l r ihl ihr =>
    have hrep := h
    simp only [Rep] at h
    obtain ⟨_, hl, hr⟩ := h
    simp only [IT.indices, List.nodup_cons, List.mem_append, not_or] at hn
    obtain ⟨⟨hil, hir⟩, hlr⟩ := hn
    obtain ⟨hln, hrn, hdis⟩ := _root_.ChiaModel.Blob.T.nodup_append' hlr
    have hroot := hrep.root_parent
    simp only [IT.idx] at hroot
    -- the root's parent is outside
    have rootCase : ∀ x y, x = i → y ∈ (IT.node i l r).indices → parentOfL bl x = some y → False := by
      intro x y hx hy hxy
      rw [hx, hroot] at hxy
      exact hp y hxy hy
    have ha0 := ha
    have hb0 := hb
    simp only [IT.indices, List.mem_cons, List.mem_append] at ha hb
    -- an element of a child subtree has its parent in that subtree or equal to i
    have parIn : ∀ (x : IT), Rep bl (some i) x → x.indices.Nodup → ∀ z, z ∈ x.indices → ∀ w, parentOfL bl z = some w →
        w = i ∨ w ∈ x.indices := by
      intro x hx hxn z hz w hzw
      have info := hx.info hxn z hz
      by_cases hzr : z = x.idx
      · have := info.rootParent hzr
        rw [hzw] at this; injection this with this; exact Or.inl this
      · obtain ⟨q, hq, hpq, _⟩ := info.parent hzr
        rw [hzw] at hpq; injection hpq with hpq; exact Or.inr (hpq ▸ hq)
    rcases ha with ha | ha | ha
    · exact rootCase a b ha hb0 hab
    · rcases hb with hb | hb | hb
      · exact rootCase b a hb ha0 hba
      · exact ihl hl hln (fun q e => by injection e with e; rw [← e]; exact hil) ha hb hab hba
      · rcases parIn l hl hln a ha b hab with e | e
        · exact hir (e ▸ hb)
        · exact hdis b e hb
    · rcases hb with hb | hb | hb
      · exact rootCase b a hb ha0 hba
      · rcases parIn r hr hrn a ha b hab with e | e
        · exact hil (e ▸ hb)
        · exact hdis b hb e
      · exact ihr hr hrn (fun q e => by injection e with e; rw [← e]; exact hir) ha hb hab hba

theorem freeInsert_nodup (fr : List Nat) (i : Nat) (h : fr.Nodup) : (freeInsert fr i).Nodup := by
  unfold freeInsert
  split
  · exact h
  · rename_i hn
    rw [List.nodup_append]
    exact ⟨h, by simp, fun a ha b hb hab => by simp at hb; exact hn (hb ▸ hab ▸ ha)⟩

/-- the grandparent block after the splice -/
def spliceGb (dg : Bool) (gh : Hash) (gp : Option Nat) (pi gl gr sibIdx : Nat) : Block :=
  { dirty := dg, node := Node.internal gh gp (if pi = gl then sibIdx else gl) (if pi = gl then gr else sibIdx) }

/-- **`delete` when the leaf's parent has a parent: the blob afterwards stores the pruned tree** -/
theorem delete_splice_good {s : Blob} {t : IT} (g : Good s t) {idx : Nat} {key : KeyId} {v0 : ValueId} {oh : Hash}
    (hleaf : (idx, key, v0, oh) ∈ t.leaves) {pi gi : Nat}
    (hb : s.blocks[idx]? = some { dirty := false, node := .leaf oh (some pi) key v0 })
    {dp : Bool} {ph : Hash} {pl pr : Nat}
    (hpb : s.blocks[pi]? = some { dirty := dp, node := .internal ph (some gi) pl pr }) :
    ∃ S, delete key s = (.ok (), S) ∧ Good S (IT.prune idx t)
      ∧ (LH s.blocks none t → LH S.blocks none (IT.prune idx t)) := by
  have hinv := g.linv
  have hg := g.mapGet_k2i hleaf
  simp only at hg
  have hidxm : idx ∈ t.indices := t.leaf_idx_mem _ hleaf
  have hlive := (g.live_iff idx).mpr hidxm
  obtain ⟨hpf, d', ph2, pp2, pl2, pr2, hpb2, hch⟩ := hinv.parent_of hlive.2 hb rfl
  rw [hpb] at hpb2
  injection hpb2 with e; injection e with _ hn; injection hn with _ _ e3 e4
  subst e3; subst e4
  obtain ⟨a1, a2, a3, a4, a5, a6, a7⟩ := hinv.children' hpf hpb
  obtain ⟨hgf, dg, gh, gp, gl, gr, hgb, hgc⟩ := hinv.parent_of hpf hpb rfl
  have hpl : pi < s.blocks.length := (List.getElem?_eq_some_iff.mp hpb).1
  have hgl : gi < s.blocks.length := (List.getElem?_eq_some_iff.mp hgb).1
  have hpim := (g.live_iff pi).mp ⟨hpl, hpf⟩
  have hgim := (g.live_iff gi).mp ⟨hgl, hgf⟩
  -- the sibling
  generalize hsd : (if idx = pr then pl else pr) = sibIdx
  have hsib : sibIdx < s.blocks.length ∧ sibIdx ∉ s.free ∧ sibIdx ≠ idx ∧ parentOfL s.blocks sibIdx = some pi
      ∧ ((idx = pr ∧ sibIdx = pl) ∨ (idx = pl ∧ idx ≠ pr ∧ sibIdx = pr)) := by
    rw [← hsd]
    by_cases e : idx = pr
    · rw [if_pos e]; exact ⟨a1, a3, fun e2 => a5 (e2.trans e), a6, Or.inl ⟨e, rfl⟩⟩
    · rw [if_neg e]
      exact ⟨a2, a4, fun e2 => e e2.symm, a7, Or.inr ⟨hch.resolve_right e, e, rfl⟩⟩
  obtain ⟨hsl, hsf, hsne, hspar, hsdef⟩ := hsib
  obtain ⟨sib, hsb⟩ : ∃ b, s.blocks[sibIdx]? = some b := ⟨s.blocks[sibIdx], List.getElem?_eq_getElem hsl⟩
  have hsm := (g.live_iff sibIdx).mp ⟨hsl, hsf⟩
  have piPar : parentOfL s.blocks pi = some gi := by simp [parentOfL, hpb, Node.parent]
  -- no short cycles among pi, gi, sibIdx
  have noCyc : ∀ a b, a ∈ t.indices → b ∈ t.indices → parentOfL s.blocks a = some b → parentOfL s.blocks b = some a → False :=
    fun a b ha hb' h1 h2 => g.rep.no_two_cycle g.nodup (fun q e => by cases e) ha hb' h1 h2
  have hgs : gi ≠ sibIdx := fun e => noCyc pi gi hpim hgim piPar (by rw [e]; exact hspar)
  have hgp : gi ≠ pi := fun e => noCyc pi pi hpim hpim (by rw [piPar, e]) (by rw [piPar, e])
  have hsp : sibIdx ≠ pi := fun e => noCyc pi pi hpim hpim (by rw [← e] at hspar ⊢; exact hspar) (by rw [← e] at hspar ⊢; exact hspar)
  have hgidx : gi ≠ idx := by
    intro e; rw [e, hb] at hgb; injection hgb with hgb; injection hgb with _ hn; cases hn
  have hpidx : pi ≠ idx := by
    intro e; rw [e, hb] at hpb; injection hpb with hpb; injection hpb with _ hn; cases hn
  -- run
  have hrun := delete_start_run key s idx false oh (some pi) v0 hg hb
  have hrun2 := delete_splice_run
    ({ s with k2i := mapErase s.k2i key, h2i := mapErase s.h2i oh, free := freeInsert s.free idx } : Blob)
    idx pi gi dp ph pl pr hpb hch sib (by rw [hsd]; exact hsb) dg gh gp gl gr hgb hgc
  rw [hsd] at hrun2
  rw [hrun, hrun2]
  show ∃ S, markLineageDirty gi _ = (.ok (), S) ∧ _
  -- the state after the structural writes
  generalize hT : ((({ ({ s with k2i := mapErase s.k2i key, h2i := mapErase s.h2i oh, free := freeInsert s.free idx } : Blob)
      with free := freeInsert (freeInsert s.free idx) pi } : Blob).write sibIdx
      { sib with node := sib.node.setParent (some gi) }).write gi (spliceGb dg gh gp pi gl gr sibIdx)) = T
  have hl1 : sibIdx < ({ ({ s with k2i := mapErase s.k2i key, h2i := mapErase s.h2i oh, free := freeInsert s.free idx } : Blob)
      with free := freeInsert (freeInsert s.free idx) pi } : Blob).blocks.length := hsl
  have hlen2 := write_len _ sibIdx { sib with node := sib.node.setParent (some gi) } hl1
  have hl2 : gi < (({ ({ s with k2i := mapErase s.k2i key, h2i := mapErase s.h2i oh, free := freeInsert s.free idx } : Blob)
      with free := freeInsert (freeInsert s.free idx) pi } : Blob).write sibIdx
      { sib with node := sib.node.setParent (some gi) }).blocks.length := by rw [hlen2]; exact hgl
  have eB : ∀ j, T.blocks[j]? = if j = gi then some (spliceGb dg gh gp pi gl gr sibIdx)
      else if j = sibIdx then some { sib with node := sib.node.setParent (some gi) } else s.blocks[j]? := by
    intro j
    rw [← hT, write_get _ _ _ hl2, write_get _ _ _ hl1]
  have eL : T.blocks.length = s.blocks.length := by
    rw [← hT, write_len _ _ _ hl2, hlen2]
  have eF : T.free = freeInsert (freeInsert s.free idx) pi := by
    rw [← hT]
    simp only [write_free]
    have h1 : sibIdx ∉ freeInsert (freeInsert s.free idx) pi := by
      rw [mem_freeInsert, mem_freeInsert]
      rintro ((h | h) | h)
      · exact hsf h
      · exact hsne h
      · exact hsp h
    have h2 : gi ∉ freeInsert (freeInsert s.free idx) pi := by
      rw [mem_freeInsert, mem_freeInsert]
      rintro ((h | h) | h)
      · exact hgf h
      · exact hgidx h
      · exact hgp h
    rw [List.erase_of_not_mem h1, List.erase_of_not_mem h2]
  -- caches: rewriting the sibling block re-inserts the entry it already has
  have eK : T.k2i ~ mapErase s.k2i key := by
    rw [← hT]
    obtain ⟨ds, ns⟩ := sib
    cases ns with
    | internal _ _ _ _ => exact List.Perm.refl _
    | leaf hs ps ks vs =>
      show mapInsert (mapErase s.k2i key) ks sibIdx ~ _
      obtain ⟨hsleaf, _⟩ := g.leaf_mem hsm hsb
      have hks : ks ≠ key := fun e => hsne ((g.key_iff_idx hleaf _ hsleaf).mp e)
      refine mapInsert_perm_same _ ks sibIdx (g.k2i_keys_nodup.sublist ((List.filter_sublist).map _)) ?_
      exact List.mem_filter.mpr ⟨mapGet_mem _ _ _ (g.mapGet_k2i hsleaf), by simpa using hks⟩
  have eH : T.h2i ~ mapErase s.h2i oh := by
    rw [← hT]
    obtain ⟨ds, ns⟩ := sib
    cases ns with
    | internal _ _ _ _ => exact List.Perm.refl _
    | leaf hs ps ks vs =>
      show mapInsert (mapErase s.h2i oh) hs sibIdx ~ _
      obtain ⟨hsleaf, _⟩ := g.leaf_mem hsm hsb
      have hhs : hs ≠ oh := fun e => hsne ((g.hash_iff_idx hleaf _ hsleaf).mp e)
      refine mapInsert_perm_same _ hs sibIdx (g.h2i_keys_nodup.sublist ((List.filter_sublist).map _)) ?_
      exact List.mem_filter.mpr ⟨mapGet_mem _ _ _ (g.mapGet_h2i hsleaf), by simpa using hhs⟩
  have hgpr : ∀ q, gp = some q → q < s.blocks.length := fun q hq => g.range gi _ hgb q (by simp [Node.parent, hq])
  have P : SplicePost s T t idx pi gi sibIdx key v0 oh pl pr gl gr (if pi = gl then sibIdx else gl)
      (if pi = gl then gr else sibIdx) gp := by
    refine {
      good := g, leafMem := hleaf, leafB := hb, par := ⟨dp, ph, hpb⟩, sibDef := hsdef, gpar := ⟨dg, gh, hgb⟩,
      gkids := ?_, bSib := ?_, bGi := ⟨dg, gh, by rw [eB gi, if_pos rfl]; rfl⟩, bOther := ?_, len := eL, free := ?_,
      freeNodup := by rw [eF]; exact freeInsert_nodup _ _ (freeInsert_nodup _ _ g.freeNodup),
      k2i := eK, h2i := eH, range := ?_ }
    · by_cases e : pi = gl
      · exact Or.inl ⟨e, by rw [if_pos e], by rw [if_pos e]⟩
      · exact Or.inr ⟨hgc.resolve_left e, e, by rw [if_neg e], by rw [if_neg e]⟩
    · intro b hb'
      rw [hsb] at hb'; injection hb' with hb'; subst hb'
      rw [eB sibIdx, if_neg (fun e => hgs e.symm), if_pos rfl]
    · intro j h1 h2
      rw [eB j, if_neg h2, if_neg h1]
    · intro j
      rw [eF, mem_freeInsert, mem_freeInsert]
      constructor
      · rintro ((h | h) | h)
        · exact Or.inl h
        · exact Or.inr (Or.inl h)
        · exact Or.inr (Or.inr h)
      · rintro (h | h | h)
        · exact Or.inl (Or.inl h)
        · exact Or.inl (Or.inr h)
        · exact Or.inr h
    · intro j b hjb q hq
      rw [eL]
      rw [eB j] at hjb
      by_cases h1 : j = gi
      · rw [if_pos h1] at hjb; injection hjb with hjb; subst hjb
        exact hgpr q (by simpa [spliceGb, Node.parent] using hq)
      · rw [if_neg h1] at hjb
        by_cases h2 : j = sibIdx
        · rw [if_pos h2] at hjb; injection hjb with hjb; subst hjb
          have : q = gi := by cases hn : sib.node <;> simp [hn, Node.setParent, Node.parent] at hq <;> exact hq.symm
          rw [this]; exact hgl
        · rw [if_neg h2] at hjb; exact g.range j b hjb q hq
  have gT := P.good_after
  have hTinv := gT.linv
  have hgT : T.blocks[gi]? = some { dirty := dg, node := .internal gh gp (if pi = gl then sibIdx else gl) (if pi = gl then gr else sibIdx) } := by
    rw [eB gi, if_pos rfl]; rfl
  have hgfT : gi ∉ T.free := by
    rw [eF, mem_freeInsert, mem_freeInsert]
    rintro ((h | h) | h)
    · exact hgf h
    · exact hgidx h
    · exact hgp h
  have hss := markLineageDirty_sameShape gi T hTinv hgfT ⟨_, _, _, _, _, hgT⟩
  obtain ⟨_, sT, eT, _⟩ := markLineageDirty_ok gi T hTinv.rangeP (by rw [eL]; exact hgl)
  rw [eT] at hss
  have hsame : ∀ j, dirtyB T.blocks j = dirtyB s.blocks j ∧ hashB T.blocks j = hashB s.blocks j := by
    intro j
    by_cases h1 : j = gi
    · rw [h1]
      simp [dirtyB, hashB, blockAt, hgT, hgb, Node.hash]
    · by_cases h2 : j = sibIdx
      · rw [h2]
        have : T.blocks[sibIdx]? = some { sib with node := sib.node.setParent (some gi) } := by
          rw [eB sibIdx, if_neg (fun e => hgs e.symm), if_pos rfl]
        have hh : (sib.node.setParent (some gi)).hash = sib.node.hash := by
          cases sib.node <;> rfl
        simp [dirtyB, hashB, blockAt, this, hsb, hh]
      · have : T.blocks[j]? = s.blocks[j]? := by rw [eB j, if_neg h1, if_neg h2]
        simp [dirtyB, hashB, blockAt, this]
  refine ⟨sT, ?_, gT.sameShape hss, ?_⟩
  · rw [← hT] at eT
    exact eT
  · intro hlh
    exact markLineageDirty_LH gi T _ hTinv.pi hgfT ⟨_, _, _, _, _, hgT⟩ gT.rep.kp (P.lh hsame t none g.rep hlh) sT eT

end ChiaModel.Blob
