import ChiaModel.Model.WithConds
import ChiaModel.Lemmas.Coinspends
/-
Helper lemmas about the model of `get_coinspends_with_conditions_for_trusted_block`
(`Model/WithConds.lean`); the property theorems are in `Props/C09.lean`.
-/
namespace ChiaModel.Gn
open ChiaModel ChiaModel.Cond

/-- the items of a (possibly improper) list, as `Allocator::next` walks it -/
def items : Sexp → List Sexp
  | .pair a rest => a :: items rest
  | .atom _ => []

theorem listConds_foldl : ∀ (t : Sexp) (out : CondListing),
    listConds t out = ((items t).filterMap condEntry).foldl pushEntry out
  | .atom _, out => rfl
  | .pair c rest, out => by
    simp only [listConds, items, List.filterMap_cons]
    cases h : condEntry c with
    | none => simp only [listConds_foldl rest out]
    | some e => simp only [List.foldl_cons, listConds_foldl rest (pushEntry out e)]

theorem foldl_pushEntry_short : ∀ (es out : CondListing), out.length + es.length ≤ maxConditionsPerSpend →
    es.foldl pushEntry out = out ++ es
  | [], out, _ => by simp
  | e :: es, out, h => by
    simp only [List.length_cons] at h
    have hp : pushEntry out e = out ++ [e] := by
      unfold pushEntry
      rw [if_neg (by intro hh; have := hh.1; omega)]
    simp only [List.foldl_cons, hp]
    rw [foldl_pushEntry_short es (out ++ [e]) (by simp only [List.length_append, List.length_cons, List.length_nil]; omega)]
    simp

theorem foldl_pushEntry_high : ∀ (es out : CondListing),
    (es.foldl pushEntry out).filter (fun e => isHighPriority e.1) =
      out.filter (fun e => isHighPriority e.1) ++ es.filter (fun e => isHighPriority e.1)
  | [], out => by simp
  | e :: es, out => by
    simp only [List.foldl_cons]
    rw [foldl_pushEntry_high es (pushEntry out e)]
    unfold pushEntry
    by_cases hh : isHighPriority e.1 = true
    · rw [if_neg (by simp [hh])]
      simp [hh]
    · split
      · simp [hh]
      · simp [hh]

theorem foldl_pushEntry_sublist : ∀ (es out : CondListing), ∃ l, es.foldl pushEntry out = out ++ l ∧ l.Sublist es
  | [], out => ⟨[], by simp, List.Sublist.refl _⟩
  | e :: es, out => by
    simp only [List.foldl_cons]
    obtain ⟨l, h1, h2⟩ := foldl_pushEntry_sublist es (pushEntry out e)
    unfold pushEntry at h1 ⊢
    split at h1
    · rename_i hc
      rw [if_pos hc]
      exact ⟨l, h1, List.Sublist.cons _ h2⟩
    · rename_i hc
      rw [if_neg hc]
      exact ⟨e :: l, by rw [h1]; simp, List.Sublist.cons_cons _ h2⟩

theorem collectArgs_prefix : ∀ (t : Sexp) (acc bs : List Bytes), collectArgs t acc = some bs → ∃ more, bs = acc ++ more
  | .atom _, acc, bs, h => by simp only [collectArgs, Option.some.injEq] at h; exact ⟨[], by simp [h]⟩
  | .pair v rest, acc, bs, h => by
    unfold collectArgs at h
    split at h
    · cases v with
      | atom b =>
        simp only at h
        split at h
        · cases h
        · obtain ⟨m, hm⟩ := collectArgs_prefix rest _ bs h
          exact ⟨b :: m, by rw [hm]; simp⟩
      | pair x y => exact collectArgs_prefix rest acc bs h
    · simp only [Option.some.injEq] at h; exact ⟨[], by simp [h]⟩

/-- every atom the loop can reach is shorter than 1024 bytes → the condition is not skipped -/
def smallAtoms : Sexp → Bool
  | .pair (.atom b) rest => decide (b.length < 1024) && smallAtoms rest
  | .pair (.pair _ _) rest => smallAtoms rest
  | .atom _ => true

theorem collectArgs_some : ∀ (t : Sexp) (acc : List Bytes), smallAtoms t = true → ∃ bs, collectArgs t acc = some bs
  | .atom _, acc, _ => ⟨acc, rfl⟩
  | .pair (.atom b) rest, acc, h => by
    simp only [smallAtoms, Bool.and_eq_true, decide_eq_true_eq] at h
    unfold collectArgs
    split
    · simp only
      rw [if_neg (by omega)]
      exact collectArgs_some rest _ h.2
    · exact ⟨acc, rfl⟩
  | .pair (.pair x y) rest, acc, h => by
    simp only [smallAtoms] at h
    unfold collectArgs
    split
    · exact collectArgs_some rest acc h
    · exact ⟨acc, rfl⟩

/-- the coin spends of the listing helper are those of the plain helper -/
theorem withCondsLoop_fst (fits : Sexp → Bool) (puz : Nat → RunRes) : ∀ (t : Sexp) (i : Nat) (l : List (CoinSpendM × CondListing)),
    withCondsLoop fits puz t i = some l → coinspendsLoop fits t = some (l.map Prod.fst)
  | .atom _, i, l, h => by
    simp only [withCondsLoop, Option.some.injEq] at h
    subst h; rfl
  | .pair spend nxt, i, l, h => by
    unfold withCondsLoop at h
    unfold coinspendsLoop
    cases h5 : extract5 spend with
    | none =>
      rw [h5] at h
      exact withCondsLoop_fst fits puz nxt (i + 1) l h
    | some q =>
      obtain ⟨parent, puzzle, amount, solution, r⟩ := q
      rw [h5] at h
      simp only at h ⊢
      cases parent with
      | pair x y => cases h
      | atom pb =>
        simp only at h ⊢
        by_cases hl : pb.length ≠ 32
        · rw [if_pos hl] at h; cases h
        · rw [if_neg hl] at h
          rw [if_neg hl]
          cases hpa : parseAmount amount with
          | error e => rw [hpa] at h; cases h
          | ok v =>
            rw [hpa] at h
            simp only at h ⊢
            cases hp : puz i with
            | none => rw [hp] at h; cases h
            | some co =>
              obtain ⟨c, out⟩ := co
              rw [hp] at h
              simp only at h
              split at h
              · cases h
              · cases hr : withCondsLoop fits puz nxt (i + 1) with
                | none => rw [hr] at h; cases h
                | some l' =>
                  rw [hr] at h
                  simp only [Option.some.injEq] at h
                  subst h
                  rw [withCondsLoop_fst fits puz nxt (i + 1) l' hr]
                  rfl

/-- the listing of one puzzle run -/
def runListing (r : RunRes) : CondListing := match r with | some (_, out) => listConds out [] | none => []

/-- the listings are those of the puzzle runs, in order: the k-th listed pair carries `listConds` of the
output of the run with the index of its list element -/
def listingsOf (puz : Nat → RunRes) : Sexp → Nat → List CondListing
  | .pair spend nxt, i =>
    match extract5 spend with
    | none => listingsOf puz nxt (i + 1)
    | some _ => runListing (puz i) :: listingsOf puz nxt (i + 1)
  | .atom _, _ => []

theorem withCondsLoop_snd (fits : Sexp → Bool) (puz : Nat → RunRes) : ∀ (t : Sexp) (i : Nat) (l : List (CoinSpendM × CondListing)),
    withCondsLoop fits puz t i = some l → l.map Prod.snd = listingsOf puz t i
  | .atom _, i, l, h => by
    simp only [withCondsLoop, Option.some.injEq] at h
    subst h; rfl
  | .pair spend nxt, i, l, h => by
    unfold withCondsLoop at h
    unfold listingsOf
    cases h5 : extract5 spend with
    | none =>
      rw [h5] at h
      exact withCondsLoop_snd fits puz nxt (i + 1) l h
    | some q =>
      obtain ⟨parent, puzzle, amount, solution, r⟩ := q
      rw [h5] at h
      simp only at h ⊢
      cases parent with
      | pair x y => cases h
      | atom pb =>
        simp only at h
        by_cases hl : pb.length ≠ 32
        · rw [if_pos hl] at h; cases h
        · rw [if_neg hl] at h
          cases hpa : parseAmount amount with
          | error e => rw [hpa] at h; cases h
          | ok v =>
            rw [hpa] at h
            simp only at h
            cases hp : puz i with
            | none => rw [hp] at h; cases h
            | some co =>
              obtain ⟨c, out⟩ := co
              rw [hp] at h
              simp only at h
              split at h
              · cases h
              · cases hr : withCondsLoop fits puz nxt (i + 1) with
                | none => rw [hr] at h; cases h
                | some l' =>
                  rw [hr] at h
                  simp only [Option.some.injEq] at h
                  subst h
                  simp only [List.map_cons, withCondsLoop_snd fits puz nxt (i + 1) l' hr, runListing]

/-- the listing helper succeeds exactly when the plain helper does and every puzzle run ends within the limit -/
theorem withCondsLoop_isSome (fits : Sexp → Bool) (puz : Nat → RunRes) : ∀ (t : Sexp) (i : Nat),
    (withCondsLoop fits puz t i).isSome = ((coinspendsLoop fits t).isSome && puzzleRunsOk puz t i)
  | .atom _, i => rfl
  | .pair spend nxt, i => by
    unfold withCondsLoop coinspendsLoop puzzleRunsOk
    cases h5 : extract5 spend with
    | none => simp only [Bool.true_and]; exact withCondsLoop_isSome fits puz nxt (i + 1)
    | some q =>
      obtain ⟨parent, puzzle, amount, solution, r⟩ := q
      simp only
      cases parent with
      | pair x y => simp
      | atom pb =>
        simp only
        by_cases hl : pb.length ≠ 32
        · rw [if_pos hl, if_pos hl]; simp
        · rw [if_neg hl, if_neg hl]
          cases hpa : parseAmount amount with
          | error e => simp
          | ok v =>
            simp only
            have ih := withCondsLoop_isSome fits puz nxt (i + 1)
            cases hp : puz i with
            | none => simp
            | some co =>
              obtain ⟨c, out⟩ := co
              simp only
              by_cases hc : c > Gen.maxBlockCostClvm
              · rw [if_pos hc]
                have : decide (c ≤ Gen.maxBlockCostClvm) = false := by simp; omega
                simp [this]
              · rw [if_neg hc]
                have : decide (c ≤ Gen.maxBlockCostClvm) = true := by simp; omega
                rw [this]
                cases hr : withCondsLoop fits puz nxt (i + 1) with
                | none =>
                  rw [hr] at ih
                  cases hcl : coinspendsLoop fits nxt with
                  | none => simp
                  | some l =>
                    rw [hcl] at ih
                    simp only [Option.isSome_none, Option.isSome_some, Bool.true_and] at ih
                    simp [← ih]
                | some l' =>
                  rw [hr] at ih
                  cases hcl : coinspendsLoop fits nxt with
                  | none => rw [hcl] at ih; simp at ih
                  | some l =>
                    rw [hcl] at ih
                    simp only [Option.isSome_some, Bool.true_and] at ih
                    simp [← ih]

/-- on an accepted spend list every puzzle run ended within the loop's budget -/
theorem puzzleRunsOk_of_trace (puz : Nat → RunRes) : ∀ (news : List Spend) (t : Sexp) (i m : Nat),
    Trace puz t i m news → m ≤ Gen.maxBlockCostClvm → puzzleRunsOk puz t i = true := by
  intro news
  induction news with
  | nil =>
    intro t i m h _
    simp only [Trace] at h
    subst h; rfl
  | cons sp rest ih =>
    intro t i m h hm
    obtain ⟨spend, nxt, puzzle, ab, sol, r, c, conds, m2, rfl, h5, _, _, _, _, hp, hc, hm2, _, htr⟩ := h
    unfold puzzleRunsOk
    rw [h5, hp]
    simp only [Bool.and_eq_true, decide_eq_true_eq]
    exact ⟨by omega, ih nxt (i + 1) m2 htr (by omega)⟩

/-- on an accepted spend list the listings are exactly one per validated spend, in order -/
theorem listingsOf_of_trace (puz : Nat → RunRes) : ∀ (news : List Spend) (t : Sexp) (i m : Nat),
    Trace puz t i m news →
    listingsOf puz t i = (List.range news.length).map (fun k => runListing (puz (i + k))) := by
  intro news
  induction news with
  | nil =>
    intro t i m h
    simp only [Trace] at h
    subst h; rfl
  | cons sp rest ih =>
    intro t i m h
    obtain ⟨spend, nxt, puzzle, ab, sol, r, c, conds, m2, rfl, h5, _, _, _, _, hp, hc, hm2, _, htr⟩ := h
    unfold listingsOf
    rw [h5]
    simp only [List.length_cons, List.range_succ_eq_map, List.map_cons, List.map_map, Nat.add_zero]
    rw [ih nxt (i + 1) m2 htr]
    congr 1
    apply List.map_congr_left
    intro k _
    simp only [Function.comp]
    rw [show i + 1 + k = i + (k + 1) by omega]

end ChiaModel.Gn
