import ChiaModel.Lemmas.StreamableHash
/-!
Hash relation for `ProofOfSpace`, and the induction over `Ty`.
-/
namespace ChiaModel.Streamable
open ChiaModel

theorem hashRel_some {d : Outcome (List Bytes)} {e : Option Bytes} (h : HashRel d e) {b : Bytes} (hb : e = some b) :
    ∃ cs, d = .ok cs ∧ cs.flatten = b := by
  cases d with
  | err => exact h.elim
  | panic s => simp only [HashRel] at h; rw [h.1] at hb; cases hb
  | ok cs => simp only [HashRel] at h; rw [h] at hb; injection hb with hb; exact ⟨cs, rfl, hb⟩

theorem hash_contract2 {ct : V} (h : wfOption (wfBytesN 32) ct = true) :
    HashRel (digContract2 ct) (encContract2 ct) := by
  rcases wfOption_iff.mp h with rfl | ⟨x, rfl, hx⟩
  · simp [digContract2, encContract2, HashRel]
  · obtain ⟨c, rfl, hc⟩ := wfBytesN_enc hx
    simp [digContract2, encContract2, digOfEnc, encBytesN, hc, Outcome.bind, HashRel]

theorem hash_pos (O : Oracles) (tr : Bool) : HashOK (digPos O) (encPos O true) (wfPos O tr) := by
  intro v hv
  obtain ⟨ch, pp, ct, pk, version, pi, mg, st, sz, pf, rfl, h1, h2, h3, h4, h5, h6⟩ := wfPos_iff.mp hv
  obtain ⟨A, heA, _⟩ := (codec_bytesN 32).rt ch h1
  obtain ⟨B, heB, _⟩ := (codec_option (codec_g1 O tr)).rt pp h2
  obtain ⟨D, heD, _⟩ := (codec_g1 O tr).rt pk h4
  obtain ⟨F, heF, _⟩ := codec_bytes.rt pf h5
  obtain ⟨csA, hdA, hfA⟩ := hashRel_some (hash_ofCodec (codec_bytesN 32) ch h1) heA
  obtain ⟨csB, hdB, hfB⟩ := hashRel_some (hash_option (hash_ofCodec (codec_g1 O tr)) pp h2) heB
  obtain ⟨csD, hdD, hfD⟩ := hashRel_some (hash_ofCodec (codec_g1 O tr) pk h4) heD
  obtain ⟨csF, hdF, hfF⟩ := hashRel_some (hash_bytes pf h5) heF
  rcases h6 with ⟨rfl, rfl, rfl, rfl, hsz⟩ | ⟨rfl, hpi, hmg, hst, rfl, hs⟩
  · obtain ⟨C, heC, _⟩ := (codec_option (codec_bytesN 32)).rt ct h3
    obtain ⟨csC, hdC, hfC⟩ := hashRel_some (hash_option (hash_ofCodec (codec_bytesN 32)) ct h3) heC
    have hE : encUint 1 (.n sz) = some (be 1 sz) := by simp [encUint, hsz]
    simp only [digPos, encPos, hdA, hdB, hdC, hdD, hdF, heA, heB, heC, heD, heF, hE, Outcome.bind, if_true, HashRel]
    simp [hfA, hfB, hfC, hfD, hfF]
  · obtain ⟨C, heC⟩ : ∃ C, encContract2 ct = some C := by
      rcases wfOption_iff.mp h3 with rfl | ⟨x, rfl, hx⟩
      · exact ⟨_, rfl⟩
      · obtain ⟨c, rfl, hc⟩ := wfBytesN_enc hx
        exact ⟨3 :: c, by simp [encContract2, encBytesN, hc]⟩
    obtain ⟨csC, hdC, hfC⟩ := hashRel_some (hash_contract2 h3) heC
    have hE1 : encUint 2 (.n pi) = some (be 2 pi) := by simp [encUint, hpi]
    have hE2 : encUint 1 (.n mg) = some (be 1 mg) := by simp [encUint, hmg]
    have hE3 : encUint 1 (.n st) = some (be 1 st) := by simp [encUint, hst]
    have hnn : (!isSomeV pp && !isSomeV ct) = false := by
      cases hA : isSomeV pp <;> cases hB : isSomeV ct <;> simp [hA, hB] at hs ⊢
    have hflat : (csA ++ csB ++ csC ++ csD ++ [be 2 pi, be 1 mg, be 1 st]).flatten =
        A ++ B ++ C ++ D ++ be 2 pi ++ be 1 mg ++ be 1 st := by
      simp [hfA, hfB, hfC, hfD]
    simp only [digPos, encPos, hdA, hdB, hdC, hdD, heA, heB, heC, heD, heF, hE1, hE2, hE3, Outcome.bind,
      if_neg (by decide : ¬ (1 : Nat) = 0), if_true, hnn, Bool.false_eq_true, if_false, hflat]
    cases hq : O.quality (A ++ B ++ C ++ D ++ be 2 pi ++ be 1 mg ++ be 1 st ++ F) with
    | none => simp [HashRel]
    | some q => simp [HashRel, hfA, hfB, hfC, hfD]

theorem hashL_nil (O : Oracles) (tr : Bool) : ∀ l, WFL O tr [] l = true → HashRel (digestL O [] l) (encodeLH O true [] l) := by
  intro l hl
  cases l with
  | nil => simp [digestL, encodeLH, HashRel]
  | cons _ _ => simp [WFL] at hl

theorem hashL_cons (O : Oracles) (tr : Bool) (t : Ty) (ts : List Ty)
    (h1 : HashOK (digestChunks O t) (encodeH O true t) (WF O tr t))
    (h2 : ∀ l, WFL O tr ts l = true → HashRel (digestL O ts l) (encodeLH O true ts l)) :
    ∀ l, WFL O tr (t :: ts) l = true → HashRel (digestL O (t :: ts) l) (encodeLH O true (t :: ts) l) := by
  intro l hl
  cases l with
  | nil => simp [WFL] at hl
  | cons v vs =>
    simp only [WFL, Bool.and_eq_true] at hl
    simp only [digestL, encodeLH]
    exact hashRel_seq (h1 v hl.1) (h2 vs hl.2)

mutual
theorem hash_decode (O : Oracles) (hO : OracleContract O) (tr : Bool) :
    ∀ t : Ty, HashOK (digestChunks O t) (encodeH O true t) (WF O tr t)
  | .uint n => by simp only [digestChunks, encodeH, WF]; exact hash_ofCodec (codec_uint n)
  | .sint n => by simp only [digestChunks, encodeH, WF]; exact hash_ofCodec (codec_sint n)
  | .bool => by simp only [digestChunks, encodeH, WF]; exact hash_ofCodec codec_bool
  | .unit => by simp only [digestChunks, encodeH, WF]; exact hash_unit
  | .bytes => by simp only [digestChunks, encodeH, WF]; exact hash_bytes
  | .bytesN n => by simp only [digestChunks, encodeH, WF]; exact hash_ofCodec (codec_bytesN n)
  | .str => by simp only [digestChunks, encodeH, WF]; exact hash_str
  | .option t => by simp only [digestChunks, encodeH, WF]; exact hash_option (hash_decode O hO tr t)
  | .vec t => by simp only [digestChunks, encodeH, WF]; exact hash_vec (hash_decode O hO tr t)
  | .tuple ts => by simp only [digestChunks, encodeH, WF]; exact hash_tup (hashL_decode O hO tr ts)
  | .array n t => by simp only [digestChunks, encodeH, WF]; exact hash_array (hash_decode O hO tr t)
  | .struct _ _ ts => by simp only [digestChunks, encodeH, WF]; exact hash_tup (hashL_decode O hO tr ts)
  | .enum8 _ vals => by simp only [digestChunks, encodeH, WF]; exact hash_ofCodec (codec_enum vals)
  | .program => by simp only [digestChunks, encodeH, WF]; exact hash_ofCodec (codec_program O hO tr)
  | .g1 => by simp only [digestChunks, encodeH, WF]; exact hash_ofCodec (codec_g1 O tr)
  | .g2 => by simp only [digestChunks, encodeH, WF]; exact hash_ofCodec (codec_g2 O tr)
  | .gt => by simp only [digestChunks, encodeH, WF]; exact hash_ofCodec (codec_opaque siteGt _ _)
  | .secretKey => by simp only [digestChunks, encodeH, WF]; exact hash_ofCodec (codec_opaque siteSk _ _)
  | .optpair t u => by
      simp only [digestChunks, encodeH, WF]; exact hash_optpair (hash_decode O hO tr t) (hash_decode O hO tr u)
  | .genTail p => by simp only [digestChunks, encodeH, WF]; exact hash_gentail O hO tr p
  | .proofOfSpace => by simp only [digestChunks, encodeH, WF]; exact hash_pos O tr
theorem hashL_decode (O : Oracles) (hO : OracleContract O) (tr : Bool) :
    ∀ (ts : List Ty) (l : List V), WFL O tr ts l = true → HashRel (digestL O ts l) (encodeLH O true ts l)
  | [] => hashL_nil O tr
  | t :: ts => hashL_cons O tr t ts (hash_decode O hO tr t) (hashL_decode O hO tr ts)
end

end ChiaModel.Streamable
