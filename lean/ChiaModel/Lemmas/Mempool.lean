import ChiaModel.Model.Mempool
import ChiaModel.Lemmas.Acc
import ChiaModel.Lemmas.Ints
import ChiaModel.Props.C11
import ChiaModel.Props.C17
/-
Helper lemmas for C19 (fast-forward decoding, fingerprint stream, dedup flag).
-/
namespace ChiaModel.Mp
open ChiaModel ChiaModel.Cond ChiaModel.TreeHash

/-! ## decoding -/

theorem decodeSingleton_some {p : Sexp} {s : Singleton} (h : decodeSingleton p = some s) :
    p = s.puzzle ∧ s.modHash.length = 32 ∧ s.launcherId.length = 32 ∧ s.launcherPh.length = 32 := by
  unfold decodeSingleton at h
  split at h
  · simp only at h
    split at h
    · rename_i hc
      injection h with h; subst h
      exact hc
    · cases h
  · cases h

theorem decodeSingleton_puzzle (s : Singleton) (h1 : s.modHash.length = 32) (h2 : s.launcherId.length = 32)
    (h3 : s.launcherPh.length = 32) : decodeSingleton s.puzzle = some s := by
  obtain ⟨m, mh, lid, lph, inner⟩ := s
  simp only [decodeSingleton, Singleton.puzzle, curry, curryArgs, structOf] at *
  simp [h1, h2, h3]

theorem puzzle_inj {s s' : Singleton} (h : s.puzzle = s'.puzzle) : s = s' := by
  obtain ⟨m, mh, lid, lph, inner⟩ := s
  obtain ⟨m', mh', lid', lph', inner'⟩ := s'
  simp only [Singleton.puzzle, curry, curryArgs, structOf, Sexp.pair.injEq, Sexp.atom.injEq, and_true, true_and] at h
  obtain ⟨a, ⟨b, c, d⟩, e⟩ := h
  subst a; subst b; subst c; subst d; subst e; rfl

theorem decodeProof_lineage {n : Sexp} {pp pih pa : Bytes} {t : Sexp} (h : decodeProof n = some (.lineage pp pih pa t)) :
    n = .pair (.atom pp) (.pair (.atom pih) (.pair (.atom pa) t)) ∧ pp.length = 32 ∧ pih.length = 32 ∧
      (decodeU64 pa).isSome = true := by
  unfold decodeProof at h
  simp only at h
  split at h
  · rename_i p hp
    injection h with h; subst h
    split at hp
    · split at hp
      · rename_i hc
        injection hp with hp; injection hp with a b c d
        subst a; subst b; subst c; subst d
        exact ⟨rfl, hc⟩
      · cases hp
    · cases hp
  · split at h
    · split at h
      · cases h
      · cases h
    · cases h

theorem decodeSolution_some {n : Sexp} {sol : Solution} (h : decodeSolution n = some sol) :
    ∃ lp, n = .pair lp (.pair (.atom sol.amountAtom) (.pair sol.innerSolution sol.tail)) ∧
      decodeProof lp = some sol.proof ∧ (decodeU64 sol.amountAtom).isSome = true := by
  unfold decodeSolution at h
  split at h
  · rename_i lp amt isol t
    split at h
    · rename_i p hp
      split at h
      · rename_i hc
        injection h with h; subst h
        exact ⟨lp, rfl, hp, hc⟩
      · cases h
    · cases h
  · cases h

/-! ## what an accepted fast-forward call satisfies -/

/-- the guards of `fast_forward_singleton`, on the decoded parts -/
structure Accepts (sg : Singleton) (pp pih pa amt : Bytes) (coin nc np : CoinM) : Prop where
  oddCoin : coin.amount % 2 = 1
  oddParent : np.amount % 2 = 1
  oddNew : nc.amount % 2 = 1
  phParent : coin.puzzleHash = np.puzzleHash
  phNew : coin.puzzleHash = nc.puzzleHash
  lenModHash : sg.modHash.length = 32
  lenLauncherId : sg.launcherId.length = 32
  lenLauncherPh : sg.launcherPh.length = 32
  lenPp : pp.length = 32
  lenPih : pih.length = 32
  modHash : sg.modHash = singletonModHash
  modTree : Sexp.treeHash sg.mod = singletonModHash
  amount : decodeU64 amt = some coin.amount
  lineage : ∃ v, decodeU64 pa = some v ∧
    coinIdOf pp (curryAndTreehash pih sg.modHash sg.launcherId sg.launcherPh) v = coin.parent
  innerHash : Sexp.treeHash sg.inner = pih
  puzzleHash : Sexp.treeHash sg.puzzle = coin.puzzleHash
  newParent : nc.parent = np.coinId

theorem ff_ok {puzzle solution : Sexp} {coin nc np : CoinM} {s' : Sexp}
    (h : fastForward puzzle solution coin nc np = .ok s') :
    ∃ sg pp pih pa t1 amt isol t2, puzzle = sg.puzzle ∧ solution = mkSolution pp pih pa t1 amt isol t2 ∧
      Accepts sg pp pih pa amt coin nc np ∧
      s' = mkSolution np.parent pih (canonNat np.amount) Sexp.nil (canonNat nc.amount) isol Sexp.nil := by
  unfold fastForward at h
  split at h
  · cases h
  rename_i h1
  split at h
  · cases h
  rename_i h2
  split at h
  · cases h
  rename_i sg hsg
  split at h
  · cases h
  rename_i sol hsol
  split at h
  · cases h
  rename_i pp pih pa t1 hproof
  split at h
  · cases h
  rename_i g1
  split at h
  · cases h
  rename_i g2
  split at h
  · cases h
  rename_i g3
  split at h
  · cases h
  rename_i g4
  split at h
  · cases h
  rename_i g5
  split at h
  · cases h
  rename_i g6
  split at h
  · cases h
  rename_i g7
  injection h with h
  obtain ⟨e1, l1, l2, l3⟩ := decodeSingleton_some hsg
  obtain ⟨lp, e2, hp, ha⟩ := decodeSolution_some hsol
  rw [hproof] at hp
  obtain ⟨e3, l4, l5, hv⟩ := decodeProof_lineage hp
  refine ⟨sg, pp, pih, pa, t1, sol.amountAtom, sol.innerSolution, sol.tail, e1, ?_, ?_, h.symm⟩
  · rw [e2, e3]; rfl
  · have hpz : Sexp.treeHash sg.puzzle = coin.puzzleHash := by
      rw [← e1]; exact (not_or.mp g6).2 |> Decidable.of_not_not
    refine ⟨by omega, by omega, by omega, ?_, ?_, l1, l2, l3, l4, l5, Decidable.of_not_not g1, Decidable.of_not_not g2,
      (Decidable.of_not_not g3).symm, ?_, Decidable.of_not_not g5, hpz, Decidable.of_not_not g7⟩
    · exact Decidable.of_not_not (not_or.mp h2).1
    · exact Decidable.of_not_not (not_or.mp h2).2
    · cases hd : decodeU64 pa with
      | none => rw [hd] at hv; cases hv
      | some v => exact ⟨v, rfl, by rw [hd] at g4; exact Decidable.of_not_not g4⟩

theorem ff_accepts {sg : Singleton} {pp pih pa amt : Bytes} {coin nc np : CoinM} (t1 isol t2 : Sexp)
    (h : Accepts sg pp pih pa amt coin nc np) :
    fastForward sg.puzzle (mkSolution pp pih pa t1 amt isol t2) coin nc np =
      .ok (mkSolution np.parent pih (canonNat np.amount) Sexp.nil (canonNat nc.amount) isol Sexp.nil) := by
  obtain ⟨v, hv, hid⟩ := h.lineage
  have hsol : decodeSolution (mkSolution pp pih pa t1 amt isol t2) = some ⟨.lineage pp pih pa t1, amt, isol, t2⟩ := by
    simp [decodeSolution, mkSolution, decodeProof, h.lenPp, h.lenPih, hv, h.amount]
  unfold fastForward
  rw [if_neg (by have := h.oddCoin; have := h.oddParent; have := h.oddNew; omega)]
  rw [if_neg (by simp [h.phParent.symm, h.phNew.symm])]
  rw [decodeSingleton_puzzle sg h.lenModHash h.lenLauncherId h.lenLauncherPh]
  simp only [hsol]
  rw [if_neg (by simp [h.modHash]), if_neg (by simp [h.modTree]), if_neg (by simp [h.amount])]
  rw [if_neg (by simp [hv, hid]), if_neg (by simp [h.innerHash])]
  rw [if_neg (by simp [h.puzzleHash, h.phParent.symm]), if_neg (by simp [h.newParent])]

/-! ## hashes: injective up to an explicit collision -/

/-- an explicit SHA-256 collision -/
def Collision : Prop := ∃ x y : Bytes, x ≠ y ∧ sha256 x = sha256 y

theorem sha_inj {x y : Bytes} (h : sha256 x = sha256 y) : x = y ∨ Collision := by
  by_cases e : x = y
  · exact Or.inl e
  · exact Or.inr ⟨x, y, e, h⟩

theorem sha256_length (m : Bytes) : (sha256 m).length = 32 := by
  simp [sha256, Sha256.sha256, Sha256.digest, be_length]

theorem treeHash_length (t : Sexp) : (Sexp.treeHash t).length = 32 := by
  cases t <;> simp [Sexp.treeHash, sha256_length]

theorem append_inj_left {a b c d : Bytes} (h : a ++ b = c ++ d) (hl : a.length = c.length) : a = c ∧ b = d :=
  List.append_inj h hl

theorem treeHash_inj : ∀ (a b : Sexp), Sexp.treeHash a = Sexp.treeHash b → a = b ∨ Collision := by
  intro a
  induction a with
  | atom x =>
    intro b h
    cases b with
    | atom y =>
      simp only [Sexp.treeHash] at h
      rcases sha_inj h with e | c
      · injection e with _ e; exact Or.inl (by rw [e])
      · exact Or.inr c
    | pair l r =>
      simp only [Sexp.treeHash] at h
      rcases sha_inj h with e | c
      · injection e with e _; cases e
      · exact Or.inr c
  | pair l r ihl ihr =>
    intro b h
    cases b with
    | atom y =>
      simp only [Sexp.treeHash] at h
      rcases sha_inj h with e | c
      · injection e with e _; cases e
      · exact Or.inr c
    | pair l' r' =>
      simp only [Sexp.treeHash] at h
      rcases sha_inj h with e | c
      · injection e with _ e
        obtain ⟨e1, e2⟩ := append_inj_left e (by rw [treeHash_length, treeHash_length])
        rcases ihl l' e1 with a1 | c
        · rcases ihr r' e2 with a2 | c
          · exact Or.inl (by rw [a1, a2])
          · exact Or.inr c
        · exact Or.inr c
      · exact Or.inr c

/-! ## `u64::from_clvm` yields a u64 -/

theorem stripPadding_mem {len pad : Nat} : ∀ (s : Bytes) (budget : Nat) (s' : Bytes),
    stripPadding len pad budget s = some s' → ∀ x ∈ s', x ∈ s := by
  intro s
  induction s with
  | nil => intro budget s' h; unfold stripPadding at h; injection h with h; subst h; simp
  | cons a tl ih =>
    intro budget s' h x hx
    unfold stripPadding at h
    split at h
    · cases budget with
      | zero => cases h
      | succ b => exact List.mem_cons_of_mem _ (ih b s' h x hx)
    · injection h with h; subst h; exact hx

theorem decodeU64_lt {b : Bytes} {v : Nat} (hb : isBytes b) (h : decodeU64 b = some v) : v < 2^64 := by
  unfold decodeU64 at h
  cases hd : decodeNumber 8 false b with
  | none => rw [hd] at h; cases h
  | some r =>
    rw [hd] at h; simp only [Option.map_some, Option.some.injEq] at h
    subst h
    have : r.length = 8 ∧ isBytes r := by
      unfold decodeNumber at hd
      cases b with
      | nil => simp only at hd; injection hd with hd; subst hd; simp [zeros, isBytes]
      | cons x0 tl =>
        simp only at hd
        split at hd
        · cases hd
        · simp only [Bool.false_and, Bool.false_eq_true, if_false] at hd
          split at hd
          · cases hd
          · rename_i s hs
            split at hd
            · cases hd
            · rename_i hc
              injection hd with hd; subst hd
              have hlen : s.length ≤ 8 := by
                have := not_or.mp hc; omega
              refine ⟨by simp; omega, ?_⟩
              intro y hy
              simp only [List.mem_append, List.mem_replicate] at hy
              rcases hy with ⟨_, rfl⟩ | hy
              · omega
              · exact hb y (stripPadding_mem _ _ _ hs y hy)
    have hlt := beVal_lt r this.2
    rw [this.1] at hlt
    exact hlt

/-! ## calls on decoded parts, and what pins each part -/

theorem canonNat_inj {a b : Nat} (ha : a < 2^64) (hb : b < 2^64) (h : canonNat a = canonNat b) : a = b := by
  have h1 := (C11.canonNat_spec a ha).1
  have h2 := (C11.canonNat_spec b hb).1
  rw [h] at h1; rw [h1] at h2; exact h2

/-- coin ids with the same puzzle hash: equal ids come from equal (parent, amount), or exhibit a collision -/
theorem coinIdOf_inj {p p' h : Bytes} {a a' : Nat} (hl : p.length = p'.length) (ha : a < 2^64) (ha' : a' < 2^64)
    (e : coinIdOf p h a = coinIdOf p' h a') : (p = p' ∧ a = a') ∨ Collision := by
  unfold coinIdOf at e
  rcases sha_inj e with e | c
  · simp only [List.append_assoc] at e
    obtain ⟨e1, e2⟩ := List.append_inj e hl
    exact Or.inl ⟨e1, canonNat_inj ha ha' (List.append_cancel_left e2)⟩
  · exact Or.inr c

/-- a fast-forward call given by the decoded parts of puzzle and solution -/
structure Call where
  sg : Singleton
  pp : Bytes
  pih : Bytes
  pa : Bytes
  t1 : Sexp
  amt : Bytes
  isol : Sexp
  t2 : Sexp
  coin : CoinM
  nc : CoinM
  np : CoinM

def Call.solution (c : Call) : Sexp := mkSolution c.pp c.pih c.pa c.t1 c.amt c.isol c.t2

def Call.run (c : Call) : Except FFErr Sexp := fastForward c.sg.puzzle c.solution c.coin c.nc c.np

def Call.result (c : Call) : Sexp :=
  mkSolution c.np.parent c.pih (canonNat c.np.amount) Sexp.nil (canonNat c.nc.amount) c.isol Sexp.nil

theorem mkSolution_inj {lp lih la : Bytes} {t1 : Sexp} {amt : Bytes} {isol t2 : Sexp}
    {lp' lih' la' : Bytes} {t1' : Sexp} {amt' : Bytes} {isol' t2' : Sexp}
    (h : mkSolution lp lih la t1 amt isol t2 = mkSolution lp' lih' la' t1' amt' isol' t2') :
    lp = lp' ∧ lih = lih' ∧ la = la' ∧ t1 = t1' ∧ amt = amt' ∧ isol = isol' ∧ t2 = t2' := by
  simp only [mkSolution, Sexp.pair.injEq, Sexp.atom.injEq] at h
  obtain ⟨⟨a, b, c, d⟩, e, f, g⟩ := h
  exact ⟨a, b, c, d, e, f, g⟩

theorem Call.run_ok {c : Call} {s' : Sexp} (h : c.run = .ok s') :
    Accepts c.sg c.pp c.pih c.pa c.amt c.coin c.nc c.np ∧ s' = c.result := by
  obtain ⟨sg, pp, pih, pa, t1, amt, isol, t2, e1, e2, acc, e3⟩ := ff_ok h
  have := puzzle_inj e1
  subst this
  obtain ⟨a, b, d, _, f, g, _⟩ := mkSolution_inj e2
  subst a; subst b; subst d; subst f; subst g
  exact ⟨acc, e3⟩

theorem Call.run_iff (c : Call) (s' : Sexp) :
    c.run = .ok s' ↔ Accepts c.sg c.pp c.pih c.pa c.amt c.coin c.nc c.np ∧ s' = c.result := by
  constructor
  · exact Call.run_ok
  · rintro ⟨acc, e⟩
    rw [e]; exact ff_accepts c.t1 c.isol c.t2 acc

/-- the well-formedness of the Rust types: atoms are byte strings, hashes have 32 bytes, amounts are u64 -/
structure Call.WF (c : Call) : Prop where
  paBytes : isBytes c.pa
  npParent : c.np.parent.length = 32
  npAmount : c.np.amount < 2^64

/-- every single-field corruption of a call (values that decode to the same integer, the tails and the
inner solution are not bound by any guard and are not listed; neither is an odd new-coin amount) -/
inductive Corrupt (c : Call) : Call → Prop where
  | mod (x : Sexp) (h : x ≠ c.sg.mod) : Corrupt c { c with sg := { c.sg with mod := x } }
  | modHash (x : Bytes) (h : x ≠ c.sg.modHash) : Corrupt c { c with sg := { c.sg with modHash := x } }
  | launcherId (x : Bytes) (h : x ≠ c.sg.launcherId) : Corrupt c { c with sg := { c.sg with launcherId := x } }
  | launcherPh (x : Bytes) (h : x ≠ c.sg.launcherPh) : Corrupt c { c with sg := { c.sg with launcherPh := x } }
  | inner (x : Sexp) (h : x ≠ c.sg.inner) : Corrupt c { c with sg := { c.sg with inner := x } }
  | lineageParent (x : Bytes) (h : x ≠ c.pp) : Corrupt c { c with pp := x }
  | lineageInnerPh (x : Bytes) (h : x ≠ c.pih) : Corrupt c { c with pih := x }
  | lineageAmount (x : Bytes) (hb : isBytes x) (h : decodeU64 x ≠ decodeU64 c.pa) : Corrupt c { c with pa := x }
  | solutionAmount (x : Bytes) (h : decodeU64 x ≠ decodeU64 c.amt) : Corrupt c { c with amt := x }
  | coinParent (x : Bytes) (h : x ≠ c.coin.parent) : Corrupt c { c with coin := { c.coin with parent := x } }
  | coinPh (x : Bytes) (h : x ≠ c.coin.puzzleHash) : Corrupt c { c with coin := { c.coin with puzzleHash := x } }
  | coinAmount (x : Nat) (h : x ≠ c.coin.amount) : Corrupt c { c with coin := { c.coin with amount := x } }
  | newCoinParent (x : Bytes) (h : x ≠ c.nc.parent) : Corrupt c { c with nc := { c.nc with parent := x } }
  | newCoinPh (x : Bytes) (h : x ≠ c.nc.puzzleHash) : Corrupt c { c with nc := { c.nc with puzzleHash := x } }
  | newCoinAmountEven (x : Nat) (h : x % 2 = 0) : Corrupt c { c with nc := { c.nc with amount := x } }
  | newParentParent (x : Bytes) (hl : x.length = 32) (h : x ≠ c.np.parent) : Corrupt c { c with np := { c.np with parent := x } }
  | newParentPh (x : Bytes) (h : x ≠ c.np.puzzleHash) : Corrupt c { c with np := { c.np with puzzleHash := x } }
  | newParentAmount (x : Nat) (hx : x < 2^64) (h : x ≠ c.np.amount) : Corrupt c { c with np := { c.np with amount := x } }

theorem corrupt_refused {c c' : Call} {s : Sexp} (h : c.run = .ok s) (wf : c.WF) (hc : Corrupt c c') :
    (∃ e, c'.run = .error e) ∨ Collision := by
  cases hr : c'.run with
  | error e => exact Or.inl ⟨e, rfl⟩
  | ok s' =>
    obtain ⟨a, _⟩ := Call.run_ok h
    obtain ⟨a', _⟩ := Call.run_ok hr
    obtain ⟨v, hv, hid⟩ := a.lineage
    obtain ⟨v', hv', hid'⟩ := a'.lineage
    have hvlt : v < 2^64 := decodeU64_lt wf.paBytes hv
    cases hc with
    | mod x hx =>
      have e : Sexp.treeHash x = Sexp.treeHash c.sg.mod := by rw [a.modTree]; exact a'.modTree
      rcases treeHash_inj _ _ e with e | cl
      · exact absurd e hx
      · exact Or.inr cl
    | modHash x hx => exact absurd (a'.modHash.trans a.modHash.symm) hx
    | launcherId x hx =>
      have e := a'.puzzleHash.trans a.puzzleHash.symm
      rcases treeHash_inj _ _ e with e | cl
      · exact absurd (congrArg Singleton.launcherId (puzzle_inj e)) hx
      · exact Or.inr cl
    | launcherPh x hx =>
      have e := a'.puzzleHash.trans a.puzzleHash.symm
      rcases treeHash_inj _ _ e with e | cl
      · exact absurd (congrArg Singleton.launcherPh (puzzle_inj e)) hx
      · exact Or.inr cl
    | inner x hx =>
      have e := a'.innerHash.trans a.innerHash.symm
      rcases treeHash_inj _ _ e with e | cl
      · exact absurd e hx
      · exact Or.inr cl
    | lineageParent x hx =>
      simp only at hv' hid' a'
      rw [hv] at hv'; injection hv' with hv'; subst hv'
      rcases coinIdOf_inj (by rw [a'.lenPp, a.lenPp]) hvlt hvlt (hid'.trans hid.symm) with e | cl
      · exact absurd e.1 hx
      · exact Or.inr cl
    | lineageInnerPh x hx => exact absurd (a'.innerHash.symm.trans a.innerHash) hx
    | lineageAmount x hb hx =>
      simp only at hv' hid' a'
      have hvlt' : v' < 2^64 := decodeU64_lt hb hv'
      rcases coinIdOf_inj rfl hvlt' hvlt (hid'.trans hid.symm) with e | cl
      · exfalso; apply hx; rw [hv, hv', e.2]
      · exact Or.inr cl
    | solutionAmount x hx => exact absurd (a'.amount.trans a.amount.symm) hx
    | coinParent x hx =>
      simp only at hv' hid'
      rw [hv] at hv'; injection hv' with hv'; subst hv'
      exact absurd (hid'.symm.trans hid) hx
    | coinPh x hx => exact absurd (a'.puzzleHash.symm.trans a.puzzleHash) hx
    | coinAmount x hx =>
      have := a'.amount.symm.trans a.amount
      injection this with this
      exact absurd this hx
    | newCoinParent x hx => exact absurd (a'.newParent.trans a.newParent.symm) hx
    | newCoinPh x hx => exact absurd (a'.phNew.symm.trans a.phNew) hx
    | newCoinAmountEven x hx => have := a'.oddNew; simp only at this; omega
    | newParentParent x hl hx =>
      have e := a'.newParent.symm.trans a.newParent
      simp only [CoinM.coinId] at e
      rcases coinIdOf_inj (by rw [hl, wf.npParent]) wf.npAmount wf.npAmount e with e | cl
      · exact absurd e.1 hx
      · exact Or.inr cl
    | newParentPh x hx => exact absurd (a'.phParent.symm.trans a.phParent) hx
    | newParentAmount x hlt hx =>
      have e := a'.newParent.symm.trans a.newParent
      simp only [CoinM.coinId] at e
      rcases coinIdOf_inj rfl hlt wf.npAmount e with e | cl
      · exact absurd e.2 hx
      · exact Or.inr cl

/-! ## the decoded integer is the value of the atom -/

theorem stripPadding_suffix {len : Nat} : ∀ (s : Bytes) (budget : Nat) (s' : Bytes),
    stripPadding len 0 budget s = some s' → ∃ k, s = List.replicate k 0 ++ s' := by
  intro s
  induction s with
  | nil => intro budget s' h; unfold stripPadding at h; injection h with h; subst h; exact ⟨0, rfl⟩
  | cons a tl ih =>
    intro budget s' h
    unfold stripPadding at h
    split at h
    · rename_i hc
      cases budget with
      | zero => cases h
      | succ b =>
        obtain ⟨k, hk⟩ := ih b s' h
        exact ⟨k + 1, by rw [List.replicate_succ, List.cons_append, ← hk, hc.2]⟩
    · injection h with h; subst h; exact ⟨0, rfl⟩

theorem decodeU64_beVal {b : Bytes} {v : Nat} (h : decodeU64 b = some v) : beVal b = v := by
  unfold decodeU64 at h
  cases hd : decodeNumber 8 false b with
  | none => rw [hd] at h; cases h
  | some r =>
    rw [hd] at h; simp only [Option.map_some, Option.some.injEq] at h
    subst h
    unfold decodeNumber at hd
    cases b with
    | nil => simp only at hd; injection hd with hd; subst hd; simp [zeros]; rfl
    | cons x0 tl =>
      simp only at hd
      split at hd
      · cases hd
      · simp only [Bool.false_and, Bool.false_eq_true, if_false] at hd
        split at hd
        · cases hd
        · rename_i s hs
          split at hd
          · cases hd
          · injection hd with hd; subst hd
            obtain ⟨k, hk⟩ := stripPadding_suffix _ _ _ hs
            rw [C11.beVal_replicate_zero, hk, C11.beVal_replicate_zero]

/-! ## the run-time clause, conditional on the documented behaviour of the singleton puzzle -/

def condAssertMyAmount (amt : Bytes) : Sexp := .pair (.atom [73]) (.pair (.atom amt) Sexp.nil)
def condAssertMyParentId (id : Bytes) : Sexp := .pair (.atom [71]) (.pair (.atom id) Sexp.nil)

/-- **`SingletonSpec`**: the documented behaviour of `singleton_top_layer_v1_1.clsp` (chia-puzzles, CLVM:
external to /repo) for a lineage (non-eve) proof.  `run p s` is the interpreter (`none` = raises).
With an odd `my_amount` the puzzle returns
`(ASSERT_MY_AMOUNT my_amount) (ASSERT_MY_PARENT_ID (sha256 parent_parent (full puzzle hash of the lineage's
inner puzzle hash) parent_amount))` followed by `morph`, the inner puzzle's conditions with the one odd
CREATE_COIN re-wrapped - a function of the singleton struct and the inner conditions only; otherwise it raises. -/
structure SingletonSpec (run : Sexp → Sexp → Option Sexp) where
  morph : Sexp → Sexp → Option Sexp
  eval : ∀ (sg : Singleton) (pp pih pa : Bytes) (t1 : Sexp) (amt : Bytes) (isol t2 : Sexp),
    Sexp.treeHash sg.mod = singletonModHash →
    run sg.puzzle (mkSolution pp pih pa t1 amt isol t2) =
      (match run sg.inner isol with
       | none => none
       | some conds =>
         if beVal amt % 2 = 1 then
           (morph (structOf sg.modHash sg.launcherId sg.launcherPh) conds).map (fun m =>
             Sexp.pair (condAssertMyAmount amt)
               (Sexp.pair (condAssertMyParentId
                 (sha256 (pp ++ curryAndTreehash pih sg.modHash sg.launcherId sg.launcherPh ++ pa))) m))
         else none)

/-- the full puzzle hash the lineage check computes is the hash of the revealed puzzle -/
theorem Accepts.curried {sg : Singleton} {pp pih pa amt : Bytes} {coin nc np : CoinM}
    (a : Accepts sg pp pih pa amt coin nc np) :
    curryAndTreehash pih sg.modHash sg.launcherId sg.launcherPh = coin.puzzleHash := by
  rw [← a.puzzleHash, ← a.innerHash]
  have := C17.curry_and_treehash_eq sg.mod sg.inner sg.modHash sg.launcherId sg.launcherPh (by rw [a.modTree, a.modHash])
  rw [this]; rfl

/-- **runs against the new coin, same created coins** (conditional on `SingletonSpec`): for an accepted
call whose original spend runs, the rewritten solution runs too; both outputs consist of two
self-assertions followed by the SAME morphed inner conditions `m` (hence the same CREATE_COINs), and the
new run's self-assertions are `ASSERT_MY_AMOUNT new_coin.amount`, `ASSERT_MY_PARENT_ID new_coin.parent`. -/
theorem ff_preserves_of_spec {run : Sexp → Sexp → Option Sexp} (spec : SingletonSpec run) {c : Call} {s' : Sexp}
    (h : c.run = .ok s') (hnc : c.nc.amount < 2^64) {out : Sexp}
    (horig : run c.sg.puzzle c.solution = some out) :
    ∃ m, out = Sexp.pair (condAssertMyAmount c.amt) (Sexp.pair (condAssertMyParentId
            (sha256 (c.pp ++ c.coin.puzzleHash ++ c.pa))) m) ∧
      run c.sg.puzzle s' = some (Sexp.pair (condAssertMyAmount (canonNat c.nc.amount))
        (Sexp.pair (condAssertMyParentId c.nc.parent) m)) := by
  obtain ⟨a, e⟩ := Call.run_ok h
  subst e
  have e1 := spec.eval c.sg c.pp c.pih c.pa c.t1 c.amt c.isol c.t2 a.modTree
  have e2 := spec.eval c.sg c.np.parent c.pih (canonNat c.np.amount) Sexp.nil (canonNat c.nc.amount) c.isol Sexp.nil a.modTree
  simp only [Call.solution] at horig
  rw [horig] at e1
  simp only [Call.result]
  rw [e2]
  cases hi : run c.sg.inner c.isol with
  | none => rw [hi] at e1; cases e1
  | some conds =>
    rw [hi] at e1; simp only at e1 ⊢
    have hodd : beVal (canonNat c.nc.amount) % 2 = 1 := by
      rw [(C11.canonNat_spec _ hnc).1]; exact a.oddNew
    rw [if_pos hodd]
    split at e1
    · cases hm : spec.morph (structOf c.sg.modHash c.sg.launcherId c.sg.launcherPh) conds with
      | none => rw [hm] at e1; cases e1
      | some m =>
        rw [hm] at e1; simp only [Option.map_some, Option.some.injEq] at e1 ⊢
        refine ⟨m, ?_, ?_⟩
        · rw [e1, a.curried]
        · rw [a.curried, a.newParent, CoinM.coinId, coinIdOf, a.phParent]
    · cases e1

end ChiaModel.Mp
