import ChiaModel.Lemmas.Precomputed
/-
Helper lemmas for C17 (core Lean only).
-/
namespace ChiaModel.TreeHash
open ChiaModel

theorem getD_push_lt {α} (a : Array α) (x d : α) (i : Nat) (h : i < a.size) : (a.push x).getD i d = a.getD i d := by
  simp [Array.getD_eq_getD_getElem?, Array.getElem?_push, Nat.ne_of_lt h]
theorem getD_push_eq {α} (a : Array α) (x d : α) : (a.push x).getD a.size d = x := by
  simp [Array.getD_eq_getD_getElem?]

/-! ### `denote` does not depend on the fuel -/

theorem denoteF_stable {h : Heap} (hwf : WF h) : ∀ n f, n < f → denoteF h f n = denoteF h (n + 1) n := by
  intro n
  induction n using Nat.strongRecOn with
  | _ n ih =>
    intro f hf
    obtain ⟨f', rfl⟩ : ∃ f', f = f' + 1 := ⟨f - 1, by omega⟩
    simp only [denoteF]
    cases hn : h[n]? with
    | none => rfl
    | some nd =>
      cases nd with
      | atom b => rfl
      | small v => rfl
      | pair l r =>
        obtain ⟨hl, hr⟩ := hwf n l r hn
        simp only []
        rw [ih l hl f' (by omega), ih r hr f' (by omega), ih l hl n hl, ih r hr n hr]

theorem denote_pair {h : Heap} (hwf : WF h) {n l r : Nat} (hn : h[n]? = some (Node.pair l r)) :
    denote h n = Sexp.pair (denote h l) (denote h r) := by
  obtain ⟨hl, hr⟩ := hwf n l r hn
  have e : denoteF h (n + 1) n = Sexp.pair (denoteF h n l) (denoteF h n r) := by simp only [denoteF, hn]
  rw [denote, e, denoteF_stable hwf l n hl, denoteF_stable hwf r n hr]; rfl

theorem denote_atom {h : Heap} {n : Nat} {b : Bytes} (hn : h[n]? = some (Node.atom b)) :
    denote h n = Sexp.atom b := by
  simp only [denote, denoteF, hn]

theorem denote_small {h : Heap} {n v : Nat} (hn : h[n]? = some (Node.small v)) :
    denote h n = Sexp.atom (smallBytes v) := by
  simp only [denote, denoteF, hn]

/-! ### tables -/

theorem treeHash_fold (t : Sexp) :
    Sexp.treeHash t = foldSexp (fun b => sha256 (1 :: b)) (fun x y => sha256 (2 :: (x ++ y))) t := by
  induction t with
  | atom b => rfl
  | pair l r ihl ihr => simp only [Sexp.treeHash, foldSexp, ihl, ihr]

theorem size_fold (t : Sexp) : t.size = foldSexp (fun _ => 1) (fun x y => 1 + x + y) t := by
  induction t with
  | atom b => rfl
  | pair l r ihl ihr => simp only [Sexp.size, foldSexp, ihl, ihr]

theorem tableL_spec {α : Type} (fa : Bytes → α) (fp : α → α → α) (d : α) (h : Heap) (hwf : WF h) :
    ∀ (rest pre : List Node) (tbl : Array α), h.toList = pre ++ rest → tbl.size = pre.length →
      (∀ i, i < pre.length → tbl.getD i d = foldSexp fa fp (denote h i)) →
      (tableL fa fp d rest tbl).size = h.size ∧
        ∀ i, i < h.size → (tableL fa fp d rest tbl).getD i d = foldSexp fa fp (denote h i) := by
  intro rest
  induction rest with
  | nil =>
    intro pre tbl hsplit hsz hval
    have : h.size = pre.length := by
      have := congrArg List.length hsplit
      simpa using this
    simp only [tableL]
    exact ⟨by omega, fun i hi => hval i (by omega)⟩
  | cons nd rest ih =>
    intro pre tbl hsplit hsz hval
    simp only [tableL]
    have hnd : h[pre.length]? = some nd := by
      rw [← Array.getElem?_toList, hsplit]
      simp
    apply ih (pre ++ [nd]) (tbl.push (nodeVal fa fp d tbl nd)) (by simp [hsplit]) (by simp [hsz])
    intro i hi
    simp only [List.length_append, List.length_cons, List.length_nil] at hi
    by_cases hlt : i < pre.length
    · rw [getD_push_lt _ _ _ _ (by omega)]; exact hval i hlt
    · have hi' : i = pre.length := by omega
      subst hi'
      rw [← hsz, getD_push_eq, hsz]
      cases nd with
      | atom b => simp only [nodeVal, denote_atom hnd, foldSexp]
      | small v => simp only [nodeVal, denote_small hnd, foldSexp]
      | pair l r =>
        obtain ⟨hl, hr⟩ := hwf _ l r hnd
        simp only [nodeVal, denote_pair hwf hnd, foldSexp, hval l hl, hval r hr]

theorem table_spec {α : Type} (fa : Bytes → α) (fp : α → α → α) (d : α) (h : Heap) (hwf : WF h)
    (n : Nat) (hn : n < h.size) : (table fa fp d h).getD n d = foldSexp fa fp (denote h n) := by
  have := tableL_spec fa fp d h hwf h.toList [] #[] (by simp) (by simp) (by intro i hi; simp at hi)
  exact this.2 n hn

theorem hashTable_getD {h : Heap} (hwf : WF h) {n : Nat} (hn : n < h.size) :
    (hashTable h).getD n [] = Sexp.treeHash (denote h n) := by
  rw [treeHash_fold]; exact table_spec _ _ _ h hwf n hn

theorem sizeTable_getD {h : Heap} (hwf : WF h) {n : Nat} (hn : n < h.size) :
    (sizeTable h).getD n 0 = (denote h n).size := by
  rw [size_fold]; exact table_spec _ _ _ h hwf n hn

/-! ### leaves and the hash functions -/

abbrev TH (h : Heap) (n : Nat) : Bytes := Sexp.treeHash (denote h n)

theorem atomHash_eq (b : Bytes) : atomHash b = sha256 (1 :: b) := by
  simp only [atomHash, prefixes_eq.1]

theorem pairHash_eq (x y : Bytes) : pairHash x y = sha256 (2 :: (x ++ y)) := by
  simp only [pairHash, prefixes_eq.2]

theorem precomputed_getD (v : Nat) (hv : v < Gen.precomputed.length) :
    Gen.precomputed.getD v [] = sha256 (1 :: smallBytes v) := by
  rw [precomputed_eq] at hv ⊢
  simp only [List.length_map, List.length_range] at hv
  rw [small_canon v hv]
  simp [List.getD_eq_getElem?_getD, hv]

/-- a leaf's hash is the tree hash of what the node denotes (small atoms: via the table) -/
theorem leafHash_atom {h : Heap} {n : Nat} {b : Bytes} (hn : h[n]? = some (Node.atom b)) :
    leafHash (Node.atom b) = TH h n := by
  simp only [leafHash, TH, denote_atom hn, Sexp.treeHash, atomHash_eq]

theorem leafHash_small {h : Heap} {n v : Nat} (hn : h[n]? = some (Node.small v)) :
    leafHash (Node.small v) = TH h n := by
  simp only [leafHash, TH, denote_small hn, Sexp.treeHash]
  split
  · rename_i hv; exact precomputed_getD v hv
  · exact atomHash_eq _

theorem TH_pair {h : Heap} (hwf : WF h) {n l r : Nat} (hn : h[n]? = some (Node.pair l r)) :
    pairHash (TH h l) (TH h r) = TH h n := by
  simp only [TH, denote_pair hwf hn, Sexp.treeHash, pairHash_eq]

/-! ### the two-stack machine of `tree_hash` -/

/-- loop iterations spent on a tree: one per node plus one `Cons` per pair -/
def stepsOf : Sexp → Nat
  | .atom _ => 1
  | .pair l r => 2 + stepsOf l + stepsOf r

theorem stepsOf_le (t : Sexp) : stepsOf t + 1 ≤ 2 * t.size := by
  induction t with
  | atom b => simp [stepsOf, Sexp.size]
  | pair l r ihl ihr => simp only [stepsOf, Sexp.size]; omega

theorem runIter_sexp {h : Heap} (hwf : WF h) : ∀ n, n < h.size → ∀ fuel ops hs,
    runIter h (fuel + stepsOf (denote h n)) (.sexp n :: ops) hs = runIter h fuel ops (TH h n :: hs) := by
  intro n
  induction n using Nat.strongRecOn with
  | _ n ih =>
    intro hn fuel ops hs
    have hget : h[n]? = some h[n] := by simp [hn]
    cases hnd : h[n] with
    | atom b =>
      rw [hnd] at hget
      rw [denote_atom hget, stepsOf, runIter, hget]
      simp only []
      rw [leafHash_atom hget, TH, denote_atom hget]
    | small v =>
      rw [hnd] at hget
      rw [denote_small hget, stepsOf, runIter, hget]
      simp only []
      rw [leafHash_small hget, TH, denote_small hget]
    | pair l r =>
      rw [hnd] at hget
      obtain ⟨hl, hr⟩ := hwf n l r hget
      rw [denote_pair hwf hget, stepsOf]
      have e : fuel + (2 + stepsOf (denote h l) + stepsOf (denote h r))
          = (((fuel + 1) + stepsOf (denote h l)) + stepsOf (denote h r)) + 1 := by omega
      rw [e, runIter, hget]
      simp only []
      rw [ih r hr (by omega), ih l hl (by omega), runIter, TH_pair hwf hget, TH, denote_pair hwf hget]

theorem runIter_root {h : Heap} (hwf : WF h) {n : Nat} (hn : n < h.size) (fuel : Nat)
    (hf : 2 * (denote h n).size + 1 ≤ fuel) : runIter h fuel [.sexp n] [] = some [TH h n] := by
  have := stepsOf_le (denote h n)
  obtain ⟨f', rfl⟩ : ∃ f', fuel = (f' + 1) + stepsOf (denote h n) := ⟨fuel - stepsOf (denote h n) - 1, by omega⟩
  rw [runIter_sexp hwf n hn, runIter]

/-! ### currying -/

theorem th_atom (b : Bytes) : Sexp.treeHash (.atom b) = atomHash b := by
  rw [atomHash_eq]; rfl

theorem th_pair (l r : Sexp) : Sexp.treeHash (.pair l r) = pairHash (Sexp.treeHash l) (Sexp.treeHash r) := by
  rw [pairHash_eq]; rfl

theorem curryArgs_hash (args : List Sexp) :
    (args.map Sexp.treeHash).foldr (fun argHash quotedArgs =>
      pairHash (atomHash [4]) (pairHash (pairHash (atomHash [1]) argHash) (pairHash quotedArgs (atomHash []))))
      (atomHash [1]) = Sexp.treeHash (curryArgs args) := by
  induction args with
  | nil => simp only [List.map_nil, List.foldr_nil, curryArgs, th_atom]
  | cons a r ih =>
    simp only [List.map_cons, List.foldr_cons, curryArgs, th_pair, th_atom]
    rw [ih]

end ChiaModel.TreeHash
