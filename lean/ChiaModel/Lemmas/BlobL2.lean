import ChiaModel.Model.Blob
/-
C18, level L2: run equations of the primitives of the index-level model and the facts needed to show
that an operation, once past its checks, cannot fail on a locally well-formed state.
-/
namespace ChiaModel.Blob
open M

theorem bind_run {α β : Type} (x : M α) (f : α → M β) (s : Blob) :
    (x >>= f) s = match x s with
      | (.ok a, s') => f a s'
      | (.error e, s') => (.error e, s') := rfl

theorem pure_run {α : Type} (a : α) (s : Blob) : (pure a : M α) s = (.ok a, s) := rfl

/-- the state after a successful `insert_entry_to_blob` -/
def Blob.write (s : Blob) (i : Nat) (b : Block) : Blob :=
  let blocks' := if i = s.blocks.length then s.blocks ++ [b] else s.blocks.set i b
  match b.node with
  | .leaf h _ k _ =>
    { blocks := blocks', free := s.free.erase i, k2i := mapInsert s.k2i k i, h2i := mapInsert s.h2i h i }
  | .internal _ _ _ _ => { blocks := blocks', free := s.free.erase i, k2i := s.k2i, h2i := s.h2i }

theorem getBlock_run (i : Nat) (s : Blob) :
    getBlock i s = match s.blocks[i]? with
      | some b => (.ok b, s)
      | none => (.error .err, s) := by
  show (match M.get s with
      | (.ok a, s') => (match a.blocks[i]? with | some b => pure b | none => M.throw .err : M Block) s'
      | (.error e, s') => (.error e, s')) = _
  simp only [M.get]
  cases s.blocks[i]? <;> rfl

theorem writeBlock_run (i : Nat) (b : Block) (s : Blob) :
    writeBlock i b s = if i > s.blocks.length then (.error .err, s) else (.ok (), s.write i b) := by
  obtain ⟨d, n⟩ := b
  by_cases h : i > s.blocks.length
  · rw [if_pos h]
    unfold writeBlock
    simp only [bind_run, M.get, if_pos h]
    rfl
  · rw [if_neg h]
    unfold writeBlock
    simp only [bind_run, M.get, if_neg h]
    cases n <;> rfl

theorem getNewIndex_run (s : Blob) :
    getNewIndex s = match s.free with
      | i :: rest => (.ok i, { s with free := rest })
      | [] => (.ok s.blocks.length, { s with blocks := s.blocks ++ [Block.zero] }) := by
  unfold getNewIndex
  simp only [bind_run, M.get]
  cases s.free <;> rfl

/-! ### success of straight-line programs -/

/-- `x` run from `s` succeeds, with a result and final state satisfying `Q` -/
def Ok {α : Type} (x : M α) (s : Blob) (Q : α → Blob → Prop) : Prop :=
  ∃ a s', x s = (.ok a, s') ∧ Q a s'

theorem Ok.bind {α β : Type} {x : M α} {f : α → M β} {s : Blob} {Q : α → Blob → Prop}
    {R : β → Blob → Prop} (h : Ok x s Q) (hf : ∀ a s', Q a s' → Ok (f a) s' R) : Ok (x >>= f) s R := by
  obtain ⟨a, s', e, q⟩ := h
  obtain ⟨b, s'', e2, r⟩ := hf a s' q
  exact ⟨b, s'', by rw [bind_run, e]; exact e2, r⟩

theorem Ok.pure {α : Type} {a : α} {s : Blob} {Q : α → Blob → Prop} (h : Q a s) : Ok (pure a) s Q :=
  ⟨a, s, rfl, h⟩

theorem Ok.mono {α : Type} {x : M α} {s : Blob} {Q R : α → Blob → Prop} (h : Ok x s Q)
    (hqr : ∀ a s', Q a s' → R a s') : Ok x s R := by
  obtain ⟨a, s', e, q⟩ := h
  exact ⟨a, s', e, hqr a s' q⟩

/-- every parent pointer stored in any block (live or stale) is a valid index -/
def RangeP (s : Blob) : Prop :=
  ∀ (j : Nat) (b : Block), s.blocks[j]? = some b → ∀ p, b.node.parent = some p → p < s.blocks.length

theorem RangeP.congr {s1 s2 : Blob} (h : s1.blocks = s2.blocks) (r : RangeP s1) : RangeP s2 := by
  unfold RangeP at *; rw [← h]; exact r

def FreeLt (s : Blob) : Prop := ∀ i, i ∈ s.free → i < s.blocks.length

/-- how the current state `s'` relates to the state `s` at the start of an operation; `W` lists the
indices written so far -/
structure Evo (s s' : Blob) (W : List Nat) : Prop where
  len : s.blocks.length ≤ s'.blocks.length
  range : RangeP s'
  free : ∀ j, j ∈ s'.free → j ∈ s.free
  same : ∀ j, j < s.blocks.length → j ∉ W → s'.blocks[j]? = s.blocks[j]?

theorem Evo.refl {s : Blob} (h : RangeP s) : Evo s s [] :=
  ⟨Nat.le_refl _, h, fun _ h => h, fun _ _ _ => rfl⟩

theorem write_blocks_lt (s : Blob) (i : Nat) (b : Block) (h : i < s.blocks.length) :
    (s.write i b).blocks = s.blocks.set i b := by
  have hne : i ≠ s.blocks.length := Nat.ne_of_lt h
  obtain ⟨d, n⟩ := b
  cases n <;> simp [Blob.write, hne]

theorem write_free (s : Blob) (i : Nat) (b : Block) : (s.write i b).free = s.free.erase i := by
  obtain ⟨d, n⟩ := b
  cases n <;> rfl

theorem getBlock_spec {s : Blob} {i : Nat} {b : Block} (h : s.blocks[i]? = some b) :
    Ok (getBlock i) s (fun r s' => r = b ∧ s' = s) :=
  ⟨b, s, by rw [getBlock_run, h], rfl, rfl⟩

theorem writeBlock_spec {s s' : Blob} {W : List Nat} (i : Nat) (b : Block) (ev : Evo s s' W)
    (hi : i < s'.blocks.length) (hp : ∀ p, b.node.parent = some p → p < s'.blocks.length) :
    Ok (writeBlock i b) s' (fun _ s'' => Evo s s'' (i :: W) ∧ s''.blocks.length = s'.blocks.length
      ∧ s''.blocks[i]? = some b ∧ ∀ j, j ≠ i → s''.blocks[j]? = s'.blocks[j]?) := by
  refine ⟨(), s'.write i b, by rw [writeBlock_run, if_neg (by omega)], ?_⟩
  have hb := write_blocks_lt s' i b hi
  have hlen : (s'.write i b).blocks.length = s'.blocks.length := by rw [hb, List.length_set]
  have hne : ∀ j, j ≠ i → (s'.write i b).blocks[j]? = s'.blocks[j]? := by
    intro j hj; rw [hb, List.getElem?_set_ne (fun e => hj e.symm)]
  have hself : (s'.write i b).blocks[i]? = some b := by rw [hb, List.getElem?_set_self hi]
  refine ⟨⟨by rw [hlen]; exact ev.len, ?_, ?_, ?_⟩, hlen, hself, hne⟩
  · unfold RangeP
    intro j b0 hj p hpar
    rw [hlen]
    by_cases hji : j = i
    · subst hji; rw [hself] at hj; injection hj with hj; subst hj; exact hp p hpar
    · rw [hne j hji] at hj; exact ev.range j b0 hj p hpar
  · intro j hj
    rw [write_free] at hj
    exact ev.free j (List.mem_of_mem_erase hj)
  · intro j hjl hjw
    simp only [List.mem_cons, not_or] at hjw
    rw [hne j hjw.1]; exact ev.same j hjl hjw.2

theorem getNewIndex_spec {s s' : Blob} {W : List Nat} (ev : Evo s s' W) (hf : FreeLt s) :
    Ok getNewIndex s' (fun i s'' => Evo s s'' W ∧ i < s''.blocks.length ∧ (i ∈ s.free ∨ s.blocks.length ≤ i)
      ∧ s'.blocks.length ≤ s''.blocks.length) := by
  rw [Ok]
  rw [getNewIndex_run]
  cases hfr : s'.free with
  | nil =>
    refine ⟨_, _, rfl, ⟨?_, ?_, ?_, ?_⟩, by simp, Or.inr ev.len, by simp⟩
    · simp only [List.length_append, List.length_cons, List.length_nil]; have := ev.len; omega
    · unfold RangeP
      intro j b hj p hp
      simp only [List.length_append, List.length_cons, List.length_nil]
      by_cases hjl : j < s'.blocks.length
      · rw [List.getElem?_append_left hjl] at hj
        have := ev.range j b hj p hp; omega
      · have hge : s'.blocks.length ≤ j := Nat.le_of_not_lt hjl
        rw [List.getElem?_append_right hge] at hj
        cases hd : j - s'.blocks.length with
        | zero =>
          rw [hd] at hj; simp only [List.getElem?_cons_zero] at hj
          injection hj with hj; subst hj; simp [Block.zero, Node.parent] at hp
        | succ n => rw [hd] at hj; simp at hj
    · intro j hj; cases hj
    · intro j hjl hjw
      have : j < s'.blocks.length := Nat.lt_of_lt_of_le hjl ev.len
      show (s'.blocks ++ [Block.zero])[j]? = _
      rw [List.getElem?_append_left this]; exact ev.same j hjl hjw
  | cons i rest =>
    have hi : i ∈ s.free := ev.free i (by rw [hfr]; simp)
    refine ⟨_, _, rfl, ⟨ev.len, ev.range.congr rfl, ?_, ev.same⟩, Nat.lt_of_lt_of_le (hf i hi) ev.len, Or.inl hi,
      Nat.le_refl _⟩
    intro j hj
    exact ev.free j (by rw [hfr]; exact List.mem_cons_of_mem _ hj)

theorem updateParent_spec {s s' : Blob} {W : List Nat} (i : Nat) (p : Option Nat) {b : Block}
    (ev : Evo s s' W) (hb : s'.blocks[i]? = some b) (hp : ∀ q, p = some q → q < s'.blocks.length) :
    Ok (updateParent i p) s' (fun _ s'' => Evo s s'' (i :: W) ∧ s''.blocks.length = s'.blocks.length
      ∧ s''.blocks[i]? = some { b with node := b.node.setParent p }
      ∧ ∀ j, j ≠ i → s''.blocks[j]? = s'.blocks[j]?) := by
  unfold updateParent
  refine (getBlock_spec hb).bind ?_
  rintro r s1 ⟨hr, hs⟩
  rw [hr, hs]
  have hi : i < s'.blocks.length := by
    have := List.getElem?_eq_some_iff.mp hb; exact this.1
  have hpar : ∀ q, ({ b with node := b.node.setParent p } : Block).node.parent = some q → q < s'.blocks.length := by
    intro q hq
    apply hp q
    cases hn : b.node <;> simp [hn, Node.setParent, Node.parent] at hq <;> exact hq
  refine (writeBlock_spec i _ ev hi hpar).bind ?_
  intro _ s2 h
  exact Ok.pure h

theorem replaceChild_spec {s s' : Blob} {W : List Nat} (pi old new : Nat) {d : Bool} {h : Hash}
    {p : Option Nat} {l r : Nat} (ev : Evo s s' W)
    (hb : s'.blocks[pi]? = some { dirty := d, node := .internal h p l r }) (hc : old = l ∨ old = r) :
    Ok (replaceChild pi old new) s' (fun _ s'' => Evo s s'' (pi :: W) ∧ s''.blocks.length = s'.blocks.length
      ∧ ∀ j, j ≠ pi → s''.blocks[j]? = s'.blocks[j]?) := by
  unfold replaceChild
  refine (getBlock_spec hb).bind ?_
  rintro b s1 ⟨hr, hs⟩
  rw [hr, hs]
  have hi : pi < s'.blocks.length := (List.getElem?_eq_some_iff.mp hb).1
  have hpar : ∀ q, p = some q → q < s'.blocks.length := fun q hq => ev.range pi _ hb q (by simp [Node.parent, hq])
  simp only
  by_cases h1 : old = l
  · rw [if_pos h1]
    refine (writeBlock_spec pi _ ev hi (fun q hq => hpar q (by simpa [Node.parent] using hq))).mono ?_
    intro _ s2 hh; exact ⟨hh.1, hh.2.1, hh.2.2.2⟩
  · rw [if_neg h1]
    have h2 : old = r := hc.resolve_left h1
    rw [if_pos h2]
    refine (writeBlock_spec pi _ ev hi (fun q hq => hpar q (by simpa [Node.parent] using hq))).mono ?_
    intro _ s2 hh; exact ⟨hh.1, hh.2.1, hh.2.2.2⟩

/-! ### `mark_lineage_as_dirty` terminates without error when all parent pointers are in range -/

def cleanCount (bl : List Block) : Nat := bl.countP (fun b => !b.dirty)

theorem cleanCount_le (bl : List Block) : cleanCount bl ≤ bl.length := List.countP_le_length

theorem cleanCount_set (bl : List Block) (i : Nat) (b b' : Block) (hb : bl[i]? = some b)
    (hc : b.dirty = false) (hd : b'.dirty = true) : cleanCount (bl.set i b') + 1 = cleanCount bl := by
  induction bl generalizing i with
  | nil => simp at hb
  | cons x bl ih =>
    cases i with
    | zero =>
      simp only [List.getElem?_cons_zero] at hb
      injection hb with hb; subst hb
      simp [cleanCount, List.set, hc, hd]
    | succ i =>
      simp only [List.getElem?_cons_succ] at hb
      have := ih i hb
      simp only [cleanCount, List.set, List.countP_cons] at this ⊢
      omega

theorem markDirtyAux_ok (f : Nat) (i : Nat) (s : Blob) (hr : RangeP s) (hi : i < s.blocks.length)
    (hc : cleanCount s.blocks < f) : Ok (markDirtyAux f i) s (fun _ _ => True) := by
  induction f generalizing i s with
  | zero => omega
  | succ f ih =>
    unfold markDirtyAux
    obtain ⟨b, hb⟩ : ∃ b, s.blocks[i]? = some b := ⟨s.blocks[i], List.getElem?_eq_getElem hi⟩
    refine (getBlock_spec hb).bind ?_
    rintro b1 s1 ⟨h1, h2⟩
    rw [h1, h2]
    by_cases hd : b.dirty = true
    · rw [if_pos hd]; exact Ok.pure trivial
    · rw [if_neg hd]
      have hpar : ∀ q, ({ b with dirty := true } : Block).node.parent = some q → q < s.blocks.length :=
        fun q hq => hr i b hb q hq
      refine (writeBlock_spec i _ (Evo.refl hr) hi hpar).bind ?_
      intro _ s2 ⟨ev, hlen, hself, hne⟩
      cases hp : b.node.parent with
      | none => exact Ok.pure trivial
      | some p =>
        simp only
        have hp' : p < s2.blocks.length := by rw [hlen]; exact hr i b hb p hp
        apply ih p s2 ev.range hp'
        have hset : s2.blocks = s.blocks.set i { b with dirty := true } := by
          apply List.ext_getElem?
          intro j
          by_cases hji : j = i
          · subst hji; rw [hself, List.getElem?_set_self hi]
          · rw [hne j hji, List.getElem?_set_ne (fun e => hji e.symm)]
        have := cleanCount_set s.blocks i b { b with dirty := true } hb (by simpa using hd) rfl
        rw [hset]; omega

theorem markLineageDirty_ok (i : Nat) (s : Blob) (hr : RangeP s) (hi : i < s.blocks.length) :
    Ok (markLineageDirty i) s (fun _ _ => True) := by
  unfold markLineageDirty
  refine Ok.bind (Q := fun r s' => r = s ∧ s' = s) ⟨s, s, rfl, rfl, rfl⟩ ?_
  rintro r s1 ⟨h1, h2⟩
  rw [h1, h2]
  exact markDirtyAux_ok _ i s hr hi (by have := cleanCount_le s.blocks; omega)

/-! ### the insert paths cannot fail once the checks have passed -/

theorem insertFirst_ok (k : KeyId) (v : ValueId) (h : Hash) (s : Blob) :
    Ok (insertFirst k v h) s (fun _ _ => True) := by
  unfold insertFirst
  refine Ok.bind (Q := fun r s' => r = s ∧ s' = s) ⟨s, s, rfl, rfl, rfl⟩ ?_
  rintro r s1 ⟨h1, h2⟩
  rw [h1, h2]
  refine Ok.bind (Q := fun _ _ => True) ?_ (fun _ _ _ => Ok.pure trivial)
  exact ⟨(), _, by rw [writeBlock_run, if_neg (Nat.lt_irrefl _)], trivial⟩

theorem insertSecond_ok (k : KeyId) (v : ValueId) (h oh : Hash) (ok : KeyId) (ov : ValueId) (ih : Hash)
    (side : Side) (s : Blob) : Ok (insertSecond k v h oh ok ov ih side) s (fun _ _ => True) := by
  cases side <;> exact ⟨_, _, rfl, trivial⟩

theorem insertThird_ok (s : Blob) (k : KeyId) (v : ValueId) (h : Hash) (opi idx : Nat) (ih : Hash)
    (side : Side) (hr : RangeP s) (hf : FreeLt s)
    {d : Bool} {oh : Hash} {ok : KeyId} {ov : ValueId}
    (hleaf : s.blocks[idx]? = some { dirty := d, node := .leaf oh (some opi) ok ov })
    {d' : Bool} {ph : Hash} {pp : Option Nat} {pl pr : Nat}
    (hpar : s.blocks[opi]? = some { dirty := d', node := .internal ph pp pl pr })
    (hch : idx = pl ∨ idx = pr) (hnf : opi ∉ s.free) :
    Ok (insertThird k v h (some opi) idx ih side) s (fun _ _ => True) := by
  have hidx : idx < s.blocks.length := (List.getElem?_eq_some_iff.mp hleaf).1
  have hopi : opi < s.blocks.length := (List.getElem?_eq_some_iff.mp hpar).1
  have hne_idx : opi ≠ idx := by
    intro e; rw [e, hleaf] at hpar; injection hpar with hpar; injection hpar with _ hn; cases hn
  unfold insertThird
  refine (getNewIndex_spec (Evo.refl hr) hf).bind ?_
  intro nl s1 ⟨ev1, hnl1, hnlw, _⟩
  refine (getNewIndex_spec ev1 hf).bind ?_
  intro ni s2 ⟨ev2, hni2, hniw, hl12⟩
  have hnl2 : nl < s2.blocks.length := Nat.lt_of_lt_of_le hnl1 hl12
  refine (writeBlock_spec nl _ ev2 hnl2 (fun q hq => by
    simp only [Node.parent, Option.some.injEq] at hq; rw [← hq]; exact hni2)).bind ?_
  intro _ s3 ⟨ev3, hl3, _, _⟩
  have hfresh : ∀ x, (x ∈ s.free ∨ s.blocks.length ≤ x) → opi ≠ x := by
    intro x hx e; subst e
    rcases hx with hx | hx
    · exact hnf hx
    · omega
  cases side with
  | left =>
    simp only
    refine (writeBlock_spec ni _ ev3 (by rw [hl3]; exact hni2) (fun q hq => by
      simp only [Node.parent, Option.some.injEq] at hq; rw [← hq]
      exact Nat.lt_of_lt_of_le hopi ev3.len)).bind ?_
    intro _ s4 ⟨ev4, hl4, _, _⟩
    obtain ⟨b, hb⟩ : ∃ b, s4.blocks[idx]? = some b :=
      ⟨s4.blocks[idx]'(Nat.lt_of_lt_of_le hidx ev4.len), List.getElem?_eq_getElem _⟩
    refine (updateParent_spec idx (some ni) ev4 hb (fun q hq => by
      injection hq with hq; rw [← hq, hl4, hl3]; exact hni2)).bind ?_
    intro _ s5 ⟨ev5, hl5, _, _⟩
    have hb5 : s5.blocks[opi]? = some { dirty := d', node := .internal ph pp pl pr } := by
      rw [ev5.same opi hopi (by
        simp only [List.mem_cons, List.not_mem_nil, or_false, not_or]
        exact ⟨hne_idx, hfresh ni hniw, hfresh nl hnlw⟩)]
      exact hpar
    refine (replaceChild_spec opi idx ni ev5 hb5 hch).bind ?_
    intro _ s6 ⟨ev6, hl6, _⟩
    refine (markLineageDirty_ok opi s6 ev6.range (Nat.lt_of_lt_of_le hopi ev6.len)).bind ?_
    intro _ _ _
    exact Ok.pure trivial
  | right =>
    simp only
    refine (writeBlock_spec ni _ ev3 (by rw [hl3]; exact hni2) (fun q hq => by
      simp only [Node.parent, Option.some.injEq] at hq; rw [← hq]
      exact Nat.lt_of_lt_of_le hopi ev3.len)).bind ?_
    intro _ s4 ⟨ev4, hl4, _, _⟩
    obtain ⟨b, hb⟩ : ∃ b, s4.blocks[idx]? = some b :=
      ⟨s4.blocks[idx]'(Nat.lt_of_lt_of_le hidx ev4.len), List.getElem?_eq_getElem _⟩
    refine (updateParent_spec idx (some ni) ev4 hb (fun q hq => by
      injection hq with hq; rw [← hq, hl4, hl3]; exact hni2)).bind ?_
    intro _ s5 ⟨ev5, hl5, _, _⟩
    have hb5 : s5.blocks[opi]? = some { dirty := d', node := .internal ph pp pl pr } := by
      rw [ev5.same opi hopi (by
        simp only [List.mem_cons, List.not_mem_nil, or_false, not_or]
        exact ⟨hne_idx, hfresh ni hniw, hfresh nl hnlw⟩)]
      exact hpar
    refine (replaceChild_spec opi idx ni ev5 hb5 hch).bind ?_
    intro _ s6 ⟨ev6, hl6, _⟩
    refine (markLineageDirty_ok opi s6 ev6.range (Nat.lt_of_lt_of_le hopi ev6.len)).bind ?_
    intro _ _ _
    exact Ok.pure trivial

/-! ### from the local invariant -/

theorem LInv.rangeP {s : Blob} (h : LInv s) : RangeP s := by
  intro j b hj p hp
  have hjl : j < s.blocks.length := (List.getElem?_eq_some_iff.mp hj).1
  have := h.parentRange j hjl
  simp only [parentInRange, hj, hp] at this
  exact this

theorem LInv.freeLt' {s : Blob} (h : LInv s) : FreeLt s := h.freeLt

theorem mapGet_mem {κ : Type} [DecidableEq κ] (m : List (κ × Nat)) (k : κ) (i : Nat)
    (h : mapGet m k = some i) : (k, i) ∈ m := by
  induction m with
  | nil => simp [mapGet] at h
  | cons x m ih =>
    obtain ⟨k', i'⟩ := x
    simp only [mapGet] at h
    split at h
    · rename_i hk; injection h with h; subst hk; subst h; simp
    · exact List.mem_cons_of_mem _ (ih h)

/-- a cache entry is a live leaf -/
theorem LInv.key_leaf {s : Blob} (hinv : LInv s) {k : KeyId} {i : Nat} (h : mapGet s.k2i k = some i) :
    i ∉ s.free ∧ ∃ d hh p v, s.blocks[i]? = some { dirty := d, node := .leaf hh p k v } := by
  have := hinv.keys (k, i) (mapGet_mem _ _ _ h)
  simp only [okKey] at this
  refine ⟨this.1, ?_⟩
  have h2 := this.2
  split at h2
  · rename_i d hh p k' v heq
    subst h2
    exact ⟨_, _, _, _, heq⟩
  · exact absurd h2 id

/-- what `insert` needs to know about a live leaf -/
theorem LInv.leaf_parent {s : Blob} (hinv : LInv s) {idx : Nat} {d : Bool} {oh : Hash} {op : Option Nat}
    {ok : KeyId} {ov : ValueId} (hi : idx ∉ s.free)
    (hb : s.blocks[idx]? = some { dirty := d, node := .leaf oh op ok ov }) :
    (op = none → s.k2i.length = 1) ∧
    (∀ opi, op = some opi → opi ∉ s.free ∧ ∃ d' ph pp pl pr,
        s.blocks[opi]? = some { dirty := d', node := .internal ph pp pl pr } ∧ (idx = pl ∨ idx = pr)) := by
  have hil : idx < s.blocks.length := (List.getElem?_eq_some_iff.mp hb).1
  have := (hinv.node idx hil hi).2.1
  simp only [okParent, hb, Node.parent] at this
  cases op with
  | none => exact ⟨fun _ => this rfl, fun _ e => by cases e⟩
  | some p =>
    refine ⟨fun e => (by cases e), fun opi e => ?_⟩
    injection e with e; subst e
    simp only at this
    refine ⟨this.1, ?_⟩
    have h2 := this.2
    split at h2
    · rename_i d' ph pp pl pr heq
      exact ⟨_, _, _, _, _, heq, h2⟩
    · exact absurd h2 id

theorem LInv.children {s : Blob} (hinv : LInv s) {i : Nat} {d : Bool} {h : Hash} {p : Option Nat} {l r : Nat}
    (hi : i ∉ s.free) (hb : s.blocks[i]? = some { dirty := d, node := .internal h p l r }) :
    l < s.blocks.length ∧ r < s.blocks.length ∧ l ∉ s.free ∧ r ∉ s.free ∧ l ≠ r := by
  have hil : i < s.blocks.length := (List.getElem?_eq_some_iff.mp hb).1
  have := (hinv.node i hil hi).1
  simp only [okChildren, hb] at this
  exact ⟨this.1, this.2.1, this.2.2.1, this.2.2.2.1, this.2.2.2.2.1⟩

/-- the pseudo-random walk from a live node ends in a live leaf -/
theorem walk_live {s : Blob} (hinv : LInv s) (f idx : Nat) (bs : BitSrc) (r : Nat)
    (hl : idx < s.blocks.length) (hf : idx ∉ s.free) (hw : walkAux s.blocks f idx bs = some r) :
    r ∉ s.free ∧ ∃ d h p k v, s.blocks[r]? = some { dirty := d, node := .leaf h p k v } := by
  induction f generalizing idx bs with
  | zero => simp [walkAux] at hw
  | succ f ih =>
    simp only [walkAux] at hw
    cases hb : s.blocks[idx]? with
    | none => rw [hb] at hw; cases hw
    | some b =>
      rw [hb] at hw
      obtain ⟨d, n⟩ := b
      cases n with
      | leaf h p k v =>
        simp only at hw
        injection hw with hw; subst hw
        exact ⟨hf, _, _, _, _, _, hb⟩
      | internal h p l r' =>
        simp only at hw
        obtain ⟨hl1, hr1, hl2, hr2, _⟩ := hinv.children hf hb
        by_cases hbit : (bs.next).1 = true
        · rw [if_pos hbit] at hw; exact ih r' _ hr1 hr2 hw
        · rw [if_neg hbit] at hw; exact ih l _ hl1 hl2 hw

/-! ### an operation either leaves the state untouched or succeeds -/

/-- `x` run from `s` either does not change the state (whatever it returns) or succeeds -/
def KeepOrOk {α : Type} (x : M α) (s : Blob) : Prop := (x s).2 = s ∨ Ok x s (fun _ _ => True)

theorem KeepOrOk.of_ok {α : Type} {x : M α} {s : Blob} (h : Ok x s (fun _ _ => True)) : KeepOrOk x s := Or.inr h

theorem KeepOrOk.error_unchanged {α : Type} {x : M α} {s : Blob} (h : KeepOrOk x s)
    (he : errOf (x s).1 ≠ none) : (x s).2 = s := by
  rcases h with h | ⟨a, s', e, _⟩
  · exact h
  · rw [e] at he; exact absurd rfl he

theorem throw_run {α : Type} (e : Err) (s : Blob) : (M.throw e : M α) s = (.error e, s) := rfl

/-- the part of `insert` after the location is known -/
theorem insertAtLeaf_keepOrOk {s : Blob} (hinv : LInv s) (k : KeyId) (v : ValueId) (h : Hash)
    (idx : Nat) (side : Side) (hfree : idx ∉ s.free) : KeepOrOk (insertAtLeaf k v h idx side) s := by
  unfold insertAtLeaf
  show KeepOrOk (fun s0 => (do
      let n ← getNode idx
      match n with
      | .internal _ _ _ _ => M.throw .err
      | .leaf oh op ok ov =>
        let ih := match side with
          | .left => internalHash h oh
          | .right => internalHash oh h
        if s0.k2i.length = 1 then insertSecond k v h oh ok ov ih side
        else insertThird k v h op idx ih side : M Nat) s0) s
  unfold KeepOrOk Ok
  simp only
  cases hb : s.blocks[idx]? with
  | none =>
    left
    simp only [getNode, bind_run, getBlock_run, hb]
  | some b =>
    obtain ⟨d, n⟩ := b
    cases n with
    | internal hh p l r =>
      left
      simp only [getNode, bind_run, getBlock_run, hb, pure_run]
      rfl
    | leaf oh op ok ov =>
      right
      simp only [getNode]
      refine Ok.bind (Q := fun r s' => r = Node.leaf oh op ok ov ∧ s' = s) ?_ ?_
      · refine (getBlock_spec hb).bind ?_
        rintro r s1 ⟨h1, h2⟩
        rw [h1, h2]; exact Ok.pure ⟨rfl, rfl⟩
      · rintro r s1 ⟨h1, h2⟩
        rw [h1, h2]
        simp only
        obtain ⟨hnone, hsome⟩ := hinv.leaf_parent hfree hb
        by_cases hlen1 : s.k2i.length = 1
        · rw [if_pos hlen1]; exact insertSecond_ok _ _ _ _ _ _ _ _ _
        · rw [if_neg hlen1]
          cases op with
          | none => exact absurd (hnone rfl) hlen1
          | some opi =>
            obtain ⟨hnf, d', ph, pp, pl, pr, hpar, hch⟩ := hsome opi rfl
            exact insertThird_ok s k v h opi idx _ side hinv.rangeP hinv.freeLt' hb hpar hch hnf

theorem randomLoc_run (key : KeyId) (s : Blob) :
    randomLoc key s =
      if s.blocks.isEmpty then (.ok .asRoot, s)
      else match walkAux s.blocks (s.blocks.length + 1) 0 (BitSrc.ofKey key) with
        | some idx => (.ok (.leaf idx (keySide key)), s)
        | none => (.error .err, s) := by
  unfold randomLoc
  simp only [bind_run, M.get]
  split
  · rfl
  · cases walkAux s.blocks (s.blocks.length + 1) 0 (BitSrc.ofKey key) <;> rfl

/-- `insert`: either nothing is touched or it succeeds (an explicit leaf location must be live) -/
theorem insert_keepOrOk {s : Blob} (hinv : LInv s) (k : KeyId) (v : ValueId) (h : Hash) (loc : Loc)
    (hloc : ∀ idx side, loc = .leaf idx side → idx ∉ s.free) : KeepOrOk (insert k v h loc) s := by
  unfold insert
  show KeepOrOk (fun s0 => (
      if (mapGet s0.k2i k).isSome then M.throw .err
      else if (mapGet s0.h2i h).isSome then M.throw .err
      else do
        let loc ← (match loc with
          | .auto => randomLoc k
          | l => pure l)
        match loc with
        | .auto => M.throw .panic
        | .asRoot => if !s0.k2i.isEmpty then M.throw .err else insertFirst k v h
        | .leaf index side => insertAtLeaf k v h index side : M Nat) s0) s
  unfold KeepOrOk Ok
  simp only
  by_cases hk : (mapGet s.k2i k).isSome = true
  · left; rw [if_pos hk]; rfl
  · rw [if_neg hk]
    by_cases hh : (mapGet s.h2i h).isSome = true
    · left; rw [if_pos hh]; rfl
    · rw [if_neg hh]
      -- resolve the location
      have key : ∀ (loc' : Loc) , (∀ idx side, loc' = .leaf idx side → idx ∉ s.free) →
          KeepOrOk (match loc' with
            | .auto => (M.throw .panic : M Nat)
            | .asRoot => if !s.k2i.isEmpty then M.throw .err else insertFirst k v h
            | .leaf index side => insertAtLeaf k v h index side) s := by
        intro loc' hl
        cases loc' with
        | auto => left; rfl
        | asRoot =>
          simp only
          by_cases he : (!s.k2i.isEmpty) = true
          · left; rw [if_pos he]; rfl
          · rw [if_neg he]; exact Or.inr (insertFirst_ok k v h s)
        | leaf idx side => exact insertAtLeaf_keepOrOk hinv k v h idx side (hl idx side rfl)
      cases loc with
      | auto =>
        simp only [bind_run, randomLoc_run]
        by_cases hemp : s.blocks.isEmpty = true
        · rw [if_pos hemp]
          exact key .asRoot (fun _ _ e => by cases e)
        · rw [if_neg hemp]
          cases hw : walkAux s.blocks (s.blocks.length + 1) 0 (BitSrc.ofKey k) with
          | none => left; rfl
          | some idx =>
            simp only
            have hne : s.blocks ≠ [] := by intro e; rw [e] at hemp; exact hemp rfl
            have h0 : 0 < s.blocks.length := List.length_pos_iff.mpr hne
            have hroot := hinv.root
            simp only [rootOk, List.getElem?_eq_getElem h0] at hroot
            obtain ⟨hlive, _⟩ := walk_live hinv _ 0 _ idx h0 hroot.1 hw
            exact key (.leaf idx (keySide k)) (fun i sd e => by injection e with e1 _; rw [← e1]; exact hlive)
      | asRoot => simp only [bind_run, pure_run]; exact key .asRoot (fun _ _ e => by cases e)
      | leaf idx side => simp only [bind_run, pure_run]; exact key (.leaf idx side) hloc

theorem KeepOrOk.discard {α : Type} {x : M α} {s : Blob} (h : KeepOrOk x s) :
    KeepOrOk (do let _ ← x; pure ()) s := by
  rcases h with h | ⟨a, s', e, _⟩
  · left
    show ((x >>= fun _ => pure ()) s).2 = s
    rw [bind_run]
    cases hx : x s with
    | mk r s1 =>
      rw [hx] at h
      cases r <;> exact h
  · right
    exact ⟨(), s', by show (x >>= fun _ => pure ()) s = _; rw [bind_run, e]; rfl, trivial⟩

theorem removeLeaf_run (k : KeyId) (h : Hash) (s : Blob) :
    removeLeaf k h s = match mapGet s.k2i k with
      | none => (.error .err, s)
      | some i => (.ok (), { s with k2i := mapErase s.k2i k, h2i := mapErase s.h2i h, free := freeInsert s.free i }) := by
  unfold removeLeaf
  simp only [bind_run, M.get]
  cases mapGet s.k2i k <;> rfl

/-- `upsert`: either nothing is touched or it succeeds -/
theorem upsert_keepOrOk {s : Blob} (hinv : LInv s) (key : KeyId) (value : ValueId) (newHash : Hash) :
    KeepOrOk (upsert key value newHash) s := by
  have hins : KeepOrOk (do let _ ← insert key value newHash .auto; pure ()) s :=
    (insert_keepOrOk hinv key value newHash .auto (fun _ _ e => by cases e)).discard
  unfold upsert
  show KeepOrOk (fun s0 => (
      match mapGet s0.k2i key with
      | none => do let _ ← insert key value newHash .auto; pure ()
      | some idx =>
        match s0.blocks[idx]? with
        | none => do let _ ← insert key value newHash .auto; pure ()
        | some b =>
          match b.node with
          | .internal _ _ _ _ => M.throw .panic
          | .leaf oh p _ _ =>
            if (match mapGet s0.h2i newHash with
                | some other => decide (other ≠ idx)
                | none => false) then M.throw .err
            else do
              removeLeaf key oh
              writeBlock idx { b with node := .leaf newHash p key value }
              match p with
              | some pi => markLineageDirty pi
              | none => pure () : M Unit) s0) s
  unfold KeepOrOk Ok
  simp only
  cases hg : mapGet s.k2i key with
  | none => exact hins
  | some idx =>
    simp only
    cases hb : s.blocks[idx]? with
    | none => exact hins
    | some b =>
      obtain ⟨d, n⟩ := b
      cases n with
      | internal hh p l r => left; rfl
      | leaf oh p k0 v0 =>
        simp only
        by_cases hcheck : (match mapGet s.h2i newHash with
            | some other => decide (other ≠ idx)
            | none => false) = true
        · left; rw [if_pos hcheck]; rfl
        rw [if_neg hcheck]
        right
        have hidx : idx < s.blocks.length := (List.getElem?_eq_some_iff.mp hb).1
        have hr := hinv.rangeP
        -- removeLeaf
        let s0 : Blob := { s with k2i := mapErase s.k2i key, h2i := mapErase s.h2i oh, free := freeInsert s.free idx }
        have hr0 : RangeP s0 := hr.congr rfl
        refine Ok.bind (Q := fun _ s' => s' = s0) ⟨(), s0, by rw [removeLeaf_run, hg], rfl⟩ ?_
        intro _ s1 hs1
        rw [hs1]
        have hpar : ∀ q, p = some q → q < s.blocks.length := fun q hq => hr idx _ hb q (by simp [Node.parent, hq])
        refine (writeBlock_spec idx _ (Evo.refl hr0) hidx (fun q hq => hpar q (by simpa [Node.parent] using hq))).bind ?_
        intro _ s2 ⟨ev, hl2, _, _⟩
        cases p with
        | none => exact Ok.pure trivial
        | some pi =>
          exact markLineageDirty_ok pi s2 ev.range (by rw [hl2]; exact hpar pi rfl)

/-! ### delete -/

theorem mem_freeInsert (fr : List Nat) (i x : Nat) : x ∈ freeInsert fr i ↔ x ∈ fr ∨ x = i := by
  unfold freeInsert
  split
  · rename_i h
    constructor
    · exact Or.inl
    · rintro (h1 | h1)
      · exact h1
      · rw [h1]; exact h
  · simp

theorem moveIndex_run (src dst : Nat) (s : Blob) :
    moveIndex src dst s =
      if src ∈ s.free then (.error .err, s)
      else if dst ∈ s.free then (.error .err, s)
      else (.ok (), { s with free := freeInsert s.free src }) := by
  unfold moveIndex
  simp only [bind_run, M.get]
  split
  · rfl
  · split <;> rfl

theorem getLeafByKey_run (k : KeyId) (s : Blob) :
    getLeafByKey k s = match mapGet s.k2i k with
      | none => (.error .err, s)
      | some i =>
        match s.blocks[i]? with
        | none => (.error .err, s)
        | some b =>
          match b.node with
          | .leaf _ _ _ _ => (.ok (i, b.node), s)
          | .internal _ _ _ _ => (.error .panic, s) := by
  unfold getLeafByKey
  simp only [bind_run, M.get]
  cases mapGet s.k2i k with
  | none => rfl
  | some i =>
    simp only
    cases hb : s.blocks[i]? with
    | none => simp only [bind_run, getBlock_run, hb]
    | some b =>
      obtain ⟨d, n⟩ := b
      cases n <;> simp only [bind_run, getBlock_run, hb] <;> rfl

theorem deletePromoteRoot_ok (s0 : Blob) (sibIdx : Nat) (sib : Block) (hr : RangeP s0)
    (h0 : 0 < s0.blocks.length) (hsf : sibIdx ∉ s0.free) (h0f : 0 ∉ s0.free)
    (hch : ∀ h p l r, sib.node = .internal h p l r → l < s0.blocks.length ∧ r < s0.blocks.length) :
    Ok (deletePromoteRoot sibIdx sib) s0 (fun _ _ => True) := by
  unfold deletePromoteRoot
  have hpn : ∀ q, ({ sib with node := sib.node.setParent none } : Block).node.parent = some q → q < s0.blocks.length := by
    intro q hq; cases hn : sib.node <;> simp [hn, Node.setParent, Node.parent] at hq
  have finish : ∀ (s1 : Blob) (W : List Nat), Evo s0 s1 W →
      Ok (do writeBlock 0 { sib with node := sib.node.setParent none }; moveIndex sibIdx 0) s1 (fun _ _ => True) := by
    intro s1 W ev
    refine (writeBlock_spec 0 _ ev (Nat.lt_of_lt_of_le h0 ev.len) (fun q hq => Nat.lt_of_lt_of_le (hpn q hq) ev.len)).bind ?_
    intro _ s2 ⟨ev2, _, _, _⟩
    refine ⟨(), { s2 with free := freeInsert s2.free sibIdx }, ?_, trivial⟩
    rw [moveIndex_run, if_neg (fun h => hsf (ev2.free _ h)), if_neg (fun h => h0f (ev2.free _ h))]
  cases hn : sib.node with
  | leaf h p k v =>
    simp only [Node.setParent]
    have := finish s0 [] (Evo.refl hr)
    simp only [hn, Node.setParent] at this
    refine Ok.bind (Q := fun _ s' => s' = s0) ⟨(), s0, rfl, rfl⟩ ?_
    intro _ s1 hs1; rw [hs1]; exact this
  | internal h p l r =>
    simp only [Node.setParent]
    obtain ⟨hl, hrr⟩ := hch h p l r hn
    refine Ok.bind (Q := fun _ s' => ∃ W, Evo s0 s' W) ?_ ?_
    · obtain ⟨bl, hbl⟩ : ∃ b, s0.blocks[l]? = some b := ⟨s0.blocks[l], List.getElem?_eq_getElem hl⟩
      refine (updateParent_spec l (some 0) (Evo.refl hr) hbl (fun q hq => by injection hq with hq; omega)).bind ?_
      intro _ s1 ⟨ev1, hl1, _, _⟩
      obtain ⟨br, hbr⟩ : ∃ b, s1.blocks[r]? = some b :=
        ⟨s1.blocks[r]'(by rw [hl1]; exact hrr), List.getElem?_eq_getElem _⟩
      refine (updateParent_spec r (some 0) ev1 hbr (fun q hq => by injection hq with hq; omega)).bind ?_
      intro _ s2 ⟨ev2, _, _, _⟩
      exact Ok.pure ⟨_, ev2⟩
    · intro _ s1 ⟨W, ev⟩
      have := finish s1 W ev
      simp only [hn, Node.setParent] at this
      exact this

theorem removeInternal_run (i : Nat) (s : Blob) :
    removeInternal i s = (.ok (), { s with free := freeInsert s.free i }) := rfl

theorem deleteSplice_ok (s0 : Blob) (pi gi sibIdx : Nat) (sib : Block) (hr : RangeP s0)
    (hs : sibIdx < s0.blocks.length) {dg : Bool} {gh : Hash} {gp : Option Nat} {gl gr : Nat}
    (hg : s0.blocks[gi]? = some { dirty := dg, node := .internal gh gp gl gr }) (hc : pi = gl ∨ pi = gr) :
    Ok (deleteSplice pi gi sibIdx sib) s0 (fun _ _ => True) := by
  have hgi : gi < s0.blocks.length := (List.getElem?_eq_some_iff.mp hg).1
  have hgp : ∀ q, gp = some q → q < s0.blocks.length := fun q hq => hr gi _ hg q (by simp [Node.parent, hq])
  unfold deleteSplice
  let s1 : Blob := { s0 with free := freeInsert s0.free pi }
  have hr1 : RangeP s1 := hr.congr rfl
  refine Ok.bind (Q := fun _ s' => s' = s1) ⟨(), s1, rfl, rfl⟩ ?_
  intro _ s' hs'; rw [hs']
  have hg1 : s1.blocks[gi]? = some { dirty := dg, node := .internal gh gp gl gr } := hg
  refine (getBlock_spec hg1).bind ?_
  rintro gb s2 ⟨e1, e2⟩
  rw [e1, e2]
  refine (writeBlock_spec sibIdx _ (Evo.refl hr1) hs (fun q hq => by
    have : q = gi := by cases hn : sib.node <;> simp [hn, Node.setParent, Node.parent] at hq <;> exact hq.symm
    rw [this]; exact hgi)).bind ?_
  intro _ s3 ⟨ev3, hl3, _, _⟩
  simp only
  have hgi3 : gi < s3.blocks.length := by rw [hl3]; exact hgi
  have fin : ∀ (nb : Block), (∀ q, nb.node.parent = some q → q < s3.blocks.length) →
      Ok (do writeBlock gi nb; markLineageDirty gi) s3 (fun _ _ => True) := by
    intro nb hnb
    refine (writeBlock_spec gi nb ev3 hgi3 hnb).bind ?_
    intro _ s4 ⟨ev4, hl4, _, _⟩
    exact markLineageDirty_ok gi s4 ev4.range (by rw [hl4]; exact hgi3)
  by_cases h1 : pi = gl
  · rw [if_pos h1]
    exact fin _ (fun q hq => by rw [hl3]; exact hgp q (by simpa [Node.parent] using hq))
  · rw [if_neg h1, if_pos (hc.resolve_left h1)]
    exact fin _ (fun q hq => by rw [hl3]; exact hgp q (by simpa [Node.parent] using hq))

theorem LInv.parent_of {s : Blob} (hinv : LInv s) {i : Nat} {b : Block} {p : Nat} (hi : i ∉ s.free)
    (hb : s.blocks[i]? = some b) (hp : b.node.parent = some p) :
    p ∉ s.free ∧ ∃ d' ph pp pl pr,
      s.blocks[p]? = some { dirty := d', node := .internal ph pp pl pr } ∧ (i = pl ∨ i = pr) := by
  have hil : i < s.blocks.length := (List.getElem?_eq_some_iff.mp hb).1
  have := (hinv.node i hil hi).2.1
  simp only [okParent, hb, hp] at this
  refine ⟨this.1, ?_⟩
  have h2 := this.2
  split at h2
  · rename_i d' ph pp pl pr heq
    exact ⟨_, _, _, _, _, heq, h2⟩
  · exact absurd h2 id

theorem clear_run (s : Blob) : clear s = (.ok (), Blob.empty) := rfl

/-- `delete` after the cache entry is removed: cannot fail on a locally well-formed state -/
theorem deleteAt_ok {s : Blob} (hinv : LInv s) (i : Nat) {d : Bool} {hh : Hash} {p : Option Nat}
    {k : KeyId} {v : ValueId} (hi : i ∉ s.free)
    (hb : s.blocks[i]? = some { dirty := d, node := .leaf hh p k v })
    (s0 : Blob) (hbl : s0.blocks = s.blocks) (hfr : s0.free = freeInsert s.free i) :
    Ok (deleteAt i p) s0 (fun _ _ => True) := by
  have hil : i < s.blocks.length := (List.getElem?_eq_some_iff.mp hb).1
  have hr0 : RangeP s0 := hinv.rangeP.congr hbl.symm
  cases p with
  | none => exact ⟨(), Blob.empty, rfl, trivial⟩
  | some pi =>
    obtain ⟨hpf, d', ph, pp, pl, pr, hpb, hch⟩ := hinv.parent_of hi hb rfl
    obtain ⟨hpl, hpr, hplf, hprf, hne⟩ := hinv.children hpf hpb
    unfold deleteAt
    simp only [getNode]
    have hpb0 : s0.blocks[pi]? = some { dirty := d', node := .internal ph pp pl pr } := by rw [hbl]; exact hpb
    refine Ok.bind (Q := fun r s' => r = Node.internal ph pp pl pr ∧ s' = s0) ?_ ?_
    · refine (getBlock_spec hpb0).bind ?_
      rintro r s1 ⟨h1, h2⟩
      rw [h1, h2]; exact Ok.pure ⟨rfl, rfl⟩
    · rintro r s1 ⟨h1, h2⟩
      rw [h1, h2]
      simp only
      rw [if_neg (by
        intro hc
        rcases hch with e | e
        · exact hc.2 e
        · exact hc.1 e)]
      -- the sibling
      have hsib : (if i = pr then pl else pr) < s.blocks.length ∧ (if i = pr then pl else pr) ∉ s.free
          ∧ (if i = pr then pl else pr) ≠ i := by
        by_cases e : i = pr
        · rw [if_pos e]; exact ⟨hpl, hplf, fun e2 => hne (e2.trans e)⟩
        · rw [if_neg e]; exact ⟨hpr, hprf, fun e2 => e e2.symm⟩
      generalize (if i = pr then pl else pr) = sibIdx at hsib
      obtain ⟨hsl, hsf, hsne⟩ := hsib
      obtain ⟨sib, hsb⟩ : ∃ b, s.blocks[sibIdx]? = some b := ⟨s.blocks[sibIdx], List.getElem?_eq_getElem hsl⟩
      have hsb0 : s0.blocks[sibIdx]? = some sib := by rw [hbl]; exact hsb
      refine (getBlock_spec hsb0).bind ?_
      rintro r2 s2 ⟨h3, h4⟩
      rw [h3, h4]
      have hsf0 : sibIdx ∉ s0.free := by
        rw [hfr, mem_freeInsert]; rintro (h | h)
        · exact hsf h
        · exact hsne h
      cases pp with
      | none =>
        simp only
        have h0 : 0 < s.blocks.length := Nat.lt_of_le_of_lt (Nat.zero_le _) hil
        have hroot := hinv.root
        simp only [rootOk, List.getElem?_eq_getElem h0] at hroot
        have h0i : (0 : Nat) ≠ i := by
          intro e
          have hb' := hb
          rw [← e, List.getElem?_eq_getElem h0] at hb'
          injection hb' with hb'
          have := hroot.2
          rw [hb'] at this
          simp [Node.parent] at this
        have h0f : 0 ∉ s0.free := by
          rw [hfr, mem_freeInsert]; rintro (h | h)
          · exact hroot.1 h
          · exact h0i h
        refine deletePromoteRoot_ok s0 sibIdx sib hr0 (by rw [hbl]; exact h0) hsf0 h0f ?_
        intro h' p' l r hn
        have hsb' : s.blocks[sibIdx]? = some { dirty := sib.dirty, node := .internal h' p' l r } := by
          rw [hsb, ← hn]
        obtain ⟨a, b, _⟩ := hinv.children hsf hsb'
        rw [hbl]; exact ⟨a, b⟩
      | some gi =>
        simp only
        obtain ⟨_, dg, gh, gp, gl, gr, hgb, hgc⟩ := hinv.parent_of hpf hpb rfl
        exact deleteSplice_ok s0 pi gi sibIdx sib hr0 (by rw [hbl]; exact hsl) (by rw [hbl]; exact hgb) hgc

/-- `delete`: either nothing is touched or it succeeds -/
theorem delete_keepOrOk {s : Blob} (hinv : LInv s) (key : KeyId) : KeepOrOk (delete key) s := by
  unfold delete
  cases hg : mapGet s.k2i key with
  | none =>
    left
    show ((getLeafByKey key >>= _) s).2 = s
    rw [bind_run, getLeafByKey_run, hg]
  | some i =>
    obtain ⟨hif, d, hh, p, v, hb⟩ := hinv.key_leaf hg
    right
    refine Ok.bind (Q := fun r s' => r = (i, Node.leaf hh p key v) ∧ s' = s) ?_ ?_
    · exact ⟨_, s, by rw [getLeafByKey_run, hg]; simp only [hb], rfl, rfl⟩
    · rintro r s1 ⟨h1, h2⟩
      rw [h1, h2]
      simp only [Node.hash, Node.parent]
      refine Ok.bind (Q := fun _ s' => s'.blocks = s.blocks ∧ s'.free = freeInsert s.free i) ?_ ?_
      · exact ⟨(), { s with k2i := mapErase s.k2i key, h2i := mapErase s.h2i hh, free := freeInsert s.free i },
          by rw [removeLeaf_run, hg], rfl, rfl⟩
      · intro _ s2 ⟨hbl, hfr⟩
        exact deleteAt_ok hinv i hif hb s2 hbl hfr

end ChiaModel.Blob
