import ChiaModel.Model.Ints
namespace ChiaModel

theorem be_succ (n v : Nat) : be (n+1) v = (v / 256 ^ n % 256) :: be n v := by
  simp [be, List.range_succ]

theorem be_length (n v : Nat) : (be n v).length = n := by simp [be]

theorem be_drop (n k v : Nat) (h : k ≤ n) : (be n v).drop k = be (n - k) v := by
  induction k generalizing n with
  | zero => simp
  | succ k ih =>
    obtain ⟨m, rfl⟩ : ∃ m, n = m + 1 := ⟨n - 1, by omega⟩
    rw [be_succ, List.drop_succ_cons, ih m (by omega)]
    congr 1; omega

theorem be_isBytes (n v : Nat) : isBytes (be n v) := by
  intro x hx
  simp [be] at hx
  obtain ⟨a, _, rfl⟩ := hx
  exact Nat.mod_lt _ (by decide)

theorem beVal_append_one (b : Bytes) (x : Nat) : beVal (b ++ [x]) = beVal b * 256 + x := by
  simp [beVal, List.foldl_append]

theorem beVal_cons (x : Nat) (b : Bytes) : beVal (x :: b) = x * 256 ^ b.length + beVal b := by
  unfold beVal
  suffices h : ∀ (acc : Nat), List.foldl (fun acc x => acc * 256 + x) acc b
      = acc * 256 ^ b.length + List.foldl (fun acc x => acc * 256 + x) 0 b by
    simp only [List.foldl_cons]; rw [h]; simp
  induction b with
  | nil => simp
  | cons y t ih =>
    intro acc
    simp only [List.foldl_cons, List.length_cons]
    rw [ih (acc * 256 + y), ih (0 * 256 + y)]
    simp [Nat.pow_succ, Nat.add_mul, Nat.mul_assoc, Nat.add_assoc]
    rw [Nat.mul_comm (256 ^ t.length) 256]

theorem beVal_be (n v : Nat) (h : v < 256 ^ n) : beVal (be n v) = v := by
  induction n generalizing v with
  | zero => simp [be, beVal] at *; omega
  | succ n ih =>
    rw [be_succ, beVal_cons, be_length]
    have h1 : v / 256 ^ n < 256 := by
      rw [Nat.div_lt_iff_lt_mul (Nat.pow_pos (by decide))]; rw [Nat.pow_succ] at h; rw [Nat.mul_comm]; exact h
    rw [Nat.mod_eq_of_lt h1]
    have h2 : v % 256 ^ n < 256 ^ n := Nat.mod_lt _ (Nat.pow_pos (by decide))
    have : be n v = be n (v % 256 ^ n) := by
      simp only [be]
      apply List.map_congr_left
      intro i hi
      simp at hi
      have : 256 ^ n = 256 ^ i * 256 ^ (n - i) := by rw [← Nat.pow_add]; congr 1; omega
      rw [this, Nat.mod_mul_right_div_self]
      have h256 : 256 ^ (n - i) = 256 * 256 ^ (n - i - 1) := by
        rw [← Nat.pow_succ']; congr 1; omega
      rw [h256, Nat.mod_mul_right_mod]
    rw [this, ih _ h2]
    have := Nat.div_add_mod v (256 ^ n)
    rw [Nat.mul_comm] at this; exact this

end ChiaModel

namespace ChiaModel

@[simp] theorem be_zero (v : Nat) : be 0 v = [] := by simp [be]

theorem beVal_lt (b : Bytes) (hb : isBytes b) : beVal b < 256 ^ b.length := by
  induction b with
  | nil => simp [beVal]
  | cons x t ih =>
    rw [beVal_cons]
    have hx : x < 256 := hb x (by simp)
    have ht := ih (fun y hy => hb y (by simp [hy]))
    simp only [List.length_cons, Nat.pow_succ]
    have : x * 256 ^ t.length + 256 ^ t.length ≤ 256 ^ t.length * 256 := by
      rw [Nat.mul_comm (256 ^ t.length) 256, ← Nat.succ_mul]; exact Nat.mul_le_mul_right _ hx
    omega

theorem beVal_ge_head (x : Nat) (t : Bytes) : x * 256 ^ t.length ≤ beVal (x :: t) := by
  rw [beVal_cons]; omega

theorem intOfBytes_of_head (b : Bytes) (h : headGe128 b = false) : intOfBytes b = (beVal b : Int) := by
  cases b with
  | nil => simp [intOfBytes, beVal]
  | cons x t => simp [headGe128] at h; simp [intOfBytes]; omega

end ChiaModel
