import ChiaModel.Lemmas.BlobInv
/-
C18, level L2: `upsert` preserves the local invariant.
-/
namespace ChiaModel.Blob
open M

theorem freeInsert_erase (fr : List Nat) (i : Nat) (h : i ∉ fr) : (freeInsert fr i).erase i = fr := by
  unfold freeInsert
  rw [if_neg h]
  induction fr with
  | nil => simp
  | cons a fr ih =>
    simp only [List.mem_cons, not_or] at h
    rw [List.cons_append, List.erase_cons_tail (by simpa using fun e => h.1 e.symm), ih h.2]

theorem length_erase_insert {κ : Type} [DecidableEq κ] (m : List (κ × Nat)) (k : κ) (i j : Nat)
    (hn : (m.map (·.1)).Nodup) (hg : mapGet m k = some j) :
    (mapInsert (mapErase m k) k i).length = m.length := by
  induction m with
  | nil => simp [mapGet] at hg
  | cons x m ih =>
    obtain ⟨k', i'⟩ := x
    simp only [List.map_cons, List.nodup_cons] at hn
    simp only [mapGet] at hg
    by_cases hk : k' = k
    · subst hk
      have hnot : k' ∉ m.map (·.1) := hn.1
      have hfil : m.filter (fun e => e.1 ≠ k') = m := by
        rw [List.filter_eq_self]
        intro e he
        simp only [ne_eq, decide_eq_true_eq]
        intro e'
        exact hnot (by rw [← e']; exact List.mem_map_of_mem (f := (·.1)) he)
      simp only [mapInsert, mapErase, List.filter_filter, List.length_cons]
      rw [List.filter_cons_of_neg (by simp)]
      simp only [Bool.and_self]
      rw [hfil]
    · rw [if_neg hk] at hg
      have := ih hn.2 hg
      simp only [mapInsert, mapErase, List.filter_filter, List.length_cons, Bool.and_self] at this ⊢
      rw [List.filter_cons_of_pos (by simpa using hk)]
      simp only [List.length_cons]
      omega

theorem mapGet_erase_ne {κ : Type} [DecidableEq κ] (m : List (κ × Nat)) (k k' : κ) (h : k' ≠ k) :
    mapGet (mapErase m k) k' = mapGet m k' := mapGet_filter_ne m k k' h

/-- the blob after the leaf rewrite of `upsert` (before dirty marking) -/
def upsState (s : Blob) (idx : Nat) (d : Bool) (oh newHash : Hash) (p : Option Nat) (key : KeyId) (value : ValueId) : Blob :=
  ({ s with k2i := mapErase s.k2i key, h2i := mapErase s.h2i oh, free := freeInsert s.free idx } : Blob).write idx
    { dirty := d, node := .leaf newHash p key value }

theorem upsState_linv {s : Blob} (hinv : LInv s) (idx : Nat) (d : Bool) (oh newHash : Hash) (p : Option Nat)
    (key : KeyId) (v0 value : ValueId) (hg : mapGet s.k2i key = some idx)
    (hb : s.blocks[idx]? = some { dirty := d, node := .leaf oh p key v0 })
    (hc : mapGet s.h2i newHash = none ∨ mapGet s.h2i newHash = some idx) :
    LInv (upsState s idx d oh newHash p key value) := by
  have hif : idx ∉ s.free := (hinv.key_leaf hg).1
  have hil : idx < s.blocks.length := (List.getElem?_eq_some_iff.mp hb).1
  obtain ⟨ck, chh⟩ := hinv.leaf_cached hif hb
  -- the state, pointwise
  have eB : ∀ j, (upsState s idx d oh newHash p key value).blocks[j]?
      = if j = idx then some { dirty := d, node := .leaf newHash p key value } else s.blocks[j]? := by
    intro j
    simp only [upsState]
    rw [write_get _ _ _ (by exact hil)]
  have eL : (upsState s idx d oh newHash p key value).blocks.length = s.blocks.length := by
    simp only [upsState]; rw [write_len _ _ _ (by exact hil)]
  have eF : (upsState s idx d oh newHash p key value).free = s.free := by
    simp only [upsState, write_free]; exact freeInsert_erase _ _ hif
  have eK : (upsState s idx d oh newHash p key value).k2i = mapInsert (mapErase s.k2i key) key idx := rfl
  have eH : (upsState s idx d oh newHash p key value).h2i = mapInsert (mapErase s.h2i oh) newHash idx := rfl
  have eLen : (upsState s idx d oh newHash p key value).k2i.length = s.k2i.length := by
    rw [eK]; exact length_erase_insert _ _ _ _ hinv.keysNodup hg
  have eP : ∀ j, parentOf (upsState s idx d oh newHash p key value) j = parentOf s j := by
    intro j
    by_cases hj : j = idx
    · simp only [parentOf]; rw [eB j, if_pos hj, hj, hb]; rfl
    · simp only [parentOf]; rw [eB j, if_neg hj]
  generalize upsState s idx d oh newHash p key value = T at *
  have bIdx : T.blocks[idx]? = some { dirty := d, node := .leaf newHash p key value } := by rw [eB idx, if_pos rfl]
  have bOther : ∀ j, j ≠ idx → T.blocks[j]? = s.blocks[j]? := fun j hj => by rw [eB j, if_neg hj]
  have notInternal : ∀ q dq qh qp ql qr, s.blocks[q]? = some { dirty := dq, node := .internal qh qp ql qr } → q ≠ idx := by
    intro q dq qh qp ql qr hq e
    rw [e, hb] at hq; injection hq with hq; injection hq with _ hn; cases hn
  -- the parent clause only looks at the parent's block, which is unchanged
  have parentBlock : ∀ (j q : Nat),
      (match s.blocks[q]? with
        | some { node := .internal _ _ l r, .. } => j = l ∨ j = r
        | _ => False) →
      (match T.blocks[q]? with
        | some { node := .internal _ _ l r, .. } => j = l ∨ j = r
        | _ => False) := by
    intro j q hq
    cases hsq : s.blocks[q]? with
    | none => rw [hsq] at hq; exact absurd hq id
    | some bq =>
      obtain ⟨dq, nq⟩ := bq
      cases nq with
      | leaf _ _ _ _ => rw [hsq] at hq; exact absurd hq id
      | internal qh qp ql qr =>
        rw [bOther q (notInternal q dq qh qp ql qr hsq), hsq]
        rw [hsq] at hq; exact hq
  refine ⟨by rw [eF, eL]; exact hinv.freeLt, by rw [eF]; exact hinv.freeNodup, ?_, ?_, ?_, ?_, ?_, ?_⟩
  · intro j hj
    rw [eL] at hj
    have := hinv.parentRange j hj
    by_cases hji : j = idx
    · rw [hji] at this ⊢
      simp only [parentInRange, hb, bIdx, Node.parent, eL] at this ⊢
      exact this
    · simp only [parentInRange, bOther j hji, eL] at this ⊢
      exact this
  · have := hinv.root
    by_cases h0 : 0 = idx
    · subst h0
      simp only [rootOk, hb, bIdx, Node.parent, eF] at this ⊢
      exact this
    · simp only [rootOk, bOther 0 h0, eF] at this ⊢
      exact this
  · intro j hj hjf
    rw [eL] at hj; rw [eF] at hjf
    obtain ⟨c1, c2, c3⟩ := hinv.node j hj hjf
    by_cases hji : j = idx
    · rw [hji] at c2 ⊢
      refine ⟨by simp only [okChildren, bIdx], ?_, ?_⟩
      · simp only [okParent, hb, bIdx, Node.parent, Node.isLeaf, eF, eLen] at c2 ⊢
        cases p with
        | none => exact c2
        | some q =>
          simp only at c2 ⊢
          exact ⟨c2.1, parentBlock idx q c2.2⟩
      · simp only [okLeaf, bIdx, eK, eH]
        exact ⟨mapGet_insert_self _ _ _, mapGet_insert_self _ _ _⟩
    · refine ⟨?_, ?_, ?_⟩
      · simp only [okChildren, bOther j hji, eL, eF, eP] at c1 ⊢; exact c1
      · simp only [okParent, bOther j hji, eF, eLen] at c2 ⊢
        cases hbj : s.blocks[j]? with
        | none => trivial
        | some bj =>
          rw [hbj] at c2
          simp only at c2 ⊢
          cases hpj : bj.node.parent with
          | none => rw [hpj] at c2; exact c2
          | some q =>
            rw [hpj] at c2
            simp only at c2 ⊢
            exact ⟨c2.1, parentBlock j q c2.2⟩
      · simp only [okLeaf, bOther j hji, eK, eH] at c3 ⊢
        cases hbj : s.blocks[j]? with
        | none => trivial
        | some bj =>
          obtain ⟨dj, nj⟩ := bj
          cases nj with
          | internal _ _ _ _ => trivial
          | leaf hh pj kk vv =>
            rw [hbj] at c3
            simp only at c3 ⊢
            have n1 : kk ≠ key := by
              intro e; rw [e, hg] at c3; injection c3.1 with e'; exact hji e'.symm
            have n2 : hh ≠ oh := by
              intro e; rw [e, chh] at c3; injection c3.2 with e'; exact hji e'.symm
            have n3 : hh ≠ newHash := by
              intro e
              rw [e] at c3
              rcases hc with hc | hc
              · rw [hc] at c3; cases c3.2
              · rw [hc] at c3; injection c3.2 with e'; exact hji e'.symm
            rw [mapGet_insert_ne _ _ _ _ n1, mapGet_erase_ne _ _ _ n1, mapGet_insert_ne _ _ _ _ n3,
              mapGet_erase_ne _ _ _ n2]
            exact c3
  · intro e he
    rw [eK] at he
    rcases mem_mapInsert _ _ _ _ he with e1 | ⟨he2, _⟩
    · subst e1
      exact okKey_intro (d := d) (hh := newHash) (p := p) (v := value) (by rw [eF]; exact hif) bIdx
    · have he3 := List.mem_filter.mp he2
      simp only [ne_eq, decide_eq_true_eq] at he3
      obtain ⟨hf, d0, hh0, p0, v0', hb0⟩ := okKey_elim (hinv.keys e he3.1)
      have : e.2 ≠ idx := by
        intro e'; rw [e', hb] at hb0; injection hb0 with hb0; injection hb0 with _ hn
        injection hn with _ _ e3 _; exact he3.2 e3.symm
      refine okKey_intro (d := d0) (hh := hh0) (p := p0) (v := v0') (by rw [eF]; exact hf) ?_
      rw [bOther e.2 this]; exact hb0
  · intro e he
    rw [eH] at he
    rcases mem_mapInsert _ _ _ _ he with e1 | ⟨he2, hne⟩
    · subst e1
      exact okHash_intro (d := d) (p := p) (k := key) (v := value) (by rw [eF]; exact hif) bIdx
    · have he3 := List.mem_filter.mp he2
      simp only [ne_eq, decide_eq_true_eq] at he3
      obtain ⟨hf, d0, p0, k0, v0', hb0⟩ := okHash_elim (hinv.hashes e he3.1)
      have : e.2 ≠ idx := by
        intro e'; rw [e', hb] at hb0; injection hb0 with hb0; injection hb0 with _ hn
        injection hn with e3 _ _ _; exact he3.2 e3.symm
      refine okHash_intro (d := d0) (p := p0) (k := k0) (v := v0') (by rw [eF]; exact hf) ?_
      rw [bOther e.2 this]; exact hb0
  · rw [eK]
    exact mapInsert_keys_nodup _ _ _ (hinv.keysNodup.sublist ((List.filter_sublist).map _))

/-- **`upsert` keeps the local invariant**, whatever it returns -/
theorem upsert_linv {s : Blob} (hinv : LInv s) (key : KeyId) (value : ValueId) (newHash : Hash) :
    LInv (upsert key value newHash s).2 := by
  have hins : LInv ((do let _ ← insert key value newHash .auto; pure () : M Unit) s).2 := by
    rw [bind_pure_snd]; exact insert_linv hinv key value newHash .auto (Or.inl rfl)
  unfold upsert
  simp only [bind_run, M.get]
  cases hg : mapGet s.k2i key with
  | none => exact hins
  | some idx =>
    simp only
    cases hb : s.blocks[idx]? with
    | none => exact hins
    | some b =>
      obtain ⟨d, n⟩ := b
      cases n with
      | internal hh p l r => exact hinv
      | leaf oh p k0 v0 =>
        simp only
        obtain ⟨hif, d1, hh1, p1, v1, hb1⟩ := hinv.key_leaf hg
        rw [hb] at hb1
        injection hb1 with hb1; injection hb1 with _ hn; injection hn with _ _ ek _
        subst ek
        have hil : idx < s.blocks.length := (List.getElem?_eq_some_iff.mp hb).1
        -- the accepted case, as a function of the hash-cache lookup
        have accepted : (mapGet s.h2i newHash = none ∨ mapGet s.h2i newHash = some idx) →
            LInv ((do
              removeLeaf k0 oh
              writeBlock idx { dirty := d, node := .leaf newHash p k0 value }
              match p with
              | some pi => markLineageDirty pi
              | none => pure () : M Unit) s).2 := by
          intro hc
          have hT := upsState_linv hinv idx d oh newHash p k0 v0 value hg hb hc
          simp only [bind_run, removeLeaf_run, hg, writeBlock_run]
          rw [if_neg (by simp only [gt_iff_lt, Nat.not_lt]; exact Nat.le_of_lt hil)]
          simp only
          cases p with
          | none =>
            show LInv (upsState s idx d oh newHash none k0 value)
            exact hT
          | some pi =>
            show LInv (markLineageDirty pi (upsState s idx d oh newHash (some pi) k0 value)).2
            obtain ⟨hpf, dp, ph, pp, pl, pr, hpb, _⟩ := hinv.parent_of hif hb rfl
            have hne : pi ≠ idx := by
              intro e; rw [e, hb] at hpb; injection hpb with hpb; injection hpb with _ hn; cases hn
            apply markLineageDirty_linv pi _ hT
            · simp only [upsState, write_free]; rw [freeInsert_erase _ _ hif]; exact hpf
            · refine ⟨dp, ph, pp, pl, pr, ?_⟩
              simp only [upsState]
              rw [write_get _ _ _ (by exact hil), if_neg hne]; exact hpb
        cases hm : mapGet s.h2i newHash with
        | none =>
          simp only [Bool.false_eq_true, if_false]
          exact accepted (Or.inl hm)
        | some other =>
          simp only
          by_cases ho : other = idx
          · simp only [ho, ne_eq, not_true_eq_false, decide_false, Bool.false_eq_true, if_false]
            exact accepted (Or.inr (by rw [hm, ho]))
          · simp only [ne_eq, ho, not_false_eq_true, decide_true, if_true]
            exact hinv

end ChiaModel.Blob
