import ChiaModel.Lemmas.Deser
import ChiaModel.Props.C11
/-
C17: parsing back the plain serialisation of an atom (all five length-prefix classes).
-/
namespace ChiaModel.TreeHash
open ChiaModel

/-- the bytes an atom node shows -/
def nodeBytes : Node → Bytes
  | .atom b => b
  | .small v => smallBytes v
  | .pair _ _ => []

theorem or80 : ∀ s, s < 64 → 0x80 ||| s = 0x80 + s := by decide
theorem orc0 : ∀ s, s < 32 → 0xc0 ||| s = 0xc0 + s := by decide
theorem ore0 : ∀ s, s < 16 → 0xe0 ||| s = 0xe0 + s := by decide
theorem orf0 : ∀ s, s < 8 → 0xf0 ||| s = 0xf0 + s := by decide
theorem orf8 : ∀ s, s < 4 → 0xf8 ||| s = 0xf8 + s := by decide

theorem take_app (b rest : Bytes) : (b ++ rest).take b.length = b := by simp
theorem drop_app (b rest : Bytes) : (b ++ rest).drop b.length = rest := by simp

theorem parseBody_k1 (n : Nat) (b rest : Bytes) (h0 : 0 < n) (h1 : n < 64) (hn : b.length = n) :
    Sexp.parseAtomBody (0x80 + n) (b ++ rest) = some (b, rest) := by
  subst hn
  have hk : Sexp.leadingOnes (0x80 + b.length) = 1 := by
    simp only [Sexp.leadingOnes]; rw [if_neg (by omega), if_pos (by omega)]
  simp only [Sexp.parseAtomBody, hk]
  rw [if_neg (by omega), if_neg (by omega)]
  have hf : (0x80 + b.length) % (256 >>> 1) = b.length := by
    have : (256 >>> 1) = 128 := by decide
    rw [this]; omega
  simp only [hf, Nat.sub_self, List.take_zero, List.length_nil, Nat.lt_irrefl, if_false, List.drop_zero]
  have hv : beVal [b.length] = b.length := by simp [beVal]
  rw [hv, if_neg (by omega), take_app, if_neg (by omega), drop_app]

theorem parseBody_k2 (hi lo : Nat) (b rest : Bytes) (h1 : hi < 32) (h2 : lo < 256)
    (hn : b.length = hi * 256 + lo) :
    Sexp.parseAtomBody (0xc0 + hi) (lo :: (b ++ rest)) = some (b, rest) := by
  have hk : Sexp.leadingOnes (0xc0 + hi) = 2 := by
    simp only [Sexp.leadingOnes]; rw [if_neg (by omega), if_neg (by omega), if_pos (by omega)]
  simp only [Sexp.parseAtomBody, hk]
  rw [if_neg (by omega), if_neg (by omega)]
  have hf : (0xc0 + hi) % (256 >>> 2) = hi := by
    have : (256 >>> 2) = 64 := by decide
    rw [this]; omega
  simp only [hf, List.take_succ_cons, List.take_zero, List.length_cons, List.length_nil, Nat.lt_irrefl, if_false,
    List.drop_succ_cons, List.drop_zero, Nat.reduceSub]
  have hv : beVal [hi, lo] = b.length := by simp [beVal]; omega
  rw [hv, if_neg (by omega), take_app, if_neg (by omega), drop_app]

theorem parseBody_k3 (hi m1 m0 : Nat) (b rest : Bytes) (h1 : hi < 16) (h2 : m1 < 256) (h3 : m0 < 256)
    (hn : b.length = (hi * 256 + m1) * 256 + m0) :
    Sexp.parseAtomBody (0xe0 + hi) (m1 :: m0 :: (b ++ rest)) = some (b, rest) := by
  have hk : Sexp.leadingOnes (0xe0 + hi) = 3 := by
    simp only [Sexp.leadingOnes]
    rw [if_neg (by omega), if_neg (by omega), if_neg (by omega), if_pos (by omega)]
  simp only [Sexp.parseAtomBody, hk]
  rw [if_neg (by omega), if_neg (by omega)]
  have hf : (0xe0 + hi) % (256 >>> 3) = hi := by
    have : (256 >>> 3) = 32 := by decide
    rw [this]; omega
  simp only [hf, List.take_succ_cons, List.take_zero, List.length_cons, List.length_nil, Nat.lt_irrefl, if_false,
    List.drop_succ_cons, List.drop_zero, Nat.reduceSub]
  have hv : beVal [hi, m1, m0] = b.length := by simp [beVal]; omega
  rw [hv, if_neg (by omega), take_app, if_neg (by omega), drop_app]

theorem parseBody_k4 (hi m2 m1 m0 : Nat) (b rest : Bytes) (h1 : hi < 8) (h2 : m2 < 256) (h3 : m1 < 256)
    (h4 : m0 < 256) (hn : b.length = ((hi * 256 + m2) * 256 + m1) * 256 + m0) :
    Sexp.parseAtomBody (0xf0 + hi) (m2 :: m1 :: m0 :: (b ++ rest)) = some (b, rest) := by
  have hk : Sexp.leadingOnes (0xf0 + hi) = 4 := by
    simp only [Sexp.leadingOnes]
    rw [if_neg (by omega), if_neg (by omega), if_neg (by omega), if_neg (by omega), if_pos (by omega)]
  simp only [Sexp.parseAtomBody, hk]
  rw [if_neg (by omega), if_neg (by omega)]
  have hf : (0xf0 + hi) % (256 >>> 4) = hi := by
    have : (256 >>> 4) = 16 := by decide
    rw [this]; omega
  simp only [hf, List.take_succ_cons, List.take_zero, List.length_cons, List.length_nil, Nat.lt_irrefl, if_false,
    List.drop_succ_cons, List.drop_zero, Nat.reduceSub]
  have hv : beVal [hi, m2, m1, m0] = b.length := by simp [beVal]; omega
  rw [hv, if_neg (by omega), take_app, if_neg (by omega), drop_app]

theorem parseBody_k5 (hi m3 m2 m1 m0 : Nat) (b rest : Bytes) (h1 : hi < 4) (h2 : m3 < 256) (h3 : m2 < 256)
    (h4 : m1 < 256) (h5 : m0 < 256) (hn : b.length = (((hi * 256 + m3) * 256 + m2) * 256 + m1) * 256 + m0) :
    Sexp.parseAtomBody (0xf8 + hi) (m3 :: m2 :: m1 :: m0 :: (b ++ rest)) = some (b, rest) := by
  have hk : Sexp.leadingOnes (0xf8 + hi) = 5 := by
    simp only [Sexp.leadingOnes]
    rw [if_neg (by omega), if_neg (by omega), if_neg (by omega), if_neg (by omega), if_neg (by omega), if_pos (by omega)]
  simp only [Sexp.parseAtomBody, hk]
  rw [if_neg (by omega), if_neg (by omega)]
  have hf : (0xf8 + hi) % (256 >>> 5) = hi := by
    have : (256 >>> 5) = 8 := by decide
    rw [this]; omega
  simp only [hf, List.take_succ_cons, List.take_zero, List.length_cons, List.length_nil, Nat.lt_irrefl, if_false,
    List.drop_succ_cons, List.drop_zero, Nat.reduceSub]
  have hv : beVal [hi, m3, m2, m1, m0] = b.length := by simp [beVal]; omega
  rw [hv, if_neg (by omega), take_app, if_neg (by omega), drop_app]

/-! ### `new_atom`: the small-atom representation shows the same bytes -/

theorem ite_none_some {c : Prop} [Decidable c] {α : Type} {a v : α}
    (h : (if c then none else some a) = some v) : ¬ c ∧ a = v := by
  by_cases hc : c
  · rw [if_pos hc] at h; cases h
  · rw [if_neg hc] at h; exact ⟨hc, Option.some.inj h⟩

theorem fits_smallBytes (b : Bytes) (hb : isBytes b) (v : Nat) (h : fitsInSmallAtom b = some v) :
    smallBytes v = b := by
  unfold fitsInSmallAtom at h
  match b, hb, h with
  | [], _, h => cases h; decide
  | [x], hb, h =>
    have hx : x < 256 := hb x (by simp)
    simp only [List.length_cons, List.length_nil, List.headD_nil] at h
    obtain ⟨hc, hv0⟩ := ite_none_some h
    · subst hv0
      have hv : beVal [x] = x := by simp [beVal]
      have : lenForValue x = 1 := by
        simp only [lenForValue]; rw [if_neg (by omega), if_pos (by omega)]
      rw [smallBytes, hv, this]
      have := C11.be_beVal [x] hb
      rwa [hv] at this
  | [x, y], hb, h =>
    have hx : x < 256 := hb x (by simp)
    have hy : y < 256 := hb y (by simp)
    simp only [List.length_cons, List.length_nil, List.headD_cons] at h
    obtain ⟨hc, hv0⟩ := ite_none_some h
    · subst hv0
      have hv : beVal [x, y] = x * 256 + y := by simp [beVal]
      have : lenForValue (x * 256 + y) = 2 := by
        simp only [lenForValue]; rw [if_neg (by omega), if_neg (by omega), if_pos (by omega)]
      rw [smallBytes, hv, this]
      have := C11.be_beVal [x, y] hb
      rwa [hv] at this
  | [x, y, z], hb, h =>
    have hx : x < 256 := hb x (by simp)
    have hy : y < 256 := hb y (by simp)
    have hz : z < 256 := hb z (by simp)
    simp only [List.length_cons, List.length_nil, List.headD_cons] at h
    obtain ⟨hc, hv0⟩ := ite_none_some h
    · subst hv0
      have hv : beVal [x, y, z] = (x * 256 + y) * 256 + z := by simp [beVal]
      have : lenForValue ((x * 256 + y) * 256 + z) = 3 := by
        simp only [lenForValue]; rw [if_neg (by omega), if_neg (by omega), if_neg (by omega), if_pos (by omega)]
      rw [smallBytes, hv, this]
      have := C11.be_beVal [x, y, z] hb
      rwa [hv] at this
  | [x, y, z, w], hb, h =>
    have hx : x < 256 := hb x (by simp)
    have hy : y < 256 := hb y (by simp)
    have hz : z < 256 := hb z (by simp)
    have hw : w < 256 := hb w (by simp)
    simp only [List.length_cons, List.length_nil, List.headD_cons] at h
    obtain ⟨hc, hv0⟩ := ite_none_some h
    · subst hv0
      have hv : beVal [x, y, z, w] = ((x * 256 + y) * 256 + z) * 256 + w := by simp [beVal]
      have : lenForValue (((x * 256 + y) * 256 + z) * 256 + w) = 4 := by
        simp only [lenForValue]
        rw [if_neg (by omega), if_neg (by omega), if_neg (by omega), if_neg (by omega), if_pos (by omega)]
      rw [smallBytes, hv, this]
      have := C11.be_beVal [x, y, z, w] hb
      rwa [hv] at this
  | x :: y :: z :: w :: u :: t, _, h =>
    simp only [List.length_cons] at h
    rw [if_pos (Or.inl (by omega))] at h
    cases h

theorem newAtom_bytes (b : Bytes) (hb : isBytes b) : nodeBytes (newAtom b) = b := by
  unfold newAtom
  cases h : fitsInSmallAtom b with
  | none => rfl
  | some v => exact fits_smallBytes b hb v h

/-! ### reading back `serAtom` -/

theorem parseAtomNode_serAtom (b rest : Bytes) (hb : isBytes b) (hl : b.length < 0x400000000) :
    ∃ b0 tl nd, Sexp.serAtom b ++ rest = b0 :: tl ∧ b0 ≠ 0xff ∧ b0 ≠ 0xfe ∧
      parseAtomNode b0 tl = some (nd, rest) ∧ nodeBytes nd = b ∧ (∀ l r, nd ≠ Node.pair l r) := by
  -- whatever `parseAtomBody` returns goes through `new_atom`
  have fin : ∀ b0 tl, b0 ≠ 0x01 → b0 ≠ 0x80 → Sexp.parseAtomBody b0 tl = some (b, rest) →
      parseAtomNode b0 tl = some (newAtom b, rest) := by
    intro b0 tl h1 h2 hp
    simp only [parseAtomNode, if_neg h1, if_neg h2, hp]
  unfold Sexp.serAtom Sexp.atomPrefix
  by_cases h0 : b.length = 0
  · have : b = [] := List.eq_nil_of_length_eq_zero h0
    subst this
    refine ⟨0x80, rest, .small 0, by simp, by decide, by decide, by simp [parseAtomNode], by decide, by intro l r h; cases h⟩
  rw [if_neg h0]
  by_cases h1 : b.length = 1 ∧ b.headD 0 < 0x80
  · rw [if_pos h1]
    obtain ⟨x, rfl⟩ : ∃ x, b = [x] := by
      match b, h1.1 with
      | [x], _ => exact ⟨x, rfl⟩
    have hx : x < 0x80 := by simpa using h1.2
    by_cases hone : x = 1
    · subst hone
      exact ⟨1, rest, .small 1, by simp, by decide, by decide, by simp [parseAtomNode], by decide, by intro l r h; cases h⟩
    · refine ⟨x, rest, newAtom [x], by simp, by omega, by omega, ?_, newAtom_bytes _ hb, newAtom_not_pair _⟩
      apply fin x rest hone (by omega)
      simp only [Sexp.parseAtomBody, if_pos hx]
  rw [if_neg h1]
  by_cases h2 : b.length < 0x40
  · rw [if_pos h2]
    have e := or80 b.length h2
    refine ⟨0x80 + b.length, b ++ rest, newAtom b, by simp [e], by omega, by omega, ?_, newAtom_bytes _ hb, newAtom_not_pair _⟩
    exact fin _ _ (by omega) (by omega) (parseBody_k1 b.length b rest (by omega) h2 rfl)
  rw [if_neg h2]
  by_cases h3 : b.length < 0x2000
  · rw [if_pos h3]
    have hs : b.length >>> 8 = b.length / 256 := by simp [Nat.shiftRight_eq_div_pow]
    have e := orc0 (b.length / 256) (by omega)
    refine ⟨0xc0 + b.length / 256, b.length % 256 :: (b ++ rest), newAtom b, by simp [hs, e], by omega, by omega, ?_,
      newAtom_bytes _ hb, newAtom_not_pair _⟩
    exact fin _ _ (by omega) (by omega) (parseBody_k2 _ _ b rest (by omega) (by omega) (by omega))
  rw [if_neg h3]
  by_cases h4 : b.length < 0x100000
  · rw [if_pos h4]
    have hs : b.length >>> 16 = b.length / 65536 := by simp [Nat.shiftRight_eq_div_pow]
    have hs8 : b.length >>> 8 = b.length / 256 := by simp [Nat.shiftRight_eq_div_pow]
    have e := ore0 (b.length / 65536) (by omega)
    refine ⟨0xe0 + b.length / 65536, b.length / 256 % 256 :: b.length % 256 :: (b ++ rest), newAtom b,
      by simp [hs, hs8, e], by omega, by omega, ?_, newAtom_bytes _ hb, newAtom_not_pair _⟩
    exact fin _ _ (by omega) (by omega) (parseBody_k3 _ _ _ b rest (by omega) (by omega) (by omega) (by omega))
  rw [if_neg h4]
  by_cases h5 : b.length < 0x8000000
  · rw [if_pos h5]
    have hs : b.length >>> 24 = b.length / 16777216 := by simp [Nat.shiftRight_eq_div_pow]
    have hs16 : b.length >>> 16 = b.length / 65536 := by simp [Nat.shiftRight_eq_div_pow]
    have hs8 : b.length >>> 8 = b.length / 256 := by simp [Nat.shiftRight_eq_div_pow]
    have e := orf0 (b.length / 16777216) (by omega)
    refine ⟨0xf0 + b.length / 16777216, b.length / 65536 % 256 :: b.length / 256 % 256 :: b.length % 256 :: (b ++ rest),
      newAtom b, by simp [hs, hs16, hs8, e], by omega, by omega, ?_, newAtom_bytes _ hb, newAtom_not_pair _⟩
    exact fin _ _ (by omega) (by omega)
      (parseBody_k4 _ _ _ _ b rest (by omega) (by omega) (by omega) (by omega) (by omega))
  rw [if_neg h5, if_pos hl]
  have hs : b.length >>> 32 = b.length / 4294967296 := by simp [Nat.shiftRight_eq_div_pow]
  have hs24 : b.length >>> 24 = b.length / 16777216 := by simp [Nat.shiftRight_eq_div_pow]
  have hs16 : b.length >>> 16 = b.length / 65536 := by simp [Nat.shiftRight_eq_div_pow]
  have hs8 : b.length >>> 8 = b.length / 256 := by simp [Nat.shiftRight_eq_div_pow]
  have e := orf8 (b.length / 4294967296) (by omega)
  refine ⟨0xf8 + b.length / 4294967296,
    b.length / 16777216 % 256 :: b.length / 65536 % 256 :: b.length / 256 % 256 :: b.length % 256 :: (b ++ rest),
    newAtom b, by simp [hs, hs24, hs16, hs8, e], by omega, by omega, ?_, newAtom_bytes _ hb, newAtom_not_pair _⟩
  exact fin _ _ (by omega) (by omega)
    (parseBody_k5 _ _ _ _ _ b rest (by omega) (by omega) (by omega) (by omega) (by omega) (by omega))

end ChiaModel.TreeHash
